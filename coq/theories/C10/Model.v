(** C10 — executable model of the primer pattern matcher (pkg/obiapat: apat_parse.c, apat_search.c,
    obiapat.c, pattern.go) and of obialign.LocatePattern.
    A pattern is a list of positions, each a 26-bit symbol set (an [N] bit mask over the letters
    a..z, the value EncodePattern stores in [patcode]) and an obligatory flag (OBLIBIT).
    A text is the list of letter codes 0..25 that EncodeSequence stores in [Seq.data].
    State words of the automata are [N] below 2^64; the only places where the C code can leave
    64 bits ([1 << patlen], [~omask]) are written with the wrap / the 64-bit complement.
    Executable definitions only: proofs live in Proofs.v, property theorems in Props.v. *)
From Coq Require Import NArith ZArith List Bool.
Import ListNotations.
(* the tables and constants of the CURRENT build (regenerated on every run by tools/props/c10.py regen):
   dna_code_tab (sDnaCode), cdna_tab / cdna_other (LX_BIO_CDNA_ALPHA), iupac_tab (obialign._iupac),
   max_pat_len, max_pat_err, PATMASK, OBLIBIT, alpha_len, patword_bits *)
From OBI.C10.Gen Require Export Tables.

Definition sym : Type := (N * bool)%type.       (* symbol set, obligatory *)
Definition pattern : Type := list sym.
Definition W64 : N := (2 ^ 64)%N.
Definition ones64 : N := N.ones 64.

(** ---------------- specification side: mismatch counting ---------------- *)
Definition sym_match (s : sym) (c : N) : bool := N.testbit (fst s) c.

(** number of mismatching positions of [pat] against the word [w] of the same length; [None] when
    an obligatory position mismatches or the lengths differ *)
Fixpoint mism (pat : pattern) (w : list N) : option nat :=
  match pat, w with
  | [], [] => Some 0
  | s :: pat', c :: w' =>
      match mism pat' w' with
      | None => None
      | Some d => if sym_match s c then Some d else if snd s then None else Some (S d)
      end
  | _, _ => None
  end.

Definition hit (k : nat) (start : Z) (o : option nat) : list (Z * Z) :=
  match o with
  | Some d => if Nat.leb d k then [(start, Z.of_nat d)] else []
  | None => []
  end.

(** every start position [p] of the window [w] (whose first symbol has text position [pos0]) at
    which the pattern matches with at most [k] mismatches, with that number of mismatches *)
Definition find_all_spec (pat : pattern) (k : nat) (w : list N) (pos0 : Z) : list (Z * Z) :=
  flat_map (fun p => hit k (pos0 + Z.of_nat p) (mism pat (firstn (length pat) (skipn p w))))
           (seq 0 (S (length w) - length pat)).

(** ---------------- specification side: edit operations (Sellers' recurrence) ---------------- *)
Definition omin (a b : option nat) : option nat :=
  match a, b with
  | Some x, Some y => Some (Nat.min x y)
  | Some x, None => Some x
  | None, _ => b
  end.
Definition osucc (a : option nat) : option nat := match a with Some x => Some (S x) | None => None end.

(** [ed r hist]: least number of edit operations (substitution, insertion of a text symbol, deletion
    of a pattern position) that turn the pattern prefix whose reversal is [r] into a run of text
    ending at the head of [hist] (the text read so far, latest symbol first; the run may be empty and
    starts anywhere).  Semantics of apat_search.c for obligatory positions: an obligatory position
    takes part in no operation once a symbol has been read (before the first symbol any prefix of the
    pattern may be dropped).  [None] = impossible. *)
Fixpoint ed (r : pattern) : list N -> option nat :=
  match r with
  | [] => fun _ => Some 0
  | s :: r' =>
      fix edh (h : list N) : option nat :=
        match h with
        | [] => Some (length (s :: r'))
        | c :: h' =>
            omin (if sym_match s c then ed r' h' else None)
                 (if snd s then None
                  else osucc (omin (omin (ed r' h') (edh h')) (ed r' (c :: h'))))
        end
  end.

(** for every prefix of the window (n symbols read) the cost of the whole pattern against the end of
    that prefix, when within the budget; reported at the nominal start n - m like the code does *)
Definition sellers_spec (pat : pattern) (k : nat) (w : list N) (pos0 : Z) : list (Z * Z) :=
  flat_map (fun n => hit k (pos0 + Z.of_nat n - Z.of_nat (length pat))%Z (ed (rev pat) (rev (firstn n w))))
           (seq 1 (length w)).

(** ---------------- CreateS ---------------- *)
(* the loop of CreateS runs from the last pattern position (amask = 1) to the first (amask doubled
   each time): over the reversed pattern, position i of the reversed pattern is bit i *)
Fixpoint smat_r (rpat : pattern) (c : N) : N :=
  match rpat with
  | [] => 0
  | s :: r => (2 * smat_r r c + N.b2n (N.testbit (fst s) c))%N
  end.
Fixpoint omask_r (rpat : pattern) : N :=
  match rpat with
  | [] => 0
  | s :: r => (2 * omask_r r + N.b2n (snd s))%N
  end.
Definition smat (pat : pattern) (c : N) : N := smat_r (rev pat) c.
Definition omask (pat : pattern) : N := omask_r (rev pat).
Definition smask (pat : pattern) : N := (N.shiftl 1 (N.of_nat (length pat)) mod W64)%N.   (* 0x1L << patlen *)
Definition cmask (pat : pattern) : N := N.ldiff ones64 (omask pat).                        (* ~omask *)

(** ---------------- ManberNoErr ---------------- *)
Fixpoint noerr_scan (pat : pattern) (data : list N) (pos : Z) (r : N) : list (Z * Z) :=
  match data with
  | [] => []
  | c :: rest =>
      let r1 := N.land (N.shiftr r 1) (smat pat c) in
      let out := if N.testbit r1 0 then [((pos - Z.of_nat (length pat) + 1)%Z, 0%Z)] else [] in
      out ++ noerr_scan pat rest (pos + 1)%Z (N.lor r1 (smask pat))
  end.
Definition manber_noerr (pat : pattern) (data : list N) (pos : Z) : list (Z * Z) :=
  noerr_scan pat data pos (smask pat).

(** ---------------- ManberSub ---------------- *)
(* one text symbol, all error levels: [prev] is pr[0] (0 for level 0, then the pr[2] of the level
   below), [olds] the pr[3] of the levels still to do *)
Fixpoint sub_levels (sm cm sindx prev : N) (olds : list N) : list N :=
  match olds with
  | [] => []
  | o :: rest =>
      let p2 := N.lor o sm in
      let p3 := N.lor (N.land (N.shiftr prev 1) cm) (N.land (N.shiftr p2 1) sindx) in
      p3 :: sub_levels sm cm sindx p2 rest
  end.
(* the first level whose word has bit 0 set (the C loop pushes only when [found] is still 0) *)
Fixpoint first_hit (e : nat) (st : list N) : option nat :=
  match st with
  | [] => None
  | w :: rest => if N.testbit w 0 then Some e else first_hit (S e) rest
  end.
Fixpoint sub_scan (pat : pattern) (data : list N) (pos : Z) (st : list N) : list (Z * Z) :=
  match data with
  | [] => []
  | c :: rest =>
      let st' := sub_levels (smask pat) (cmask pat) (smat pat c) 0 st in
      let out := match first_hit 0 st' with
                 | Some e => [((pos - Z.of_nat (length pat) + 1)%Z, Z.of_nat e)]
                 | None => [] end in
      out ++ sub_scan pat rest (pos + 1)%Z st'
  end.
Definition manber_sub (pat : pattern) (k : nat) (data : list N) (pos : Z) : list (Z * Z) :=
  sub_scan pat data pos (repeat (smask pat) (S k)).

(** ---------------- ManberIndel ---------------- *)
Fixpoint indel_levels (sm cm sindx prev2 prev3 : N) (olds : list N) : list N :=
  match olds with
  | [] => []
  | o :: rest =>
      let p2 := N.lor o sm in
      let p3 := N.lor (N.land (N.lor (N.lor prev2 (N.shiftr prev2 1)) (N.shiftr prev3 1)) cm)
                      (N.land (N.shiftr p2 1) sindx) in
      p3 :: indel_levels sm cm sindx p2 p3 rest
  end.
Fixpoint indel_init (sm : N) (c : N) (n : nat) : list N :=
  match n with
  | O => []
  | S n' => c :: indel_init sm (N.lor (N.shiftr c 1) sm) n'
  end.
Fixpoint indel_scan (pat : pattern) (data : list N) (pos : Z) (st : list N) : list (Z * Z) :=
  match data with
  | [] => []
  | c :: rest =>
      let st' := indel_levels (smask pat) (cmask pat) (smat pat c) 0 0 st in
      let out := match first_hit 0 st' with
                 | Some e => [((pos - Z.of_nat (length pat) + 1)%Z, Z.of_nat e)]
                 | None => [] end in
      out ++ indel_scan pat rest (pos + 1)%Z st'
  end.
Definition manber_indel (pat : pattern) (k : nat) (data : list N) (pos : Z) : list (Z * Z) :=
  indel_scan pat data pos (indel_init (smask pat) (smask pat) (S k)).

(** ---------------- ManberAll + ApatPattern.FindAllIndex ---------------- *)
Definition MAX_PAT_LEN : Z := Z.of_N max_pat_len.           (* apat.h, regenerated: Gen/Tables.v *)
(* the text positions scanned: [begin, min(begin + length + MAX_PAT_LEN, seqlen)) *)
Definition win_begin (begin : Z) : Z := if (begin <? 0)%Z then 0%Z else begin.
Definition win_end (seqlen begin length : Z) : Z :=
  let b := win_begin begin in
  let l := if (length <? 0)%Z then seqlen else length in
  Z.min (b + (l + MAX_PAT_LEN)) seqlen.
Definition window (text : list N) (begin length : Z) : list N :=
  let b := win_begin begin in
  let e := win_end (Z.of_nat (List.length text)) begin length in
  firstn (Z.to_nat (e - b)) (skipn (Z.to_nat b) text).

Inductive res (A : Type) := Ok (a : A) | Unmodelled.     (* Unmodelled: patlen = 0 or >= 64 *)
Arguments Ok {A} a. Arguments Unmodelled {A}.

Definition manber_all (pat : pattern) (k : nat) (indel : bool) (data : list N) (pos : Z) : list (Z * Z) :=
  match k with
  | O => manber_noerr pat data pos
  | _ => if indel then manber_indel pat k data pos else manber_sub pat k data pos
  end.

Definition triple : Type := (Z * Z * Z)%type.
Definition find_all_index (pat : pattern) (k : nat) (indel : bool) (text : list N) (begin length : Z)
  : res (list triple) :=
  let m := List.length pat in
  if (Nat.eqb m 0) || (Nat.leb 64 m) then Unmodelled
  else Ok (map (fun h => (fst h, (fst h + Z.of_nat m)%Z, snd h))
               (manber_all pat k indel (window text begin length) (win_begin begin))).

(** ---------------- FilterBestMatch (as repaired), BestMatch without re-alignment ------- *)
Fixpoint filter_best_loop (res : list triple) (best : triple) : list triple :=
  match res with
  | [] => if (snd best <? 10000)%Z then [best] else []
  | h :: rest =>
      let '(b0, b1, b2) := best in
      let '(m0, m1, m2) := h in
      if (b2 =? 10000)%Z || (m0 - m2 <? b1 + b2)%Z then
        (if (m2 <? b2)%Z then filter_best_loop rest h else filter_best_loop rest best)
      else if (b2 <? 10000)%Z then best :: filter_best_loop rest h
      else filter_best_loop rest best
  end.
Definition filter_best (res : list triple) : list triple := filter_best_loop res (0, 0, 10000)%Z.

Fixpoint best_loop (res : list triple) (best : triple) : triple :=
  match res with
  | [] => best
  | h :: rest => if (snd h <? snd best)%Z then best_loop rest h else best_loop rest best
  end.
(* BestMatch when no re-alignment takes place (no indels, or an exact hit): start, end, nerr, matched *)
Definition best_match_noindel (res : list triple) (seqlen : Z) : Z * Z * Z * bool :=
  match res with
  | [] => (0, 0, 0, false)%Z
  | _ => let '(b0, b1, b2) := best_loop res (0, 0, 10000)%Z in
         if (b0 <? 0)%Z || (seqlen <? b1)%Z then (0, b1, b2, false)%Z else (b0, b1, b2, true)
  end.

(** ---------------- obialign.LocatePattern (as repaired by the fix: commits) ---------------- *)
(* bytes are [N]; obialign._samenuc over the regenerated obialign._iupac ([iupac_tab], Gen/Tables.v) *)
Definition lower (a : N) : N := if (65 <=? a)%N && (a <=? 90)%N then N.lor a 32 else a.
Definition samenuc (a b : N) : bool :=
  let a := lower a in let b := lower b in
  if (97 <=? a)%N && (a <=? 122)%N && (97 <=? b)%N && (b <=? 122)%N then
    negb (N.land (nth (N.to_nat (a - 97)) iupac_tab 0%N) (nth (N.to_nat (b - 97)) iupac_tab 0%N) =? 0)%N
  else (a =? b)%N.

(* one row of the matrix, columns 0..jmax: (score, path); [pd] = score of the previous row one column
   to the left, [prev] = scores of the previous row from this column on, [left] = score of this row one
   column to the left; the last column moves up for free; path: -1 left, 0 diagonal, 1 up (tested in
   that order) *)
Fixpoint fill_row (pat : list N) (c : N) (pd : Z) (prev : list Z) (left : Z) : list (Z * Z) :=
  match pat, prev with
  | p :: pat', up0 :: prev' =>
      let mt := if samenuc p c then 0%Z else (-1)%Z in
      let diag := (pd + mt)%Z in
      let l := (left - 1)%Z in
      let up := match pat' with [] => up0 | _ => (up0 - 1)%Z end in
      let score := Z.max (Z.max diag up) l in
      let path := if (score =? l)%Z then (-1)%Z else if (score =? diag)%Z then 0%Z else 1%Z in
      (score, path) :: fill_row pat' c up0 prev' score
  | _, _ => []
  end.
Definition first_row (m : nat) : list Z := map (fun j => (- Z.of_nat j - 1)%Z) (seq 0 m).
Fixpoint fill (pat : list N) (sq : list N) (prev : list Z) : list (list (Z * Z)) :=
  match sq with
  | [] => []
  | c :: rest => let row := fill_row pat c 0%Z prev 0%Z in row :: fill pat rest (map fst row)
  end.
Definition path_at (rows : list (list (Z * Z))) (i j : Z) : Z :=
  if (i <? 0)%Z then (-1)%Z else snd (nth (Z.to_nat j) (nth (Z.to_nat i) rows []) (0%Z, (-1)%Z)).
(* the back-tracking loop; [None] = out of fuel *)
Fixpoint backtrack (fuel : nat) (rows : list (list (Z * Z))) (i j e : Z) : option (Z * Z) :=
  match fuel with
  | O => None
  | S f =>
      let p := path_at rows i j in
      if (0 <? j)%Z || ((0 <=? i)%Z && (p =? 1)%Z) then
        if (p =? 0)%Z then backtrack f rows (i - 1)%Z (j - 1)%Z (if (e =? -1)%Z then i else e)
        else if (p =? 1)%Z then backtrack f rows (i - 1)%Z j e
        else backtrack f rows i (j - 1)%Z (if (e =? -1)%Z then i else e)
      else Some (i, e)
  end.
(* start, end, errors; [None] = empty pattern (panic) or out of fuel *)
Definition locate (pat sq : list N) : option triple :=
  match pat with
  | [] => None
  | _ =>
      let m := List.length pat in
      let rows := fill pat sq (first_row m) in
      let n := Z.of_nat (List.length sq) in
      let lastrow := match rev rows with [] => first_row m | r :: _ => map fst r end in
      let score := last lastrow 0%Z in
      match backtrack (List.length sq + m + 2) rows (n - 1)%Z (Z.of_nat m - 1)%Z (-1)%Z with
      | None => None
      | Some (i, e) =>
          let e := if (e =? -1)%Z then i else e in
          let i := if (i <? 0)%Z then 0%Z else i in
          Some (i, (e + 1)%Z, (- score)%Z)
      end
  end.

(** ---------------- AllMatches / BestMatch with re-alignment ---------------- *)
Definition slice (sq : list N) (a b : Z) : list N := firstn (Z.to_nat (b - a)) (skipn (Z.to_nat a) sq).
Definition realign_all (cpatb sq : list N) (m : Z) (h : triple) : option triple :=
  let '(m0, m1, m2) := h in
  let seqlen := Z.of_nat (List.length sq) in
  let start := Z.max (m0 - m2 * 2) 0 in
  let e := Z.min (start + m + 4 * m2) seqlen in
  if (e <? start)%Z then None
  else match locate cpatb (slice sq start e) with
       | Some (pb, pe, score) => Some ((start + pb)%Z, (start + pe)%Z, score)
       | None => None
       end.
Fixpoint all_matches_loop (cpatb sq : list N) (m k : Z) (indel : bool) (l : list triple) : option (list triple) :=
  match l with
  | [] => Some []
  | h :: rest =>
      match (if (0 <? snd h)%Z && indel then realign_all cpatb sq m h else Some h) with
      | None => None
      | Some h' =>
          match all_matches_loop cpatb sq m k indel rest with
          | None => None
          | Some r => Some (if (snd h' <=? k)%Z then h' :: r else r)
          end
      end
  end.
Definition all_matches (cpatb sq : list N) (m k : Z) (indel : bool) (res : list triple) : option (list triple) :=
  all_matches_loop cpatb sq m k indel (filter_best res).

Definition best_match (cpatb sq : list N) (m : Z) (indel : bool) (res : list triple) : option (Z * Z * Z * bool) :=
  let seqlen := Z.of_nat (List.length sq) in
  match res with
  | [] => Some (0, 0, 0, false)%Z
  | _ =>
      let '(b0, b1, b2) := best_loop res (0, 0, 10000)%Z in
      let noalign := (b2 =? 0)%Z || negb indel in
      if ((b0 <? 0)%Z && noalign) || (seqlen <? b1)%Z then Some (0, b1, b2, false)%Z
      else if noalign then Some (b0, b1, b2, true)
      else
        let start := Z.max (b0 - b2) 0 in
        let e := Z.min (b0 + m + b2) seqlen in
        if (e <? start)%Z then None
        else match locate cpatb (slice sq start e) with
             | Some (from, to, score) => Some ((start + from)%Z, (start + to)%Z, score, true)
             | None => None
             end
  end.

(** ---------------- complementPattern (on the encoded pattern) ---------------- *)
(* LX_BIO_CDNA_ALPHA = "TVGHEFCDIJMLKNOPQYSAABWXRZ" seen through the IUPAC encoding of apat_parse.c:
   on symbol sets it exchanges a<->t (bits 0, 19) and c<->g (bits 2, 6) *)
Definition swap_bits (x : N) (i j : N) : N :=
  let bi := N.testbit x i in let bj := N.testbit x j in
  let x1 := if bj then N.setbit x i else N.clearbit x i in
  if bi then N.setbit x1 j else N.clearbit x1 j.
Definition comp_set (x : N) : N := swap_bits (swap_bits x 0 19) 2 6.
Definition comp_pattern (pat : pattern) : pattern := rev (map (fun s => (comp_set (fst s), snd s)) pat).
Definition comp_base (c : N) : N :=
  if (c =? 0)%N then 19%N else if (c =? 19)%N then 0%N else if (c =? 2)%N then 6%N else if (c =? 6)%N then 2%N else c.
Definition revcomp_text (t : list N) : list N := rev (map comp_base t).

(** ---------------- apat_parse.c: CheckPattern, EncodePattern (on the bytes of the pattern string) ---------- *)
(* sDnaCode, letters A..Z: [dna_code_tab]; PATMASK: regenerated (Gen/Tables.v) *)
Definition is_upper (c : N) : bool := (65 <=? c)%N && (c <=? 90)%N.
Definition is_lower (c : N) : bool := (97 <=? c)%N && (c <=? 122)%N.
Definition to_upper (c : N) : N := if is_lower c then (c - 32)%N else c.
Definition dna_code (c : N) : N := nth (N.to_nat (c - 65)) dna_code_tab 0%N.
Definition ch_open : N := 91%N.   (* [ *)
Definition ch_close : N := 93%N.  (* ] *)
Definition ch_bang : N := 33%N.   (* ! *)
Definition ch_hash : N := 35%N.   (* # *)

(* CheckPattern: [prev] is the previous character (0 at the start), [lev] the bracket level *)
Fixpoint check_loop (s : list N) (prev : N) (lev : bool) : bool :=
  match s with
  | [] => negb lev
  | c :: r =>
      let next := match r with [] => 0%N | n :: _ => n end in
      if (c =? ch_open)%N then
        if lev || (next =? ch_close)%N then false else check_loop r c true
      else if (c =? ch_close)%N then
        if lev then check_loop r c false else false
      else if (c =? ch_bang)%N then
        if lev || (next =? 0)%N || (next =? ch_close)%N then false else check_loop r c lev
      else if (c =? ch_hash)%N then
        if lev || (prev =? ch_open)%N then false else check_loop r c lev
      else if is_upper c then check_loop r c lev else false
  end.
Definition check_pattern (s : list N) : bool :=
  match s with
  | c :: _ => if (c =? ch_hash)%N then false else check_loop s 0%N false
  | [] => true
  end.

(* valPattern on the letters of a class: OR of the codes of the leading upper-case letters *)
Fixpoint letters_val (s : list N) : N :=
  match s with
  | c :: r => if is_upper c then N.lor (dna_code c) (letters_val r) else 0%N
  | [] => 0%N
  end.
Fixpoint after_close (s : list N) : option (list N) :=      (* splitPattern on '[': up to the ']' *)
  match s with
  | [] => None
  | c :: r => if (c =? ch_close)%N then Some r else after_close r
  end.
(* one position: leading '!'s, a letter or a [class], an optional '#'; returns the position and the rest *)
Fixpoint one_position (fuel : nat) (s : list N) (neg : bool) : option (sym * list N) :=
  match fuel with
  | O => None
  | S f =>
      match s with
      | [] => None
      | c :: r =>
          if (c =? ch_bang)%N then one_position f r (negb neg)
          else
            let body := if (c =? ch_open)%N then
                          match after_close r with Some r' => Some (letters_val r, r') | None => None end
                        else Some (if is_upper c then dna_code c else 0%N, r) in
            match body with
            | None => None
            | Some (v, r') =>
                let v := if neg then N.land (N.lxor v PATMASK) PATMASK else v in
                (* obliBitPattern looks at the last character of the position: a '#' standing for the letter itself
                   (accepted by CheckPattern after a '#' or a '!': "A##", "A!#") also makes the position obligatory *)
                let ob0 := (c =? ch_hash)%N in
                match r' with
                | h :: r'' => if (h =? ch_hash)%N then Some ((v, true), r'') else Some ((v, ob0), r')
                | [] => Some ((v, ob0), [])
                end
            end
      end
  end.
Fixpoint encode_loop (fuel : nat) (s : list N) : option pattern :=
  match fuel with
  | O => None
  | S f =>
      match s with
      | [] => Some []
      | _ => match one_position (S (List.length s)) s false with
             | None => None
             | Some (p, rest) => match encode_loop f rest with Some l => Some (p :: l) | None => None end
             end
      end
  end.
(* buildPattern: UpperSequence, CheckPattern, EncodePattern (error when it yields no position) *)
Definition parse_pattern (str : list N) : option pattern :=
  let s := map to_upper str in
  if check_pattern s then
    match encode_loop (S (List.length s)) s with
    | Some [] => None
    | r => r
    end
  else None.

(* MakeApatPattern (as repaired): buildPattern, then patterns of MAX_PAT_LEN positions or more are refused ("pattern too long"):
   the state word has room for patlen + 1 bits *)
Definition make_pattern (str : list N) : option pattern :=
  match parse_pattern str with
  | Some p => if (MAX_PAT_LEN <=? Z.of_nat (List.length p))%Z then None else Some p
  | None => None
  end.

(** ---------------- ecoComplementPattern on the pattern string (as repaired) ---------------- *)
(* LX_BIO_CDNA_ALPHA, letters A..Z ("TVGHEFCDIJMLKNOPQYSAABWXRZ" when this was written): [cdna_tab]; any other byte
   that LXBioBaseComplement changes is listed in [cdna_other] (none when this was written) - both regenerated *)
Definition comp_letter (c : N) : N :=
  if is_upper c then nth (N.to_nat (c - 65)) cdna_tab c
  else match find (fun p => (fst p =? c)%N) cdna_other with Some p => snd p | None => c end.
Fixpoint tok_bangs (s : list N) : list N * list N :=
  match s with
  | c :: r => if (c =? ch_bang)%N then let (a, b) := tok_bangs r in (c :: a, b) else ([], s)
  | [] => ([], [])
  end.
Fixpoint tok_class (s : list N) : list N * list N :=          (* up to, not including, the ']' *)
  match s with
  | c :: r => if (c =? ch_close)%N then ([], s) else let (a, b) := tok_class r in (c :: a, b)
  | [] => ([], [])
  end.
Definition next_token (s : list N) : list N * list N :=
  let (b, s1) := tok_bangs s in
  let (cl, s2) := match s1 with
                  | c :: _ => if (c =? ch_open)%N then tok_class s1 else ([], s1)
                  | [] => ([], []) end in
  let (one, s3) := match s2 with c :: r => ([c], r) | [] => ([], []) end in
  let (h, s4) := match s3 with
                 | c :: r => if (c =? ch_hash)%N then ([c], r) else ([], s3)
                 | [] => ([], []) end in
  (b ++ cl ++ one ++ h, s4).
Fixpoint rev_tokens (fuel : nat) (s acc : list N) : list N :=
  match fuel with
  | O => acc
  | S f => match s with
           | [] => acc
           | _ => let (t, r) := next_token s in rev_tokens f r (t ++ acc)
           end
  end.
Definition comp_string (s : list N) : list N :=
  map (fun c => if (c =? ch_open)%N || (c =? ch_close)%N then c else comp_letter c)
      (rev_tokens (S (List.length s)) s []).
(* the letter table agrees with the complement of symbol sets, for the 26 letters *)
Definition comp_table_ok : bool :=
  forallb (fun i => let c := (65 + N.of_nat i)%N in (dna_code (comp_letter c) =? comp_set (dna_code c))%N) (seq 0 26).

(** ---------------- IUPAC nomenclature: specification of the two regenerated letter tables ---------------- *)
(* the bases (text letter codes a = 0, c = 2, g = 6, t = 19) each pattern letter A..Z stands for (NC-IUB 1984;
   U = T, X = N as in apat's DNA alphabet; the other letters stand for nothing) *)
Definition iupac_bases : list (list N) :=
  [[0]; [2;6;19]; [2]; [0;6;19]; []; []; [6]; [0;2;19]; []; []; [6;19]; []; [0;2]; [0;2;6;19]; []; []; []; [0;6]; [2;6];
   [19]; [19]; [0;2;6]; [0;19]; [0;2;6;19]; [2;19]; []]%N.
Definition bases_of (L : N) : list N := if is_upper L then nth (N.to_nat (L - 65)) iupac_bases [] else [].
Definition set_of (f : N -> N) (l : list N) : N := fold_right (fun b acc => N.lor (N.shiftl 1 (f b)) acc) 0%N l.
(* bit of a base in obialign._iupac: a = 0, c = 1, g = 2, t = 3 *)
Definition base_bit (b : N) : N := if (b =? 0)%N then 0%N else if (b =? 2)%N then 1%N else if (b =? 6)%N then 2%N else 3%N.
Definition letters26 : list N := map (fun i => (65 + N.of_nat i)%N) (seq 0 26).
(* sDnaCode: the symbol set of every letter is exactly its IUPAC base set *)
Definition dna_code_letter_ok (L : N) : bool := (dna_code L =? set_of (fun b => b) (bases_of L))%N.
(* obialign._iupac: the 4-bit code of every letter but x is exactly its IUPAC base set (x: code 0, observation) *)
Definition letter_X : N := 88%N.
Definition iupac_letter_ok (L : N) : bool :=
  (L =? letter_X)%N || (nth (N.to_nat (L - 65)) iupac_tab 0 =? set_of base_bit (bases_of L))%N.
(* the letters on which LocatePattern's comparison and the automaton's symbol sets are the same relation *)
Definition plain_letter (L : N) : bool := is_upper L && negb (L =? letter_X)%N.
Definition plain_codes : list N := [0; 2; 6; 19]%N.
Definition plain_text (t : list N) : bool := forallb (fun c => existsb (N.eqb c) plain_codes) t.
Definition plain_pat (cs : list N) : pattern := map (fun L => (dna_code L, false)) cs.
Definition text_bytes (t : list N) : list N := map (fun x => (x + 97)%N) t.
Definition samenuc_agree_letter (L : N) : bool :=
  forallb (fun c => Bool.eqb (samenuc L (c + 97)) (N.testbit (dna_code L) c)) plain_codes.
(* constants: the documented maximum pattern length is the width of the state word (so 1 << patlen leaves the word for
   patlen = MAX_PAT_LEN), budgets stay below the "no best match yet" marker of FilterBestMatch / BestMatch, 26 letters *)
Definition constants_ok : bool :=
  (max_pat_len =? patword_bits)%N && (patword_bits =? 64)%N && (max_pat_err <? 10000)%N && (alpha_len =? 26)%N &&
  (PATMASK =? N.ones 26)%N && (OBLIBIT =? N.shiftl 1 26)%N.

Definition triple_eqb (a b : triple) : bool :=
  let '(a0, a1, a2) := a in let '(b0, b1, b2) := b in (a0 =? b0)%Z && (a1 =? b1)%Z && (a2 =? b2)%Z.
Fixpoint list_eqb {A} (eqb : A -> A -> bool) (l1 l2 : list A) : bool :=
  match l1, l2 with
  | [], [] => true
  | a :: r1, b :: r2 => eqb a b && list_eqb eqb r1 r2
  | _, _ => false
  end.
Definition sym_eqb (a b : sym) : bool := (fst a =? fst b)%N && Bool.eqb (snd a) (snd b).

(* the documented grammar: every '#' directly follows a letter or a class ("A##", "A!#" pass CheckPattern too) *)
Fixpoint hash_after_position (prev : N) (s : list N) : bool :=
  match s with
  | [] => true
  | c :: r => (if (c =? ch_hash)%N then is_upper prev || (prev =? ch_close)%N else true) && hash_after_position c r
  end.
Definition opt_pattern_eqb (a b : option pattern) : bool :=
  match a, b with
  | Some x, Some y => list_eqb sym_eqb x y
  | None, None => true
  | _, _ => false
  end.
(* an accepted pattern string: the complemented string is accepted and encodes the complemented pattern *)
Definition comp_string_ok (s : list N) : bool :=
  match parse_pattern s with
  | None => true
  | Some P => opt_pattern_eqb (parse_pattern (comp_string s)) (Some (comp_pattern P))
  end.

(** ---------------- correspondence ---------------- *)
(** a correspondence case: inputs and what the implementation answered.
    [cstr]: the bytes of the pattern string given to MakeApatPattern; [cseq]: the bytes of the sequence (the automaton
    reads them through EncodeSequence, LocatePattern reads them as they are); [opatlen]: ApatPattern.Len();
    [oapis]: FilterBestMatch, AllMatches and BestMatch observed; [ocpat]: the bytes of the string of the
    complemented pattern (ApatPattern.ReverseComplement().String()) *)
(* obiapat.c EncodeSequence: a lower-case letter becomes its rank, ANY other byte becomes 0 (the code of 'a') *)
Definition encode_sequence (bytes : list N) : list N := map (fun b => if is_lower b then (b - 97)%N else 0%N) bytes.

(** ---------------- ApatPattern.IsMatching, ReverseComplement, IsPatternMatchSequence (predicat.go) ---------------- *)
(* the predicate behind obigrep --approx-pattern: the pattern and its reverse complement are compiled once (an error is fatal:
   log.Fatalf), then every sequence is asked IsMatching(aseq, 0, aseq.Len()) for the pattern and, when nothing was found and both
   strands are wanted, for the complemented pattern *)
Definition is_nil {A : Type} (l : list A) : bool := match l with [] => true | _ :: _ => false end.
Definition is_matching (pat : pattern) (k : nat) (indel : bool) (text : list N) (begin length : Z) : res bool :=
  match find_all_index pat k indel text begin length with
  | Ok l => Ok (negb (is_nil l))
  | Unmodelled => Unmodelled
  end.
(* complementPattern: ecoComplementPattern on the upper-cased string cpat, then CheckPattern / EncodePattern *)
Definition reverse_complement_pattern (str : list N) : option pattern := parse_pattern (comp_string (map to_upper str)).
Inductive pred_res := PFatal | PUnmodelled | PBool (b : bool).
Definition pattern_match_sequence (str : list N) (k : nat) (both indel : bool) (bytes : list N) : pred_res :=
  match make_pattern str with
  | None => PFatal
  | Some pat =>
      match reverse_complement_pattern str with
      | None => PFatal
      | Some cpat =>
          let text := encode_sequence bytes in
          let n := Z.of_nat (List.length text) in
          match is_matching pat k indel text 0 n with
          | Unmodelled => PUnmodelled
          | Ok true => PBool true
          | Ok false =>
              if both then match is_matching cpat k indel text 0 n with Ok b => PBool b | Unmodelled => PUnmodelled end
              else PBool false
          end
      end
  end.
Fixpoint preds_ok (str : list N) (k : nat) (both indel : bool) (seqs : list (list N)) (obs : list bool) : bool :=
  match seqs, obs with
  | [], [] => true
  | s :: seqs', b :: obs' =>
      match pattern_match_sequence str k both indel s with PBool b' => Bool.eqb b b' | _ => false end &&
      preds_ok str k both indel seqs' obs'
  | _, _ => false
  end.

(* obigrep --approx-pattern p1 --approx-pattern p2 ... --pattern-error k [--allows-indels] [--only-forward] (options.go,
   CLISequenceAgrep): one predicate object per pattern, both strands unless --only-forward, combined by And; a record is kept iff
   every predicate holds.  [grep_select]: the ranks (from [i] on) of the records kept, in order *)
Definition grep_keep (pats : list (list N)) (k : nat) (only_forward indel : bool) (bytes : list N) : option bool :=
  fold_right (fun str acc =>
                match acc, pattern_match_sequence str k (negb only_forward) indel bytes with
                | Some a, PBool b => Some (b && a)
                | _, _ => None
                end) (Some true) pats.
Fixpoint grep_select (i : Z) (pats : list (list N)) (k : nat) (only_forward indel : bool) (seqs : list (list N)) : option (list Z) :=
  match seqs with
  | [] => Some []
  | s :: rest =>
      match grep_keep pats k only_forward indel s, grep_select (i + 1) pats k only_forward indel rest with
      | Some b, Some l => Some (if b then i :: l else l)
      | _, _ => None
      end
  end.

Record ccase := mkc {
  cstr : list N; ck : nat; cindel : bool; cseq : list N (* the bytes held by the BioSequence *); cbegin : Z; clength : Z;
  opatlen : Z;
  ofind : list triple;
  oapis : option (list triple * list triple * (Z * Z * Z * bool));
  ocpat : option (list N) }.
Inductive anycase :=
| CMatch (c : ccase)
| CPatErr (str : list N)                      (* MakeApatPattern returned an error *)
| CLocate (pat sq : list N) (o : triple)
| CPred (str : list N) (k : nat) (both indel : bool) (seqs : list (list N)) (obs : list bool)    (* IsPatternMatchSequence, one object *)
| CGrep (pats : list (list N)) (k : nat) (only_forward indel : bool) (seqs : list (list N)) (obs : list Z).   (* an obigrep run *)

Definition best_eqb (a b : Z * Z * Z * bool) : bool :=
  let '(s, e, n, mt) := a in let '(s', e', n', mt') := b in
  Bool.eqb mt mt' && (if mt then (s =? s')%Z && (e =? e')%Z && (n =? n')%Z else true).

Definition case_ok (c : ccase) : bool :=
  match make_pattern (cstr c) with
  | None => false
  | Some pat =>
  (Z.of_nat (List.length pat) =? opatlen c)%Z &&
  match find_all_index pat (ck c) (cindel c) (encode_sequence (cseq c)) (cbegin c) (clength c) with
  | Unmodelled => false
  | Ok l =>
      let sq := cseq c in
      let m := Z.of_nat (List.length pat) in
      let cpatb := firstn (List.length pat) (map to_upper (cstr c)) in     (* cpat[0:patlen] *)
      list_eqb triple_eqb l (ofind c) &&
      match oapis c with
      | None => true
      | Some (f, a, b) =>
          list_eqb triple_eqb (filter_best l) f &&
          match all_matches cpatb sq m (Z.of_nat (ck c)) (cindel c) l with
          | Some a' => list_eqb triple_eqb a' a
          | None => false end &&
          match best_match cpatb sq m (cindel c) l with
          | Some b' => best_eqb b' b
          | None => false end
      end &&
      match ocpat c with
      | None => true
      | Some cs => list_eqb N.eqb (map to_upper cs) (comp_string (map to_upper (cstr c))) &&
                   match parse_pattern cs with
                   | Some p => list_eqb sym_eqb (comp_pattern pat) p
                   | None => false end
      end
  end
  end.
Definition anycase_ok (c : anycase) : bool :=
  match c with
  | CMatch c => case_ok c
  | CPatErr str => match make_pattern str with None => true | Some _ => false end
  | CLocate pat sq o => match locate pat sq with Some r => triple_eqb r o | None => false end
  | CPred str k both indel seqs obs => preds_ok str k both indel seqs obs
  | CGrep pats k onlyf indel seqs obs =>
      match grep_select 0 pats k onlyf indel seqs with Some l => list_eqb Z.eqb l obs | None => false end
  end.

Fixpoint mismatches_from (i : nat) (l : list anycase) : list nat :=
  match l with
  | [] => []
  | c :: l' => let rest := mismatches_from (S i) l' in if anycase_ok c then rest else i :: rest
  end.
Definition mismatches := mismatches_from 0.
