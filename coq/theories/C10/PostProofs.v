(** C10 — the Go post-processing at full strength: FilterBestMatch = one least-error representative per overlap cluster, pairwise
    disjoint; the edit scripts of LocatePattern (_samenuc) and of the automaton (symbol sets) agree on IUPAC-letter patterns and
    a/c/g/t texts; the hit list of FindAllIndex is well formed; BestMatch reports a match iff the automaton does; AllMatches never
    reports a match without a hit and, on the agreement domain, loses no filtered hit. *)
From Coq Require Import NArith ZArith List Bool Lia Sorted.
Import ListNotations.
From OBI.C10 Require Import Model Proofs.

(** ---------------- FilterBestMatch: one least-error representative per overlap cluster, pairwise disjoint ------------ *)
Definition start3 (h : triple) : Z := fst (fst h).
Definition end3 (h : triple) : Z := snd (fst h).
(* h joins the cluster whose best hit so far is b: the two spans, widened by their error counts, overlap *)
Definition reach (b h : triple) : bool := (start3 h - err3 h <? end3 b + err3 b)%Z.
(* the first hit of least error count of b :: l *)
Fixpoint argmin (b : triple) (l : list triple) : triple :=
  match l with [] => b | h :: r => argmin (if (err3 h <? err3 b)%Z then h else b) r end.
Definition rep (c : list triple) : triple := match c with [] => (0, 0, 10000)%Z | h :: r => argmin h r end.
(* greedy clustering of the hits in order: a hit joins the current cluster iff it is within reach of the best hit of the
   cluster so far, else it starts the next cluster *)
Fixpoint clusters_from (cur : list triple) (res : list triple) : list (list triple) :=
  match res with
  | [] => [cur]
  | h :: r => if reach (rep cur) h then clusters_from (cur ++ [h]) r else cur :: clusters_from [h] r
  end.
Definition clusters (res : list triple) : list (list triple) :=
  match res with [] => [] | h :: r => clusters_from [h] r end.

Lemma argmin_snoc : forall l b h, argmin b (l ++ [h]) = if (err3 h <? err3 (argmin b l))%Z then h else argmin b l.
Proof. induction l as [|x l IH]; intros b h; cbn [app argmin]; [reflexivity|apply IH]. Qed.

Lemma rep_snoc cur h : cur <> [] -> rep (cur ++ [h]) = if (err3 h <? err3 (rep cur))%Z then h else rep cur.
Proof. destruct cur as [|c l]; [congruence|]. intros _. cbn [app rep]. apply argmin_snoc. Qed.

Lemma argmin_spec : forall l b,
  In (argmin b l) (b :: l) /\ (forall h, In h (b :: l) -> (err3 (argmin b l) <= err3 h)%Z) /\
  exists l1 l2, b :: l = l1 ++ argmin b l :: l2 /\ forall h, In h l1 -> (err3 (argmin b l) < err3 h)%Z.
Proof.
  induction l as [|x l IH]; intros b; cbn [argmin].
  - split; [now left|]. split; [intros h [<-|[]]; lia|]. exists [], []. split; [reflexivity|intros h []].
  - destruct (Z.ltb_spec (err3 x) (err3 b)) as [Hlt|Hge].
    + destruct (IH x) as [Hin [Hmin [l1 [l2 [E Hfirst]]]]]. split; [now right|]. split.
      * intros h [<-|Hh]; [|now apply Hmin]. specialize (Hmin x (or_introl eq_refl)). lia.
      * exists (b :: l1), l2. split; [cbn [app]; now rewrite <- E|].
        intros h [<-|Hh]; [|now apply Hfirst]. specialize (Hmin x (or_introl eq_refl)). lia.
    + destruct (IH b) as [Hin [Hmin [l1 [l2 [E Hfirst]]]]]. split; [destruct Hin as [<-|Hin]; [now left|right; now right]|]. split.
      * intros h [<-|[<-|Hh]]; [apply Hmin; now left| |apply Hmin; now right]. specialize (Hmin b (or_introl eq_refl)). lia.
      * destruct l1 as [|y l1].
        -- cbn [app] in E. injection E as E1 E2. exists [], (x :: l). split; [cbn [app]; congruence|intros h []].
        -- cbn [app] in E. injection E as E1 E2. subst y.
           assert (Hx : (err3 (argmin b l) < err3 b)%Z) by (apply Hfirst; now left).
           exists (b :: x :: l1), l2. split; [cbn [app]; f_equal; f_equal; exact E2|].
           intros h Hh. destruct Hh as [Hh|[Hh|Hh]]; [subst h; exact Hx|subst h; lia|apply Hfirst; now right].
Qed.

(* the representative of a cluster: a member, of least error count, the first such *)
Lemma rep_spec c : c <> [] ->
  In (rep c) c /\ (forall h, In h c -> (err3 (rep c) <= err3 h)%Z) /\
  exists l1 l2, c = l1 ++ rep c :: l2 /\ forall h, In h l1 -> (err3 (rep c) < err3 h)%Z.
Proof. destruct c as [|b l]; [congruence|]. intros _. apply argmin_spec. Qed.

Lemma clusters_from_concat : forall res cur, concat (clusters_from cur res) = cur ++ res.
Proof.
  induction res as [|h r IH]; intros cur; cbn [clusters_from].
  - cbn. now rewrite !app_nil_r.
  - destruct (reach (rep cur) h); [rewrite IH, <- app_assoc; reflexivity|].
    cbn [concat]. rewrite IH. reflexivity.
Qed.
Lemma clusters_from_nonempty : forall res cur, cur <> [] -> Forall (fun c => c <> []) (clusters_from cur res).
Proof.
  induction res as [|h r IH]; intros cur Hc; cbn [clusters_from].
  - constructor; [exact Hc|constructor].
  - destruct (reach (rep cur) h); [apply IH; destruct cur; discriminate|]. constructor; [exact Hc|]. apply IH. discriminate.
Qed.
Lemma clusters_partition res : concat (clusters res) = res /\ Forall (fun c => c <> []) (clusters res).
Proof.
  destruct res as [|h r]; [split; [reflexivity|constructor]|]. cbn [clusters]. split.
  - apply clusters_from_concat.
  - apply clusters_from_nonempty. discriminate.
Qed.

Lemma filter_best_loop_clusters : forall res cur, cur <> [] -> (forall h, In h (cur ++ res) -> (err3 h < 10000)%Z) ->
  filter_best_loop res (rep cur) = map rep (clusters_from cur res).
Proof.
  induction res as [|h r IH]; intros cur Hc Hall.
  - cbn [filter_best_loop clusters_from map].
    destruct (rep_spec cur Hc) as [Hin _]. specialize (Hall (rep cur) ltac:(apply in_or_app; now left)). unfold err3 in Hall.
    destruct (Z.ltb_spec (snd (rep cur)) 10000); [reflexivity|lia].
  - cbn [filter_best_loop clusters_from].
    destruct (rep_spec cur Hc) as [Hin _]. pose proof (Hall (rep cur) ltac:(apply in_or_app; now left)) as Hb.
    pose proof (Hall h ltac:(apply in_or_app; right; now left)) as Hh.
    assert (Hr : rep (cur ++ [h]) = if (err3 h <? err3 (rep cur))%Z then h else rep cur) by (now apply rep_snoc).
    assert (IH1 := IH (cur ++ [h]) ltac:(destruct cur; discriminate) ltac:(intros x Hx; apply Hall; rewrite <- app_assoc in Hx; exact Hx)).
    assert (IH2 := IH [h] ltac:(discriminate) ltac:(intros x Hx; apply Hall; apply in_or_app; right; exact Hx)).
    unfold reach, start3, end3, err3 in *. destruct (rep cur) as [[b0 b1] b2] eqn:Eb. destruct h as [[m0 m1] m2]. cbn [fst snd] in *.
    destruct (Z.eqb_spec b2 10000); [lia|]. cbn [orb].
    destruct (m0 - m2 <? b1 + b2)%Z.
    + rewrite <- IH1, Hr. destruct (m2 <? b2)%Z; reflexivity.
    + destruct (Z.ltb_spec b2 10000); [|lia]. cbn [map]. rewrite <- IH2, Eb. reflexivity.
Qed.

(* FilterBestMatch reports the representatives of the clusters, in order *)
Lemma filter_best_clusters res : (forall h, In h res -> (err3 h < 10000)%Z) -> filter_best res = map rep (clusters res).
Proof.
  intros Hall. destruct res as [|h r]; [reflexivity|]. unfold filter_best. cbn [filter_best_loop clusters].
  pose proof (Hall h (or_introl eq_refl)) as Hh. destruct h as [[m0 m1] m2]. unfold err3 in Hh. cbn [snd] in Hh.
  replace (10000 =? 10000)%Z with true by reflexivity. cbn [orb]. destruct (Z.ltb_spec m2 10000); [|lia].
  change (m0, m1, m2) with (rep [(m0, m1, m2)]). apply filter_best_loop_clusters; [discriminate|exact Hall].
Qed.

(* every hit is represented by a reported hit of its cluster with no more errors *)
Lemma filter_best_covers res : (forall h, In h res -> (err3 h < 10000)%Z) ->
  forall h, In h res -> exists c, In c (clusters res) /\ In h c /\ In (rep c) (filter_best res) /\ (err3 (rep c) <= err3 h)%Z.
Proof.
  intros Hall h Hh. rewrite filter_best_clusters by exact Hall.
  destruct (clusters_partition res) as [Hc Hne]. rewrite <- Hc in Hh. apply in_concat in Hh. destruct Hh as [c [Hc1 Hc2]].
  exists c. split; [exact Hc1|]. split; [exact Hc2|]. split; [now apply in_map|].
  rewrite Forall_forall in Hne. destruct (rep_spec c (Hne c Hc1)) as [_ [Hmin _]]. now apply Hmin.
Qed.

(* the reported matches are pairwise disjoint (even widened by the error count of the earlier one), in increasing order *)
Definition before3 (g h : triple) : Prop := (end3 g + err3 g <= start3 h)%Z.
Lemma filter_best_loop_sorted : forall res best,
  StronglySorted (fun g h => (start3 g < start3 h)%Z) res -> (forall h, In h res -> (0 <= err3 h)%Z) ->
  StronglySorted before3 (filter_best_loop res best).
Proof.
  induction res as [|h r IH]; intros best Hs Hpos; cbn [filter_best_loop].
  - destruct (snd best <? 10000)%Z; repeat constructor.
  - apply StronglySorted_inv in Hs. destruct Hs as [Hs Hh].
    assert (Hpos' : forall x, In x r -> (0 <= err3 x)%Z) by (intros; apply Hpos; now right).
    pose proof (Hpos h (or_introl eq_refl)) as Hh0.
    destruct best as [[b0 b1] b2]. destruct h as [[m0 m1] m2].
    destruct (Z.eqb_spec b2 10000) as [E|E]; cbn [orb].
    + destruct (m2 <? b2)%Z; now apply IH.
    + destruct (Z.ltb_spec (m0 - m2) (b1 + b2)) as [Hlt|Hge].
      * destruct (m2 <? b2)%Z; now apply IH.
      * destruct (b2 <? 10000)%Z; [|now apply IH]. constructor; [now apply IH|].
        apply Forall_forall. intros g Hg. apply filter_best_loop_in in Hg.
        unfold before3, end3, start3, err3 in *. cbn [fst snd] in *.
        destruct Hg as [[-> _]|Hg]; [cbn [fst snd]; lia|].
        rewrite Forall_forall in Hh. specialize (Hh g Hg). cbn [fst snd] in Hh. lia.
Qed.
Lemma filter_best_disjoint res :
  StronglySorted (fun g h => (start3 g < start3 h)%Z) res -> (forall h, In h res -> (0 <= err3 h)%Z) ->
  StronglySorted before3 (filter_best res).
Proof. apply filter_best_loop_sorted. Qed.

(** ---------------- goal 4: LocatePattern's edit scripts (alg, _samenuc) and the automaton's (aligned, symbol sets) ------ *)
From OBI.C10 Require Import TableProofs.

Lemma plain_text_cons c run : plain_text (c :: run) = true -> In c plain_codes /\ plain_text run = true.
Proof.
  unfold plain_text. cbn [forallb]. rewrite andb_true_iff. intros [H1 H2]. split; [|exact H2].
  apply existsb_exists in H1. destruct H1 as [x [Hx E]]. apply N.eqb_eq in E. now subst.
Qed.

Lemma alg_to_aligned : forall cs x d, alg cs x d -> forall run, x = text_bytes run ->
  forallb plain_letter cs = true -> plain_text run = true -> aligned (plain_pat cs) run d.
Proof.
  induction 1 as [|p r c x d _ IH|r c x d _ IH|p r x d _ IH]; intros run E Hcs Hrun.
  - destruct run; [constructor|discriminate].
  - destruct run as [|c0 run]; [discriminate|]. cbn [text_bytes map] in E. injection E as -> ->.
    cbn [forallb] in Hcs. apply andb_true_iff in Hcs. destruct Hcs as [Hp Hr].
    apply plain_text_cons in Hrun. destruct Hrun as [Hc Hrun]. cbn [plain_pat map].
    unfold mcost. rewrite samenuc_agrees by assumption.
    destruct (sym_match (dna_code p, false) c0) eqn:Em.
    + rewrite Nat.add_0_r. apply al_match; [exact Em|]. now apply IH.
    + rewrite Nat.add_1_r. apply al_sub. now apply IH.
  - destruct run as [|c0 run]; [discriminate|]. cbn [text_bytes map] in E. injection E as -> ->.
    apply plain_text_cons in Hrun. destruct Hrun as [Hc Hrun]. apply al_ins. now apply IH.
  - cbn [forallb] in Hcs. apply andb_true_iff in Hcs. destruct Hcs as [Hp Hr]. cbn [plain_pat map]. apply al_del. now apply IH.
Qed.

Lemma aligned_to_alg : forall pat run d, aligned pat run d -> forall cs, pat = plain_pat cs ->
  forallb plain_letter cs = true -> plain_text run = true -> exists d', d' <= d /\ alg cs (text_bytes run) d'.
Proof.
  induction 1 as [|s r c x d Hm _ IH|s r c x d _ IH|r c x d _ IH|s r x d _ IH]; intros cs E Hcs Hrun.
  - destruct cs; [|discriminate]. exists 0. split; [lia|constructor].
  - destruct cs as [|p cs]; [discriminate|]. cbn [plain_pat map] in E. injection E as -> ->.
    cbn [forallb] in Hcs. apply andb_true_iff in Hcs. destruct Hcs as [Hp Hr].
    apply plain_text_cons in Hrun. destruct Hrun as [Hc Hrun].
    destruct (IH cs eq_refl Hr Hrun) as [d' [Hd A]]. exists (d' + mcost p (c + 97)). split.
    + unfold mcost. rewrite samenuc_agrees, Hm by assumption. lia.
    + cbn [text_bytes map]. now apply alg_step.
  - destruct cs as [|p cs]; [discriminate|]. cbn [plain_pat map] in E. injection E as -> ->.
    cbn [forallb] in Hcs. apply andb_true_iff in Hcs. destruct Hcs as [Hp Hr].
    apply plain_text_cons in Hrun. destruct Hrun as [Hc Hrun].
    destruct (IH cs eq_refl Hr Hrun) as [d' [Hd A]]. exists (d' + mcost p (c + 97)). split.
    + unfold mcost. destruct (samenuc p (c + 97)); lia.
    + cbn [text_bytes map]. now apply alg_step.
  - apply plain_text_cons in Hrun. destruct Hrun as [Hc Hrun].
    destruct (IH cs E Hcs Hrun) as [d' [Hd A]]. exists (S d'). split; [lia|]. cbn [text_bytes map]. now apply alg_ins.
  - destruct cs as [|p cs]; [discriminate|]. cbn [plain_pat map] in E. injection E as -> ->.
    cbn [forallb] in Hcs. apply andb_true_iff in Hcs. destruct Hcs as [Hp Hr].
    destruct (IH cs eq_refl Hr Hrun) as [d' [Hd A]]. exists (S d'). split; [lia|]. now apply alg_del.
Qed.

Definition least (P : nat -> Prop) (d : nat) : Prop := P d /\ forall d', P d' -> d <= d'.

(* on patterns made of IUPAC letters (X excepted) and a/c/g/t texts the two notions of edit script have the same scripts up
   to needless substitutions, hence the same edit distance *)
Lemma alg_aligned_agree cs run : forallb plain_letter cs = true -> plain_text run = true ->
  (forall d, alg cs (text_bytes run) d -> aligned (plain_pat cs) run d) /\
  (forall d, aligned (plain_pat cs) run d -> exists d', d' <= d /\ alg cs (text_bytes run) d') /\
  (forall d, least (alg cs (text_bytes run)) d <-> least (aligned (plain_pat cs) run) d).
Proof.
  intros Hcs Hrun.
  assert (F : forall d, alg cs (text_bytes run) d -> aligned (plain_pat cs) run d) by (intros d A; now apply (alg_to_aligned cs _ d A run)).
  assert (G : forall d, aligned (plain_pat cs) run d -> exists d', d' <= d /\ alg cs (text_bytes run) d') by (intros d A; now apply (aligned_to_alg _ run d A cs)).
  split; [exact F|]. split; [exact G|]. intros d. split; intros [H1 H2].
  - split; [now apply F|]. intros d'' A. destruct (G d'' A) as [d' [Hd A']]. specialize (H2 d' A'). lia.
  - destruct (G d H1) as [d' [Hd A']]. pose proof (H2 d' (F d' A')) as Hle. assert (d' = d) by lia. subst d'.
    split; [exact A'|]. intros d'' A. apply H2. now apply F.
Qed.

(** ---------------- the hit list of FindAllIndex is well formed ---------------- *)
Definition hits_wf (m k : nat) (indel : bool) (seqlen : Z) (l : list triple) : Prop :=
  StronglySorted (fun g h => (start3 g < start3 h)%Z) l /\
  forall a b c, In (a, b, c) l -> b = (a + Z.of_nat m)%Z /\ (0 <= c <= Z.of_nat k)%Z /\ (1 <= b <= seqlen)%Z /\
                                  ((a < 0)%Z -> indel = true /\ (1 <= c)%Z).

Lemma ed_zero_len : forall r h, ed r h = Some 0 -> length r <= length h.
Proof.
  induction r as [|s r IH]; intros h H; [cbn; lia|]. induction h as [|c h IHh].
  - rewrite ed_nil in H. discriminate.
  - rewrite ed_cons in H. apply omin_some in H. destruct H as [H|H].
    + destruct (sym_match s c); [|discriminate]. apply IH in H. cbn [length]. lia.
    + destruct (snd s); [discriminate|]. apply osucc_some in H. destruct H as [d' [H _]]. discriminate.
Qed.

Lemma sellers_spec_sorted pat k w pos0 : StronglySorted pos_lt (sellers_spec pat k w pos0).
Proof.
  unfold sellers_spec.
  rewrite (flat_map_ext_in' _ (fun n => hit k ((pos0 - Z.of_nat (length pat)) + Z.of_nat n)%Z (ed (rev pat) (rev (firstn n w))))).
  - apply (hits_sorted_gen k (pos0 - Z.of_nat (length pat))%Z (fun n => ed (rev pat) (rev (firstn n w)))).
  - intros n _. f_equal. lia.
Qed.

Lemma to_triples_sorted m hl : StronglySorted pos_lt hl -> StronglySorted (fun g h => (start3 g < start3 h)%Z) (to_triples m hl).
Proof.
  induction 1 as [|h l _ IH Hf]; [constructor|]. cbn [to_triples map]. constructor; [exact IH|].
  apply Forall_map. eapply Forall_impl; [|exact Hf]. intros a Ha. exact Ha.
Qed.

Lemma win_bounds (text : list N) begin length :
  (0 <= win_begin begin)%Z /\ (win_end (Z.of_nat (List.length text)) begin length <= Z.of_nat (List.length text))%Z.
Proof. unfold win_end, win_begin. destruct (Z.ltb_spec begin 0); lia. Qed.

Lemma find_all_index_hits_wf pat k indel text begin length l :
  1 <= List.length pat -> List.length pat <= 63 ->
  find_all_index pat k indel text begin length = Ok l ->
  hits_wf (List.length pat) k indel (Z.of_nat (List.length text)) l.
Proof.
  intros H1 H63 Hl.
  pose proof (window_length text begin length) as HL. destruct (win_bounds text begin length) as [Hwb Hwe].
  set (wb := win_begin begin) in *. set (we := win_end (Z.of_nat (List.length text)) begin length) in *.
  assert (Hmode : (indel = false \/ k = 0) \/ (indel = true /\ 1 <= k)) by (destruct indel; destruct k; auto; right; split; auto; lia).
  destruct Hmode as [Hmode|[-> Hk]].
  - rewrite find_all_index_exact in Hl by assumption. injection Hl as <-. split.
    + apply to_triples_sorted, find_all_spec_sorted.
    + intros a b c Hin. unfold to_triples in Hin. apply in_map_iff in Hin. destruct Hin as [[p d] [E Hin]]. cbn [fst snd] in E.
      injection E as <- <- <-. apply find_all_spec_In in Hin. destruct Hin as [i [d' [-> [-> [Hi [_ Hd]]]]]].
      fold wb. repeat split; try lia.
  - rewrite find_all_index_indel in Hl by assumption. injection Hl as <-. split.
    + apply to_triples_sorted, sellers_spec_sorted.
    + intros a b c Hin. unfold to_triples in Hin. apply in_map_iff in Hin. destruct Hin as [[p d] [E Hin]]. cbn [fst snd] in E.
      injection E as <- <- <-. apply sellers_spec_In in Hin. destruct Hin as [n [d' [Hn [-> [-> [He Hd]]]]]].
      fold wb. repeat split; try lia.
      destruct d' as [|d']; [|lia]. apply ed_zero_len in He. rewrite !rev_length, firstn_length in He. lia.
Qed.

(** ---------------- BestMatch reports a match iff the automaton does ---------------- *)
Lemma best_loop_in_res res : res <> [] -> (forall h, In h res -> (err3 h < 10000)%Z) -> In (best_loop res (0, 0, 10000)%Z) res.
Proof.
  intros Hne Hall. destruct res as [|h r]; [congruence|]. cbn [best_loop].
  pose proof (Hall h (or_introl eq_refl)) as Hh. unfold err3 in Hh. cbn [snd].
  destruct (Z.ltb_spec (snd h) 10000); [|lia].
  destruct (best_loop_in r h) as [->|Hin]; [now left|now right].
Qed.

Lemma best_match_iff m k indel seqlen l cpatb sq :
  hits_wf m k indel seqlen l -> 1 <= m -> (Z.of_nat k < 10000)%Z -> cpatb <> [] -> Z.of_nat (List.length sq) = seqlen ->
  exists s e n mt, best_match cpatb sq (Z.of_nat m) indel l = Some (s, e, n, mt) /\ (mt = true <-> l <> []).
Proof.
  intros [_ Hwf] Hm Hk Hc Hsq. unfold best_match. destruct l as [|h0 l0].
  - exists 0%Z, 0%Z, 0%Z, false. split; [reflexivity|]. split; [discriminate|congruence].
  - set (res := h0 :: l0) in *.
    assert (Hin : In (best_loop res (0, 0, 10000)%Z) res).
    { apply best_loop_in_res; [discriminate|]. intros [[a b] c] Hh. destruct (Hwf a b c Hh) as (_&Hc'&_). unfold err3. cbn [snd]. lia. }
    destruct (best_loop res (0, 0, 10000)%Z) as [[b0 b1] b2]. destruct (Hwf b0 b1 b2 Hin) as (Hb1&Hb2&Hb3&Hb4).
    rewrite Hsq. set (noalign := ((b2 =? 0)%Z || negb indel)).
    assert (C : ((b0 <? 0)%Z && noalign) || (seqlen <? b1)%Z = false).
    { apply orb_false_iff. split; [|apply Z.ltb_ge; lia].
      destruct (Z.ltb_spec b0 0) as [Hneg|]; [|reflexivity]. destruct (Hb4 Hneg) as [-> Hc1]. unfold noalign.
      destruct (Z.eqb_spec b2 0); [lia|reflexivity]. }
    rewrite C. destruct noalign.
    + exists b0, b1, b2, true. split; [reflexivity|]. split; [discriminate|reflexivity].
    + set (start := Z.max (b0 - b2) 0). set (en := Z.min (b0 + Z.of_nat m + b2) seqlen).
      destruct (Z.ltb_spec en start) as [Hlt|_]; [unfold start, en in Hlt; lia|].
      destruct (locate cpatb (slice sq start en)) as [[[from to] sc]|] eqn:L; [|now apply locate_total in L].
      eexists _, _, _, true. split; [reflexivity|]. split; [discriminate|reflexivity].
Qed.

(** ---------------- AllMatches: never a match without a hit; on the agreement domain no hit is lost ---------------- *)
Lemma all_matches_loop_length cpatb sq m k indel : forall l r, all_matches_loop cpatb sq m k indel l = Some r -> length r <= length l.
Proof.
  induction l as [|h l IH]; intros r H; cbn [all_matches_loop] in H; [injection H as <-; cbn; lia|].
  destruct (if (0 <? snd h)%Z && indel then realign_all cpatb sq m h else Some h) as [h'|]; [|discriminate].
  destruct (all_matches_loop cpatb sq m k indel l) as [r0|]; [|discriminate]. specialize (IH r0 eq_refl).
  injection H as <-. destruct (snd h' <=? k)%Z; cbn [length]; lia.
Qed.

Lemma all_matches_sound cpatb sq m k indel l r : all_matches cpatb sq m k indel l = Some r -> r <> [] -> l <> [].
Proof.
  intros H Hr ->. unfold all_matches in H. cbn in H. injection H as <-. congruence.
Qed.

Lemma aligned_length pat run d : aligned pat run d -> length pat <= length run + d /\ length run <= length pat + d.
Proof. induction 1; cbn [length]; lia. Qed.

Lemma plain_text_app a b : plain_text (a ++ b) = plain_text a && plain_text b.
Proof. unfold plain_text. apply forallb_app. Qed.

Lemma text_bytes_app a b : text_bytes (a ++ b) = text_bytes a ++ text_bytes b.
Proof. unfold text_bytes. apply map_app. Qed.

Lemma slice_contains (sq A R B : list N) start e : sq = A ++ R ++ B -> (0 <= start <= Z.of_nat (length A))%Z ->
  (Z.of_nat (length A + length R) <= e)%Z -> exists A' B', slice sq start e = A' ++ R ++ B'.
Proof.
  intros -> Hs He. unfold slice. rewrite skipn_app. replace (Z.to_nat start - length A) with 0 by lia. cbn [skipn].
  exists (skipn (Z.to_nat start) A), (firstn (Z.to_nat (e - start) - length (skipn (Z.to_nat start) A ++ R)) B).
  rewrite (app_assoc _ R B). rewrite firstn_app. rewrite firstn_all2.
  - now rewrite <- app_assoc.
  - rewrite app_length, skipn_length. lia.
Qed.

Lemma no_oblig_plain cs : no_oblig (plain_pat cs).
Proof. intros s Hs. unfold plain_pat in Hs. apply in_map_iff in Hs. destruct Hs as [L [<- _]]. reflexivity. Qed.

Lemma plain_pat_length cs : length (plain_pat cs) = length cs.
Proof. apply map_length. Qed.

(* an indel hit with errors is re-aligned to a span whose cost does not exceed the automaton's *)
Lemma realign_kept cs text k begin len m0 m1 m2 :
  forallb plain_letter cs = true -> plain_text text = true -> 1 <= List.length cs -> List.length cs <= 63 ->
  In (m0, m2) (manber_indel (plain_pat cs) k (window text begin len) (win_begin begin)) ->
  exists s e sc, realign_all cs (text_bytes text) (Z.of_nat (List.length cs)) (m0, m1, m2) = Some (s, e, sc) /\ (sc <= m2)%Z.
Proof.
  intros Hcs Htext H1 H63 Hin.
  pose proof (window_length text begin len) as HL. destruct (win_bounds text begin len) as [Hwb Hwe].
  set (wb := win_begin begin) in *. set (we := win_end (Z.of_nat (List.length text)) begin len) in *.
  set (w := window text begin len) in *. set (m := List.length cs) in *.
  destruct (indel_sound_fwd (plain_pat cs) k w wb m0 m2 ltac:(rewrite plain_pat_length; exact H1) ltac:(rewrite plain_pat_length; exact H63)
              (no_oblig_plain cs) Hin) as [n [before [run [d' [Hn [Ef [-> [-> [Hd A]]]]]]]]].
  rewrite plain_pat_length in *. fold m.
  destruct (aligned_length _ _ _ A) as [Hl1 Hl2]. rewrite plain_pat_length in Hl1, Hl2. fold m in Hl1, Hl2.
  (* the run inside the text *)
  assert (Ew : firstn n w = firstn n (skipn (Z.to_nat wb) text)).
  { unfold w, window. fold wb we. rewrite firstn_firstn. f_equal. lia. }
  assert (Et : text = (firstn (Z.to_nat wb) text ++ before) ++ run ++ skipn n (skipn (Z.to_nat wb) text)).
  { rewrite <- app_assoc. rewrite (app_assoc before run). rewrite <- Ef, Ew, firstn_skipn, firstn_skipn. reflexivity. }
  set (pre := firstn (Z.to_nat wb) text ++ before) in *. set (post := skipn n (skipn (Z.to_nat wb) text)) in *.
  assert (Hlen : length before + length run = n).
  { rewrite <- app_length, <- Ef, firstn_length. lia. }
  assert (Hpre : length pre = Z.to_nat wb + length before).
  { unfold pre. rewrite app_length, firstn_length. lia. }
  assert (Hrun : plain_text run = true).
  { rewrite Et in Htext. rewrite !plain_text_app in Htext. apply andb_true_iff in Htext. destruct Htext as [_ Ht].
    apply andb_true_iff in Ht. tauto. }
  destruct (aligned_to_alg _ run d' A cs eq_refl Hcs Hrun) as [d'' [Hd'' Ag]].
  unfold realign_all. replace (List.length (text_bytes text)) with (List.length text) by (unfold text_bytes; now rewrite map_length).
  set (start := Z.max (wb + Z.of_nat n - Z.of_nat m - Z.of_nat d' * 2) 0).
  set (en := Z.min (start + Z.of_nat m + 4 * Z.of_nat d') (Z.of_nat (List.length text))).
  assert (Hlt : (List.length text >= Z.to_nat wb + n)). { rewrite HL in Hn. lia. }
  destruct (Z.ltb_spec en start) as [Hbad|_]; [unfold start, en in Hbad; lia|].
  destruct (locate cs (slice (text_bytes text) start en)) as [[[pb pe] sc]|] eqn:L.
  2:{ apply locate_total in L; [destruct L|]. destruct cs; [cbn in H1; lia|discriminate]. }
  eexists _, _, sc. split; [reflexivity|].
  destruct (locate_score_minimal _ _ _ _ _ L) as [d0 [-> [_ Hmin]]].
  destruct (slice_contains (text_bytes text) (text_bytes pre) (text_bytes run) (text_bytes post) start en) as [A' [B' Es]].
  - rewrite Et at 1. now rewrite !text_bytes_app.
  - unfold text_bytes. rewrite map_length. unfold start. lia.
  - unfold text_bytes. rewrite !map_length. unfold en, start. lia.
  - specialize (Hmin A' (text_bytes run) B' d'' Es Ag). lia.
Qed.

Lemma filter_best_nonempty l : (forall h, In h l -> (err3 h < 10000)%Z) -> (filter_best l <> [] <-> l <> []).
Proof.
  intros Hall. split.
  - intros H ->. now apply H.
  - intros H E. destruct (filter_best_min l H Hall) as [g [Hg _]]. rewrite E in Hg. destruct Hg.
Qed.

Lemma all_matches_complete cs text k indel begin len l :
  forallb plain_letter cs = true -> plain_text text = true -> 1 <= List.length cs -> List.length cs <= 63 -> (Z.of_nat k < 10000)%Z ->
  find_all_index (plain_pat cs) k indel text begin len = Ok l ->
  exists r, all_matches cs (text_bytes text) (Z.of_nat (List.length cs)) (Z.of_nat k) indel l = Some r /\
            List.length r = List.length (filter_best l) /\ (r <> [] <-> l <> []).
Proof.
  intros Hcs Htext H1 H63 Hk Hl.
  pose proof (find_all_index_hits_wf _ _ _ _ _ _ _ ltac:(rewrite plain_pat_length; exact H1) ltac:(rewrite plain_pat_length; exact H63) Hl) as [_ Hwf].
  rewrite plain_pat_length in Hwf.
  assert (Hall : forall h, In h l -> (err3 h < 10000)%Z).
  { intros [[a b] c] Hh. destruct (Hwf a b c Hh) as (_&Hc&_). unfold err3. cbn [snd]. lia. }
  assert (Hloop : forall L, (forall h, In h L -> In h l) ->
            exists r, all_matches_loop cs (text_bytes text) (Z.of_nat (List.length cs)) (Z.of_nat k) indel L = Some r /\ length r = length L).
  { induction L as [|h L IH]; intros HL; [exists []; split; reflexivity|].
    destruct (IH ltac:(intros x Hx; apply HL; now right)) as [r0 [Er0 Hr0]].
    pose proof (HL h (or_introl eq_refl)) as Hh. destruct h as [[m0 m1] m2]. destruct (Hwf m0 m1 m2 Hh) as (Hm1&Hm2&_).
    cbn [all_matches_loop snd]. destruct ((0 <? m2)%Z && indel) eqn:Ere.
    - apply andb_true_iff in Ere. destruct Ere as [Hpos ->]. apply Z.ltb_lt in Hpos.
      assert (Hin : In (m0, m2) (manber_indel (plain_pat cs) k (window text begin len) (win_begin begin))).
      { unfold find_all_index in Hl. rewrite plain_pat_length in Hl.
        destruct (Nat.eqb_spec (List.length cs) 0) as [E|_]; [lia|].
        destruct (Nat.leb_spec 64 (List.length cs)) as [E|_]; [lia|]. cbn [orb] in Hl. injection Hl as <-.
        apply in_map_iff in Hh. destruct Hh as [[p d] [E Hp]]. cbn [fst snd] in E. injection E as <- _ <-.
        unfold manber_all in Hp. destruct k as [|k']; [lia|]. exact Hp. }
      destruct (realign_kept cs text k begin len m0 m1 m2 Hcs Htext H1 H63 Hin) as [s [e [sc [Er Hsc]]]].
      rewrite Er, Er0. cbn [snd]. destruct (Z.leb_spec sc (Z.of_nat k)) as [_|Hbad]; [|lia].
      eexists. split; [reflexivity|]. cbn [length]. now rewrite Hr0.
    - rewrite Er0. cbn [snd]. destruct (Z.leb_spec m2 (Z.of_nat k)) as [_|Hbad]; [|lia].
      eexists. split; [reflexivity|]. cbn [length]. now rewrite Hr0. }
  destruct (Hloop (filter_best l) (filter_best_sublist l)) as [r [Er Hr]].
  exists r. split; [exact Er|]. split; [exact Hr|].
  rewrite <- (filter_best_nonempty l Hall). destruct r, (filter_best l); cbn in Hr; try lia; split; congruence.
Qed.

Lemma best_match_iff_fai pat k indel text begin len l cpatb sq :
  1 <= List.length pat -> List.length pat <= 63 -> (Z.of_nat k < 10000)%Z -> cpatb <> [] -> List.length sq = List.length text ->
  find_all_index pat k indel text begin len = Ok l ->
  exists s e n mt, best_match cpatb sq (Z.of_nat (List.length pat)) indel l = Some (s, e, n, mt) /\ (mt = true <-> l <> []).
Proof.
  intros H1 H63 Hk Hc Hsq Hl.
  apply (best_match_iff (List.length pat) k indel (Z.of_nat (List.length text)) l cpatb sq).
  - now apply (find_all_index_hits_wf pat k indel text begin len).
  - exact H1.
  - exact Hk.
  - exact Hc.
  - now rewrite Hsq.
Qed.
(** on the agreement domain the count reported by AllMatches / BestMatch for a re-aligned match is the edit distance, in the
    automaton's own terms (symbol sets), between the pattern and the reported span of the sequence *)
Lemma slice_text_bytes (text : list N) s e : slice (text_bytes text) s e = text_bytes (slice text s e).
Proof. unfold slice, text_bytes. now rewrite skipn_map, firstn_map. Qed.

Lemma plain_text_firstn n t : plain_text t = true -> plain_text (firstn n t) = true.
Proof.
  unfold plain_text. rewrite !forallb_forall. intros H x Hx. apply H. rewrite <- (firstn_skipn n t). apply in_or_app. now left.
Qed.
Lemma plain_text_skipn n t : plain_text t = true -> plain_text (skipn n t) = true.
Proof.
  unfold plain_text. rewrite !forallb_forall. intros H x Hx. apply H. rewrite <- (firstn_skipn n t). apply in_or_app. now right.
Qed.
Lemma plain_text_slice t s e : plain_text t = true -> plain_text (slice t s e) = true.
Proof. intros H. unfold slice. now apply plain_text_firstn, plain_text_skipn. Qed.

Lemma realign_all_edit_distance cs text m h s e d :
  forallb plain_letter cs = true -> plain_text text = true ->
  realign_all cs (text_bytes text) m h = Some (s, e, d) ->
  (0 <= s <= e)%Z /\ (e <= Z.of_nat (List.length text))%Z /\
  exists d', d = Z.of_nat d' /\ least (aligned (plain_pat cs) (slice text s e)) d'.
Proof.
  intros Hcs Ht H. destruct (realign_all_correct _ _ _ _ _ _ _ H) as [Hs [He [d' [-> [A Hmin]]]]].
  unfold text_bytes in He. rewrite map_length in He. split; [exact Hs|]. split; [exact He|]. exists d'. split; [reflexivity|].
  rewrite slice_text_bytes in A, Hmin.
  apply (proj2 (proj2 (alg_aligned_agree cs (slice text s e) Hcs (plain_text_slice _ _ _ Ht)))). split; assumption.
Qed.

Lemma best_match_edit_distance cs text m res s e n :
  forallb plain_letter cs = true -> plain_text text = true ->
  snd (best_loop res (0, 0, 10000)%Z) <> 0%Z ->
  best_match cs (text_bytes text) m true res = Some (s, e, n, true) ->
  (0 <= s <= e)%Z /\ (e <= Z.of_nat (List.length text))%Z /\
  exists d', n = Z.of_nat d' /\ least (aligned (plain_pat cs) (slice text s e)) d'.
Proof.
  intros Hcs Ht Hb H. destruct (best_match_realigned_correct _ _ _ _ _ _ _ Hb H) as [Hs [He [d' [-> [A Hmin]]]]].
  unfold text_bytes in He. rewrite map_length in He. split; [exact Hs|]. split; [exact He|]. exists d'. split; [reflexivity|].
  rewrite slice_text_bytes in A, Hmin.
  apply (proj2 (proj2 (alg_aligned_agree cs (slice text s e) Hcs (plain_text_slice _ _ _ Ht)))). split; assumption.
Qed.
