(** C10 — lemmas: the bit-parallel automata of apat_search.c compute exactly the mismatch
    specification (see Props.v for the property theorems). *)
From Coq Require Import NArith ZArith List Bool Lia Arith.
Import ListNotations.
From OBI.C10 Require Import Model.

(** ** generic list facts *)
Lemma flat_map_nil {A B} (f : A -> list B) l : (forall x, In x l -> f x = []) -> flat_map f l = [].
Proof.
  induction l as [|a l IH]; intros H; cbn; [reflexivity|].
  rewrite (H a (or_introl eq_refl)), IH; [reflexivity|]. intros x Hx. apply H. now right.
Qed.
Lemma flat_map_ext_in' {A B} (f g : A -> list B) l : (forall x, In x l -> f x = g x) -> flat_map f l = flat_map g l.
Proof.
  induction l as [|a l IH]; intros H; cbn; [reflexivity|].
  rewrite (H a (or_introl eq_refl)), IH; [reflexivity|]. intros x Hx. apply H. now right.
Qed.
Lemma flat_map_map {A B C} (g : A -> B) (f : B -> list C) l : flat_map f (map g l) = flat_map (fun x => f (g x)) l.
Proof. induction l as [|a l IH]; cbn; [reflexivity|]. now rewrite IH. Qed.
Lemma seq_shift_n n s len : seq (s + n) len = map (fun p => p + n) (seq s len).
Proof.
  revert s. induction len as [|len IH]; intros s; cbn; [reflexivity|].
  f_equal. exact (IH (S s)).
Qed.
Lemma firstn_add {A} p m (w : list A) : firstn (p + m) w = firstn p w ++ firstn m (skipn p w).
Proof.
  revert w. induction p as [|p IH]; intros w; cbn; [reflexivity|].
  destruct w as [|a w]; cbn; [now rewrite firstn_nil|]. now rewrite IH.
Qed.
Lemma skipn_nth_error {A} (l : list A) i x : nth_error l i = Some x -> skipn i l = x :: skipn (S i) l.
Proof.
  revert l. induction i as [|i IH]; intros l H; destruct l as [|a l]; cbn in *; try discriminate.
  - now inversion H.
  - now apply IH.
Qed.

(** ** the count of mismatches, read from the last position backwards *)
Definition mstep (s : sym) (c : N) (d : nat) : option nat :=
  if sym_match s c then Some d else if snd s then None else Some (S d).
Definition obind (o : option nat) (f : nat -> option nat) : option nat :=
  match o with Some d => f d | None => None end.

(* reversed pattern against the history (latest symbol first); the history may be longer *)
Fixpoint rmism (rpat : pattern) (hist : list N) : option nat :=
  match rpat with
  | [] => Some 0
  | s :: r => match hist with
              | [] => None
              | c :: h => obind (rmism r h) (mstep s c)
              end
  end.

Lemma mism_cons s pat c w : mism (s :: pat) (c :: w) = obind (mism pat w) (mstep s c).
Proof. cbn [mism]. unfold obind, mstep. destruct (mism pat w); reflexivity. Qed.

Lemma mstep_comm s1 c1 s2 c2 d :
  obind (mstep s1 c1 d) (mstep s2 c2) = obind (mstep s2 c2 d) (mstep s1 c1).
Proof. unfold obind, mstep. destruct (sym_match s1 c1), (snd s1), (sym_match s2 c2), (snd s2); reflexivity. Qed.

Lemma rmism_snoc r : forall h s c t, length h = length r ->
  rmism (r ++ [s]) (h ++ c :: t) = obind (rmism r (h ++ c :: t)) (mstep s c).
Proof.
  induction r as [|s1 r IH]; intros h s c t Hl; destruct h as [|c1 h]; cbn in Hl; try discriminate.
  - reflexivity.
  - cbn [app rmism]. rewrite IH by lia.
    destruct (rmism r (h ++ c :: t)) as [d|]; cbn [obind]; [|reflexivity].
    apply mstep_comm.
Qed.

Lemma rmism_rev pat : forall x t, length x = length pat -> rmism (rev pat) (rev x ++ t) = mism pat x.
Proof.
  induction pat as [|s pat IH]; intros x t Hl; destruct x as [|c x]; cbn in Hl; try discriminate.
  - reflexivity.
  - cbn [rev]. rewrite <- app_assoc. cbn [app].
    rewrite rmism_snoc by (rewrite !rev_length; lia).
    rewrite IH by lia. now rewrite mism_cons.
Qed.

Lemma rmism_short rpat : forall h, length h < length rpat -> rmism rpat h = None.
Proof.
  induction rpat as [|s r IH]; intros h Hl; cbn in Hl; [lia|].
  destruct h as [|c h]; cbn; [reflexivity|]. cbn in Hl. now rewrite IH by lia.
Qed.

Definition le_o (o : option nat) (e : nat) : bool := match o with Some d => d <=? e | None => false end.
Definition lt_o (o : option nat) (e : nat) : bool := match o with Some d => d <? e | None => false end.

(** ** bits of the masks *)
Lemma testbit_smat_r rpat c : forall i,
  N.testbit (smat_r rpat c) (N.of_nat i) = match nth_error rpat i with Some s => N.testbit (fst s) c | None => false end.
Proof.
  induction rpat as [|s r IH]; intros i; cbn [smat_r].
  - rewrite N.bits_0. now destruct i.
  - destruct i as [|i].
    + cbn [nth_error N.of_nat]. apply N.testbit_0_r.
    + rewrite Nat2N.inj_succ, N.testbit_succ_r. cbn [nth_error]. apply IH.
Qed.
Lemma testbit_omask_r rpat : forall i,
  N.testbit (omask_r rpat) (N.of_nat i) = match nth_error rpat i with Some s => snd s | None => false end.
Proof.
  induction rpat as [|s r IH]; intros i; cbn [omask_r].
  - rewrite N.bits_0. now destruct i.
  - destruct i as [|i].
    + cbn [nth_error N.of_nat]. apply N.testbit_0_r.
    + rewrite Nat2N.inj_succ, N.testbit_succ_r. cbn [nth_error]. apply IH.
Qed.

Section Automaton.
Variable pat : pattern.
Let m := length pat.
Let rpat := rev pat.
Hypothesis Hm1 : 1 <= m.
Hypothesis Hm63 : m <= 63.

Lemma rpat_len : length rpat = m.
Proof. unfold rpat, m. apply rev_length. Qed.

Lemma smask_val : smask pat = (2 ^ N.of_nat m)%N.
Proof.
  unfold smask. fold m. rewrite N.shiftl_1_l. apply N.mod_small.
  unfold W64. apply N.pow_lt_mono_r; lia.
Qed.
Lemma smask_bit b : N.testbit (smask pat) b = (N.of_nat m =? b)%N.
Proof. rewrite smask_val. apply N.pow2_bits_eqb. Qed.

Lemma cmask_bit i s : nth_error rpat i = Some s -> N.testbit (cmask pat) (N.of_nat i) = negb (snd s).
Proof.
  intros H. unfold cmask, omask. fold rpat. rewrite N.ldiff_spec, testbit_omask_r, H.
  assert (Hi : i < m). { rewrite <- rpat_len. apply nth_error_Some. now rewrite H. }
  unfold ones64. rewrite N.ones_spec_low by lia. reflexivity.
Qed.
Lemma smat_bit c i s : nth_error rpat i = Some s -> N.testbit (smat pat c) (N.of_nat i) = sym_match s c.
Proof. intros H. unfold smat. fold rpat. now rewrite testbit_smat_r, H. Qed.

(** invariant of one state word: level [e], after the symbols [hist] (latest first); [V r hist] is
    the cost of the pattern prefix whose reversal is [r] against the end of the history *)
Definition WInvG (V : pattern -> list N -> option nat) (w : N) (e : nat) (hist : list N) : Prop :=
  (forall i, i < m -> N.testbit w (N.of_nat i) = le_o (V (skipn i rpat) hist) e) /\
  (forall b, (N.of_nat m < b)%N -> N.testbit w b = false).
Fixpoint LevelsInvG (V : pattern -> list N -> option nat) (e : nat) (st : list N) (hist : list N) : Prop :=
  match st with
  | [] => True
  | w :: r => WInvG V w e hist /\ LevelsInvG V (S e) r hist
  end.
Definition WInv := WInvG rmism.
Definition LevelsInv := LevelsInvG rmism.
(* what pr[0] must be for level e: (word of level e-1) | smask, or 0 below level 0 *)
Definition PrevOK (prev : N) (e : nat) (hist : list N) : Prop :=
  (forall i, i < m -> N.testbit prev (N.of_nat (S i)) = lt_o (rmism (skipn (S i) rpat) hist) e) /\
  (forall b, (N.of_nat m < b)%N -> N.testbit prev b = false).

Lemma skipn_m_rpat : skipn m rpat = [].
Proof. rewrite <- rpat_len. apply skipn_all. Qed.

Lemma p2_prev_ok o e hist : WInv o e hist -> PrevOK (N.lor o (smask pat)) (S e) hist.
Proof.
  intros [Hb Hh]. split.
  - intros i Hi. rewrite N.lor_spec, smask_bit.
    destruct (Nat.eq_dec (S i) m) as [E|E].
    + rewrite E, N.eqb_refl, orb_true_r, skipn_m_rpat. reflexivity.
    + replace (N.of_nat m =? N.of_nat (S i))%N with false by (symmetry; apply N.eqb_neq; lia).
      rewrite orb_false_r, Hb by lia.
      unfold le_o, lt_o. destruct (rmism (skipn (S i) rpat) hist); reflexivity.
  - intros b Hb'. rewrite N.lor_spec, smask_bit, Hh by lia.
    replace (N.of_nat m =? b)%N with false by (symmetry; apply N.eqb_neq; lia). reflexivity.
Qed.

Lemma bool_step (o : option nat) (mt ob : bool) e :
  (lt_o o e && negb ob) || (le_o o e && mt) =
  le_o (obind o (fun d => if mt then Some d else if ob then None else Some (S d))) e.
Proof.
  destruct o as [d|]; cbn [obind lt_o le_o]; [|reflexivity].
  destruct mt, ob; cbn [negb le_o]; rewrite ?andb_true_r, ?andb_false_r, ?orb_false_r;
    try reflexivity;
    destruct (d <=? e) eqn:E; rewrite ?orb_true_r, ?orb_false_r; try reflexivity;
    apply Nat.ltb_ge; apply Nat.leb_gt in E; lia.
Qed.

Lemma sub_word_inv prev o e hist c :
  PrevOK prev e hist -> WInv o e hist ->
  WInv (N.lor (N.land (N.shiftr prev 1) (cmask pat))
              (N.land (N.shiftr (N.lor o (smask pat)) 1) (smat pat c))) e (c :: hist).
Proof.
  intros [Pb Ph] Wo. destruct (p2_prev_ok _ _ _ Wo) as [Qb Qh]. split.
  - intros i Hi.
    assert (Hn : exists s, nth_error rpat i = Some s).
    { destruct (nth_error rpat i) eqn:E; [eauto|]. apply nth_error_None in E. rewrite rpat_len in E. lia. }
    destruct Hn as [s Hs].
    rewrite N.lor_spec, !N.land_spec, !N.shiftr_spec', (cmask_bit _ _ Hs), (smat_bit c _ _ Hs).
    replace (N.of_nat i + 1)%N with (N.of_nat (S i)) by lia.
    rewrite Pb, Qb by lia.
    rewrite (skipn_nth_error _ _ _ Hs). cbn [rmism].
    replace (lt_o (rmism (skipn (S i) rpat) hist) (S e)) with (le_o (rmism (skipn (S i) rpat) hist) e)
      by (unfold le_o, lt_o; destruct (rmism (skipn (S i) rpat) hist); reflexivity).
    rewrite bool_step. unfold mstep. reflexivity.
  - intros b Hb. rewrite N.lor_spec, !N.land_spec, !N.shiftr_spec'.
    rewrite Ph, Qh by lia. reflexivity.
Qed.

Lemma sub_levels_inv c hist : forall olds e prev,
  PrevOK prev e hist -> LevelsInv e olds hist ->
  LevelsInv e (sub_levels (smask pat) (cmask pat) (smat pat c) prev olds) (c :: hist).
Proof.
  induction olds as [|o olds IH]; intros e prev HP HL; cbn [sub_levels LevelsInv]; [exact I|].
  destruct HL as [Wo HL]. split.
  - now apply sub_word_inv.
  - apply IH; [now apply p2_prev_ok | exact HL].
Qed.

Lemma sub_levels_length sm cm sx : forall olds prev, length (sub_levels sm cm sx prev olds) = length olds.
Proof. induction olds as [|o olds IH]; intros prev; cbn; [reflexivity|]. now rewrite IH. Qed.

Lemma prev0_ok hist : PrevOK 0 0 hist.
Proof.
  split; intros; rewrite N.bits_0; [|reflexivity].
  unfold lt_o. destruct (rmism _ hist); reflexivity.
Qed.

Lemma init_inv : forall n e, LevelsInv e (repeat (smask pat) n) [].
Proof.
  induction n as [|n IH]; intros e; cbn [repeat LevelsInv]; [exact I|]. split; [|apply IH].
  split.
  - intros i Hi. rewrite smask_bit.
    replace (N.of_nat m =? N.of_nat i)%N with false by (symmetry; apply N.eqb_neq; lia).
    rewrite rmism_short; [reflexivity|]. rewrite skipn_length, rpat_len. cbn. lia.
  - intros b Hb. rewrite smask_bit. apply N.eqb_neq. lia.
Qed.

Lemma first_hit_specG V hist : forall st e, LevelsInvG V e st hist ->
  first_hit e st = match V rpat hist with
                   | Some d => if Nat.max d e <? e + length st then Some (Nat.max d e) else None
                   | None => None end.
Proof.
  induction st as [|w st IH]; intros e HL.
  - cbn [first_hit length]. destruct (V rpat hist) as [d|]; [|reflexivity].
    destruct (Nat.ltb_spec (Nat.max d e) (e + 0)); [lia|reflexivity].
  - destruct HL as [[Hb _] HL]. cbn [first_hit].
    specialize (Hb 0 ltac:(lia)). cbn [N.of_nat skipn] in Hb. rewrite Hb, (IH _ HL).
    destruct (V rpat hist) as [d|]; cbn [le_o]; [|reflexivity].
    cbn [length].
    destruct (Nat.leb_spec d e) as [E|E].
    + replace (Nat.max d e) with e by lia.
      destruct (Nat.ltb_spec e (e + S (length st))); [reflexivity|lia].
    + replace (Nat.max d (S e)) with (Nat.max d e) by lia.
      replace (S e + length st) with (e + S (length st)) by lia. reflexivity.
Qed.
Definition first_hit_spec := first_hit_specG rmism.

(** the automaton seen from the text: after each symbol, look back at the last [m] symbols *)
Fixpoint back_scan (k : nat) (data : list N) (hist : list N) (pos : Z) : list (Z * Z) :=
  match data with
  | [] => []
  | c :: rest => hit k (pos - Z.of_nat m + 1)%Z (rmism rpat (c :: hist)) ++ back_scan k rest (c :: hist) (pos + 1)%Z
  end.

Lemma sub_scan_back k : forall data hist pos st,
  LevelsInv 0 st hist -> length st = S k ->
  sub_scan pat data pos st = back_scan k data hist pos.
Proof.
  induction data as [|c rest IH]; intros hist pos st HL Hlen; cbn [sub_scan back_scan]; [reflexivity|].
  pose proof (sub_levels_inv c hist st 0 0 (prev0_ok hist) HL) as HL'.
  rewrite (first_hit_spec _ _ _ HL'), sub_levels_length, Hlen.
  rewrite (IH (c :: hist) (pos + 1)%Z _ HL') by (now rewrite sub_levels_length).
  f_equal. fold m. unfold hit.
  destruct (rmism rpat (c :: hist)) as [d|]; [|reflexivity].
  rewrite Nat.max_0_r. cbn [plus].
  replace (d <? S k) with (d <=? k); [destruct (d <=? k); reflexivity|].
  destruct (d <=? k) eqn:E; symmetry.
  - apply Nat.ltb_lt. apply Nat.leb_le in E. lia.
  - apply Nat.ltb_ge. apply Nat.leb_gt in E. lia.
Qed.

Lemma back_scan_flat k : forall data hist pos,
  back_scan k data hist pos =
  flat_map (fun n => hit k (pos + Z.of_nat n - Z.of_nat m)%Z (rmism rpat (rev (firstn n data) ++ hist)))
           (seq 1 (length data)).
Proof.
  induction data as [|c rest IH]; intros hist pos; cbn [back_scan length seq flat_map]; [reflexivity|].
  f_equal.
  - cbn. f_equal. lia.
  - rewrite IH, <- (seq_shift (length rest) 1), flat_map_map. apply flat_map_ext. intros n.
    cbn [firstn rev]. rewrite <- app_assoc. cbn [app]. f_equal. lia.
Qed.

Lemma back_scan_spec k w pos : back_scan k w [] pos = find_all_spec pat k w pos.
Proof.
  rewrite back_scan_flat. unfold find_all_spec. fold m.
  destruct (le_lt_dec m (length w)) as [Hle|Hgt].
  - replace (length w) with ((m - 1) + (S (length w) - m)) at 1 by lia.
    rewrite seq_app, flat_map_app.
    rewrite flat_map_nil.
    2:{ intros n Hn. apply in_seq in Hn. rewrite rmism_short; [reflexivity|].
        rewrite app_nil_r, rev_length, firstn_length, rpat_len. lia. }
    cbn [app]. replace (1 + (m - 1)) with (0 + m) by lia.
    rewrite seq_shift_n, flat_map_map. apply flat_map_ext_in'.
    intros p Hp. apply in_seq in Hp.
    rewrite app_nil_r, firstn_add, rev_app_distr.
    unfold rpat. rewrite rmism_rev.
    2:{ rewrite firstn_length, skipn_length. fold m. lia. }
    f_equal. lia.
  - replace (S (length w) - m) with 0 by lia. cbn [seq flat_map].
    apply flat_map_nil. intros n Hn. apply in_seq in Hn. rewrite rmism_short; [reflexivity|].
    rewrite app_nil_r, rev_length, firstn_length, rpat_len. lia.
Qed.

Lemma manber_sub_exact k w pos : manber_sub pat k w pos = find_all_spec pat k w pos.
Proof.
  unfold manber_sub. rewrite (sub_scan_back k w [] pos).
  - apply back_scan_spec.
  - apply init_inv.
  - apply repeat_length.
Qed.

(** ManberNoErr is the level-0 automaton *)
Lemma noerr_scan_sub : forall data pos o,
  noerr_scan pat data pos (N.lor o (smask pat)) = sub_scan pat data pos [o].
Proof.
  induction data as [|c rest IH]; intros pos o; cbn [noerr_scan sub_scan sub_levels first_hit]; [reflexivity|].
  rewrite N.shiftr_0_l, N.land_0_l, N.lor_0_l.
  rewrite IH. destruct (N.testbit _ 0); reflexivity.
Qed.
Lemma manber_noerr_exact w pos : manber_noerr pat w pos = find_all_spec pat 0 w pos.
Proof.
  unfold manber_noerr.
  replace (noerr_scan pat w pos (smask pat)) with (noerr_scan pat w pos (N.lor (smask pat) (smask pat)))
    by (now rewrite N.lor_diag).
  rewrite noerr_scan_sub. exact (manber_sub_exact 0 w pos).
Qed.

(** *** ManberIndel computes Sellers' recurrence [ed] *)
Lemma ed_nil r : ed r [] = Some (length r).
Proof. destruct r; reflexivity. Qed.
Lemma ed_empty h : ed [] h = Some 0.
Proof. reflexivity. Qed.
Lemma ed_cons s r c h :
  ed (s :: r) (c :: h) =
  omin (if sym_match s c then ed r h else None)
       (if snd s then None else osucc (omin (omin (ed r h) (ed (s :: r) h)) (ed r (c :: h)))).
Proof. reflexivity. Qed.

Lemma bool_step_indel (o1 o2 o3 : option nat) (mt ob : bool) e :
  ((lt_o o2 e || lt_o o1 e || lt_o o3 e) && negb ob) || (le_o o1 e && mt) =
  le_o (omin (if mt then o1 else None) (if ob then None else osucc (omin (omin o1 o2) o3))) e.
Proof.
  destruct o1 as [a|], o2 as [b|], o3 as [c|], mt, ob; cbn [lt_o le_o omin osucc negb orb andb];
    rewrite ?andb_true_r, ?andb_false_r, ?orb_false_r, ?orb_true_r; try reflexivity;
    repeat match goal with
           | |- context [?x <=? ?y] => destruct (Nat.leb_spec x y)
           | |- context [?x <? ?y] => destruct (Nat.ltb_spec x y)
           end; cbn [orb andb]; first [reflexivity | exfalso; lia].
Qed.

Definition WInvI := WInvG ed.
Definition LevelsInvI := LevelsInvG ed.
(* pr[0] (old word of the level below | smask, or 0) and pr[1] (new word of the level below, or 0) *)
Definition Prev2OK (prev2 : N) (e : nat) (hist : list N) : Prop :=
  (forall i, i <= m -> N.testbit prev2 (N.of_nat i) = lt_o (ed (skipn i rpat) hist) e) /\
  (forall b, (N.of_nat m < b)%N -> N.testbit prev2 b = false).
Definition Prev3OK (prev3 : N) (e : nat) (hist' : list N) : Prop :=
  (forall i, S i < m -> N.testbit prev3 (N.of_nat (S i)) = lt_o (ed (skipn (S i) rpat) hist') e) /\
  (N.testbit prev3 (N.of_nat m) = true -> 1 <= e) /\
  (forall b, (N.of_nat m < b)%N -> N.testbit prev3 b = false).

Lemma p2_prev2_ok o e hist : WInvI o e hist -> Prev2OK (N.lor o (smask pat)) (S e) hist.
Proof.
  intros [Hb Hh]. split.
  - intros i Hi. rewrite N.lor_spec, smask_bit.
    destruct (Nat.eq_dec i m) as [E|E].
    + rewrite E, N.eqb_refl, orb_true_r, skipn_m_rpat. reflexivity.
    + replace (N.of_nat m =? N.of_nat i)%N with false by (symmetry; apply N.eqb_neq; lia).
      rewrite orb_false_r, Hb by lia.
      unfold le_o, lt_o. destruct (ed (skipn i rpat) hist); reflexivity.
  - intros b Hb'. rewrite N.lor_spec, smask_bit, Hh by lia.
    replace (N.of_nat m =? b)%N with false by (symmetry; apply N.eqb_neq; lia). reflexivity.
Qed.

Lemma new_prev3_ok w e hist' : WInvI w e hist' -> Prev3OK w (S e) hist'.
Proof.
  intros [Hb Hh]. split; [|split].
  - intros i Hi. rewrite Hb by lia. unfold le_o, lt_o. destruct (ed (skipn (S i) rpat) hist'); reflexivity.
  - lia.
  - exact Hh.
Qed.

Lemma cmask_bit_m : N.testbit (cmask pat) (N.of_nat m) = true.
Proof.
  unfold cmask, omask. fold rpat. rewrite N.ldiff_spec, testbit_omask_r.
  replace (nth_error rpat m) with (@None sym) by (symmetry; apply nth_error_None; rewrite rpat_len; lia).
  unfold ones64. rewrite N.ones_spec_low by lia. reflexivity.
Qed.

Lemma indel_word_inv prev2 prev3 o e hist c :
  Prev2OK prev2 e hist -> Prev3OK prev3 e (c :: hist) -> WInvI o e hist ->
  WInvI (N.lor (N.land (N.lor (N.lor prev2 (N.shiftr prev2 1)) (N.shiftr prev3 1)) (cmask pat))
               (N.land (N.shiftr (N.lor o (smask pat)) 1) (smat pat c))) e (c :: hist).
Proof.
  intros [Pb Ph] [Rb [Rm Rh]] Wo. destruct (p2_prev2_ok _ _ _ Wo) as [Qb Qh]. split.
  - intros i Hi.
    assert (Hn : exists s, nth_error rpat i = Some s).
    { destruct (nth_error rpat i) eqn:E; [eauto|]. apply nth_error_None in E. rewrite rpat_len in E. lia. }
    destruct Hn as [s Hs].
    rewrite N.lor_spec, !N.land_spec, !N.lor_spec, !N.shiftr_spec', (cmask_bit _ _ Hs), (smat_bit c _ _ Hs).
    replace (N.of_nat i + 1)%N with (N.of_nat (S i)) by lia.
    rewrite (Pb i), (Pb (S i)), (Qb (S i)) by lia.
    rewrite (skipn_nth_error _ _ _ Hs), ed_cons.
    replace (lt_o (ed (skipn (S i) rpat) hist) (S e)) with (le_o (ed (skipn (S i) rpat) hist) e)
      by (unfold le_o, lt_o; destruct (ed (skipn (S i) rpat) hist); reflexivity).
    rewrite <- bool_step_indel.
    destruct (Nat.eq_dec (S i) m) as [E|E].
    + (* the deletion term reads bit m of the word below: redundant with the substitution term *)
      rewrite E, skipn_m_rpat, !ed_empty. cbn [lt_o].
      destruct (N.testbit prev3 (N.of_nat m)) eqn:X.
      * specialize (Rm eq_refl). destruct (Nat.ltb_spec 0 e); [|lia].
        rewrite !orb_true_r. reflexivity.
      * destruct (lt_o (ed [s] hist) e), (0 <? e); reflexivity.
    + rewrite Rb by lia. reflexivity.
  - intros b Hb. rewrite N.lor_spec, !N.land_spec, !N.lor_spec, !N.shiftr_spec'.
    rewrite Ph, Ph, Rh, Qh by lia. reflexivity.
Qed.

Lemma indel_levels_inv c hist : forall olds e prev2 prev3,
  Prev2OK prev2 e hist -> Prev3OK prev3 e (c :: hist) -> LevelsInvI e olds hist ->
  LevelsInvI e (indel_levels (smask pat) (cmask pat) (smat pat c) prev2 prev3 olds) (c :: hist).
Proof.
  induction olds as [|o olds IH]; intros e prev2 prev3 H2 H3 HL; cbn [indel_levels]; [exact I|].
  destruct HL as [Wo HL]. split.
  - now apply indel_word_inv.
  - apply IH; [now apply p2_prev2_ok | apply new_prev3_ok; now apply indel_word_inv | exact HL].
Qed.

Lemma indel_levels_length sm cm sx : forall olds p2 p3, length (indel_levels sm cm sx p2 p3 olds) = length olds.
Proof. induction olds as [|o olds IH]; intros p2 p3; cbn; [reflexivity|]. now rewrite IH. Qed.

Lemma prev2_0_ok hist : Prev2OK 0 0 hist.
Proof.
  split; intros; rewrite N.bits_0; [|reflexivity].
  unfold lt_o. destruct (ed _ hist); reflexivity.
Qed.
Lemma prev3_0_ok hist : Prev3OK 0 0 hist.
Proof.
  split; [|split]; intros; rewrite ?N.bits_0 in *; try reflexivity; try discriminate.
  unfold lt_o. destruct (ed _ hist); reflexivity.
Qed.

(* the initial words: level e has the bits m-e..m *)
Definition WInit (c : N) (e : nat) : Prop :=
  (forall i, i <= m -> N.testbit c (N.of_nat i) = (m - i <=? e)) /\
  (forall b, (N.of_nat m < b)%N -> N.testbit c b = false).
Lemma indel_init_inv : forall n c e, WInit c e -> LevelsInvI e (indel_init (smask pat) c n) [].
Proof.
  induction n as [|n IH]; intros c e [Hb Hh]; cbn [indel_init]; [exact I|]. split.
  - split; [|exact Hh]. intros i Hi. rewrite Hb by lia. rewrite ed_nil, skipn_length, rpat_len. reflexivity.
  - apply IH. split.
    + intros i Hi. rewrite N.lor_spec, N.shiftr_spec', smask_bit.
      replace (N.of_nat i + 1)%N with (N.of_nat (S i)) by lia.
      destruct (Nat.eq_dec i m) as [E|E].
      * rewrite E, N.eqb_refl, orb_true_r. symmetry. apply Nat.leb_le. lia.
      * replace (N.of_nat m =? N.of_nat i)%N with false by (symmetry; apply N.eqb_neq; lia).
        rewrite orb_false_r, Hb by lia.
        destruct (Nat.leb_spec (m - S i) e), (Nat.leb_spec (m - i) (S e)); try reflexivity; lia.
    + intros b Hb'. rewrite N.lor_spec, N.shiftr_spec', smask_bit, Hh by lia.
      replace (N.of_nat m =? b)%N with false by (symmetry; apply N.eqb_neq; lia). reflexivity.
Qed.
Lemma smask_init : WInit (smask pat) 0.
Proof.
  split.
  - intros i Hi. rewrite smask_bit.
    destruct (N.eqb_spec (N.of_nat m) (N.of_nat i)), (Nat.leb_spec (m - i) 0); try reflexivity; lia.
  - intros b Hb. rewrite smask_bit. apply N.eqb_neq. lia.
Qed.

Fixpoint back_scan_ed (k : nat) (data : list N) (hist : list N) (pos : Z) : list (Z * Z) :=
  match data with
  | [] => []
  | c :: rest => hit k (pos - Z.of_nat m + 1)%Z (ed rpat (c :: hist)) ++ back_scan_ed k rest (c :: hist) (pos + 1)%Z
  end.

Lemma indel_scan_back k : forall data hist pos st,
  LevelsInvI 0 st hist -> length st = S k ->
  indel_scan pat data pos st = back_scan_ed k data hist pos.
Proof.
  induction data as [|c rest IH]; intros hist pos st HL Hlen; cbn [indel_scan back_scan_ed]; [reflexivity|].
  pose proof (indel_levels_inv c hist st 0 0 0 (prev2_0_ok hist) (prev3_0_ok _) HL) as HL'.
  rewrite (first_hit_specG ed _ _ _ HL'), indel_levels_length, Hlen.
  rewrite (IH (c :: hist) (pos + 1)%Z _ HL') by (now rewrite indel_levels_length).
  f_equal. fold m. unfold hit.
  destruct (ed rpat (c :: hist)) as [d|]; [|reflexivity].
  rewrite Nat.max_0_r. cbn [plus].
  destruct (Nat.ltb_spec d (S k)), (Nat.leb_spec d k); try reflexivity; lia.
Qed.

Lemma back_scan_ed_flat k : forall data hist pos,
  back_scan_ed k data hist pos =
  flat_map (fun n => hit k (pos + Z.of_nat n - Z.of_nat m)%Z (ed rpat (rev (firstn n data) ++ hist)))
           (seq 1 (length data)).
Proof.
  induction data as [|c rest IH]; intros hist pos; cbn [back_scan_ed length seq flat_map]; [reflexivity|].
  f_equal.
  - cbn [firstn rev app]. f_equal. lia.
  - rewrite IH, <- (seq_shift (length rest) 1), flat_map_map. apply flat_map_ext. intros n.
    cbn [firstn rev]. rewrite <- app_assoc. cbn [app]. f_equal. lia.
Qed.

Lemma indel_init_length sm : forall n c, length (indel_init sm c n) = n.
Proof. induction n as [|n IH]; intros c; cbn; [reflexivity|]. now rewrite IH. Qed.

Lemma manber_indel_exact k w pos : manber_indel pat k w pos = sellers_spec pat k w pos.
Proof.
  unfold manber_indel. rewrite (indel_scan_back k w [] pos).
  - rewrite back_scan_ed_flat. unfold sellers_spec. fold m rpat.
    apply flat_map_ext. intros n. now rewrite app_nil_r.
  - apply indel_init_inv, smask_init.
  - apply indel_init_length.
Qed.

End Automaton.

(** ** FindAllIndex (ManberAll on the window) *)
Definition to_triples (m : nat) (l : list (Z * Z)) : list triple :=
  map (fun h => (fst h, (fst h + Z.of_nat m)%Z, snd h)) l.

Lemma manber_all_exact pat k indel w pos :
  1 <= List.length pat -> List.length pat <= 63 -> indel = false \/ k = 0 ->
  manber_all pat k indel w pos = find_all_spec pat k w pos.
Proof.
  intros H1 H63 Hmode. unfold manber_all. destruct k as [|k'].
  - now apply manber_noerr_exact.
  - destruct Hmode as [-> | E]; [|discriminate]. now apply manber_sub_exact.
Qed.

Lemma find_all_index_exact pat k indel text begin length :
  1 <= List.length pat -> List.length pat <= 63 -> indel = false \/ k = 0 ->
  find_all_index pat k indel text begin length =
  Ok (to_triples (List.length pat) (find_all_spec pat k (window text begin length) (win_begin begin))).
Proof.
  intros H1 H63 Hmode. unfold find_all_index.
  destruct (Nat.eqb_spec (List.length pat) 0) as [E|_]; [lia|].
  destruct (Nat.leb_spec 64 (List.length pat)) as [E|_]; [lia|].
  cbn [orb]. rewrite manber_all_exact by assumption. reflexivity.
Qed.

(** ** what the specification says, spelled out *)
Lemma find_all_spec_In pat k w pos0 p d :
  In (p, d) (find_all_spec pat k w pos0) <->
  exists i d', p = (pos0 + Z.of_nat i)%Z /\ d = Z.of_nat d' /\ i + List.length pat <= List.length w /\
               mism pat (firstn (List.length pat) (skipn i w)) = Some d' /\ d' <= k.
Proof.
  unfold find_all_spec. rewrite in_flat_map. split.
  - intros [i [Hi Hh]]. apply in_seq in Hi. unfold hit in Hh.
    destruct (mism pat _) as [d'|] eqn:E; [|destruct Hh].
    destruct (Nat.leb_spec d' k) as [Hk|Hk]; [|destruct Hh].
    destruct Hh as [Hh|[]]. inversion Hh; subst. exists i, d'. repeat split; try lia. exact E.
  - intros [i [d' [-> [-> [Hi [E Hk]]]]]]. exists i. split; [apply in_seq; lia|].
    unfold hit. rewrite E. destruct (Nat.leb_spec d' k); [now left | lia].
Qed.

(* the count is the number of mismatching positions, and no obligatory position mismatches *)
Lemma mism_count pat : forall w d, mism pat w = Some d ->
  d = List.length (filter (fun sc => negb (sym_match (fst sc) (snd sc))) (combine pat w)) /\
  List.length w = List.length pat /\
  (forall s c, In (s, c) (combine pat w) -> snd s = true -> sym_match s c = true).
Proof.
  induction pat as [|s pat IH]; intros w d H; destruct w as [|c w]; try discriminate.
  - inversion H. cbn. repeat split. intros ? ? [].
  - rewrite mism_cons in H. destruct (mism pat w) as [d0|] eqn:E; [|discriminate].
    destruct (IH _ _ E) as [Hd [Hl Ho]]. cbn [obind] in H. unfold mstep in H.
    cbn [combine filter fst snd length].
    destruct (sym_match s c) eqn:Em; cbn [negb].
    + inversion H; subst. repeat split; [lia|].
      intros s' c' [Hin|Hin] Hob; [inversion Hin; subst; exact Em | now apply Ho].
    + destruct (snd s) eqn:Eo; [discriminate|]. inversion H; subst. cbn [length]. repeat split; [lia|].
      intros s' c' [Hin|Hin] Hob; [inversion Hin; subst; congruence | now apply Ho].
Qed.
Lemma mism_complete pat : forall w, List.length w = List.length pat ->
  (forall s c, In (s, c) (combine pat w) -> snd s = true -> sym_match s c = true) ->
  exists d, mism pat w = Some d.
Proof.
  induction pat as [|s pat IH]; intros w Hl Ho; destruct w as [|c w]; try discriminate.
  - now exists 0.
  - destruct (IH w) as [d Hd]; [cbn in Hl; lia | intros; apply Ho; [now right|assumption] |].
    rewrite mism_cons, Hd. cbn [obind]. unfold mstep.
    destruct (sym_match s c) eqn:Em; [eauto|].
    destruct (snd s) eqn:Eo; [|eauto].
    rewrite (Ho s c (or_introl eq_refl) Eo) in Em. discriminate.
Qed.

(** ** complemented pattern on the reverse-complemented text *)
Lemma swap_bits_spec x i j b : i <> j ->
  N.testbit (swap_bits x i j) b =
  if (b =? j)%N then N.testbit x i else if (b =? i)%N then N.testbit x j else N.testbit x b.
Proof.
  intros Hij. unfold swap_bits.
  assert (T : forall a n q, N.testbit (N.setbit a n) q = if (n =? q)%N then true else N.testbit a q).
  { intros. rewrite N.setbit_eqb. now destruct (n =? q)%N. }
  assert (F : forall a n q, N.testbit (N.clearbit a n) q = if (n =? q)%N then false else N.testbit a q).
  { intros. rewrite N.clearbit_eqb. destruct (n =? q)%N; cbn; [apply andb_false_r | apply andb_true_r]. }
  destruct (N.testbit x i) eqn:Ei, (N.testbit x j) eqn:Ej; rewrite ?T, ?F, ?T, ?F;
    rewrite (N.eqb_sym j b), (N.eqb_sym i b);
    destruct (N.eqb_spec b j) as [Ebj|Hbj]; try (subst b; congruence);
    destruct (N.eqb_spec b i) as [Ebi|Hbi]; try (subst b; congruence); reflexivity.
Qed.

Lemma comp_match x c : N.testbit (comp_set x) (comp_base c) = N.testbit x c.
Proof.
  unfold comp_set, comp_base.
  rewrite !swap_bits_spec by discriminate.
  destruct (N.eqb_spec c 0) as [->|H0]; [reflexivity|].
  destruct (N.eqb_spec c 19) as [->|H19]; [reflexivity|].
  destruct (N.eqb_spec c 2) as [->|H2]; [reflexivity|].
  destruct (N.eqb_spec c 6) as [->|H6]; [reflexivity|].
  destruct (N.eqb_spec c 6); [congruence|]. destruct (N.eqb_spec c 2); [congruence|].
  destruct (N.eqb_spec c 19); [congruence|]. destruct (N.eqb_spec c 0); [congruence|]. reflexivity.
Qed.

Definition comp_sym (s : sym) : sym := (comp_set (fst s), snd s).

Lemma mism_map_comp pat : forall w, mism (map comp_sym pat) (map comp_base w) = mism pat w.
Proof.
  induction pat as [|s pat IH]; intros w; destruct w as [|c w]; try reflexivity.
  cbn [map]. rewrite !mism_cons, IH. destruct (mism pat w); [|reflexivity]. cbn [obind].
  unfold mstep, sym_match, comp_sym. cbn [fst snd]. now rewrite comp_match.
Qed.

Lemma rmism_mism r : forall h, List.length h = List.length r -> rmism r h = mism r h.
Proof.
  induction r as [|s r IH]; intros h Hl; destruct h as [|c h]; try discriminate; [reflexivity|].
  cbn [rmism]. rewrite mism_cons, IH; [reflexivity | cbn in Hl; lia].
Qed.
Lemma mism_rev pat w : List.length w = List.length pat -> mism (rev pat) (rev w) = mism pat w.
Proof.
  intros Hl. rewrite <- rmism_mism by (rewrite !rev_length; exact Hl).
  rewrite <- (app_nil_r (rev w)). now apply rmism_rev.
Qed.

Lemma mism_comp_pattern pat x : List.length x = List.length pat ->
  mism (comp_pattern pat) (revcomp_text x) = mism pat x.
Proof.
  intros Hl. unfold comp_pattern, revcomp_text. fold comp_sym.
  rewrite mism_rev by (now rewrite !map_length). apply mism_map_comp.
Qed.

Lemma comp_pattern_length pat : List.length (comp_pattern pat) = List.length pat.
Proof. unfold comp_pattern. now rewrite rev_length, map_length. Qed.
Lemma revcomp_text_length w : List.length (revcomp_text w) = List.length w.
Proof. unfold revcomp_text. now rewrite rev_length, map_length. Qed.

(* the window of the reverse-complemented text at q is the reverse complement of the window at n-m-q *)
Lemma revcomp_window m q w : q + m <= List.length w ->
  firstn m (skipn q (revcomp_text w)) = revcomp_text (firstn m (skipn (List.length w - m - q) w)).
Proof.
  intros H. unfold revcomp_text.
  rewrite skipn_rev, firstn_rev, map_length.
  rewrite firstn_length, map_length. replace (Nat.min (List.length w - q) (List.length w)) with (List.length w - q) by lia.
  f_equal. rewrite <- firstn_map, <- skipn_map.
  rewrite firstn_skipn_comm.
  replace (length w - m - q) with (length w - q - m) by lia.
  replace (length w - q - m + m) with (length w - q) by lia. reflexivity.
Qed.

Lemma revcomp_hits_1 pat k w q d :
  In (q, d) (find_all_spec (comp_pattern pat) k (revcomp_text w) 0) ->
  In ((Z.of_nat (List.length w) - Z.of_nat (List.length pat) - q)%Z, d) (find_all_spec pat k w 0).
Proof.
  rewrite !find_all_spec_In. rewrite comp_pattern_length, revcomp_text_length.
  intros [i [d' [-> [-> [Hi [E Hk]]]]]].
  exists (List.length w - List.length pat - i), d'. repeat split; try lia.
  rewrite revcomp_window in E by lia. rewrite mism_comp_pattern in E; [exact E|].
  rewrite firstn_length, skipn_length. lia.
Qed.

Lemma revcomp_text_invol w : revcomp_text (revcomp_text w) = w.
Proof.
  unfold revcomp_text. rewrite map_rev, rev_involutive, map_map.
  rewrite <- (map_id w) at 2. apply map_ext. intros c. unfold comp_base.
  destruct (N.eqb_spec c 0) as [->|]; [reflexivity|].
  destruct (N.eqb_spec c 19) as [->|]; [reflexivity|].
  destruct (N.eqb_spec c 2) as [->|]; [reflexivity|].
  destruct (N.eqb_spec c 6) as [->|]; [reflexivity|].
  destruct (N.eqb_spec c 0); [congruence|]. destruct (N.eqb_spec c 19); [congruence|].
  destruct (N.eqb_spec c 2); [congruence|]. destruct (N.eqb_spec c 6); [congruence|]. reflexivity.
Qed.

Lemma comp_set_invol x : comp_set (comp_set x) = x.
Proof.
  apply N.bits_inj. intros b. unfold comp_set. rewrite !swap_bits_spec by discriminate.
  destruct (N.eqb_spec b 6) as [->|]; [reflexivity|].
  destruct (N.eqb_spec b 2) as [->|]; [reflexivity|].
  destruct (N.eqb_spec b 19) as [->|]; [reflexivity|].
  destruct (N.eqb_spec b 0) as [->|]; reflexivity.
Qed.
Lemma comp_pattern_invol pat : comp_pattern (comp_pattern pat) = pat.
Proof.
  unfold comp_pattern. rewrite map_rev, rev_involutive, map_map.
  rewrite <- (map_id pat) at 2. apply map_ext. intros [x o]. cbn [fst snd]. now rewrite comp_set_invol.
Qed.

Lemma revcomp_hits pat k w q d :
  In (q, d) (find_all_spec (comp_pattern pat) k (revcomp_text w) 0) <->
  In ((Z.of_nat (List.length w) - Z.of_nat (List.length pat) - q)%Z, d) (find_all_spec pat k w 0).
Proof.
  split; [apply revcomp_hits_1|].
  intros H.
  pose proof (revcomp_hits_1 (comp_pattern pat) k (revcomp_text w)
                (Z.of_nat (List.length w) - Z.of_nat (List.length pat) - q)%Z d) as R.
  rewrite comp_pattern_invol, revcomp_text_invol, revcomp_text_length, comp_pattern_length in R.
  specialize (R H).
  replace (Z.of_nat (List.length w) - Z.of_nat (List.length pat) -
           (Z.of_nat (List.length w) - Z.of_nat (List.length pat) - q))%Z with q in R by lia.
  exact R.
Qed.

(** *** Sellers' recurrence [ed] is the least cost of an alignment of the pattern with a run of text
    ending at the current symbol (patterns without obligatory positions) *)
(* [aligned r x d]: an edit script with d operations (substitution, insertion of a text symbol,
   deletion of a pattern position; matches are free) relates the positions [r] and the symbols [x].
   The relation is the usual one and is symmetric under reversal of both lists ([aligned_rev]); it is
   used on the reversed pattern prefix and the reversed run of text. *)
Inductive aligned : pattern -> list N -> nat -> Prop :=
| al_nil : aligned [] [] 0
| al_match s r c x d : sym_match s c = true -> aligned r x d -> aligned (s :: r) (c :: x) d
| al_sub s r c x d : aligned r x d -> aligned (s :: r) (c :: x) (S d)
| al_ins r c x d : aligned r x d -> aligned r (c :: x) (S d)
| al_del s r x d : aligned r x d -> aligned (s :: r) x (S d).

Definition no_oblig (r : pattern) : Prop := forall s, In s r -> snd s = false.

Lemma le_o_omin a b e : le_o (omin a b) e = le_o a e || le_o b e.
Proof.
  destruct a as [x|], b as [y|]; cbn [omin le_o]; rewrite ?orb_false_r; try reflexivity.
  destruct (Nat.leb_spec (Nat.min x y) e), (Nat.leb_spec x e), (Nat.leb_spec y e); try reflexivity; lia.
Qed.

Lemma omin_some a b d : omin a b = Some d -> a = Some d \/ b = Some d.
Proof.
  destruct a as [x|], b as [y|]; cbn [omin]; intros H; inversion H; subst; auto.
  destruct (Nat.min_spec x y) as [[_ ->]|[_ ->]]; auto.
Qed.
Lemma osucc_some a d : osucc a = Some d -> exists d', d = S d' /\ a = Some d'.
Proof. destruct a as [x|]; cbn; intros H; inversion H; eauto. Qed.
Lemma aligned_all_del r : aligned r [] (length r).
Proof. induction r as [|s r IH]; cbn [length]; constructor. exact IH. Qed.

Lemma ed_sound r : no_oblig r -> forall h d, ed r h = Some d -> exists x t, h = x ++ t /\ aligned r x d.
Proof.
  induction r as [|s r IHr]; intros Hno h d H.
  - inversion H; subst. exists [], h. split; [reflexivity|constructor].
  - assert (Hno' : no_oblig r) by (intros s' Hs'; apply Hno; now right).
    assert (Hs : snd s = false) by (apply Hno; now left).
    revert d H. induction h as [|c h IHh]; intros d H.
    + rewrite ed_nil in H. inversion H; subst. exists [], []. split; [reflexivity|]. apply aligned_all_del.
    + rewrite ed_cons, Hs in H. apply omin_some in H. destruct H as [H|H].
      * destruct (sym_match s c) eqn:Em; [|discriminate].
        destruct (IHr Hno' h d H) as [x [t [-> A]]].
        exists (c :: x), t. split; [reflexivity|]. now apply al_match.
      * apply osucc_some in H. destruct H as [d' [-> H]].
        apply omin_some in H. destruct H as [H|H]; [apply omin_some in H; destruct H as [H|H]|].
        -- destruct (IHr Hno' h d' H) as [x [t [-> A]]].
           exists (c :: x), t. split; [reflexivity|]. now apply al_sub.
        -- destruct (IHh d' H) as [x [t [-> A]]].
           exists (c :: x), t. split; [reflexivity|]. now apply al_ins.
        -- destruct (IHr Hno' (c :: h) d' H) as [x [t [E A]]].
           exists x, t. split; [exact E|]. now apply al_del.
Qed.

(* no alignment with any run ending at the current symbol is cheaper *)
Lemma ed_le_step_match s r c h d : sym_match s c = true -> ed r h = Some d ->
  exists d0, ed (s :: r) (c :: h) = Some d0 /\ d0 <= d.
Proof.
  intros Em E. rewrite ed_cons, Em, E.
  destruct (if snd s then None else osucc (omin (omin (Some d) (ed (s :: r) h)) (ed r (c :: h)))) as [y|];
    cbn [omin]; eexists; split; try reflexivity; lia.
Qed.
Lemma omin_le_l a b x : a = Some x -> exists y, omin a b = Some y /\ y <= x.
Proof. intros ->. destruct b as [z|]; cbn [omin]; eexists; split; try reflexivity; lia. Qed.
Lemma omin_le_r a b x : b = Some x -> exists y, omin a b = Some y /\ y <= x.
Proof. intros ->. destruct a as [z|]; cbn [omin]; eexists; split; try reflexivity; lia. Qed.

Lemma ed_complete r x d : aligned r x d -> no_oblig r ->
  forall t, exists d0, ed r (x ++ t) = Some d0 /\ d0 <= d.
Proof.
  induction 1 as [|s r c x d Em A IH|s r c x d A IH|r c x d A IH|s r x d A IH]; intros Hno t.
  - exists 0. split; [reflexivity|lia].
  - destruct (IH (fun s' Hs' => Hno s' (or_intror Hs')) t) as [d0 [E L]].
    destruct (ed_le_step_match s r c (x ++ t) d0 Em E) as [d1 [E1 L1]].
    exists d1. split; [exact E1|lia].
  - destruct (IH (fun s' Hs' => Hno s' (or_intror Hs')) t) as [d0 [E L]].
    cbn [app]. rewrite ed_cons, (Hno s (or_introl eq_refl)).
    destruct (omin_le_l (ed r (x ++ t)) (ed (s :: r) (x ++ t)) d0 E) as [y1 [E1 L1]].
    destruct (omin_le_l _ (ed r (c :: x ++ t)) y1 E1) as [y2 [E2 L2]].
    rewrite E2. cbn [osucc].
    destruct (omin_le_r (if sym_match s c then ed r (x ++ t) else None) (Some (S y2)) (S y2) eq_refl) as [y3 [E3 L3]].
    exists y3. split; [exact E3|lia].
  - destruct r as [|s r]; [exists 0; split; [reflexivity|lia]|].
    destruct (IH Hno t) as [d0 [E L]].
    cbn [app]. rewrite ed_cons, (Hno s (or_introl eq_refl)).
    destruct (omin_le_r (ed r (x ++ t)) (ed (s :: r) (x ++ t)) d0 E) as [y1 [E1 L1]].
    destruct (omin_le_l _ (ed r (c :: x ++ t)) y1 E1) as [y2 [E2 L2]].
    rewrite E2. cbn [osucc].
    destruct (omin_le_r (if sym_match s c then ed r (x ++ t) else None) (Some (S y2)) (S y2) eq_refl) as [y3 [E3 L3]].
    exists y3. split; [exact E3|lia].
  - destruct (IH (fun s' Hs' => Hno s' (or_intror Hs')) t) as [d0 [E L]].
    destruct (x ++ t) as [|c h] eqn:Ex.
    + rewrite ed_nil in *. inversion E; subst. exists (length (s :: r)). split; [reflexivity|cbn; lia].
    + rewrite ed_cons, (Hno s (or_introl eq_refl)).
      destruct (omin_le_r (omin (ed r h) (ed (s :: r) h)) (ed r (c :: h)) d0 E) as [y2 [E2 L2]].
      rewrite E2. cbn [osucc].
      destruct (omin_le_r (if sym_match s c then ed r h else None) (Some (S y2)) (S y2) eq_refl) as [y3 [E3 L3]].
      exists y3. split; [exact E3|lia].
Qed.

Lemma sellers_spec_In pat k w pos0 p d :
  In (p, d) (sellers_spec pat k w pos0) <->
  exists n d', 1 <= n <= List.length w /\ p = (pos0 + Z.of_nat n - Z.of_nat (List.length pat))%Z /\ d = Z.of_nat d' /\
               ed (rev pat) (rev (firstn n w)) = Some d' /\ d' <= k.
Proof.
  unfold sellers_spec. rewrite in_flat_map. split.
  - intros [n [Hn Hh]]. apply in_seq in Hn. unfold hit in Hh.
    destruct (ed _ _) as [d'|] eqn:E; [|destruct Hh].
    destruct (Nat.leb_spec d' k) as [Hk|Hk]; [|destruct Hh].
    destruct Hh as [Hh|[]]. inversion Hh; subst. exists n, d'. repeat split; try lia. exact E.
  - intros [n [d' [Hn [-> [-> [E Hk]]]]]]. exists n. split; [apply in_seq; lia|].
    unfold hit. rewrite E. destruct (Nat.leb_spec d' k); [now left | lia].
Qed.

(** the three clauses for the indel automaton, patterns of 1..63 positions none of which is obligatory;
    an alignment is stated on the reversed pattern and the reversed run (the rules of [aligned] are
    symmetric under reversal) *)
Lemma indel_sound pat k w pos p d :
  1 <= List.length pat -> List.length pat <= 63 -> no_oblig pat ->
  In (p, d) (manber_indel pat k w pos) ->
  exists n before run d', 1 <= n <= List.length w /\ firstn n w = before ++ run /\
    p = (pos + Z.of_nat n - Z.of_nat (List.length pat))%Z /\ d = Z.of_nat d' /\ d' <= k /\
    aligned (rev pat) (rev run) d'.
Proof.
  intros H1 H63 Hno H. rewrite manber_indel_exact in H by assumption.
  apply sellers_spec_In in H. destruct H as [n [d' [Hn [-> [-> [E Hk]]]]]].
  destruct (ed_sound (rev pat)) with (h := rev (firstn n w)) (d := d') as [x [t [Ex A]]]; [|exact E|].
  { intros s Hs. apply Hno. now apply in_rev. }
  exists n, (rev t), (rev x), d'. repeat split; try lia.
  - rewrite <- rev_app_distr, <- Ex. now rewrite rev_involutive.
  - now rewrite rev_involutive.
Qed.

Lemma indel_complete pat k w pos n before run d' :
  1 <= List.length pat -> List.length pat <= 63 -> no_oblig pat ->
  1 <= n <= List.length w -> firstn n w = before ++ run -> aligned (rev pat) (rev run) d' -> d' <= k ->
  exists d, d <= d' /\ In ((pos + Z.of_nat n - Z.of_nat (List.length pat))%Z, Z.of_nat d) (manber_indel pat k w pos).
Proof.
  intros H1 H63 Hno Hn Ew A Hk.
  destruct (ed_complete _ _ _ A) with (t := rev before) as [d0 [E L]].
  { intros s Hs. apply Hno. now apply in_rev. }
  exists d0. split; [exact L|].
  rewrite manber_indel_exact by assumption. apply sellers_spec_In.
  exists n, d0. repeat split; try lia.
  rewrite Ew, rev_app_distr. exact E.
Qed.

Lemma indel_minimal pat k w pos n d before run d' :
  1 <= List.length pat -> List.length pat <= 63 -> no_oblig pat ->
  In ((pos + Z.of_nat n - Z.of_nat (List.length pat))%Z, Z.of_nat d) (manber_indel pat k w pos) ->
  firstn n w = before ++ run -> aligned (rev pat) (rev run) d' -> d <= d'.
Proof.
  intros H1 H63 Hno H Ew A.
  rewrite manber_indel_exact in H by assumption.
  apply sellers_spec_In in H. destruct H as [n0 [d0 [Hn [Ep [Ed [E Hk]]]]]].
  assert (n0 = n) by lia. subst n0. assert (d0 = d) by lia. subst d0.
  destruct (ed_complete _ _ _ A) with (t := rev before) as [d1 [E1 L]].
  { intros s Hs. apply Hno. now apply in_rev. }
  rewrite Ew, rev_app_distr, E1 in E. inversion E; subst. exact L.
Qed.

Lemma find_all_index_indel pat k text begin length :
  1 <= List.length pat -> List.length pat <= 63 -> 1 <= k ->
  find_all_index pat k true text begin length =
  Ok (to_triples (List.length pat) (sellers_spec pat k (window text begin length) (win_begin begin))).
Proof.
  intros H1 H63 Hk. unfold find_all_index.
  destruct (Nat.eqb_spec (List.length pat) 0) as [E|_]; [lia|].
  destruct (Nat.leb_spec 64 (List.length pat)) as [E|_]; [lia|].
  cbn [orb]. unfold manber_all. destruct k as [|k']; [lia|].
  rewrite manber_indel_exact by assumption. reflexivity.
Qed.

(** ** LocatePattern: the returned span is a well-formed span of the fragment (whatever the scores) *)
Lemma backtrack_inv n : forall fuel rows i j e i' e',
  backtrack fuel rows i j e = Some (i', e') ->
  (-1 <= i <= n - 1)%Z -> (e = -1 \/ (i <= e <= n - 1 /\ 0 <= e))%Z ->
  (-1 <= i' <= n - 1)%Z /\ (e' = -1 \/ (i' <= e' <= n - 1 /\ 0 <= e'))%Z.
Proof.
  induction fuel as [|f IH]; intros rows i j e i' e' H Hi He; cbn [backtrack] in H; [discriminate|].
  destruct ((0 <? j)%Z || ((0 <=? i)%Z && (path_at rows i j =? 1)%Z)) eqn:Hc.
  2:{ inversion H; subst. split; assumption. }
  assert (Hneg : (i < 0)%Z -> path_at rows i j = (-1)%Z).
  { intros Hlt. unfold path_at. destruct (Z.ltb_spec i 0); [reflexivity|lia]. }
  destruct (Z.eqb_spec (path_at rows i j) 0) as [E0|N0].
  - assert (0 <= i)%Z by (destruct (Z.ltb_spec i 0); [rewrite Hneg in E0 by lia; discriminate | lia]).
    apply IH in H; [exact H | lia |].
    destruct (Z.eqb_spec e (-1)); [right; lia | destruct He as [He|He]; [contradiction | right; lia]].
  - destruct (Z.eqb_spec (path_at rows i j) 1) as [E1|N1].
    + assert (0 <= i)%Z by (destruct (Z.ltb_spec i 0); [rewrite Hneg in E1 by lia; discriminate | lia]).
      apply IH in H; [exact H | lia |].
      destruct He as [He|He]; [now left | right; lia].
    + apply IH in H; [exact H | lia |].
      destruct (Z.eqb_spec e (-1)).
      * destruct (Z.ltb_spec i 0); [left; lia | right; lia].
      * destruct He as [He|He]; [contradiction | right; lia].
Qed.

Lemma locate_span pat sq s e d : locate pat sq = Some (s, e, d) ->
  (0 <= s <= e)%Z /\ (e <= Z.of_nat (List.length sq))%Z.
Proof.
  unfold locate. destruct pat as [|p pat]; [discriminate|].
  set (rows := fill (p :: pat) sq _).
  destruct (backtrack _ rows _ _ _) as [[i' e']|] eqn:B; [|discriminate].
  intros H. inversion H; subst; clear H.
  apply (backtrack_inv (Z.of_nat (List.length sq))) in B; [|lia|now left].
  destruct B as [Hi He].
  destruct (Z.eqb_spec e' (-1)); destruct (Z.ltb_spec i' 0); lia.
Qed.

Lemma backtrack_total : forall fuel rows i j e,
  (-1 <= i)%Z -> Z.to_nat (i + 1) + Z.to_nat j < fuel -> backtrack fuel rows i j e <> None.
Proof.
  induction fuel as [|f IH]; intros rows i j e Hi Hf; [lia|]. cbn [backtrack].
  destruct ((0 <? j)%Z || ((0 <=? i)%Z && (path_at rows i j =? 1)%Z)) eqn:Hc; [|discriminate].
  assert (Hneg : (i < 0)%Z -> path_at rows i j = (-1)%Z).
  { intros Hlt. unfold path_at. destruct (Z.ltb_spec i 0); [reflexivity|lia]. }
  destruct (Z.eqb_spec (path_at rows i j) 0) as [E0|N0].
  - assert (0 <= i)%Z by (destruct (Z.ltb_spec i 0); [rewrite Hneg in E0 by lia; discriminate | lia]).
    apply IH; lia.
  - destruct (Z.eqb_spec (path_at rows i j) 1) as [E1|N1].
    + assert (0 <= i)%Z by (destruct (Z.ltb_spec i 0); [rewrite Hneg in E1 by lia; discriminate | lia]).
      apply IH; lia.
    + assert (0 < j)%Z.
      { destruct (Z.ltb_spec 0 j); [lia|]. cbn [orb] in Hc.
        destruct (Z.eqb_spec (path_at rows i j) 1); [contradiction|].
        rewrite andb_false_r in Hc. discriminate. }
      apply IH; lia.
Qed.

Lemma locate_total pat sq : pat <> [] -> locate pat sq <> None.
Proof.
  intros Hp. unfold locate. destruct pat as [|p pat]; [contradiction|].
  set (rows := fill (p :: pat) sq _).
  destruct (backtrack _ rows _ _ _) as [[i' e']|] eqn:B; [discriminate|].
  exfalso. revert B. apply backtrack_total; [lia|]. cbn [List.length]. lia.
Qed.

Lemma slice_length sq a b : (0 <= a <= b)%Z -> (b <= Z.of_nat (List.length sq))%Z ->
  Z.of_nat (List.length (slice sq a b)) = (b - a)%Z.
Proof. intros Ha Hb. unfold slice. rewrite firstn_length, skipn_length. lia. Qed.

Lemma realign_all_span cpatb sq m h s e d : realign_all cpatb sq m h = Some (s, e, d) ->
  (0 <= s <= e)%Z /\ (e <= Z.of_nat (List.length sq))%Z.
Proof.
  unfold realign_all. destruct h as [[m0 m1] m2].
  set (start := Z.max (m0 - m2 * 2) 0). set (en := Z.min (start + m + 4 * m2) (Z.of_nat (List.length sq))).
  destruct (Z.ltb_spec en start) as [|Hle]; [discriminate|].
  destruct (locate cpatb (slice sq start en)) as [[[pb pe] sc]|] eqn:L; [|discriminate].
  intros H. inversion H; subst; clear H.
  apply locate_span in L. rewrite slice_length in L by (unfold start, en in *; lia).
  unfold start, en in *. lia.
Qed.

Lemma best_loop_in : forall res best, best_loop res best = best \/ In (best_loop res best) res.
Proof.
  induction res as [|h res IH]; intros best; cbn [best_loop]; [now left|].
  destruct (snd h <? snd best)%Z.
  - destruct (IH h) as [-> | Hin]; [right; now left | right; now right].
  - destruct (IH best) as [-> | Hin]; [now left | right; now right].
Qed.

Lemma best_match_span cpatb sq m indel res s e n :
  (forall a b c, In (a, b, c) res -> (a <= b)%Z) ->
  best_match cpatb sq m indel res = Some (s, e, n, true) ->
  (0 <= s <= e)%Z /\ (e <= Z.of_nat (List.length sq))%Z.
Proof.
  intros Hres. unfold best_match. destruct res as [|h0 res0]; [intros H; inversion H|].
  set (res := h0 :: res0) in *.
  destruct (best_loop res (0, 0, 10000)%Z) as [[b0 b1] b2] eqn:B.
  assert (Hb : (b0 <= b1)%Z).
  { destruct (best_loop_in res (0, 0, 10000)%Z) as [E|Hin]; rewrite B in *.
    - inversion E; lia.
    - now apply (Hres b0 b1 b2). }
  set (noalign := ((b2 =? 0)%Z || negb indel)).
  destruct (((b0 <? 0)%Z && noalign) || (Z.of_nat (List.length sq) <? b1)%Z) eqn:C; [intros H; inversion H|].
  apply orb_false_iff in C. destruct C as [C1 C2]. apply Z.ltb_ge in C2.
  destruct noalign eqn:NA.
  - rewrite andb_true_r in C1. apply Z.ltb_ge in C1. intros H. inversion H; subst. lia.
  - set (start := Z.max (b0 - b2) 0). set (en := Z.min (b0 + m + b2) (Z.of_nat (List.length sq))).
    destruct (Z.ltb_spec en start) as [|Hle]; [discriminate|].
    destruct (locate cpatb (slice sq start en)) as [[[from to] sc]|] eqn:L; [|discriminate].
    intros H. inversion H; subst; clear H.
    apply locate_span in L. rewrite slice_length in L by (unfold start, en in *; lia).
    unfold start, en in *. lia.
Qed.

(** the alignment relation does not depend on the reading direction *)
Lemma aligned_snoc_match r x d s c : aligned r x d -> sym_match s c = true -> aligned (r ++ [s]) (x ++ [c]) d.
Proof.
  intros A Em. induction A; cbn [app].
  - apply al_match; [exact Em|constructor].
  - now apply al_match.
  - now apply al_sub.
  - now apply al_ins.
  - now apply al_del.
Qed.
Lemma aligned_snoc_sub r x d s c : aligned r x d -> aligned (r ++ [s]) (x ++ [c]) (S d).
Proof.
  intros A. induction A; cbn [app].
  - apply al_sub. constructor.
  - now apply al_match.
  - now apply al_sub.
  - now apply al_ins.
  - now apply al_del.
Qed.
Lemma aligned_snoc_ins r x d c : aligned r x d -> aligned r (x ++ [c]) (S d).
Proof.
  intros A. induction A; cbn [app].
  - apply al_ins. constructor.
  - now apply al_match.
  - now apply al_sub.
  - now apply al_ins.
  - now apply al_del.
Qed.
Lemma aligned_snoc_del r x d s : aligned r x d -> aligned (r ++ [s]) x (S d).
Proof.
  intros A. induction A; cbn [app].
  - apply al_del. constructor.
  - now apply al_match.
  - now apply al_sub.
  - now apply al_ins.
  - now apply al_del.
Qed.
Lemma aligned_rev r x d : aligned r x d -> aligned (rev r) (rev x) d.
Proof.
  intros A. induction A; cbn [rev].
  - constructor.
  - now apply aligned_snoc_match.
  - now apply aligned_snoc_sub.
  - now apply aligned_snoc_ins.
  - now apply aligned_snoc_del.
Qed.
Lemma aligned_rev_iff pat run d : aligned (rev pat) (rev run) d <-> aligned pat run d.
Proof.
  split; intros A.
  - apply aligned_rev in A. now rewrite !rev_involutive in A.
  - now apply aligned_rev.
Qed.

(** the indel clauses, in reading direction *)
Lemma indel_sound_fwd pat k w pos p d :
  1 <= List.length pat -> List.length pat <= 63 -> no_oblig pat ->
  In (p, d) (manber_indel pat k w pos) ->
  exists n before run d', 1 <= n <= List.length w /\ firstn n w = before ++ run /\
    p = (pos + Z.of_nat n - Z.of_nat (List.length pat))%Z /\ d = Z.of_nat d' /\ d' <= k /\
    aligned pat run d'.
Proof.
  intros H1 H63 Hno H. destruct (indel_sound pat k w pos p d H1 H63 Hno H) as [n [b [r [d' Hx]]]].
  exists n, b, r, d'. rewrite aligned_rev_iff in Hx. exact Hx.
Qed.
Lemma indel_complete_fwd pat k w pos n before run d' :
  1 <= List.length pat -> List.length pat <= 63 -> no_oblig pat ->
  1 <= n <= List.length w -> firstn n w = before ++ run -> aligned pat run d' -> d' <= k ->
  exists d, d <= d' /\ In ((pos + Z.of_nat n - Z.of_nat (List.length pat))%Z, Z.of_nat d) (manber_indel pat k w pos).
Proof. intros H1 H63 Hno Hn Ew A Hk. apply (indel_complete pat k w pos n before run d'); try assumption. now apply aligned_rev. Qed.
Lemma indel_minimal_fwd pat k w pos n d before run d' :
  1 <= List.length pat -> List.length pat <= 63 -> no_oblig pat ->
  In ((pos + Z.of_nat n - Z.of_nat (List.length pat))%Z, Z.of_nat d) (manber_indel pat k w pos) ->
  firstn n w = before ++ run -> aligned pat run d' -> d <= d'.
Proof. intros H1 H63 Hno H Ew A. apply (indel_minimal pat k w pos n d before run d'); try assumption. now apply aligned_rev. Qed.

(** ** FilterBestMatch: a sub-list of the hits that contains a hit of least error count *)
Definition err3 (h : triple) : Z := snd h.
Lemma filter_best_loop_in : forall res best h,
  In h (filter_best_loop res best) -> (h = best /\ (err3 best < 10000)%Z) \/ In h res.
Proof.
  induction res as [|m res IH]; intros best h H; cbn [filter_best_loop] in H.
  - destruct (Z.ltb_spec (snd best) 10000); [|destruct H]. destruct H as [<-|[]]. now left.
  - destruct best as [[b0 b1] b2]. destruct m as [[m0 m1] m2].
    destruct ((b2 =? 10000)%Z || (m0 - m2 <? b1 + b2)%Z).
    + destruct (m2 <? b2)%Z; apply IH in H; destruct H as [[-> Hl]|H]; auto; right; [now left|now right|now right].
    + destruct (Z.ltb_spec b2 10000).
      * destruct H as [<-|H]; [left; split; [reflexivity|exact H0]|].
        apply IH in H. destruct H as [[-> Hl]|H]; right; [now left|now right].
      * apply IH in H. destruct H as [[-> Hl]|H]; [now left | right; now right].
Qed.
Lemma filter_best_sublist res h : In h (filter_best res) -> In h res.
Proof.
  intros H. apply filter_best_loop_in in H. destruct H as [[_ Hl]|H]; [|exact H].
  unfold err3 in Hl. cbn in Hl. lia.
Qed.

Lemma filter_best_loop_min : forall res best,
  (forall h, In h res -> (err3 h < 10000)%Z) -> (err3 best <= 10000)%Z ->
  (err3 best < 10000)%Z \/ res <> [] ->
  exists g, In g (filter_best_loop res best) /\ (err3 g <= err3 best)%Z /\ forall h, In h res -> (err3 g <= err3 h)%Z.
Proof.
  induction res as [|m res IH]; intros best Hres Hb Hne; cbn [filter_best_loop].
  - destruct Hne as [Hl|Hne]; [|contradiction].
    exists best. unfold err3 in *. destruct (Z.ltb_spec (snd best) 10000); [|lia].
    split; [now left|]. split; [lia|]. intros h [].
  - assert (Hm : (err3 m < 10000)%Z) by (apply Hres; now left).
    assert (Hres' : forall h, In h res -> (err3 h < 10000)%Z) by (intros; apply Hres; now right).
    destruct best as [[b0 b1] b2]. destruct m as [[m0 m1] m2]. unfold err3 in *. cbn [snd] in *.
    destruct (Z.eqb_spec b2 10000) as [E|E]; cbn [orb].
    + (* no best yet: m becomes the best *)
      destruct (Z.ltb_spec m2 b2); [|lia].
      destruct (IH (m0, m1, m2) Hres' ltac:(cbn; lia) ltac:(left; cbn; lia)) as [g [Hg [Hgb Hgr]]].
      exists g. cbn [snd] in *. split; [exact Hg|]. split; [lia|].
      intros h [<-|Hh]; [cbn; lia | now apply Hgr].
    + destruct (m0 - m2 <? b1 + b2)%Z.
      * destruct (Z.ltb_spec m2 b2).
        -- destruct (IH (m0, m1, m2) Hres' ltac:(cbn; lia) ltac:(left; cbn; lia)) as [g [Hg [Hgb Hgr]]].
           exists g. cbn [snd] in *. split; [exact Hg|]. split; [lia|].
           intros h [<-|Hh]; [cbn; lia | now apply Hgr].
        -- destruct (IH (b0, b1, b2) Hres' ltac:(cbn; lia) ltac:(left; cbn; lia)) as [g [Hg [Hgb Hgr]]].
           exists g. cbn [snd] in *. split; [exact Hg|]. split; [lia|].
           intros h [<-|Hh]; [cbn; lia | now apply Hgr].
      * destruct (Z.ltb_spec b2 10000); [|lia].
        destruct (IH (m0, m1, m2) Hres' ltac:(cbn; lia) ltac:(left; cbn; lia)) as [g [Hg [Hgb Hgr]]].
        cbn [snd] in *.
        destruct (Z.le_gt_cases b2 (snd g)) as [Hle|Hgt].
        -- exists (b0, b1, b2). cbn [snd]. split; [now left|]. split; [lia|].
           intros h [<-|Hh]; [cbn; lia | specialize (Hgr h Hh); lia].
        -- exists g. split; [now right|]. split; [lia|].
           intros h [<-|Hh]; [cbn; lia | now apply Hgr].
Qed.
Lemma filter_best_min res : res <> [] -> (forall h, In h res -> (err3 h < 10000)%Z) ->
  exists g, In g (filter_best res) /\ forall h, In h res -> (err3 g <= err3 h)%Z.
Proof.
  intros Hne Hres. destruct (filter_best_loop_min res (0, 0, 10000)%Z Hres) as [g [Hg [_ Hr]]].
  - cbn. lia.
  - now right.
  - exists g. split; assumption.
Qed.

(** ** FindAllIndex in sequence coordinates *)
Lemma skipn_add {A} (l : list A) : forall b i, skipn i (skipn b l) = skipn (b + i) l.
Proof.
  intros b. revert l. induction b as [|b IH]; intros l i; [reflexivity|].
  destruct l as [|a l]; cbn [skipn plus]; [now rewrite skipn_nil|]. apply IH.
Qed.
Lemma window_sub (text : list N) b L i m : i + m <= L ->
  firstn m (skipn i (firstn L (skipn b text))) = firstn m (skipn (b + i) text).
Proof.
  intros H. rewrite skipn_firstn_comm, firstn_firstn, skipn_add.
  replace (Nat.min m (L - i)) with m by lia. reflexivity.
Qed.

Lemma window_length text begin length :
  List.length (window text begin length) =
  Z.to_nat (win_end (Z.of_nat (List.length text)) begin length - win_begin begin).
Proof.
  unfold window. rewrite firstn_length, skipn_length.
  assert (win_end (Z.of_nat (List.length text)) begin length <= Z.of_nat (List.length text))%Z
    by (unfold win_end; lia).
  assert (0 <= win_begin begin)%Z by (unfold win_begin; destruct (Z.ltb_spec begin 0); lia).
  lia.
Qed.

Lemma find_all_index_positions pat k indel text begin length l :
  1 <= List.length pat -> List.length pat <= 63 -> indel = false \/ k = 0 ->
  find_all_index pat k indel text begin length = Ok l ->
  forall s e d, In (s, e, d) l <->
    exists p d', s = Z.of_nat p /\ e = (s + Z.of_nat (List.length pat))%Z /\ d = Z.of_nat d' /\ d' <= k /\
                 (win_begin begin <= s)%Z /\
                 (s + Z.of_nat (List.length pat) <= win_end (Z.of_nat (List.length text)) begin length)%Z /\
                 mism pat (firstn (List.length pat) (skipn p text)) = Some d'.
Proof.
  intros H1 H63 Hmode Hl s e d.
  rewrite find_all_index_exact in Hl by assumption. inversion Hl; subst l; clear Hl.
  set (wb := win_begin begin). set (we := win_end (Z.of_nat (List.length text)) begin length).
  assert (Hwb : (0 <= wb)%Z) by (unfold wb, win_begin; destruct (Z.ltb_spec begin 0); lia).
  pose proof (window_length text begin length) as HL. fold wb we in HL.
  unfold to_triples. rewrite in_map_iff. split.
  - intros [[p0 d0] [E Hin]]. cbn [fst snd] in E. inversion E; subst; clear E.
    apply find_all_spec_In in Hin. destruct Hin as [i [d' [-> [-> [Hi [Em Hk]]]]]].
    exists (Z.to_nat wb + i), d'. repeat split; try lia.
    rewrite <- Em. unfold window. fold wb we. symmetry. f_equal. apply window_sub.
    rewrite HL in Hi. lia.
  - intros [p [d' [-> [-> [-> [Hk [Hb [He Em]]]]]]]].
    exists (Z.of_nat p, Z.of_nat d'). split; [reflexivity|].
    apply find_all_spec_In. exists (p - Z.to_nat wb), d'. repeat split; try lia.
    rewrite <- Em. unfold window. fold wb we.
    rewrite window_sub by lia.
    replace (Z.to_nat wb + (p - Z.to_nat wb)) with p by lia. reflexivity.
Qed.

(** ** the pattern string and its complement: TableProofs.v (table consistency, regenerated) and CompString.v (unbounded) *)

Lemma revcomp_automaton pat k w q d :
  1 <= List.length pat -> List.length pat <= 63 ->
  (In (q, d) (manber_sub (comp_pattern pat) k (revcomp_text w) 0) <->
   In ((Z.of_nat (List.length w) - Z.of_nat (List.length pat) - q)%Z, d) (manber_sub pat k w 0)).
Proof.
  intros H1 H63.
  rewrite !manber_sub_exact by (rewrite ?comp_pattern_length; assumption).
  apply revcomp_hits.
Qed.

(** the hit lists are strictly increasing in the position (hence duplicate-free) *)
From Coq Require Import Sorting.Sorted.
Definition pos_lt (a b : Z * Z) : Prop := (fst a < fst b)%Z.
Lemma hits_sorted_gen k pos0 (g : nat -> option nat) : forall n a,
  StronglySorted pos_lt (flat_map (fun p => hit k (pos0 + Z.of_nat p)%Z (g p)) (seq a n)) /\
  (forall h, In h (flat_map (fun p => hit k (pos0 + Z.of_nat p)%Z (g p)) (seq a n)) -> (pos0 + Z.of_nat a <= fst h)%Z).
Proof.
  induction n as [|n IH]; intros a; cbn [seq flat_map].
  - split; [constructor | intros h []].
  - destruct (IH (S a)) as [Hs Hb]. unfold hit at 1 3.
    destruct (g a) as [d|]; [destruct (d <=? k)|]; cbn [app].
    + split.
      * constructor; [exact Hs|]. apply Forall_forall. intros h Hh. apply Hb in Hh. unfold pos_lt. cbn [fst]. lia.
      * intros h [<-|Hh]; [cbn; lia | apply Hb in Hh; lia].
    + split; [exact Hs | intros h Hh; apply Hb in Hh; lia].
    + split; [exact Hs | intros h Hh; apply Hb in Hh; lia].
Qed.
Lemma find_all_spec_sorted pat k w pos0 : StronglySorted pos_lt (find_all_spec pat k w pos0).
Proof. unfold find_all_spec. apply (hits_sorted_gen k pos0 (fun p => mism pat (firstn (List.length pat) (skipn p w)))). Qed.

(** ** LocatePattern: the score is the least edit cost (under _samenuc) over the runs of the fragment *)
Definition mcost (p c : N) : nat := if samenuc p c then 0 else 1.
(* Sellers' recurrence for the byte pattern (reversed prefix [r]) against the history *)
Fixpoint edg (r : list N) : list N -> nat :=
  match r with
  | [] => fun _ => 0
  | p :: r' =>
      fix edh (h : list N) : nat :=
        match h with
        | [] => length (p :: r')
        | c :: h' => Nat.min (Nat.min (edg r' h' + mcost p c) (S (edh h'))) (S (edg r' (c :: h')))
        end
  end.
(* last column: moving up is free = least value over the ends read so far *)
Fixpoint bestcol (p : N) (r' : list N) (h : list N) : nat :=
  match h with
  | [] => S (length r')
  | c :: h' => Nat.min (Nat.min (edg r' h' + mcost p c) (bestcol p r' h')) (S (edg r' (c :: h')))
  end.
Definition colval (t : list N) (p : N) (rdone : list N) (hist : list N) : nat :=
  match t with [] => bestcol p rdone hist | _ => edg (p :: rdone) hist end.
Fixpoint prevrow (todo rdone hist : list N) : list Z :=
  match todo with
  | [] => []
  | p :: t => (- Z.of_nat (colval t p rdone hist))%Z :: prevrow t (p :: rdone) hist
  end.

Lemma edg_cons p r c h : edg (p :: r) (c :: h) =
  Nat.min (Nat.min (edg r h + mcost p c) (S (edg (p :: r) h))) (S (edg r (c :: h))).
Proof. reflexivity. Qed.
Lemma edg_nil r : edg r [] = length r.
Proof. destruct r; reflexivity. Qed.

Lemma fill_row_spec c hist : forall todo rdone,
  map fst (fill_row todo c (- Z.of_nat (edg rdone hist))%Z (prevrow todo rdone hist) (- Z.of_nat (edg rdone (c :: hist)))%Z)
  = prevrow todo rdone (c :: hist).
Proof.
  induction todo as [|p t IH]; intros rdone; [reflexivity|].
  cbn [prevrow fill_row map fst]. f_equal.
  - unfold colval. destruct t as [|p2 t2].
    + cbn [bestcol]. unfold mcost. destruct (samenuc p c); lia.
    + rewrite edg_cons. unfold mcost. destruct (samenuc p c); lia.
  - destruct t as [|p2 t2]; [reflexivity|].
    assert (E : colval (p2 :: t2) p rdone hist = edg (p :: rdone) hist) by reflexivity.
    rewrite E. 
    replace (Z.max (Z.max (- Z.of_nat (edg rdone hist) + (if samenuc p c then 0 else -1)) (- Z.of_nat (edg (p :: rdone) hist) - 1))
                   (- Z.of_nat (edg rdone (c :: hist)) - 1))%Z
      with (- Z.of_nat (edg (p :: rdone) (c :: hist)))%Z.
    + apply IH.
    + rewrite edg_cons. unfold mcost. destruct (samenuc p c); lia.
Qed.

Lemma first_row_gen : forall todo rdone,
  map (fun j => (- Z.of_nat j - 1)%Z) (seq (length rdone) (length todo)) = prevrow todo rdone [].
Proof.
  induction todo as [|p t IH]; intros rdone; [reflexivity|].
  cbn [length seq map prevrow]. f_equal.
  - unfold colval. destruct t; cbn [bestcol]; rewrite ?edg_nil; cbn [length]; lia.
  - exact (IH (p :: rdone)).
Qed.
Lemma first_row_spec pat : first_row (length pat) = prevrow pat [] [].
Proof. exact (first_row_gen pat []). Qed.

Lemma last_rev_match {A} (l : list A) (d : A) : match rev l with [] => d | x :: _ => x end = last l d.
Proof.
  induction l as [|a l IH]; [reflexivity|]. cbn [rev].
  destruct l as [|b l]; [reflexivity|].
  change (last (a :: b :: l) d) with (last (b :: l) d). rewrite <- IH.
  destruct (rev (b :: l)) eqn:E; [|reflexivity].
  apply (f_equal (@length A)) in E. rewrite rev_length in E. discriminate.
Qed.

Lemma last_default_irrel {A} (l : list A) d1 d2 : l <> [] -> last l d1 = last l d2.
Proof.
  induction l as [|a l IH]; intros H; [contradiction|].
  destruct l as [|b l]; [reflexivity|]. 
  change (last (a :: b :: l) d1) with (last (b :: l) d1). change (last (a :: b :: l) d2) with (last (b :: l) d2).
  apply IH. discriminate.
Qed.

Lemma fill_last pat : forall sq hist,
  last (map (map fst) (fill pat sq (prevrow pat [] hist))) (prevrow pat [] hist) = prevrow pat [] (rev sq ++ hist).
Proof.
  induction sq as [|c rest IH]; intros hist; [reflexivity|].
  cbn [fill map rev].
  pose proof (fill_row_spec c hist pat []) as R. cbn [edg] in R. change (- Z.of_nat 0)%Z with 0%Z in R.
  rewrite R. rewrite <- app_assoc. cbn [app]. rewrite <- IH.
  destruct (fill pat rest (prevrow pat [] (c :: hist))) as [|r0 rows]; [reflexivity|].
  cbn [map]. set (x := map fst r0). set (l := map (map fst) rows).
  change (last (prevrow pat [] (c :: hist) :: x :: l) (prevrow pat [] hist)) with (last (x :: l) (prevrow pat [] hist)).
  apply last_default_irrel. discriminate.
Qed.

Lemma prevrow_last : forall todo rdone hist p, 
  last (prevrow (todo ++ [p]) rdone hist) 0%Z = (- Z.of_nat (bestcol p (rev todo ++ rdone) hist))%Z.
Proof.
  induction todo as [|q t IH]; intros rdone hist p; [reflexivity|].
  cbn [app prevrow rev]. rewrite <- app_assoc. cbn [app]. rewrite <- IH.
  destruct (prevrow (t ++ [p]) (q :: rdone) hist) eqn:E; [|reflexivity].
  destruct t; discriminate.
Qed.

Lemma locate_score todo p sq s e d : locate (todo ++ [p]) sq = Some (s, e, d) ->
  d = Z.of_nat (bestcol p (rev todo) (rev sq)).
Proof.
  unfold locate. destruct (todo ++ [p]) as [|p0 pat0] eqn:Epat; [destruct todo; discriminate|].
  rewrite <- Epat. clear p0 pat0 Epat.
  set (pat := todo ++ [p]).
  destruct (backtrack _ _ _ _ _) as [[i' e']|]; [|discriminate].
  intros H. inversion H; subst; clear H.
  replace (match rev (fill pat sq (first_row (length pat))) with
           | [] => first_row (length pat)
           | r :: _ => map fst r end)
    with (last (map (map fst) (fill pat sq (first_row (length pat)))) (first_row (length pat))).
  2:{ rewrite <- last_rev_match, <- map_rev. destruct (rev (fill pat sq (first_row (length pat)))); reflexivity. }
  rewrite first_row_spec, fill_last, app_nil_r. unfold pat. rewrite prevrow_last, app_nil_r. lia.
Qed.

(** edit scripts between a byte pattern and a run of bytes, under _samenuc *)
Inductive alg : list N -> list N -> nat -> Prop :=
| alg_nil : alg [] [] 0
| alg_step p r c x d : alg r x d -> alg (p :: r) (c :: x) (d + mcost p c)     (* match (0) or substitution (1) *)
| alg_ins r c x d : alg r x d -> alg r (c :: x) (S d)
| alg_del p r x d : alg r x d -> alg (p :: r) x (S d).

Lemma alg_all_del r : alg r [] (length r).
Proof. induction r as [|p r IH]; cbn [length]; constructor. exact IH. Qed.

Lemma edg_sound r : forall h, exists x t, h = x ++ t /\ alg r x (edg r h).
Proof.
  induction r as [|p r IHr]; intros h.
  - exists [], h. split; [reflexivity|constructor].
  - induction h as [|c h IHh].
    + rewrite edg_nil. exists [], []. split; [reflexivity|apply alg_all_del].
    + rewrite edg_cons.
      destruct (IHr h) as [x1 [t1 [E1 A1]]]. destruct IHh as [x2 [t2 [E2 A2]]].
      destruct (IHr (c :: h)) as [x3 [t3 [E3 A3]]].
      destruct (Nat.min_spec (Nat.min (edg r h + mcost p c) (S (edg (p :: r) h))) (S (edg r (c :: h)))) as [[_ ->]|[_ ->]].
      * destruct (Nat.min_spec (edg r h + mcost p c) (S (edg (p :: r) h))) as [[_ ->]|[_ ->]].
        -- exists (c :: x1), t1. split; [cbn; now rewrite <- E1|]. now apply alg_step.
        -- exists (c :: x2), t2. split; [cbn; now rewrite <- E2|]. now apply alg_ins.
      * exists x3, t3. split; [exact E3|]. now apply alg_del.
Qed.

Lemma edg_complete r x d : alg r x d -> forall t, edg r (x ++ t) <= d.
Proof.
  induction 1 as [|p r c x d A IH|r c x d A IH|p r x d A IH]; intros t.
  - cbn. lia.
  - cbn [app]. rewrite edg_cons. specialize (IH t). lia.
  - destruct r as [|p r]; [cbn; lia|]. cbn [app]. rewrite edg_cons. specialize (IH t). lia.
  - specialize (IH t). destruct (x ++ t) as [|c h] eqn:E.
    + rewrite edg_nil in *. cbn [length]. lia.
    + rewrite edg_cons. lia.
Qed.

Lemma bestcol_le_here p r : forall h, bestcol p r h <= edg (p :: r) h.
Proof.
  induction h as [|c h IH]; [cbn; lia|]. rewrite edg_cons. cbn [bestcol]. lia.
Qed.
Lemma bestcol_le p r : forall h1 h2, bestcol p r (h1 ++ h2) <= edg (p :: r) h2.
Proof.
  induction h1 as [|c h1 IH]; intros h2; [apply bestcol_le_here|].
  cbn [app bestcol]. specialize (IH h2). lia.
Qed.
Lemma bestcol_attained p r : forall h, exists h1 h2, h = h1 ++ h2 /\ bestcol p r h = edg (p :: r) h2.
Proof.
  induction h as [|c h IH].
  - exists [], []. split; reflexivity.
  - destruct IH as [h1 [h2 [E B]]].
    destruct (le_lt_dec (bestcol p r h) (Nat.min (edg r h + mcost p c) (S (edg r (c :: h))))) as [Hle|Hlt].
    + exists (c :: h1), h2. split; [cbn; now rewrite <- E|]. cbn [bestcol]. rewrite <- B. lia.
    + exists [], (c :: h). split; [reflexivity|]. rewrite edg_cons. cbn [bestcol].
      pose proof (bestcol_le_here p r h). lia.
Qed.

(* reading direction *)
Lemma alg_snoc_step r x d p c : alg r x d -> alg (r ++ [p]) (x ++ [c]) (d + mcost p c).
Proof.
  intros A. induction A; cbn [app].
  - apply (alg_step p [] c [] 0). constructor.
  - replace (d + mcost p0 c0 + mcost p c) with (d + mcost p c + mcost p0 c0) by lia. now apply alg_step.
  - now apply alg_ins.
  - now apply alg_del.
Qed.
Lemma alg_snoc_ins r x d c : alg r x d -> alg r (x ++ [c]) (S d).
Proof.
  intros A. induction A; cbn [app].
  - apply alg_ins. constructor.
  - replace (S (d + mcost p c0)) with (S d + mcost p c0) by lia. now apply alg_step.
  - now apply alg_ins.
  - now apply alg_del.
Qed.
Lemma alg_snoc_del r x d p : alg r x d -> alg (r ++ [p]) x (S d).
Proof.
  intros A. induction A; cbn [app].
  - apply alg_del. constructor.
  - replace (S (d + mcost p0 c)) with (S d + mcost p0 c) by lia. now apply alg_step.
  - now apply alg_ins.
  - now apply alg_del.
Qed.
Lemma alg_rev r x d : alg r x d -> alg (rev r) (rev x) d.
Proof.
  intros A. induction A; cbn [rev].
  - constructor.
  - now apply alg_snoc_step.
  - now apply alg_snoc_ins.
  - now apply alg_snoc_del.
Qed.

Lemma locate_score_minimal pat sq s e d : locate pat sq = Some (s, e, d) ->
  exists d', d = Z.of_nat d' /\
    (exists before run after, sq = before ++ run ++ after /\ alg pat run d') /\
    (forall before run after d'', sq = before ++ run ++ after -> alg pat run d'' -> d' <= d'').
Proof.
  intros H.
  assert (Hp : pat <> []) by (intros ->; discriminate).
  destruct (exists_last Hp) as [todo [p Ep]]. subst pat.
  apply locate_score in H. exists (bestcol p (rev todo) (rev sq)). split; [exact H|]. split.
  - destruct (bestcol_attained p (rev todo) (rev sq)) as [h1 [h2 [E B]]].
    destruct (edg_sound (p :: rev todo) h2) as [x [t [Ex A]]].
    exists (rev t), (rev x), (rev h1). split.
    + rewrite <- (rev_involutive sq), E, Ex. now rewrite !rev_app_distr, app_assoc.
    + rewrite B. apply alg_rev in A. cbn [rev] in A. rewrite rev_involutive in A. exact A.
  - intros before run after d'' E A.
    apply alg_rev in A. rewrite rev_app_distr in A. cbn [rev app] in A.
    pose proof (edg_complete _ _ _ A (rev before)) as C.
    pose proof (bestcol_le p (rev todo) (rev after) (rev run ++ rev before)) as L.
    rewrite E, !rev_app_distr, <- app_assoc. lia.
Qed.

(** ** LocatePattern: the back-tracking follows an optimal path *)
Definition PathFact (pa : Z) (t2 : list N) (p : N) (rd hist : list N) (c : N) : Prop :=
  (pa = (-1)%Z /\ colval t2 p rd (c :: hist) = S (edg rd (c :: hist))) \/
  (pa = 0%Z /\ colval t2 p rd (c :: hist) = edg rd hist + mcost p c) \/
  (pa = 1%Z /\ colval t2 p rd (c :: hist) = match t2 with [] => colval t2 p rd hist | _ => S (colval t2 p rd hist) end).

Lemma fill_row_nth c hist : forall todo rdone k sc pa,
  nth_error (fill_row todo c (- Z.of_nat (edg rdone hist))%Z (prevrow todo rdone hist) (- Z.of_nat (edg rdone (c :: hist)))%Z) k = Some (sc, pa) ->
  exists t1 p t2, todo = t1 ++ p :: t2 /\ length t1 = k /\
    sc = (- Z.of_nat (colval t2 p (rev t1 ++ rdone) (c :: hist)))%Z /\
    PathFact pa t2 p (rev t1 ++ rdone) hist c.
Proof.
  induction todo as [|p t IH]; intros rdone k sc pa H.
  - destruct k; discriminate.
  - cbn [prevrow fill_row] in H.
    set (diag := (- Z.of_nat (edg rdone hist) + (if samenuc p c then 0 else -1))%Z) in *.
    set (l := (- Z.of_nat (edg rdone (c :: hist)) - 1)%Z) in *.
    set (up0 := (- Z.of_nat (colval t p rdone hist))%Z) in *.
    set (up := match t with [] => up0 | _ => (up0 - 1)%Z end) in *.
    set (score := Z.max (Z.max diag up) l) in *.
    assert (Hscore : score = (- Z.of_nat (colval t p rdone (c :: hist)))%Z).
    { unfold score, diag, up, l, up0, colval. destruct t as [|p2 t2].
      - cbn [bestcol]. unfold mcost. destruct (samenuc p c); lia.
      - rewrite edg_cons. unfold mcost. destruct (samenuc p c); lia. }
    destruct k as [|k].
    + cbn [nth_error] in H. inversion H; subst sc pa; clear H.
      exists [], p, t. cbn [app rev length]. repeat split; [exact Hscore|].
      unfold PathFact.
      destruct (Z.eqb_spec score l) as [El|Nl].
      * left. split; [reflexivity|]. unfold l in El. lia.
      * destruct (Z.eqb_spec score diag) as [Ed|Nd].
        -- right; left. split; [reflexivity|]. unfold diag, mcost in *. destruct (samenuc p c); lia.
        -- right; right. split; [reflexivity|].
           assert (Eu : score = up) by (unfold score in *; lia).
           unfold up, up0 in Eu. destruct t; lia.
    + cbn [nth_error] in H.
      destruct t as [|p2 t2]; [destruct k; discriminate|].
      assert (E1 : up0 = (- Z.of_nat (edg (p :: rdone) hist))%Z) by reflexivity.
      assert (E2 : score = (- Z.of_nat (edg (p :: rdone) (c :: hist)))%Z) by (rewrite Hscore; reflexivity).
      rewrite E1, E2 in H.
      apply IH in H. destruct H as [t1 [q [t3 [Et [Hl [Hs Hp]]]]]].
      exists (p :: t1), q, t3. cbn [app rev length]. rewrite <- app_assoc. cbn [app].
      repeat split; [now rewrite Et | now rewrite Hl | exact Hs | exact Hp].
Qed.

Lemma fill_nth pat : forall sq hist I row,
  nth_error (fill pat sq (prevrow pat [] hist)) I = Some row ->
  exists c, nth_error sq I = Some c /\
            row = fill_row pat c 0%Z (prevrow pat [] (rev (firstn I sq) ++ hist)) 0%Z.
Proof.
  induction sq as [|c rest IH]; intros hist I row H.
  - destruct I; discriminate.
  - cbn [fill] in H.
    pose proof (fill_row_spec c hist pat []) as R. cbn [edg] in R. change (- Z.of_nat 0)%Z with 0%Z in R.
    rewrite R in H. destruct I as [|I].
    + cbn [nth_error] in H. inversion H; subst. exists c. split; reflexivity.
    + cbn [nth_error] in H. apply IH in H. destruct H as [c' [Hc Hr]].
      exists c'. split; [exact Hc|]. cbn [firstn rev]. rewrite <- app_assoc. exact Hr.
Qed.

(* the cell (i, j) of the matrix: sequence symbol i, pattern column j *)
Lemma cell_fact pat sq i j sc pa :
  nth_error (fill pat sq (first_row (length pat))) i = Some (fill_row pat (nth i sq 0%N) 0%Z (prevrow pat [] (rev (firstn i sq))) 0%Z) ->
  nth_error (fill_row pat (nth i sq 0%N) 0%Z (prevrow pat [] (rev (firstn i sq))) 0%Z) j = Some (sc, pa) ->
  exists t1 p t2, pat = t1 ++ p :: t2 /\ length t1 = j /\
    sc = (- Z.of_nat (colval t2 p (rev t1) (nth i sq 0%N :: rev (firstn i sq))))%Z /\
    PathFact pa t2 p (rev t1) (rev (firstn i sq)) (nth i sq 0%N).
Proof.
  intros _ H.
  pose proof (fill_row_nth (nth i sq 0%N) (rev (firstn i sq)) pat [] j sc pa) as F.
  cbn [edg] in F. change (- Z.of_nat 0)%Z with 0%Z in F.
  destruct (F H) as [t1 [p [t2 [E [Hl [Hs Hp]]]]]].
  exists t1, p, t2. rewrite app_nil_r in *. repeat split; assumption.
Qed.

Lemma row_at pat sq i : i < length sq ->
  nth i (fill pat sq (first_row (length pat))) [] =
  fill_row pat (nth i sq 0%N) 0%Z (prevrow pat [] (rev (firstn i sq))) 0%Z.
Proof.
  intros Hi. rewrite first_row_spec.
  assert (Hlen : forall sq prev, length (fill pat sq prev) = length sq).
  { induction sq0 as [|c r IH]; intros prev; cbn; [reflexivity|]. now rewrite IH. }
  destruct (nth_error (fill pat sq (prevrow pat [] [])) i) as [row|] eqn:E.
  - rewrite (nth_error_nth _ _ _ E). apply fill_nth in E. destruct E as [c [Hc ->]].
    rewrite app_nil_r. now rewrite (nth_error_nth _ _ _ Hc).
  - apply nth_error_None in E. rewrite Hlen in E. lia.
Qed.

(** ** back-tracking follows an optimal path *)
Lemma split_facts {A} (l t1 t2 : list A) (p : A) j : l = t1 ++ p :: t2 -> length t1 = j ->
  firstn j l = t1 /\ firstn (S j) l = t1 ++ [p] /\ skipn j l = p :: t2 /\ skipn (S j) l = t2 /\ length l = j + S (length t2).
Proof.
  intros -> <-. repeat split.
  - rewrite firstn_app, Nat.sub_diag, firstn_all. cbn. now rewrite app_nil_r.
  - rewrite firstn_app, firstn_all2 by lia. replace (S (length t1) - length t1) with 1 by lia. reflexivity.
  - rewrite skipn_app, skipn_all, Nat.sub_diag. reflexivity.
  - rewrite skipn_app, skipn_all2 by lia. replace (S (length t1) - length t1) with 1 by lia. reflexivity.
  - rewrite app_length. cbn. lia.
Qed.

Lemma nth_split {A} (l : list A) i d : i < length l ->
  firstn (S i) l = firstn i l ++ [nth i l d] /\ skipn i l = nth i l d :: skipn (S i) l.
Proof.
  revert i. induction l as [|a l IH]; intros i Hi; [cbn in Hi; lia|].
  destruct i as [|i]; [split; reflexivity|].
  cbn [length] in Hi. destruct (IH i ltac:(lia)) as [H1 H2].
  split.
  - change (firstn (S (S i)) (a :: l)) with (a :: firstn (S i) l). rewrite H1. reflexivity.
  - cbn [skipn nth]. exact H2.
Qed.

Lemma edg_single p c h : edg [p] (c :: h) = mcost p c.
Proof. rewrite edg_cons. cbn [edg]. unfold mcost. destruct (samenuc p c); lia. Qed.

Lemma path_fact pat sq i j : i < length sq -> j < length pat ->
  exists t1 p t2, pat = t1 ++ p :: t2 /\ length t1 = j /\
    PathFact (path_at (fill pat sq (first_row (length pat))) (Z.of_nat i) (Z.of_nat j)) t2 p (rev t1) (rev (firstn i sq)) (nth i sq 0%N).
Proof.
  intros Hi Hj. unfold path_at. destruct (Z.ltb_spec (Z.of_nat i) 0); [lia|].
  rewrite !Nat2Z.id, (row_at pat sq i Hi).
  set (row := fill_row pat (nth i sq 0%N) 0%Z (prevrow pat [] (rev (firstn i sq))) 0%Z).
  destruct (nth_error row j) as [[sc pa]|] eqn:E.
  - rewrite (nth_error_nth _ _ _ E). cbn [snd].
    pose proof (fill_row_nth (nth i sq 0%N) (rev (firstn i sq)) pat [] j sc pa) as F.
    cbn [edg] in F. change (- Z.of_nat 0)%Z with 0%Z in F.
    destruct (F E) as [t1 [p [t2 [Ep [Hl [_ Hp]]]]]].
    exists t1, p, t2. rewrite app_nil_r in Hp. repeat split; assumption.
  - exfalso. apply nth_error_None in E.
    assert (Hlen : forall todo c pd prev left, length prev = length todo -> length (fill_row todo c pd prev left) = length todo).
    { induction todo as [|q t IH]; intros c pd prev left Hp; [reflexivity|].
      destruct prev as [|u prev]; [discriminate|]. cbn [fill_row length]. f_equal. apply IH. cbn in Hp. lia. }
    assert (Hpl : forall todo rd h, length (prevrow todo rd h) = length todo).
    { induction todo as [|q t IH]; intros rd h; cbn; [reflexivity|]. now rewrite IH. }
    unfold row in E. rewrite Hlen in E by apply Hpl. lia.
Qed.

Lemma locate_unfold pat sq : pat <> [] ->
  locate pat sq =
  let m := List.length pat in
  let rows := fill pat sq (first_row m) in
  let n := Z.of_nat (List.length sq) in
  let lastrow := match rev rows with [] => first_row m | r :: _ => map fst r end in
  let score := last lastrow 0%Z in
  match backtrack (List.length sq + m + 2) rows (n - 1)%Z (Z.of_nat m - 1)%Z (-1)%Z with
  | None => None
  | Some (i, e) =>
      let e := if (e =? -1)%Z then i else e in
      let i := if (i <? 0)%Z then 0%Z else i in
      Some (i, (e + 1)%Z, (- score)%Z)
  end.
Proof. intros H. destruct pat; [contradiction|reflexivity]. Qed.

Section Backtrack.
Variables (todo : list N) (pl : N) (sq : list N).
Let pat := todo ++ [pl].
Let m := length pat.
Let n := length sq.
Let rows := fill pat sq (first_row (length pat)).
Let hist (I : nat) := rev (firstn I sq).
Let bcV (I : nat) := bestcol pl (rev todo) (hist I).
Let D := bcV n.

Definition InvB (DD : nat) (I J E : nat) : Prop :=
  I <= n /\ J < m /\ E <= n /\
  ((E = 0 /\ ((J = m - 1 /\ bcV I = DD) \/ (I = 0 /\ DD = m))) \/
   (1 <= E /\ I <= E /\ J < m - 1 /\
    exists cacc, alg (skipn (S J) pat) (firstn (E - I) (skipn I sq)) cacc /\
                 cacc + edg (rev (firstn (S J) pat)) (hist I) = DD)).

Definition ResOK (DD : nat) (I E : nat) : Prop :=
  alg pat (firstn ((if E =? 0 then I else E) - (I - 1)) (skipn (I - 1) sq)) DD.

Lemma m_len : m = S (length todo).
Proof. unfold m, pat. rewrite app_length. cbn. lia. Qed.

Lemma hist_S I : I < n -> hist (S I) = nth I sq 0%N :: hist I.
Proof.
  intros H. unfold hist. destruct (nth_split sq I 0%N H) as [E _]. rewrite E, rev_app_distr. reflexivity.
Qed.
Lemma skipn_S I : I < n -> skipn I sq = nth I sq 0%N :: skipn (S I) sq.
Proof. intros H. now destruct (nth_split sq I 0%N H). Qed.

Lemma last_col t1 p t2 : pat = t1 ++ p :: t2 -> length t1 = m - 1 -> t1 = todo /\ p = pl /\ t2 = [].
Proof.
  intros E Hl. pose proof m_len as Hm.
  assert (Ht2 : t2 = []).
  { pose proof (f_equal (@length N) E) as EL. rewrite app_length in EL. cbn [length] in EL. change (length pat) with m in EL.
    destruct t2; [reflexivity|cbn [length] in EL; lia]. }
  subst t2. unfold pat in E. apply app_inj_tail in E. destruct E; subst; auto.
Qed.

Lemma exit_ok DD I E : InvB DD I 0 E ->
  ~ (0 <= Z.of_nat I - 1 /\ path_at rows (Z.of_nat I - 1) 0 = 1)%Z -> ResOK DD I E.
Proof.
  intros [HI [HJ [HE Hph]]] Hnot. unfold ResOK. pose proof m_len as Hm.
  destruct Hph as [[E0 [[Hj Hb]|[I0 Hd]]] | [HE1 [HIE [Hjm [cacc [A Hc]]]]]].
  - (* single symbol pattern, still in the last column *)
    subst E. cbn [Nat.eqb].
    assert (Ht : todo = []) by (apply length_zero_iff_nil; lia).
    destruct I as [|I].
    + cbn. unfold bcV, hist in Hb. rewrite Ht in *. cbn in Hb. subst DD. unfold pat. rewrite Ht. cbn.
      apply alg_del. constructor.
    + replace (S I - (S I - 1)) with 1 by lia. replace (S I - 1) with I by lia.
      rewrite (skipn_S I) by lia. cbn [firstn].
      unfold bcV in Hb. rewrite hist_S in Hb by lia. rewrite Ht in Hb. cbn [rev] in Hb.
      destruct (path_fact pat sq I 0 ltac:(fold n; lia) ltac:(fold m; lia)) as [t1 [p [t2 [Ep [Hl Hp]]]]].
      destruct (last_col t1 p t2 Ep ltac:(rewrite Hl; lia)) as [-> [-> ->]].
      rewrite Ht in Hp. cbn [rev] in Hp. fold rows in Hp.
      replace (Z.of_nat (S I) - 1)%Z with (Z.of_nat I) in Hnot by lia. cbn [Z.of_nat] in Hp.
      unfold pat. rewrite Ht. cbn [app].
      destruct Hp as [[Hpa Hv]|[[Hpa Hv]|[Hpa Hv]]].
      * unfold colval in Hv. cbn [edg] in Hv. fold (hist I) in Hv. rewrite Hv in Hb. subst DD.
        cbn [bestcol edg] in Hv. unfold mcost in *.
        destruct (samenuc pl (nth I sq 0%N)) eqn:Es; [lia|].
        replace 1 with (0 + mcost pl (nth I sq 0%N)) by (unfold mcost; rewrite Es; reflexivity).
        apply alg_step. constructor.
      * unfold colval in Hv. cbn [edg] in Hv. fold (hist I) in Hv. rewrite Hv in Hb. subst DD.
        apply alg_step. constructor.
      * exfalso. apply Hnot. split; [lia|exact Hpa].
  - subst E I DD. cbn. unfold m. apply alg_all_del.
  - (* column 0 reached after at least one consumed column *)
    destruct (Nat.eqb_spec E 0); [lia|].
    assert (Hp0 : exists p0 rest, pat = p0 :: rest) by (unfold pat; destruct todo; cbn [app]; eauto).
    destruct Hp0 as [p0 [rest Ep]]. rewrite Ep in *. cbn [firstn skipn rev app] in *.
    destruct I as [|I].
    + cbn [Nat.sub skipn] in *. unfold hist in Hc. cbn in Hc. replace (E - 0) with E in A by lia.
      replace DD with (S cacc) by lia. replace (E - 0) with E by lia. now apply alg_del.
    + replace (S I - 1) with I by lia. rewrite (skipn_S I) by lia.
      replace (E - I) with (S (E - S I)) by lia. cbn [firstn].
      rewrite hist_S in Hc by lia. rewrite edg_single in Hc. rewrite <- Hc. now apply alg_step.
Qed.

Ltac tup := (apply (f_equal2 pair); [apply (f_equal2 pair)|]); try reflexivity; try lia.

Definition next_state (p i j e : Z) : Z * Z * Z :=
  if (p =? 0)%Z then ((i - 1)%Z, (j - 1)%Z, if (e =? -1)%Z then i else e)
  else if (p =? 1)%Z then ((i - 1)%Z, j, e)
  else (i, (j - 1)%Z, if (e =? -1)%Z then i else e).

Lemma step_ok DD I J E :
  InvB DD I J E ->
  let i := (Z.of_nat I - 1)%Z in let j := Z.of_nat J in let e := (Z.of_nat E - 1)%Z in
  let p := path_at rows i j in
  ((0 <? j)%Z || ((0 <=? i)%Z && (p =? 1)%Z)) = true ->
  exists I' J' E', InvB DD I' J' E' /\
    next_state p i j e = ((Z.of_nat I' - 1)%Z, Z.of_nat J', (Z.of_nat E' - 1)%Z).
Proof.
  intros [HI [HJ [HE Hph]]] i j e p Hc. pose proof m_len as Hm.
  destruct I as [|I].
  - (* row -1: the path goes left *)
    assert (Hp : p = (-1)%Z) by (unfold p, path_at, i; cbn; reflexivity).
    assert (HJ0 : 0 < J).
    { rewrite Hp in Hc. unfold i, j in Hc. cbn in Hc. rewrite orb_false_r in Hc. apply Z.ltb_lt in Hc. lia. }
    unfold next_state. rewrite Hp. cbn [Z.eqb].
    destruct Hph as [[E0 Hd] | [HE1 [HIE [Hjm [cacc [A Hca]]]]]].
    + subst E. exists 0, (J - 1), 0. split.
      * split; [lia|]. split; [lia|]. split; [lia|]. left. split; [reflexivity|]. right. split; [reflexivity|].
        destruct Hd as [[Hj Hb]|[_ Hd]]; [|exact Hd].
        unfold bcV, hist in Hb. cbn in Hb. rewrite rev_length in Hb. lia.
      * unfold i, j, e. destruct (Z.eqb_spec (Z.of_nat 0 - 1) (-1)); [|lia]. tup.
    + exists 0, (J - 1), E. split.
      * split; [lia|]. split; [lia|]. split; [lia|]. right. split; [lia|]. split; [lia|]. split; [lia|].
        destruct (nth_split pat J 0%N ltac:(fold m; lia)) as [F1 F2].
        exists (S cacc). replace (S (J - 1)) with J by lia. split.
        -- rewrite F2. now apply alg_del.
        -- assert (H0 : hist 0 = []) by reflexivity. rewrite H0 in *.
           rewrite edg_nil in Hca. rewrite edg_nil. rewrite rev_length, firstn_length in *.
           fold m in Hca |- *. lia.
      * unfold i, j, e. destruct (Z.eqb_spec (Z.of_nat E - 1) (-1)); [lia|]. tup.
  - (* a row of the sequence *)
    assert (HIn : I < n) by lia.
    destruct (path_fact pat sq I J ltac:(fold n; lia) ltac:(fold m; lia)) as [t1 [q [t2 [Ep [Hl Hp]]]]].
    fold rows in Hp. replace (Z.of_nat I) with i in Hp by (unfold i; lia). fold j p in Hp.
    change (rev (firstn I sq)) with (hist I) in Hp.
    destruct (split_facts pat t1 t2 q J Ep Hl) as [S1 [S2 [S3 [S4 S5]]]]. fold m in S5.
    pose proof (hist_S I HIn) as HS. pose proof (skipn_S I HIn) as KS.
    set (c := nth I sq 0%N) in *.
    unfold next_state.
    destruct Hp as [[Hpa Hv]|[[Hpa Hv]|[Hpa Hv]]]; rewrite Hpa in *; cbn [Z.eqb].
    + (* left: the pattern position J is deleted *)
      assert (HJ0 : 0 < J).
      { unfold j in Hc. cbn [Z.eqb] in Hc. rewrite andb_false_r, orb_false_r in Hc. apply Z.ltb_lt in Hc. lia. }
      destruct Hph as [[E0 Hd] | [HE1 [HIE [Hjm [cacc [A Hca]]]]]].
      * subst E. destruct Hd as [[Hj Hb]|[I0 _]]; [|discriminate].
        destruct (last_col t1 q t2 Ep ltac:(lia)) as [-> [-> ->]].
        exists (S I), (J - 1), (S I). split.
        -- split; [lia|]. split; [lia|]. split; [lia|]. right. split; [lia|]. split; [lia|]. split; [lia|].
           exists 1. replace (S (J - 1)) with J by lia. rewrite S3, S1, Nat.sub_diag. cbn [firstn]. split.
           ++ apply alg_del. constructor.
           ++ unfold bcV in Hb. rewrite HS in *. unfold colval in Hv. rewrite Hv in Hb. lia.
        -- unfold i, j, e. destruct (Z.eqb_spec (Z.of_nat 0 - 1) (-1)); [|lia]. tup.
      * exists (S I), (J - 1), E. split.
        -- split; [lia|]. split; [lia|]. split; [lia|]. right. split; [lia|]. split; [lia|]. split; [lia|].
           exists (S cacc). replace (S (J - 1)) with J by lia. rewrite S3, S1. rewrite S4 in A. split.
           ++ now apply alg_del.
           ++ rewrite S2, rev_app_distr in Hca. cbn [rev app] in Hca. rewrite HS in *.
              assert (Ht2 : t2 <> []) by (intros ->; cbn in S5; lia).
              unfold colval in Hv. destruct t2; [contradiction|]. lia.
        -- unfold i, j, e. destruct (Z.eqb_spec (Z.of_nat E - 1) (-1)); [lia|]. tup.
    + (* diagonal: position J faces the symbol I *)
      assert (HJ0 : 0 < J).
      { unfold j in Hc. cbn [Z.eqb] in Hc. rewrite andb_false_r, orb_false_r in Hc. apply Z.ltb_lt in Hc. lia. }
      destruct Hph as [[E0 Hd] | [HE1 [HIE [Hjm [cacc [A Hca]]]]]].
      * subst E. destruct Hd as [[Hj Hb]|[I0 _]]; [|discriminate].
        destruct (last_col t1 q t2 Ep ltac:(lia)) as [-> [-> ->]].
        exists I, (J - 1), (S I). split.
        -- split; [lia|]. split; [lia|]. split; [lia|]. right. split; [lia|]. split; [lia|]. split; [lia|].
           exists (0 + mcost pl c). replace (S (J - 1)) with J by lia. rewrite S3, S1.
           replace (S I - I) with 1 by lia. rewrite KS. cbn [firstn]. split.
           ++ apply alg_step. constructor.
           ++ unfold bcV in Hb. rewrite HS in Hb. unfold colval in Hv. rewrite Hv in Hb. lia.
        -- unfold i, j, e. destruct (Z.eqb_spec (Z.of_nat 0 - 1) (-1)); [|lia]. tup.
      * exists I, (J - 1), E. split.
        -- split; [lia|]. split; [lia|]. split; [lia|]. right. split; [lia|]. split; [lia|]. split; [lia|].
           exists (cacc + mcost q c). replace (S (J - 1)) with J by lia. rewrite S3, S1. rewrite S4 in A. split.
           ++ rewrite KS. replace (E - I) with (S (E - S I)) by lia. cbn [firstn]. now apply alg_step.
           ++ rewrite S2, rev_app_distr in Hca. cbn [rev app] in Hca. rewrite HS in Hca.
              assert (Ht2 : t2 <> []) by (intros ->; cbn in S5; lia).
              unfold colval in Hv. destruct t2; [contradiction|]. lia.
        -- unfold i, j, e. destruct (Z.eqb_spec (Z.of_nat E - 1) (-1)); [lia|]. tup.
    + (* up: the symbol I is inserted (for free in the last column) *)
      destruct Hph as [[E0 Hd] | [HE1 [HIE [Hjm [cacc [A Hca]]]]]].
      * subst E. destruct Hd as [[Hj Hb]|[I0 _]]; [|discriminate].
        destruct (last_col t1 q t2 Ep ltac:(lia)) as [-> [-> ->]].
        exists I, J, 0. split.
        -- split; [lia|]. split; [lia|]. split; [lia|]. left. split; [reflexivity|]. left. split; [exact Hj|].
           unfold bcV in *. rewrite HS in Hb. unfold colval in Hv. rewrite Hv in Hb. exact Hb.
        -- unfold i, j, e. tup.
      * exists I, J, E. split.
        -- split; [lia|]. split; [lia|]. split; [lia|]. right. split; [lia|]. split; [lia|]. split; [lia|].
           exists (S cacc). split.
           ++ rewrite KS. replace (E - I) with (S (E - S I)) by lia. cbn [firstn]. now apply alg_ins.
           ++ rewrite S2, rev_app_distr in *. cbn [rev app] in *. rewrite HS in Hca.
              assert (Ht2 : t2 <> []) by (intros ->; cbn in S5; lia).
              unfold colval in Hv. destruct t2; [contradiction|]. lia.
        -- unfold i, j, e. tup.
Qed.

Lemma backtrack_ok : forall fuel DD I J E i' e',
  InvB DD I J E ->
  backtrack fuel rows (Z.of_nat I - 1)%Z (Z.of_nat J) (Z.of_nat E - 1)%Z = Some (i', e') ->
  exists I' E', i' = (Z.of_nat I' - 1)%Z /\ e' = (Z.of_nat E' - 1)%Z /\ ResOK DD I' E'.
Proof.
  induction fuel as [|f IH]; intros DD I J E i' e' Hinv H; [discriminate|].
  cbn [backtrack] in H. cbv zeta in H.
  destruct ((0 <? Z.of_nat J)%Z || ((0 <=? Z.of_nat I - 1)%Z && (path_at rows (Z.of_nat I - 1) (Z.of_nat J) =? 1)%Z)) eqn:C.
  - destruct (step_ok DD I J E Hinv C) as [I2 [J2 [E2 [Hinv2 Hn]]]]. unfold next_state in Hn.
    destruct (path_at rows (Z.of_nat I - 1) (Z.of_nat J) =? 0)%Z;
      [|destruct (path_at rows (Z.of_nat I - 1) (Z.of_nat J) =? 1)%Z];
      inversion Hn as [[H1 H2 H3]]; rewrite ?H3 in H; rewrite ?H2 in H; rewrite ?H1 in H; exact (IH _ _ _ _ _ _ Hinv2 H).
  - inversion H; subst i' e'; clear H.
    apply orb_false_iff in C. destruct C as [C1 C2]. apply Z.ltb_ge in C1.
    assert (J = 0) by lia. subst J.
    exists I, E. split; [reflexivity|]. split; [reflexivity|].
    apply exit_ok; [exact Hinv|]. intros [Hi Hp]. 
    apply andb_false_iff in C2. destruct C2 as [C2|C2].
    + apply Z.leb_gt in C2. lia.
    + apply Z.eqb_neq in C2. contradiction.
Qed.

Lemma locate_attains s e d : locate pat sq = Some (s, e, d) ->
  d = Z.of_nat D /\ alg pat (slice sq s e) D.
Proof.
  intros H. pose proof (locate_score todo pl sq s e d H) as Hd. fold (hist n) in Hd.
  assert (Hn : hist n = rev sq) by (unfold hist, n; now rewrite firstn_all).
  split; [rewrite Hd; unfold D, bcV; now rewrite Hn|].
  rewrite locate_unfold in H by (unfold pat; destruct todo; discriminate). cbv zeta in H. fold rows in H.
  destruct (backtrack _ rows _ _ _) as [[i' e']|] eqn:B; [|discriminate].
  inversion H; subst s e; clear H.
  pose proof m_len as Hm.
  replace (Z.of_nat (length sq) - 1)%Z with (Z.of_nat n - 1)%Z in B by reflexivity.
  replace (Z.of_nat (length pat) - 1)%Z with (Z.of_nat (m - 1)) in B by (unfold m; lia).
  change (-1)%Z with (Z.of_nat 0 - 1)%Z in B.
  apply (backtrack_ok _ D n (m - 1) 0) in B.
  2:{ split; [lia|]. split; [lia|]. split; [lia|]. left. split; [reflexivity|]. left. split; reflexivity. }
  destruct B as [I' [E' [-> [-> R]]]]. unfold ResOK in R. unfold slice.
  destruct (Nat.eqb_spec E' 0) as [E0|E0].
  - subst E'. destruct (Z.eqb_spec (Z.of_nat 0 - 1) (-1)); [|lia].
    destruct (Z.ltb_spec (Z.of_nat I' - 1) 0).
    + assert (I' = 0) by lia. subst I'. cbn in *. exact R.
    + replace (Z.to_nat (Z.of_nat I' - 1 + 1 - (Z.of_nat I' - 1))) with (I' - (I' - 1)) by lia.
      replace (Z.to_nat (Z.of_nat I' - 1)) with (I' - 1) by lia. exact R.
  - destruct (Z.eqb_spec (Z.of_nat E' - 1) (-1)); [lia|].
    destruct (Z.ltb_spec (Z.of_nat I' - 1) 0).
    + assert (I' = 0) by lia. subst I'. cbn [Nat.sub] in R.
      replace (Z.to_nat (Z.of_nat E' - 1 + 1 - 0)) with (E' - 0) by lia. exact R.
    + replace (Z.to_nat (Z.of_nat E' - 1 + 1 - (Z.of_nat I' - 1))) with (E' - (I' - 1)) by lia.
      replace (Z.to_nat (Z.of_nat I' - 1)) with (I' - 1) by lia. exact R.
Qed.
End Backtrack.

Lemma slice_decomp (sq : list N) s e : (0 <= s <= e)%Z -> (e <= Z.of_nat (length sq))%Z ->
  sq = firstn (Z.to_nat s) sq ++ slice sq s e ++ skipn (Z.to_nat e) sq.
Proof.
  intros Hs He. unfold slice.
  rewrite <- (firstn_skipn (Z.to_nat s) sq) at 1. f_equal.
  rewrite <- (firstn_skipn (Z.to_nat (e - s)) (skipn (Z.to_nat s) sq)) at 1. f_equal.
  rewrite skipn_add. f_equal. lia.
Qed.

(** LocatePattern: the reported count is the edit distance between the pattern and the reported span,
    which lies inside the fragment, and no run of the fragment is closer to the pattern *)
Lemma locate_correct pat sq s e d : locate pat sq = Some (s, e, d) ->
  (0 <= s <= e)%Z /\ (e <= Z.of_nat (length sq))%Z /\
  exists d', d = Z.of_nat d' /\ alg pat (slice sq s e) d' /\
    (forall d'', alg pat (slice sq s e) d'' -> d' <= d'') /\
    (forall before run after d'', sq = before ++ run ++ after -> alg pat run d'' -> d' <= d'').
Proof.
  intros H. destruct (locate_span _ _ _ _ _ H) as [Hs He]. split; [exact Hs|]. split; [exact He|].
  destruct (locate_score_minimal _ _ _ _ _ H) as [d' [Ed [_ Hmin]]].
  assert (Hp : pat <> []) by (intros ->; discriminate).
  destruct (exists_last Hp) as [todo [pl Ep]]. subst pat.
  destruct (locate_attains todo pl sq s e d H) as [Ed2 A].
  exists d'. split; [exact Ed|].
  assert (d' = bestcol pl (rev todo) (rev (firstn (length sq) sq))) by lia. subst d'.
  split; [exact A|]. split; [|exact Hmin].
  intros d'' A2. apply (Hmin _ _ _ _ (slice_decomp sq s e Hs He) A2).
Qed.

Lemma slice_slice (sq : list N) a b pb pe : (0 <= a)%Z -> (0 <= pb <= pe)%Z -> (pe <= b - a)%Z ->
  slice (slice sq a b) pb pe = slice sq (a + pb) (a + pe).
Proof.
  intros Ha Hp Hb. unfold slice.
  rewrite skipn_firstn_comm, firstn_firstn, skipn_add.
  replace (Nat.min (Z.to_nat (pe - pb)) (Z.to_nat (b - a) - Z.to_nat pb)) with (Z.to_nat (pe - pb)) by lia.
  replace (Z.to_nat a + Z.to_nat pb) with (Z.to_nat (a + pb)) by lia.
  replace (a + pe - (a + pb))%Z with (pe - pb)%Z by lia. reflexivity.
Qed.

(* AllMatches: a re-aligned match is a span of the sequence whose edit distance to the pattern is the reported count *)
Lemma realign_all_correct cpatb sq m h s e d : realign_all cpatb sq m h = Some (s, e, d) ->
  (0 <= s <= e)%Z /\ (e <= Z.of_nat (List.length sq))%Z /\
  exists d', d = Z.of_nat d' /\ alg cpatb (slice sq s e) d' /\ (forall d'', alg cpatb (slice sq s e) d'' -> d' <= d'').
Proof.
  intros H. destruct (realign_all_span _ _ _ _ _ _ _ H) as [Hs He]. split; [exact Hs|]. split; [exact He|].
  unfold realign_all in H. destruct h as [[m0 m1] m2].
  set (start := Z.max (m0 - m2 * 2) 0) in *. set (en := Z.min (start + m + 4 * m2) (Z.of_nat (List.length sq))) in *.
  destruct (Z.ltb_spec en start) as [|Hle]; [discriminate|].
  destruct (locate cpatb (slice sq start en)) as [[[pb pe] sc]|] eqn:L; [|discriminate].
  inversion H; subst; clear H.
  destruct (locate_correct _ _ _ _ _ L) as [Hpb [Hpe [d' [Ed [A [Hmin _]]]]]].
  rewrite slice_length in Hpe by (unfold start, en in *; lia).
  rewrite slice_slice in A, Hmin by (unfold start in *; lia).
  exists d'. repeat split; assumption.
Qed.

(* BestMatch: when the best hit is re-aligned (indels allowed, at least one error), the reported count is
   the edit distance between the pattern string and the reported span *)
Lemma best_match_realigned_correct cpatb sq m res s e n :
  snd (best_loop res (0, 0, 10000)%Z) <> 0%Z ->
  best_match cpatb sq m true res = Some (s, e, n, true) ->
  (0 <= s <= e)%Z /\ (e <= Z.of_nat (List.length sq))%Z /\
  exists d', n = Z.of_nat d' /\ alg cpatb (slice sq s e) d' /\ (forall d'', alg cpatb (slice sq s e) d'' -> d' <= d'').
Proof.
  intros Hne. unfold best_match. destruct res as [|h0 res0]; [intros H; inversion H|].
  set (res := h0 :: res0) in *.
  destruct (best_loop res (0, 0, 10000)%Z) as [[b0 b1] b2] eqn:B. cbn [snd] in Hne.
  replace ((b2 =? 0)%Z || negb true) with false by (symmetry; rewrite orb_false_r; now apply Z.eqb_neq).
  rewrite andb_false_r. cbn [orb].
  destruct (Z.ltb_spec (Z.of_nat (List.length sq)) b1) as [Hgt|Hb1]; [intros Hx; inversion Hx|].
  set (start := Z.max (b0 - b2) 0). set (en := Z.min (b0 + m + b2) (Z.of_nat (List.length sq))).
  destruct (Z.ltb_spec en start) as [|Hle]; [discriminate|].
  destruct (locate cpatb (slice sq start en)) as [[[from to] sc]|] eqn:L; [|discriminate].
  intros H'. inversion H'; subst; clear H'.
  destruct (locate_correct _ _ _ _ _ L) as [Hpb [Hpe [d' [Ed [A [Hmin _]]]]]].
  rewrite slice_length in Hpe by (unfold start, en in *; lia).
  rewrite slice_slice in A, Hmin by (unfold start in *; lia).
  split; [unfold start, en in *; lia|]. split; [unfold start, en in *; lia|].
  exists d'. repeat split; assumption.
Qed.
