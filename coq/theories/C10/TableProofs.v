(** C10 — obligations over the REGENERATED tables (Gen/Tables.v, rewritten from the current build by tools/props/c10.py
    regen on every run): every lemma here is re-checked by the kernel against the tables of the code as it is now. *)
From Coq Require Import NArith ZArith List Bool Lia.
Import ListNotations.
From OBI.C10 Require Import Model Proofs.

(** ---------------- regenerated tables: finite obligations re-proved on every run ---------------- *)
Lemma upper_in_letters26 L : is_upper L = true -> In L letters26.
Proof.
  unfold is_upper. rewrite andb_true_iff, !N.leb_le. intros [H1 H2].
  unfold letters26. apply in_map_iff. exists (N.to_nat (L - 65)). split; [lia|]. apply in_seq. lia.
Qed.

Lemma letters26_upper L : In L letters26 -> is_upper L = true.
Proof.
  unfold letters26. rewrite in_map_iff. intros [i [<- Hi]]. apply in_seq in Hi.
  unfold is_upper. rewrite andb_true_iff, !N.leb_le. lia.
Qed.

Lemma testbit_set_of (f : N -> N) l c :
  N.testbit (set_of f l) c = true <-> exists b, In b l /\ f b = c.
Proof.
  induction l as [|b l IH]; cbn [set_of fold_right].
  - rewrite N.bits_0. split; [discriminate|intros [b [[] _]]].
  - fold (set_of f l). rewrite N.lor_spec, orb_true_iff, IH. split.
    + intros [H|[b' [Hb Hf]]].
      * exists b. split; [now left|].
        destruct (N.eq_dec (f b) c) as [E|E]; [exact E|].
        exfalso. destruct (N.lt_ge_cases c (f b)) as [Hlt|Hge].
        -- rewrite N.shiftl_spec_low in H by exact Hlt. discriminate.
        -- rewrite N.shiftl_spec_high' in H by exact Hge.
           assert (c - f b <> 0)%N by lia.
           destruct (c - f b)%N eqn:Ec; [lia|]. cbn in H. destruct p; discriminate.
      * exists b'. split; [now right|exact Hf].
    + intros [b' [[<-|Hb] Hf]].
      * left. subst c. rewrite N.shiftl_spec_high' by lia. rewrite N.sub_diag. reflexivity.
      * right. exists b'. split; assumption.
Qed.

(* LX_BIO_CDNA_ALPHA agrees with the complement of symbol sets on the 26 letters *)
Lemma comp_table_consistent : comp_table_ok = true.
Proof. vm_compute. reflexivity. Qed.
Lemma dna_code_tab_ok : forallb dna_code_letter_ok letters26 = true.
Proof. vm_compute. reflexivity. Qed.
Lemma iupac_tab_ok : forallb iupac_letter_ok letters26 = true.
Proof. vm_compute. reflexivity. Qed.
Lemma samenuc_agree_ok : forallb (fun L => negb (plain_letter L) || samenuc_agree_letter L) letters26 = true.
Proof. vm_compute. reflexivity. Qed.
Lemma constants_consistent : constants_ok = true.
Proof. vm_compute. reflexivity. Qed.

(* sDnaCode: the symbol set of a pattern letter is exactly its IUPAC base set *)
Lemma dna_code_iupac L : is_upper L = true -> forall c, N.testbit (dna_code L) c = true <-> In c (bases_of L).
Proof.
  intros HL c. pose proof (proj1 (forallb_forall _ _) dna_code_tab_ok L (upper_in_letters26 L HL)) as H.
  unfold dna_code_letter_ok in H. apply N.eqb_eq in H. rewrite H, testbit_set_of.
  split; [intros [b [Hb <-]]; exact Hb|intros Hc; exists c; split; [exact Hc|reflexivity]].
Qed.

(* obialign._iupac: same base sets on the four bits a c g t, for every letter but x *)
Lemma iupac_tab_iupac L : is_upper L = true -> L <> letter_X ->
  forall j, N.testbit (nth (N.to_nat (L - 65)) iupac_tab 0%N) j = true <-> exists b, In b (bases_of L) /\ base_bit b = j.
Proof.
  intros HL HX j. pose proof (proj1 (forallb_forall _ _) iupac_tab_ok L (upper_in_letters26 L HL)) as H.
  unfold iupac_letter_ok in H. apply orb_true_iff in H. destruct H as [H|H]; [apply N.eqb_eq in H; contradiction|].
  apply N.eqb_eq in H. rewrite H. apply testbit_set_of.
Qed.

(* goal 4, table level: on a/c/g/t text symbols LocatePattern's comparison (_samenuc over _iupac) and the automaton's
   symbol sets (sDnaCode) are the same relation, for every pattern letter but X *)
Lemma samenuc_agrees L c : plain_letter L = true -> In c plain_codes ->
  samenuc L (c + 97) = sym_match (dna_code L, false) c.
Proof.
  intros HL Hc. assert (HU : is_upper L = true) by (unfold plain_letter in HL; apply andb_true_iff in HL; tauto).
  pose proof (proj1 (forallb_forall _ _) samenuc_agree_ok L (upper_in_letters26 L HU)) as H.
  cbv beta in H. rewrite HL in H. cbn [negb orb] in H. unfold samenuc_agree_letter in H.
  pose proof (proj1 (forallb_forall _ _) H c Hc) as H1. apply eqb_prop in H1. exact H1.
Qed.

Lemma samenuc_X_differs : samenuc letter_X (0 + 97) = false /\ sym_match (dna_code letter_X, false) 0 = true.
Proof. vm_compute. split; reflexivity. Qed.

Lemma max_pat_len_64 : MAX_PAT_LEN = 64%Z.
Proof. vm_compute. reflexivity. Qed.

(* the scanned window [max(begin,0), min(begin+length+MAX_PAT_LEN, seqlen)) contains every occurrence that starts in the
   requested region [begin, begin+length): the margin MAX_PAT_LEN is at least the length of any admissible pattern *)
Lemma window_covers_starts seqlen begin length s m :
  (0 <= begin)%Z -> (0 <= length)%Z -> (begin <= s < begin + length)%Z -> (0 <= m <= 63)%Z -> (s + m <= seqlen)%Z ->
  (win_begin begin <= s)%Z /\ (s + m <= win_end seqlen begin length)%Z.
Proof.
  intros Hb Hl Hs Hm He. unfold win_end, win_begin. rewrite max_pat_len_64.
  destruct (begin <? 0)%Z eqn:E1; [apply Z.ltb_lt in E1; lia|].
  destruct (length <? 0)%Z eqn:E2; [apply Z.ltb_lt in E2; lia|]. lia.
Qed.

(* MakeApatPattern (as repaired) only returns patterns the theorems on the automata apply to *)
Lemma make_pattern_length s p : make_pattern s = Some p -> parse_pattern s = Some p /\ 1 <= List.length p <= 63.
Proof.
  unfold make_pattern. destruct (parse_pattern s) as [q|] eqn:E; [|discriminate].
  rewrite max_pat_len_64. destruct (Z.leb_spec 64 (Z.of_nat (List.length q))) as [|Hlt]; [discriminate|].
  intros H. injection H as <-. split; [reflexivity|]. split; [|lia].
  unfold parse_pattern in E. destruct (check_pattern _); [|discriminate].
  destruct (encode_loop _ _) as [[|x l]|]; try discriminate. injection E as <-. cbn [List.length]. lia.
Qed.
Lemma make_pattern_too_long s p : parse_pattern s = Some p -> 64 <= List.length p -> make_pattern s = None.
Proof.
  intros E H. unfold make_pattern. rewrite E, max_pat_len_64. destruct (Z.leb_spec 64 (Z.of_nat (List.length p))); [reflexivity|lia].
Qed.
