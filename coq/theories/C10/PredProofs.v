(** C10, round 3 — ApatPattern.IsMatching / IsPatternMatchSequence (predicat.go, the predicate of obigrep --approx-pattern):
    the predicate object never fails on an accepted pattern of the documented grammar, its second pattern is the complemented
    pattern, and what it answers is "the pattern occurs in the sequence or (both strands) in its reverse complement". *)
From Coq Require Import NArith ZArith List Bool Lia.
Import ListNotations.
From OBI.C10 Require Import Model Proofs TableProofs CompString PostProofs.

Lemma win_begin_0 : win_begin 0 = 0%Z.
Proof. reflexivity. Qed.

Lemma max_pat_len_nonneg : (0 <= MAX_PAT_LEN)%Z.
Proof. unfold MAX_PAT_LEN. lia. Qed.

(* IsMatching(aseq, 0, aseq.Len()): the scanned window is the whole sequence *)
Lemma window_whole (text : list N) : window text 0 (Z.of_nat (List.length text)) = text.
Proof.
  unfold window. rewrite win_begin_0. unfold win_end. rewrite win_begin_0.
  destruct (Z.ltb_spec (Z.of_nat (List.length text)) 0) as [H|H]; [lia|].
  pose proof max_pat_len_nonneg.
  rewrite Z.min_r by lia. cbn [skipn Z.to_nat].
  rewrite Z.sub_0_r, Nat2Z.id. apply firstn_all.
Qed.

Lemma is_nil_to_triples m l : is_nil (to_triples m l) = is_nil l.
Proof. destruct l; reflexivity. Qed.

Lemma is_nil_false_iff {A} (l : list A) : negb (is_nil l) = true <-> l <> [].
Proof. destruct l; cbn; split; congruence. Qed.

(** the hits of one strand, as the automaton of the mode computes them on the whole sequence *)
Definition strand_hits (pat : pattern) (k : nat) (indel : bool) (text : list N) : list (Z * Z) :=
  manber_all pat k indel text 0.

Lemma is_matching_whole pat k indel text :
  1 <= List.length pat -> List.length pat <= 63 ->
  is_matching pat k indel text 0 (Z.of_nat (List.length text)) = Ok (negb (is_nil (strand_hits pat k indel text))).
Proof.
  intros H1 H63. unfold is_matching, find_all_index.
  destruct (Nat.eqb_spec (List.length pat) 0) as [E|_]; [lia|].
  destruct (Nat.leb_spec 64 (List.length pat)) as [E|_]; [lia|].
  cbn [orb]. rewrite window_whole, win_begin_0. unfold strand_hits.
  destruct (manber_all pat k indel text 0); reflexivity.
Qed.

(** IsPatternMatchSequence on an accepted pattern string of the documented grammar: never fatal, and the answer is the
    disjunction of the two strands, the second pattern being the complemented pattern *)
Lemma pattern_match_sequence_spec str P k both indel bytes :
  hash_after_position 0 (map to_upper str) = true ->
  make_pattern str = Some P ->
  pattern_match_sequence str k both indel bytes =
  PBool (negb (is_nil (strand_hits P k indel (encode_sequence bytes))) ||
         (both && negb (is_nil (strand_hits (comp_pattern P) k indel (encode_sequence bytes))))).
Proof.
  intros Hh Hm. destruct (make_pattern_length _ _ Hm) as [Hp [H1 H63]].
  unfold pattern_match_sequence. rewrite Hm. unfold reverse_complement_pattern.
  rewrite (comp_string_correct _ _ Hh Hp).
  cbv zeta.
  rewrite (is_matching_whole P) by lia.
  rewrite (is_matching_whole (comp_pattern P)) by (rewrite comp_pattern_length; lia).
  destruct (negb (is_nil (strand_hits P k indel (encode_sequence bytes)))); cbn [orb]; [reflexivity|].
  destruct both; cbn [andb]; reflexivity.
Qed.

(** mismatch mode (or budget 0): the second clause of the property, read from the sequence side - the predicate holds iff the
    pattern occurs within the budget in the sequence, or (both strands) in the reverse-complemented sequence *)
Lemma spec_comp_iff_revcomp P k text :
  find_all_spec (comp_pattern P) k text 0 <> [] <-> find_all_spec P k (revcomp_text text) 0 <> [].
Proof.
  assert (E : forall (l : list (Z * Z)), l <> [] <-> exists q d, In (q, d) l).
  { intros l. destruct l as [|[q d] l]; split.
    - congruence.
    - intros [q [d []]].
    - intros _. exists q, d. now left.
    - congruence. }
  rewrite !E. split.
  - intros [p [d H]].
    exists (Z.of_nat (List.length text) - Z.of_nat (List.length (comp_pattern P)) - p)%Z, d.
    pose proof (revcomp_hits (comp_pattern P) k text
                  (Z.of_nat (List.length text) - Z.of_nat (List.length (comp_pattern P)) - p)%Z d) as R.
    rewrite comp_pattern_invol in R. apply R.
    replace (Z.of_nat (List.length text) - Z.of_nat (List.length (comp_pattern P)) -
             (Z.of_nat (List.length text) - Z.of_nat (List.length (comp_pattern P)) - p))%Z with p by lia.
    exact H.
  - intros [q [d H]].
    pose proof (revcomp_hits (comp_pattern P) k text q d) as R.
    rewrite comp_pattern_invol in R. apply R in H. eauto.
Qed.

Lemma predicate_both_strands str P k both indel bytes :
  hash_after_position 0 (map to_upper str) = true ->
  make_pattern str = Some P ->
  indel = false \/ k = 0 ->
  exists b, pattern_match_sequence str k both indel bytes = PBool b /\
    (b = true <->
     find_all_spec P k (encode_sequence bytes) 0 <> [] \/
     (both = true /\ find_all_spec P k (revcomp_text (encode_sequence bytes)) 0 <> [])).
Proof.
  intros Hh Hm Hmode. destruct (make_pattern_length _ _ Hm) as [Hp [H1 H63]].
  eexists. split; [apply (pattern_match_sequence_spec _ _ _ _ _ _ Hh Hm)|].
  unfold strand_hits.
  rewrite !manber_all_exact by (try rewrite comp_pattern_length; auto; lia).
  rewrite orb_true_iff, andb_true_iff, !is_nil_false_iff, spec_comp_iff_revcomp.
  split; (intros [H|[Hb H]]; [left; exact H | right; split; assumption]).
Qed.

(** indel mode: the same disjunction over Sellers' recurrence (C10_indel_sound / _complete / _minimal read it as edit scripts) *)
Lemma manber_all_indel pat k w pos : 1 <= k -> manber_all pat k true w pos = manber_indel pat k w pos.
Proof. intros H. unfold manber_all. destruct k; [lia|reflexivity]. Qed.

Lemma predicate_indel str P k both bytes :
  hash_after_position 0 (map to_upper str) = true ->
  make_pattern str = Some P ->
  1 <= k ->
  exists b, pattern_match_sequence str k both true bytes = PBool b /\
    (b = true <->
     sellers_spec P k (encode_sequence bytes) 0 <> [] \/
     (both = true /\ sellers_spec (comp_pattern P) k (encode_sequence bytes) 0 <> [])).
Proof.
  intros Hh Hm Hk. destruct (make_pattern_length _ _ Hm) as [Hp [H1 H63]].
  eexists. split; [apply (pattern_match_sequence_spec _ _ _ _ _ _ Hh Hm)|].
  unfold strand_hits. rewrite !manber_all_indel by assumption.
  rewrite !manber_indel_exact by (try rewrite comp_pattern_length; lia).
  rewrite orb_true_iff, andb_true_iff, !is_nil_false_iff.
  split; (intros [H|[Hb H]]; [left; exact H | right; split; assumption]).
Qed.

(** a refused pattern is fatal for the predicate (log.Fatalf in IsPatternMatchSequence), whatever the sequence *)
Lemma predicate_refused str k both indel bytes :
  make_pattern str = None -> pattern_match_sequence str k both indel bytes = PFatal.
Proof. intros H. unfold pattern_match_sequence. now rewrite H. Qed.

(** ** reads holding IUPAC ambiguity codes (known finding text-ambiguity-realign)
    obialign._samenuc CONTAINS the automaton's relation for every pattern letter but X and EVERY read letter (tables
    regenerated): each edit script of the automaton is one of LocatePattern of at most the same cost - the re-aligned count
    is never above the automaton's edit distance; it can be below (witness in Props.v). *)
Definition codes26 : list N := map N.of_nat (seq 0 26).
Definition samenuc_contains_letter (L : N) : bool :=
  negb (plain_letter L) ||
  forallb (fun c => implb (sym_match (dna_code L, false) c) (samenuc L (c + 97))) codes26.

Lemma samenuc_contains_ok : forallb samenuc_contains_letter letters26 = true.
Proof. vm_compute. reflexivity. Qed.

Lemma in_codes26 c : (c < 26)%N -> In c codes26.
Proof.
  intros H. unfold codes26. apply in_map_iff. exists (N.to_nat c). split; [lia|]. apply in_seq. lia.
Qed.

Lemma samenuc_contains L c : plain_letter L = true -> (c < 26)%N ->
  sym_match (dna_code L, false) c = true -> samenuc L (c + 97) = true.
Proof.
  intros HL Hc Hm.
  assert (HU : is_upper L = true) by (unfold plain_letter in HL; apply andb_true_iff in HL; tauto).
  pose proof (proj1 (forallb_forall _ _) samenuc_contains_ok L (upper_in_letters26 L HU)) as H.
  unfold samenuc_contains_letter in H. rewrite HL in H. cbn [negb orb] in H.
  pose proof (proj1 (forallb_forall _ _) H c (in_codes26 c Hc)) as H1. cbv beta in H1.
  rewrite Hm in H1. exact H1.
Qed.

Lemma aligned_to_alg_any_text : forall pat run d, aligned pat run d -> forall cs, pat = plain_pat cs ->
  forallb plain_letter cs = true -> Forall (fun c => (c < 26)%N) run -> exists d', d' <= d /\ alg cs (text_bytes run) d'.
Proof.
  induction 1 as [|s r c x d Hm _ IH|s r c x d _ IH|r c x d _ IH|s r x d _ IH]; intros cs E Hcs Hrun.
  - destruct cs; [|discriminate]. exists 0. split; [lia|constructor].
  - destruct cs as [|p cs]; [discriminate|]. cbn [plain_pat map] in E. injection E as -> ->.
    cbn [forallb] in Hcs. apply andb_true_iff in Hcs. destruct Hcs as [Hp Hr].
    pose proof (Forall_inv Hrun) as Hc; pose proof (Forall_inv_tail Hrun) as Hrun'.
    destruct (IH cs eq_refl Hr Hrun') as [d' [Hd A]]. exists (d' + mcost p (c + 97)). split.
    + unfold mcost. rewrite (samenuc_contains _ _ Hp Hc Hm). lia.
    + cbn [text_bytes map]. now apply alg_step.
  - destruct cs as [|p cs]; [discriminate|]. cbn [plain_pat map] in E. injection E as -> ->.
    cbn [forallb] in Hcs. apply andb_true_iff in Hcs. destruct Hcs as [Hp Hr].
    pose proof (Forall_inv Hrun) as Hc; pose proof (Forall_inv_tail Hrun) as Hrun'.
    destruct (IH cs eq_refl Hr Hrun') as [d' [Hd A]]. exists (d' + mcost p (c + 97)). split.
    + unfold mcost. destruct (samenuc p (c + 97)); lia.
    + cbn [text_bytes map]. now apply alg_step.
  - pose proof (Forall_inv Hrun) as Hc; pose proof (Forall_inv_tail Hrun) as Hrun'.
    destruct (IH cs E Hcs Hrun') as [d' [Hd A]]. exists (S d'). split; [lia|]. cbn [text_bytes map]. now apply alg_ins.
  - destruct cs as [|p cs]; [discriminate|]. cbn [plain_pat map] in E. injection E as -> ->.
    cbn [forallb] in Hcs. apply andb_true_iff in Hcs. destruct Hcs as [Hp Hr].
    destruct (IH cs eq_refl Hr Hrun) as [d' [Hd A]]. exists (S d'). split; [lia|]. now apply alg_del.
Qed.

Lemma realigned_never_above cs run d : forallb plain_letter cs = true -> Forall (fun c => (c < 26)%N) run ->
  aligned (plain_pat cs) run d -> exists d', d' <= d /\ alg cs (text_bytes run) d'.
Proof. intros Hcs Hrun A. exact (aligned_to_alg_any_text _ _ _ A cs eq_refl Hcs Hrun). Qed.

(* the witness of the known finding: ACGT, one error, indels, on ttacntttacgt - FindAllIndex reports [2,6) with one error,
   AllMatches the same span with none *)
Lemma text_ambiguity_counts_differ :
  let str := [65; 67; 71; 84]%N in
  let sq := [116; 116; 97; 99; 110; 116; 116; 116; 97; 99; 103; 116]%N in
  exists pat l a,
    make_pattern str = Some pat /\
    find_all_index pat 1 true (encode_sequence sq) 0 (-1) = Ok l /\ In (2, 6, 1)%Z l /\
    all_matches str sq 4 1 true l = Some a /\ In (2, 6, 0)%Z a /\
    aligned pat [0; 2; 13; 19]%N 1 /\ ~ aligned pat [0; 2; 13; 19]%N 0.
Proof.
  cbv zeta. eexists. eexists. eexists.
  split; [vm_compute; reflexivity|].
  split; [vm_compute; reflexivity|].
  split; [cbn; tauto|].
  split; [vm_compute; reflexivity|].
  split; [cbn; tauto|].
  split.
  - apply al_match; [reflexivity|]. apply al_match; [reflexivity|]. apply al_sub. apply al_match; [reflexivity|]. constructor.
  - intros A. inversion A as [|? ? ? ? ? M1 A1| | |]; subst.
    inversion A1 as [|? ? ? ? ? M2 A2| | |]; subst.
    inversion A2 as [|? ? ? ? ? M3 A3| | |]; subst.
    vm_compute in M3. discriminate.
Qed.

(** ** obigrep --approx-pattern: the records kept are exactly those on which every predicate object holds *)
Lemma grep_keep_true pats k onlyf indel bytes :
  grep_keep pats k onlyf indel bytes = Some true <->
  forall str, In str pats -> pattern_match_sequence str k (negb onlyf) indel bytes = PBool true.
Proof.
  induction pats as [|p pats IH]; cbn [grep_keep fold_right].
  - split; [intros _ str []|reflexivity].
  - fold (grep_keep pats k onlyf indel bytes).
    destruct (grep_keep pats k onlyf indel bytes) as [a|] eqn:Ea.
    + destruct (pattern_match_sequence p k (negb onlyf) indel bytes) as [| |b] eqn:Ep.
      * split; [discriminate|]. intros H. specialize (H p (or_introl eq_refl)). congruence.
      * split; [discriminate|]. intros H. specialize (H p (or_introl eq_refl)). congruence.
      * split.
        -- intros H. injection H as H. apply andb_true_iff in H. destruct H as [-> ->].
           intros str [<-|Hin]; [exact Ep|]. now apply (proj1 IH).
        -- intros H. pose proof (H p (or_introl eq_refl)) as Hp. rewrite Ep in Hp. injection Hp as ->.
           assert (Ha : Some a = Some true) by (apply IH; intros str Hin; apply H; now right).
           injection Ha as ->. reflexivity.
    + split; [discriminate|]. intros H.
      assert (None = Some true) by (apply IH; intros str Hin; apply H; now right). discriminate.
Qed.

Lemma grep_select_spec : forall seqs i pats k onlyf indel l,
  grep_select i pats k onlyf indel seqs = Some l ->
  forall j, In j l <->
    exists s, (i <= j)%Z /\ nth_error seqs (Z.to_nat (j - i)) = Some s /\ grep_keep pats k onlyf indel s = Some true.
Proof.
  induction seqs as [|s rest IH]; intros i pats k onlyf indel l H j; cbn [grep_select] in H.
  - injection H as <-. split; [intros []|]. intros [s [_ [E _]]]. destruct (Z.to_nat (j - i)); discriminate.
  - destruct (grep_keep pats k onlyf indel s) as [b|] eqn:Eb; [|discriminate].
    destruct (grep_select (i + 1) pats k onlyf indel rest) as [l'|] eqn:El; [|discriminate].
    injection H as <-. specialize (IH _ _ _ _ _ _ El j).
    assert (Tail : In j l' <-> exists s0, (i < j)%Z /\ nth_error (s :: rest) (Z.to_nat (j - i)) = Some s0 /\
                                          grep_keep pats k onlyf indel s0 = Some true).
    { rewrite IH. split; intros [s0 [Hi [E K]]]; exists s0; (split; [lia|]); (split; [|exact K]).
      - replace (Z.to_nat (j - i)) with (S (Z.to_nat (j - (i + 1)))) by lia. exact E.
      - replace (Z.to_nat (j - i)) with (S (Z.to_nat (j - (i + 1)))) in E by lia. exact E. }
    destruct b.
    + cbn [In]. rewrite Tail. split.
      * intros [<-|[s0 [Hi R]]]; [|exists s0; split; [lia|exact R]].
        exists s. split; [lia|]. rewrite Z.sub_diag. split; [reflexivity|exact Eb].
      * intros [s0 [Hi [E K]]]. destruct (Z.eq_dec i j) as [->|Hne]; [now left|].
        right. exists s0. split; [lia|]. split; assumption.
    + rewrite Tail. split.
      * intros [s0 [Hi R]]. exists s0. split; [lia|exact R].
      * intros [s0 [Hi [E K]]]. destruct (Z.eq_dec i j) as [->|Hne].
        -- rewrite Z.sub_diag in E. cbn in E. injection E as <-. congruence.
        -- exists s0. split; [lia|]. split; assumption.
Qed.

Lemma obigrep_selection pats k onlyf indel seqs l :
  grep_select 0 pats k onlyf indel seqs = Some l ->
  forall j, In j l <->
    exists s, (0 <= j)%Z /\ nth_error seqs (Z.to_nat j) = Some s /\
              forall str, In str pats -> pattern_match_sequence str k (negb onlyf) indel s = PBool true.
Proof.
  intros H j. rewrite (grep_select_spec _ _ _ _ _ _ _ H j). rewrite Z.sub_0_r.
  split; intros [s [H0 [E K]]]; exists s; (split; [exact H0|]); (split; [exact E|]); now apply grep_keep_true.
Qed.
