(** C10 — primer pattern matching reports exactly the matching positions and error counts.
    Property theorems (statements only; proofs in Proofs.v).

    Vocabulary (Model.v): a pattern is a list of positions (26-bit symbol set, obligatory flag) as
    encoded by apat_parse.c; a text is a list of letter codes; [mism pat w] is the number of
    positions of the word [w] (same length as [pat]) that are outside the symbol set of the
    pattern position, [None] when such a position is obligatory; [find_all_spec pat k w pos0] lists,
    in increasing order, every start position of the window [w] at which [mism] is at most [k],
    with that count; [manber_noerr / manber_sub / manber_indel] are the transcriptions of the
    bit-parallel automata of apat_search.c on 64-bit words; [find_all_index] is
    ApatPattern.FindAllIndex (window clamping of pattern.go + ManberAll); [locate] is
    obialign.LocatePattern, [filter_best / all_matches / best_match] the Go post-processing;
    [aligned] / [alg] (Proofs.v) are edit scripts: substitutions, insertions, deletions.

    Patterns of 64 symbols are excluded in the statements ([length pat <= 63]): [0x1L << 64] is
    undefined in C; the harness reports what the code does with them (known finding
    m64-never-matches). *)
From Coq Require Import NArith ZArith List Bool Lia.
Import ListNotations.
From OBI.C10 Require Import Model Proofs.

(** *** the automata compute the specification, for every pattern of 1..63 positions, every budget,
    every text and every start position *)
Theorem C10_sub_exact : forall pat, 1 <= length pat -> length pat <= 63 ->
  forall k w pos, manber_sub pat k w pos = find_all_spec pat k w pos.
Proof. exact manber_sub_exact. Qed.

Theorem C10_noerr_exact : forall pat, 1 <= length pat -> length pat <= 63 ->
  forall w pos, manber_noerr pat w pos = find_all_spec pat 0 w pos.
Proof. exact manber_noerr_exact. Qed.

(** FindAllIndex without indels (or with budget 0, where ManberAll runs ManberNoErr whatever the
    indel flag): the triples (start, start + m, errors) of the specification on the scanned window
    [max(begin,0), min(begin + length + MAX_PAT_LEN, seqlen)) *)
Theorem C10_find_all_index_exact : forall pat k indel text begin length,
  1 <= List.length pat -> List.length pat <= 63 -> indel = false \/ k = 0 ->
  find_all_index pat k indel text begin length =
  Ok (to_triples (List.length pat) (find_all_spec pat k (window text begin length) (win_begin begin))).
Proof. exact find_all_index_exact. Qed.

(** the same in sequence coordinates: FindAllIndex reports (s, s+m, d) iff the m symbols of the sequence
    from s on lie in the scanned window and mismatch the pattern at exactly d <= k positions, none obligatory *)
Theorem C10_find_all_index_positions : forall pat k indel text begin length l,
  1 <= List.length pat -> List.length pat <= 63 -> indel = false \/ k = 0 ->
  find_all_index pat k indel text begin length = Ok l ->
  forall s e d, In (s, e, d) l <->
    exists p d', s = Z.of_nat p /\ e = (s + Z.of_nat (List.length pat))%Z /\ d = Z.of_nat d' /\ d' <= k /\
                 (win_begin begin <= s)%Z /\
                 (s + Z.of_nat (List.length pat) <= win_end (Z.of_nat (List.length text)) begin length)%Z /\
                 mism pat (firstn (List.length pat) (skipn p text)) = Some d'.
Proof. exact find_all_index_positions. Qed.

(** *** what the specification lists: exactly the positions within the budget ... *)
Theorem C10_spec_positions : forall pat k w pos0 p d,
  In (p, d) (find_all_spec pat k w pos0) <->
  exists i d', p = (pos0 + Z.of_nat i)%Z /\ d = Z.of_nat d' /\ i + length pat <= length w /\
               mism pat (firstn (length pat) (skipn i w)) = Some d' /\ d' <= k.
Proof. exact find_all_spec_In. Qed.

(** ... in strictly increasing order of position (so each position is listed once) ... *)
Theorem C10_spec_sorted : forall pat k w pos0, Sorted.StronglySorted pos_lt (find_all_spec pat k w pos0).
Proof. exact find_all_spec_sorted. Qed.

(** ... the reported count is the number of mismatching positions (hence minimal: it is the only
    count), and no obligatory position is among them ... *)
Theorem C10_spec_count : forall pat w d, mism pat w = Some d ->
  d = length (filter (fun sc => negb (sym_match (fst sc) (snd sc))) (combine pat w)) /\
  length w = length pat /\
  (forall s c, In (s, c) (combine pat w) -> snd s = true -> sym_match s c = true).
Proof. exact mism_count. Qed.

(** ... and a count exists as soon as the obligatory positions match *)
Theorem C10_spec_count_defined : forall pat w, length w = length pat ->
  (forall s c, In (s, c) (combine pat w) -> snd s = true -> sym_match s c = true) ->
  exists d, mism pat w = Some d.
Proof. exact mism_complete. Qed.

(** *** complemented pattern == pattern on the reverse-complemented text, mirrored coordinates
    (specification level; the automata are brought in by C10_sub_exact) *)
Theorem C10_revcomp_pattern : forall pat k w q d,
  In (q, d) (find_all_spec (comp_pattern pat) k (revcomp_text w) 0) <->
  In ((Z.of_nat (length w) - Z.of_nat (length pat) - q)%Z, d) (find_all_spec pat k w 0).
Proof. exact revcomp_hits. Qed.

Theorem C10_comp_pattern_involutive : forall pat, comp_pattern (comp_pattern pat) = pat.
Proof. exact comp_pattern_invol. Qed.

(** the string level (ecoComplementPattern as repaired): the letter table LX_BIO_CDNA_ALPHA agrees with
    the complement of symbol sets on the 26 letters, and - bounded - for every accepted pattern string of at
    most 6 characters over A G R N [ ] ! # (with '#' after a letter or a class) the complemented string is
    accepted and encodes the complemented pattern: '!' and '#' stay attached to their position *)
Theorem C10_complement_table_consistent : comp_table_ok = true.
Proof. exact comp_table_consistent. Qed.

Theorem C10_comp_string_upto_6 : forall s,
  In s (strings_upto 6) -> hash_after_position 0 s = true -> comp_string_ok s = true.
Proof. exact comp_string_upto_6. Qed.

(** the complemented pattern run by the real automaton *)
Theorem C10_revcomp_automaton : forall pat k w q d,
  1 <= length pat -> length pat <= 63 ->
  (In (q, d) (manber_sub (comp_pattern pat) k (revcomp_text w) 0) <->
   In ((Z.of_nat (length w) - Z.of_nat (length pat) - q)%Z, d) (manber_sub pat k w 0)).
Proof. exact revcomp_automaton. Qed.

(** *** indels: ManberIndel computes Sellers' recurrence [ed] (every pattern of 1..63 positions, with the
    code's treatment of obligatory positions, see Model.v) ... *)
Theorem C10_indel_sellers : forall pat, 1 <= length pat -> length pat <= 63 ->
  forall k w pos, manber_indel pat k w pos = sellers_spec pat k w pos.
Proof. exact manber_indel_exact. Qed.

Theorem C10_find_all_index_indel : forall pat k text begin length,
  1 <= List.length pat -> List.length pat <= 63 -> 1 <= k ->
  find_all_index pat k true text begin length =
  Ok (to_triples (List.length pat) (sellers_spec pat k (window text begin length) (win_begin begin))).
Proof. exact find_all_index_indel. Qed.

(** ... and for patterns without obligatory positions a hit is reported after the n-th symbol of the
    window iff some run of text ending there is within k edit operations of the pattern
    ([aligned pat run d]: an edit script of d substitutions / insertions / deletions relates the pattern
    positions and the symbols of the run, Proofs.v), the reported count being the least such cost.
    The reported start is the nominal n - m ("may return shifted pos." in apat_search.c): the true
    span is recovered by AllMatches / BestMatch through obialign.LocatePattern. *)
Theorem C10_indel_sound : forall pat k w pos p d,
  1 <= length pat -> length pat <= 63 -> no_oblig pat ->
  In (p, d) (manber_indel pat k w pos) ->
  exists n before run d', 1 <= n <= length w /\ firstn n w = before ++ run /\
    p = (pos + Z.of_nat n - Z.of_nat (length pat))%Z /\ d = Z.of_nat d' /\ d' <= k /\
    aligned pat run d'.
Proof. exact indel_sound_fwd. Qed.

Theorem C10_indel_complete : forall pat k w pos n before run d',
  1 <= length pat -> length pat <= 63 -> no_oblig pat ->
  1 <= n <= length w -> firstn n w = before ++ run -> aligned pat run d' -> d' <= k ->
  exists d, d <= d' /\ In ((pos + Z.of_nat n - Z.of_nat (length pat))%Z, Z.of_nat d) (manber_indel pat k w pos).
Proof. exact indel_complete_fwd. Qed.

Theorem C10_indel_minimal : forall pat k w pos n d before run d',
  1 <= length pat -> length pat <= 63 -> no_oblig pat ->
  In ((pos + Z.of_nat n - Z.of_nat (length pat))%Z, Z.of_nat d) (manber_indel pat k w pos) ->
  firstn n w = before ++ run -> aligned pat run d' -> d <= d'.
Proof. exact indel_minimal_fwd. Qed.

(** *** the Go re-alignment of indel hits (obialign.LocatePattern as repaired, AllMatches, BestMatch):
    every reported span is a well-formed span inside the sequence, the back-tracking always ends
    (no panic, no fuel exhaustion); the full statement is C10_locate below *)
Theorem C10_locate_span_inside : forall pat sq s e d, locate pat sq = Some (s, e, d) ->
  (0 <= s <= e)%Z /\ (e <= Z.of_nat (length sq))%Z.
Proof. exact locate_span. Qed.

Theorem C10_locate_total : forall pat sq, pat <> [] -> locate pat sq <> None.
Proof. exact locate_total. Qed.

Theorem C10_allmatches_realigned_span_inside : forall cpatb sq m h s e d,
  realign_all cpatb sq m h = Some (s, e, d) ->
  (0 <= s <= e)%Z /\ (e <= Z.of_nat (length sq))%Z.
Proof. exact realign_all_span. Qed.

Theorem C10_bestmatch_span_inside : forall cpatb sq m indel res s e n,
  (forall a b c, In (a, b, c) res -> (a <= b)%Z) ->
  best_match cpatb sq m indel res = Some (s, e, n, true) ->
  (0 <= s <= e)%Z /\ (e <= Z.of_nat (length sq))%Z.
Proof. exact best_match_span. Qed.

(** FilterBestMatch (as repaired): a sub-list of the hits that contains a hit of least error count,
    wherever the hits are in the sequence (error counts are at most MAX_PAT_ERR < 10000) *)
Theorem C10_filter_best_sublist : forall res h, In h (filter_best res) -> In h res.
Proof. exact filter_best_sublist. Qed.

Theorem C10_filter_best_keeps_a_best_hit : forall res, res <> [] ->
  (forall h, In h res -> (snd h < 10000)%Z) ->
  exists g, In g (filter_best res) /\ forall h, In h res -> (snd g <= snd h)%Z.
Proof. exact filter_best_min. Qed.

(** the score returned by LocatePattern is the least cost of an edit script (substitutions, insertions,
    deletions; symbols compared by obialign._samenuc) between the pattern and a run of the fragment:
    some run attains it, no run of the fragment does better ([alg pat run d], Proofs.v) *)
Theorem C10_locate_score_minimal : forall pat sq s e d, locate pat sq = Some (s, e, d) ->
  exists d', d = Z.of_nat d' /\
    (exists before run after, sq = before ++ run ++ after /\ alg pat run d') /\
    (forall before run after d'', sq = before ++ run ++ after -> alg pat run d'' -> d' <= d'').
Proof. exact locate_score_minimal. Qed.

(** LocatePattern, in full: the reported span lies inside the fragment, the reported count is the edit distance
    between the pattern and that span (some edit script has that cost, none is cheaper), and no run of the
    fragment is closer to the pattern *)
Theorem C10_locate : forall pat sq s e d, locate pat sq = Some (s, e, d) ->
  (0 <= s <= e)%Z /\ (e <= Z.of_nat (length sq))%Z /\
  exists d', d = Z.of_nat d' /\ alg pat (slice sq s e) d' /\
    (forall d'', alg pat (slice sq s e) d'' -> d' <= d'') /\
    (forall before run after d'', sq = before ++ run ++ after -> alg pat run d'' -> d' <= d'').
Proof. exact locate_correct. Qed.

(** AllMatches: a re-aligned match is a span of the sequence and its reported count is the edit distance
    between the pattern string and that span *)
Theorem C10_allmatches_realigned_count : forall cpatb sq m h s e d,
  realign_all cpatb sq m h = Some (s, e, d) ->
  (0 <= s <= e)%Z /\ (e <= Z.of_nat (length sq))%Z /\
  exists d', d = Z.of_nat d' /\ alg cpatb (slice sq s e) d' /\ (forall d'', alg cpatb (slice sq s e) d'' -> d' <= d'').
Proof. exact realign_all_correct. Qed.

(** BestMatch: when the best hit is re-aligned (indels allowed, at least one error) the reported count is the
    edit distance between the pattern string and the reported span of the sequence *)
Theorem C10_bestmatch_realigned_count : forall cpatb sq m res s e n,
  snd (best_loop res (0, 0, 10000)%Z) <> 0%Z ->
  best_match cpatb sq m true res = Some (s, e, n, true) ->
  (0 <= s <= e)%Z /\ (e <= Z.of_nat (length sq))%Z /\
  exists d', n = Z.of_nat d' /\ alg cpatb (slice sq s e) d' /\ (forall d'', alg cpatb (slice sq s e) d'' -> d' <= d'').
Proof. exact best_match_realigned_correct. Qed.

(** *** what is NOT proved here (checked by the correspondence run and the brute-force oracle only):
    - patterns of 64 positions (excluded by [length pat <= 63]; known finding m64-never-matches);
    - AllMatches / BestMatch report a match iff the automaton does, and FilterBestMatch reports pairwise
      disjoint matches (proved: sub-list of the hits, keeps a hit of least error count);
    - [alg] compares symbols with obialign._samenuc whereas the automaton uses the symbol sets of the pattern:
      the two notions coincide on a/c/g/t texts and IUPAC letters only by the oracle;
    - complementPattern on strings longer than 6 characters (bounded theorem C10_comp_string_upto_6; the
      set-level theorem C10_revcomp_pattern is unbounded);
    - that [parse_pattern] (CheckPattern + EncodePattern) implements the documented grammar: tied to the C
      code by the correspondence run and to the IUPAC meaning by the Python oracle. *)

(** *** non-vacuity: a pattern with a class, a negation and an obligatory position; hits with 0, 1
    and 2 mismatches; the obligatory position (g#) is never a mismatch *)
Example C10_sub_exact_nonvacuous :
  let pat := [(1%N, false); (524292%N, false); (64%N, true); (N.ldiff (N.ones 26) 524288, false)] in  (* A[CT]G#!T *)
  let w := [19; 19; 0; 2; 6; 19; 19; 0; 6; 6; 0; 0; 6; 2; 6; 0; 2; 6; 0]%N in
  manber_sub pat 2 w 0 = [(2, 1); (6, 2); (7, 1); (10, 1); (12, 1); (15, 0)]%Z /\
  find_all_spec pat 2 w 0 = [(2, 1); (6, 2); (7, 1); (10, 1); (12, 1); (15, 0)]%Z /\
  1 <= length pat <= 63.
Proof. vm_compute. repeat split; lia. Qed.

Example C10_indel_nonvacuous :
  let pat := [(1%N, false); (4%N, false); (64%N, false); (524288%N, false)] in        (* ACGT *)
  let w := [19; 19; 0; 2; 6; 19; 19; 0; 6; 6; 0; 0; 6; 2; 6; 0; 2; 6; 0; 2; 19]%N in
  manber_indel pat 1 w 0 = [(1, 1); (2, 0); (3, 1); (14, 1); (15, 1); (17, 1)]%Z /\
  no_oblig pat /\ 1 <= length pat <= 63 /\
  aligned pat [0; 2; 19]%N 1.                                                           (* a c - t : g deleted *)
Proof.
  split; [vm_compute; reflexivity|]. split; [intros s [<-|[<-|[<-|[<-|[]]]]]; reflexivity|]. split; [cbn; lia|].
  cbn. apply al_match; [reflexivity|]. apply al_match; [reflexivity|]. apply al_del. apply al_match; [reflexivity|]. constructor.
Qed.

Example C10_locate_nonvacuous :
  locate [97; 99; 103; 116]%N [99; 103; 116; 116; 116]%N = Some (0, 3, 1)%Z /\        (* acgt in cgttt: a deleted *)
  locate [99]%N [103; 97; 99; 116]%N = Some (2, 3, 0)%Z.
Proof. vm_compute. split; reflexivity. Qed.

Example C10_comp_string_nonvacuous :
  let s := [33; 91; 65; 71; 93; 35]%N in                                        (* ![AG]# *)
  existsb (fun t => list_eqb N.eqb t s) (strings_upto 6) = true /\ hash_after_position 0 s = true /\
  comp_string s = [33; 91; 84; 67; 93; 35]%N /\                                 (* ![TC]# *)
  parse_pattern s <> None.
Proof. vm_compute. repeat split; discriminate. Qed.

Print Assumptions C10_sub_exact.
Print Assumptions C10_noerr_exact.
Print Assumptions C10_find_all_index_exact.
Print Assumptions C10_find_all_index_positions.
Print Assumptions C10_spec_positions.
Print Assumptions C10_spec_sorted.
Print Assumptions C10_spec_count.
Print Assumptions C10_spec_count_defined.
Print Assumptions C10_revcomp_pattern.
Print Assumptions C10_comp_pattern_involutive.
Print Assumptions C10_revcomp_automaton.
Print Assumptions C10_complement_table_consistent.
Print Assumptions C10_comp_string_upto_6.
Print Assumptions C10_indel_sellers.
Print Assumptions C10_find_all_index_indel.
Print Assumptions C10_indel_sound.
Print Assumptions C10_indel_complete.
Print Assumptions C10_indel_minimal.
Print Assumptions C10_locate_span_inside.
Print Assumptions C10_locate_total.
Print Assumptions C10_locate_score_minimal.
Print Assumptions C10_locate.
Print Assumptions C10_allmatches_realigned_count.
Print Assumptions C10_bestmatch_realigned_count.
Print Assumptions C10_allmatches_realigned_span_inside.
Print Assumptions C10_bestmatch_span_inside.
Print Assumptions C10_filter_best_sublist.
Print Assumptions C10_filter_best_keeps_a_best_hit.
