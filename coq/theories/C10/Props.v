(** C10 — primer pattern matching reports exactly the matching positions and error counts.
    Property theorems (statements only; proofs in Proofs.v).

    Vocabulary (Model.v): a pattern is a list of positions (26-bit symbol set, obligatory flag) as
    encoded by apat_parse.c; a text is a list of letter codes; [mism pat w] is the number of
    positions of the word [w] (same length as [pat]) that are outside the symbol set of the
    pattern position, [None] when such a position is obligatory; [find_all_spec pat k w pos0] lists,
    in increasing order, every start position of the window [w] at which [mism] is at most [k],
    with that count; [manber_noerr / manber_sub / manber_indel] are the transcriptions of the
    bit-parallel automata of apat_search.c on 64-bit words; [find_all_index] is
    ApatPattern.FindAllIndex (window clamping of pattern.go + ManberAll); [locate] is
    obialign.LocatePattern, [filter_best / all_matches / best_match] the Go post-processing;
    [aligned] / [alg] (Proofs.v) are edit scripts: substitutions, insertions, deletions.

    Patterns of 64 symbols are excluded in the statements ([length pat <= 63]): [0x1L << 64] is
    undefined in C; MakeApatPattern (as repaired) refuses them ([make_pattern], C10_make_pattern_length;
    known finding m64-rejected: the property text says 1..64). *)
From Coq Require Import NArith ZArith List Bool Lia.
Import ListNotations.
From OBI.C10 Require Import Model Proofs TableProofs CompString PostProofs PredProofs.

(** *** the tables and constants of the CURRENT build (Gen/Tables.v is rewritten from the code by tools/props/c10.py regen
    before every Coq build; these theorems are therefore re-proved by the kernel on every run, and a changed entry breaks
    them - the check then computes the failing symbol and replays it on the real code) *)

(** sDnaCode (apat_parse.c): the symbol set of a pattern letter contains the text letter c iff c is one of the bases the
    letter stands for in the IUPAC nomenclature ([bases_of], Model.v: codes a = 0, c = 2, g = 6, t = 19; U = T, X = N) *)
Theorem C10_dna_code_iupac_sets : forall L, is_upper L = true ->
  forall c, N.testbit (dna_code L) c = true <-> In c (bases_of L).
Proof. exact dna_code_iupac. Qed.

(** obialign._iupac (used by LocatePattern through _samenuc): the same base sets on the bits a, c, g, t - for every letter
    but x, whose code is 0 there (observation: a pattern position X matches every base in the automaton and none in the
    re-alignment) *)
Theorem C10_iupac_table_sets : forall L, is_upper L = true -> L <> letter_X ->
  forall j, N.testbit (nth (N.to_nat (L - 65)) iupac_tab 0%N) j = true <-> exists b, In b (bases_of L) /\ base_bit b = j.
Proof. exact iupac_tab_iupac. Qed.

(** apat.h: the documented maximum pattern length is the width of the state word (hence [1 << patlen] leaves the word for
    a pattern of MAX_PAT_LEN symbols: known finding), the error budget stays below the 10000 marker of FilterBestMatch /
    BestMatch, 26 letters, PATMASK and OBLIBIT are what the model of EncodePattern assumes *)
Theorem C10_constants : constants_ok = true /\ MAX_PAT_LEN = 64%Z.
Proof. exact (conj constants_consistent max_pat_len_64). Qed.

(** the scanned window contains every occurrence (of a pattern of at most 63 positions) that starts in the requested
    region [begin, begin + length) *)
Theorem C10_window_covers_starts : forall seqlen begin length s m,
  (0 <= begin)%Z -> (0 <= length)%Z -> (begin <= s < begin + length)%Z -> (0 <= m <= 63)%Z -> (s + m <= seqlen)%Z ->
  (win_begin begin <= s)%Z /\ (s + m <= win_end seqlen begin length)%Z.
Proof. exact window_covers_starts. Qed.

(** MakeApatPattern (as repaired, fix: "MakeApatPattern refuses patterns of 64 symbols or more"): an accepted pattern has 1..63
    positions - exactly the domain of the theorems on the automata below - and a pattern that encodes to 64 positions or more is
    refused.  The property text quantifies over lengths 1..64: length 64 is now a clean error instead of a pattern that never
    matches (known finding m64-rejected). *)
Theorem C10_make_pattern_length : forall s p, make_pattern s = Some p ->
  parse_pattern s = Some p /\ 1 <= List.length p <= 63.
Proof. exact make_pattern_length. Qed.

Theorem C10_make_pattern_too_long : forall s p, parse_pattern s = Some p -> 64 <= List.length p -> make_pattern s = None.
Proof. exact make_pattern_too_long. Qed.

(** *** the automata compute the specification, for every pattern of 1..63 positions, every budget,
    every text and every start position *)
Theorem C10_sub_exact : forall pat, 1 <= length pat -> length pat <= 63 ->
  forall k w pos, manber_sub pat k w pos = find_all_spec pat k w pos.
Proof. exact manber_sub_exact. Qed.

Theorem C10_noerr_exact : forall pat, 1 <= length pat -> length pat <= 63 ->
  forall w pos, manber_noerr pat w pos = find_all_spec pat 0 w pos.
Proof. exact manber_noerr_exact. Qed.

(** FindAllIndex without indels (or with budget 0, where ManberAll runs ManberNoErr whatever the
    indel flag): the triples (start, start + m, errors) of the specification on the scanned window
    [max(begin,0), min(begin + length + MAX_PAT_LEN, seqlen)) *)
Theorem C10_find_all_index_exact : forall pat k indel text begin length,
  1 <= List.length pat -> List.length pat <= 63 -> indel = false \/ k = 0 ->
  find_all_index pat k indel text begin length =
  Ok (to_triples (List.length pat) (find_all_spec pat k (window text begin length) (win_begin begin))).
Proof. exact find_all_index_exact. Qed.

(** the same in sequence coordinates: FindAllIndex reports (s, s+m, d) iff the m symbols of the sequence
    from s on lie in the scanned window and mismatch the pattern at exactly d <= k positions, none obligatory *)
Theorem C10_find_all_index_positions : forall pat k indel text begin length l,
  1 <= List.length pat -> List.length pat <= 63 -> indel = false \/ k = 0 ->
  find_all_index pat k indel text begin length = Ok l ->
  forall s e d, In (s, e, d) l <->
    exists p d', s = Z.of_nat p /\ e = (s + Z.of_nat (List.length pat))%Z /\ d = Z.of_nat d' /\ d' <= k /\
                 (win_begin begin <= s)%Z /\
                 (s + Z.of_nat (List.length pat) <= win_end (Z.of_nat (List.length text)) begin length)%Z /\
                 mism pat (firstn (List.length pat) (skipn p text)) = Some d'.
Proof. exact find_all_index_positions. Qed.

(** *** what the specification lists: exactly the positions within the budget ... *)
Theorem C10_spec_positions : forall pat k w pos0 p d,
  In (p, d) (find_all_spec pat k w pos0) <->
  exists i d', p = (pos0 + Z.of_nat i)%Z /\ d = Z.of_nat d' /\ i + length pat <= length w /\
               mism pat (firstn (length pat) (skipn i w)) = Some d' /\ d' <= k.
Proof. exact find_all_spec_In. Qed.

(** ... in strictly increasing order of position (so each position is listed once) ... *)
Theorem C10_spec_sorted : forall pat k w pos0, Sorted.StronglySorted pos_lt (find_all_spec pat k w pos0).
Proof. exact find_all_spec_sorted. Qed.

(** ... the reported count is the number of mismatching positions (hence minimal: it is the only
    count), and no obligatory position is among them ... *)
Theorem C10_spec_count : forall pat w d, mism pat w = Some d ->
  d = length (filter (fun sc => negb (sym_match (fst sc) (snd sc))) (combine pat w)) /\
  length w = length pat /\
  (forall s c, In (s, c) (combine pat w) -> snd s = true -> sym_match s c = true).
Proof. exact mism_count. Qed.

(** ... and a count exists as soon as the obligatory positions match *)
Theorem C10_spec_count_defined : forall pat w, length w = length pat ->
  (forall s c, In (s, c) (combine pat w) -> snd s = true -> sym_match s c = true) ->
  exists d, mism pat w = Some d.
Proof. exact mism_complete. Qed.

(** *** complemented pattern == pattern on the reverse-complemented text, mirrored coordinates
    (specification level; the automata are brought in by C10_sub_exact) *)
Theorem C10_revcomp_pattern : forall pat k w q d,
  In (q, d) (find_all_spec (comp_pattern pat) k (revcomp_text w) 0) <->
  In ((Z.of_nat (length w) - Z.of_nat (length pat) - q)%Z, d) (find_all_spec pat k w 0).
Proof. exact revcomp_hits. Qed.

Theorem C10_comp_pattern_involutive : forall pat, comp_pattern (comp_pattern pat) = pat.
Proof. exact comp_pattern_invol. Qed.

(** the string level (ecoComplementPattern as repaired): the letter table LX_BIO_CDNA_ALPHA (regenerated) agrees with the
    complement of symbol sets on the 26 letters, and for EVERY pattern string accepted by CheckPattern / EncodePattern in
    which each '#' directly follows a letter or a class (the documented grammar), the complemented string is accepted and
    encodes the complemented pattern: '!' and '#' stay attached to their position.  Proved by induction on the token
    structure of the accepted strings (CompString.v). *)
Theorem C10_complement_table_consistent : comp_table_ok = true.
Proof. exact comp_table_consistent. Qed.

Theorem C10_comp_string : forall s P,
  hash_after_position 0 (map to_upper s) = true ->
  parse_pattern s = Some P ->
  parse_pattern (comp_string (map to_upper s)) = Some (comp_pattern P).
Proof. exact comp_string_correct. Qed.

(** the accepted strings of the documented grammar are exactly the sequences of well-formed tokens, and a sequence of
    tokens encodes position by position *)
Theorem C10_pattern_grammar : forall s, check_pattern s = true -> hash_after_position 0 s = true -> map to_upper s = s ->
  exists toks, Forall wf_tok toks /\ s = render toks /\ (toks <> [] -> parse_pattern s = Some (map tok_sym toks)).
Proof. exact pattern_grammar. Qed.

(** the complemented pattern run by the real automaton *)
Theorem C10_revcomp_automaton : forall pat k w q d,
  1 <= length pat -> length pat <= 63 ->
  (In (q, d) (manber_sub (comp_pattern pat) k (revcomp_text w) 0) <->
   In ((Z.of_nat (length w) - Z.of_nat (length pat) - q)%Z, d) (manber_sub pat k w 0)).
Proof. exact revcomp_automaton. Qed.

(** *** indels: ManberIndel computes Sellers' recurrence [ed] (every pattern of 1..63 positions, with the
    code's treatment of obligatory positions, see Model.v) ... *)
Theorem C10_indel_sellers : forall pat, 1 <= length pat -> length pat <= 63 ->
  forall k w pos, manber_indel pat k w pos = sellers_spec pat k w pos.
Proof. exact manber_indel_exact. Qed.

Theorem C10_find_all_index_indel : forall pat k text begin length,
  1 <= List.length pat -> List.length pat <= 63 -> 1 <= k ->
  find_all_index pat k true text begin length =
  Ok (to_triples (List.length pat) (sellers_spec pat k (window text begin length) (win_begin begin))).
Proof. exact find_all_index_indel. Qed.

(** ... and for patterns without obligatory positions a hit is reported after the n-th symbol of the
    window iff some run of text ending there is within k edit operations of the pattern
    ([aligned pat run d]: an edit script of d substitutions / insertions / deletions relates the pattern
    positions and the symbols of the run, Proofs.v), the reported count being the least such cost.
    The reported start is the nominal n - m ("may return shifted pos." in apat_search.c): the true
    span is recovered by AllMatches / BestMatch through obialign.LocatePattern. *)
Theorem C10_indel_sound : forall pat k w pos p d,
  1 <= length pat -> length pat <= 63 -> no_oblig pat ->
  In (p, d) (manber_indel pat k w pos) ->
  exists n before run d', 1 <= n <= length w /\ firstn n w = before ++ run /\
    p = (pos + Z.of_nat n - Z.of_nat (length pat))%Z /\ d = Z.of_nat d' /\ d' <= k /\
    aligned pat run d'.
Proof. exact indel_sound_fwd. Qed.

Theorem C10_indel_complete : forall pat k w pos n before run d',
  1 <= length pat -> length pat <= 63 -> no_oblig pat ->
  1 <= n <= length w -> firstn n w = before ++ run -> aligned pat run d' -> d' <= k ->
  exists d, d <= d' /\ In ((pos + Z.of_nat n - Z.of_nat (length pat))%Z, Z.of_nat d) (manber_indel pat k w pos).
Proof. exact indel_complete_fwd. Qed.

Theorem C10_indel_minimal : forall pat k w pos n d before run d',
  1 <= length pat -> length pat <= 63 -> no_oblig pat ->
  In ((pos + Z.of_nat n - Z.of_nat (length pat))%Z, Z.of_nat d) (manber_indel pat k w pos) ->
  firstn n w = before ++ run -> aligned pat run d' -> d <= d'.
Proof. exact indel_minimal_fwd. Qed.

(** *** the Go re-alignment of indel hits (obialign.LocatePattern as repaired, AllMatches, BestMatch):
    every reported span is a well-formed span inside the sequence, the back-tracking always ends
    (no panic, no fuel exhaustion); the full statement is C10_locate below *)
Theorem C10_locate_span_inside : forall pat sq s e d, locate pat sq = Some (s, e, d) ->
  (0 <= s <= e)%Z /\ (e <= Z.of_nat (length sq))%Z.
Proof. exact locate_span. Qed.

Theorem C10_locate_total : forall pat sq, pat <> [] -> locate pat sq <> None.
Proof. exact locate_total. Qed.

Theorem C10_allmatches_realigned_span_inside : forall cpatb sq m h s e d,
  realign_all cpatb sq m h = Some (s, e, d) ->
  (0 <= s <= e)%Z /\ (e <= Z.of_nat (length sq))%Z.
Proof. exact realign_all_span. Qed.

Theorem C10_bestmatch_span_inside : forall cpatb sq m indel res s e n,
  (forall a b c, In (a, b, c) res -> (a <= b)%Z) ->
  best_match cpatb sq m indel res = Some (s, e, n, true) ->
  (0 <= s <= e)%Z /\ (e <= Z.of_nat (length sq))%Z.
Proof. exact best_match_span. Qed.

(** FilterBestMatch (as repaired): a sub-list of the hits that contains a hit of least error count,
    wherever the hits are in the sequence (error counts are at most MAX_PAT_ERR < 10000) *)
Theorem C10_filter_best_sublist : forall res h, In h (filter_best res) -> In h res.
Proof. exact filter_best_sublist. Qed.

Theorem C10_filter_best_keeps_a_best_hit : forall res, res <> [] ->
  (forall h, In h res -> (snd h < 10000)%Z) ->
  exists g, In g (filter_best res) /\ forall h, In h res -> (snd g <= snd h)%Z.
Proof. exact filter_best_min. Qed.

(** the score returned by LocatePattern is the least cost of an edit script (substitutions, insertions,
    deletions; symbols compared by obialign._samenuc) between the pattern and a run of the fragment:
    some run attains it, no run of the fragment does better ([alg pat run d], Proofs.v) *)
Theorem C10_locate_score_minimal : forall pat sq s e d, locate pat sq = Some (s, e, d) ->
  exists d', d = Z.of_nat d' /\
    (exists before run after, sq = before ++ run ++ after /\ alg pat run d') /\
    (forall before run after d'', sq = before ++ run ++ after -> alg pat run d'' -> d' <= d'').
Proof. exact locate_score_minimal. Qed.

(** LocatePattern, in full: the reported span lies inside the fragment, the reported count is the edit distance
    between the pattern and that span (some edit script has that cost, none is cheaper), and no run of the
    fragment is closer to the pattern *)
Theorem C10_locate : forall pat sq s e d, locate pat sq = Some (s, e, d) ->
  (0 <= s <= e)%Z /\ (e <= Z.of_nat (length sq))%Z /\
  exists d', d = Z.of_nat d' /\ alg pat (slice sq s e) d' /\
    (forall d'', alg pat (slice sq s e) d'' -> d' <= d'') /\
    (forall before run after d'', sq = before ++ run ++ after -> alg pat run d'' -> d' <= d'').
Proof. exact locate_correct. Qed.

(** AllMatches: a re-aligned match is a span of the sequence and its reported count is the edit distance
    between the pattern string and that span *)
Theorem C10_allmatches_realigned_count : forall cpatb sq m h s e d,
  realign_all cpatb sq m h = Some (s, e, d) ->
  (0 <= s <= e)%Z /\ (e <= Z.of_nat (length sq))%Z /\
  exists d', d = Z.of_nat d' /\ alg cpatb (slice sq s e) d' /\ (forall d'', alg cpatb (slice sq s e) d'' -> d' <= d'').
Proof. exact realign_all_correct. Qed.

(** BestMatch: when the best hit is re-aligned (indels allowed, at least one error) the reported count is the
    edit distance between the pattern string and the reported span of the sequence *)
Theorem C10_bestmatch_realigned_count : forall cpatb sq m res s e n,
  snd (best_loop res (0, 0, 10000)%Z) <> 0%Z ->
  best_match cpatb sq m true res = Some (s, e, n, true) ->
  (0 <= s <= e)%Z /\ (e <= Z.of_nat (length sq))%Z /\
  exists d', n = Z.of_nat d' /\ alg cpatb (slice sq s e) d' /\ (forall d'', alg cpatb (slice sq s e) d'' -> d' <= d'').
Proof. exact best_match_realigned_correct. Qed.

(** *** FilterBestMatch at full strength.  Vocabulary (PostProofs.v): [reach b h] = the hit h overlaps the hit b when both
    spans are widened by their error counts (the test of the Go loop); [clusters res] = greedy clustering of the hits in order:
    a hit joins the current cluster iff it is within reach of the best hit of that cluster so far, else it opens the next
    cluster; [rep c] = the first hit of least error count of c. *)

(** the reported list is exactly one representative per cluster, in order *)
Theorem C10_filter_best_clusters : forall res, (forall h, In h res -> (err3 h < 10000)%Z) ->
  filter_best res = map rep (clusters res).
Proof. exact filter_best_clusters. Qed.

(** the clusters partition the hit list into non-empty consecutive segments *)
Theorem C10_clusters_partition : forall res, concat (clusters res) = res /\ Forall (fun c => c <> []) (clusters res).
Proof. exact clusters_partition. Qed.

(** the representative is a member of its cluster, of least error count, and the first such *)
Theorem C10_cluster_representative : forall c, c <> [] ->
  In (rep c) c /\ (forall h, In h c -> (err3 (rep c) <= err3 h)%Z) /\
  exists l1 l2, c = l1 ++ rep c :: l2 /\ forall h, In h l1 -> (err3 (rep c) < err3 h)%Z.
Proof. exact rep_spec. Qed.

(** every hit is represented: the representative of its cluster is reported and has no more errors *)
Theorem C10_filter_best_covers : forall res, (forall h, In h res -> (err3 h < 10000)%Z) ->
  forall h, In h res -> exists c, In c (clusters res) /\ In h c /\ In (rep c) (filter_best res) /\ (err3 (rep c) <= err3 h)%Z.
Proof. exact filter_best_covers. Qed.

(** the reported matches are pairwise disjoint and in increasing order: for g reported before h, end g + err g <= start h
    (hits in increasing order of start, non-negative error counts: C10_find_all_index_hits_wf) *)
Theorem C10_filter_best_disjoint : forall res,
  Sorted.StronglySorted (fun g h => (start3 g < start3 h)%Z) res -> (forall h, In h res -> (0 <= err3 h)%Z) ->
  Sorted.StronglySorted (fun g h => (end3 g + err3 g <= start3 h)%Z) (filter_best res).
Proof. exact filter_best_disjoint. Qed.

(** *** the hit list of FindAllIndex, in every mode: strictly increasing starts, spans of the pattern length ending inside
    the sequence, error counts within the budget; a negative (nominal) start only for an indel hit with at least one error *)
Theorem C10_find_all_index_hits_wf : forall pat k indel text begin length l,
  1 <= List.length pat -> List.length pat <= 63 ->
  find_all_index pat k indel text begin length = Ok l ->
  hits_wf (List.length pat) k indel (Z.of_nat (List.length text)) l.
Proof. exact find_all_index_hits_wf. Qed.

(** *** BestMatch reports a match iff the automaton reports a hit (every mode; the re-alignment never fails) *)
Theorem C10_bestmatch_iff : forall pat k indel text begin length l cpatb sq,
  1 <= List.length pat -> List.length pat <= 63 -> (Z.of_nat k < 10000)%Z -> cpatb <> [] -> List.length sq = List.length text ->
  find_all_index pat k indel text begin length = Ok l ->
  exists s e n mt, best_match cpatb sq (Z.of_nat (List.length pat)) indel l = Some (s, e, n, mt) /\ (mt = true <-> l <> []).
Proof. exact best_match_iff_fai. Qed.

(** *** [alg] (LocatePattern: symbols compared by obialign._samenuc over _iupac, IUPAC codes of the SEQUENCE are compatible)
    versus [aligned] (the automaton: sequence symbols are plain letters tested against the symbol sets of sDnaCode).
    The two comparisons are the same relation exactly on a/c/g/t sequence symbols, for every pattern letter but X (both
    tables regenerated) ... *)
Theorem C10_samenuc_agrees_on_acgt : forall L c, plain_letter L = true -> In c plain_codes ->
  samenuc L (c + 97) = sym_match (dna_code L, false) c.
Proof. exact samenuc_agrees. Qed.

(** ... so on patterns made of IUPAC letters (X excepted; no class, no '!', no '#') and a/c/g/t texts every script of
    LocatePattern is a script of the automaton with the same cost, every script of the automaton is one of LocatePattern up to
    needless substitutions, and the edit distances coincide ([least P d]: d is the least cost).  Outside that domain they
    differ (observations, exercised by the harness): an ambiguity code in the sequence matches no plain pattern letter in the
    automaton but is compatible in LocatePattern; X is N in sDnaCode and nothing in _iupac (witness below); classes and
    negations are not seen by LocatePattern, which reads the bytes of the pattern string *)
Theorem C10_alg_aligned_agree : forall cs run, forallb plain_letter cs = true -> plain_text run = true ->
  (forall d, alg cs (text_bytes run) d -> aligned (plain_pat cs) run d) /\
  (forall d, aligned (plain_pat cs) run d -> exists d', d' <= d /\ alg cs (text_bytes run) d') /\
  (forall d, least (alg cs (text_bytes run)) d <-> least (aligned (plain_pat cs) run) d).
Proof. exact alg_aligned_agree. Qed.

Theorem C10_samenuc_x_differs : samenuc letter_X (0 + 97) = false /\ sym_match (dna_code letter_X, false) 0 = true.
Proof. exact samenuc_X_differs. Qed.

(** *** AllMatches: never a match without a hit of the automaton (every mode, every pattern) ... *)
Theorem C10_allmatches_sound : forall cpatb sq m k indel l r,
  all_matches cpatb sq m k indel l = Some r -> r <> [] -> l <> [].
Proof. exact all_matches_sound. Qed.

(** ... and on the agreement domain no filtered hit is lost: the re-aligned count never exceeds the automaton's, so AllMatches
    returns as many matches as FilterBestMatch and reports a match iff the automaton does *)
Theorem C10_allmatches_iff : forall cs text k indel begin length l,
  forallb plain_letter cs = true -> plain_text text = true -> 1 <= List.length cs -> List.length cs <= 63 ->
  (Z.of_nat k < 10000)%Z ->
  find_all_index (plain_pat cs) k indel text begin length = Ok l ->
  exists r, all_matches cs (text_bytes text) (Z.of_nat (List.length cs)) (Z.of_nat k) indel l = Some r /\
            List.length r = List.length (filter_best l) /\ (r <> [] <-> l <> []).
Proof. exact all_matches_complete. Qed.

(** ... and there the count AllMatches / BestMatch report for a re-aligned match is the edit distance between the pattern and
    the reported span of the sequence in the automaton's own terms (symbol sets): the third clause of the property *)
Theorem C10_allmatches_edit_distance : forall cs text m h s e d,
  forallb plain_letter cs = true -> plain_text text = true ->
  realign_all cs (text_bytes text) m h = Some (s, e, d) ->
  (0 <= s <= e)%Z /\ (e <= Z.of_nat (List.length text))%Z /\
  exists d', d = Z.of_nat d' /\ least (aligned (plain_pat cs) (slice text s e)) d'.
Proof. exact realign_all_edit_distance. Qed.

Theorem C10_bestmatch_edit_distance : forall cs text m res s e n,
  forallb plain_letter cs = true -> plain_text text = true ->
  snd (best_loop res (0, 0, 10000)%Z) <> 0%Z ->
  best_match cs (text_bytes text) m true res = Some (s, e, n, true) ->
  (0 <= s <= e)%Z /\ (e <= Z.of_nat (List.length text))%Z /\
  exists d', n = Z.of_nat d' /\ least (aligned (plain_pat cs) (slice text s e)) d'.
Proof. exact best_match_edit_distance. Qed.

(** a pattern string made of IUPAC letters encodes to [plain_pat] (ties the two theorems above to EncodePattern) *)
Theorem C10_parse_plain : forall cs, cs <> [] -> forallb plain_letter cs = true -> parse_pattern cs = Some (plain_pat cs).
Proof. exact parse_plain. Qed.

(** *** what is NOT proved here (checked by the correspondence run and the brute-force oracle only):
    - patterns of 64 positions: refused by MakeApatPattern as repaired (C10_make_pattern_too_long; known finding m64-rejected);
    - AllMatches on patterns with classes / negations / X or texts with ambiguity codes: only soundness (C10_allmatches_sound)
      and the span / count theorems; there the re-aligned count is LocatePattern's (_samenuc), which can differ from the
      automaton's in both directions (observations in the evidence);
    - with obligatory positions and indels the edit-script reading of the automaton (C10_indel_sound/complete) is not stated:
      C10_indel_sellers gives the exact recurrence;
    - that the IUPAC nomenclature table [iupac_bases] (Model.v) is the standard one: it is the specification (26 lines), the
      Python oracle has its own copy. *)

(** *** round 3 — the predicate of obigrep --approx-pattern (predicat.go: IsPatternMatchSequence over ApatPattern.IsMatching and
    ApatPattern.ReverseComplement), [pattern_match_sequence] in Model.v *)

(** IsMatching(aseq, 0, aseq.Len()) runs the automaton of the mode over the whole sequence ([strand_hits]) *)
Theorem C10_is_matching_whole : forall pat k indel text, 1 <= List.length pat -> List.length pat <= 63 ->
  is_matching pat k indel text 0 (Z.of_nat (List.length text)) = Ok (negb (is_nil (strand_hits pat k indel text))).
Proof. exact is_matching_whole. Qed.

(** on every pattern string of the documented grammar that MakeApatPattern accepts the predicate object is built without a
    fatal error (the complemented string is accepted), its second pattern is the complemented pattern, and the answer is the
    disjunction of the two strands - the second one only when both strands are wanted *)
Theorem C10_predicate_strands : forall str P k both indel bytes,
  hash_after_position 0 (map to_upper str) = true ->
  make_pattern str = Some P ->
  pattern_match_sequence str k both indel bytes =
  PBool (negb (is_nil (strand_hits P k indel (encode_sequence bytes))) ||
         (both && negb (is_nil (strand_hits (comp_pattern P) k indel (encode_sequence bytes))))).
Proof. exact pattern_match_sequence_spec. Qed.

(** mismatch mode: a sequence is selected iff the pattern occurs in it within the budget, or (both strands) in its REVERSE
    COMPLEMENT - the second clause of the property seen from the sequence *)
Theorem C10_predicate_both_strands : forall str P k both indel bytes,
  hash_after_position 0 (map to_upper str) = true ->
  make_pattern str = Some P ->
  indel = false \/ k = 0 ->
  exists b, pattern_match_sequence str k both indel bytes = PBool b /\
    (b = true <->
     find_all_spec P k (encode_sequence bytes) 0 <> [] \/
     (both = true /\ find_all_spec P k (revcomp_text (encode_sequence bytes)) 0 <> [])).
Proof. exact predicate_both_strands. Qed.

(** indel mode: the same disjunction over Sellers' recurrence of the pattern and of the complemented pattern
    (C10_indel_sound / _complete / _minimal read a non-empty [sellers_spec] as an edit script within the budget) *)
Theorem C10_predicate_indel : forall str P k both bytes,
  hash_after_position 0 (map to_upper str) = true ->
  make_pattern str = Some P ->
  1 <= k ->
  exists b, pattern_match_sequence str k both true bytes = PBool b /\
    (b = true <->
     sellers_spec P k (encode_sequence bytes) 0 <> [] \/
     (both = true /\ sellers_spec (comp_pattern P) k (encode_sequence bytes) 0 <> [])).
Proof. exact predicate_indel. Qed.

(** a refused pattern (syntax, 64 positions or more) is fatal for the command, whatever the sequences *)
Theorem C10_predicate_refused : forall str k both indel bytes,
  make_pattern str = None -> pattern_match_sequence str k both indel bytes = PFatal.
Proof. exact predicate_refused. Qed.

(** the command line: obigrep --approx-pattern ... keeps exactly the records on which every pattern occurs (either strand
    unless --only-forward) - [grep_select] transcribes CLISequenceAgrep (one predicate object per pattern, combined by And) and is
    run against the real command on every check *)
Theorem C10_obigrep_selection : forall pats k onlyf indel seqs l,
  grep_select 0 pats k onlyf indel seqs = Some l ->
  forall j, In j l <->
    exists s, (0 <= j)%Z /\ nth_error seqs (Z.to_nat j) = Some s /\
              forall str, In str pats -> pattern_match_sequence str k (negb onlyf) indel s = PBool true.
Proof. exact obigrep_selection. Qed.

(** *** round 3 — reads holding IUPAC ambiguity codes (known finding text-ambiguity-realign).
    obialign._samenuc contains the automaton's relation for every pattern letter but X and every read letter (regenerated
    tables) ... *)
Theorem C10_samenuc_contains_automaton : forall L c, plain_letter L = true -> (c < 26)%N ->
  sym_match (dna_code L, false) c = true -> samenuc L (c + 97) = true.
Proof. exact samenuc_contains. Qed.

(** ... hence every edit script of the automaton is one of LocatePattern of at most the same cost, on EVERY read: the
    re-aligned count is never above the automaton's edit distance ... *)
Theorem C10_realigned_never_above : forall cs run d, forallb plain_letter cs = true -> Forall (fun c => (c < 26)%N) run ->
  aligned (plain_pat cs) run d -> exists d', d' <= d /\ alg cs (text_bytes run) d'.
Proof. exact realigned_never_above. Qed.

(** ... but it can be below (full statement refuted: "the reported count equals the edit distance between the pattern and the
    span" under the automaton's symbol sets; C10_allmatches_edit_distance / C10_bestmatch_edit_distance are the part that
    holds, on a/c/g/t reads): ACGT, one error, indels, on ttacntttacgt - FindAllIndex reports [2,6) with one error, AllMatches
    the same span with none, and no script of the automaton has cost 0 *)
Theorem C10_text_ambiguity_counts_differ :
  let str := [65; 67; 71; 84]%N in
  let sq := [116; 116; 97; 99; 110; 116; 116; 116; 97; 99; 103; 116]%N in
  exists pat l a,
    make_pattern str = Some pat /\
    find_all_index pat 1 true (encode_sequence sq) 0 (-1) = Ok l /\ In (2, 6, 1)%Z l /\
    all_matches str sq 4 1 true l = Some a /\ In (2, 6, 0)%Z a /\
    aligned pat [0; 2; 13; 19]%N 1 /\ ~ aligned pat [0; 2; 13; 19]%N 0.
Proof. exact text_ambiguity_counts_differ. Qed.


(** *** non-vacuity: a pattern with a class, a negation and an obligatory position; hits with 0, 1
    and 2 mismatches; the obligatory position (g#) is never a mismatch *)
Example C10_sub_exact_nonvacuous :
  let pat := [(1%N, false); (524292%N, false); (64%N, true); (N.ldiff (N.ones 26) 524288, false)] in  (* A[CT]G#!T *)
  let w := [19; 19; 0; 2; 6; 19; 19; 0; 6; 6; 0; 0; 6; 2; 6; 0; 2; 6; 0]%N in
  manber_sub pat 2 w 0 = [(2, 1); (6, 2); (7, 1); (10, 1); (12, 1); (15, 0)]%Z /\
  find_all_spec pat 2 w 0 = [(2, 1); (6, 2); (7, 1); (10, 1); (12, 1); (15, 0)]%Z /\
  1 <= length pat <= 63.
Proof. vm_compute. repeat split; lia. Qed.

Example C10_indel_nonvacuous :
  let pat := [(1%N, false); (4%N, false); (64%N, false); (524288%N, false)] in        (* ACGT *)
  let w := [19; 19; 0; 2; 6; 19; 19; 0; 6; 6; 0; 0; 6; 2; 6; 0; 2; 6; 0; 2; 19]%N in
  manber_indel pat 1 w 0 = [(1, 1); (2, 0); (3, 1); (14, 1); (15, 1); (17, 1)]%Z /\
  no_oblig pat /\ 1 <= length pat <= 63 /\
  aligned pat [0; 2; 19]%N 1.                                                           (* a c - t : g deleted *)
Proof.
  split; [vm_compute; reflexivity|]. split; [intros s [<-|[<-|[<-|[<-|[]]]]]; reflexivity|]. split; [cbn; lia|].
  cbn. apply al_match; [reflexivity|]. apply al_match; [reflexivity|]. apply al_del. apply al_match; [reflexivity|]. constructor.
Qed.

Example C10_locate_nonvacuous :
  locate [97; 99; 103; 116]%N [99; 103; 116; 116; 116]%N = Some (0, 3, 1)%Z /\        (* acgt in cgttt: a deleted *)
  locate [99]%N [103; 97; 99; 116]%N = Some (2, 3, 0)%Z.
Proof. vm_compute. split; reflexivity. Qed.

Example C10_comp_string_nonvacuous :
  let s := [33; 91; 65; 71; 93; 35]%N in                                        (* ![AG]# *)
  hash_after_position 0 (map to_upper s) = true /\
  comp_string s = [33; 91; 84; 67; 93; 35]%N /\                                 (* ![TC]# *)
  parse_pattern s <> None.
Proof. vm_compute. repeat split; discriminate. Qed.

Example C10_predicate_nonvacuous :
  let str := [65; 65; 67; 67]%N in                                              (* AACC *)
  let s1 := [116; 116; 103; 103; 116; 116; 97; 97]%N in                         (* ttggttaa: the site is on the other strand *)
  hash_after_position 0 (map to_upper str) = true /\ make_pattern str <> None /\
  pattern_match_sequence str 0 true false s1 = PBool true /\
  pattern_match_sequence str 0 false false s1 = PBool false /\
  pattern_match_sequence str 1 true true [103; 103; 116]%N = PBool true /\      (* ggt: ggtt cut by the end, one deletion *)
  grep_select 0 [str; [71; 71]%N] 0 true false [s1; [97; 97; 99; 99]%N; [103; 103; 97; 97; 99; 99]%N] = Some [2]%Z.
Proof. vm_compute. repeat split; discriminate. Qed.

Print Assumptions C10_dna_code_iupac_sets.
Print Assumptions C10_iupac_table_sets.
Print Assumptions C10_constants.
Print Assumptions C10_window_covers_starts.
Print Assumptions C10_make_pattern_length.
Print Assumptions C10_make_pattern_too_long.
Print Assumptions C10_sub_exact.
Print Assumptions C10_noerr_exact.
Print Assumptions C10_find_all_index_exact.
Print Assumptions C10_find_all_index_positions.
Print Assumptions C10_spec_positions.
Print Assumptions C10_spec_sorted.
Print Assumptions C10_spec_count.
Print Assumptions C10_spec_count_defined.
Print Assumptions C10_revcomp_pattern.
Print Assumptions C10_comp_pattern_involutive.
Print Assumptions C10_revcomp_automaton.
Print Assumptions C10_complement_table_consistent.
Print Assumptions C10_comp_string.
Print Assumptions C10_pattern_grammar.
Print Assumptions C10_indel_sellers.
Print Assumptions C10_find_all_index_indel.
Print Assumptions C10_indel_sound.
Print Assumptions C10_indel_complete.
Print Assumptions C10_indel_minimal.
Print Assumptions C10_locate_span_inside.
Print Assumptions C10_locate_total.
Print Assumptions C10_locate_score_minimal.
Print Assumptions C10_locate.
Print Assumptions C10_allmatches_realigned_count.
Print Assumptions C10_bestmatch_realigned_count.
Print Assumptions C10_allmatches_realigned_span_inside.
Print Assumptions C10_bestmatch_span_inside.
Print Assumptions C10_filter_best_sublist.
Print Assumptions C10_filter_best_keeps_a_best_hit.
Print Assumptions C10_filter_best_clusters.
Print Assumptions C10_clusters_partition.
Print Assumptions C10_cluster_representative.
Print Assumptions C10_filter_best_covers.
Print Assumptions C10_filter_best_disjoint.
Print Assumptions C10_find_all_index_hits_wf.
Print Assumptions C10_bestmatch_iff.
Print Assumptions C10_samenuc_agrees_on_acgt.
Print Assumptions C10_alg_aligned_agree.
Print Assumptions C10_samenuc_x_differs.
Print Assumptions C10_allmatches_sound.
Print Assumptions C10_allmatches_iff.
Print Assumptions C10_parse_plain.
Print Assumptions C10_allmatches_edit_distance.
Print Assumptions C10_bestmatch_edit_distance.
Print Assumptions C10_is_matching_whole.
Print Assumptions C10_predicate_strands.
Print Assumptions C10_predicate_both_strands.
Print Assumptions C10_predicate_indel.
Print Assumptions C10_predicate_refused.
Print Assumptions C10_samenuc_contains_automaton.
Print Assumptions C10_realigned_never_above.
Print Assumptions C10_text_ambiguity_counts_differ.
Print Assumptions C10_obigrep_selection.
