(** C10 — ecoComplementPattern on pattern strings of ANY length: by induction on the token structure of the accepted
    strings (a token = leading !s, a letter or a [class], an optional #). Every accepted string of the documented grammar
    is a sequence of tokens (toks_decomp); CheckPattern / EncodePattern and ecoComplementPattern are computed token by
    token (parse_render, comp_string_render); the complemented letters encode the complemented sets (tok_sym_comp, over the
    regenerated tables). *)
From Coq Require Import NArith ZArith List Bool Lia.
Import ListNotations.
From OBI.C10 Require Import Model Proofs TableProofs.

(** ---------------- characters ---------------- *)
Lemma upper_bounds c : is_upper c = true -> (65 <= c <= 90)%N.
Proof. unfold is_upper. rewrite andb_true_iff, !N.leb_le. tauto. Qed.

Lemma upper_not_special c : is_upper c = true ->
  (c =? ch_open)%N = false /\ (c =? ch_close)%N = false /\ (c =? ch_bang)%N = false /\ (c =? ch_hash)%N = false /\
  (c =? 0)%N = false /\ is_lower c = false.
Proof.
  intros H. apply upper_bounds in H. unfold ch_open, ch_close, ch_bang, ch_hash, is_lower.
  repeat split; try (apply N.eqb_neq; lia).
  apply andb_false_iff. left. apply N.leb_gt. lia.
Qed.

(** ---------------- tokens: a position of the pattern string ---------------- *)
Record tok := mkTok { nb : nat; body : list N; cls : bool; hs : bool }.
Definition wf_tok (t : tok) : Prop :=
  body t <> [] /\ Forall (fun c => is_upper c = true) (body t) /\ (cls t = false -> length (body t) = 1).
Definition render_body (t : tok) : list N := if cls t then ch_open :: body t ++ [ch_close] else body t.
Definition render_hash (t : tok) : list N := if hs t then [ch_hash] else [].
Definition render_tok (t : tok) : list N := repeat ch_bang (nb t) ++ render_body t ++ render_hash t.
Definition render (toks : list tok) : list N := flat_map render_tok toks.

(* the rest of the string after a position does not begin with '#' *)
Definition nhh (l : list N) : Prop := match l with c :: _ => c <> ch_hash | [] => True end.

Lemma render_body_head t : wf_tok t -> exists c r, render_body t = c :: r /\ (c = ch_open \/ is_upper c = true).
Proof.
  intros [Hne [Hup Hone]]. unfold render_body. destruct (cls t).
  - eexists _, _. split; [reflexivity|now left].
  - destruct (body t) as [|c r]; [congruence|]. exists c, r. split; [reflexivity|]. right. now inversion Hup.
Qed.

Lemma render_tok_nhh t rest : wf_tok t -> nhh (render_tok t ++ rest).
Proof.
  intros Hwf. unfold render_tok. destruct (nb t) as [|n]; cbn [repeat app].
  - destruct (render_body_head t Hwf) as [c [r [E Hc]]]. rewrite E. cbn [app nhh].
    destruct Hc as [->|Hc]; [discriminate|]. apply upper_not_special in Hc. intros ->. now destruct Hc as (_&_&_&H&_).
  - discriminate.
Qed.

Lemma render_nhh toks : Forall wf_tok toks -> nhh (render toks).
Proof.
  intros H. destruct toks as [|t ts]; [exact I|]. cbn [render flat_map]. apply render_tok_nhh. now inversion H.
Qed.

Lemma render_tok_nonempty t : wf_tok t -> render_tok t <> [].
Proof.
  intros Hwf E. unfold render_tok in E. apply app_eq_nil in E. destruct E as [_ E]. apply app_eq_nil in E. destruct E as [E _].
  destruct (render_body_head t Hwf) as [c [r [E' _]]]. congruence.
Qed.

(** ---------------- ecoComplementPattern: tokens are reversed ---------------- *)
Lemma tok_bangs_repeat n x : (match x with c :: _ => c <> ch_bang | [] => True end) ->
  tok_bangs (repeat ch_bang n ++ x) = (repeat ch_bang n, x).
Proof.
  intros Hx. induction n as [|n IH]; cbn [repeat app].
  - destruct x as [|c r]; [reflexivity|]. cbn [tok_bangs]. apply N.eqb_neq in Hx. now rewrite Hx.
  - cbn [tok_bangs]. rewrite N.eqb_refl, IH. reflexivity.
Qed.

Lemma tok_class_letters l tail : Forall (fun c => is_upper c = true) l ->
  tok_class (l ++ ch_close :: tail) = (l, ch_close :: tail).
Proof.
  induction 1 as [|c l Hc _ IH]; cbn [app tok_class].
  - now rewrite N.eqb_refl.
  - apply upper_not_special in Hc. destruct Hc as (_&Hc&_). rewrite Hc, IH. reflexivity.
Qed.

Lemma next_token_eq s b s1 cl s2 one s3 h s4 :
  tok_bangs s = (b, s1) ->
  match s1 with c :: _ => if (c =? ch_open)%N then tok_class s1 else ([], s1) | [] => ([], []) end = (cl, s2) ->
  match s2 with c :: r => ([c], r) | [] => ([], []) end = (one, s3) ->
  match s3 with c :: r => if (c =? ch_hash)%N then ([c], r) else ([], s3) | [] => ([], []) end = (h, s4) ->
  next_token s = (b ++ cl ++ one ++ h, s4).
Proof. intros H1 H2 H3 H4. unfold next_token. rewrite H1, H2, H3, H4. reflexivity. Qed.

Lemma hash_stage t rest : nhh rest ->
  match render_hash t ++ rest with c :: r => if (c =? ch_hash)%N then ([c], r) else ([], render_hash t ++ rest) | [] => ([], []) end
  = (render_hash t, rest).
Proof.
  intros Hr. unfold render_hash. destruct (hs t); cbn [app].
  - now rewrite N.eqb_refl.
  - destruct rest as [|c r]; [reflexivity|]. cbn [nhh] in Hr. apply N.eqb_neq in Hr. now rewrite Hr.
Qed.

Lemma next_token_tok t rest : wf_tok t -> nhh rest -> next_token (render_tok t ++ rest) = (render_tok t, rest).
Proof.
  intros Hwf Hr. pose proof Hwf as [Hne [Hup Hone]]. unfold render_tok. rewrite <- !app_assoc.
  unfold render_body. destruct (cls t) eqn:Ecls.
  - rewrite (next_token_eq _ (repeat ch_bang (nb t)) (ch_open :: body t ++ ch_close :: render_hash t ++ rest)
               (ch_open :: body t) (ch_close :: render_hash t ++ rest) [ch_close] (render_hash t ++ rest) (render_hash t) rest).
    + cbn [app]. rewrite <- !app_assoc. reflexivity.
    + cbn [app]. rewrite <- !app_assoc. cbn [app]. apply tok_bangs_repeat. discriminate.
    + rewrite N.eqb_refl. cbn [tok_class]. replace (ch_open =? ch_close)%N with false by reflexivity.
      rewrite tok_class_letters by exact Hup. reflexivity.
    + reflexivity.
    + apply hash_stage, Hr.
  - specialize (Hone eq_refl). destruct (body t) as [|L [|? ?]] eqn:Eb; try discriminate. clear Hone.
    inversion Hup as [|? ? HL _]; subst. pose proof (upper_not_special _ HL) as (HL1&_&HL3&_).
    rewrite (next_token_eq _ (repeat ch_bang (nb t)) (L :: render_hash t ++ rest) [] (L :: render_hash t ++ rest) [L]
               (render_hash t ++ rest) (render_hash t) rest).
    + reflexivity.
    + cbn [app]. apply tok_bangs_repeat. intros ->. discriminate.
    + now rewrite HL1.
    + reflexivity.
    + apply hash_stage, Hr.
Qed.

Lemma render_rev_snoc ts t : render (ts ++ [t]) = render ts ++ render_tok t.
Proof. unfold render. rewrite flat_map_app. cbn [flat_map]. now rewrite app_nil_r. Qed.

Lemma rev_tokens_render toks : Forall wf_tok toks -> forall fuel acc, length toks < fuel ->
  rev_tokens fuel (render toks) acc = render (rev toks) ++ acc.
Proof.
  induction 1 as [|t ts Ht Hts IH]; intros fuel acc Hf.
  - destruct fuel; [lia|]. reflexivity.
  - destruct fuel as [|f]; [lia|]. cbn [render flat_map rev_tokens]. fold (render ts).
    destruct (render_tok t ++ render ts) as [|c r] eqn:E.
    { apply app_eq_nil in E. destruct E as [E _]. now apply render_tok_nonempty in E. }
    rewrite <- E. rewrite next_token_tok by (auto using render_nhh).
    rewrite IH by (cbn [length] in Hf; lia). cbn [rev]. rewrite render_rev_snoc, <- app_assoc. reflexivity.
Qed.

Definition comp_tok (t : tok) : tok := mkTok (nb t) (map comp_letter (body t)) (cls t) (hs t).
Definition compchar (c : N) : N := if (c =? ch_open)%N || (c =? ch_close)%N then c else comp_letter c.

Lemma comp_letter_upper_ok : forallb (fun L => is_upper (comp_letter L)) letters26 = true.
Proof. vm_compute. reflexivity. Qed.
Lemma comp_letter_upper L : is_upper L = true -> is_upper (comp_letter L) = true.
Proof. intros H. exact (proj1 (forallb_forall _ _) comp_letter_upper_ok L (upper_in_letters26 L H)). Qed.
Lemma comp_letter_bang : comp_letter ch_bang = ch_bang. Proof. reflexivity. Qed.
Lemma comp_letter_hash : comp_letter ch_hash = ch_hash. Proof. reflexivity. Qed.

Lemma wf_comp_tok t : wf_tok t -> wf_tok (comp_tok t).
Proof.
  intros [Hne [Hup Hone]]. unfold wf_tok, comp_tok. cbn [body cls]. repeat split.
  - destruct (body t); [congruence|discriminate].
  - apply Forall_map. eapply Forall_impl; [|exact Hup]. apply comp_letter_upper.
  - intros H. rewrite map_length. auto.
Qed.

Lemma map_compchar_letters l : Forall (fun c => is_upper c = true) l -> map compchar l = map comp_letter l.
Proof.
  induction 1 as [|c l Hc _ IH]; [reflexivity|]. cbn [map]. rewrite IH. f_equal.
  unfold compchar. apply upper_not_special in Hc. destruct Hc as (H1&H2&_). now rewrite H1, H2.
Qed.

Lemma map_compchar_tok t : wf_tok t -> map compchar (render_tok t) = render_tok (comp_tok t).
Proof.
  intros [Hne [Hup Hone]]. unfold render_tok. rewrite !map_app. f_equal; [|f_equal].
  - cbn [comp_tok nb]. induction (nb t) as [|n IH]; [reflexivity|]. cbn [repeat map]. now rewrite IH.
  - unfold render_body. cbn [comp_tok cls body]. destruct (cls t).
    + cbn [map]. rewrite map_app. cbn [map]. rewrite map_compchar_letters by exact Hup. reflexivity.
    + apply map_compchar_letters, Hup.
  - unfold render_hash. cbn [comp_tok hs]. destruct (hs t); reflexivity.
Qed.

Lemma map_compchar_render toks : Forall wf_tok toks -> map compchar (render toks) = render (map comp_tok toks).
Proof.
  induction 1 as [|t ts Ht _ IH]; [reflexivity|]. cbn [render flat_map map]. rewrite map_app, map_compchar_tok by exact Ht.
  f_equal. exact IH.
Qed.

Lemma render_length toks : Forall wf_tok toks -> length toks <= length (render toks).
Proof.
  induction 1 as [|t ts Ht _ IH]; [cbn; lia|]. cbn [render flat_map length]. rewrite app_length.
  fold (render ts). pose proof (render_tok_nonempty t Ht). destruct (render_tok t); [congruence|]. cbn [length]. lia.
Qed.

Lemma comp_string_render toks : Forall wf_tok toks -> comp_string (render toks) = render (map comp_tok (rev toks)).
Proof.
  intros H. unfold comp_string. rewrite rev_tokens_render by (auto; pose proof (render_length toks H); lia).
  rewrite app_nil_r. fold compchar. apply map_compchar_render. now apply Forall_rev.
Qed.

(** ---------------- CheckPattern / EncodePattern on rendered tokens ---------------- *)
Lemma to_upper_fix c : is_lower c = false -> to_upper c = c.
Proof. unfold to_upper. now intros ->. Qed.

Lemma to_upper_render toks : Forall wf_tok toks -> map to_upper (render toks) = render toks.
Proof.
  induction 1 as [|t ts Ht _ IH]; [reflexivity|]. cbn [render flat_map]. rewrite map_app. fold (render ts). rewrite IH. f_equal.
  destruct Ht as [_ [Hup _]]. unfold render_tok. rewrite !map_app. f_equal; [|f_equal].
  - induction (nb t) as [|n IHn]; [reflexivity|]. cbn [repeat map]. now rewrite IHn.
  - assert (HL : map to_upper (body t) = body t).
    { induction Hup as [|c l Hc _ IHl]; [reflexivity|]. cbn [map]. rewrite IHl. f_equal. apply to_upper_fix.
      now apply upper_not_special in Hc. }
    unfold render_body. destruct (cls t); [|exact HL]. cbn [map]. rewrite map_app, HL. reflexivity.
  - unfold render_hash. destruct (hs t); reflexivity.
Qed.

Definition nxt (r : list N) : N := match r with [] => 0%N | n :: _ => n end.

Lemma check_bang r prev : (nxt r =? 0)%N = false -> (nxt r =? ch_close)%N = false ->
  check_loop (ch_bang :: r) prev false = check_loop r ch_bang false.
Proof. intros H1 H2. cbn [check_loop]. fold (nxt r). rewrite H1, H2. reflexivity. Qed.
Lemma check_upper c r prev lev : is_upper c = true -> check_loop (c :: r) prev lev = check_loop r c lev.
Proof.
  intros H. pose proof (upper_not_special c H) as (H1&H2&H3&H4&_). cbn [check_loop]. now rewrite H1, H2, H3, H4, H.
Qed.
Lemma check_open r prev : (nxt r =? ch_close)%N = false -> check_loop (ch_open :: r) prev false = check_loop r ch_open true.
Proof. intros H. cbn [check_loop]. fold (nxt r). rewrite H. reflexivity. Qed.
Lemma check_close r prev : check_loop (ch_close :: r) prev true = check_loop r ch_close false.
Proof. reflexivity. Qed.
Lemma check_hash r prev : (prev =? ch_open)%N = false -> check_loop (ch_hash :: r) prev false = check_loop r ch_hash false.
Proof. intros H. cbn [check_loop]. rewrite H. reflexivity. Qed.

Lemma check_letters l tail p : Forall (fun c => is_upper c = true) l -> l <> [] ->
  check_loop (l ++ tail) p true = check_loop tail (last l 0%N) true.
Proof.
  intros H. revert p. induction H as [|c l Hc Hl IH]; intros p Hne; [congruence|].
  cbn [app]. rewrite check_upper by exact Hc. destruct l as [|c' l']; [reflexivity|].
  rewrite IH by discriminate. reflexivity.
Qed.

Lemma last_upper l : Forall (fun c => is_upper c = true) l -> l <> [] -> is_upper (last l 0%N) = true.
Proof.
  induction 1 as [|c l Hc Hl IH]; intros Hne; [congruence|]. destruct l as [|c' l']; [exact Hc|]. apply IH. discriminate.
Qed.

Lemma check_hash_part t rest p : (p =? ch_open)%N = false -> (forall q, check_loop rest q false = true) ->
  check_loop (render_hash t ++ rest) p false = true.
Proof.
  intros Hp Hrest. unfold render_hash. destruct (hs t); cbn [app]; [rewrite check_hash by exact Hp|]; apply Hrest.
Qed.

Lemma check_body t rest prev : wf_tok t -> (forall q, check_loop rest q false = true) ->
  check_loop (render_body t ++ render_hash t ++ rest) prev false = true.
Proof.
  intros [Hne [Hup Hone]] Hrest. unfold render_body. destruct (cls t).
  - cbn [app]. rewrite check_open.
    2:{ destruct (body t) as [|c l]; [congruence|]. cbn [app nxt]. inversion Hup; subst. now apply upper_not_special. }
    rewrite <- app_assoc. rewrite check_letters by assumption. cbn [app]. rewrite check_close.
    apply check_hash_part; [reflexivity|exact Hrest].
  - specialize (Hone eq_refl). destruct (body t) as [|L [|? ?]]; try discriminate. inversion Hup; subst. cbn [app].
    rewrite check_upper by assumption. apply check_hash_part; [now apply upper_not_special|exact Hrest].
Qed.

Lemma body_head_ok t Y : wf_tok t -> (nxt (render_body t ++ Y) =? 0)%N = false /\ (nxt (render_body t ++ Y) =? ch_close)%N = false.
Proof.
  intros Hwf. destruct (render_body_head t Hwf) as [c [r [E Hc]]]. rewrite E. cbn [app nxt].
  destruct Hc as [->|Hc]; [split; reflexivity|]. apply upper_not_special in Hc. tauto.
Qed.

Lemma check_tok t rest prev : wf_tok t -> (forall q, check_loop rest q false = true) ->
  check_loop (render_tok t ++ rest) prev false = true.
Proof.
  intros Hwf Hrest. unfold render_tok. rewrite <- !app_assoc. revert prev.
  induction (nb t) as [|n IH]; intros prev; cbn [repeat app].
  - now apply check_body.
  - rewrite check_bang; [apply IH| |].
    + destruct n; cbn [repeat app nxt]; [apply (body_head_ok t _ Hwf)|reflexivity].
    + destruct n; cbn [repeat app nxt]; [apply (body_head_ok t _ Hwf)|reflexivity].
Qed.

Lemma check_render toks : Forall wf_tok toks -> forall prev, check_loop (render toks) prev false = true.
Proof.
  induction 1 as [|t ts Ht _ IH]; intros prev; [reflexivity|]. cbn [render flat_map]. now apply check_tok.
Qed.

Lemma check_pattern_render toks : Forall wf_tok toks -> check_pattern (render toks) = true.
Proof.
  intros H. unfold check_pattern. pose proof (render_nhh toks H) as Hn. destruct (render toks) as [|c r] eqn:E; [reflexivity|].
  cbn [nhh] in Hn. apply N.eqb_neq in Hn. rewrite Hn, <- E. now apply check_render.
Qed.

Definition negate (v : N) : N := N.land (N.lxor v PATMASK) PATMASK.
Definition bodyval (l : list N) : N := fold_right (fun c acc => N.lor (dna_code c) acc) 0%N l.
Fixpoint negn (n : nat) (neg : bool) : bool := match n with O => neg | S n' => negn n' (negb neg) end.
Definition tok_val (t : tok) (neg : bool) : N := if negn (nb t) neg then negate (bodyval (body t)) else bodyval (body t).
Definition tok_sym (t : tok) : sym := (tok_val t false, hs t).

Lemma letters_val_body l tail : Forall (fun c => is_upper c = true) l -> letters_val (l ++ ch_close :: tail) = bodyval l.
Proof. induction 1 as [|c l Hc _ IH]; [reflexivity|]. cbn [app letters_val bodyval fold_right]. rewrite Hc, IH. reflexivity. Qed.
Lemma after_close_body l tail : Forall (fun c => is_upper c = true) l -> after_close (l ++ ch_close :: tail) = Some tail.
Proof.
  induction 1 as [|c l Hc _ IH]; cbn [app after_close]; [now rewrite N.eqb_refl|].
  apply upper_not_special in Hc. destruct Hc as (_&Hc&_). now rewrite Hc.
Qed.

Lemma one_position_tok t rest : wf_tok t -> nhh rest -> forall fuel neg, nb t < fuel ->
  one_position fuel (render_tok t ++ rest) neg = Some ((tok_val t neg, hs t), rest).
Proof.
  intros Hwf Hr. pose proof Hwf as [Hne [Hup Hone]]. unfold render_tok, tok_val. rewrite <- !app_assoc.
  induction (nb t) as [|n IH]; intros fuel neg Hf; (destruct fuel as [|f]; [lia|]); cbn [repeat app negn].
  - assert (HT : forall v : N, match render_hash t ++ rest with
                    | h :: r'' => if (h =? ch_hash)%N then Some ((v, true), r'') else Some ((v, false), render_hash t ++ rest)
                    | [] => Some ((v, false), @nil N) end = Some ((v, hs t), rest)).
    { intros v. unfold render_hash. destruct (hs t); cbn [app]; [now rewrite N.eqb_refl|].
      destruct rest as [|c r]; [reflexivity|]. cbn [nhh] in Hr. apply N.eqb_neq in Hr. now rewrite Hr. }
    unfold render_body. destruct (cls t).
    + cbn [app one_position]. replace (ch_open =? ch_bang)%N with false by reflexivity. rewrite N.eqb_refl.
      rewrite <- app_assoc. cbn [app]. rewrite after_close_body, letters_val_body by exact Hup.
      replace (ch_open =? ch_hash)%N with false by reflexivity. apply HT.
    + specialize (Hone eq_refl). destruct (body t) as [|L [|? ?]]; try discriminate. inversion Hup as [|? ? HL _]; subst.
      pose proof (upper_not_special L HL) as (H1&_&H3&H4&_). cbn [app one_position]. rewrite H3, H1, HL, H4.
      cbn [bodyval fold_right]. rewrite N.lor_0_r. apply HT.
  - cbn [one_position]. rewrite N.eqb_refl. apply IH. lia.
Qed.

Lemma render_tok_length t : nb t <= length (render_tok t).
Proof. unfold render_tok. rewrite app_length, repeat_length. lia. Qed.

Lemma encode_render toks : Forall wf_tok toks -> forall fuel, length toks < fuel ->
  encode_loop fuel (render toks) = Some (map tok_sym toks).
Proof.
  induction 1 as [|t ts Ht Hts IH]; intros fuel Hf; (destruct fuel as [|f]; [lia|]); [reflexivity|].
  cbn [render flat_map encode_loop]. fold (render ts).
  destruct (render_tok t ++ render ts) as [|c r] eqn:E.
  { apply app_eq_nil in E. destruct E as [E _]. now apply render_tok_nonempty in E. }
  rewrite <- E. rewrite one_position_tok; auto using render_nhh.
  2:{ rewrite app_length. pose proof (render_tok_length t). lia. }
  rewrite IH by (cbn [length] in Hf; lia). reflexivity.
Qed.

Lemma parse_render toks : Forall wf_tok toks -> toks <> [] -> parse_pattern (render toks) = Some (map tok_sym toks).
Proof.
  intros H Hne. unfold parse_pattern. rewrite to_upper_render by exact H. rewrite check_pattern_render by exact H.
  rewrite encode_render by (auto; pose proof (render_length toks H); lia).
  destruct toks; [congruence|reflexivity].
Qed.

(** ---------------- the complemented token encodes the complemented symbol set ---------------- *)
Lemma comp_base_invol c : comp_base (comp_base c) = c.
Proof.
  unfold comp_base.
  destruct (N.eqb_spec c 0) as [->|]; [reflexivity|].
  destruct (N.eqb_spec c 19) as [->|]; [reflexivity|].
  destruct (N.eqb_spec c 2) as [->|]; [reflexivity|].
  destruct (N.eqb_spec c 6) as [->|]; [reflexivity|].
  destruct (N.eqb_spec c 0); [congruence|]. destruct (N.eqb_spec c 19); [congruence|].
  destruct (N.eqb_spec c 2); [congruence|]. destruct (N.eqb_spec c 6); [congruence|]. reflexivity.
Qed.
Lemma comp_set_bit x n : N.testbit (comp_set x) n = N.testbit x (comp_base n).
Proof. rewrite <- (comp_base_invol n) at 1. apply comp_match. Qed.
Lemma comp_set_lor a b : comp_set (N.lor a b) = N.lor (comp_set a) (comp_set b).
Proof. apply N.bits_inj. intros n. now rewrite N.lor_spec, !comp_set_bit, N.lor_spec. Qed.
Lemma comp_set_0 : comp_set 0 = 0%N.
Proof. reflexivity. Qed.
Lemma patmask_ones : PATMASK = N.ones 26.
Proof. reflexivity. Qed.
Lemma patmask_comp_base n : N.testbit PATMASK (comp_base n) = N.testbit PATMASK n.
Proof.
  rewrite patmask_ones. unfold comp_base.
  destruct (N.eqb_spec n 0) as [->|]; [reflexivity|].
  destruct (N.eqb_spec n 19) as [->|]; [reflexivity|].
  destruct (N.eqb_spec n 2) as [->|]; [reflexivity|].
  destruct (N.eqb_spec n 6) as [->|]; reflexivity.
Qed.
Lemma comp_set_negate v : comp_set (negate v) = negate (comp_set v).
Proof.
  apply N.bits_inj. intros n. unfold negate.
  rewrite comp_set_bit, !N.land_spec, !N.lxor_spec, comp_set_bit, patmask_comp_base. reflexivity.
Qed.

Lemma dna_code_comp_letter L : is_upper L = true -> dna_code (comp_letter L) = comp_set (dna_code L).
Proof.
  intros HL. pose proof comp_table_consistent as H. unfold comp_table_ok in H. rewrite forallb_forall in H.
  pose proof (upper_bounds L HL) as HB.
  specialize (H (N.to_nat (L - 65))). cbv zeta in H. rewrite N2Nat.id in H.
  replace (65 + (L - 65))%N with L in H by lia. apply N.eqb_eq, H. apply in_seq. lia.
Qed.

Lemma bodyval_comp l : Forall (fun c => is_upper c = true) l -> bodyval (map comp_letter l) = comp_set (bodyval l).
Proof.
  induction 1 as [|c l Hc _ IH]; [reflexivity|]. cbn [map bodyval fold_right]. fold (bodyval (map comp_letter l)). fold (bodyval l).
  rewrite IH, comp_set_lor, dna_code_comp_letter by exact Hc. reflexivity.
Qed.

Lemma tok_sym_comp t : wf_tok t -> tok_sym (comp_tok t) = comp_sym (tok_sym t).
Proof.
  intros [_ [Hup _]]. unfold tok_sym, comp_sym, tok_val. cbn [comp_tok nb body hs fst snd]. f_equal.
  rewrite bodyval_comp by exact Hup. destruct (negn (nb t) false); [now rewrite comp_set_negate|reflexivity].
Qed.

(** ---------------- every accepted string of the documented grammar is a sequence of tokens ---------------- *)
Lemma check_indep c r p q lev : c <> ch_hash -> check_loop (c :: r) p lev = check_loop (c :: r) q lev.
Proof. intros H. apply N.eqb_neq in H. cbn [check_loop]. rewrite H. reflexivity. Qed.
Lemma hash_indep c r p q : c <> ch_hash -> hash_after_position p (c :: r) = hash_after_position q (c :: r).
Proof. intros H. apply N.eqb_neq in H. cbn [hash_after_position]. rewrite H. reflexivity. Qed.

Definition Acc (s : list N) : Prop := check_loop s 0%N false = true /\ hash_after_position 0%N s = true.

Lemma normalize Y p : nhh Y -> check_loop Y p false = true -> hash_after_position p Y = true -> Acc Y.
Proof.
  intros Hn H1 H2. destruct Y as [|c r]; [split; reflexivity|]. cbn [nhh] in Hn. split.
  - now rewrite (check_indep c r 0%N p).
  - now rewrite (hash_indep c r 0%N p).
Qed.

Lemma hash_hash_false r : hash_after_position ch_hash (ch_hash :: r) = false.
Proof. reflexivity. Qed.

(* the optional '#' after the letter or the class *)
Lemma hash_decomp Y q : (q =? ch_open)%N = false -> check_loop Y q false = true -> hash_after_position q Y = true ->
  exists (h : bool) rest, Y = (if h then [ch_hash] else []) ++ rest /\ Acc rest /\ length rest <= length Y.
Proof.
  intros Hq H1 H2. destruct Y as [|c r].
  - exists false, (@nil N). split; [reflexivity|]. split; [split; reflexivity|cbn; lia].
  - destruct (N.eqb_spec c ch_hash) as [->|Hc].
    + exists true, r. rewrite check_hash in H1 by exact Hq. cbn [hash_after_position] in H2. rewrite N.eqb_refl in H2.
      apply andb_true_iff in H2. destruct H2 as [_ H2]. split; [reflexivity|]. split; [|cbn; lia].
      apply (normalize r ch_hash); auto. destruct r as [|c' r']; [exact I|]. cbn [nhh]. intros ->. now rewrite hash_hash_false in H2.
    + exists false, (c :: r). split; [reflexivity|]. split; [|lia]. apply (normalize _ q); auto.
Qed.

Lemma class_decomp : forall r p, check_loop r p true = true -> hash_after_position p r = true ->
  exists l tail, r = l ++ ch_close :: tail /\ Forall (fun c => is_upper c = true) l /\
                 check_loop tail ch_close false = true /\ hash_after_position ch_close tail = true.
Proof.
  induction r as [|c r IH]; intros p H1 H2; [discriminate|].
  cbn [check_loop] in H1. cbn [hash_after_position] in H2.
  destruct (N.eqb_spec c ch_open); [discriminate|].
  destruct (N.eqb_spec c ch_close) as [->|].
  - exists [], r. cbn [app]. replace (ch_close =? ch_hash)%N with false in H2 by reflexivity. cbn [andb] in H2. repeat split; auto.
  - destruct (N.eqb_spec c ch_bang); [discriminate|]. destruct (N.eqb_spec c ch_hash); [discriminate|].
    destruct (is_upper c) eqn:Hc; [|discriminate]. cbn [andb] in H2.
    destruct (IH c H1 H2) as [l [tail [-> [Hl [H3 H4]]]]]. exists (c :: l), tail. repeat split; auto.
Qed.

(* the leading '!'s *)
Lemma bangs_decomp : forall s p, s <> [] -> nhh s -> check_loop s p false = true -> hash_after_position p s = true ->
  exists n c r, s = repeat ch_bang n ++ c :: r /\ (c = ch_open \/ is_upper c = true) /\ Acc (c :: r).
Proof.
  induction s as [|c r IH]; intros p Hne Hn H1 H2; [congruence|]. cbn [nhh] in Hn.
  destruct (N.eqb_spec c ch_bang) as [->|Hb].
  - cbn [check_loop] in H1. replace (ch_bang =? ch_open)%N with false in H1 by reflexivity.
    replace (ch_bang =? ch_close)%N with false in H1 by reflexivity. rewrite N.eqb_refl in H1. cbn [orb] in H1.
    destruct (match r with [] => 0%N | n :: _ => n end =? 0)%N eqn:E0; [discriminate|].
    destruct (match r with [] => 0%N | n :: _ => n end =? ch_close)%N eqn:E1; [discriminate|]. cbn [orb] in H1.
    cbn [hash_after_position] in H2. replace (ch_bang =? ch_hash)%N with false in H2 by reflexivity. cbn [andb] in H2.
    assert (Hr : r <> []) by (intros ->; discriminate).
    assert (Hnr : nhh r). { destruct r as [|c' r']; [exact I|]. cbn [nhh]. intros ->. discriminate. }
    destruct (IH ch_bang Hr Hnr H1 H2) as [n [c [r' [-> [Hc HA]]]]].
    exists (S n), c, r'. split; [reflexivity|split; assumption].
  - exists 0, c, r. split; [reflexivity|]. split; [|apply (normalize _ p); auto].
    cbn [check_loop] in H1.
    destruct (N.eqb_spec c ch_open) as [->|]; [now left|].
    destruct (N.eqb_spec c ch_close); [discriminate|].
    destruct (N.eqb_spec c ch_bang); [congruence|].
    destruct (N.eqb_spec c ch_hash); [congruence|].
    destruct (is_upper c); [now right|discriminate].
Qed.

Lemma tok_decomp s : s <> [] -> Acc s ->
  exists t rest, wf_tok t /\ s = render_tok t ++ rest /\ Acc rest /\ length rest < length s.
Proof.
  intros Hne [H1 H2].
  assert (Hn : nhh s). { destruct s as [|c r]; [exact I|]. cbn [nhh]. intros ->. discriminate. }
  destruct (bangs_decomp s 0%N Hne Hn H1 H2) as [n [c [r [-> [Hc [A1 A2]]]]]].
  destruct Hc as [->|Hc].
  - (* class *)
    cbn [check_loop] in A1. rewrite N.eqb_refl in A1. cbn [orb] in A1.
    destruct (match r with [] => 0%N | n :: _ => n end =? ch_close)%N eqn:E1; [discriminate|].
    cbn [hash_after_position] in A2. replace (ch_open =? ch_hash)%N with false in A2 by reflexivity. cbn [andb] in A2.
    destruct (class_decomp r ch_open A1 A2) as [l [tail [-> [Hl [H3 H4]]]]].
    assert (Hlne : l <> []) by (intros ->; cbn in E1; discriminate).
    destruct (hash_decomp tail ch_close eq_refl H3 H4) as [h [rest [-> [HA HL]]]].
    exists (mkTok n l true h), rest. split; [|split; [|split; [exact HA|]]].
    + split; [exact Hlne|]. split; [exact Hl|discriminate].
    + unfold render_tok, render_body, render_hash. cbn [nb body cls hs]. rewrite <- !app_assoc. cbn [app]. rewrite <- !app_assoc. reflexivity.
    + clear HL. cbn [length]. repeat (rewrite app_length; cbn [length]). lia.
  - (* a letter *)
    rewrite check_upper in A1 by exact Hc. cbn [hash_after_position] in A2.
    pose proof (upper_not_special c Hc) as (U1&_&_&U4&_). rewrite U4 in A2. cbn [andb] in A2.
    destruct (hash_decomp r c U1 A1 A2) as [h [rest [-> [HA HL]]]].
    exists (mkTok n [c] false h), rest. split; [|split; [|split; [exact HA|]]].
    + split; [discriminate|]. split; [now constructor|reflexivity].
    + unfold render_tok, render_body, render_hash. cbn [nb body cls hs]. rewrite <- !app_assoc. reflexivity.
    + clear HL. cbn [length]. repeat (rewrite app_length; cbn [length]). lia.
Qed.

Lemma toks_decomp : forall n s, length s <= n -> Acc s -> exists toks, Forall wf_tok toks /\ s = render toks.
Proof.
  induction n as [|n IH]; intros s Hl HA.
  - destruct s; [|cbn in Hl; lia]. exists []. split; [constructor|reflexivity].
  - destruct s as [|c r] eqn:E; [exists []; split; [constructor|reflexivity]|]. rewrite <- E in *.
    destruct (tok_decomp s ltac:(subst; discriminate) HA) as [t [rest [Hwf [-> [HA' HL]]]]].
    destruct (IH rest ltac:(lia) HA') as [toks [Hts ->]]. exists (t :: toks). split; [now constructor|reflexivity].
Qed.

(** ---------------- the theorem ---------------- *)
Theorem comp_string_correct : forall s P,
  hash_after_position 0 (map to_upper s) = true ->
  parse_pattern s = Some P ->
  parse_pattern (comp_string (map to_upper s)) = Some (comp_pattern P).
Proof.
  intros s P Hh Hp. set (s' := map to_upper s) in *.
  assert (Hc : check_pattern s' = true). { unfold parse_pattern in Hp. fold s' in Hp. destruct (check_pattern s'); [reflexivity|discriminate]. }
  assert (HA : Acc s').
  { split; [|exact Hh]. unfold check_pattern in Hc. destruct s' as [|c r]; [reflexivity|]. destruct (c =? ch_hash)%N; [discriminate|exact Hc]. }
  destruct (toks_decomp (length s') s' (le_n _) HA) as [toks [Hwf E]].
  assert (Hne : toks <> []).
  { intros ->. unfold parse_pattern in Hp. fold s' in Hp. rewrite E in Hp. cbn in Hp. discriminate. }
  assert (HP : P = map tok_sym toks).
  { unfold parse_pattern in Hp. fold s' in Hp. pose proof (parse_render toks Hwf Hne) as Hr. unfold parse_pattern in Hr.
    rewrite to_upper_render in Hr by exact Hwf. rewrite <- E in Hr. rewrite Hr in Hp. congruence. }
  rewrite E, comp_string_render by exact Hwf. rewrite parse_render.
  - f_equal. subst P. unfold comp_pattern. fold comp_sym. rewrite !map_map, <- map_rev.
    apply map_ext_in. intros t Ht. apply tok_sym_comp. rewrite Forall_forall in Hwf. apply Hwf. now apply in_rev.
  - apply Forall_map, Forall_rev. eapply Forall_impl; [|exact Hwf]. apply wf_comp_tok.
  - intros H0. apply map_eq_nil in H0. apply (f_equal (@rev tok)) in H0. rewrite rev_involutive in H0. now apply Hne.
Qed.
(* a string of IUPAC letters encodes letter by letter *)
Lemma parse_plain cs : cs <> [] -> forallb plain_letter cs = true -> parse_pattern cs = Some (plain_pat cs).
Proof.
  intros Hne Hcs. remember (map (fun L => mkTok 0 [L] false false) cs) as toks eqn:Et.
  assert (Hup : Forall (fun c => is_upper c = true) cs).
  { apply Forall_forall. intros L HL. rewrite forallb_forall in Hcs. specialize (Hcs L HL). unfold plain_letter in Hcs.
    apply andb_true_iff in Hcs. tauto. }
  assert (Hwf : Forall wf_tok toks).
  { subst toks. apply Forall_map. eapply Forall_impl; [|exact Hup]. intros L HL. unfold wf_tok. cbn [body cls].
    split; [discriminate|]. split; [now constructor|reflexivity]. }
  assert (Er : render toks = cs).
  { subst toks. clear. induction cs as [|L cs IH]; [reflexivity|]. cbn [map render flat_map]. fold (render (map (fun L => mkTok 0 [L] false false) cs)).
    rewrite IH. reflexivity. }
  assert (Es : map tok_sym toks = plain_pat cs).
  { subst toks. unfold plain_pat. rewrite map_map. apply map_ext. intros L. unfold tok_sym, tok_val. cbn [nb body hs negn bodyval fold_right].
    now rewrite N.lor_0_r. }
  rewrite <- Es. rewrite <- Er at 1. apply parse_render; [exact Hwf|]. subst toks. destruct cs; [congruence|discriminate].
Qed.

Lemma pattern_grammar s : check_pattern s = true -> hash_after_position 0 s = true -> map to_upper s = s ->
  exists toks, Forall wf_tok toks /\ s = render toks /\ (toks <> [] -> parse_pattern s = Some (map tok_sym toks)).
Proof.
  intros Hc Hh _. assert (HA : Acc s).
  { split; [|exact Hh]. unfold check_pattern in Hc. destruct s as [|c r]; [reflexivity|]. destruct (c =? ch_hash)%N; [discriminate|exact Hc]. }
  destruct (toks_decomp (length s) s (le_n _) HA) as [toks [Hwf E]]. exists toks. split; [exact Hwf|]. split; [exact E|].
  intros Hne. rewrite E. now apply parse_render.
Qed.
