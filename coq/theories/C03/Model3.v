(** C03, round 3 — executable model of the anchored code that the round-1/2 cases never executed
    (definitions only): workers that return errors and chained workers (obiseq/worker.go:
    SeqToSliceWorker, ChainWorkers), Count / Consume, the Pipeable glue, two Rebatch stages of the same
    size around a filter (PairTo | FilterOn / FilterAnd: paired obigrep), the accessors of batches and
    iterators, and the file-list loader of the commands (obiconvert.ExpandListOfFiles). *)
From Coq Require Import List Arith NArith Bool.
From OBI.Common Require Import Reseq.
From OBI.C03 Require Import Model.
Import ListNotations.

Section Workers.
Variable A : Type.

(** a SeqWorker (one record in, a slice of records and an error out): [None] = it returned an error *)
Definition eworker := A -> option (list A).
Definition lift (f : eworker) (x : A) : list A := match f x with Some l => l | None => [] end.
Definition werr (f : eworker) (x : A) : bool := match f x with None => true | Some _ => false end.

(** SeqToSliceWorker(worker, breakOnError = false): a nil worker is the identity on the slice; the outputs
    of the worker are appended record after record; a record on which the worker fails contributes
    nothing (a warning is logged). *)
Definition slice_worker (w : option eworker) (l : list A) : list A :=
  match w with None => l | Some f => flat_map (lift f) l end.
(** breakOnError = true: the first failing record aborts (MakeISliceWorker calls log.Fatalf) *)
Definition slice_fails (w : option eworker) (l : list A) : bool :=
  match w with None => false | Some f => existsb (werr f) l end.

(** worker.ChainWorkers(next): a nil worker gives the other one; otherwise [worker] is applied to the
    record and — unless it failed: the error is returned — SeqToSliceWorker(next, false) to its outputs:
    the failures of [next] are logged and dropped, they never reach the caller. *)
Definition chain (w1 w2 : option eworker) : option eworker :=
  match w1, w2 with
  | None, _ => w2
  | _, None => w1
  | Some f, Some g => Some (fun x => match f x with None => None | Some l => Some (flat_map (lift g) l) end)
  end.

(** SeqToSliceConditionalWorker(condition, worker, breakOnError): the worker on the records that satisfy the
    condition (a failure drops the record, or aborts), the other records unchanged at their place *)
Definition cond_eworker (c : A -> bool) (f : eworker) (x : A) : list A := if c x then lift f x else [x].
Definition cond_fails (c : A -> bool) (f : eworker) (l : list A) : bool := existsb (fun x => c x && werr f x) l.

(** MakeIWorker(w, false, n): every batch keeps its number, its slice goes through the slice worker
    (delivery order: any permutation, see [pstep]) *)
Definition eworker_map (w : option eworker) (h : list (nat * list A)) : list (nat * list A) :=
  map (on_items (slice_worker w)) h.

(** Count: (variants, reads, nucleotides) summed over every record of every batch, in arrival order *)
Definition count_of (cnt len : A -> nat) (h : list (nat * list A)) : nat * nat * nat :=
  let l := flatten h in (length l, list_sum (map cnt l), list_sum (map len l)).

(** two Rebatch stages of the same size around a filter: Rebatch(size) | FilterOn(p, size) *)
Definition rebatch_filter (p : A -> bool) (size : nat) (h : list (nat * list A)) : list (nat * list A) :=
  filteron p size (rebatch_loop size h).

(** paired obigrep: PairTo (both files through Rebatch(size)) | FilterOn / FilterAnd (workers, then
    Rebatch(size) again); [pp] tests a pair (forward record only, or both mates). [None] = log.Fatal. *)
Definition pairto_filter (pp : A * A -> bool) (size : nat) (h1 h2 : list (nat * list A)) : option (list (nat * list (A * A))) :=
  option_map (filteron pp size) (pairto size h1 h2).

End Workers.
Arguments lift {A}. Arguments werr {A}. Arguments slice_worker {A}. Arguments slice_fails {A}. Arguments chain {A}.
Arguments eworker_map {A}. Arguments cond_eworker {A}. Arguments cond_fails {A}. Arguments count_of {A}. Arguments rebatch_filter {A}. Arguments pairto_filter {A}.

(** ---- ExpandListOfFiles (obitools/obiconvert/sequence_reader.go).  The file system is the list of its
    entries in the order filepath.Walk visits them (pre-order, the names of a directory in lexical order =
    lexicographic order of the paths read as lists of names); a path is the list of its names.
    For every argument, in order: a path that does not exist is an error; a regular file is added —
    whatever its name when the extensions are not checked; a directory adds every regular file below it whose
    name has a sequence-file extension (the Go code calls itself on every sub-directory and then lets Walk
    descend into it again: the second visit adds nothing to an ordered SET).  The result is an ordered set:
    a path is kept at its first occurrence. *)
Definition fpath := list N.
Record entry := mke { e_path : fpath; e_dir : bool; e_ext : bool }.
Definition path_eqb : fpath -> fpath -> bool := list_eqb N.eqb.
Fixpoint is_prefix (a p : fpath) : bool :=
  match a, p with
  | [], _ => true
  | x :: a', y :: p' => N.eqb x y && is_prefix a' p'
  | _ :: _, [] => false
  end.
Definition lookup (fs : list entry) (a : fpath) : option entry := find (fun e => path_eqb (e_path e) a) fs.
Definition walk (fs : list entry) (a : fpath) : list fpath :=
  map e_path (filter (fun e => is_prefix a (e_path e) && negb (e_dir e) && e_ext e) fs).
Definition pmem (x : fpath) (l : list fpath) : bool := existsb (path_eqb x) l.
Definition add_all (acc l : list fpath) : list fpath :=
  fold_left (fun acc x => if pmem x acc then acc else acc ++ [x]) l acc.
(** one argument: the files it contributes and whether it is a directory; [None]: no such path *)
Definition expand_arg (chk : bool) (fs : list entry) (a : fpath) : option (list fpath * bool) :=
  match lookup fs a with
  | None => None
  | Some e => if e_dir e then Some (walk fs a, true)
              else Some (if negb chk || e_ext e then [a] else [], false)
  end.
(** what one argument contributes when the extensions of named files are not checked (nothing if it does not exist) *)
Definition contrib (fs : list entry) (a : fpath) : list fpath :=
  match expand_arg false fs a with Some (l, _) => l | None => [] end.
(** since the fix: the extension check concerns the content of the directories only *)
Fixpoint expand_from (fs : list entry) (acc : list fpath) (args : list fpath) : option (list fpath) :=
  match args with
  | [] => Some acc
  | a :: args' => match expand_arg false fs a with
                  | None => None
                  | Some (l, _) => expand_from fs (add_all acc l) args'
                  end
  end.
Definition expand (fs : list entry) (args : list fpath) : option (list fpath) := expand_from fs [] args.
(** the code before the fix: [check_ext], a parameter of the function captured by the Walk callback, was set
    when a directory argument was met and stayed set for the arguments that follow *)
Fixpoint expand_v0_from (chk : bool) (fs : list entry) (acc : list fpath) (args : list fpath) : option (list fpath) :=
  match args with
  | [] => Some acc
  | a :: args' => match expand_arg chk fs a with
                  | None => None
                  | Some (l, d) => expand_v0_from (chk || d) fs (add_all acc l) args'
                  end
  end.
Definition expand_v0 (fs : list entry) (args : list fpath) : option (list fpath) := expand_v0_from false fs [] args.

(** ------------------------------------------------------------------ correspondence cases of round 3 *)
Definition wE (m e r : N) : option (N -> option (list N)) :=
  Some (fun i => if N.ltb 0 e && N.eqb (N.modulo i e) r then None else Some (wfN m i)).
Definition cntN (i : N) : nat := S (N.to_nat (N.modulo i 3)).
Definition lenN (i : N) : nat := S (N.to_nat (N.modulo (7 * i) 61)).

Inductive opk3 := OCount | OConsume | OChain (errmod : N) (nilw : nat) (brk : bool) | OCondErr (errmod : N) (brk : bool) | OPipeParts | ORebatchFilter
                | OPairToFilter (both : bool) | OAccessors (paired : bool).
Record ccase3 := mkc3 { c3_op : opk3; c3_streams : list histN; c3_data : list N; c3_size : nat; c3_mod : N; c3_mod2 : N;
                        c3_kind : okind; c3_outs : list (nat * histN) }.

Definition chain_of (c : ccase3) (errmod : N) (nilw : nat) : option (N -> option (list N)) :=
  chain (if Nat.odd nilw then None else wE (c3_mod c) errmod 3)
        (if Nat.odd (Nat.div2 nilw) then None else wE (c3_mod2 c) errmod 4).
Definition b2N (b : bool) : N := if b then 1%N else 0%N.

Definition agrees3 (c : ccase3) : bool :=
  let h := nth 0 (c3_streams c) [] in
  let one (m : histN) := outs_eqb (c3_outs c) [(0, m)] in
  match c3_kind c with
  | KOk =>
    match c3_op c with
    | OCount => let '(v, r, n) := count_of cntN lenN h in one [(0, [N.of_nat v; N.of_nat r; N.of_nat n])]
    | OConsume => one []
    | OChain errmod nilw brk =>
        let w := chain_of c errmod nilw in
        negb (brk && slice_fails w (flatten h)) && one (sortb (eworker_map w h))
    | OCondErr errmod brk =>
        match wE (c3_mod c) errmod 3 with
        | Some f => negb (brk && cond_fails (predN (c3_mod2 c)) f (flatten h)) &&
                    one (sortb (wmap (cond_eworker (predN (c3_mod2 c)) f) h))
        | None => false
        end
    | OPipeParts => one (sortb (wmap (fun x => [x]) (wmap (wfN (c3_mod2 c)) (wmap (wfN (c3_mod c)) h))))
    | ORebatchFilter => one (rebatch_filter (predN (c3_mod c)) (c3_size c) h)
    | OPairToFilter both =>
        let pp := fun xy : N * N => predN (c3_mod c) (fst xy) && (negb both || predN (c3_mod c) (snd xy)) in
        match pairto_filter pp (c3_size c) h (nth 1 (c3_streams c) []) with
        | Some r => outs_eqb (c3_outs c) [(0, map (fun b => (fst b, map fst (snd b))) r); (1, map (fun b => (fst b, map snd (snd b))) r)]
        | None => false
        end
    | OAccessors paired =>
        let d := c3_data c in
        let ne := match d with [] => false | _ => true end in
        let s := N.of_nat (S (c3_size c)) in
        outs_eqb (c3_outs c)
          [(0, [(0, [b2N ne; b2N (paired && ne); 0; 0; 1; s; 0; s; 1; 0; match d with [] => 0 | x :: _ => x + 1 end; 1]%N)]);
           (1, []); (2, [(7, tl d)])]
    end
  | KFatal =>
    match c3_op c with
    | OChain errmod nilw brk => brk && slice_fails (chain_of c errmod nilw) (flatten (nth 0 (c3_streams c) []))
    | OCondErr errmod brk =>
        match wE (c3_mod c) errmod 3 with
        | Some f => brk && cond_fails (predN (c3_mod2 c)) f (flatten h)
        | None => false
        end
    | OPairToFilter _ => match pairto (c3_size c) h (nth 1 (c3_streams c) []) with None => true | Some _ => false end
    | _ => false
    end
  | _ => false
  end.

Fixpoint mismatches3_from (i : nat) (l : list ccase3) : list nat :=
  match l with
  | [] => []
  | c :: l' => let rest := mismatches3_from (S i) l' in if agrees3 c then rest else i :: rest
  end.
Definition mismatches3 := mismatches3_from 0.

(** expand: the tree (entries in Walk order), the arguments, the observed list ([None]: an error was returned) *)
Definition ecase := (list (fpath * bool * bool) * list fpath * option (list fpath))%type.
Definition agrees_e (c : ecase) : bool :=
  let '(t, args, obs) := c in
  let fs := map (fun x : fpath * bool * bool => mke (fst (fst x)) (snd (fst x)) (snd x)) t in
  match expand fs args, obs with
  | Some r, Some o => list_eqb path_eqb r o
  | None, None => true
  | _, _ => false
  end.
Fixpoint expand_mismatches_from (i : nat) (l : list ecase) : list nat :=
  match l with
  | [] => []
  | c :: l' => let rest := expand_mismatches_from (S i) l' in if agrees_e c then rest else i :: rest
  end.
Definition expand_mismatches := expand_mismatches_from 0.
