(** C03 — property theorems (statements only; every proof is [exact] of a lemma of Proofs.v).
    No record is lost, duplicated or reordered between reader and writer.

    Vocabulary (Model.v): a stream is its arrival history [h : list (nat * list A)] (batch number,
    records) in channel order. The hypothesis [Permutation h (numbered_from 0 bs)] says: the stream is
    the partition [bs] of its records into batches (ANY partition, empty batches included), numbered
    0,1,2,..., arriving in ANY order. [chunked size r l]: [r] cuts [l] into consecutive batches numbered
    0..m-1 in delivery order, none empty, all of [size] records except possibly the last. *)
From Coq Require Import List Arith NArith Bool Permutation.
From OBI.Common Require Import Reseq.
From OBI.C03 Require Import Model Proofs.
Import ListNotations.

(** SortBatches (= the proved resequencer of Common/Reseq) delivers the batches in numbering order. *)
Theorem C03_sortbatches : forall (A : Type) (bs : list (list A)) (h : list (nat * list A)),
  Permutation h (numbered_from 0 bs) -> sortb h = numbered_from 0 bs.
Proof. exact sortb_spec. Qed.

(** Rebatch: same records in the same order, batches of exactly [size] (the last 1..size), numbered 0..m-1. *)
Theorem C03_rebatch : forall (A : Type) size (bs : list (list A)) (h : list (nat * list A)),
  1 <= size -> Permutation h (numbered_from 0 bs) -> chunked size (rebatch size h) (concat bs).
Proof. exact rebatch_spec. Qed.

(** FilterEmpty: exactly the non-empty batches, in order, renumbered 0..m-1 (no record is lost). *)
Theorem C03_filterempty : forall (A : Type) (bs : list (list A)) (h : list (nat * list A)),
  Permutation h (numbered_from 0 bs) ->
  filterempty h = numbered_from 0 (filter (fun b => Nat.ltb 0 (length b)) bs).
Proof. exact filterempty_spec. Qed.
Theorem C03_filterempty_keeps_records : forall (A : Type) (bs : list (list A)),
  concat (filter (fun b => Nat.ltb 0 (length b)) bs) = concat bs.
Proof. exact concat_filter_nonempty. Qed.

(** FilterOn / FilterAnd: whatever the order [e] in which the n filter workers deliver the filtered
    batches (numbers kept), the output is [filter p] of the records, in order, in batches 0..m-1. *)
Theorem C03_filteron : forall (A : Type) (p : A -> bool) size (bs : list (list A)) (h e : list (nat * list A)),
  1 <= size -> Permutation h (numbered_from 0 bs) -> Permutation e (fmap p h) ->
  chunked size (rebatch size e) (filter p (concat bs)) /\ rebatch size e = filteron p size h.
Proof. exact filteron_spec. Qed.

(** DivideOn: the true stream is [filter p], the false stream [filter (negb p)] — every record in
    exactly one of them, order kept, both numbered 0..m-1. *)
Theorem C03_divideon : forall (A : Type) (p : A -> bool) size (bs : list (list A)) (h : list (nat * list A)),
  1 <= size -> Permutation h (numbered_from 0 bs) ->
  chunked size (fst (divideon p size h)) (filter p (concat bs)) /\
  chunked size (snd (divideon p size h)) (filter (fun x => negb (p x)) (concat bs)).
Proof. exact divideon_spec. Qed.

(** Distribute: one output stream per key that occurs (and only those, each once); the stream of key k
    is exactly the records of key k, in order, numbered 0..m-1. *)
Theorem C03_distribute : forall (A : Type) (code : A -> nat) size (bs : list (list A)) (h : list (nat * list A)),
  1 <= size -> Permutation h (numbered_from 0 bs) ->
  let d := distribute code size h in
  NoDup (map fst d) /\ (forall k, In k (map fst d) <-> In k (map code (concat bs))) /\
  (forall k r, In (k, r) d -> chunked size r (filter (fun x => Nat.eqb (code x) k) (concat bs))).
Proof. exact distribute_spec. Qed.

(** Concat (after the fix): for any streams (empty ones anywhere), each arriving in any order, the
    output numbers are a permutation of 0..n-1 and an ordered consumer gets "all of h0, then h1, ...". *)
Theorem C03_concat : forall (A : Type) (hs : list (list (nat * list A))) (bss : list (list (list A))),
  Forall2 (fun h bs => Permutation h (numbered_from 0 bs)) hs bss ->
  Permutation (concat_streams hs) (numbered_from 0 (concat bss)) /\
  sortb (concat_streams hs) = numbered_from 0 (concat bss) /\
  flatten (sortb (concat_streams hs)) = concat (concat bss).
Proof. exact concat_spec. Qed.

(** the code before commit "fix: Concat numbers its output from 0 ..." ([concat_v0]): an empty first
    stream makes the ordered consumer deliver nothing although there are records. *)
Theorem C03_concat_v0_refuted : exists (hs : list (list (nat * list nat))) (bss : list (list (list nat))),
  Forall2 (fun h bs => Permutation h (numbered_from 0 bs)) hs bss /\
  concat (concat bss) <> [] /\ sortb (concat_v0 hs) = [].
Proof. exact concat_v0_refuted. Qed.

(** Pool: whatever the interleaving [m] in which the batches of the inputs get their number and
    whatever the order [o] in which they are then delivered: numbers are a permutation of 0..n-1, the
    batch contents are those of the inputs, and an ordered consumer loses nothing. *)
Theorem C03_pool : forall (A : Type) (hs : list (list (nat * list A))) (m o : list (nat * list A)),
  Permutation m (concat hs) -> Permutation o (pool_number m) ->
  Permutation (map fst o) (seq 0 (length (concat hs))) /\
  Permutation (map snd o) (map snd (concat hs)) /\
  sortb o = numbered_from 0 (map snd m).
Proof. exact pool_spec. Qed.

(** Worker pool (MakeISliceWorker / MakeIWorker, n workers sharing the channel through Split):
    under EVERY schedule (any list of take/emit labels) a complete run emits a permutation of the
    mapped batches, each keeping the number of its source batch. *)
Theorem C03_worker_pool : forall (A : Type) (g : list A -> list A) n (h : list (nat * list A)) ls s,
  prun g (pinit n h) ls = Some s -> pidle s = true -> Permutation (p_emit s) (map (on_items g) h).
Proof. exact pool_any_schedule. Qed.
(** ... complete runs exist for every n >= 1, and a state that is not finished always has an enabled step *)
Theorem C03_worker_pool_run_exists : forall (A : Type) (g : list A -> list A) n (h e : list (nat * list A)),
  prun g (mkp h (repeat None (S n)) e) (seq_schedule (length h)) = Some (mkp [] (repeat None (S n)) (e ++ map (on_items g) h)).
Proof. exact seq_schedule_run. Qed.
Theorem C03_worker_pool_progress : forall (A : Type) (g : list A -> list A) (s : pstate A),
  1 <= length (p_infl s) -> pidle s = false -> exists l s', pstep g s l = Some s'.
Proof. exact pool_progress. Qed.
(** ... hence, re-sequenced, the output of the pool is the mapped stream in input order *)
Theorem C03_worker_pool_sorted : forall (A : Type) (f : A -> list A) (bs : list (list A)) (h e : list (nat * list A)),
  Permutation h (numbered_from 0 bs) -> Permutation e (wmap f h) ->
  sortb e = numbered_from 0 (map (flat_map f) bs) /\ flatten (sortb e) = flat_map f (concat bs).
Proof. exact worker_pool_sorted. Qed.

(** IBatchOver: the slice cut in consecutive batches of [size], numbered 0..m-1 (empty slice: no batch). *)
Theorem C03_batchover : forall (A : Type) size (data : list A), 1 <= size -> chunked size (ibatchover size data) data.
Proof. exact ibatchover_spec. Qed.

(** Pipeline of the commands: reader -> worker pool f -> FilterOn p (filter workers + Rebatch) ->
    resequencer of the writer: for every partition, arrival order, and schedules of both pools, the
    writer receives exactly [filter p (flat_map f records)] in input order, in batches 0..m-1. *)
Theorem C03_pipeline : forall (A : Type) (f : A -> list A) (p : A -> bool) size (bs : list (list A)) (h e1 e2 : list (nat * list A)),
  1 <= size -> Permutation h (numbered_from 0 bs) ->
  Permutation e1 (wmap f h) -> Permutation e2 (fmap p e1) ->
  chunked size (sortb (rebatch size e2)) (filter p (flat_map f (concat bs))) /\
  sortb (rebatch size e2) = pipeline f p size h.
Proof. exact pipeline_spec. Qed.

(** what SortBatches does when the numbering has a GAP (no batch numbered k ever arrives): only batches
    numbered below k are delivered — everything above the gap is silently dropped at the end of the
    input. This is the loss mechanism that the numbering theorems of the producers exclude. *)
Theorem C03_sortbatches_gap : forall (A : Type) k (h : list (nat * list A)),
  ~ In k (map fst h) -> Forall (fun b : nat * list A => fst b < k) (sortb h).
Proof. exact sortb_gap. Qed.

(** ReadSequencesBatchFromFiles, ordered mode (after the fix): whatever the order in which the parser
    workers of each file deliver its batches, the output is file after file, each in its own order,
    numbered 0..n-1. Before the fix ([readfiles_v0]) an out-of-order arrival reordered the records. *)
Theorem C03_readfiles : forall (A : Type) (hs : list (list (nat * list A))) (bss : list (list (list A))),
  Forall2 (fun h bs => Permutation h (numbered_from 0 bs)) hs bss ->
  readfiles hs = numbered_from 0 (concat bss) /\ flatten (readfiles hs) = concat (concat bss).
Proof. exact readfiles_spec. Qed.
Theorem C03_readfiles_v0_refuted : exists (hs : list (list (nat * list nat))) (bss : list (list (list nat))),
  Forall2 (fun h bs => Permutation h (numbered_from 0 bs)) hs bss /\
  flatten (sortb (readfiles_v0 hs)) <> concat (concat bss).
Proof. exact readfiles_v0_refuted. Qed.

(** Termination protocol (Add before spawning, Done after the last push, one closer in WaitAndClose) —
    PARTIAL: Go's channel / WaitGroup semantics are the primitives of the transition system [tstep];
    absence of deadlock of the real program is observed by the harness (deadline), not proved.
    Full statement wanted: every execution of every combinator closes each output exactly once after
    its last push. Proved: on every run of the protocol for any number of producers and pushes
    (1) no push on a closed channel / negative counter is possible, and a closed channel has received
    every push; (2) while not closed some step is enabled; (3) every step consumes one unit of a
    measure, so every run is finite and a run that cannot be extended has closed the channel. *)
Theorem C03_termination_safety_partial : forall pushes ls s, trun (tinit pushes) ls = Some s ->
  tpanic s = false /\ (t_closed s = true -> t_pushed s = list_sum pushes /\ alive (t_prod s) = 0).
Proof. exact termination_safety. Qed.
Theorem C03_termination_progress_partial : forall pushes ls s, trun (tinit pushes) ls = Some s -> t_closed s = false ->
  exists l s', tstep s l = Some s'.
Proof. exact termination_progress. Qed.
Theorem C03_termination_bounded_partial : forall pushes ls s, trun (tinit pushes) ls = Some s ->
  length ls + tmeasure s = list_sum pushes + length pushes + 1.
Proof. exact termination_bounded. Qed.
(** the CopyTee defect (before the fix) in this model: Add(1) and nobody to call Done — no step is enabled, never closed *)
Theorem C03_copytee_v0_stuck : forall l, tstep (mkt 1 [] 0 false) l = None.
Proof. exact termination_copytee_v0_stuck. Qed.

(** PairTo on well formed pairs (both files hold the same number of records): whatever the two
    partitions into batches and the two arrival orders, the k-th forward record is paired with the
    k-th reverse record, nothing is lost, batches numbered 0..m-1. (Ill-formed pairs: a shorter
    reverse file is fatal — witness below; a longer one is silently truncated: transcribed in
    [pair_loop], outside the property.) *)
Theorem C03_pairto : forall (A : Type) size (bs1 bs2 : list (list A)) (h1 h2 : list (nat * list A)),
  1 <= size -> Permutation h1 (numbered_from 0 bs1) -> Permutation h2 (numbered_from 0 bs2) ->
  length (concat bs1) = length (concat bs2) ->
  exists r, pairto size h1 h2 = Some r /\
            concat (map snd r) = combine (concat bs1) (concat bs2) /\ map fst r = seq 0 (length r).
Proof. exact pairto_spec. Qed.
Theorem C03_pairto_short_reverse_fatal : pairto 2 [(0, [1; 2; 3])] [(0, [11; 12])] = None.
Proof. exact pairto_short_reverse_fatal. Qed.

(** [rebatch] (record by record) is the loop of batchiterator.go (copy by runs of min(remaining, free
    space)) — for every history, no numbering hypothesis needed. *)
Theorem C03_rebatch_loop_equiv : forall (A : Type) size (h : list (nat * list A)),
  1 <= size -> rebatch_loop size h = rebatch size h.
Proof. exact rebatch_loop_equiv. Qed.

(** IFragments, one record: the first [step = len - overlap] symbols of every fragment but the last,
    followed by the whole last fragment, rebuild the sequence; every fragment but the last has [len]
    symbols; a sequence not longer than [minsize] passes unchanged. *)
Theorem C03_fragments_record : forall (B : Type) minsize len overlap (s : list B), overlap < len ->
  let step := len - overlap in let fs := fragments_of minsize len overlap s in
  concat (map (firstn step) (removelast fs)) ++ last fs [] = s /\
  (minsize < length s -> Forall (fun f => length f = len) (removelast fs)) /\
  (length s <= minsize -> fs = [s]).
Proof. exact fragments_of_spec. Qed.
(** IFragments, the stream: whatever the schedule [e] of the fragmenting workers, the output is the
    fragments of the records in input order, in batches 0..m-1. *)
Theorem C03_fragments : forall (B : Type) minsize len overlap size (bs : list (list (list B))) (h e : list (nat * list (list B))),
  1 <= size -> Permutation h (numbered_from 0 bs) -> Permutation e (wmap (fragments_of minsize len overlap) h) ->
  chunked size (rebatch size e) (flat_map (fragments_of minsize len overlap) (concat bs)) /\
  rebatch size e = ifragments minsize len overlap size h.
Proof. exact ifragments_spec. Qed.

(** IMergeSequenceBatch: one merged record per input batch, in arrival order, in batches 0..m-1. *)
Theorem C03_imerge : forall (A : Type) (rep : list A -> A) size (h : list (nat * list A)), 1 <= size ->
  chunked size (imerge rep size h) (map (fun b => rep (snd b)) h).
Proof. exact imerge_spec. Qed.

(** the hypotheses are satisfiable by a non-trivial history (empty batch, out-of-order arrival) *)
Example C03_hyp_nonvacuous :
  Permutation [(2, [5; 6]); (0, [1]); (1, [])] (numbered_from 0 [[1]; []; [5; 6]]) /\
  rebatch 2 [(2, [5; 6]); (0, [1]); (1, [])] = [(0, [1; 5]); (1, [6])] /\
  (exists s, prun (fun l => l) (pinit 2 [(2, [5; 6]); (0, [1]); (1, [])]) [Take 1; Take 0; Emit 0; Take 0; Emit 1; Emit 0] = Some s /\ pidle s = true).
Proof.
  split; [unfold numbered_from; simpl; eapply perm_trans; [apply perm_swap|apply perm_skip; apply perm_swap]|].
  split; [vm_compute; reflexivity|]. eexists. split; [vm_compute; reflexivity|reflexivity].
Qed.

Print Assumptions C03_sortbatches.
Print Assumptions C03_rebatch.
Print Assumptions C03_filterempty.
Print Assumptions C03_filterempty_keeps_records.
Print Assumptions C03_filteron.
Print Assumptions C03_divideon.
Print Assumptions C03_distribute.
Print Assumptions C03_concat.
Print Assumptions C03_concat_v0_refuted.
Print Assumptions C03_pool.
Print Assumptions C03_worker_pool.
Print Assumptions C03_worker_pool_run_exists.
Print Assumptions C03_worker_pool_progress.
Print Assumptions C03_worker_pool_sorted.
Print Assumptions C03_batchover.
Print Assumptions C03_pipeline.
Print Assumptions C03_sortbatches_gap.
Print Assumptions C03_readfiles.
Print Assumptions C03_readfiles_v0_refuted.
Print Assumptions C03_termination_safety_partial.
Print Assumptions C03_termination_progress_partial.
Print Assumptions C03_termination_bounded_partial.
Print Assumptions C03_copytee_v0_stuck.
Print Assumptions C03_pairto.
Print Assumptions C03_pairto_short_reverse_fatal.
Print Assumptions C03_rebatch_loop_equiv.
Print Assumptions C03_fragments_record.
Print Assumptions C03_fragments.
Print Assumptions C03_imerge.
