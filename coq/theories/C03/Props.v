(** C03 — property theorems (statements only; every proof is [exact] of a lemma of Proofs.v).
    No record is lost, duplicated or reordered between reader and writer.

    Vocabulary (Model.v): a stream is its arrival history [h : list (nat * list A)] (batch number,
    records) in channel order. The hypothesis [Permutation h (numbered_from 0 bs)] says: the stream is
    the partition [bs] of its records into batches (ANY partition, empty batches included), numbered
    0,1,2,..., arriving in ANY order. [chunked size r l]: [r] cuts [l] into consecutive batches numbered
    0..m-1 in delivery order, none empty, all of [size] records except possibly the last. *)
From Coq Require Import List Arith NArith Bool Permutation.
From OBI.Common Require Import Reseq.
From OBI.C03 Require Import Model Proofs Model3 Proofs3.
Import ListNotations.

(** SortBatches (= the proved resequencer of Common/Reseq) delivers the batches in numbering order. *)
Theorem C03_sortbatches : forall (A : Type) (bs : list (list A)) (h : list (nat * list A)),
  Permutation h (numbered_from 0 bs) -> sortb h = numbered_from 0 bs.
Proof. exact sortb_spec. Qed.

(** Rebatch: same records in the same order, batches of exactly [size] (the last 1..size), numbered 0..m-1. *)
Theorem C03_rebatch : forall (A : Type) size (bs : list (list A)) (h : list (nat * list A)),
  1 <= size -> Permutation h (numbered_from 0 bs) -> chunked size (rebatch size h) (concat bs).
Proof. exact rebatch_spec. Qed.

(** FilterEmpty: exactly the non-empty batches, in order, renumbered 0..m-1 (no record is lost). *)
Theorem C03_filterempty : forall (A : Type) (bs : list (list A)) (h : list (nat * list A)),
  Permutation h (numbered_from 0 bs) ->
  filterempty h = numbered_from 0 (filter (fun b => Nat.ltb 0 (length b)) bs).
Proof. exact filterempty_spec. Qed.
Theorem C03_filterempty_keeps_records : forall (A : Type) (bs : list (list A)),
  concat (filter (fun b => Nat.ltb 0 (length b)) bs) = concat bs.
Proof. exact concat_filter_nonempty. Qed.

(** FilterOn / FilterAnd: whatever the order [e] in which the n filter workers deliver the filtered
    batches (numbers kept), the output is [filter p] of the records, in order, in batches 0..m-1. *)
Theorem C03_filteron : forall (A : Type) (p : A -> bool) size (bs : list (list A)) (h e : list (nat * list A)),
  1 <= size -> Permutation h (numbered_from 0 bs) -> Permutation e (fmap p h) ->
  chunked size (rebatch size e) (filter p (concat bs)) /\ rebatch size e = filteron p size h.
Proof. exact filteron_spec. Qed.

(** DivideOn: the true stream is [filter p], the false stream [filter (negb p)] — every record in
    exactly one of them, order kept, both numbered 0..m-1. *)
Theorem C03_divideon : forall (A : Type) (p : A -> bool) size (bs : list (list A)) (h : list (nat * list A)),
  1 <= size -> Permutation h (numbered_from 0 bs) ->
  chunked size (fst (divideon p size h)) (filter p (concat bs)) /\
  chunked size (snd (divideon p size h)) (filter (fun x => negb (p x)) (concat bs)).
Proof. exact divideon_spec. Qed.

(** Distribute: one output stream per key that occurs (and only those, each once); the stream of key k
    is exactly the records of key k, in order, numbered 0..m-1. *)
Theorem C03_distribute : forall (A : Type) (code : A -> nat) size (bs : list (list A)) (h : list (nat * list A)),
  1 <= size -> Permutation h (numbered_from 0 bs) ->
  let d := distribute code size h in
  NoDup (map fst d) /\ (forall k, In k (map fst d) <-> In k (map code (concat bs))) /\
  (forall k r, In (k, r) d -> chunked size r (filter (fun x => Nat.eqb (code x) k) (concat bs))).
Proof. exact distribute_spec. Qed.

(** Concat (after the fix): for any streams (empty ones anywhere), each arriving in any order, the
    output numbers are a permutation of 0..n-1 and an ordered consumer gets "all of h0, then h1, ...". *)
Theorem C03_concat : forall (A : Type) (hs : list (list (nat * list A))) (bss : list (list (list A))),
  Forall2 (fun h bs => Permutation h (numbered_from 0 bs)) hs bss ->
  Permutation (concat_streams hs) (numbered_from 0 (concat bss)) /\
  sortb (concat_streams hs) = numbered_from 0 (concat bss) /\
  flatten (sortb (concat_streams hs)) = concat (concat bss).
Proof. exact concat_spec. Qed.

(** the code before commit "fix: Concat numbers its output from 0 ..." ([concat_v0]): an empty first
    stream makes the ordered consumer deliver nothing although there are records. *)
Theorem C03_concat_v0_refuted : exists (hs : list (list (nat * list nat))) (bss : list (list (list nat))),
  Forall2 (fun h bs => Permutation h (numbered_from 0 bs)) hs bss /\
  concat (concat bss) <> [] /\ sortb (concat_v0 hs) = [].
Proof. exact concat_v0_refuted. Qed.

(** Pool: whatever the interleaving [m] in which the batches of the inputs get their number and
    whatever the order [o] in which they are then delivered: numbers are a permutation of 0..n-1, the
    batch contents are those of the inputs, and an ordered consumer loses nothing. *)
Theorem C03_pool : forall (A : Type) (hs : list (list (nat * list A))) (m o : list (nat * list A)),
  Permutation m (concat hs) -> Permutation o (pool_number m) ->
  Permutation (map fst o) (seq 0 (length (concat hs))) /\
  Permutation (map snd o) (map snd (concat hs)) /\
  sortb o = numbered_from 0 (map snd m).
Proof. exact pool_spec. Qed.

(** Worker pool (MakeISliceWorker / MakeIWorker, n workers sharing the channel through Split):
    under EVERY schedule (any list of take/emit labels) a complete run emits a permutation of the
    mapped batches, each keeping the number of its source batch. *)
Theorem C03_worker_pool : forall (A : Type) (g : list A -> list A) n (h : list (nat * list A)) ls s,
  prun g (pinit n h) ls = Some s -> pidle s = true -> Permutation (p_emit s) (map (on_items g) h).
Proof. exact pool_any_schedule. Qed.
(** ... complete runs exist for every n >= 1, and a state that is not finished always has an enabled step *)
Theorem C03_worker_pool_run_exists : forall (A : Type) (g : list A -> list A) n (h e : list (nat * list A)),
  prun g (mkp h (repeat None (S n)) e) (seq_schedule (length h)) = Some (mkp [] (repeat None (S n)) (e ++ map (on_items g) h)).
Proof. exact seq_schedule_run. Qed.
Theorem C03_worker_pool_progress : forall (A : Type) (g : list A -> list A) (s : pstate A),
  1 <= length (p_infl s) -> pidle s = false -> exists l s', pstep g s l = Some s'.
Proof. exact pool_progress. Qed.
(** ... hence, re-sequenced, the output of the pool is the mapped stream in input order *)
Theorem C03_worker_pool_sorted : forall (A : Type) (f : A -> list A) (bs : list (list A)) (h e : list (nat * list A)),
  Permutation h (numbered_from 0 bs) -> Permutation e (wmap f h) ->
  sortb e = numbered_from 0 (map (flat_map f) bs) /\ flatten (sortb e) = flat_map f (concat bs).
Proof. exact worker_pool_sorted. Qed.

(** IBatchOver: the slice cut in consecutive batches of [size], numbered 0..m-1 (empty slice: no batch). *)
Theorem C03_batchover : forall (A : Type) size (data : list A), 1 <= size -> chunked size (ibatchover size data) data.
Proof. exact ibatchover_spec. Qed.

(** Pipeline of the commands: reader -> worker pool f -> FilterOn p (filter workers + Rebatch) ->
    resequencer of the writer: for every partition, arrival order, and schedules of both pools, the
    writer receives exactly [filter p (flat_map f records)] in input order, in batches 0..m-1. *)
Theorem C03_pipeline : forall (A : Type) (f : A -> list A) (p : A -> bool) size (bs : list (list A)) (h e1 e2 : list (nat * list A)),
  1 <= size -> Permutation h (numbered_from 0 bs) ->
  Permutation e1 (wmap f h) -> Permutation e2 (fmap p e1) ->
  chunked size (sortb (rebatch size e2)) (filter p (flat_map f (concat bs))) /\
  sortb (rebatch size e2) = pipeline f p size h.
Proof. exact pipeline_spec. Qed.

(** what SortBatches does when the numbering has a GAP (no batch numbered k ever arrives): only batches
    numbered below k are delivered — everything above the gap is silently dropped at the end of the
    input. This is the loss mechanism that the numbering theorems of the producers exclude. *)
Theorem C03_sortbatches_gap : forall (A : Type) k (h : list (nat * list A)),
  ~ In k (map fst h) -> Forall (fun b : nat * list A => fst b < k) (sortb h).
Proof. exact sortb_gap. Qed.

(** ReadSequencesBatchFromFiles, ordered mode (after the fix): whatever the order in which the parser
    workers of each file deliver its batches, the output is file after file, each in its own order,
    numbered 0..n-1. Before the fix ([readfiles_v0]) an out-of-order arrival reordered the records. *)
Theorem C03_readfiles : forall (A : Type) (hs : list (list (nat * list A))) (bss : list (list (list A))),
  Forall2 (fun h bs => Permutation h (numbered_from 0 bs)) hs bss ->
  readfiles hs = numbered_from 0 (concat bss) /\ flatten (readfiles hs) = concat (concat bss).
Proof. exact readfiles_spec. Qed.
Theorem C03_readfiles_v0_refuted : exists (hs : list (list (nat * list nat))) (bss : list (list (list nat))),
  Forall2 (fun h bs => Permutation h (numbered_from 0 bs)) hs bss /\
  flatten (sortb (readfiles_v0 hs)) <> concat (concat bss).
Proof. exact readfiles_v0_refuted. Qed.

(** Termination protocol (Add before spawning, Done after the last push, one closer in WaitAndClose) —
    PARTIAL: Go's channel / WaitGroup semantics are the primitives of the transition system [tstep];
    absence of deadlock of the real program is observed by the harness (deadline), not proved.
    Full statement wanted: every execution of every combinator closes each output exactly once after
    its last push. Proved: on every run of the protocol for any number of producers and pushes
    (1) no push on a closed channel / negative counter is possible, and a closed channel has received
    every push; (2) while not closed some step is enabled; (3) every step consumes one unit of a
    measure, so every run is finite and a run that cannot be extended has closed the channel. *)
Theorem C03_termination_safety_partial : forall pushes ls s, trun (tinit pushes) ls = Some s ->
  tpanic s = false /\ (t_closed s = true -> t_pushed s = list_sum pushes /\ alive (t_prod s) = 0).
Proof. exact termination_safety. Qed.
Theorem C03_termination_progress_partial : forall pushes ls s, trun (tinit pushes) ls = Some s -> t_closed s = false ->
  exists l s', tstep s l = Some s'.
Proof. exact termination_progress. Qed.
Theorem C03_termination_bounded_partial : forall pushes ls s, trun (tinit pushes) ls = Some s ->
  length ls + tmeasure s = list_sum pushes + length pushes + 1.
Proof. exact termination_bounded. Qed.
(** the CopyTee defect (before the fix) in this model: Add(1) and nobody to call Done — no step is enabled, never closed *)
Theorem C03_copytee_v0_stuck : forall l, tstep (mkt 1 [] 0 false) l = None.
Proof. exact termination_copytee_v0_stuck. Qed.

(** PairTo on well formed pairs (both files hold the same number of records): whatever the two
    partitions into batches and the two arrival orders, the k-th forward record is paired with the
    k-th reverse record, nothing is lost, batches numbered 0..m-1. (Ill-formed pairs: a shorter
    reverse file is fatal — witness below; a longer one is silently truncated: transcribed in
    [pair_loop], outside the property.) *)
Theorem C03_pairto : forall (A : Type) size (bs1 bs2 : list (list A)) (h1 h2 : list (nat * list A)),
  1 <= size -> Permutation h1 (numbered_from 0 bs1) -> Permutation h2 (numbered_from 0 bs2) ->
  length (concat bs1) = length (concat bs2) ->
  exists r, pairto size h1 h2 = Some r /\
            concat (map snd r) = combine (concat bs1) (concat bs2) /\ map fst r = seq 0 (length r).
Proof. exact pairto_spec. Qed.
Theorem C03_pairto_short_reverse_fatal : pairto 2 [(0, [1; 2; 3])] [(0, [11; 12])] = None.
Proof. exact pairto_short_reverse_fatal. Qed.

(** [rebatch] (record by record) is the loop of batchiterator.go (copy by runs of min(remaining, free
    space)) — for every history, no numbering hypothesis needed. *)
Theorem C03_rebatch_loop_equiv : forall (A : Type) size (h : list (nat * list A)),
  1 <= size -> rebatch_loop size h = rebatch size h.
Proof. exact rebatch_loop_equiv. Qed.

(** IFragments, one record: the first [step = len - overlap] symbols of every fragment but the last,
    followed by the whole last fragment, rebuild the sequence; every fragment but the last has [len]
    symbols; a sequence not longer than [minsize] passes unchanged. *)
Theorem C03_fragments_record : forall (B : Type) minsize len overlap (s : list B), overlap < len ->
  let step := len - overlap in let fs := fragments_of minsize len overlap s in
  concat (map (firstn step) (removelast fs)) ++ last fs [] = s /\
  (minsize < length s -> Forall (fun f => length f = len) (removelast fs)) /\
  (length s <= minsize -> fs = [s]).
Proof. exact fragments_of_spec. Qed.
(** IFragments, the stream: whatever the schedule [e] of the fragmenting workers, the output is the
    fragments of the records in input order, in batches 0..m-1. *)
Theorem C03_fragments : forall (B : Type) minsize len overlap size (bs : list (list (list B))) (h e : list (nat * list (list B))),
  1 <= size -> Permutation h (numbered_from 0 bs) -> Permutation e (wmap (fragments_of minsize len overlap) h) ->
  chunked size (rebatch size e) (flat_map (fragments_of minsize len overlap) (concat bs)) /\
  rebatch size e = ifragments minsize len overlap size h.
Proof. exact ifragments_spec. Qed.

(** IMergeSequenceBatch: one merged record per input batch, in arrival order, in batches 0..m-1. *)
Theorem C03_imerge : forall (A : Type) (rep : list A -> A) size (h : list (nat * list A)), 1 <= size ->
  chunked size (imerge rep size h) (map (fun b => rep (snd b)) h).
Proof. exact imerge_spec. Qed.

(** ================================================================== round 2 *)

(** Split used directly: n consumers read the same channel; whatever consumer [assign k] the scheduler gives
    the k-th batch to, every batch (hence every record) is received exactly once over all consumers. *)
Theorem C03_split : forall (A : Type) n (h : list (nat * list A)) assign,
  length assign = length h -> Forall (fun j => j < n) assign ->
  Permutation (concat (map (split_recv h assign) (seq 0 n))) h.
Proof. exact split_spec. Qed.
Theorem C03_split_records : forall (A : Type) n (h : list (nat * list A)) assign,
  length assign = length h -> Forall (fun j => j < n) assign ->
  Permutation (concat (map (fun i => flatten (split_recv h assign i)) (seq 0 n))) (flatten h).
Proof. exact split_records. Qed.

(** Load / CompleteFileIterator (Load sorts the collected batches by number, stable): for every partition and EVERY
    arrival order, with or without a SortBatches in front, all the records in input order, as ONE batch numbered 0
    (no batch for no record). [C03_load_v0_refuted]: the code before the fix of Load (arrival order). *)
Theorem C03_completefile : forall (A : Type) (bs : list (list A)) (h : list (nat * list A)),
  Permutation h (numbered_from 0 bs) ->
  load h = concat bs /\
  completefile h = match concat bs with [] => [] | l => [(0, l)] end /\
  load (sortb h) = concat bs.
Proof. exact completefile_spec. Qed.
Theorem C03_load_v0_refuted : exists (bs : list (list nat)) (h : list (nat * list nat)),
  Permutation h (numbered_from 0 bs) /\ load_v0 h <> concat bs.
Proof. exact load_v0_refuted. Qed.

(** MakeIConditionalWorker under any schedule [e] of its workers: re-sequenced, the output is, in input order, the
    worker applied to the records that satisfy the condition and the other records unchanged (after the fix of
    SeqToSliceConditionalWorker; before it, [cond_worker_v0], they were dropped); no unselected record is lost. *)
Theorem C03_conditional_worker : forall (A : Type) (c : A -> bool) (f : A -> list A) (bs : list (list A)) (h e : list (nat * list A)),
  Permutation h (numbered_from 0 bs) -> Permutation e (wmap (cond_worker c f) h) ->
  sortb e = numbered_from 0 (map (flat_map (cond_worker c f)) bs) /\
  flatten (sortb e) = flat_map (cond_worker c f) (concat bs) /\
  (forall x, c x = true -> cond_worker c f x = f x) /\ (forall x, c x = false -> cond_worker c f x = [x]).
Proof. exact cond_worker_sorted. Qed.
Theorem C03_conditional_worker_keeps_unselected : forall (A : Type) (c : A -> bool) (f : A -> list A) (l : list A),
  incl (filter (fun x => negb (c x)) l) (flat_map (cond_worker c f) l).
Proof. exact cond_worker_keeps_unselected. Qed.

(** paired streams: PairedWith keeps numbers and order; FilterAnd on a paired stream keeps exactly the pairs whose
    two mates satisfy the predicate, in order, in batches 0..m-1, and the stream of mates is the mates of the
    stream of records (pairs stay together) — whatever the schedule [e] of the filter workers. *)
Theorem C03_pairedwith : forall (A : Type) (mate : A -> A) (r : list (nat * list A)),
  map fst (pairedwith mate r) = map fst r /\ flatten (pairedwith mate r) = map mate (flatten r).
Proof. exact pairedwith_spec. Qed.
Theorem C03_filterand_paired : forall (A : Type) (mate : A -> A) (p : A -> bool) size (bs : list (list A)) (h e : list (nat * list A)),
  1 <= size -> Permutation h (numbered_from 0 bs) -> Permutation e (fmap (fun x => p x && p (mate x)) h) ->
  chunked size (rebatch size e) (filter (fun x => p x && p (mate x)) (concat bs)) /\
  rebatch size e = filterand_paired mate p size h /\
  flatten (pairedwith mate (rebatch size e)) = map mate (filter (fun x => p x && p (mate x)) (concat bs)).
Proof. exact filterand_paired_spec. Qed.

(** Distribute followed by an order-sensitive consumer on every output (dispatcher path of obidistribute):
    one stream per key, exactly the records of that key, in order, in batches 0..m-1 of [size2]. *)
Theorem C03_distribute_rebatch : forall (A : Type) (code : A -> nat) size size2 (bs : list (list A)) (h : list (nat * list A)),
  1 <= size -> 1 <= size2 -> Permutation h (numbered_from 0 bs) ->
  let d := distribute_rebatch code size size2 h in
  NoDup (map fst d) /\ (forall k, In k (map fst d) <-> In k (map code (concat bs))) /\
  (forall k r, In (k, r) d -> chunked size2 r (filter (fun x => Nat.eqb (code x) k) (concat bs))).
Proof. exact distribute_rebatch_spec. Qed.

(** ---- Termination protocol, round 2: goroutines as processes over Go's primitives ([gact_step]: send on a
    closed channel / double close / negative counter panic, Wait blocks while the counter is positive, a receiver
    sees the end only after the close).  For EVERY well-formed instance (any number of groups, iterators,
    producers, closers, Split consumers; [wf_cfg]) and EVERY schedule [ls]:
    (safety) no panic is ever possible; (closed after the last push, once) when an iterator is closed no goroutine has
    a push or a second close of it left; (progress) while some goroutine is unfinished some goroutine can move — no
    deadlock; (bounded) every step consumes one unit of the programs; hence (maximal run) a run that cannot be
    extended has closed every iterator, delivered every push and released every counter, and every Split consumer has
    observed the end.  What stays assumed: [gact_step] is Go's semantics; the receive side of an unbuffered channel is
    abstracted (a push never blocks: some consumer is alive until the close); a goroutine that consumes one iterator to
    feed another is split in a consumer and a producer (the composition of stages is acyclic by construction). *)
Theorem C03_protocol_safety : forall guard iters procs, wf_cfg guard iters procs = true ->
  forall ls c, crun (cinit procs) ls = Some c -> can_panic c = false.
Proof. exact proto_safety. Qed.
Theorem C03_protocol_closed_after_last_push : forall guard iters procs, wf_cfg guard iters procs = true ->
  forall ls c, crun (cinit procs) ls = Some c -> forall it, g_closed (fst c) it = true ->
    (forall p, In p (snd c) -> ~ In it (proc_pushes p)) /\ ~ In it (concat (map proc_closes (snd c))).
Proof. exact proto_closed_after_last_push. Qed.
Theorem C03_protocol_progress : forall guard iters procs, wf_cfg guard iters procs = true ->
  forall ls c, crun (cinit procs) ls = Some c -> cfinished c = false -> exists i c', cstep c i = Some c'.
Proof. exact proto_progress. Qed.
Theorem C03_protocol_bounded : forall guard iters procs, wf_cfg guard iters procs = true ->
  forall ls c, crun (cinit procs) ls = Some c -> length ls + cmeasure c = cmeasure (cinit procs).
Proof. exact proto_bounded. Qed.
Theorem C03_protocol_maximal_run : forall guard iters procs, wf_cfg guard iters procs = true ->
  forall ls c, crun (cinit procs) ls = Some c -> (forall i, cstep c i = None) ->
  cfinished c = true /\
  (forall it, In it iters -> g_closed (fst c) it = true) /\
  (forall it, g_pushed (fst c) it = count_occ Nat.eq_dec (concat (map proc_pushes procs)) it) /\
  (forall g, g_wg (fst c) g = 0).
Proof. exact proto_maximal_run. Qed.
(** the table combinator -> instance (Model.v, [inst_*]): every instance is well-formed, for every number of
    producers / pushes / consumers / outputs, so the five theorems above apply to every combinator. *)
Theorem C03_protocol_instances :
  (forall pushes m, wf_cfg (fun x => x) [0] (inst_std pushes m) = true) /\
  (forall sched, wf_cfg (fun x => x) [0; 1] (inst_divideon sched) = true) /\
  (forall n, wf_cfg (fun _ => 0) [0; 1] (inst_copytee n) = true) /\
  (forall m pushes, Forall (fun k => 1 <= k <= m) pushes -> wf_cfg (fun _ => 0) (seq 1 m) (inst_distribute m pushes) = true).
Proof. exact (conj inst_std_wf (conj inst_divideon_wf (conj inst_copytee_wf inst_distribute_wf))). Qed.
(** what the acceptance of a recorded trace of the REAL iterators means: the per-goroutine programs read off the
    trace are a well-formed instance (so every schedule of them is safe and terminates, not only the observed one) and
    the observed events are a complete run of the transition system. *)
Theorem C03_protocol_trace_sound : forall tr, trace_ok tr = true ->
  wf_cfg (tr_guard tr) (tr_iters tr) (tr_procs tr) = true /\
  exists c, crun (cinit (tr_procs tr)) (tr_labels tr) = Some c /\ cfinished c = true.
Proof. exact trace_ok_sound. Qed.
Example C03_protocol_nonvacuous :
  wf_cfg (fun x => x) [0; 1] (inst_divideon [true; false; true]) = true /\
  (exists c, crun (cinit (inst_divideon [true; false; true])) [0;0;0;0;0;1;1;2;1;1;3] = Some c /\ cfinished c = true) /\
  trace_ok2 (ShTee, [(0,0,0,0);(0,0,1,1);(0,1,0,0);(0,2,0,0);(0,1,1,1);(0,2,7,1);(1,0,4,1);(2,1,4,1);(1,0,4,0);(2,2,4,1);(2,1,4,0);(2,2,4,0);
                     (1,0,2,0);(3,0,3,0);(3,0,5,0);(2,0,6,0);(2,1,2,0);(4,1,3,0);(4,1,5,0);(4,2,5,0);(5,2,6,0);(6,1,6,0)]) = true.
Proof. split; [reflexivity|]. split; [eexists; split; [vm_compute; reflexivity|reflexivity]|vm_compute; reflexivity]. Qed.


(** the hypotheses are satisfiable by a non-trivial history (empty batch, out-of-order arrival) *)
Example C03_hyp_nonvacuous :
  Permutation [(2, [5; 6]); (0, [1]); (1, [])] (numbered_from 0 [[1]; []; [5; 6]]) /\
  rebatch 2 [(2, [5; 6]); (0, [1]); (1, [])] = [(0, [1; 5]); (1, [6])] /\
  (exists s, prun (fun l => l) (pinit 2 [(2, [5; 6]); (0, [1]); (1, [])]) [Take 1; Take 0; Emit 0; Take 0; Emit 1; Emit 0] = Some s /\ pidle s = true).
Proof.
  split; [unfold numbered_from; simpl; eapply perm_trans; [apply perm_swap|apply perm_skip; apply perm_swap]|].
  split; [vm_compute; reflexivity|]. eexists. split; [vm_compute; reflexivity|reflexivity].
Qed.

(** ================================================================ round 3 ============================
    Workers that fail and chained workers (obiseq/worker.go). A worker is [A -> option (list A)], [None] = error.
    Whatever the schedule of the pool ([e]: any delivery order of the mapped batches), the re-sequenced output of
    MakeIWorker(w1.ChainWorkers(w2), false) is the input stream through w1 then through w2 as two consecutive
    stages: every output record of w1 goes through w2 exactly once, in order; a record on which a worker fails
    contributes nothing (it is logged), all the others are kept; a nil worker is the identity. *)
Theorem C03_chainworkers : forall (A : Type) (w1 w2 : option (A -> option (list A))) (bs : list (list A)) (h e : list (nat * list A)),
  Permutation h (numbered_from 0 bs) -> Permutation e (eworker_map (chain w1 w2) h) ->
  map fst (sortb e) = seq 0 (length bs) /\
  flatten (sortb e) = slice_worker w2 (slice_worker w1 (concat bs)).
Proof. exact chain_pool_sorted. Qed.
(** with breakOnError the run stops exactly when the FIRST worker of the chain fails on some record: the
    failures of the second one are logged and dropped inside the chain (transcribed from ChainWorkers, which
    wraps [next] in SeqToSliceWorker(next, false)) *)
Theorem C03_chainworkers_failures : forall (A : Type) (f g : A -> option (list A)) (l : list A),
  slice_fails (chain (Some f) (Some g)) l = slice_fails (Some f) l.
Proof. exact slice_fails_chain. Qed.

(** a conditional worker that fails: the conditional slice worker is [cond_worker] of the lifted worker, so
    C03_conditional_worker / C03_conditional_worker_keeps_unselected apply: a failure drops the selected record it
    occurs on and nothing else; a record that is not selected is kept even when the worker would fail on it. *)
Theorem C03_conditional_worker_failures : forall (A : Type) (c : A -> bool) (f : A -> option (list A)) (l : list A),
  flat_map (cond_eworker c f) l = flat_map (cond_worker c (lift f)) l /\
  (cond_fails c f l = true <-> exists x, In x l /\ c x = true /\ f x = None).
Proof. exact cond_eworker_spec. Qed.

(** Count: the numbers of variants, reads and nucleotides do not depend on the partition into batches nor on
    the arrival order of the batches. *)
Theorem C03_count : forall (A : Type) (cnt len : A -> nat) (bs : list (list A)) (h : list (nat * list A)),
  Permutation h (numbered_from 0 bs) ->
  count_of cnt len h = (length (concat bs), list_sum (map cnt (concat bs)), list_sum (map len (concat bs))).
Proof. exact count_spec. Qed.

(** two Rebatch stages of the same size around a filter (Rebatch | FilterOn): exactly the selected records, in
    order, batches 0..m-1 full except the last — whatever the batch boundaries of the input (in particular batches
    of exactly [size] records arriving while a remainder is buffered). *)
Theorem C03_rebatch_filter : forall (A : Type) (p : A -> bool) size (bs : list (list A)) (h : list (nat * list A)),
  1 <= size -> Permutation h (numbered_from 0 bs) ->
  chunked size (rebatch_filter p size h) (filter p (concat bs)).
Proof. exact rebatch_filter_spec. Qed.

(** paired obigrep (PairTo | FilterOn / FilterAnd): for two files holding the same number of records, whatever
    their two partitions and arrival orders, the output is exactly the PAIRS (k-th forward record, k-th reverse
    record) selected by the predicate on pairs, in order, in batches numbered 0..m-1: no pair is lost, no mate
    is shifted. *)
Theorem C03_pairto_filter : forall (A : Type) (pp : A * A -> bool) size (bs1 bs2 : list (list A)) (h1 h2 : list (nat * list A)),
  1 <= size -> Permutation h1 (numbered_from 0 bs1) -> Permutation h2 (numbered_from 0 bs2) ->
  length (concat bs1) = length (concat bs2) ->
  exists r, pairto_filter pp size h1 h2 = Some r /\
            chunked size r (filter pp (combine (concat bs1) (concat bs2))).
Proof. exact pairto_filter_spec. Qed.

(** The list of input files of a command (ExpandListOfFiles), for EVERY file system [fs] and argument list:
    no file is read twice; a regular file named on the command line is always read, whatever its name and
    whatever precedes it; every sequence file below a directory named on the command line is read; nothing else
    is read; and the only error is an argument that does not exist. *)
Theorem C03_expand_no_duplicate : forall fs args r, expand fs args = Some r -> NoDup r.
Proof. exact expand_nodup. Qed.
Theorem C03_expand_named_file : forall fs args r a e,
  expand fs args = Some r -> In a args -> lookup fs a = Some e -> e_dir e = false -> In a r.
Proof. exact expand_named_file. Qed.
Theorem C03_expand_directory_content : forall fs args r a d e,
  expand fs args = Some r -> In a args -> lookup fs a = Some d -> e_dir d = true ->
  In e fs -> is_prefix a (e_path e) = true -> e_dir e = false -> e_ext e = true -> In (e_path e) r.
Proof. exact expand_dir_content. Qed.
Theorem C03_expand_nothing_else : forall fs args r x, expand fs args = Some r -> In x r ->
  exists a e, In a args /\ lookup fs a = Some e /\
              ((e_dir e = false /\ x = a) \/
               (e_dir e = true /\ exists f, In f fs /\ e_path f = x /\ is_prefix a x = true /\ e_dir f = false /\ e_ext f = true)).
Proof. exact expand_sound. Qed.
(** ... in the order of the command line: when no file is reached twice, the list is the concatenation, argument after
    argument, of what each argument contributes ([contrib]: a named file: itself; a directory: its sequence files in the
    order filepath.Walk visits them); in general it is that concatenation with every path kept at its first occurrence
    (C03_expand_no_duplicate, C03_expand_nothing_else). *)
Theorem C03_expand_order : forall fs args r, expand fs args = Some r ->
  NoDup (concat (map (contrib fs) args)) -> r = concat (map (contrib fs) args).
Proof. exact expand_order. Qed.
Theorem C03_expand_total : forall fs args, (forall a, In a args -> lookup fs a <> None) -> exists r, expand fs args = Some r.
Proof. intros fs args H. exact (expand_total fs args [] H). Qed.
(** the code before the fix: a file named after a directory is dropped ([d1/f1.fasta] and [f2.txt], arguments d1 f2.txt) *)
Theorem C03_expand_v0_refuted : exists fs args a e r,
  expand_v0 fs args = Some r /\ In a args /\ lookup fs a = Some e /\ e_dir e = false /\ ~ In a r.
Proof. exact expand_v0_refuted. Qed.

Example C03_round3_nonvacuous :
  (* a chain whose two workers fail on some records, two workers in the pool *)
  (let f := fun i => if Nat.eqb i 3 then None else Some [i; i + 10] in
   let g := fun i => if Nat.eqb i 14 then None else Some [i] in
   eworker_map (chain (Some f) (Some g)) [(1, [3; 4]); (0, [1])] = [(1, [4]); (0, [1; 11])] /\
   slice_fails (chain (Some f) (Some g)) [4] = false /\ slice_fails (chain (Some f) (Some g)) [3] = true) /\
  (* a batch of exactly [size] records arrives while a remainder is buffered *)
  rebatch_filter (fun i => negb (Nat.eqb i 5)) 3 [(0, [1]); (2, [5; 6; 7]); (1, [2; 3; 4])] = [(0, [1; 2; 3]); (1, [4; 6; 7])] /\
  pairto_filter (fun xy => Nat.even (fst xy)) 2 [(1, [3; 4]); (0, [1; 2])] [(0, [11; 12; 13]); (1, [14])] = Some [(0, [(2, 12); (4, 14)])] /\
  (* directory, then a named file without a sequence-file extension, named twice *)
  expand [mke [1%N] true false; mke [1%N; 1%N] false true; mke [1%N; 2%N] false false; mke [2%N] false false] [[1%N]; [2%N]; [2%N]]
    = Some [[1%N; 1%N]; [2%N]] /\
  count_of (fun i => i) (fun _ => 2) [(1, [3; 4]); (0, [1])] = (3, 8, 6).
Proof. vm_compute. repeat split; reflexivity. Qed.

Print Assumptions C03_sortbatches.
Print Assumptions C03_rebatch.
Print Assumptions C03_filterempty.
Print Assumptions C03_filterempty_keeps_records.
Print Assumptions C03_filteron.
Print Assumptions C03_divideon.
Print Assumptions C03_distribute.
Print Assumptions C03_concat.
Print Assumptions C03_concat_v0_refuted.
Print Assumptions C03_pool.
Print Assumptions C03_worker_pool.
Print Assumptions C03_worker_pool_run_exists.
Print Assumptions C03_worker_pool_progress.
Print Assumptions C03_worker_pool_sorted.
Print Assumptions C03_batchover.
Print Assumptions C03_pipeline.
Print Assumptions C03_sortbatches_gap.
Print Assumptions C03_readfiles.
Print Assumptions C03_readfiles_v0_refuted.
Print Assumptions C03_termination_safety_partial.
Print Assumptions C03_termination_progress_partial.
Print Assumptions C03_termination_bounded_partial.
Print Assumptions C03_copytee_v0_stuck.
Print Assumptions C03_pairto.
Print Assumptions C03_pairto_short_reverse_fatal.
Print Assumptions C03_rebatch_loop_equiv.
Print Assumptions C03_fragments_record.
Print Assumptions C03_fragments.
Print Assumptions C03_imerge.
Print Assumptions C03_split.
Print Assumptions C03_split_records.
Print Assumptions C03_completefile.
Print Assumptions C03_conditional_worker.
Print Assumptions C03_pairedwith.
Print Assumptions C03_filterand_paired.
Print Assumptions C03_distribute_rebatch.
Print Assumptions C03_protocol_safety.
Print Assumptions C03_protocol_closed_after_last_push.
Print Assumptions C03_protocol_progress.
Print Assumptions C03_protocol_bounded.
Print Assumptions C03_protocol_maximal_run.
Print Assumptions C03_protocol_instances.
Print Assumptions C03_protocol_trace_sound.
Print Assumptions C03_load_v0_refuted.
Print Assumptions C03_conditional_worker_keeps_unselected.
Print Assumptions C03_chainworkers.
Print Assumptions C03_chainworkers_failures.
Print Assumptions C03_conditional_worker_failures.
Print Assumptions C03_count.
Print Assumptions C03_rebatch_filter.
Print Assumptions C03_pairto_filter.
Print Assumptions C03_expand_no_duplicate.
Print Assumptions C03_expand_named_file.
Print Assumptions C03_expand_directory_content.
Print Assumptions C03_expand_nothing_else.
Print Assumptions C03_expand_order.
Print Assumptions C03_expand_total.
Print Assumptions C03_expand_v0_refuted.
