(** C03, round 3 — lemmas over Model3.v *)
From Coq Require Import List Arith NArith Bool Lia Permutation.
From OBI.Common Require Import Reseq.
From OBI.C03 Require Import Model Proofs Model3.
Import ListNotations.

Section W.
Variable A : Type.
Notation hist := (list (nat * list A)).

Lemma flat_map_flat_map (f g : A -> list A) (l : list A) :
  flat_map g (flat_map f l) = flat_map (fun x => flat_map g (f x)) l.
Proof. induction l as [|x l IH]; [reflexivity|]. simpl. now rewrite flat_map_app, IH. Qed.

(** chaining two workers = running them as two consecutive stages *)
Lemma slice_worker_chain (w1 w2 : option (eworker A)) (l : list A) :
  slice_worker (chain w1 w2) l = slice_worker w2 (slice_worker w1 l).
Proof.
  destruct w1 as [f|]; destruct w2 as [g|]; simpl; try reflexivity.
  rewrite flat_map_flat_map. apply flat_map_ext. intros x. unfold lift. destruct (f x); reflexivity.
Qed.

(** only a failure of the FIRST worker of a chain reaches the caller *)
Lemma slice_fails_chain (f g : eworker A) (l : list A) :
  slice_fails (chain (Some f) (Some g)) l = slice_fails (Some f) l.
Proof.
  simpl. induction l as [|x l IH]; [reflexivity|]. simpl. rewrite IH. f_equal. unfold werr. destruct (f x); reflexivity.
Qed.

Lemma concat_map_slice_worker (w : option (eworker A)) (bs : list (list A)) :
  concat (map (slice_worker w) bs) = slice_worker w (concat bs).
Proof.
  destruct w as [f|]; simpl.
  - apply concat_map_flat_map.
  - now rewrite map_id.
Qed.

Lemma eworker_pool_sorted (w : option (eworker A)) (bs : list (list A)) (h e : hist) :
  Permutation h (numbered_from 0 bs) -> Permutation e (eworker_map w h) ->
  sortb e = numbered_from 0 (map (slice_worker w) bs) /\ flatten (sortb e) = slice_worker w (concat bs).
Proof.
  intros P Pe.
  assert (Q : Permutation e (numbered_from 0 (map (slice_worker w) bs))).
  { eapply Permutation_trans; [exact Pe|]. unfold eworker_map. rewrite <- on_items_numbered. apply Permutation_map. exact P. }
  rewrite (sortb_spec A _ e Q). split; [reflexivity|]. rewrite flatten_numbered. apply concat_map_slice_worker.
Qed.

Lemma chain_pool_sorted (w1 w2 : option (eworker A)) (bs : list (list A)) (h e : hist) :
  Permutation h (numbered_from 0 bs) -> Permutation e (eworker_map (chain w1 w2) h) ->
  map fst (sortb e) = seq 0 (length bs) /\
  flatten (sortb e) = slice_worker w2 (slice_worker w1 (concat bs)).
Proof.
  intros P Pe. destruct (eworker_pool_sorted _ bs h e P Pe) as [S F]. split.
  - rewrite S, numbered_from_fst, map_length. reflexivity.
  - rewrite F. apply slice_worker_chain.
Qed.

Lemma cond_eworker_spec (c : A -> bool) (f : eworker A) (l : list A) :
  flat_map (cond_eworker c f) l = flat_map (cond_worker c (lift f)) l /\
  (cond_fails c f l = true <-> exists x, In x l /\ c x = true /\ f x = None).
Proof.
  split; [reflexivity|]. unfold cond_fails. rewrite existsb_exists. split.
  - intros (x & Hx & E). apply andb_true_iff in E. destruct E as [C W]. exists x. repeat split; [exact Hx|exact C|].
    unfold werr in W. destruct (f x); [discriminate|reflexivity].
  - intros (x & Hx & C & N). exists x. split; [exact Hx|]. unfold werr. now rewrite C, N.
Qed.

Lemma list_sum_perm (a b : list nat) : Permutation a b -> list_sum a = list_sum b.
Proof. induction 1; simpl; lia. Qed.

Lemma flatten_perm (h h' : hist) : Permutation h h' -> Permutation (flatten h) (flatten h').
Proof. intros P. unfold flatten. apply Permutation_concat. apply Permutation_map. exact P. Qed.

(** Count does not depend on the partition into batches nor on the arrival order *)
Lemma count_spec (cnt len : A -> nat) (bs : list (list A)) (h : hist) :
  Permutation h (numbered_from 0 bs) ->
  count_of cnt len h = (length (concat bs), list_sum (map cnt (concat bs)), list_sum (map len (concat bs))).
Proof.
  intros P. pose proof (flatten_perm _ _ P) as Q. rewrite flatten_numbered in Q. unfold count_of.
  rewrite (Permutation_length Q), (list_sum_perm _ _ (Permutation_map cnt Q)), (list_sum_perm _ _ (Permutation_map len Q)).
  reflexivity.
Qed.

Lemma rebatch_filter_spec (p : A -> bool) size (bs : list (list A)) (h : hist) :
  1 <= size -> Permutation h (numbered_from 0 bs) ->
  chunked size (rebatch_filter p size h) (filter p (concat bs)).
Proof.
  intros Hs P. unfold rebatch_filter. rewrite (rebatch_loop_equiv A size h Hs).
  pose proof (rebatch_spec A size bs h Hs P) as C. set (r := rebatch size h) in *.
  destruct C as (F & N & C3).
  assert (Pr : Permutation r (numbered_from 0 (map snd r))) by (rewrite <- (self_numbered A r N); apply Permutation_refl).
  destruct (filteron_spec A p size (map snd r) r (fmap p r) Hs Pr (Permutation_refl _)) as [C' _].
  unfold flatten in F. rewrite F in C'. exact C'.
Qed.

End W.

Section PF.
Variable A : Type.
Lemma pairto_filter_spec (pp : A * A -> bool) size (bs1 bs2 : list (list A)) (h1 h2 : list (nat * list A)) :
  1 <= size -> Permutation h1 (numbered_from 0 bs1) -> Permutation h2 (numbered_from 0 bs2) ->
  length (concat bs1) = length (concat bs2) ->
  exists r, pairto_filter pp size h1 h2 = Some r /\
            chunked size r (filter pp (combine (concat bs1) (concat bs2))).
Proof.
  intros Hs P1 P2 L. destruct (pairto_spec A size bs1 bs2 h1 h2 Hs P1 P2 L) as (r0 & E & F & N).
  unfold pairto_filter. rewrite E. simpl. eexists. split; [reflexivity|].
  assert (Pr : Permutation r0 (numbered_from 0 (map snd r0))) by (rewrite <- (self_numbered (A * A) r0 N); apply Permutation_refl).
  destruct (filteron_spec (A * A) pp size (map snd r0) r0 (fmap pp r0) Hs Pr (Permutation_refl _)) as [C' _].
  rewrite F in C'. exact C'.
Qed.
End PF.

(** ---------------------------------------------------------------- ExpandListOfFiles *)
Lemma path_eqb_eq (a b : fpath) : path_eqb a b = true <-> a = b.
Proof.
  unfold path_eqb. revert b. induction a as [|x a IH]; destruct b as [|y b]; simpl; split; intros H; try reflexivity; try discriminate.
  - apply andb_true_iff in H. destruct H as [H1 H2]. apply N.eqb_eq in H1. apply IH in H2. now subst.
  - inversion H; subst. apply andb_true_iff. split; [apply N.eqb_refl|]. now apply IH.
Qed.
Lemma pmem_In (x : fpath) l : pmem x l = true <-> In x l.
Proof.
  unfold pmem. rewrite existsb_exists. split.
  - intros (y & Hy & E). apply path_eqb_eq in E. now subst.
  - intros H. exists x. split; [exact H|]. now apply path_eqb_eq.
Qed.
Lemma add_all_In (l : list fpath) : forall acc x, In x (add_all acc l) <-> In x acc \/ In x l.
Proof.
  unfold add_all. induction l as [|y l IH]; intros acc x; simpl.
  - tauto.
  - rewrite IH. destruct (pmem y acc) eqn:M.
    + apply pmem_In in M. split; [tauto|]. intros [H|[H|H]]; subst; tauto.
    + rewrite in_app_iff. simpl. tauto.
Qed.
Lemma NoDup_snoc {X} (l : list X) (y : X) : NoDup l -> ~ In y l -> NoDup (l ++ [y]).
Proof.
  induction l as [|x l IH]; intros H N; simpl.
  - constructor; [intros []|constructor].
  - inversion H; subst. constructor.
    + rewrite in_app_iff. simpl. intros [K|[K|[]]]; [contradiction|]. subst. apply N. now left.
    + apply IH; [assumption|]. intros K. apply N. now right.
Qed.
Lemma add_all_NoDup (l : list fpath) : forall acc, NoDup acc -> NoDup (add_all acc l).
Proof.
  unfold add_all. induction l as [|y l IH]; intros acc H; simpl; [exact H|].
  apply IH. destruct (pmem y acc) eqn:M; [exact H|].
  apply NoDup_snoc; [exact H|]. intros Hin. apply pmem_In in Hin. congruence.
Qed.

Section Expand.
Variable fs : list entry.
Notation contrib := (Model3.contrib fs).

Lemma expand_from_spec : forall args acc r, expand_from fs acc args = Some r ->
  (forall x, In x r <-> In x acc \/ exists a, In a args /\ In x (contrib a)) /\ (NoDup acc -> NoDup r) /\
  (forall a, In a args -> lookup fs a <> None).
Proof.
  induction args as [|a args IH]; intros acc r H; simpl in H.
  - inversion H; subst. split; [|split].
    + intros x. split; [tauto|]. intros [K|(a & [] & _)]. exact K.
    + tauto.
    + intros a [].
  - destruct (expand_arg false fs a) as [[l d]|] eqn:E; [|discriminate].
    destruct (IH _ _ H) as (I1 & I2 & I3). split; [|split].
    + intros x. rewrite I1, add_all_In. split.
      * intros [[K|K]|(b & Hb & K)]; [now left| |].
        -- right. exists a. split; [now left|]. unfold Model3.contrib. now rewrite E.
        -- right. exists b. split; [now right|exact K].
      * intros [K|(b & [Hb|Hb] & K)]; [tauto| |].
        -- subst b. unfold Model3.contrib in K. rewrite E in K. tauto.
        -- right. exists b. tauto.
    + intros N. apply I2. now apply add_all_NoDup.
    + intros b [Hb|Hb]; [|now apply I3]. subst b. unfold expand_arg in E. destruct (lookup fs a); [discriminate|discriminate].
Qed.

Lemma add_all_app (l1 l2 acc : list fpath) : add_all (add_all acc l1) l2 = add_all acc (l1 ++ l2).
Proof. unfold add_all. now rewrite fold_left_app. Qed.

Lemma expand_from_eq : forall args acc r, expand_from fs acc args = Some r -> r = add_all acc (concat (map contrib args)).
Proof.
  induction args as [|a args IH]; intros acc r H; simpl in H.
  - inversion H. reflexivity.
  - simpl. rewrite <- add_all_app. unfold Model3.contrib at 1. destruct (expand_arg false fs a) as [[l d]|]; [|discriminate].
    now apply IH.
Qed.

Lemma add_all_nodup_id (l : list fpath) : forall acc, NoDup (acc ++ l) -> add_all acc l = acc ++ l.
Proof.
  unfold add_all. induction l as [|x l IH]; intros acc N; simpl; [now rewrite app_nil_r|].
  assert (M : pmem x acc = false).
  { destruct (pmem x acc) eqn:M; [|reflexivity]. apply pmem_In in M. apply NoDup_remove_2 in N. exfalso. apply N. apply in_or_app. now left. }
  rewrite M. rewrite IH; [now rewrite <- app_assoc|]. rewrite <- app_assoc. exact N.
Qed.

Lemma expand_order args r : expand fs args = Some r -> NoDup (concat (map contrib args)) -> r = concat (map contrib args).
Proof. intros H N. rewrite (expand_from_eq _ _ _ H). now apply (add_all_nodup_id _ []). Qed.

Lemma expand_nodup args r : expand fs args = Some r -> NoDup r.
Proof. intros H. destruct (expand_from_spec _ _ _ H) as (_ & N & _). apply N. constructor. Qed.

Lemma expand_named_file args r a e : expand fs args = Some r -> In a args -> lookup fs a = Some e -> e_dir e = false -> In a r.
Proof.
  intros H Ha L D. destruct (expand_from_spec _ _ _ H) as (I & _ & _). apply I. right. exists a. split; [exact Ha|].
  unfold Model3.contrib, expand_arg. rewrite L, D. simpl. now left.
Qed.

Lemma expand_dir_content args r a d e : expand fs args = Some r -> In a args -> lookup fs a = Some d -> e_dir d = true ->
  In e fs -> is_prefix a (e_path e) = true -> e_dir e = false -> e_ext e = true -> In (e_path e) r.
Proof.
  intros H Ha L D He P F X. destruct (expand_from_spec _ _ _ H) as (I & _ & _). apply I. right. exists a. split; [exact Ha|].
  unfold Model3.contrib, expand_arg. rewrite L, D. unfold walk. apply in_map. apply filter_In. split; [exact He|]. now rewrite P, F, X.
Qed.

Lemma expand_sound args r x : expand fs args = Some r -> In x r ->
  exists a e, In a args /\ lookup fs a = Some e /\
              ((e_dir e = false /\ x = a) \/
               (e_dir e = true /\ exists f, In f fs /\ e_path f = x /\ is_prefix a x = true /\ e_dir f = false /\ e_ext f = true)).
Proof.
  intros H Hx. destruct (expand_from_spec _ _ _ H) as (I & _ & _). apply I in Hx. destruct Hx as [[]|(a & Ha & K)].
  unfold Model3.contrib, expand_arg in K. destruct (lookup fs a) as [e|] eqn:L; [|destruct K]. exists a, e. split; [exact Ha|]. split; [exact L|].
  destruct (e_dir e) eqn:D.
  - right. split; [reflexivity|]. unfold walk in K. apply in_map_iff in K. destruct K as (f & Ef & Kf). apply filter_In in Kf.
    destruct Kf as [Kf C]. apply andb_true_iff in C. destruct C as [C X]. apply andb_true_iff in C. destruct C as [P F].
    exists f. rewrite <- Ef. repeat split; try assumption. now apply negb_true_iff.
  - left. split; [reflexivity|]. simpl in K. destruct K as [K|[]]. now subst.
Qed.

Lemma expand_total : forall args acc, (forall a, In a args -> lookup fs a <> None) -> exists r, expand_from fs acc args = Some r.
Proof.
  induction args as [|a args IH]; intros acc H; simpl; [eexists; reflexivity|].
  unfold expand_arg. destruct (lookup fs a) as [e|] eqn:L; [|exfalso; apply (H a); [now left|exact L]].
  destruct (e_dir e); apply IH; intros b Hb; apply H; now right.
Qed.
End Expand.

(** the code before the fix loses a file named after a directory *)
Lemma expand_v0_refuted : exists fs args a e r,
  expand_v0 fs args = Some r /\ In a args /\ lookup fs a = Some e /\ e_dir e = false /\ ~ In a r.
Proof.
  exists [mke [1%N] true false; mke [1%N; 1%N] false true; mke [2%N] false false], [[1%N]; [2%N]], [2%N], (mke [2%N] false false), [[1%N; 1%N]].
  split; [vm_compute; reflexivity|]. split; [right; left; reflexivity|]. split; [vm_compute; reflexivity|]. split; [reflexivity|].
  intros [K|[]]. discriminate K.
Qed.
