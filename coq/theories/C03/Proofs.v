(** C03 — lemmas about the model of the stream combinators (see Model.v). *)
From Coq Require Import List Arith NArith Bool Lia Permutation.
From OBI.Common Require Import Reseq.
From OBI.C03 Require Import Model.
Import ListNotations.

(* ------------------------------------------------------------------ part 1 *)
Section G.
Variable A : Type.
Notation batch := (nat * list A)%type.
Notation hist := (list (nat * list A)).

Lemma numbered_from_length k (bs : list (list A)) : length (numbered_from k bs) = length bs.
Proof. unfold numbered_from. rewrite combine_length, seq_length. lia. Qed.
Lemma numbered_from_cons k b (bs : list (list A)) : numbered_from k (b :: bs) = (k, b) :: numbered_from (S k) bs.
Proof. reflexivity. Qed.
Lemma numbered_from_fst k (bs : list (list A)) : map fst (numbered_from k bs) = seq k (length bs).
Proof. revert k. induction bs as [|b bs IH]; intros k; [reflexivity|]. rewrite numbered_from_cons. simpl. f_equal. apply IH. Qed.
Lemma numbered_from_snd k (bs : list (list A)) : map snd (numbered_from k bs) = bs.
Proof. revert k. induction bs as [|b bs IH]; intros k; [reflexivity|]. rewrite numbered_from_cons. simpl. f_equal. apply IH. Qed.
Lemma flatten_numbered k (bs : list (list A)) : flatten (numbered_from k bs) = concat bs.
Proof. unfold flatten. now rewrite numbered_from_snd. Qed.
Lemma numbered_from_app k (a b : list (list A)) :
  numbered_from k (a ++ b) = numbered_from k a ++ numbered_from (k + length a) b.
Proof.
  revert k. induction a as [|x a IH]; intros k; simpl.
  - now rewrite Nat.add_0_r.
  - rewrite !numbered_from_cons. simpl. f_equal. rewrite IH. f_equal. f_equal. lia.
Qed.

Lemma tag_numbered k (bs : list (list A)) :
  map (fun b : batch => (fst b, b)) (numbered_from k bs) =
  combine (seq k (length (numbered_from k bs))) (numbered_from k bs).
Proof.
  revert k. induction bs as [|b bs IH]; intros k; [reflexivity|].
  rewrite numbered_from_cons. simpl. f_equal. apply IH.
Qed.

(** SortBatches delivers the batches in numbering order whatever the arrival order *)
Lemma sortb_spec (bs : list (list A)) (h : hist) :
  Permutation h (numbered_from 0 bs) -> sortb h = numbered_from 0 bs.
Proof.
  intros P. unfold sortb.
  destruct (reseq_any_permutation (nat * list A) (numbered_from 0 bs) (map (fun b : batch => (fst b, b)) h)) as [H _].
  - unfold numbered. rewrite <- tag_numbered. apply Permutation_map. exact P.
  - exact H.
Qed.

Lemma sortb_perm_invariant (bs : list (list A)) (h h' : hist) :
  Permutation h (numbered_from 0 bs) -> Permutation h' h -> sortb h' = sortb h.
Proof.
  intros P P'. rewrite (sortb_spec bs h P). apply sortb_spec. eapply Permutation_trans; eassumption.
Qed.

(** FilterEmpty *)
Lemma fe_loop_spec k j (bs : list (list A)) :
  fe_loop j (numbered_from k bs) = numbered_from j (filter (fun b => Nat.ltb 0 (length b)) bs).
Proof.
  revert k j. induction bs as [|b bs IH]; intros k j; [reflexivity|].
  rewrite numbered_from_cons. simpl. destruct (Nat.ltb 0 (length b)).
  - rewrite numbered_from_cons. f_equal. apply IH.
  - apply IH.
Qed.
Lemma filterempty_spec (bs : list (list A)) (h : hist) :
  Permutation h (numbered_from 0 bs) ->
  filterempty h = numbered_from 0 (filter (fun b => Nat.ltb 0 (length b)) bs).
Proof. intros P. unfold filterempty. rewrite (sortb_spec bs h P). apply fe_loop_spec. Qed.
Lemma concat_filter_nonempty (bs : list (list A)) :
  concat (filter (fun b => Nat.ltb 0 (length b)) bs) = concat bs.
Proof.
  induction bs as [|b bs IH]; [reflexivity|]. simpl. destruct b as [|x b]; simpl; [exact IH|]. now rewrite IH.
Qed.

End G.

(* ------------------------------------------------------------------ part 2 *)
Section G.
Variable A : Type.
Notation batch := (nat * list A)%type.
Notation hist := (list (nat * list A)).

(** invariant of an accumulator that has received the records [l] *)
Definition AccInv (size : nat) (l : list A) (a : @acc A) : Prop :=
  concat (map snd (a_out a)) ++ a_buf a = l /\
  map fst (a_out a) = seq 0 (a_ord a) /\
  Forall (fun c => length c = size) (map snd (a_out a)) /\
  length (a_buf a) < size.

Lemma AccInv0 size : 1 <= size -> AccInv size [] acc0.
Proof. intros H. unfold AccInv, acc0; simpl. repeat split; [constructor|lia]. Qed.

Lemma acc_check_id size l a : AccInv size l a -> acc_check size a = a.
Proof.
  intros (_ & _ & _ & H). unfold acc_check. destruct (Nat.eqb_spec (length (a_buf a)) size); [lia|reflexivity].
Qed.

Lemma acc_step_inv size l a x : AccInv size l a -> AccInv size (l ++ [x]) (acc_check size (acc_add x a)).
Proof.
  intros (H1 & H2 & H3 & H4). unfold acc_check, acc_add; cbn [a_ord a_buf a_out].
  destruct (Nat.eqb_spec (length (a_buf a ++ [x])) size) as [E|E]; unfold AccInv; cbn [a_ord a_buf a_out].
  - rewrite !map_app, concat_app. cbn [map fst snd concat]. rewrite !app_nil_r, <- H1. split; [now rewrite app_assoc|].
    split; [rewrite H2, seq_S; reflexivity|]. split; [|simpl; lia].
    apply Forall_app. split; [exact H3|constructor; [exact E|constructor]].
  - rewrite app_length in *; simpl in *. split; [now rewrite app_assoc, H1|]. split; [exact H2|]. split; [exact H3|lia].
Qed.

Lemma ord_length size l a : AccInv size l a -> a_ord a = length (a_out a).
Proof. intros (_ & H & _). apply (f_equal (@length nat)) in H. rewrite map_length, seq_length in H. congruence. Qed.

Lemma Forall_removelast (X : Type) (P : X -> Prop) (l : list X) : Forall P l -> Forall P (removelast l).
Proof.
  induction l as [|x l IH]; intros H; [constructor|]. inversion H; subst. simpl.
  destruct l; [constructor|]. constructor; [assumption|]. apply IH. assumption.
Qed.

Lemma acc_final_chunked size l a : 1 <= size -> AccInv size l a -> chunked size (acc_final a) l.
Proof.
  intros Hs I. pose proof (ord_length _ _ _ I) as Ho. destruct I as (H1 & H2 & H3 & H4).
  unfold acc_final. destruct (Nat.ltb_spec 0 (length (a_buf a))) as [Hb|Hb]; unfold chunked, flatten.
  - rewrite !map_app, concat_app; simpl. rewrite app_nil_r. split; [exact H1|].
    split; [rewrite H2, app_length, Ho; simpl; rewrite Nat.add_1_r, seq_S; reflexivity|].
    split.
    + apply Forall_app. split; [eapply Forall_impl; [|exact H3]; simpl; intros; lia|constructor; [lia|constructor]].
    + rewrite removelast_last. exact H3.
  - destruct (a_buf a); [|simpl in Hb; lia]. rewrite app_nil_r in H1. split; [exact H1|].
    split; [rewrite H2, Ho; reflexivity|]. split.
    + eapply Forall_impl; [|exact H3]; simpl; intros; lia.
    + apply Forall_removelast. exact H3.
Qed.

(** Rebatch *)
Lemma rebatch_fold_inv size l : forall l0 a, AccInv size l0 a ->
  AccInv size (l0 ++ l) (fold_left (rebatch_step size) l a).
Proof.
  induction l as [|x l IH]; intros l0 a I; simpl; [now rewrite app_nil_r|].
  replace (l0 ++ x :: l) with ((l0 ++ [x]) ++ l) by (now rewrite <- app_assoc).
  apply IH. apply acc_step_inv. exact I.
Qed.

Lemma rebatch_spec size (bs : list (list A)) (h : hist) :
  1 <= size -> Permutation h (numbered_from 0 bs) -> chunked size (rebatch size h) (concat bs).
Proof.
  intros Hs P. unfold rebatch. rewrite (sortb_spec A bs h P), flatten_numbered.
  apply acc_final_chunked; [exact Hs|]. apply (rebatch_fold_inv size (concat bs) [] acc0). apply AccInv0. exact Hs.
Qed.

(** DivideOn *)
Lemma filter_snoc (p : A -> bool) l x : filter p (l ++ [x]) = if p x then filter p l ++ [x] else filter p l.
Proof. rewrite filter_app; simpl. destruct (p x); [reflexivity|apply app_nil_r]. Qed.

Lemma div_fold_inv p size l : forall l0 t f,
  AccInv size (filter p l0) t -> AccInv size (filter (fun x => negb (p x)) l0) f ->
  let '(t', f') := fold_left (div_step p size) l (t, f) in
  AccInv size (filter p (l0 ++ l)) t' /\ AccInv size (filter (fun x => negb (p x)) (l0 ++ l)) f'.
Proof.
  induction l as [|x l IH]; intros l0 t f It If; simpl; [rewrite app_nil_r; split; assumption|].
  replace (l0 ++ x :: l) with ((l0 ++ [x]) ++ l) by (now rewrite <- app_assoc).
  destruct (p x) eqn:Px.
  - rewrite (acc_check_id _ _ _ If). apply IH.
    + rewrite filter_snoc, Px. apply acc_step_inv. exact It.
    + rewrite filter_snoc, Px. simpl. exact If.
  - rewrite (acc_check_id _ _ _ It). apply IH.
    + rewrite filter_snoc, Px. exact It.
    + rewrite filter_snoc, Px. simpl. apply acc_step_inv. exact If.
Qed.

Lemma divideon_spec p size (bs : list (list A)) (h : hist) :
  1 <= size -> Permutation h (numbered_from 0 bs) ->
  chunked size (fst (divideon p size h)) (filter p (concat bs)) /\
  chunked size (snd (divideon p size h)) (filter (fun x => negb (p x)) (concat bs)).
Proof.
  intros Hs P. unfold divideon. rewrite (sortb_spec A bs h P), flatten_numbered.
  pose proof (div_fold_inv p size (concat bs) [] acc0 acc0 (AccInv0 size Hs) (AccInv0 size Hs)) as H.
  destruct (fold_left (div_step p size) (concat bs) (acc0, acc0)) as [t f]. simpl in *.
  destruct H as [Ht Hf]. split; apply acc_final_chunked; assumption.
Qed.

End G.

(* ------------------------------------------------------------------ part 3 *)
Section G.
Variable A : Type.
Notation batch := (nat * list A)%type.
Notation hist := (list (nat * list A)).

(** ---------------- Distribute *)
Fixpoint alookup (k : nat) (m : list (nat * @acc A)) : option (@acc A) :=
  match m with [] => None | (k', a) :: m' => if Nat.eqb k' k then Some a else alookup k m' end.
Definition st_of (k : nat) (m : list (nat * @acc A)) : @acc A :=
  match alookup k m with Some a => a | None => acc0 end.

Lemma upd_same size k (x : A) m : alookup k (dist_upd size k x m) = Some (acc_check size (acc_add x (st_of k m))).
Proof.
  unfold st_of. induction m as [|[k' a] m IH]; simpl; [now rewrite Nat.eqb_refl|].
  destruct (Nat.eqb_spec k' k) as [->|N]; simpl.
  - now rewrite Nat.eqb_refl.
  - destruct (Nat.eqb_spec k' k); [contradiction|]. exact IH.
Qed.
Lemma upd_other size k k' (x : A) m : k' <> k -> alookup k' (dist_upd size k x m) = alookup k' m.
Proof.
  intros N. induction m as [|[k2 a] m IH]; simpl.
  - destruct (Nat.eqb_spec k k'); [congruence|reflexivity].
  - destruct (Nat.eqb_spec k2 k) as [->|N2]; simpl.
    + destruct (Nat.eqb_spec k k'); [congruence|reflexivity].
    + destruct (Nat.eqb_spec k2 k'); [reflexivity|exact IH].
Qed.
Lemma alookup_In k (m : list (nat * @acc A)) : alookup k m <> None <-> In k (map fst m).
Proof.
  induction m as [|[k' a] m IH]; simpl; [tauto|].
  destruct (Nat.eqb_spec k' k) as [->|N]; [split; [now left|discriminate]|].
  rewrite IH. intuition congruence.
Qed.
Lemma upd_keys size k (x : A) (m : list (nat * @acc A)) : NoDup (map fst m) -> NoDup (map fst (dist_upd size k x m)) /\
  (forall k', In k' (map fst (dist_upd size k x m)) <-> k' = k \/ In k' (map fst m)).
Proof.
  induction m as [|[k2 a] m IH]; simpl; intros ND.
  - split; [constructor; [simpl; tauto|constructor]|]. intros k'. intuition.
  - inversion ND as [|? ? N1 N2]; subst. destruct (Nat.eqb_spec k2 k) as [->|N]; simpl.
    + split; [constructor; assumption|]. intros k'. intuition.
    + destruct (IH N2) as [I1 I2]. split.
      * constructor; [|exact I1]. rewrite I2. intros [E|E]; [congruence|contradiction].
      * intros k'. rewrite I2. intuition.
Qed.
Lemma alookup_NoDup k a (m : list (nat * @acc A)) : NoDup (map fst m) -> In (k, a) m -> alookup k m = Some a.
Proof.
  induction m as [|[k' a'] m IH]; simpl; intros ND H; [contradiction|].
  inversion ND as [|? ? N1 N2]; subst. destruct H as [E|H].
  - injection E as -> ->. now rewrite Nat.eqb_refl.
  - destruct (Nat.eqb_spec k' k) as [->|N]; [|apply IH; assumption].
    exfalso. apply N1. apply (in_map fst) in H. exact H.
Qed.

Definition DistInv (code : A -> nat) (size : nat) (l : list A) (m : list (nat * @acc A)) : Prop :=
  NoDup (map fst m) /\ (forall k, In k (map fst m) <-> In k (map code l)) /\
  (forall k, AccInv A size (filter (fun x => Nat.eqb (code x) k) l) (st_of k m)).

Lemma dist_fold_inv code size l : forall l0 m, DistInv code size l0 m ->
  DistInv code size (l0 ++ l) (fold_left (fun m x => dist_upd size (code x) x m) l m).
Proof.
  induction l as [|x l IH]; intros l0 m I; simpl; [now rewrite app_nil_r|].
  replace (l0 ++ x :: l) with ((l0 ++ [x]) ++ l) by (now rewrite <- app_assoc).
  apply IH. destruct I as (ND & K & S). destruct (upd_keys size (code x) x m ND) as [U1 U2].
  split; [exact U1|]. split.
  - intros k. rewrite U2, map_app, in_app_iff, K. simpl. intuition.
  - intros k. rewrite filter_snoc. unfold st_of. destruct (Nat.eqb_spec (code x) k) as [E|N].
    + subst k. rewrite upd_same. apply acc_step_inv. apply S.
    + rewrite upd_other by congruence. apply S.
Qed.

Lemma distribute_spec code size (bs : list (list A)) (h : hist) :
  1 <= size -> Permutation h (numbered_from 0 bs) ->
  let d := distribute code size h in
  NoDup (map fst d) /\ (forall k, In k (map fst d) <-> In k (map code (concat bs))) /\
  (forall k r, In (k, r) d -> chunked size r (filter (fun x => Nat.eqb (code x) k) (concat bs))).
Proof.
  intros Hs P. unfold distribute. rewrite (sortb_spec A bs h P), flatten_numbered. unfold dist_state.
  assert (I0 : DistInv code size [] []).
  { split; [constructor|]. split; [simpl; tauto|]. intros k. apply AccInv0. exact Hs. }
  pose proof (dist_fold_inv code size (concat bs) [] [] I0) as (ND & K & S). simpl app in *.
  set (m := fold_left _ _ _) in *. cbv zeta. rewrite map_map. simpl. split; [exact ND|]. split; [exact K|].
  intros k r H. apply in_map_iff in H. destruct H as [[k' a] [E H]]. simpl in E. injection E as -> <-.
  apply acc_final_chunked; [exact Hs|]. pose proof (S k) as Sk. unfold st_of in Sk.
  rewrite (alookup_NoDup k a m ND H) in Sk. exact Sk.
Qed.

(** ---------------- Concat *)
Definition shift (pm : nat) (b : batch) : batch := (fst b + pm, snd b).

Lemma concat_one_spec pm : forall (h : hist) mx,
  fst (concat_one pm mx h) = map (shift pm) h /\
  mx <= snd (concat_one pm mx h) /\
  (forall b, In b h -> fst b + pm < snd (concat_one pm mx h)) /\
  (snd (concat_one pm mx h) = mx \/ exists b, In b h /\ snd (concat_one pm mx h) = S (fst b + pm)).
Proof.
  induction h as [|[o its] h IH]; intros mx; simpl.
  - repeat split; [lia|tauto|now left].
  - specialize (IH (Nat.max mx (S (o + pm)))). destruct (concat_one pm (Nat.max mx (S (o + pm))) h) as [r mx'].
    simpl in *. destruct IH as (I1 & I2 & I3 & I4). split; [unfold shift at 1; simpl; now rewrite I1|].
    split; [lia|]. split.
    + intros b [E|E]; [subst b; simpl; lia|apply I3; exact E].
    + destruct I4 as [E|[b [Hb E]]].
      * destruct (Nat.max_spec mx (S (o + pm))) as [[_ M]|[_ M]]; rewrite M in E.
        -- right. exists (o, its). split; [now left|exact E].
        -- now left.
      * right. exists b. split; [now right|exact E].
Qed.

Lemma shift_numbered pm k (bs : list (list A)) : map (shift pm) (numbered_from k bs) = numbered_from (k + pm) bs.
Proof.
  revert k. induction bs as [|b bs IH]; intros k; [reflexivity|]. rewrite !numbered_from_cons. simpl. unfold shift at 1; simpl.
  f_equal. apply IH.
Qed.

Lemma concat_one_perm pm (bs : list (list A)) (h : hist) : Permutation h (numbered_from 0 bs) ->
  Permutation (fst (concat_one pm pm h)) (numbered_from pm bs) /\ snd (concat_one pm pm h) = pm + length bs.
Proof.
  intros P. destruct (concat_one_spec pm h pm) as (I1 & I2 & I3 & I4). split.
  - rewrite I1. replace pm with (0 + pm) at 2 by lia. rewrite <- shift_numbered. apply Permutation_map. exact P.
  - assert (K : Permutation (map fst h) (seq 0 (length bs))).
    { rewrite <- (numbered_from_fst A 0 bs). apply Permutation_map. exact P. }
    destruct (length bs) as [|n] eqn:En.
    + apply Permutation_sym, Permutation_nil in K. destruct h; [|discriminate]. simpl. lia.
    + assert (In n (map fst h)) as Hn.
      { eapply Permutation_in; [apply Permutation_sym; exact K|]. apply in_seq. lia. }
      apply in_map_iff in Hn. destruct Hn as [b [Eb Hb]]. pose proof (I3 b Hb) as L. rewrite Eb in L.
      destruct I4 as [E|[b' [Hb' E]]]; [lia|].
      assert (In (fst b') (seq 0 (S n))) as X.
      { eapply Permutation_in; [exact K|]. apply in_map. exact Hb'. }
      apply in_seq in X. lia.
Qed.

Lemma concat_from_perm : forall (hs : list hist) (bss : list (list (list A))) pm,
  Forall2 (fun h bs => Permutation h (numbered_from 0 bs)) hs bss ->
  Permutation (concat_from pm hs) (numbered_from pm (concat bss)).
Proof.
  intros hs bss pm F. revert pm. induction F as [|h bs hs bss P F IH]; intros pm; simpl; [constructor|].
  destruct (concat_one_perm pm bs h P) as [Q1 Q2]. destruct (concat_one pm pm h) as [r mx]. simpl in *. subst mx.
  rewrite numbered_from_app. apply Permutation_app; [exact Q1|apply IH].
Qed.

Lemma concat_spec (hs : list hist) (bss : list (list (list A))) :
  Forall2 (fun h bs => Permutation h (numbered_from 0 bs)) hs bss ->
  Permutation (concat_streams hs) (numbered_from 0 (concat bss)) /\
  sortb (concat_streams hs) = numbered_from 0 (concat bss) /\
  flatten (sortb (concat_streams hs)) = concat (concat bss).
Proof.
  intros F. pose proof (concat_from_perm hs bss 0 F) as P. split; [exact P|].
  assert (S : sortb (concat_streams hs) = numbered_from 0 (concat bss)) by (apply sortb_spec; exact P).
  split; [exact S|]. rewrite S. apply flatten_numbered.
Qed.

(** ---------------- Pool *)
Lemma pool_spec (hs : list hist) (m o : hist) :
  Permutation m (concat hs) -> Permutation o (pool_number m) ->
  Permutation (map fst o) (seq 0 (length (concat hs))) /\
  Permutation (map snd o) (map snd (concat hs)) /\
  sortb o = numbered_from 0 (map snd m).
Proof.
  intros Pm Po. unfold pool_number in *. split; [|split].
  - eapply Permutation_trans; [apply Permutation_map; exact Po|]. rewrite numbered_from_fst, map_length.
    rewrite (Permutation_length Pm). apply Permutation_refl.
  - eapply Permutation_trans; [apply Permutation_map; exact Po|]. rewrite numbered_from_snd.
    apply Permutation_map. exact Pm.
  - apply sortb_spec. exact Po.
Qed.

(** ---------------- per-batch maps (workers) *)
Lemma on_items_numbered (g : list A -> list A) k (bs : list (list A)) :
  map (on_items g) (numbered_from k bs) = numbered_from k (map g bs).
Proof. revert k. induction bs as [|b bs IH]; intros k; [reflexivity|]. simpl map. rewrite !numbered_from_cons. simpl. unfold on_items at 1; simpl. f_equal. apply IH. Qed.

Lemma concat_map_filter (p : A -> bool) (bs : list (list A)) : concat (map (filter p) bs) = filter p (concat bs).
Proof. induction bs as [|b bs IH]; [reflexivity|]. simpl. now rewrite filter_app, IH. Qed.
Lemma concat_map_flat_map (f : A -> list A) (bs : list (list A)) : concat (map (flat_map f) bs) = flat_map f (concat bs).
Proof. induction bs as [|b bs IH]; [reflexivity|]. simpl. now rewrite flat_map_app, IH. Qed.

(** FilterOn: whatever the order [e] in which the filter workers deliver the filtered batches *)
Lemma filteron_spec p size (bs : list (list A)) (h e : hist) :
  1 <= size -> Permutation h (numbered_from 0 bs) -> Permutation e (fmap p h) ->
  chunked size (rebatch size e) (filter p (concat bs)) /\ rebatch size e = filteron p size h.
Proof.
  intros Hs P Pe.
  assert (Q : Permutation (fmap p h) (numbered_from 0 (map (filter p) bs))).
  { unfold fmap. rewrite <- on_items_numbered. apply Permutation_map. exact P. }
  split.
  - rewrite <- concat_map_filter. apply rebatch_spec; [exact Hs|]. eapply Permutation_trans; eassumption.
  - unfold filteron, rebatch. f_equal. f_equal. f_equal. eapply sortb_perm_invariant; eassumption.
Qed.

(** a history that is numbered 0..m-1 in delivery order is its own sorted form *)
Lemma self_numbered (r : hist) : map fst r = seq 0 (length r) -> r = numbered_from 0 (map snd r).
Proof.
  unfold numbered_from. rewrite map_length. intros H. rewrite <- H. clear H.
  induction r as [|[o its] r IH]; [reflexivity|]. simpl. f_equal. exact IH.
Qed.
Lemma sortb_chunked size (r : hist) l : chunked size r l -> sortb r = r.
Proof.
  intros (_ & H & _). rewrite (self_numbered r H) at 2. apply sortb_spec. rewrite <- (self_numbered r H). apply Permutation_refl.
Qed.

(** ---------------- IBatchOver *)
Lemma chunks_spec size : 1 <= size -> forall fuel (l : list A), length l <= fuel ->
  concat (chunks fuel size l) = l /\
  Forall (fun c => 1 <= length c <= size) (chunks fuel size l) /\
  Forall (fun c => length c = size) (removelast (chunks fuel size l)).
Proof.
  intros Hs. induction fuel as [|f IH]; intros l Hl.
  - destruct l; [|simpl in Hl; lia]. simpl. repeat split; constructor.
  - destruct l as [|x l]; [simpl; repeat split; constructor|].
    cbn [chunks]. set (l1 := x :: l) in *.
    assert (Hsk : length (skipn size l1) <= f).
    { rewrite skipn_length. subst l1. simpl length in *. lia. }
    destruct (IH (skipn size l1) Hsk) as (I1 & I2 & I3). split; [|split].
    + cbn [concat]. rewrite I1. apply firstn_skipn.
    + constructor; [|exact I2]. rewrite firstn_length. subst l1. simpl length. lia.
    + cbn [removelast]. destruct (chunks f size (skipn size l1)) as [|c cs] eqn:E; [constructor|].
      constructor; [|exact I3]. rewrite firstn_length.
      assert (skipn size l1 <> []) as NE.
      { intros Z. rewrite Z in E. destruct f; discriminate. }
      assert (size < length l1).
      { destruct (Nat.lt_ge_cases size (length l1)); [assumption|]. exfalso. apply NE. apply skipn_all2. assumption. }
      lia.
Qed.

Lemma ibatchover_spec size (data : list A) : 1 <= size -> chunked size (ibatchover size data) data.
Proof.
  intros Hs. destruct (chunks_spec size Hs (length data) data (le_n _)) as (I1 & I2 & I3).
  unfold ibatchover, chunked. rewrite flatten_numbered, numbered_from_fst, numbered_from_snd, numbered_from_length.
  repeat split; assumption.
Qed.

End G.

(* ------------------------------------------------------------------ part 4 *)
Section G.
Variable A : Type.
Notation batch := (nat * list A)%type.
Notation hist := (list (nat * list A)).

(** ---------------- worker pool: every schedule *)
Definition inflight (l : list (option batch)) : hist :=
  flat_map (fun o => match o with Some b => [b] | None => [] end) l.

Lemma inflight_take i b (l : list (option batch)) : nth_error l i = Some None ->
  Permutation (inflight (set_nth i (Some b) l)) (b :: inflight l).
Proof.
  revert i. induction l as [|o l IH]; intros [|i] H; simpl in H; try discriminate.
  - injection H as ->. simpl. apply Permutation_refl.
  - simpl. destruct o as [c|]; simpl.
    + eapply perm_trans; [apply perm_skip; apply IH; exact H|apply perm_swap].
    + apply IH. exact H.
Qed.
Lemma inflight_emit i b (l : list (option batch)) : nth_error l i = Some (Some b) ->
  Permutation (b :: inflight (set_nth i None l)) (inflight l).
Proof.
  revert i. induction l as [|o l IH]; intros [|i] H; simpl in H; try discriminate.
  - injection H as ->. simpl. apply Permutation_refl.
  - simpl. destruct o as [c|]; simpl.
    + eapply perm_trans; [apply perm_swap|apply perm_skip; apply IH; exact H].
    + apply IH. exact H.
Qed.

Definition PoolInv (g : list A -> list A) (h : hist) (s : @pstate A) : Prop :=
  Permutation (p_emit s ++ map (on_items g) (inflight (p_infl s)) ++ map (on_items g) (p_queue s))
              (map (on_items g) h).

Lemma pstep_inv g h s l s' : PoolInv g h s -> pstep g s l = Some s' -> PoolInv g h s'.
Proof.
  unfold PoolInv. intros I H. destruct l as [i|i]; simpl in H.
  - destruct (nth_error (p_infl s) i) as [[c|]|] eqn:E; try discriminate.
    destruct (p_queue s) as [|b q] eqn:Q; [discriminate|]. injection H as <-. simpl.
    eapply perm_trans; [|exact I]. apply Permutation_app_head.
    eapply perm_trans; [apply Permutation_app_tail; apply Permutation_map; apply inflight_take; exact E|].
    simpl. apply Permutation_middle.
  - destruct (nth_error (p_infl s) i) as [[b|]|] eqn:E; try discriminate. injection H as <-. simpl.
    eapply perm_trans; [|exact I]. rewrite <- app_assoc. apply Permutation_app_head. simpl.
    rewrite app_comm_cons. apply Permutation_app_tail. change (on_items g b :: map (on_items g) (inflight (set_nth i None (p_infl s))))
      with (map (on_items g) (b :: inflight (set_nth i None (p_infl s)))).
    apply Permutation_map. apply inflight_emit. exact E.
Qed.

Lemma prun_inv g h ls : forall s s', PoolInv g h s -> prun g s ls = Some s' -> PoolInv g h s'.
Proof.
  induction ls as [|l ls IH]; intros s s' I H; simpl in H; [injection H as <-; exact I|].
  destruct (pstep g s l) as [s1|] eqn:E; [|discriminate]. eapply IH; [eapply pstep_inv; eassumption|exact H].
Qed.

Lemma inflight_repeat_none n : inflight (repeat None n) = [].
Proof. induction n; simpl; auto. Qed.

Lemma pidle_spec (s : @pstate A) : pidle s = true -> p_queue s = [] /\ inflight (p_infl s) = [].
Proof.
  unfold pidle. destruct (p_queue s); [|discriminate]. intros H. split; [reflexivity|].
  induction (p_infl s) as [|o l IH]; [reflexivity|]. simpl in *. destruct o; [discriminate|]. apply IH. exact H.
Qed.

(** every complete run of n workers, under ANY schedule [ls], emits a permutation of the mapped
    batches, each with the number of the batch it comes from *)
Lemma pool_any_schedule g n (h : hist) ls s :
  prun g (pinit n h) ls = Some s -> pidle s = true -> Permutation (p_emit s) (map (on_items g) h).
Proof.
  intros R Hi. assert (I0 : PoolInv g h (pinit n h)).
  { unfold PoolInv, pinit; simpl. rewrite inflight_repeat_none. simpl. apply Permutation_refl. }
  pose proof (prun_inv g h ls _ _ I0 R) as I. unfold PoolInv in I.
  destruct (pidle_spec s Hi) as [Q F]. rewrite Q, F in I. simpl in I. rewrite app_nil_r in I. exact I.
Qed.

(** complete runs exist for every n >= 1 (worker 0 alone can do all the work) *)
Lemma seq_schedule_run g n : forall (h e : hist),
  prun g (mkp h (repeat None (S n)) e) (seq_schedule (length h)) = Some (mkp [] (repeat None (S n)) (e ++ map (on_items g) h)).
Proof.
  induction h as [|b h IH]; intros e; simpl; [now rewrite app_nil_r|].
  rewrite IH. rewrite <- app_assoc. reflexivity.
Qed.

(** no deadlock inside the model: a state that is not finished has an enabled transition (n >= 1) *)
Lemma pool_progress g (s : @pstate A) : 1 <= length (p_infl s) -> pidle s = false -> exists l s', pstep g s l = Some s'.
Proof.
  intros Hn Hi.
  assert (D : (exists i b, nth_error (p_infl s) i = Some (Some b)) \/ forallb (fun o : option batch => match o with None => true | Some _ => false end) (p_infl s) = true).
  { induction (p_infl s) as [|o l IH]; [right; reflexivity|]. destruct o as [b|].
    - left. exists 0, b. reflexivity.
    - destruct l as [|o' l'].
      + right. reflexivity.
      + destruct IH as [[i [b E]]|E]; [simpl; lia|left; exists (S i), b; exact E|right; exact E]. }
  destruct D as [[i [b E]]|E].
  - exists (Emit i). simpl. rewrite E. eexists. reflexivity.
  - unfold pidle in Hi. destruct (p_queue s) as [|b q] eqn:Q; [congruence|].
    exists (Take 0). simpl. destruct (p_infl s) as [|o l]; [simpl in Hn; lia|]. simpl in E. destruct o; [discriminate|].
    simpl. rewrite Q. eexists. reflexivity.
Qed.

(** consequence used downstream: any worker-pool output [e] of a well numbered history, once
    re-sequenced, is the mapped partition in order *)
Lemma worker_pool_sorted (f : A -> list A) (bs : list (list A)) (h e : hist) :
  Permutation h (numbered_from 0 bs) -> Permutation e (wmap f h) ->
  sortb e = numbered_from 0 (map (flat_map f) bs) /\ flatten (sortb e) = flat_map f (concat bs).
Proof.
  intros P Pe.
  assert (Q : Permutation e (numbered_from 0 (map (flat_map f) bs))).
  { eapply Permutation_trans; [exact Pe|]. unfold wmap. rewrite <- on_items_numbered. apply Permutation_map. exact P. }
  rewrite (sortb_spec A _ e Q). split; [reflexivity|]. rewrite flatten_numbered. apply concat_map_flat_map.
Qed.

(** ---------------- pipeline: reader -> workers f -> filter workers p -> Rebatch -> resequencer *)
Lemma pipeline_spec (f : A -> list A) (p : A -> bool) size (bs : list (list A)) (h e1 e2 : hist) :
  1 <= size -> Permutation h (numbered_from 0 bs) ->
  Permutation e1 (wmap f h) ->            (* any schedule of the worker pool *)
  Permutation e2 (fmap p e1) ->           (* any schedule of the filter workers *)
  chunked size (sortb (rebatch size e2)) (filter p (flat_map f (concat bs))) /\
  sortb (rebatch size e2) = pipeline f p size h.
Proof.
  intros Hs P P1 P2.
  assert (Q1 : Permutation e1 (numbered_from 0 (map (flat_map f) bs))).
  { eapply Permutation_trans; [exact P1|]. unfold wmap. rewrite <- on_items_numbered. apply Permutation_map. exact P. }
  destruct (filteron_spec A p size (map (flat_map f) bs) e1 e2 Hs Q1 P2) as [C E].
  rewrite concat_map_flat_map in C. split.
  - rewrite (sortb_chunked A size _ _ C). exact C.
  - unfold pipeline. f_equal. rewrite E. unfold filteron, rebatch. f_equal. f_equal. f_equal.
    eapply (sortb_perm_invariant A (map (filter p) (map (flat_map f) bs))).
    + unfold fmap, wmap. rewrite <- !on_items_numbered. apply Permutation_map. apply Permutation_map. exact P.
    + unfold fmap. apply Permutation_map. exact P1.
Qed.

End G.

(** ---------------- the code before the fix: Concat with an empty first stream *)
Lemma concat_v0_refuted : exists (hs : list (list (nat * list nat))) (bss : list (list (list nat))),
  Forall2 (fun h bs => Permutation h (numbered_from 0 bs)) hs bss /\
  concat (concat bss) <> [] /\ sortb (concat_v0 hs) = [].
Proof.
  exists [[]; [(0, [7]); (1, [8])]], [[]; [[7]; [8]]]. split; [|split].
  - constructor; [apply Permutation_refl|constructor; [apply Permutation_refl|constructor]].
  - discriminate.
  - vm_compute. reflexivity.
Qed.

(* ------------------------------------------------------------------ part 5: SortBatches with a gap in the numbering *)
Section Gap.
Variable A : Type.
Notation batch := (nat * list A)%type.
Notation hist := (list (nat * list A)).

(** what SortBatches delivers when the numbering has a GAP at k (no batch numbered k ever arrives):
    only batches numbered below k — every batch numbered above the gap stays in the buffer and is
    silently dropped when the input closes.  This is the data-loss mechanism that the numbering
    theorems of the producers exclude. *)
Definition GapInv (k : nat) (s : st batch) : Prop :=
  next s <= k /\ Forall (fun b : batch => fst b < next s) (out s) /\
  (forall i b, In (i, b) (pend s) -> fst b = i /\ i <> k).

Lemma Forall_lt_mono (l : list batch) n m : n <= m -> Forall (fun b : batch => fst b < n) l -> Forall (fun b : batch => fst b < m) l.
Proof. intros H F. eapply Forall_impl; [|exact F]. simpl. intros; lia. Qed.

Lemma gap_drain k : forall fuel s, GapInv k s -> GapInv k (drain fuel s).
Proof.
  induction fuel as [|f IH]; intros s I; simpl; [exact I|].
  destruct (lookup (next s) (pend s)) as [a|] eqn:L; [|exact I].
  apply IH. destruct I as (I1 & I2 & I3). pose proof (lookup_In _ _ _ _ L) as Hin. destruct (I3 _ _ Hin) as [Ea Nk].
  unfold GapInv; simpl. split; [lia|]. split.
  - apply Forall_app. split; [apply (Forall_lt_mono _ (next s)); [lia|exact I2]|constructor; [lia|constructor]].
  - intros i b Hb. apply remove_In in Hb. apply I3. tauto.
Qed.

Lemma gap_step k s (b : batch) : fst b <> k -> GapInv k s -> GapInv k (step s (fst b, b)).
Proof.
  intros Nk (I1 & I2 & I3). unfold step. destruct (Nat.eqb_spec (fst b) (next s)) as [E|N].
  - apply gap_drain. unfold GapInv; simpl. split; [lia|]. split.
    + apply Forall_app. split; [apply (Forall_lt_mono _ (next s)); [lia|exact I2]|constructor; [lia|constructor]].
    + exact I3.
  - unfold GapInv; simpl. split; [exact I1|]. split; [exact I2|].
    intros i c [H|H]; [injection H as <- <-; split; [reflexivity|exact Nk]|apply I3; exact H].
Qed.

Lemma sortb_gap k (h : hist) : ~ In k (map fst h) -> Forall (fun b : batch => fst b < k) (sortb h).
Proof.
  intros Nk. unfold sortb, run.
  assert (G : forall (l : hist) s, (forall b, In b l -> fst b <> k) -> GapInv k s ->
              GapInv k (fold_left step (map (fun b : batch => (fst b, b)) l) s)).
  { induction l as [|b l IH]; intros s Hl I; simpl; [exact I|]. apply IH.
    - intros c Hc. apply Hl. now right.
    - apply gap_step; [apply Hl; now left|exact I]. }
  assert (I0 : GapInv k (@init batch)).
  { unfold GapInv, init; simpl. split; [lia|]. split; [constructor|intros ? ? []]. }
  destruct (G h init) as (I1 & I2 & _).
  - intros b Hb E. apply Nk. rewrite <- E. apply in_map. exact Hb.
  - exact I0.
  - apply (Forall_lt_mono _ (next (fold_left step (map (fun b : batch => (fst b, b)) h) init))); assumption.
Qed.
End Gap.

(* ------------------------------------------------------------------ part 6: ReadSequencesBatchFromFiles *)
Section RF.
Variable A : Type.
Notation hist := (list (nat * list A)).
Lemma readfiles_spec (hs : list hist) (bss : list (list (list A))) :
  Forall2 (fun h bs => Permutation h (numbered_from 0 bs)) hs bss ->
  readfiles hs = numbered_from 0 (concat bss) /\ flatten (readfiles hs) = concat (concat bss).
Proof.
  intros F. assert (E : map snd (concat (map sortb hs)) = concat bss).
  { induction F as [|h bs hs bss P F IH]; [reflexivity|]. simpl. rewrite map_app, IH.
    rewrite (sortb_spec A bs h P), numbered_from_snd. reflexivity. }
  unfold readfiles. rewrite E. split; [reflexivity|apply flatten_numbered].
Qed.
End RF.
Lemma readfiles_v0_refuted : exists (hs : list (list (nat * list nat))) (bss : list (list (list nat))),
  Forall2 (fun h bs => Permutation h (numbered_from 0 bs)) hs bss /\
  flatten (sortb (readfiles_v0 hs)) <> concat (concat bss).
Proof.
  exists [[(1, [2]); (0, [1])]], [[[1]; [2]]]. split.
  - constructor; [apply perm_swap|constructor].
  - vm_compute. discriminate.
Qed.

(* ------------------------------------------------------------------ part 7: Add / Done / WaitAndClose protocol *)

Lemma alive_set_some i k k' p : nth_error p i = Some (Some k) -> alive (set_nth i (Some k') p) = alive p.
Proof.
  unfold alive. revert i. induction p as [|o p IH]; intros [|i] H; simpl in H; try discriminate.
  - injection H as ->. reflexivity.
  - simpl. destruct o; simpl; rewrite (IH i H); reflexivity.
Qed.
Lemma alive_set_none i k p : nth_error p i = Some (Some k) -> S (alive (set_nth i None p)) = alive p.
Proof.
  unfold alive. revert i. induction p as [|o p IH]; intros [|i] H; simpl in H; try discriminate.
  - injection H as ->. reflexivity.
  - simpl. destruct o; simpl; rewrite <- (IH i H); reflexivity.
Qed.
Lemma remaining_set_some i k p : nth_error p i = Some (Some (S k)) -> S (remaining (set_nth i (Some k) p)) = remaining p.
Proof.
  unfold remaining. revert i. induction p as [|o p IH]; intros [|i] H; simpl in H; try discriminate.
  - injection H as ->. reflexivity.
  - simpl. rewrite <- (IH i H). lia.
Qed.
Lemma remaining_set_none i p : nth_error p i = Some (Some 0) -> remaining (set_nth i None p) = remaining p.
Proof.
  unfold remaining. revert i. induction p as [|o p IH]; intros [|i] H; simpl in H; try discriminate.
  - injection H as ->. reflexivity.
  - simpl. rewrite (IH i H). reflexivity.
Qed.
Lemma alive_zero_remaining p : alive p = 0 -> remaining p = 0.
Proof.
  unfold alive, remaining. induction p as [|o p IH]; [reflexivity|]. simpl. destruct o; simpl; [discriminate|exact IH].
Qed.
Lemma alive_pos_nth p : 0 < alive p -> exists i k, nth_error p i = Some (Some k).
Proof.
  unfold alive. induction p as [|o p IH]; simpl; [lia|]. destruct o as [k|]; simpl.
  - intros _. exists 0, k. reflexivity.
  - intros H. destruct (IH H) as [i [k E]]. exists (S i), k. exact E.
Qed.

Definition TInv (total : nat) (s : tstate) : Prop :=
  t_wg s = alive (t_prod s) /\ (t_closed s = true -> t_wg s = 0) /\ t_pushed s + remaining (t_prod s) = total.

Lemma tstep_inv total s l s' : TInv total s -> tstep s l = Some s' -> TInv total s' /\ S (tmeasure s') = tmeasure s.
Proof.
  intros (I1 & I2 & I3) H. unfold tmeasure. destruct l as [i|i|]; simpl in H.
  - destruct (nth_error (t_prod s) i) as [[[|k]|]|] eqn:E; try discriminate.
    destruct (t_closed s) eqn:C; [discriminate|]. injection H as <-. unfold TInv; simpl.
    pose proof (alive_set_some i (S k) k _ E). pose proof (remaining_set_some i k _ E). repeat split; try lia; discriminate.
  - destruct (nth_error (t_prod s) i) as [[[|k]|]|] eqn:E; try discriminate.
    destruct (t_wg s) as [|w] eqn:W; [discriminate|]. injection H as <-. unfold TInv; simpl.
    pose proof (alive_set_none i 0 _ E). pose proof (remaining_set_none i _ E).
    destruct (t_closed s) eqn:C; [specialize (I2 eq_refl); discriminate|]. repeat split; try lia; discriminate.
  - destruct (t_closed s) eqn:C; [discriminate|]. destruct (t_wg s) eqn:W; [|discriminate]. injection H as <-.
    unfold TInv; simpl. repeat split; lia.
Qed.

Lemma tinit_inv pushes : TInv (list_sum pushes) (tinit pushes).
Proof.
  unfold TInv, tinit; simpl. split; [|split; [discriminate|]].
  - unfold alive. induction pushes; simpl; auto.
  - unfold remaining. rewrite map_map. rewrite map_id. reflexivity.
Qed.

Lemma trun_inv total ls : forall s s', TInv total s -> trun s ls = Some s' ->
  TInv total s' /\ length ls + tmeasure s' = tmeasure s.
Proof.
  induction ls as [|l ls IH]; intros s s' I H; simpl in H; [injection H as <-; split; [exact I|reflexivity]|].
  destruct (tstep s l) as [s1|] eqn:E; [|discriminate]. destruct (tstep_inv total s l s1 I E) as [I1 M1].
  destruct (IH s1 s' I1 H) as [I' M']. split; [exact I'|]. simpl. lia.
Qed.

(** safety: on every run of the protocol no push on a closed channel and no negative counter is ever
    possible; when the channel is closed every producer has finished and every push has been made *)
Lemma termination_safety pushes ls s : trun (tinit pushes) ls = Some s ->
  tpanic s = false /\ (t_closed s = true -> t_pushed s = list_sum pushes /\ alive (t_prod s) = 0).
Proof.
  intros R. destruct (trun_inv _ ls _ _ (tinit_inv pushes) R) as [(I1 & I2 & I3) _]. split.
  - unfold tpanic. destruct (t_closed s) eqn:C; simpl.
    + specialize (I2 eq_refl). rewrite I2 in I1. rewrite (alive_zero_remaining _ (eq_sym I1)), <- I1. simpl. now rewrite andb_false_r.
    + rewrite I1. destruct (alive (t_prod s)); reflexivity.
  - intros C. specialize (I2 C). rewrite I2 in I1. pose proof (alive_zero_remaining _ (eq_sym I1)). lia.
Qed.

(** liveness inside the model: while the channel is not closed some transition is enabled, and every
    transition decreases [tmeasure] by one: every run has at most [tmeasure (tinit pushes)] steps and a
    run that cannot be extended has closed the channel (exactly once: TClose needs [closed = false]) *)
Lemma termination_progress pushes ls s : trun (tinit pushes) ls = Some s -> t_closed s = false ->
  exists l s', tstep s l = Some s'.
Proof.
  intros R C. destruct (trun_inv _ ls _ _ (tinit_inv pushes) R) as [(I1 & I2 & I3) _].
  destruct (alive (t_prod s)) as [|a] eqn:A.
  - exists TClose. simpl. rewrite C, I1. eexists. reflexivity.
  - destruct (alive_pos_nth (t_prod s) ltac:(lia)) as [i [[|k] E]].
    + exists (TDone i). simpl. rewrite E, I1. eexists. reflexivity.
    + exists (TPush i). simpl. rewrite E, C. eexists. reflexivity.
Qed.
Lemma termination_bounded pushes ls s : trun (tinit pushes) ls = Some s ->
  length ls + tmeasure s = list_sum pushes + length pushes + 1.
Proof.
  intros R. destruct (trun_inv _ ls _ _ (tinit_inv pushes) R) as [_ M]. rewrite M. unfold tmeasure, tinit; simpl.
  assert (E1 : remaining (map Some pushes) = list_sum pushes) by (unfold remaining; rewrite map_map, map_id; reflexivity).
  assert (E2 : alive (map Some pushes) = length pushes) by (clear; unfold alive; induction pushes as [|a l IH]; simpl; [reflexivity|f_equal; exact IH]).
  rewrite E1, E2. reflexivity.
Qed.

(** the CopyTee defect in this model: Add(1) without any producer that will call Done: stuck, never closed *)
Lemma termination_copytee_v0_stuck : forall l, tstep (mkt 1 [] 0 false) l = None.
Proof. intros [i|i|]; simpl; [destruct i; reflexivity|destruct i; reflexivity|reflexivity]. Qed.

(* ------------------------------------------------------------------ part 8: PairTo *)
Section Pair.
Variable A : Type.
Notation hist := (list (nat * list A)).

Lemma combine_app_eq (X Y : Type) (a a' : list X) (b b' : list Y) : length a = length b ->
  combine (a ++ a') (b ++ b') = combine a b ++ combine a' b'.
Proof.
  revert b. induction a as [|x a IH]; intros [|y b] H; simpl in *; try discriminate; [reflexivity|].
  f_equal. apply IH. lia.
Qed.

Definition shaped (size k : nat) (r : hist) : Prop :=
  map fst r = seq k (length r) /\ Forall (fun c => 1 <= length c <= size) (map snd r) /\
  Forall (fun c => length c = size) (removelast (map snd r)).

Lemma shaped_tail size k o c r : shaped size k ((o, c) :: r) ->
  o = k /\ 1 <= length c <= size /\ (r <> [] -> length c = size) /\ shaped size (S k) r.
Proof.
  intros (H1 & H2 & H3). simpl in *. injection H1 as -> H1. inversion H2 as [|? ? H21 H22]; subst.
  split; [reflexivity|]. split; [exact H21|]. destruct r as [|b r].
  - split; [congruence|]. repeat split; constructor.
  - change (removelast (c :: map snd (b :: r))) with (c :: removelast (map snd (b :: r))) in H3.
    pose proof (Forall_inv H3) as H31. pose proof (Forall_inv_tail H3) as H32. split; [intros _; exact H31|].
    split; [exact H1|]. split; [exact H22|exact H32].
Qed.

Lemma shaped_flat_pos size k b (r : hist) : shaped size k (b :: r) -> 1 <= length (flatten (b :: r)).
Proof.
  destruct b as [o c]. intros H. apply shaped_tail in H. destruct H as (_ & H & _). unfold flatten. simpl. rewrite app_length. lia.
Qed.

Lemma pair_loop_spec size : forall (r1 r2 : hist) k, shaped size k r1 -> shaped size k r2 ->
  length (flatten r1) = length (flatten r2) ->
  exists r, pair_loop r1 r2 = Some r /\ concat (map snd r) = combine (flatten r1) (flatten r2) /\ map fst r = map fst r1.
Proof.
  induction r1 as [|[o c1] r1 IH]; intros r2 k S1 S2 L.
  - destruct r2 as [|b r2]; [exists []; repeat split|]. pose proof (shaped_flat_pos _ _ _ _ S2) as Hp. rewrite <- L in Hp. simpl in Hp. lia.
  - destruct r2 as [|[o' c2] r2]; [pose proof (shaped_flat_pos _ _ _ _ S1) as Hp; rewrite L in Hp; simpl in Hp; lia|].
    destruct (shaped_tail _ _ _ _ _ S1) as (-> & B1 & F1 & T1). destruct (shaped_tail _ _ _ _ _ S2) as (-> & B2 & F2 & T2).
    unfold flatten in L. simpl in L. rewrite !app_length in L. fold (flatten r1) in L. fold (flatten r2) in L.
    assert (E : length c1 = length c2).
    { destruct r1 as [|b1 r1']; destruct r2 as [|b2 r2'].
      - simpl in L. lia.
      - pose proof (shaped_flat_pos _ _ _ _ T2). pose proof (F2 ltac:(discriminate)). assert (Z0 : length (flatten (@nil (nat * list A))) = 0) by reflexivity. lia.
      - pose proof (shaped_flat_pos _ _ _ _ T1). pose proof (F1 ltac:(discriminate)). assert (Z0 : length (flatten (@nil (nat * list A))) = 0) by reflexivity. lia.
      - rewrite (F1 ltac:(discriminate)), (F2 ltac:(discriminate)). reflexivity. }
    destruct (IH r2 (S k) T1 T2 ltac:(lia)) as (r & R1 & R2 & R3).
    exists ((k, combine c1 c2) :: r). simpl. rewrite Nat.eqb_refl, E, Nat.eqb_refl. simpl. rewrite R1. simpl.
    split; [reflexivity|]. split.
    + unfold flatten. simpl. fold (flatten r1). fold (flatten r2). rewrite combine_app_eq by exact E. now rewrite R2.
    + now rewrite R3.
Qed.

Lemma chunked_shaped size (r : hist) l : chunked size r l -> shaped size 0 r /\ flatten r = l.
Proof. intros (H1 & H2 & H3 & H4). split; [split; [exact H2|split; assumption]|exact H1]. Qed.

(** PairTo on well formed pairs (both files have the same number of records): the k-th forward
    record is paired with the k-th reverse record, whatever the two partitions and arrival orders *)
Lemma pairto_spec size (bs1 bs2 : list (list A)) (h1 h2 : hist) :
  1 <= size -> Permutation h1 (numbered_from 0 bs1) -> Permutation h2 (numbered_from 0 bs2) ->
  length (concat bs1) = length (concat bs2) ->
  exists r, pairto size h1 h2 = Some r /\
            concat (map snd r) = combine (concat bs1) (concat bs2) /\ map fst r = seq 0 (length r).
Proof.
  intros Hs P1 P2 L. unfold pairto.
  pose proof (rebatch_spec A size bs1 h1 Hs P1) as C1. pose proof (rebatch_spec A size bs2 h2 Hs P2) as C2.
  destruct (chunked_shaped _ _ _ C1) as [S1 F1]. destruct (chunked_shaped _ _ _ C2) as [S2 F2].
  destruct (pair_loop_spec size _ _ 0 S1 S2 ltac:(rewrite F1, F2; exact L)) as (r & R1 & R2 & R3).
  exists r. split; [exact R1|]. split; [now rewrite R2, F1, F2|].
  destruct S1 as (N1 & _). rewrite R3, N1. f_equal. rewrite <- (map_length fst r), R3, map_length. reflexivity.
Qed.

End Pair.
(** the reverse file is shorter: fatal *)
Lemma pairto_short_reverse_fatal : pairto 2 [(0, [1; 2; 3])] [(0, [11; 12])] = None.
Proof. vm_compute. reflexivity. Qed.

(* ------------------------------------------------------------------ part 9: the Rebatch loop as written *)
Section Loop.
Variable A : Type.
Notation hist := (list (nat * list A)).

Lemma run_no_fire size (xs : list A) : forall a, xs <> [] -> length (a_buf a) + length xs <= size ->
  fold_left (rebatch_step size) xs a = acc_check size (mkacc (a_ord a) (a_buf a ++ xs) (a_out a)).
Proof.
  induction xs as [|x xs IH]; intros a NE L; [congruence|].
  destruct xs as [|y xs]; [reflexivity|].
  change (fold_left (rebatch_step size) (x :: y :: xs) a) with (fold_left (rebatch_step size) (y :: xs) (rebatch_step size a x)).
  assert (E : rebatch_step size a x = acc_add x a).
  { unfold rebatch_step, acc_check. destruct (Nat.eqb_spec (length (a_buf (acc_add x a))) size) as [E|E]; [|reflexivity].
    unfold acc_add in E; cbn [a_buf] in E. rewrite app_length in E. simpl in E, L. lia. }
  rewrite E. rewrite IH; [|discriminate|].
  - unfold acc_add; cbn [a_buf a_ord a_out]. rewrite <- app_assoc. reflexivity.
  - unfold acc_add; cbn [a_buf]. rewrite app_length. simpl in *. lia.
Qed.

Lemma check_lt size (a : @acc A) : 1 <= size -> length (a_buf (acc_check size a)) < size \/ length (a_buf a) > size.
Proof.
  intros Hs. unfold acc_check. destruct (Nat.eqb_spec (length (a_buf a)) size) as [E|E]; simpl; lia.
Qed.

Lemma rb_batch_equiv size : 1 <= size -> forall fuel (rest : list A) a, length rest <= fuel -> length (a_buf a) < size ->
  rb_batch fuel size rest a = fold_left (rebatch_step size) rest a /\
  length (a_buf (fold_left (rebatch_step size) rest a)) < size.
Proof.
  intros Hs. induction fuel as [|f IH]; intros rest a Hf Hb.
  - destruct rest; [simpl; split; [reflexivity|exact Hb]|simpl in Hf; lia].
  - destruct rest as [|x rest]; [simpl; split; [reflexivity|exact Hb]|].
    cbn [rb_batch]. set (l := x :: rest) in *. set (n := Nat.min (length l) (size - length (a_buf a))).
    assert (Hn : 1 <= n <= length l) by (subst n l; simpl length in *; lia).
    assert (Hn2 : length (a_buf a) + n <= size) by (subst n; lia).
    assert (NE : firstn n l <> []) by (intros Z; apply (f_equal (@length A)) in Z; rewrite firstn_length in Z; simpl in Z; lia).
    set (a1 := acc_check size (mkacc (a_ord a) (a_buf a ++ firstn n l) (a_out a))).
    assert (F : fold_left (rebatch_step size) l a = fold_left (rebatch_step size) (skipn n l) a1).
    { rewrite <- (firstn_skipn n l) at 1. rewrite fold_left_app.
      rewrite (run_no_fire size (firstn n l) a NE) by (rewrite firstn_length; lia). reflexivity. }
    assert (Hb1 : length (a_buf a1) < size).
    { destruct (check_lt size (mkacc (a_ord a) (a_buf a ++ firstn n l) (a_out a)) Hs) as [H|H]; [exact H|].
      cbn [a_buf] in H. rewrite app_length, firstn_length in H. lia. }
    rewrite F. apply IH; [rewrite skipn_length; subst l; simpl length in *; lia|exact Hb1].
Qed.

Lemma rebatch_loop_equiv size (h : hist) : 1 <= size -> rebatch_loop size h = rebatch size h.
Proof.
  intros Hs. unfold rebatch_loop, rebatch, flatten. f_equal.
  assert (G : forall (l : hist) a, length (a_buf a) < size ->
    fold_left (fun a (b : nat * list A) => rb_batch (length (snd b)) size (snd b) a) l a =
    fold_left (rebatch_step size) (concat (map snd l)) a).
  { induction l as [|b l IH]; intros a Ha; [reflexivity|]. simpl. rewrite fold_left_app.
    destruct (rb_batch_equiv size Hs (length (snd b)) (snd b) a (le_n _) Ha) as [E L]. rewrite E. apply IH. exact L. }
  apply G. simpl. lia.
Qed.
End Loop.

(* ------------------------------------------------------------------ part 10: IFragments *)
Section Frag.
Variable B : Type.

Lemma frag_loop_spec len step : 1 <= step -> step <= len -> forall fuel (rest : list B),
  length rest <= fuel -> rest <> [] ->
  let fs := frag_loop fuel len step rest in
  fs <> [] /\ concat (map (firstn step) (removelast fs)) ++ last fs [] = rest /\
  Forall (fun f => length f = len) (removelast fs) /\ 1 <= length (last fs []) < len + step.
Proof.
  intros H1 H2. induction fuel as [|f IH]; intros rest Hf NE; [destruct rest; [congruence|simpl in Hf; lia]|].
  destruct rest as [|x rest]; [congruence|]. cbn [frag_loop]. set (l := x :: rest) in *.
  destruct (Nat.ltb_spec (length l - Nat.min len (length l)) step) as [L|L].
  - simpl. split; [discriminate|]. split; [reflexivity|]. split; [constructor|].
    subst l. simpl length in *. lia.
  - assert (Hlen : len + step <= length l) by lia.
    assert (Hw : Nat.min len (length l) = len) by lia. rewrite Hw.
    assert (Hsk : length (skipn step l) <= f) by (rewrite skipn_length; subst l; simpl length in *; lia).
    assert (NE' : skipn step l <> []).
    { intros Z. apply (f_equal (@length B)) in Z. rewrite skipn_length in Z. change (length (@nil B)) with 0 in Z. lia. }
    destruct (IH (skipn step l) Hsk NE') as (I1 & I2 & I3 & I4). cbv zeta in *.
    set (fs' := frag_loop f len step (skipn step l)) in *.
    split; [discriminate|]. destruct fs' as [|g gs] eqn:E; [congruence|].
    change (removelast (firstn len l :: g :: gs)) with (firstn len l :: removelast (g :: gs)).
    change (last (firstn len l :: g :: gs) []) with (last (g :: gs) []).
    split; [|split; [|exact I4]].
    + cbn [map concat]. rewrite <- app_assoc, I2. rewrite firstn_firstn. replace (Nat.min step len) with step by lia.
      apply firstn_skipn.
    + constructor; [rewrite firstn_length; lia|exact I3].
Qed.

(** the fragments of one record: concatenating the first [step] symbols of every fragment but the last,
    then the whole last fragment, rebuilds the sequence; all fragments but the last have [len] symbols *)
Lemma fragments_of_spec minsize len overlap (s : list B) : overlap < len ->
  let step := len - overlap in let fs := fragments_of minsize len overlap s in
  concat (map (firstn step) (removelast fs)) ++ last fs [] = s /\
  (minsize < length s -> Forall (fun f => length f = len) (removelast fs)) /\
  (length s <= minsize -> fs = [s]).
Proof.
  intros Ho. cbv zeta. unfold fragments_of. destruct (Nat.leb_spec (length s) minsize) as [L|L].
  - simpl. split; [reflexivity|]. split; [lia|reflexivity].
  - assert (NE : s <> []) by (intros ->; simpl in L; lia).
    destruct (frag_loop_spec len (len - overlap) ltac:(lia) ltac:(lia) (length s) s (le_n _) NE) as (_ & I2 & I3 & _).
    split; [exact I2|]. split; [intros _; exact I3|lia].
Qed.

(** stream level: whatever the schedule [e] of the fragmenting workers, the output is the fragments of
    the records in input order, cut in batches 0..m-1 *)
Lemma ifragments_spec minsize len overlap size (bs : list (list (list B))) (h e : list (nat * list (list B))) :
  1 <= size -> Permutation h (numbered_from 0 bs) -> Permutation e (wmap (fragments_of minsize len overlap) h) ->
  chunked size (rebatch size e) (flat_map (fragments_of minsize len overlap) (concat bs)) /\
  rebatch size e = ifragments minsize len overlap size h.
Proof.
  intros Hs P Pe.
  assert (Q : Permutation (wmap (fragments_of minsize len overlap) h) (numbered_from 0 (map (flat_map (fragments_of minsize len overlap)) bs))).
  { unfold wmap. rewrite <- on_items_numbered. apply Permutation_map. exact P. }
  split.
  - rewrite <- concat_map_flat_map. apply rebatch_spec; [exact Hs|]. eapply Permutation_trans; eassumption.
  - unfold ifragments, rebatch. f_equal. f_equal. f_equal. eapply sortb_perm_invariant; eassumption.
Qed.
End Frag.

(* ------------------------------------------------------------------ part 11: IMergeSequenceBatch *)
Section Merge.
Variable A : Type.

Lemma imerge_spec (rep : list A -> A) size (h : list (nat * list A)) : 1 <= size ->
  chunked size (imerge rep size h) (map (fun b => rep (snd b)) h).
Proof. intros Hs. apply ibatchover_spec. exact Hs. Qed.
End Merge.


(* ------------------------------------------------------------------ round 2: new combinators *)
Section R2.
Variable A : Type.
Notation batch := (nat * list A)%type.
Notation hist := (list (nat * list A)).

Lemma Permutation_concat {X} (a b : list (list X)) : Permutation a b -> Permutation (concat a) (concat b).
Proof.
  induction 1 as [|x a b P IH|x y a|a b c P1 IH1 P2 IH2]; simpl.
  - constructor.
  - apply Permutation_app_head. exact IH.
  - rewrite !app_assoc. apply Permutation_app_tail. apply Permutation_app_comm.
  - eapply perm_trans; eassumption.
Qed.

(** Split: whatever consumer receives each batch, every batch is received exactly once *)
Lemma map_ext_notin {X} (f g : nat -> list X) j l : ~ In j l -> (forall i, i <> j -> f i = g i) -> map f l = map g l.
Proof. intros N E. apply map_ext_in. intros i I. apply E. intros ->. contradiction. Qed.
Lemma concat_insert {X} (b : X) j (f : nat -> list X) l : NoDup l -> In j l ->
  Permutation (concat (map (fun i => (if Nat.eqb j i then [b] else []) ++ f i) l)) (b :: concat (map f l)).
Proof.
  induction l as [|i l IH]; intros ND I; [contradiction|]. inversion ND as [|? ? Ni ND']; subst. simpl.
  destruct (Nat.eqb_spec j i) as [->|Ne].
  - simpl. rewrite (map_ext_notin (fun i0 => (if Nat.eqb i i0 then [b] else []) ++ f i0) f i l Ni); [reflexivity|].
    intros k Hk. destruct (Nat.eqb_spec i k); [congruence|reflexivity].
  - destruct I as [->|I]; [congruence|]. simpl. rewrite (IH ND' I). symmetry. apply Permutation_middle.
Qed.
Lemma split_recv_cons (b : batch) h j a i :
  split_recv (b :: h) (j :: a) i = (if Nat.eqb j i then [b] else []) ++ split_recv h a i.
Proof. unfold split_recv. simpl. destruct (Nat.eqb j i); reflexivity. Qed.
Lemma split_spec n (h : hist) : forall assign, length assign = length h -> Forall (fun j => j < n) assign ->
  Permutation (concat (map (split_recv h assign) (seq 0 n))) h.
Proof.
  induction h as [|b h IH]; intros assign L F.
  - destruct assign; [|discriminate]. unfold split_recv. simpl. clear. induction (seq 0 n) as [|i l IHl]; simpl; [constructor|exact IHl].
  - destruct assign as [|j a]; [discriminate|]. inversion F as [|? ? Hj F']; subst. simpl in L.
    rewrite (map_ext _ _ (split_recv_cons b h j a)).
    rewrite concat_insert; [|apply seq_NoDup|apply in_seq; lia]. constructor. apply IH; [lia|exact F'].
Qed.
Lemma concat_flatten_map (g : nat -> hist) l :
  concat (map (fun i => concat (map snd (g i))) l) = concat (map snd (concat (map g l))).
Proof. induction l as [|i l IHl]; simpl; [reflexivity|]. rewrite map_app, concat_app, IHl. reflexivity. Qed.
Lemma split_records n (h : hist) assign : length assign = length h -> Forall (fun j => j < n) assign ->
  Permutation (concat (map (fun i => flatten (split_recv h assign i)) (seq 0 n))) (flatten h).
Proof.
  intros L F. pose proof (split_spec n h assign L F) as P. unfold flatten.
  rewrite (concat_flatten_map (split_recv h assign) (seq 0 n)).
  apply Permutation_concat. apply Permutation_map. exact P.
Qed.

(** Load / CompleteFileIterator: the stable sort by batch number of ANY arrival order of a well-numbered
    stream is the stream in numbering order, so all the records come in input order, as one batch 0 *)
Fixpoint ssorted (l : hist) : Prop :=
  match l with [] => True | a :: t => Forall (fun y : batch => fst a < fst y) t /\ ssorted t end.
Lemma ssorted_app_inv (l1 : hist) b l2 : ssorted (l1 ++ b :: l2) ->
  Forall (fun x : batch => fst x < fst b) l1 /\ Forall (fun y : batch => fst b < fst y) l2 /\ ssorted (l1 ++ l2).
Proof.
  induction l1 as [|x l1 IH]; simpl; intros [F S].
  - split; [constructor|]. split; assumption.
  - destruct (IH S) as (A1 & A2 & A3). apply Forall_app in F. destruct F as [F1 F2].
    inversion F2 as [|? ? Hb F2']; subst. split; [constructor; assumption|]. split; [exact A2|].
    split; [apply Forall_app; split; assumption|exact A3].
Qed.
Lemma ins_middle (b : batch) (l1 l2 : hist) :
  Forall (fun x : batch => fst x < fst b) l1 -> Forall (fun y : batch => fst b < fst y) l2 ->
  ins_batch b (l1 ++ l2) = l1 ++ b :: l2.
Proof.
  intros F1 F2. induction l1 as [|x l1 IH]; simpl.
  - destruct l2 as [|y l2]; [reflexivity|]. inversion F2; subst. simpl.
    destruct (Nat.leb_spec (fst b) (fst y)); [reflexivity|lia].
  - inversion F1; subst. destruct (Nat.leb_spec (fst b) (fst x)); [lia|]. rewrite IH by assumption. reflexivity.
Qed.
Lemma stable_sort_unique (h : hist) : forall l, ssorted l -> Permutation h l -> stable_sort_batches h = l.
Proof.
  induction h as [|b h IH]; intros l S P.
  - apply Permutation_nil in P. subst. reflexivity.
  - assert (I : In b l) by (eapply Permutation_in; [exact P|left; reflexivity]).
    destruct (in_split _ _ I) as (l1 & l2 & E). subst l.
    destruct (ssorted_app_inv l1 b l2 S) as (F1 & F2 & S').
    apply Permutation_cons_app_inv in P. simpl. rewrite (IH (l1 ++ l2) S' P). apply ins_middle; assumption.
Qed.
Lemma numbered_from_ssorted k (bs : list (list A)) : ssorted (numbered_from k bs).
Proof.
  revert k. induction bs as [|b bs IH]; intros k; [exact I|]. rewrite numbered_from_cons. simpl. split; [|apply IH].
  apply Forall_forall. intros y Hy. assert (J : In (fst y) (map fst (numbered_from (S k) bs))) by (apply in_map; exact Hy).
  rewrite numbered_from_fst in J. apply in_seq in J. lia.
Qed.
Lemma stable_sort_spec (bs : list (list A)) (h : hist) : Permutation h (numbered_from 0 bs) ->
  stable_sort_batches h = numbered_from 0 bs.
Proof. intros P. apply stable_sort_unique; [apply numbered_from_ssorted|exact P]. Qed.
Lemma completefile_spec (bs : list (list A)) (h : hist) : Permutation h (numbered_from 0 bs) ->
  load h = concat bs /\
  completefile h = match concat bs with [] => [] | l => [(0, l)] end /\
  load (sortb h) = concat bs.
Proof.
  intros P. unfold completefile, load. rewrite (stable_sort_spec bs h P), flatten_numbered.
  split; [reflexivity|]. split; [reflexivity|]. rewrite (sortb_spec A bs h P).
  rewrite (stable_sort_spec bs _ (Permutation_refl _)). apply flatten_numbered.
Qed.
(** before the fix of Load: an out-of-order arrival reordered the records *)
Lemma load_v0_refuted : exists (bs : list (list nat)) (h : list (nat * list nat)),
  Permutation h (numbered_from 0 bs) /\ load_v0 h <> concat bs.
Proof. exists [[1]; [2]], [(1, [2]); (0, [1])]. split; [apply perm_swap|]. vm_compute. discriminate. Qed.

(** conditional worker pool: the worker pool theorem for the worker "f where c holds, the record itself elsewhere" *)
Lemma cond_worker_sorted (c : A -> bool) (f : A -> list A) (bs : list (list A)) (h e : hist) :
  Permutation h (numbered_from 0 bs) -> Permutation e (wmap (cond_worker c f) h) ->
  sortb e = numbered_from 0 (map (flat_map (cond_worker c f)) bs) /\
  flatten (sortb e) = flat_map (cond_worker c f) (concat bs) /\
  (forall x, c x = true -> cond_worker c f x = f x) /\ (forall x, c x = false -> cond_worker c f x = [x]).
Proof.
  intros P Q. destruct (worker_pool_sorted A (cond_worker c f) bs h e P Q) as [S F]. split; [exact S|].
  split; [exact F|]. split; intros x Hx; unfold cond_worker; rewrite Hx; reflexivity.
Qed.
(** nothing is lost by a conditional worker whose worker keeps its record: every unselected record is delivered *)
Lemma cond_worker_keeps_unselected (c : A -> bool) (f : A -> list A) (l : list A) :
  incl (filter (fun x => negb (c x)) l) (flat_map (cond_worker c f) l).
Proof.
  intros x I. apply filter_In in I. destruct I as [I N]. apply in_flat_map. exists x. split; [exact I|].
  unfold cond_worker. destruct (c x); [discriminate|left; reflexivity].
Qed.

(** paired streams *)
Lemma pairedwith_spec (mate : A -> A) (r : hist) :
  map fst (pairedwith mate r) = map fst r /\ flatten (pairedwith mate r) = map mate (flatten r).
Proof.
  unfold pairedwith, flatten. split.
  - rewrite map_map. reflexivity.
  - induction r as [|b r IH]; simpl; [reflexivity|]. rewrite map_app, IH. reflexivity.
Qed.
Lemma filterand_paired_spec (mate : A -> A) (p : A -> bool) size (bs : list (list A)) (h e : hist) :
  1 <= size -> Permutation h (numbered_from 0 bs) -> Permutation e (fmap (fun x => p x && p (mate x)) h) ->
  chunked size (rebatch size e) (filter (fun x => p x && p (mate x)) (concat bs)) /\
  rebatch size e = filterand_paired mate p size h /\
  flatten (pairedwith mate (rebatch size e)) = map mate (filter (fun x => p x && p (mate x)) (concat bs)).
Proof.
  intros Hs P Q. destruct (filteron_spec A (fun x => p x && p (mate x)) size bs h e Hs P Q) as [C E].
  split; [exact C|]. split; [exact E|]. rewrite (proj2 (pairedwith_spec mate _)). destruct C as [F _]. rewrite F. reflexivity.
Qed.

(** an order-sensitive consumer after Distribute (dispatcher path of obidistribute) *)
Lemma combine_fst_snd {X Y} (l : list (X * Y)) : combine (map fst l) (map snd l) = l.
Proof. induction l as [|[x y] l IH]; simpl; [reflexivity|]. rewrite IH. reflexivity. Qed.
Lemma rebatch_chunked size size2 (r : hist) l : 1 <= size2 -> chunked size r l -> chunked size2 (rebatch size2 r) l.
Proof.
  intros Hs (F & N & _). rewrite <- F. unfold flatten.
  apply (rebatch_spec A size2 (map snd r) r Hs). unfold numbered_from. rewrite map_length, <- N, combine_fst_snd. reflexivity.
Qed.
Lemma distribute_rebatch_spec code size size2 (bs : list (list A)) (h : hist) :
  1 <= size -> 1 <= size2 -> Permutation h (numbered_from 0 bs) ->
  let d := distribute_rebatch code size size2 h in
  NoDup (map fst d) /\ (forall k, In k (map fst d) <-> In k (map code (concat bs))) /\
  (forall k r, In (k, r) d -> chunked size2 r (filter (fun x => Nat.eqb (code x) k) (concat bs))).
Proof.
  intros Hs Hs2 P. destruct (distribute_spec A code size bs h Hs P) as (ND & K & C). unfold distribute_rebatch.
  assert (E : map fst (map (fun kr : nat * hist => (fst kr, rebatch size2 (snd kr))) (distribute code size h)) = map fst (distribute code size h)).
  { rewrite map_map. reflexivity. }
  cbv zeta. rewrite E. split; [exact ND|]. split; [exact K|].
  intros k r I. apply in_map_iff in I. destruct I as ([k' r'] & Eq & I). simpl in Eq. inversion Eq; subst.
  apply (rebatch_chunked size size2 r' _ Hs2). apply C. exact I.
Qed.
End R2.


(* ------------------------------------------------------------------ round 2: the close protocol as processes *)
Lemma memb_In x l : memb x l = true <-> In x l.
Proof.
  unfold memb. rewrite existsb_exists. split.
  - intros (y & I & E). apply Nat.eqb_eq in E. subst. exact I.
  - intros I. exists x. split; [exact I|apply Nat.eqb_refl].
Qed.
Lemma nodupb_NoDup l : nodupb l = true -> NoDup l.
Proof.
  induction l as [|x l IH]; simpl; intros H; [constructor|].
  apply andb_true_iff in H. destruct H as [H1 H2]. constructor; [|apply IH; exact H2].
  intros I. apply memb_In in I. rewrite I in H1. discriminate.
Qed.

Lemma set_nth_app {X} (l1 : list X) p x l2 : set_nth (length l1) x (l1 ++ p :: l2) = l1 ++ x :: l2.
Proof. induction l1 as [|y l1 IH]; simpl; [reflexivity|]. rewrite IH. reflexivity. Qed.

Definition cat (f : proc -> list nat) (ps : list proc) : list nat := concat (map f ps).
Lemma cat_split f l1 p l2 : cat f (l1 ++ p :: l2) = cat f l1 ++ f p ++ cat f l2.
Proof. unfold cat. rewrite map_app, concat_app. simpl. reflexivity. Qed.
Lemma cat_in f ps p x : In p ps -> In x (f p) -> In x (cat f ps).
Proof. intros I J. unfold cat. apply in_concat. exists (f p). split; [apply in_map; exact I|exact J]. Qed.
Lemma cat_nil f ps : (forall p, In p ps -> f p = []) -> cat f ps = [].
Proof.
  induction ps as [|p ps IH]; intros H; [reflexivity|]. unfold cat in *. simpl. rewrite (H p (or_introl eq_refl)).
  simpl. apply IH. intros q I. apply H. right. exact I.
Qed.

Lemma cstep_inv s ps i c' : cstep (s, ps) i = Some c' ->
  exists l1 p l2 a p' s', ps = l1 ++ p :: l2 /\ length l1 = i /\ head_act p = Some (a, p') /\
                          gact_step s a = Next s' /\ c' = (s', l1 ++ p' :: l2).
Proof.
  unfold cstep. simpl. destruct (nth_error ps i) as [p|] eqn:N; [|discriminate].
  destruct (head_act p) as [[a p']|] eqn:H; [|discriminate].
  destruct (gact_step s a) as [| |s'] eqn:G; try discriminate. intros E. inversion E; subst c'.
  destruct (nth_error_split ps i N) as (l1 & l2 & E1 & E2).
  exists l1, p, l2, a, p', s'. subst ps. rewrite <- E2. rewrite set_nth_app. repeat split; auto.
Qed.
Lemma cstep_make s l1 p l2 a p' s' : head_act p = Some (a, p') -> gact_step s a = Next s' ->
  cstep (s, l1 ++ p :: l2) (length l1) = Some (s', l1 ++ p' :: l2).
Proof.
  intros H G. unfold cstep. simpl. rewrite nth_error_app2 by lia. rewrite Nat.sub_diag. simpl.
  rewrite H, G, set_nth_app. reflexivity.
Qed.

Section ProtoInv.
Variable guard : nat -> nat.
Variable iters : list nat.
Variable P0 : list nat.

Definition okproc (s : gstate) (p : proc) : Prop :=
  match p with
  | Producer pu ds => forall it, In it pu -> In it iters /\ In (guard it) ds
  | Closer cs segs => (forall it, In it cs -> g_wg s (guard it) = 0) /\
                      (forall g its it, In (g, its) segs -> In it its -> guard it = g)
  | Consumer es => forall it, In it es -> In it iters
  end.

Record Inv (c : cfg) : Prop := mkInv {
  i_wg : forall g, g_wg (fst c) g = count_occ Nat.eq_dec (cat proc_dones (snd c)) g;
  i_ok : forall p, In p (snd c) -> okproc (fst c) p;
  i_nodup : NoDup (cat proc_closes (snd c));
  i_closed : forall it, g_closed (fst c) it = true <-> (In it iters /\ ~ In it (cat proc_closes (snd c)));
  i_incl : forall it, In it (cat proc_closes (snd c)) -> In it iters;
  i_zero : forall it, g_closed (fst c) it = true -> g_wg (fst c) (guard it) = 0;
  i_push : forall it, g_pushed (fst c) it + count_occ Nat.eq_dec (cat proc_pushes (snd c)) it = count_occ Nat.eq_dec P0 it }.

(** a registered producer keeps the iterator open *)
Lemma push_not_closed c pu ds it : Inv c -> In (Producer pu ds) (snd c) -> In it pu -> g_closed (fst c) it = false.
Proof.
  intros I Hp Hi. destruct (g_closed (fst c) it) eqn:C; [|reflexivity]. exfalso.
  pose proof (i_zero c I it C) as Z. rewrite (i_wg c I) in Z.
  destruct (i_ok c I _ Hp it Hi) as [_ G].
  assert (J : In (guard it) (cat proc_dones (snd c))) by (eapply cat_in; [exact Hp|exact G]).
  apply (count_occ_In Nat.eq_dec) in J. lia.
Qed.

Lemma head_no_panic c p a p' : Inv c -> In p (snd c) -> head_act p = Some (a, p') -> gact_step (fst c) a <> Panic.
Proof.
  intros I Hp H. destruct p as [pu ds|cs segs|es]; simpl in H.
  - destruct pu as [|it pu].
    + destruct ds as [|g ds]; [discriminate|]. inversion H; subst. simpl.
      assert (J : In g (cat proc_dones (snd c))) by (eapply cat_in; [exact Hp|simpl; auto]).
      apply (count_occ_In Nat.eq_dec) in J. rewrite <- (i_wg c I) in J.
      destruct (g_wg (fst c) g); [lia|discriminate].
    + inversion H; subst. simpl. rewrite (push_not_closed c _ _ it I Hp (or_introl eq_refl)). discriminate.
  - destruct cs as [|it cs].
    + destruct segs as [|[g its] segs]; [discriminate|]. inversion H; subst. simpl. destruct (g_wg (fst c) g); discriminate.
    + inversion H; subst. simpl. destruct (g_closed (fst c) it) eqn:C; [|discriminate]. exfalso.
      apply (i_closed c I) in C. destruct C as [_ C]. apply C. eapply cat_in; [exact Hp|simpl; auto].
  - destruct es as [|it es]; [discriminate|]. inversion H; subst. simpl. destruct (g_closed (fst c) it); discriminate.
Qed.

Lemma count_occ_mid (a b : list nat) x y :
  count_occ Nat.eq_dec (a ++ (x :: nil) ++ b) y = (if Nat.eq_dec x y then 1 else 0) + count_occ Nat.eq_dec (a ++ b) y.
Proof. rewrite !count_occ_app. simpl. destruct (Nat.eq_dec x y); lia. Qed.

Lemma step_inv c i c' : Inv c -> cstep c i = Some c' -> Inv c' /\ S (cmeasure c') = cmeasure c.
Proof.
  destruct c as [s ps]. intros I St.
  destruct (cstep_inv s ps i c' St) as (l1 & p & l2 & a & p' & s' & E & _ & H & G & E'). subst ps c'.
  assert (Hp : In p (l1 ++ p :: l2)) by (apply in_or_app; right; left; reflexivity).
  assert (Others : forall q, In q (l1 ++ p' :: l2) -> q = p' \/ In q (l1 ++ p :: l2)).
  { intros q J. apply in_app_or in J. destruct J as [J|[J|J]]; [right; apply in_or_app; auto|left; auto|right; apply in_or_app; right; right; exact J]. }
  pose proof (i_wg _ I) as Iwg. pose proof (i_ok _ I) as Iok. pose proof (i_nodup _ I) as Ind.
  pose proof (i_closed _ I) as Icl. pose proof (i_incl _ I) as Iin. pose proof (i_zero _ I) as Iz. pose proof (i_push _ I) as Ipu.
  simpl fst in *. simpl snd in *.
  unfold cmeasure. simpl snd. rewrite !map_app, !list_sum_app. simpl map. simpl list_sum.
  rewrite !cat_split in *.
  destruct p as [pu ds|cs segs|es]; simpl in H.
  - destruct pu as [|it pu].
    + (* Done g *)
      destruct ds as [|g ds]; [discriminate|]. inversion H; subst a p'. clear H. simpl in G.
      destruct (g_wg s g) as [|w] eqn:W; [discriminate|]. inversion G; subst s'. clear G. split; [|simpl; lia].
      constructor; cbn [fst snd g_wg g_closed g_pushed]; rewrite ?cat_split; simpl proc_dones in *; simpl proc_closes in *; simpl proc_pushes in *.
      * intros g'. unfold upd. specialize (Iwg g'). rewrite !count_occ_app in Iwg. rewrite !count_occ_app.
        cbn [count_occ] in Iwg.
        destruct (Nat.eqb_spec g' g) as [->|N].
        -- rewrite W in Iwg. destruct (Nat.eq_dec g g); [lia|congruence].
        -- rewrite Iwg. destruct (Nat.eq_dec g g'); [congruence|lia].
      * intros q J. destruct (Others q J) as [->|J'].
        -- simpl. intros it [].
        -- specialize (Iok q J'). destruct q as [pu' ds'|cs' segs'|es']; simpl in *; auto.
           destruct Iok as [A B]. split; [|exact B]. intros it Hi. specialize (A it Hi). cbn [g_wg]. unfold upd.
           destruct (Nat.eqb_spec (guard it) g) as [E|N]; [rewrite E, W in A; discriminate|exact A].
      * exact Ind.
      * exact Icl.
      * exact Iin.
      * intros it C. specialize (Iz it C). unfold upd. destruct (Nat.eqb_spec (guard it) g) as [E|N]; [rewrite E, W in Iz; discriminate|exact Iz].
      * exact Ipu.
    + (* Push it *)
      inversion H; subst a p'. clear H. simpl in G.
      destruct (g_closed s it) eqn:C; [discriminate|]. inversion G; subst s'. clear G. split; [|simpl; lia].
      constructor; cbn [fst snd g_wg g_closed g_pushed]; rewrite ?cat_split; simpl proc_dones in *; simpl proc_closes in *; simpl proc_pushes in *.
      * exact Iwg.
      * intros q J. destruct (Others q J) as [->|J'].
        -- specialize (Iok _ Hp). simpl in *. intros x Hx. apply Iok. right. exact Hx.
        -- specialize (Iok q J'). destruct q; simpl in *; auto.
      * exact Ind.
      * exact Icl.
      * exact Iin.
      * exact Iz.
      * intros x. specialize (Ipu x). unfold upd. rewrite !count_occ_app in Ipu. rewrite !count_occ_app.
        cbn [count_occ] in Ipu.
        destruct (Nat.eqb_spec x it) as [->|N].
        -- destruct (Nat.eq_dec it it); [lia|congruence].
        -- destruct (Nat.eq_dec it x); [congruence|lia].
  - destruct cs as [|it cs].
    + (* Wait g *)
      destruct segs as [|[g its] segs]; [discriminate|]. inversion H; subst a p'. clear H. simpl in G.
      destruct (g_wg s g) eqn:W; [|discriminate]. inversion G; subst s'. clear G.
      split; [|simpl; rewrite !app_length; lia].
      constructor; cbn [fst snd g_wg g_closed g_pushed]; rewrite ?cat_split; simpl proc_dones in *; simpl proc_closes in *; simpl proc_pushes in *.
      * exact Iwg.
      * intros q J. destruct (Others q J) as [->|J'].
        -- specialize (Iok _ Hp). simpl in *. destruct Iok as [_ B]. split.
           ++ intros x Hx. rewrite (B g its x (or_introl eq_refl) Hx). exact W.
           ++ intros g' its' x Hs Hx. apply (B g' its' x); [right; exact Hs|exact Hx].
        -- exact (Iok q J').
      * exact Ind.
      * exact Icl.
      * exact Iin.
      * exact Iz.
      * exact Ipu.
    + (* Close it *)
      inversion H; subst a p'. clear H. simpl in G.
      destruct (g_closed s it) eqn:C; [discriminate|]. inversion G; subst s'. clear G. split; [|simpl; lia].
      simpl proc_closes in *. rewrite <- !app_comm_cons in *.
      pose proof (NoDup_remove_1 _ _ _ Ind) as ND1. pose proof (NoDup_remove_2 _ _ _ Ind) as ND2.
      constructor; cbn [fst snd g_wg g_closed g_pushed]; rewrite ?cat_split; simpl proc_dones in *; simpl proc_closes in *; simpl proc_pushes in *.
      * exact Iwg.
      * intros q J. destruct (Others q J) as [->|J'].
        -- specialize (Iok _ Hp). simpl in *. destruct Iok as [A B]. split; [intros x Hx; apply A; right; exact Hx|exact B].
        -- exact (Iok q J').
      * exact ND1.
      * intros x. unfold upd. destruct (Nat.eqb_spec x it) as [->|N].
        -- split; [intros _|reflexivity]. split; [|exact ND2]. apply Iin. apply in_or_app. right. left. reflexivity.
        -- rewrite Icl. split; intros [A B]; (split; [exact A|]); intros J; apply B.
           ++ apply in_app_or in J. apply in_or_app. destruct J as [J|J]; [left; exact J|right; right; exact J].
           ++ apply in_app_or in J. apply in_or_app. destruct J as [J|[J|J]]; [left; exact J|congruence|right; exact J].
      * intros x J. apply Iin. apply in_app_or in J. apply in_or_app. destruct J as [J|J]; [left; exact J|right; right; exact J].
      * intros x. unfold upd. destruct (Nat.eqb_spec x it) as [->|N]; [|apply Iz]. intros _.
        specialize (Iok _ Hp). simpl in Iok. apply (proj1 Iok). left. reflexivity.
      * exact Ipu.
  - (* End it *)
    destruct es as [|it es]; [discriminate|]. inversion H; subst a p'. clear H. simpl in G.
    destruct (g_closed s it) eqn:C; [|discriminate]. inversion G; subst s'. clear G. split; [|simpl; lia].
    constructor; cbn [fst snd g_wg g_closed g_pushed]; rewrite ?cat_split; simpl proc_dones in *; simpl proc_closes in *; simpl proc_pushes in *; auto.
    intros q J. destruct (Others q J) as [->|J']; [|exact (Iok q J')].
    specialize (Iok _ Hp). simpl in *. intros x Hx. apply Iok. right. exact Hx.
Qed.

Lemma run_inv ls : forall c c', Inv c -> crun c ls = Some c' -> Inv c' /\ length ls + cmeasure c' = cmeasure c.
Proof.
  induction ls as [|i ls IH]; simpl; intros c c' I R.
  - inversion R; subst. split; [exact I|reflexivity].
  - destruct (cstep c i) as [c1|] eqn:St; [|discriminate].
    destruct (step_inv c i c1 I St) as [I1 M1]. destruct (IH c1 c' I1 R) as [I2 M2]. split; [exact I2|lia].
Qed.
End ProtoInv.

Lemma forallb_In {X} (f : X -> bool) l x : forallb f l = true -> In x l -> f x = true.
Proof. intros H I. rewrite forallb_forall in H. apply H. exact I. Qed.

Lemma init_inv guard iters procs : wf_cfg guard iters procs = true ->
  Inv guard iters (cat proc_pushes procs) (cinit procs).
Proof.
  unfold wf_cfg. intros W. apply andb_true_iff in W. destruct W as [W1 W2].
  apply andb_true_iff in W2. destruct W2 as [W2 W4]. apply andb_true_iff in W2. destruct W2 as [W2 W3].
  fold (cat proc_closes procs) in *.
  constructor; unfold cinit; cbn [fst snd g_wg g_closed g_pushed].
  - intros g. reflexivity.
  - intros p I. pose proof (forallb_In _ _ _ W1 I) as Wp. destruct p as [pu ds|cs segs|es]; simpl in *.
    + intros it Hi. pose proof (forallb_In _ _ _ Wp Hi) as H. apply andb_true_iff in H. destruct H as [H1 H2].
      split; apply memb_In; assumption.
    + apply andb_true_iff in Wp. destruct Wp as [C S]. destruct cs; [|discriminate]. split; [intros it []|].
      intros g its it Hs Hi. pose proof (forallb_In _ _ _ S Hs) as H. simpl in H.
      pose proof (forallb_In _ _ _ H Hi) as H'. apply Nat.eqb_eq in H'. exact H'.
    + intros it Hi. apply memb_In. exact (forallb_In _ _ _ Wp Hi).
  - apply nodupb_NoDup. exact W2.
  - intros it. split; [discriminate|]. intros [A B]. exfalso. apply B. apply memb_In. exact (forallb_In _ _ _ W3 A).
  - intros it I. apply memb_In. exact (forallb_In _ _ _ W4 I).
  - discriminate.
  - intros it. reflexivity.
Qed.

Section ProtoMain.
Variable guard : nat -> nat.
Variable iters : list nat.
Variable procs : list proc.
Hypothesis WF : wf_cfg guard iters procs = true.

Lemma reach_inv ls c : crun (cinit procs) ls = Some c ->
  Inv guard iters (cat proc_pushes procs) c /\ length ls + cmeasure c = cmeasure (cinit procs).
Proof. intros R. exact (run_inv guard iters _ ls _ _ (init_inv guard iters procs WF) R). Qed.

Lemma proto_safety ls c : crun (cinit procs) ls = Some c -> can_panic c = false.
Proof.
  intros R. destruct (reach_inv ls c R) as [I _]. unfold can_panic.
  destruct (existsb _ (snd c)) eqn:E; [|reflexivity]. exfalso.
  apply existsb_exists in E. destruct E as (p & Hp & H).
  destruct (head_act p) as [[a p']|] eqn:HA; [|discriminate].
  pose proof (head_no_panic guard iters _ c p a p' I Hp HA) as NP.
  destruct (gact_step (fst c) a); [apply NP; reflexivity|discriminate|discriminate].
Qed.

Lemma proto_closed_after_last_push ls c : crun (cinit procs) ls = Some c ->
  forall it, g_closed (fst c) it = true ->
    (forall p, In p (snd c) -> ~ In it (proc_pushes p)) /\ ~ In it (concat (map proc_closes (snd c))).
Proof.
  intros R it C. destruct (reach_inv ls c R) as [I _]. split.
  - intros p Hp Hi. destruct p as [pu ds|cs segs|es]; simpl in Hi; try contradiction.
    rewrite (push_not_closed guard iters _ c pu ds it I Hp Hi) in C. discriminate.
  - apply (i_closed _ _ _ _ I) in C. exact (proj2 C).
Qed.

Lemma proto_bounded ls c : crun (cinit procs) ls = Some c -> length ls + cmeasure c = cmeasure (cinit procs).
Proof. intros R. exact (proj2 (reach_inv ls c R)). Qed.

Lemma finished_lists c : cfinished c = true ->
  cat proc_dones (snd c) = [] /\ cat proc_closes (snd c) = [] /\ cat proc_pushes (snd c) = [].
Proof.
  unfold cfinished. intros F.
  assert (H : forall p, In p (snd c) -> proc_dones p = [] /\ proc_closes p = [] /\ proc_pushes p = []).
  { intros p I. pose proof (forallb_In _ _ _ F I) as Fp. unfold pfinished in Fp.
    destruct p as [[|? ?] [|? ?]|[|? ?] [|[? ?] ?]|[|? ?]]; simpl in *; try discriminate; auto. }
  repeat split; apply cat_nil; intros p I; apply (H p I).
Qed.

Lemma proto_final ls c : crun (cinit procs) ls = Some c -> cfinished c = true ->
  (forall it, In it iters -> g_closed (fst c) it = true) /\
  (forall it, g_pushed (fst c) it = count_occ Nat.eq_dec (concat (map proc_pushes procs)) it) /\
  (forall g, g_wg (fst c) g = 0).
Proof.
  intros R F. destruct (reach_inv ls c R) as [I _]. destruct (finished_lists c F) as (D & C & P). repeat split.
  - intros it Hi. apply (i_closed _ _ _ _ I). rewrite C. split; [exact Hi|intros []].
  - intros it. pose proof (i_push _ _ _ _ I it) as H. rewrite P in H. simpl in H. unfold cat in H. lia.
  - intros g. rewrite (i_wg _ _ _ _ I), D. reflexivity.
Qed.

(** progress: an unfinished producer can always move; when all producers are finished all counters are 0, so
    an unfinished closer can move; when producers and closers are finished everything is closed, so an unfinished
    consumer can move *)
Definition unfinished_producer (p : proc) : bool := match p with Producer _ _ => negb (pfinished p) | _ => false end.
Definition unfinished_closer (p : proc) : bool := match p with Closer _ _ => negb (pfinished p) | _ => false end.

Lemma existsb_false_In {X} (f : X -> bool) l x : existsb f l = false -> In x l -> f x = false.
Proof.
  intros H I. destruct (f x) eqn:E; [|reflexivity]. assert (existsb f l = true) by (apply existsb_exists; exists x; auto). congruence.
Qed.

Lemma enabled_step c p a p' s' : In p (snd c) -> head_act p = Some (a, p') -> gact_step (fst c) a = Next s' ->
  exists i c', cstep c i = Some c'.
Proof.
  intros Hp H G. destruct c as [s ps]. simpl in *. destruct (in_split _ _ Hp) as (l1 & l2 & E). subst ps.
  exists (length l1), (s', l1 ++ p' :: l2). apply (cstep_make s l1 p l2 a p' s'); assumption.
Qed.

Lemma proto_progress ls c : crun (cinit procs) ls = Some c -> cfinished c = false -> exists i c', cstep c i = Some c'.
Proof.
  intros R F. destruct (reach_inv ls c R) as [I _].
  destruct (existsb unfinished_producer (snd c)) eqn:EP.
  { apply existsb_exists in EP. destruct EP as (p & Hp & U). destruct p as [pu ds|?|?]; try discriminate.
    destruct (head_act (Producer pu ds)) as [[a p']|] eqn:H; [|unfold unfinished_producer, pfinished in U; rewrite H in U; discriminate].
    pose proof (head_no_panic guard iters _ c _ a p' I Hp H) as NP.
    destruct (gact_step (fst c) a) as [| |s'] eqn:G; [congruence| |exact (enabled_step c _ a p' s' Hp H G)].
    exfalso. destruct pu as [|it pu]; simpl in H.
    - destruct ds as [|g ds]; [discriminate|]. inversion H; subst. simpl in G. destruct (g_wg (fst c) g); discriminate.
    - inversion H; subst. simpl in G. destruct (g_closed (fst c) it); discriminate. }
  assert (D : cat proc_dones (snd c) = []).
  { apply cat_nil. intros p Hp. pose proof (existsb_false_In _ _ _ EP Hp) as U.
    destruct p as [pu ds|?|?]; try reflexivity. unfold unfinished_producer, pfinished in U. simpl in *.
    destruct pu; [|discriminate]. destruct ds; [reflexivity|discriminate]. }
  assert (Z : forall g, g_wg (fst c) g = 0) by (intros g; rewrite (i_wg _ _ _ _ I), D; reflexivity).
  destruct (existsb unfinished_closer (snd c)) eqn:EC.
  { apply existsb_exists in EC. destruct EC as (p & Hp & U). destruct p as [?|cs segs|?]; try discriminate.
    destruct (head_act (Closer cs segs)) as [[a p']|] eqn:H; [|unfold unfinished_closer, pfinished in U; rewrite H in U; discriminate].
    pose proof (head_no_panic guard iters _ c _ a p' I Hp H) as NP.
    destruct (gact_step (fst c) a) as [| |s'] eqn:G; [congruence| |exact (enabled_step c _ a p' s' Hp H G)].
    exfalso. destruct cs as [|it cs]; simpl in H.
    - destruct segs as [|[g its] segs]; [discriminate|]. inversion H; subst. simpl in G. rewrite (Z g) in G. discriminate.
    - inversion H; subst. simpl in G. destruct (g_closed (fst c) it); discriminate. }
  assert (C : cat proc_closes (snd c) = []).
  { apply cat_nil. intros p Hp. pose proof (existsb_false_In _ _ _ EC Hp) as U.
    destruct p as [?|cs segs|?]; try reflexivity. unfold unfinished_closer, pfinished in U. simpl in *.
    destruct cs; [|discriminate]. destruct segs as [|[? ?] ?]; [reflexivity|discriminate]. }
  (* some process is unfinished: it is a consumer *)
  unfold cfinished in F. assert (exists p, In p (snd c) /\ pfinished p = false) as (p & Hp & U).
  { clear -F. induction (snd c) as [|q l IH]; [discriminate|]. simpl in F. destruct (pfinished q) eqn:Q.
    - destruct (IH F) as (p & A & B). exists p. split; [right; exact A|exact B].
    - exists q. split; [left; reflexivity|exact Q]. }
  destruct p as [pu ds|cs segs|es].
  - pose proof (existsb_false_In _ _ _ EP Hp) as U'. simpl in U'. rewrite U in U'. discriminate.
  - pose proof (existsb_false_In _ _ _ EC Hp) as U'. simpl in U'. rewrite U in U'. discriminate.
  - destruct es as [|it es]; [discriminate|].
    assert (Cl : g_closed (fst c) it = true).
    { apply (i_closed _ _ _ _ I). rewrite C. split; [|intros []]. exact (i_ok _ _ _ _ I _ Hp it (or_introl eq_refl)). }
    apply (enabled_step c (Consumer (it :: es)) (GEnd it) (Consumer es) (fst c) Hp); [reflexivity|]. simpl. rewrite Cl. reflexivity.
Qed.

(** every maximal run (no goroutine can move any more) has closed every iterator — each exactly once and after
    its last push by [proto_safety] / [proto_closed_after_last_push] — delivered every push, and released every counter *)
Lemma proto_maximal_run ls c : crun (cinit procs) ls = Some c -> (forall i, cstep c i = None) ->
  cfinished c = true /\
  (forall it, In it iters -> g_closed (fst c) it = true) /\
  (forall it, g_pushed (fst c) it = count_occ Nat.eq_dec (concat (map proc_pushes procs)) it) /\
  (forall g, g_wg (fst c) g = 0).
Proof.
  intros R M. destruct (cfinished c) eqn:F.
  - split; [reflexivity|]. exact (proto_final ls c R F).
  - exfalso. destruct (proto_progress ls c R F) as (i & c' & St). rewrite M in St. discriminate.
Qed.
End ProtoMain.


Lemma cat_app f a b : cat f (a ++ b) = cat f a ++ cat f b.
Proof. unfold cat. rewrite map_app, concat_app. reflexivity. Qed.
Lemma forallb_repeat {X} (f : X -> bool) x n : f x = true -> forallb f (repeat x n) = true.
Proof. intros H. induction n; simpl; [reflexivity|]. rewrite H, IHn. reflexivity. Qed.
Lemma forallb_map_all {X Y} (f : Y -> bool) (g : X -> Y) l : (forall x, f (g x) = true) -> forallb f (map g l) = true.
Proof. intros H. induction l; simpl; [reflexivity|]. rewrite H, IHl. reflexivity. Qed.
Lemma In_memb x l : In x l -> memb x l = true.
Proof. apply memb_In. Qed.
Lemma memb_false x l : ~ In x l -> memb x l = false.
Proof. intros H. destruct (memb x l) eqn:E; [|reflexivity]. apply memb_In in E. contradiction. Qed.
Lemma nodupb_seq a m : nodupb (seq a m) = true.
Proof.
  revert a. induction m as [|m IH]; intros a; simpl; [reflexivity|]. rewrite IH, andb_true_r.
  rewrite memb_false; [reflexivity|]. rewrite in_seq. lia.
Qed.
Lemma forallb_In_all (f : nat -> bool) l : (forall x, In x l -> f x = true) -> forallb f l = true.
Proof. intros H. apply forallb_forall. exact H. Qed.

Lemma inst_std_wf pushes m : wf_cfg (fun x => x) [0] (inst_std pushes m) = true.
Proof.
  unfold wf_cfg, inst_std. apply andb_true_iff. split.
  - rewrite !forallb_app. rewrite forallb_map_all, forallb_repeat; [reflexivity|reflexivity|].
    intros n. simpl. apply forallb_repeat. reflexivity.
  - fold (cat proc_closes (map (fun n => Producer (repeat 0 n) [0]) pushes ++ [Closer [] [(0, [0])]] ++ repeat (Consumer [0]) m)).
    rewrite !cat_app.
    rewrite (cat_nil proc_closes (map _ pushes)) by (intros p I; apply in_map_iff in I; destruct I as (n & <- & _); reflexivity).
    rewrite (cat_nil proc_closes (repeat _ m)) by (intros p I; apply repeat_spec in I; subst; reflexivity).
    reflexivity.
Qed.
Lemma inst_divideon_wf sched : wf_cfg (fun x => x) [0; 1] (inst_divideon sched) = true.
Proof.
  unfold wf_cfg, inst_divideon. apply andb_true_iff. split; [|reflexivity].
  simpl. rewrite andb_true_r. apply forallb_map_all. intros [|]; reflexivity.
Qed.
Lemma inst_copytee_wf n : wf_cfg (fun _ => 0) [0; 1] (inst_copytee n) = true.
Proof.
  unfold wf_cfg, inst_copytee. apply andb_true_iff. split; [|reflexivity].
  simpl. rewrite andb_true_r. induction n; simpl; [reflexivity|exact IHn].
Qed.
Lemma inst_distribute_wf m pushes : Forall (fun k => 1 <= k <= m) pushes ->
  wf_cfg (fun _ => 0) (seq 1 m) (inst_distribute m pushes) = true.
Proof.
  intros F. unfold wf_cfg, inst_distribute. apply andb_true_iff. split.
  - rewrite forallb_app. apply andb_true_iff. split.
    + simpl. rewrite !andb_true_r. apply andb_true_iff. split.
      * apply forallb_In_all. intros x I. rewrite Forall_forall in F. specialize (F x I).
        rewrite In_memb; [reflexivity|]. apply in_seq. lia.
      * apply forallb_In_all. intros x _. reflexivity.
    + apply forallb_forall. intros p I. apply in_map_iff in I. destruct I as (k & <- & I).
      simpl. rewrite In_memb; [reflexivity|exact I].
  - fold (cat proc_closes ([Producer pushes [0]; Closer [] [(0, seq 1 m)]] ++ map (fun k => Consumer [k]) (seq 1 m))).
    rewrite cat_app.
    rewrite (cat_nil proc_closes (map _ (seq 1 m))) by (intros p I; apply in_map_iff in I; destruct I as (k & <- & _); reflexivity).
    unfold cat. simpl. rewrite !app_nil_r. rewrite nodupb_seq. simpl.
    apply andb_true_iff. split; apply forallb_In_all; intros x I; apply In_memb; exact I.
Qed.

(** a replayed trace is a run of the transition system *)
Lemma replay_crun tr : forall c c', tr_replay c tr = Some c' -> crun c (tr_labels tr) = Some c'.
Proof.
  induction tr as [|e tr IH]; simpl; intros c c' R; [exact R|].
  unfold tr_labels. simpl. fold (tr_labels tr). destruct (ev_act e) as [[i a]|]; [|simpl; apply IH; exact R].
  simpl. destruct (nth_error (snd c) i) as [p|]; [|discriminate].
  destruct (head_act p) as [[a' p']|]; [|discriminate]. destruct (gact_eqb a a'); [|discriminate].
  destruct (cstep c i) as [c1|]; [|discriminate]. apply IH. exact R.
Qed.
Lemma trace_ok_sound tr : trace_ok tr = true ->
  wf_cfg (tr_guard tr) (tr_iters tr) (tr_procs tr) = true /\ exists c, crun (cinit (tr_procs tr)) (tr_labels tr) = Some c /\ cfinished c = true.
Proof.
  unfold trace_ok. intros H. apply andb_true_iff in H. destruct H as [H R]. apply andb_true_iff in H. destruct H as [W _].
  split; [exact W|]. destruct (tr_replay (cinit (tr_procs tr)) tr) as [c|] eqn:E; [|discriminate].
  exists c. split; [apply replay_crun; exact E|exact R].
Qed.
