(** C03 — executable model of the stream combinators of pkg/obiiter (definitions only).

    A stream is observed as its ARRIVAL HISTORY: the list of batches (batch number, records) in the
    order in which they go through the channel.  Every combinator whose body is one goroutine looping
    over [iterator.Next()] is the fold that the goroutine performs over the arrival history of its
    input; a combinator that starts with [iterator.SortBatches()] folds over [sortb h].  Stages run by
    several goroutines (MakeISliceWorker, the filter workers of FilterOn, Pool) are nondeterministic:
    the worker pool is a labelled transition system over take / emit labels ([pstep]); its possible
    outputs are proved (Proofs.v) to be exactly permutations of the mapped batches, numbers kept.
    Go channels, WaitGroups and the scheduler are the primitives of this model (not modelled further). *)
From Coq Require Import List Arith NArith Bool.
From OBI.Common Require Import Reseq.
Import ListNotations.

Section Generic.
Variable A : Type.

Local Notation batch := (nat * list A)%type.
Local Notation hist := (list (nat * list A)).

Definition flatten (h : hist) : list A := concat (map snd h).

(** numbering of a partition: [(k, b_0); (k+1, b_1); ...] *)
Definition numbered_from (k : nat) (bs : list (list A)) : hist := combine (seq k (length bs)) bs.

(** SortBatches (batchiterator.go): the re-sequencing buffer of Common/Reseq, the buffered value
    being the whole batch (it keeps its number). *)
Definition sortb (h : hist) : hist := out (run (map (fun b : batch => (fst b, b)) h)).

(** specification vocabulary: [r] cuts the record list [l] into consecutive batches numbered 0..m-1 in
    delivery order, none empty, none larger than [size], all full except possibly the last one *)
Definition chunked (size : nat) (r : hist) (l : list A) : Prop :=
  flatten r = l /\ map fst r = seq 0 (length r) /\
  Forall (fun c => 1 <= length c <= size) (map snd r) /\
  Forall (fun c => length c = size) (removelast (map snd r)).

(** ---- the "slice + order counter" accumulator shared by Rebatch, DivideOn, Distribute:
    [buffer = append(buffer, s)], [if len(buffer) == size { Push(order, buffer); order++; buffer = new }],
    and after the loop [if len(buffer) > 0 { Push(order, buffer) }]. *)
Record acc := mkacc { a_ord : nat; a_buf : list A; a_out : hist }.
Definition acc0 : acc := mkacc 0 [] [].
Definition acc_add (x : A) (a : acc) : acc := mkacc (a_ord a) (a_buf a ++ [x]) (a_out a).
Definition acc_check (size : nat) (a : acc) : acc :=
  if Nat.eqb (length (a_buf a)) size
  then mkacc (S (a_ord a)) [] (a_out a ++ [(a_ord a, a_buf a)])
  else a.
Definition acc_final (a : acc) : hist :=
  if Nat.ltb 0 (length (a_buf a)) then a_out a ++ [(a_ord a, a_buf a)] else a_out a.

(** Rebatch(size): iterator.SortBatches(), then every record is appended to the buffer, which is
    pushed when it holds [size] records (the Go loop copies the records of a batch by runs of
    [min(remaining, size - len(buffer))]; for size >= 1 that is record by record with the same test
    [len(buffer) == size] after each run — the correspondence run ties the two). *)
Definition rebatch_step (size : nat) (a : acc) (x : A) : acc := acc_check size (acc_add x a).
Definition rebatch (size : nat) (h : hist) : hist :=
  acc_final (fold_left (rebatch_step size) (flatten (sortb h)) acc0).

(** Rebatch, the loop as written in batchiterator.go: the records of one input batch are copied by
    runs — [space := size - len(buffer); to_push := min(lc-i, space); buffer = append(buffer,
    seqs[i:i+to_push]); if len(buffer) == size {push; order++; buffer = new}; i += to_push] — until
    the batch is exhausted ([rest] is seqs[i:]; fuel = number of records of the batch: every run copies
    at least one record when size >= 1; with size = 0 the Go loop does not terminate). [rebatch] above
    is the same function written record by record (theorem [rebatch_loop_equiv]). *)
Fixpoint rb_batch (fuel size : nat) (rest : list A) (a : acc) : acc :=
  match fuel with
  | O => a
  | S f =>
      match rest with
      | [] => a
      | _ => let to_push := Nat.min (length rest) (size - length (a_buf a)) in
             rb_batch f size (skipn to_push rest)
                      (acc_check size (mkacc (a_ord a) (a_buf a ++ firstn to_push rest) (a_out a)))
      end
  end.
Definition rebatch_loop (size : nat) (h : hist) : hist :=
  acc_final (fold_left (fun a (b : nat * list A) => rb_batch (length (snd b)) size (snd b) a) (sortb h) acc0).


(** FilterEmpty: SortBatches, non-empty batches renumbered by a counter. *)
Fixpoint fe_loop (order : nat) (l : hist) : hist :=
  match l with
  | [] => []
  | b :: l' => if Nat.ltb 0 (length (snd b)) then (order, snd b) :: fe_loop (S order) l'
               else fe_loop order l'
  end.
Definition filterempty (h : hist) : hist := fe_loop 0 (sortb h).

(** what one worker does to one batch: the number is kept, the slice is replaced *)
Definition on_items (g : list A -> list A) (b : batch) : batch := (fst b, g (snd b)).
Definition wmap (f : A -> list A) (h : hist) : hist := map (on_items (flat_map f)) h.
Definition fmap (p : A -> bool) (h : hist) : hist := map (on_items (filter p)) h.

(** FilterOn / FilterAnd (unpaired): n workers filter each batch in place (number kept, arrival
    order on the intermediate channel = any permutation, see [pstep]); then Rebatch(size). Rebatch
    begins with SortBatches, so (theorem) the result does not depend on that permutation: the model
    evaluates it on the representative "same arrival order as the input". *)
Definition filteron (p : A -> bool) (size : nat) (h : hist) : hist := rebatch size (fmap p h).

(** DivideOn(predicate, size): SortBatches; each record goes to the true or the false slice; BOTH
    slices are tested for [len == size] after every record; leftovers pushed at the end. *)
Definition div_step (p : A -> bool) (size : nat) (st : acc * acc) (x : A) : acc * acc :=
  let '(t, f) := st in
  let '(t1, f1) := if p x then (acc_add x t, f) else (t, acc_add x f) in
  (acc_check size t1, acc_check size f1).
Definition divideon (p : A -> bool) (size : nat) (h : hist) : hist * hist :=
  let '(t, f) := fold_left (div_step p size) (flatten (sortb h)) (acc0, acc0) in
  (acc_final t, acc_final f).

(** Distribute(classifier, size): SortBatches; per key a slice + counter, created (and announced on
    the [news] channel) at the first record with that key; the association list keeps the keys in
    order of first appearance (= the order of the announcements). *)
Fixpoint dist_upd (size k : nat) (x : A) (m : list (nat * acc)) : list (nat * acc) :=
  match m with
  | [] => [(k, acc_check size (acc_add x acc0))]
  | (k', a) :: m' => if Nat.eqb k' k then (k', acc_check size (acc_add x a)) :: m'
                     else (k', a) :: dist_upd size k x m'
  end.
Definition dist_state (code : A -> nat) (size : nat) (l : list A) : list (nat * acc) :=
  fold_left (fun m x => dist_upd size (code x) x m) l [].
Definition distribute (code : A -> nat) (size : nat) (h : hist) : list (nat * hist) :=
  map (fun ka => (fst ka, acc_final (snd ka))) (dist_state code size (flatten (sortb h))).

(** Concat: the streams are read one after the other, each in ITS arrival order (no SortBatches);
    a batch numbered o of the current stream goes out with number [o + previous_max];
    [max_order] follows the largest number sent; after each stream [previous_max = max_order + 1].
    [mx] below is [max_order + 1] (so that "nothing sent yet" is 0: Go starts max_order at -1
    since the fix; [concat_v0] is the code before the fix, which started max_order at 0). *)
Fixpoint concat_one (pm mx : nat) (h : hist) : hist * nat :=
  match h with
  | [] => ([], mx)
  | (o, its) :: h' =>
      let '(r, mx') := concat_one pm (Nat.max mx (S (o + pm))) h' in ((o + pm, its) :: r, mx')
  end.
Fixpoint concat_from (pm : nat) (hs : list hist) : hist :=
  match hs with
  | [] => []
  | h :: hs' => let '(r, mx) := concat_one pm pm h in r ++ concat_from mx hs'
  end.
Definition concat_streams (hs : list hist) : hist := concat_from 0 hs.
Definition concat_v0 (hs : list hist) : hist :=
  match hs with
  | [] => []
  | h :: hs' => let '(r, mx) := concat_one 0 1 h in r ++ concat_from mx hs'
  end.

(** Pool: one goroutine per input stream, each batch renumbered by a shared atomic counter:
    [m] is the order in which the batches got their number (any interleaving of the inputs). *)
Definition pool_number (m : hist) : hist := numbered_from 0 (map snd m).

(** ReadSequencesBatchFromFiles (obiformats) in ordered mode (one reader goroutine): the files are read
    one after the other; the batches of a file — which its parser workers deliver in any order — go
    through SortBatches (since the fix; [readfiles_v0] is the code before: arrival order) and every
    batch is renumbered by a shared counter. *)
Definition readfiles (hs : list hist) : hist := numbered_from 0 (map snd (concat (map sortb hs))).
Definition readfiles_v0 (hs : list hist) : hist := numbered_from 0 (map snd (concat hs)).

(** IBatchOver(data, size): consecutive slices of [size] records numbered 0.. (fuel = len(data);
    size = 0 does not terminate in Go and is outside every theorem). *)
Fixpoint chunks (fuel size : nat) (l : list A) : list (list A) :=
  match fuel with
  | O => []
  | S f => match l with
           | [] => []
           | _ => firstn size l :: chunks f size (skipn size l)
           end
  end.
Definition ibatchover (size : nat) (data : list A) : hist :=
  numbered_from 0 (chunks (length data) size data).

(** PairTo: both streams go through SortBatches().Rebatch(size); then for every forward batch the
    next reverse batch is taken; [BioSequenceBatch.PairTo] is fatal when the two numbers differ (in
    particular when the reverse stream is exhausted: the nil batch has number -1) or when the two
    slices have different lengths; the forward batch, each record linked to its mate, is pushed with
    its number. [None] = log.Fatal. *)
Fixpoint pair_loop (f r : hist) : option (list (nat * list (A * A))) :=
  match f with
  | [] => Some []
  | (o, fi) :: f' =>
      match r with
      | [] => None
      | (o', ri) :: r' =>
          if Nat.eqb o o' && Nat.eqb (length fi) (length ri)
          then option_map (cons (o, combine fi ri)) (pair_loop f' r')
          else None
      end
  end.
Definition pairto (size : nat) (h1 h2 : hist) : option (list (nat * list (A * A))) :=
  pair_loop (rebatch size h1) (rebatch size h2).


(** IMergeSequenceBatch(size): round j reads up to [size] batches IN ARRIVAL ORDER (no SortBatches),
    merges each of them into ONE record ([rep]: BioSequenceSlice.Merge keeps the first record of the
    batch and folds the others into it; an empty batch panics there — outside the model) and pushes
    the merged records as batch j if there is at least one. *)
Definition imerge (rep : list A -> A) (size : nat) (h : list (nat * list A)) : list (nat * list A) :=
  ibatchover size (map (fun b => rep (snd b)) h).

(** CopyTee (after the fix): each batch is pushed on both outputs, in arrival order. *)
Definition copytee (h : hist) : hist * hist := (h, h).

(** The chain used by the commands: reader -> worker pool f -> FilterOn p (workers + Rebatch) ->
    resequencer of the writer. *)
Definition pipeline (f : A -> list A) (p : A -> bool) (size : nat) (h : hist) : hist :=
  sortb (filteron p size (wmap f h)).

(** ---- round 2 combinators ----------------------------------------------------------------------- *)

(** Split used directly: n consumers (the iterator and its n-1 Split clones) read the SAME channel; the
    k-th batch that goes through the channel is received by exactly one of them, [assign k] (chosen by
    the scheduler); consumer i sees its batches in channel order. *)
Definition split_recv (h : hist) (assign : list nat) (i : nat) : hist :=
  map fst (filter (fun bj : batch * nat => Nat.eqb (snd bj) i) (combine h assign)).

(** Speed (progress bar) and LimitMemory forward every batch unchanged, in arrival order. *)
Definition forward (h : hist) : hist := h.

(** Load (since the fix "Load returns the sequences in the order of the batch numbers"): every batch is
    collected, the batches are sorted by number with a STABLE sort (sort.SliceStable: batches with the same
    number keep their arrival order; a gap in the numbering loses nothing, unlike SortBatches), then every
    record of every batch is appended; [load_v0] is the code before that fix (arrival order).
    CompleteFileIterator: the result of Load as ONE batch numbered 0, no batch at all for no record. *)
Fixpoint ins_batch (b : batch) (l : hist) : hist :=
  match l with
  | [] => [b]
  | y :: l' => if Nat.leb (fst b) (fst y) then b :: l else y :: ins_batch b l'
  end.
Definition stable_sort_batches (h : hist) : hist := fold_right ins_batch [] h.
Definition load (h : hist) : list A := flatten (stable_sort_batches h).
Definition load_v0 (h : hist) : list A := flatten h.
Definition completefile (h : hist) : hist :=
  match load h with [] => [] | l => [(0, l)] end.

(** MakeIConditionalWorker (SeqToSliceConditionalWorker): the worker is applied to the records that
    satisfy the condition; the records that do NOT satisfy it are passed through unchanged, at their place
    (since the fix "a conditional worker passes the sequences that do not satisfy the condition through
    unchanged"; [cond_worker_v0] is the code before: they were dropped). *)
Definition cond_worker (c : A -> bool) (f : A -> list A) (x : A) : list A := if c x then f x else [x].
Definition cond_worker_v0 (c : A -> bool) (f : A -> list A) (x : A) : list A := if c x then f x else [].

(** paired streams: every record carries its mate ([mate]); FilterOn tests the forward record only,
    FilterAnd requires the predicate on both mates; the pair stays together (the mate is reached
    through the forward record), so the stream of mates is [map mate] of the stream of records. *)
Definition filterand_paired (mate : A -> A) (p : A -> bool) (size : nat) (h : hist) : hist :=
  filteron (fun x => p x && p (mate x)) size h.
(** PairedWith: each batch replaced by the batch of the mates, number kept, arrival order kept. *)
Definition pairedwith (mate : A -> A) (h : hist) : hist := map (on_items (map mate)) h.

(** dispatcher path of obidistribute: every output of Distribute goes through an order-sensitive
    consumer (Rebatch here: SortBatches + regrouping) *)
Definition distribute_rebatch (code : A -> nat) (size size2 : nat) (h : hist) : list (nat * hist) :=
  map (fun kr => (fst kr, rebatch size2 (snd kr))) (distribute code size h).

(** ---- worker pool (MakeISliceWorker with n workers sharing the input channel through Split):
    worker i is idle ([None]) or holds a batch; [Take i]: idle worker i receives the next batch of the
    input channel; [Emit i]: worker i pushes [worker(batch)] with the SAME number and becomes idle. *)
Record pstate := mkp { p_queue : hist; p_infl : list (option batch); p_emit : hist }.
Inductive label := Take (i : nat) | Emit (i : nat).
Fixpoint set_nth {X} (i : nat) (x : X) (l : list X) : list X :=
  match l, i with
  | [], _ => []
  | _ :: l', O => x :: l'
  | y :: l', S i' => y :: set_nth i' x l'
  end.
Definition pstep (g : list A -> list A) (s : pstate) (l : label) : option pstate :=
  match l with
  | Take i => match nth_error (p_infl s) i, p_queue s with
              | Some None, b :: q => Some (mkp q (set_nth i (Some b) (p_infl s)) (p_emit s))
              | _, _ => None
              end
  | Emit i => match nth_error (p_infl s) i with
              | Some (Some b) => Some (mkp (p_queue s) (set_nth i None (p_infl s)) (p_emit s ++ [on_items g b]))
              | _ => None
              end
  end.
Fixpoint prun (g : list A -> list A) (s : pstate) (ls : list label) : option pstate :=
  match ls with
  | [] => Some s
  | l :: ls' => match pstep g s l with Some s' => prun g s' ls' | None => None end
  end.
Definition pinit (n : nat) (h : hist) : pstate := mkp h (repeat None n) [].
Definition pidle (s : pstate) : bool :=
  match p_queue s with [] => forallb (fun o => match o with None => true | Some _ => false end) (p_infl s) | _ => false end.
(** the schedule "worker 0 does everything" *)
Fixpoint seq_schedule (n : nat) : list label :=
  match n with O => [] | S n' => Take 0 :: Emit 0 :: seq_schedule n' end.

(** decidable "is a permutation of" used by the correspondence of nondeterministic stages *)
Section PermB.
Variable X : Type.
Variable eqb : X -> X -> bool.
Fixpoint remove1 (x : X) (l : list X) : option (list X) :=
  match l with
  | [] => None
  | y :: l' => if eqb x y then Some l' else option_map (cons y) (remove1 x l')
  end.
Fixpoint perm_eqb (a b : list X) : bool :=
  match a with
  | [] => match b with [] => true | _ => false end
  | x :: a' => match remove1 x b with Some b' => perm_eqb a' b' | None => false end
  end.
Fixpoint list_eqb (a b : list X) : bool :=
  match a, b with
  | [], [] => true
  | x :: a', y :: b' => eqb x y && list_eqb a' b'
  | _, _ => false
  end.
(** [a] is a subsequence of [b] (greedy matching) *)
Fixpoint subseqb (a b : list X) : bool :=
  match b with
  | [] => match a with [] => true | _ => false end
  | y :: b' => match a with
               | [] => true
               | x :: a' => if eqb x y then subseqb a' b' else subseqb a b'
               end
  end.
End PermB.

End Generic.

Arguments flatten {A}. Arguments chunked {A}. Arguments numbered_from {A}. Arguments sortb {A}. Arguments rebatch {A}.
Arguments filterempty {A}. Arguments fe_loop {A}. Arguments on_items {A}. Arguments wmap {A}. Arguments fmap {A}.
Arguments filteron {A}. Arguments divideon {A}. Arguments div_step {A}. Arguments distribute {A}.
Arguments dist_state {A}. Arguments dist_upd {A}.
Arguments concat_one {A}. Arguments concat_from {A}. Arguments concat_streams {A}. Arguments concat_v0 {A}.
Arguments pool_number {A}. Arguments readfiles {A}. Arguments readfiles_v0 {A}. Arguments chunks {A}. Arguments ibatchover {A}. Arguments copytee {A}.
Arguments pipeline {A}. Arguments imerge {A}. Arguments pair_loop {A}. Arguments pairto {A}. Arguments mkacc {A}. Arguments a_ord {A}. Arguments a_buf {A}. Arguments a_out {A}.
Arguments acc0 {A}. Arguments acc_add {A}. Arguments acc_check {A}. Arguments acc_final {A}.
Arguments rebatch_step {A}. Arguments rb_batch {A}. Arguments rebatch_loop {A}.
Arguments mkp {A}. Arguments p_queue {A}. Arguments p_infl {A}. Arguments p_emit {A}.
Arguments pstep {A}. Arguments prun {A}. Arguments pinit {A}. Arguments pidle {A}.
Arguments remove1 {X}. Arguments perm_eqb {X}. Arguments list_eqb {X}. Arguments subseqb {X}.
Arguments split_recv {A}. Arguments forward {A}. Arguments ins_batch {A}. Arguments stable_sort_batches {A}. Arguments load_v0 {A}. Arguments cond_worker_v0 {A}. Arguments load {A}. Arguments completefile {A}. Arguments cond_worker {A}.
Arguments filterand_paired {A}. Arguments pairedwith {A}. Arguments distribute_rebatch {A}.

Section Frag.
Variable B : Type.
(** IFragments(minsize, length, overlap, size, nworkers): a record whose sequence [s] is longer than
    [minsize] is replaced by windows of [length] symbols starting every [step = length - overlap]
    symbols; when fewer than [step] symbols would remain after a window, the window is extended to
    the end of the sequence and is the last one ([rest] is s[i:]; fuel = len(s); step = 0 does not
    terminate in Go). Batches keep their number; then SortBatches().Rebatch(size). *)
Fixpoint frag_loop (fuel len step : nat) (rest : list B) : list (list B) :=
  match fuel with
  | O => []
  | S f =>
      match rest with
      | [] => []
      | _ => let w := Nat.min len (length rest) in
             if Nat.ltb (length rest - w) step then [rest]
             else firstn w rest :: frag_loop f len step (skipn step rest)
      end
  end.
Definition fragments_of (minsize len overlap : nat) (s : list B) : list (list B) :=
  if Nat.leb (length s) minsize then [s] else frag_loop (length s) len (len - overlap) s.
Definition ifragments (minsize len overlap size : nat) (h : list (nat * list (list B))) : list (nat * list (list B)) :=
  rebatch size (wmap (fragments_of minsize len overlap) h).

End Frag.
Arguments frag_loop {B}. Arguments fragments_of {B}. Arguments ifragments {B}.

(** ---- termination protocol of a channel iterator (Add / Done / WaitAndClose), Go primitives as
    model primitives: [t_wg] is the WaitGroup counter; producer i is [Some k] (k pushes left, Done
    not yet called) or [None] (finished); the closer goroutine is blocked in Wait until the counter
    is 0, then closes the channel. [TPush] on a closed channel and [TDone] on a zero counter are the
    two panics of Go: they are not transitions, and [tpanic] says that one of them is possible. *)
Record tstate := mkt { t_wg : nat; t_prod : list (option nat); t_pushed : nat; t_closed : bool }.
Inductive tlabel := TPush (i : nat) | TDone (i : nat) | TClose.
Definition tstep (s : tstate) (l : tlabel) : option tstate :=
  match l with
  | TPush i => match nth_error (t_prod s) i with
               | Some (Some (S k)) => if t_closed s then None
                                      else Some (mkt (t_wg s) (set_nth i (Some k) (t_prod s)) (S (t_pushed s)) false)
               | _ => None
               end
  | TDone i => match nth_error (t_prod s) i, t_wg s with
               | Some (Some O), S w => Some (mkt w (set_nth i None (t_prod s)) (t_pushed s) (t_closed s))
               | _, _ => None
               end
  | TClose => match t_closed s, t_wg s with
              | false, O => Some (mkt O (t_prod s) (t_pushed s) true)
              | _, _ => None
              end
  end.
Fixpoint trun (s : tstate) (ls : list tlabel) : option tstate :=
  match ls with [] => Some s | l :: ls' => match tstep s l with Some s' => trun s' ls' | None => None end end.
Definition alive (p : list (option nat)) : nat := length (filter (fun o => match o with Some _ => true | None => false end) p).
Definition remaining (p : list (option nat)) : nat := list_sum (map (fun o => match o with Some k => k | None => 0 end) p).
Definition tpanic (s : tstate) : bool :=
  (t_closed s && Nat.ltb 0 (remaining (t_prod s))) || (Nat.eqb (t_wg s) 0 && Nat.ltb 0 (alive (t_prod s))).
(** the protocol as the combinators use it: Add(n) BEFORE the n producers are spawned *)
Definition tinit (pushes : list nat) : tstate := mkt (length pushes) (map Some pushes) 0 false.
Definition tmeasure (s : tstate) : nat := remaining (t_prod s) + alive (t_prod s) + (if t_closed s then 0 else 1).


(** ------------------------------------------------------------------ correspondence cases
    Records are identified by a number ([N]); the harness uses the same worker / predicate /
    classifier: worker: id mod m = 0 -> dropped, = 1 -> [id; id+500], else kept;
    predicate: id mod m = 0; classifier: id mod m. *)
Definition wfN (m i : N) : list N :=
  if N.eqb (N.modulo i m) 0 then [] else if N.eqb (N.modulo i m) 1 then [i; N.add i 500] else [i].
Definition predN (m i : N) : bool := N.eqb (N.modulo i m) 0.
Definition codeN (m i : N) : nat := N.to_nat (N.modulo i m).

Definition mateN (i : N) : N := (1000 + N.modulo (i * 7 + i / 3) 50)%N.

Inductive opk := OSplit | OForward | OLoad | OLoadSorted | OCompleteFile | OCompleteFileSorted | OCondWorker | OCondWorkerSorted
               | OFilterOnP | OFilterAndP | OPairedWith | ODistRebatch | OSource | OSort | ORebatch | OFilterEmpty | OFilterOn | ODivideOn | ODistribute | OConcat
               | OConcatSorted | OPool | OWorker | OWorkerSorted | OBatchOver | OCopyTee | OPipeline | OReadFiles | OReadFilesPar | OPairTo | OMerge | OFragments (minsize len overlap : nat).
Inductive okind := KOk | KPanic | KHang | KFatal.
Definition histN := list (nat * list N).
Record ccase := mkc { c_op : opk; c_streams : list histN; c_data : list N; c_size : nat; c_mod : N; c_mod2 : N;
                      c_kind : okind; c_outs : list (nat * histN); c_news : list nat;
                      c_fouts : list (nat * list (list N)) (* fragments: delivered batches of sequences *) }.

(** fragments: the sequence of record id has length 1 + (7 id mod 61) and symbol (id + j*j + j/3) mod 4 at position j *)
Definition long_seqN (id : N) : list N :=
  map (fun j => N.modulo (id + N.of_nat j * N.of_nat j + N.of_nat j / 3) 4) (seq 0 (S (N.to_nat (N.modulo (7 * id) 61)))).
Definition fbatch_eqb (x y : nat * list (list N)) : bool :=
  Nat.eqb (fst x) (fst y) && list_eqb (list_eqb N.eqb) (snd x) (snd y).

Definition batchN_eqb (x y : nat * list N) : bool := Nat.eqb (fst x) (fst y) && list_eqb N.eqb (snd x) (snd y).
Definition histN_eqb : histN -> histN -> bool := list_eqb batchN_eqb.
Definition outs_eqb : list (nat * histN) -> list (nat * histN) -> bool :=
  list_eqb (fun x y => Nat.eqb (fst x) (fst y) && histN_eqb (snd x) (snd y)).
Fixpoint assoc (k : nat) (m : list (nat * histN)) : option histN :=
  match m with [] => None | (k', v) :: m' => if Nat.eqb k' k then Some v else assoc k m' end.

Definition stream0 (c : ccase) : histN := nth 0 (c_streams c) [].

(** does the observation agree with the model?  Deterministic stages: equality; stages whose delivery
    order depends on the scheduler: the observation must be one of the outcomes the model allows. *)
Definition agrees (c : ccase) : bool :=
  match c_kind c with
  | KOk =>
    let h := stream0 c in
    let one (m : histN) := outs_eqb (c_outs c) [(0, m)] in
    match c_op c with
    | OSplit =>   (* observed: one stream per consumer; every batch received by exactly one consumer, each in channel order *)
        perm_eqb batchN_eqb (concat (map snd (c_outs c))) h &&
        forallb (fun o : nat * histN => subseqb batchN_eqb (snd o) h) (c_outs c)
    | OForward => one (forward h)
    | OLoad => one [(0, load h)]
    | OLoadSorted => one [(0, load (sortb h))]
    | OCompleteFile => one (completefile h)
    | OCompleteFileSorted => one (completefile (sortb h))
    | OCondWorker => match c_outs c with
                     | [(0, o)] => perm_eqb batchN_eqb o (wmap (cond_worker (predN (c_mod2 c)) (wfN (c_mod c))) h)
                     | _ => false
                     end
    | OCondWorkerSorted => one (sortb (wmap (cond_worker (predN (c_mod2 c)) (wfN (c_mod c))) h))
    | OFilterOnP =>    (* key 0: the records, key 1: the mates they are linked to *)
        let r := filteron (predN (c_mod c)) (c_size c) h in
        outs_eqb (c_outs c) [(0, r); (1, pairedwith mateN r)]
    | OFilterAndP =>
        let r := filterand_paired mateN (predN (c_mod c)) (c_size c) h in
        outs_eqb (c_outs c) [(0, r); (1, pairedwith mateN r)]
    | OPairedWith => outs_eqb (c_outs c) [(0, pairedwith mateN h); (1, h)]
    | ODistRebatch =>
        let d := distribute_rebatch (codeN (c_mod c)) (c_size c) (N.to_nat (c_mod2 c)) h in
        list_eqb Nat.eqb (c_news c) (map fst d) && Nat.eqb (length (c_outs c)) (length d) &&
        forallb (fun kv => match assoc (fst kv) d with Some m => histN_eqb (snd kv) m | None => false end) (c_outs c)
    | OSource => one h
    | OSort => one (sortb h)
    | ORebatch => one (rebatch_loop (c_size c) h)
    | OFilterEmpty => one (filterempty h)
    | OFilterOn => one (filteron (predN (c_mod c)) (c_size c) h)
    | ODivideOn => let '(t, f) := divideon (predN (c_mod c)) (c_size c) h in outs_eqb (c_outs c) [(0, f); (1, t)]
    | ODistribute =>
        let d := distribute (codeN (c_mod c)) (c_size c) h in
        list_eqb Nat.eqb (c_news c) (map fst d) && Nat.eqb (length (c_outs c)) (length d) &&
        forallb (fun kv => match assoc (fst kv) d with Some m => histN_eqb (snd kv) m | None => false end) (c_outs c)
    | OConcat => one (concat_streams (c_streams c))
    | OConcatSorted => one (sortb (concat_streams (c_streams c)))
    | OPool =>
        match c_outs c with
        | [(0, o)] => let m := concat (c_streams c) in
                      perm_eqb Nat.eqb (map fst o) (seq 0 (length m)) &&
                      perm_eqb (list_eqb N.eqb) (map snd o) (map snd m)
        | _ => false
        end
    | OReadFiles => one (readfiles (c_streams c))
    | OReadFilesPar =>   (* several reader goroutines: numbers and contents only (order per file: direct oracle) *)
        match c_outs c with
        | [(0, o)] => let m := concat (c_streams c) in
                      perm_eqb Nat.eqb (map fst o) (seq 0 (length m)) &&
                      perm_eqb (list_eqb N.eqb) (map snd o) (map snd m)
        | _ => false
        end
    | OWorker => match c_outs c with [(0, o)] => perm_eqb batchN_eqb o (wmap (wfN (c_mod c)) h) | _ => false end
    | OWorkerSorted => one (sortb (wmap (wfN (c_mod c)) h))
    | OBatchOver => one (ibatchover (c_size c) (c_data c))
    | OCopyTee => let '(a, b) := copytee h in outs_eqb (c_outs c) [(0, a); (1, b)]
    | OPairTo =>   (* observed: key 0 = the forward batches, key 1 = the mates they are linked to *)
        match pairto (c_size c) h (nth 1 (c_streams c) []) with
        | Some r => outs_eqb (c_outs c) [(0, map (fun b => (fst b, map fst (snd b))) r); (1, map (fun b => (fst b, map snd (snd b))) r)]
        | None => false
        end
    | OMerge => one (imerge (fun l => hd 0%N l) (c_size c) h)
    | OFragments minsize len overlap =>
        list_eqb fbatch_eqb (c_fouts c)
          (ifragments minsize len overlap (c_size c) (map (fun b => (fst b, map long_seqN (snd b))) h))
    | OPipeline => one (pipeline (wfN (c_mod c)) (predN (c_mod2 c)) (c_size c) h)
    end
  | KFatal =>    (* log.Fatal: only PairTo on ill-formed pairs *)
    match c_op c with
    | OPairTo => match pairto (c_size c) (stream0 c) (nth 1 (c_streams c) []) with None => true | Some _ => false end
    | _ => false
    end
  | _ => false   (* the model of the (repaired) combinators neither panics nor hangs *)
  end.

Fixpoint mismatches_from (i : nat) (l : list ccase) : list nat :=
  match l with
  | [] => []
  | c :: l' => let rest := mismatches_from (S i) l' in if agrees c then rest else i :: rest
  end.
Definition mismatches := mismatches_from 0.


(** ================================================================================================
    Round 2 — the close protocol of the channel iterators as PROCESSES over Go's primitives.
    Every combinator is an instance: its goroutines are producers (Push on some iterators, then Done on
    the WaitGroups they are registered on), closers (Wait on a group, then Close the iterators it
    protects: WaitAndClose, the closer of DivideOn / CopyTee / Distribute) and consumers (Split clones,
    readers: they observe the end of a channel once it is closed).  [gact_step] is Go's semantics of
    one action (the only trusted part); Proofs.v shows that for every well-formed instance EVERY
    maximal run closes every iterator exactly once, after its last push, without panic or deadlock.
    The real iterators log their events under the verif tag; [trace_ok] reads the per-goroutine programs
    off a recorded trace, checks that they form a well-formed instance and that the trace is a complete
    run of the transition system. *)
(** shared state: WaitGroup counter of every group, closed flag and number of pushes of every iterator *)
Record gstate := mkg { g_wg : nat -> nat; g_closed : nat -> bool; g_pushed : nat -> nat }.
Definition upd {X} (f : nat -> X) (k : nat) (v : X) : nat -> X := fun x => if Nat.eqb x k then v else f x.

(** a goroutine of a combinator, as the program it still has to run *)
Inductive proc :=
| Producer (pushes : list nat) (dones : list nat)          (* Push on these iterators, in this order, then Done on each of these groups *)
| Closer (closes : list nat) (segs : list (nat * list nat)) (* Close these (their group has been waited for), then for each segment: Wait g; Close each iterator *)
| Consumer (ends : list nat).                              (* a Split clone / reader: observes the end of these iterators, one after the other *)

Inductive gact := GPush (it : nat) | GDone (g : nat) | GWait (g : nat) | GClose (it : nat) | GEnd (it : nat).

Definition head_act (p : proc) : option (gact * proc) :=
  match p with
  | Producer (it :: ps) ds => Some (GPush it, Producer ps ds)
  | Producer [] (g :: ds) => Some (GDone g, Producer [] ds)
  | Producer [] [] => None
  | Closer (it :: cs) segs => Some (GClose it, Closer cs segs)
  | Closer [] ((g, its) :: segs) => Some (GWait g, Closer its segs)
  | Closer [] [] => None
  | Consumer (it :: es) => Some (GEnd it, Consumer es)
  | Consumer [] => None
  end.

(** Go's semantics of one action: send on a closed channel, close of a closed channel and a negative
    WaitGroup counter panic; Wait blocks while the counter is positive; a receiver sees the end of the
    channel only once it is closed *)
Inductive outcome := Panic | Blocked | Next (s : gstate).
Definition gact_step (s : gstate) (a : gact) : outcome :=
  match a with
  | GPush it => if g_closed s it then Panic
                else Next (mkg (g_wg s) (g_closed s) (upd (g_pushed s) it (S (g_pushed s it))))
  | GDone g => match g_wg s g with
               | O => Panic
               | S w => Next (mkg (upd (g_wg s) g w) (g_closed s) (g_pushed s))
               end
  | GWait g => match g_wg s g with O => Next s | S _ => Blocked end
  | GClose it => if g_closed s it then Panic
                 else Next (mkg (g_wg s) (upd (g_closed s) it true) (g_pushed s))
  | GEnd it => if g_closed s it then Next s else Blocked
  end.

Definition cfg := (gstate * list proc)%type.
(** label i: goroutine i runs its next action *)
Definition cstep (c : cfg) (i : nat) : option cfg :=
  match nth_error (snd c) i with
  | Some p => match head_act p with
              | Some (a, p') => match gact_step (fst c) a with
                                | Next s' => Some (s', set_nth i p' (snd c))
                                | _ => None
                                end
              | None => None
              end
  | None => None
  end.
Fixpoint crun (c : cfg) (ls : list nat) : option cfg :=
  match ls with [] => Some c | i :: ls' => match cstep c i with Some c' => crun c' ls' | None => None end end.
Definition can_panic (c : cfg) : bool :=
  existsb (fun p => match head_act p with
                    | Some (a, _) => match gact_step (fst c) a with Panic => true | _ => false end
                    | None => false
                    end) (snd c).
Definition pfinished (p : proc) : bool := match head_act p with None => true | Some _ => false end.
Definition cfinished (c : cfg) : bool := forallb pfinished (snd c).

Definition proc_pushes (p : proc) : list nat := match p with Producer ps _ => ps | _ => [] end.
Definition proc_dones (p : proc) : list nat := match p with Producer _ ds => ds | _ => [] end.
Definition proc_closes (p : proc) : list nat :=
  match p with Closer cs segs => cs ++ concat (map snd segs) | _ => [] end.
Definition proc_size (p : proc) : nat :=
  match p with
  | Producer ps ds => length ps + length ds
  | Closer cs segs => length cs + length segs + length (concat (map snd segs))
  | Consumer es => length es
  end.
Definition cmeasure (c : cfg) : nat := list_sum (map proc_size (snd c)).

(** initial state: Add before the goroutines are spawned — the counter of a group is the number of Done
    that the producers will call on it; nothing closed, nothing pushed *)
Definition cinit (procs : list proc) : cfg :=
  (mkg (fun g => count_occ Nat.eq_dec (concat (map proc_dones procs)) g) (fun _ => false) (fun _ => 0), procs).

Definition memb (x : nat) (l : list nat) : bool := existsb (Nat.eqb x) l.
Fixpoint nodupb (l : list nat) : bool :=
  match l with [] => true | x :: l' => negb (memb x l') && nodupb l' end.

(** well-formed protocol instance: [guard it] is the group whose counter protects iterator [it];
    - a producer pushes only on iterators whose guard it will call Done on afterwards (it is registered);
    - a closer closes an iterator only after a Wait on its guard, in the same goroutine;
    - every iterator of [iters] is closed by exactly one Close overall;
    - consumers and producers only touch iterators of [iters]. *)
Definition wf_proc (guard : nat -> nat) (iters : list nat) (p : proc) : bool :=
  match p with
  | Producer ps ds => forallb (fun it => memb it iters && memb (guard it) ds) ps
  | Closer cs segs => match cs with [] => true | _ => false end &&
                      forallb (fun seg => forallb (fun it => Nat.eqb (guard it) (fst seg)) (snd seg)) segs
  | Consumer es => forallb (fun it => memb it iters) es
  end.
Definition wf_cfg (guard : nat -> nat) (iters : list nat) (procs : list proc) : bool :=
  forallb (wf_proc guard iters) procs &&
  let closes := concat (map proc_closes procs) in
  nodupb closes && forallb (fun it => memb it closes) iters && forallb (fun it => memb it iters) closes.

(** ---- protocol traces of the real iterators (hook pkg/obiiter/verif2_c03.go): events
    (goroutine, object, kind, n) in log order; kinds: 0 New iterator, 1 Add n, 2 Done, 3 Wait returned,
    4 Push, 5 Close, 6 End observed by a consumer, 7 Guard n (the iterator is protected by group n),
    8 New bare WaitGroup.  An iterator is its own group unless a Guard event says otherwise. *)
Definition tev := (nat * nat * nat * nat)%type.
Definition ev_gid (e : tev) := fst (fst (fst e)).
Definition ev_id (e : tev) := snd (fst (fst e)).
Definition ev_kind (e : tev) := snd (fst e).
Definition ev_n (e : tev) := snd e.

Definition tr_iters (tr : list tev) : list nat :=
  flat_map (fun e => if Nat.eqb (ev_kind e) 0 then [ev_id e] else []) tr.
Definition tr_guard (tr : list tev) (it : nat) : nat :=
  fold_left (fun g e => if Nat.eqb (ev_kind e) 7 && Nat.eqb (ev_id e) it then ev_n e else g) tr it.
Definition tr_adds (tr : list tev) (g : nat) : nat :=
  list_sum (map (fun e => if Nat.eqb (ev_kind e) 1 && Nat.eqb (ev_id e) g then ev_n e else 0) tr).
Definition tr_dones (tr : list tev) (g : nat) : nat :=
  length (filter (fun e => Nat.eqb (ev_kind e) 2 && Nat.eqb (ev_id e) g) tr).
Definition tr_groups (tr : list tev) : list nat :=
  flat_map (fun e => if Nat.eqb (ev_kind e) 0 || Nat.eqb (ev_kind e) 8 then [ev_id e] else []) tr.
Definition tr_ngor (tr : list tev) : nat := S (fold_left Nat.max (map ev_gid tr) 0).

(** the program of goroutine g read off the trace, split in its producer, closer and consumer parts *)
Definition of_gor (tr : list tev) (g : nat) : list tev := filter (fun e => Nat.eqb (ev_gid e) g) tr.
Definition producer_of (evs : list tev) : proc :=
  Producer (flat_map (fun e => if Nat.eqb (ev_kind e) 4 then [ev_id e] else []) evs)
           (flat_map (fun e => if Nat.eqb (ev_kind e) 2 then [ev_id e] else []) evs).
Definition closer_of (evs : list tev) : proc :=
  let r := fold_right (fun e (acc : list nat * list (nat * list nat)) =>
                         if Nat.eqb (ev_kind e) 5 then (ev_id e :: fst acc, snd acc)
                         else if Nat.eqb (ev_kind e) 3 then ([], (ev_id e, fst acc) :: snd acc)
                         else acc) ([], []) evs in
  Closer (fst r) (snd r).
Definition consumer_of (evs : list tev) : proc :=
  Consumer (flat_map (fun e => if Nat.eqb (ev_kind e) 6 then [ev_id e] else []) evs).
Definition tr_procs (tr : list tev) : list proc :=
  flat_map (fun g => let evs := of_gor tr g in [producer_of evs; closer_of evs; consumer_of evs]) (seq 0 (tr_ngor tr)).

Definition gact_eqb (a b : gact) : bool :=
  match a, b with
  | GPush x, GPush y | GDone x, GDone y | GWait x, GWait y | GClose x, GClose y | GEnd x, GEnd y => Nat.eqb x y
  | _, _ => false
  end.
(** the action and the process index of an event (None: not an action of the protocol) *)
Definition ev_act (e : tev) : option (nat * gact) :=
  let g := ev_gid e in let x := ev_id e in
  match ev_kind e with
  | 4 => Some (3 * g, GPush x)
  | 2 => Some (3 * g, GDone x)
  | 3 => Some (3 * g + 1, GWait x)
  | 5 => Some (3 * g + 1, GClose x)
  | 6 => Some (3 * g + 2, GEnd x)
  | _ => None
  end.
(** replay: the k-th protocol event must be the next action of its goroutine, and enabled *)
Fixpoint tr_replay (c : cfg) (tr : list tev) : option cfg :=
  match tr with
  | [] => Some c
  | e :: tr' =>
      match ev_act e with
      | None => tr_replay c tr'
      | Some (i, a) =>
          match nth_error (snd c) i with
          | Some p => match head_act p with
                      | Some (a', _) => if gact_eqb a a'
                                        then match cstep c i with Some c' => tr_replay c' tr' | None => None end
                                        else None
                      | None => None
                      end
          | None => None
          end
      end
  end.
Definition tr_labels (tr : list tev) : list nat :=
  flat_map (fun e => match ev_act e with Some (i, _) => [i] | None => [] end) tr.

(** a recorded trace is accepted when: the programs read off it form a well-formed protocol instance, the
    counter of every group was raised (Add) by exactly the number of Done called on it, the events in log
    order are a run of the transition system, and that run is complete (every goroutine finished) *)
Definition trace_ok (tr : list tev) : bool :=
  let procs := tr_procs tr in
  wf_cfg (tr_guard tr) (tr_iters tr) procs &&
  forallb (fun g => Nat.eqb (tr_adds tr g) (tr_dones tr g)) (tr_groups tr) &&
  match tr_replay (cinit procs) tr with
  | Some c => cfinished c
  | None => false
  end.


(** ---- the table combinator -> protocol instance.  Iterators are numbered inside one combinator.
    [inst_std pushes m]: ONE output iterator 0 (its own group), one producer per element of [pushes] (the
    i-th pushes [nth i pushes] batches, then Done), the WaitAndClose goroutine, m consumers (the reader and
    its Split clones).  SortBatches, Concat, Rebatch, FilterEmpty, CompleteFileIterator, IBatchOver, LimitMemory,
    Speed, PairTo, PairedWith, IMergeSequenceBatch: one producer; Pool (k inputs), MakeISliceWorker / MakeIWorker /
    MakeIConditionalWorker (k workers), the intermediate iterator of FilterOn / FilterAnd (k workers) and of
    IFragments, ReadSequencesBatchFromFiles (k readers): k producers.
    [inst_divideon sched]: outputs 0 (true) and 1 (false), one producer registered on both (the k-th record goes
    to output 0 iff [nth k sched]), one closer: Wait 0; Close 0; Wait 1; Close 1.
    [inst_copytee n]: outputs 0 and 1 both protected by the group of 0; the producer pushes every batch on both;
    the closer: Wait 0; Close 0; Close 1.
    [inst_distribute m pushes]: a bare WaitGroup 0 (jobDone) protects the outputs 1..m created on the fly; one
    producer; the closer: Wait 0; Close 1; ...; Close m. *)
Definition inst_std (pushes : list nat) (m : nat) : list proc :=
  map (fun n => Producer (repeat 0 n) [0]) pushes ++ [Closer [] [(0, [0])]] ++ repeat (Consumer [0]) m.
Definition inst_divideon (sched : list bool) : list proc :=
  [Producer (map (fun b : bool => if b then 0 else 1) sched) [0; 1]; Closer [] [(0, [0]); (1, [1])]; Consumer [0]; Consumer [1]].
Definition inst_copytee (n : nat) : list proc :=
  [Producer (concat (repeat [0; 1] n)) [0]; Closer [] [(0, [0; 1])]; Consumer [0]; Consumer [1]].
Definition inst_distribute (m : nat) (pushes : list nat) : list proc :=
  [Producer pushes [0]; Closer [] [(0, seq 1 m)]] ++ map (fun k => Consumer [k]) (seq 1 m).

(** which instance of the table a recorded trace must contain (checked on the programs read off the trace):
    [ShStd k]: an iterator x closed by "Wait x; Close x" with exactly k producers registered on x alone;
    [ShSplit n]: moreover exactly n consumers observe the end of x; [ShDivide], [ShTee], [ShDist]: the closers of
    DivideOn / CopyTee / Distribute with their single producer. *)
Inductive shape := ShAny | ShStd (k : nat) | ShSplit (n : nat) | ShDivide | ShTee | ShDist.
Definition countb {X} (f : X -> bool) (l : list X) : nat := length (filter f l).
Definition is_prod_on (gs : list nat) (p : proc) : bool :=
  match p with Producer _ ds => list_eqb Nat.eqb ds gs | _ => false end.
Definition is_cons_on (x : nat) (p : proc) : bool := match p with Consumer es => memb x es | _ => false end.
Definition std_closer (x : nat) (p : proc) : bool :=
  match p with Closer [] [(g, [it])] => Nat.eqb g x && Nat.eqb it x | _ => false end.
Definition shape_ok (sh : shape) (iters : list nat) (procs : list proc) : bool :=
  match sh with
  | ShAny => true
  | ShStd k => existsb (fun x => existsb (std_closer x) procs && Nat.eqb (countb (is_prod_on [x]) procs) k) iters
  | ShSplit n => existsb (fun x => existsb (std_closer x) procs && Nat.eqb (countb (is_prod_on [x]) procs) 1 &&
                                   Nat.eqb (countb (is_cons_on x) procs) n) iters
  | ShDivide => existsb (fun p => match p with
                                  | Closer [] [(a, [a']); (b, [b'])] =>
                                      Nat.eqb a a' && Nat.eqb b b' && negb (Nat.eqb a b) && Nat.eqb (countb (is_prod_on [a; b]) procs) 1
                                  | _ => false
                                  end) procs
  | ShTee => existsb (fun p => match p with
                               | Closer [] [(a, [a'; b])] => Nat.eqb a a' && negb (Nat.eqb a b) && Nat.eqb (countb (is_prod_on [a]) procs) 1
                               | _ => false
                               end) procs
  | ShDist => existsb (fun p => match p with
                                | Closer [] [(g, its)] => negb (memb g iters) && Nat.eqb (countb (is_prod_on [g]) procs) 1 &&
                                                          forallb (fun it => memb it iters) its
                                | _ => false
                                end) procs
  end.
Definition trace_ok2 (st : shape * list tev) : bool :=
  trace_ok (snd st) && shape_ok (fst st) (tr_iters (snd st)) (tr_procs (snd st)).
(** compact rendering of an event for the generated files: ((goroutine * 4096 + object) * 16 + kind) * 4096 + n *)
Definition tev_decode (x : N) : tev :=
  (N.to_nat (N.div x 268435456), N.to_nat (N.modulo (N.div x 65536) 4096), N.to_nat (N.modulo (N.div x 4096) 16), N.to_nat (N.modulo x 4096)).
Definition trace_ok2N (st : shape * list N) : bool := trace_ok2 (fst st, map tev_decode (snd st)).
Fixpoint trace_mismatches_from (i : nat) (l : list (shape * list N)) : list nat :=
  match l with
  | [] => []
  | t :: l' => let rest := trace_mismatches_from (S i) l' in if trace_ok2N t then rest else i :: rest
  end.
Definition trace_mismatches := trace_mismatches_from 0.
