(** C15 round 3 — proofs over the newly exercised glue: the database loaders of obitag (CLIAssignTaxonomy) and obirefidx
    (IndexReferenceDB), which discard the references of unknown taxid by an IN-PLACE compaction of parallel arrays, and
    MatchDistanceIndex (obitag / obitag2). *)
From Coq Require Import NArith List Bool Arith Lia.
From OBI.C15 Require Import Model Proofs.
Import ListNotations.

(** ** in-place compaction loaders *)
Lemma upd_length : forall A j (x : A) l, length (upd j x l) = length l.
Proof. intros A j x l; revert j; induction l as [|y r IH]; intros [|j]; cbn [upd length]; auto. Qed.

Lemma upd_app_here : forall A (pre : list A) x y r, upd (length pre) x (pre ++ y :: r) = pre ++ x :: r.
Proof. intros A pre x y r; induction pre as [|p pre IH]; cbn [upd length app]; [reflexivity | now rewrite IH]. Qed.

(** writing x at position |pre| of pre ++ mid ++ x :: suf (x read at position |pre ++ mid|) *)
Lemma upd_gap : forall A (pre mid : list A) x suf,
  exists mid', upd (length pre) x (pre ++ mid ++ x :: suf) = (pre ++ [x]) ++ mid' ++ suf /\ length mid' = length mid.
Proof.
  intros A pre mid x suf. destruct mid as [|m mid0].
  - exists []. cbn [app length]. rewrite upd_app_here, <- app_assoc. auto.
  - exists (mid0 ++ [x]). split.
    + cbn [app]. rewrite upd_app_here. rewrite <- !app_assoc. reflexivity.
    + rewrite app_length. cbn [length]. lia.
Qed.

Lemma nth_mid : forall A (pre : list A) x suf d, nth (length pre) (pre ++ x :: suf) d = x.
Proof. intros. rewrite app_nth2 by lia. now rewrite Nat.sub_diag. Qed.

Lemma mget_filter_neq : forall T k k' (m : list (nat * T)), k' <> k ->
  mget k (filter (fun p => negb (fst p =? k')) m) = mget k m.
Proof.
  intros T k k' m Hn. induction m as [|[a v] m IH]; cbn [filter mget fst]; auto.
  destruct (Nat.eqb_spec a k'); cbn [negb].
  - destruct (Nat.eqb_spec a k); [lia | exact IH].
  - cbn [mget]. destruct (a =? k); auto.
Qed.
Lemma mget_mset : forall T k k' (v : T) m,
  mget k (mset k' v m) = if k' =? k then Some v else mget k m.
Proof.
  intros. unfold mset. cbn [mget]. destruct (Nat.eqb_spec k' k); auto. now apply mget_filter_neq.
Qed.

Section Loader.
  Context {A C T : Type} (cnt : A -> C) (tax : A -> option T) (d : A).
  Definition known (x : A) : bool := match tax x with Some _ => true | None => false end.
  Definition sc (x : A) : option C := Some (cnt x).

  (** the taxon set after the references [pre] have been kept: keys 0 .. |pre|-1, none nil *)
  Definition taxa_inv (pre : list A) (m : list (nat * option T)) : Prop :=
    (forall k, mget k m = if k <? length pre then Some (tax (nth k pre d)) else None) /\
    Forall (fun p => fst p < length pre /\ exists t, snd p = Some t) m.

  Lemma taxa_inv_snoc : forall pre m x t, taxa_inv pre m -> tax x = Some t ->
    taxa_inv (pre ++ [x]) (mset (length pre) (Some t) m).
  Proof.
    intros pre m x t [Hg Hf] Hx. split.
    - intro k. rewrite mget_mset, app_length. cbn [length].
      destruct (Nat.eqb_spec (length pre) k) as [<-|Hn].
      + replace (length pre <? length pre + 1) with true by (symmetry; apply Nat.ltb_lt; lia).
        rewrite nth_mid. now rewrite Hx.
      + rewrite Hg. destruct (Nat.ltb_spec k (length pre)).
        * replace (k <? length pre + 1) with true by (symmetry; apply Nat.ltb_lt; lia).
          now rewrite app_nth1 by lia.
        * replace (k <? length pre + 1) with false by (symmetry; apply Nat.ltb_ge; lia). reflexivity.
    - unfold mset. constructor.
      + cbn [fst snd]. rewrite app_length. cbn [length]. split; [lia | eauto].
      + apply Forall_forall. intros p Hp. apply filter_In in Hp. destruct Hp as [Hp _].
        rewrite Forall_forall in Hf. destruct (Hf p Hp) as [H1 H2]. rewrite app_length. cbn [length]. split; [lia | auto].
  Qed.

  Lemma taxa_inv_ok : forall pre m, Forall (fun x => known x = true) pre -> taxa_inv pre m -> taxa_ok (length pre) m = true.
  Proof.
    intros pre m Hk [Hg Hf]. unfold taxa_ok. apply andb_true_intro. split.
    - apply forallb_forall. intros p Hp. rewrite Forall_forall in Hf. destruct (Hf p Hp) as [H1 [t H2]].
      rewrite H2. apply andb_true_intro. split; [now apply Nat.ltb_lt | reflexivity].
    - apply forallb_forall. intros k Hin. apply in_seq in Hin. rewrite Hg.
      replace (k <? length pre) with true by (symmetry; apply Nat.ltb_lt; lia).
      assert (Hlt : k < length pre) by lia.
      rewrite Forall_forall in Hk. specialize (Hk (nth k pre d) (nth_In pre d Hlt)).
      unfold known in Hk. destruct (tax (nth k pre d)); [reflexivity | discriminate].
  Qed.

  (** CLIAssignTaxonomy (repaired) *)
  Lemma tag_loop : forall suf pre mid crest taxa,
    length crest = length (mid ++ suf) -> Forall (fun x => known x = true) pre -> taxa_inv pre taxa ->
    let st := fold_left (tag_step cnt tax d) (seq (length (pre ++ mid)) (length suf))
                        (mkldb (pre ++ mid ++ suf) (map sc pre ++ crest) taxa (length pre)) in
    let r := pre ++ filter known suf in
    firstn (l_j st) (l_refs st) = r /\ firstn (l_j st) (l_cnts st) = map sc r /\
    Forall (fun x => known x = true) r /\ taxa_inv r (l_taxa st).
  Proof.
    induction suf as [|x suf IH]; intros pre mid crest taxa Hc Hk Ht.
    - cbn [length seq fold_left filter l_j l_refs l_cnts l_taxa]. rewrite !app_nil_r.
      repeat split; auto.
      + rewrite firstn_app, Nat.sub_diag, firstn_all. cbn [firstn]. now rewrite app_nil_r.
      + replace (length pre) with (length (map sc pre)) by apply map_length.
        rewrite firstn_app, Nat.sub_diag, firstn_all. cbn [firstn]. now rewrite app_nil_r.
      + apply Ht.
      + apply Ht.
    - cbn [length seq fold_left].
      assert (Hx : nth (length (pre ++ mid)) (pre ++ mid ++ x :: suf) d = x).
      { rewrite app_assoc. apply nth_mid. }
      destruct crest as [|c0 crest']; [rewrite app_length in Hc; cbn [length] in Hc; lia|].
      assert (Hcu : forall v, upd (length pre) v (map sc pre ++ c0 :: crest') = map sc pre ++ v :: crest').
      { intro v. replace (length pre) with (length (map sc pre)) by apply map_length. apply upd_app_here. }
      destruct (upd_gap A pre mid x suf) as [mid' [Hu Hl]].
      assert (Hstep : tag_step cnt tax d (mkldb (pre ++ mid ++ x :: suf) (map sc pre ++ c0 :: crest') taxa (length pre)) (length (pre ++ mid)) =
                      match tax x with
                      | Some t => mkldb ((pre ++ [x]) ++ mid' ++ suf) (map sc pre ++ Some (cnt x) :: crest') (mset (length pre) (Some t) taxa) (S (length pre))
                      | None => mkldb ((pre ++ [x]) ++ mid' ++ suf) (map sc pre ++ Some (cnt x) :: crest') taxa (length pre)
                      end).
      { unfold tag_step. cbn [l_refs l_j l_cnts l_taxa]. rewrite Hx, Hu, Hcu. reflexivity. }
      rewrite Hstep. clear Hstep.
      assert (Hlen : S (length (pre ++ mid)) = length ((pre ++ [x]) ++ mid')).
      { rewrite !app_length. cbn [length]. lia. }
      assert (Hc' : length crest' = length (mid' ++ suf)).
      { rewrite !app_length in *. cbn [length] in Hc. lia. }
      cbn [filter]. destruct (tax x) as [t|] eqn:Etx.
      + assert (Ekx : known x = true) by (unfold known; now rewrite Etx).
        rewrite Ekx.
        specialize (IH (pre ++ [x]) mid' crest' (mset (length pre) (Some t) taxa) Hc'
                       ltac:(apply Forall_app; split; [exact Hk | constructor; [exact Ekx | constructor]])
                       (taxa_inv_snoc pre taxa x t Ht Etx)).
        rewrite <- Hlen in IH. rewrite map_app in IH. cbn [map] in IH. rewrite <- !app_assoc in IH. cbn [app] in IH.
        replace (length (pre ++ [x])) with (S (length pre)) in IH by (rewrite app_length; cbn [length]; lia).
        rewrite <- !app_assoc. cbn [app]. change (sc x) with (Some (cnt x)) in IH. exact IH.
      + assert (Ekx : known x = false) by (unfold known; now rewrite Etx).
        rewrite Ekx.
        assert (Hlen2 : S (length (pre ++ mid)) = length (pre ++ (x :: mid'))).
        { rewrite !app_length. cbn [length]. rewrite app_length in Hlen. rewrite !app_length in Hlen. cbn [length] in Hlen. lia. }
        specialize (IH pre (x :: mid') (Some (cnt x) :: crest') taxa
                       ltac:(cbn [length app]; rewrite app_length in *; cbn [length]; lia) Hk Ht).
        rewrite <- Hlen2 in IH. rewrite <- !app_assoc. cbn [app]. cbn [app] in IH. exact IH.
  Qed.

  Theorem tag_load_spec : forall refs,
    let r := filter known refs in
    tag_load cnt tax d refs = (r, map sc r, snd (tag_load cnt tax d refs)) /\
    (forall k, mget k (snd (tag_load cnt tax d refs)) = if k <? length r then Some (tax (nth k r d)) else None) /\
    taxa_ok (length r) (snd (tag_load cnt tax d refs)) = true.
  Proof.
    intros refs r.
    pose proof (tag_loop refs [] [] (repeat None (length refs)) []
                  ltac:(rewrite repeat_length; reflexivity) (Forall_nil _)
                  ltac:(split; [intro k; reflexivity | constructor])) as H.
    cbn [app length map] in H. destruct H as (H1 & H2 & H3 & H4).
    unfold tag_load, load_db. cbn [snd].
    rewrite H1, H2. fold r. split; [reflexivity|]. split.
    - apply H4.
    - apply taxa_inv_ok; assumption.
  Qed.

  (** IndexReferenceDB: nothing is written for a reference of unknown taxid *)
  Lemma refidx_loop : forall suf pre mid (cs : list (option C)) taxa,
    Forall (fun x => known x = true) pre -> taxa_inv pre taxa ->
    let st := fold_left (refidx_step tax d) (seq (length (pre ++ mid)) (length suf))
                        (mkldb (pre ++ mid ++ suf) cs taxa (length pre)) in
    let r := pre ++ filter known suf in
    firstn (l_j st) (l_refs st) = r /\ Forall (fun x => known x = true) r /\ taxa_inv r (l_taxa st).
  Proof.
    induction suf as [|x suf IH]; intros pre mid cs taxa Hk Ht.
    - cbn [length seq fold_left filter l_j l_refs l_taxa]. rewrite !app_nil_r.
      repeat split; auto; try apply Ht.
      rewrite firstn_app, Nat.sub_diag, firstn_all. cbn [firstn]. now rewrite app_nil_r.
    - cbn [length seq fold_left].
      assert (Hx : nth (length (pre ++ mid)) (pre ++ mid ++ x :: suf) d = x).
      { rewrite app_assoc. apply nth_mid. }
      destruct (upd_gap A pre mid x suf) as [mid' [Hu Hl]].
      assert (Hstep : refidx_step tax d (mkldb (pre ++ mid ++ x :: suf) cs taxa (length pre)) (length (pre ++ mid)) =
                      match tax x with
                      | Some t => mkldb ((pre ++ [x]) ++ mid' ++ suf) cs (mset (length pre) (Some t) taxa) (S (length pre))
                      | None => mkldb (pre ++ (mid ++ [x]) ++ suf) cs taxa (length pre)
                      end).
      { unfold refidx_step. cbn [l_refs l_j l_cnts l_taxa]. rewrite Hx. destruct (tax x); [now rewrite Hu|].
        rewrite <- !app_assoc. reflexivity. }
      rewrite Hstep. clear Hstep. cbn [filter].
      destruct (tax x) as [t|] eqn:Etx.
      + assert (Ekx : known x = true) by (unfold known; now rewrite Etx).
        rewrite Ekx.
        assert (Hlen : S (length (pre ++ mid)) = length ((pre ++ [x]) ++ mid')).
        { rewrite !app_length. cbn [length]. lia. }
        specialize (IH (pre ++ [x]) mid' cs (mset (length pre) (Some t) taxa)
                       ltac:(apply Forall_app; split; [exact Hk | constructor; [exact Ekx | constructor]])
                       (taxa_inv_snoc pre taxa x t Ht Etx)).
        rewrite <- Hlen in IH.
        replace (length (pre ++ [x])) with (S (length pre)) in IH by (rewrite app_length; cbn [length]; lia).
        rewrite <- !app_assoc in IH. cbn [app] in IH. rewrite <- !app_assoc. cbn [app]. exact IH.
      + assert (Ekx : known x = false) by (unfold known; now rewrite Etx).
        rewrite Ekx.
        assert (Hlen2 : S (length (pre ++ mid)) = length (pre ++ (mid ++ [x]))).
        { rewrite !app_length. cbn [length]. lia. }
        specialize (IH pre (mid ++ [x]) cs taxa Hk Ht).
        rewrite <- Hlen2 in IH. exact IH.
  Qed.

  Theorem refidx_load_spec : forall refs,
    let r := filter known refs in
    refidx_load cnt tax d refs = (r, map sc r, snd (refidx_load cnt tax d refs)) /\
    (forall k, mget k (snd (refidx_load cnt tax d refs)) = if k <? length r then Some (tax (nth k r d)) else None) /\
    taxa_ok (length r) (snd (refidx_load cnt tax d refs)) = true.
  Proof.
    intros refs r.
    pose proof (refidx_loop refs [] [] (repeat None (length refs)) [] (Forall_nil _)
                  ltac:(split; [intro k; reflexivity | constructor])) as H.
    cbn [app length] in H. destruct H as (H1 & H3 & H4).
    unfold refidx_load, load_db. rewrite H1. fold r. cbn [snd]. split; [reflexivity|]. split.
    - apply H4.
    - apply taxa_inv_ok; assumption.
  Qed.
End Loader.

(** the loop as it was (taxa[j], err = Taxon(..)): with the LAST reference of unknown taxid a nil taxon stays in the set *)
Definition wtax (x : nat) : option nat := if x =? 9 then None else Some x.
Lemma tag_load_orig_witness :
  tag_load_orig (fun x : nat => x) wtax 0 [1; 2; 9] = ([1; 2], [Some 1; Some 2], [(2, None); (1, Some 2); (0, Some 1)]) /\
  taxa_ok 2 (snd (tag_load_orig (fun x : nat => x) wtax 0 [1; 2; 9])) = false /\
  tag_load (fun x : nat => x) wtax 0 [1; 2; 9] = ([1; 2], [Some 1; Some 2], [(1, Some 2); (0, Some 1)]) /\
  tag_load_orig (fun x : nat => x) wtax 0 [1; 9; 2] = tag_load (fun x : nat => x) wtax 0 [1; 9; 2].
Proof. vm_compute. repeat split. Qed.

(** ** MatchDistanceIndex *)
Lemma mdi_pick_acc : forall idx e acc,
  (match acc with Some (k0, t0) => e <= k0 | None => True end) ->
  match mdi_pick idx e acc with
  | Some (k, t) => (In (k, t) idx \/ acc = Some (k, t)) /\ e <= k /\
                   (forall k' t', In (k', t') idx -> e <= k' -> k <= k') /\
                   (match acc with Some (k0, _) => k <= k0 | None => True end)
  | None => acc = None /\ forall k' t', In (k', t') idx -> k' < e
  end.
Proof.
  induction idx as [|[k t] r IH]; intros e acc Hacc; cbn [mdi_pick].
  - destruct acc as [[k0 t0]|]; [|split; [reflexivity | intros ? ? HF; destruct HF]].
    repeat split; auto. intros ? ? HF; destruct HF.
  - destruct (Nat.leb_spec e k) as [Hle|Hgt].
    + set (acc' := match acc with Some (k0, _) => if k <? k0 then Some (k, t) else acc | None => Some (k, t) end).
      assert (Hacc' : match acc' with Some (k0, _) => e <= k0 | None => True end).
      { subst acc'. destruct acc as [[k0 t0]|]; [destruct (k <? k0)|]; auto. }
      assert (Hle' : match acc' with Some (k1, _) => k1 <= k /\ (match acc with Some (k0, _) => k1 <= k0 | None => True end) | None => False end).
      { subst acc'. destruct acc as [[k0 t0]|]; [destruct (Nat.ltb_spec k k0)|]; lia. }
      assert (Hin' : match acc' with Some p => p = (k, t) \/ acc = Some p | None => False end).
      { subst acc'. destruct acc as [[k0 t0]|]; [destruct (k <? k0)|]; auto. }
      specialize (IH e acc' Hacc'). destruct (mdi_pick r e acc') as [[k1 t1]|].
      * destruct IH as (Hin & He & Hmin & Hk). destruct acc' as [[k2 t2]|]; [|contradiction].
        destruct Hle' as [Hl1 Hl2]. split; [|split; [exact He|split]].
        -- destruct Hin as [Hin|Hin]; [left; right; exact Hin|].
           injection Hin as -> ->. destruct Hin' as [Hp|Hp]; [injection Hp as -> ->; left; left; reflexivity | right; exact Hp].
        -- intros k' t' [Hp|Hp] Hek; [injection Hp as <- <-; lia | eapply Hmin; eauto].
        -- destruct acc as [[k0 t0]|]; [lia | exact I].
      * destruct IH as [Hn _]. subst acc'. destruct acc as [[k0 t0]|]; [destruct (k <? k0)|]; discriminate.
    + specialize (IH e acc Hacc). destruct (mdi_pick r e acc) as [[k1 t1]|].
      * destruct IH as (Hin & He & Hmin & Hk). repeat split; auto.
        -- destruct Hin; [left; right; assumption | right; assumption].
        -- intros k' t' [Hp|Hp] Hek; [injection Hp as <- <-; lia | eapply Hmin; eauto].
      * destruct IH as [Hn Hall]. split; [exact Hn|]. intros k' t' [Hp|Hp]; [injection Hp as <- <-; lia | eapply Hall; eauto].
Qed.

(** the table scan picks the entry with the smallest recorded distance >= e; none: every recorded distance is below e *)
Lemma mdi_pick_spec : forall idx e,
  match mdi_pick idx e None with
  | Some (k, t) => In (k, t) idx /\ e <= k /\ (forall k' t', In (k', t') idx -> e <= k' -> k <= k')
  | None => forall k' t', In (k', t') idx -> k' < e
  end.
Proof.
  intros idx e. pose proof (mdi_pick_acc idx e None I) as H.
  destruct (mdi_pick idx e None) as [[k t]|].
  - destruct H as ([H|H] & He & Hm & _); [auto | discriminate].
  - apply H.
Qed.

Lemma match_distance_index_spec : forall idx e,
  match mdi_pick idx e None with
  | Some (k, t) => match_distance_index idx e = t /\ In (k, t) idx /\ e <= k /\ (forall k' t', In (k', t') idx -> e <= k' -> k <= k')
  | None => match_distance_index idx e = 1 /\ forall k' t', In (k', t') idx -> k' < e
  end.
Proof.
  intros idx e. pose proof (mdi_pick_spec idx e) as P. unfold match_distance_index.
  destruct (mdi_pick idx e None) as [[k t]|]; split; auto.
Qed.

Lemma max_key_ge : forall idx k t, In (k, t) idx -> k <= max_key idx.
Proof.
  induction idx as [|[a v] r IH]; intros k t H; [destruct H|]; destruct H as [H|H]; cbn [max_key fold_right fst].
  - injection H as <- <-. lia.
  - specialize (IH k t H). unfold max_key in IH. lia.
Qed.
Lemma match_distance_index_beyond : forall idx e, max_key idx < e -> match_distance_index idx e = 1.
Proof.
  intros idx e H. unfold match_distance_index. pose proof (mdi_pick_spec idx e) as P.
  destruct (mdi_pick idx e None) as [[k t]|]; [|reflexivity].
  destruct P as (Hin & He & _). apply max_key_ge in Hin. lia.
Qed.
Lemma mdi_table_length : forall idx, length (mdi_table idx) = max_key idx + 3.
Proof. intro idx. unfold mdi_table. now rewrite map_length, seq_length. Qed.

Lemma mdi_strict_example :
  lookup [(2, 1); (0, 4)] 1 None = Some (0, 4) /\ match_distance_index [(2, 1); (0, 4)] 1 = 1 /\
  mdi_table [(2, 1); (0, 4)] = [4; 1; 1; 1; 1].
Proof. vm_compute. repeat split. Qed.

(** MatchDistanceIndex on an index built by IndexSequence: its answer is a common ancestor of the taxa of ALL references
    within the observed distance e (sound for the property), and an ancestor-or-self of the answer of Identify's own lookup *)
Lemma match_distance_index_sound :
  forall (anc : nat -> nat -> Prop) (lca : nat -> nat -> nat),
  (forall a, anc a a) -> (forall a b c, anc a b -> anc b c -> anc a c) ->
  (forall x a b, anc x (lca a b) <-> anc x a /\ anc x b) -> (forall x, anc 1 x) ->
  forall slen tseq pseq rs,
    path_chain anc pseq -> (forall r, In r rs -> In (lca tseq (r_tax r)) pseq) ->
    (exists r, In r rs /\ r_tax r = tseq /\ r_d r = 0) ->
    iby_decreasing_cw (icands lca tseq rs) -> iqgram_ok slen (icands lca tseq rs) ->
    forall e r, In r rs -> r_d r <= e ->
      anc (match_distance_index (index_ref thr_fixed slen pseq (icands lca tseq rs)) e) (r_tax r).
Proof.
  intros anc lca Hrefl Htrans Hglb Hroot slen tseq pseq rs Hp Hin Hself Hdec Hq e r Hr Hd.
  unfold match_distance_index.
  pose proof (mdi_pick_spec (index_ref thr_fixed slen pseq (icands lca tseq rs)) e) as P.
  destruct (mdi_pick (index_ref thr_fixed slen pseq (icands lca tseq rs)) e None) as [[k a]|]; [|apply Hroot].
  destruct P as (Hka & Hek & _).
  destruct (index_is_lca anc lca Hrefl Htrans Hglb slen tseq pseq rs Hp Hin Hself Hdec Hq k a Hka) as (_ & _ & Hl).
  apply (proj1 (Hl a) (Hrefl a)). apply in_map. apply filter_In. split; [exact Hr | apply Nat.leb_le; lia].
Qed.

Lemma match_distance_index_coarser :
  forall (anc : nat -> nat -> Prop) (lca : nat -> nat -> nat),
  (forall a, anc a a) -> (forall a b c, anc a b -> anc b c -> anc a c) ->
  (forall x a b, anc x (lca a b) <-> anc x a /\ anc x b) -> (forall x, anc 1 x) ->
  forall slen tseq pseq rs,
    path_chain anc pseq -> (forall r, In r rs -> In (lca tseq (r_tax r)) pseq) ->
    (exists r, In r rs /\ r_tax r = tseq /\ r_d r = 0) ->
    iby_decreasing_cw (icands lca tseq rs) -> iqgram_ok slen (icands lca tseq rs) ->
    forall e k a, e < slen ->
      lookup (index_ref thr_fixed slen pseq (icands lca tseq rs)) e None = Some (k, a) ->
      anc (match_distance_index (index_ref thr_fixed slen pseq (icands lca tseq rs)) e) a.
Proof.
  intros anc lca Hrefl Htrans Hglb Hroot slen tseq pseq rs Hp Hin Hself Hdec Hq e k a He Hl.
  destruct (index_lookup_is_lca anc lca Hrefl Htrans Hglb slen tseq pseq rs Hp Hin Hself Hdec Hq e k a He Hl) as (_ & _ & Hlca).
  apply (proj2 (Hlca _)). intros t Ht. apply in_map_iff in Ht. destruct Ht as (r & <- & Hr).
  apply filter_In in Hr. destruct Hr as [Hr Hd]. apply Nat.leb_le in Hd.
  eapply match_distance_index_sound; eauto.
Qed.

(** ** the unrepaired loader of obitag, in general *)
Lemma mget_In : forall T k (v : T) m, mget k m = Some v -> In (k, v) m.
Proof.
  intros T k v m. induction m as [|[a w] m IH]; cbn [mget]; [discriminate|].
  destruct (Nat.eqb_spec a k) as [->|Hn]; intro H; [injection H as ->; now left | right; auto].
Qed.

Section LoaderOrig.
  Context {A C T : Type} (cnt : A -> C) (tax : A -> option T) (d : A).
  Local Notation known := (known tax).
  Local Notation sc := (sc cnt).

  (** the taxon set of the ORIGINAL loop after the references [pre] have been kept; [lu]: the last reference met was discarded *)
  Definition taxa_inv_orig (pre : list A) (lu : bool) (m : list (nat * option T)) : Prop :=
    (forall k, k < length pre -> mget k m = Some (tax (nth k pre d))) /\
    mget (length pre) m = (if lu then Some None else None) /\
    (forall k, length pre < k -> mget k m = None).

  Lemma tag_loop_orig : forall suf pre mid crest taxa lu,
    length crest = length (mid ++ suf) -> taxa_inv_orig pre lu taxa ->
    let st := fold_left (tag_step_orig cnt tax d) (seq (length (pre ++ mid)) (length suf))
                        (mkldb (pre ++ mid ++ suf) (map sc pre ++ crest) taxa (length pre)) in
    let r := pre ++ filter known suf in
    firstn (l_j st) (l_refs st) = r /\ firstn (l_j st) (l_cnts st) = map sc r /\
    taxa_inv_orig r (fold_left (fun _ x => negb (known x)) suf lu) (l_taxa st).
  Proof.
    induction suf as [|x suf IH]; intros pre mid crest taxa lu Hc Ht.
    - cbn [length seq fold_left filter l_j l_refs l_cnts l_taxa]. rewrite !app_nil_r.
      repeat split; try apply Ht.
      + rewrite firstn_app, Nat.sub_diag, firstn_all. cbn [firstn]. now rewrite app_nil_r.
      + replace (length pre) with (length (map sc pre)) by apply map_length.
        rewrite firstn_app, Nat.sub_diag, firstn_all. cbn [firstn]. now rewrite app_nil_r.
    - cbn [length seq fold_left].
      assert (Hx : nth (length (pre ++ mid)) (pre ++ mid ++ x :: suf) d = x).
      { rewrite app_assoc. apply nth_mid. }
      destruct crest as [|c0 crest']; [rewrite app_length in Hc; cbn [length] in Hc; lia|].
      assert (Hcu : forall v, upd (length pre) v (map sc pre ++ c0 :: crest') = map sc pre ++ v :: crest').
      { intro v. replace (length pre) with (length (map sc pre)) by apply map_length. apply upd_app_here. }
      destruct (upd_gap A pre mid x suf) as [mid' [Hu Hl]].
      assert (Hstep : tag_step_orig cnt tax d (mkldb (pre ++ mid ++ x :: suf) (map sc pre ++ c0 :: crest') taxa (length pre)) (length (pre ++ mid)) =
                      mkldb ((pre ++ [x]) ++ mid' ++ suf) (map sc pre ++ Some (cnt x) :: crest') (mset (length pre) (tax x) taxa)
                            (match tax x with Some _ => S (length pre) | None => length pre end)).
      { unfold tag_step_orig. cbn [l_refs l_j l_cnts l_taxa]. rewrite Hx, Hu, Hcu. reflexivity. }
      rewrite Hstep. clear Hstep.
      assert (Hlen : S (length (pre ++ mid)) = length ((pre ++ [x]) ++ mid')).
      { rewrite !app_length. cbn [length]. lia. }
      assert (Hc' : length crest' = length (mid' ++ suf)).
      { rewrite !app_length in *. cbn [length] in Hc. lia. }
      destruct Ht as (Ht1 & Ht2 & Ht3).
      cbn [filter]. destruct (tax x) as [t|] eqn:Etx.
      + assert (Ekx : known x = true) by (unfold known; now rewrite Etx).
        rewrite Ekx. cbn [negb].
        assert (Ht' : taxa_inv_orig (pre ++ [x]) false (mset (length pre) (Some t) taxa)).
        { repeat split.
          - intros k Hk. rewrite app_length in Hk. cbn [length] in Hk. rewrite mget_mset.
            destruct (Nat.eqb_spec (length pre) k) as [<-|Hn].
            + rewrite nth_mid. now rewrite Etx.
            + rewrite app_nth1 by lia. apply Ht1. lia.
          - rewrite app_length. cbn [length]. rewrite mget_mset.
            destruct (Nat.eqb_spec (length pre) (length pre + 1)); [lia|]. apply Ht3. lia.
          - intros k Hk. rewrite app_length in Hk. cbn [length] in Hk. rewrite mget_mset.
            destruct (Nat.eqb_spec (length pre) k); [lia|]. apply Ht3. lia. }
        specialize (IH (pre ++ [x]) mid' crest' (mset (length pre) (Some t) taxa) false Hc' Ht').
        rewrite <- Hlen in IH. rewrite map_app in IH. cbn [map] in IH. rewrite <- !app_assoc in IH. cbn [app] in IH.
        replace (length (pre ++ [x])) with (S (length pre)) in IH by (rewrite app_length; cbn [length]; lia).
        rewrite <- !app_assoc. cbn [app]. exact IH.
      + assert (Ekx : known x = false) by (unfold known; now rewrite Etx).
        rewrite Ekx. cbn [negb].
        assert (Ht' : taxa_inv_orig pre true (mset (length pre) None taxa)).
        { repeat split.
          - intros k Hk. rewrite mget_mset. destruct (Nat.eqb_spec (length pre) k); [lia|]. now apply Ht1.
          - rewrite mget_mset. now rewrite Nat.eqb_refl.
          - intros k Hk. rewrite mget_mset. destruct (Nat.eqb_spec (length pre) k); [lia|]. now apply Ht3. }
        assert (Hlen2 : S (length (pre ++ mid)) = length (pre ++ (x :: mid'))).
        { rewrite !app_length in *. cbn [length] in *. lia. }
        specialize (IH pre (x :: mid') (Some (cnt x) :: crest') (mset (length pre) None taxa) true
                       ltac:(cbn [length app]; rewrite app_length in *; cbn [length]; lia) Ht').
        rewrite <- Hlen2 in IH. rewrite <- !app_assoc. cbn [app]. cbn [app] in IH. exact IH.
  Qed.

  (** the unrepaired loader: same references and tables; the taxon set keeps a NIL entry at key |kept| exactly when the LAST
      reference of the database is discarded *)
  Theorem tag_load_orig_spec : forall refs x,
    let db := refs ++ [x] in
    let r := filter known db in
    tag_load_orig cnt tax d db = (r, map sc r, snd (tag_load_orig cnt tax d db)) /\
    (forall k, k < length r -> mget k (snd (tag_load_orig cnt tax d db)) = Some (tax (nth k r d))) /\
    mget (length r) (snd (tag_load_orig cnt tax d db)) = (if known x then None else Some None) /\
    (forall k, length r < k -> mget k (snd (tag_load_orig cnt tax d db)) = None) /\
    (known x = false -> taxa_ok (length r) (snd (tag_load_orig cnt tax d db)) = false).
  Proof.
    intros refs x db r.
    pose proof (tag_loop_orig db [] [] (repeat None (length db)) [] false
                  ltac:(rewrite repeat_length; reflexivity)
                  ltac:(split; [intros k Hk; cbn [length] in Hk; lia | split; [reflexivity | intros; reflexivity]])) as H.
    cbn [app length map] in H. destruct H as (H1 & H2 & H3).
    assert (Hlu : fold_left (fun (_ : bool) (y : A) => negb (known y)) db false = negb (known x)).
    { unfold db. rewrite fold_left_app. reflexivity. }
    rewrite Hlu in H3. destruct H3 as (T1 & T2 & T3).
    unfold tag_load_orig, load_db. cbn [snd].
    rewrite H1, H2. fold r. fold r in T1, T2, T3.
    split; [reflexivity|]. split; [exact T1|]. split; [destruct (known x); exact T2|]. split; [exact T3|].
    intro Ek. rewrite Ek in T2. cbn [negb] in T2. apply mget_In in T2.
    unfold taxa_ok. apply andb_false_intro1. apply not_true_is_false. intro Hf.
    rewrite forallb_forall in Hf. specialize (Hf _ T2). cbn [fst snd] in Hf.
    rewrite Nat.ltb_irrefl in Hf. discriminate.
  Qed.
End LoaderOrig.

(** ** worker chunks of IndexReferenceDB / IndexFamilyDB / MakeIndexingSliceWorker *)
Lemma chunk_limits_cover : forall fuel i n, n <= i + fuel ->
  flat_map chunk_indices (chunk_limits fuel i n) = seq i (n - i).
Proof.
  induction fuel as [|f IH]; intros i n H; cbn [chunk_limits].
  - replace (n - i) with 0 by lia. reflexivity.
  - destruct (Nat.ltb_spec i n) as [Hlt|Hge].
    + cbn [flat_map]. rewrite (IH (i + 10) n) by lia. unfold chunk_indices at 1. cbn [fst snd].
      destruct (Nat.le_gt_cases (i + 10) n) as [Hle|Hgt].
      * rewrite Nat.min_l by lia. replace (i + 10 - i) with 10 by lia.
        replace (n - i) with (10 + (n - (i + 10))) by lia. now rewrite seq_app.
      * rewrite Nat.min_r by lia. replace (n - (i + 10)) with 0 by lia. cbn [seq]. now rewrite app_nil_r.
    + replace (n - i) with 0 by lia. reflexivity.
Qed.
Lemma limits_cover : forall n, flat_map chunk_indices (limits n) = seq 0 n.
Proof. intro n. unfold limits. rewrite chunk_limits_cover by lia. now rewrite Nat.sub_0_r. Qed.
Lemma chunk_limits_bounds : forall fuel i n a b, In (a, b) (chunk_limits fuel i n) -> a < b /\ b <= n /\ b - a <= 10.
Proof.
  induction fuel as [|f IH]; intros i n a b H; cbn [chunk_limits] in H; [destruct H|].
  destruct (Nat.ltb_spec i n); [|destruct H]. destruct H as [H|H]; [injection H as <- <-; lia | eauto].
Qed.
Lemma limits_bounds : forall n a b, In (a, b) (limits n) -> a < b /\ b <= n /\ b - a <= 10.
Proof. intros n a b. apply chunk_limits_bounds. Qed.

(** ** obitag2, exact match: LCA of the taxa of the byte-identical references *)
Section Exact.
  Variable anc : nat -> nat -> Prop.
  Variable lca : nat -> nat -> nat.
  Hypothesis anc_refl : forall a, anc a a.
  Hypothesis anc_trans : forall a b c, anc a b -> anc b c -> anc a c.
  Hypothesis lca_glb : forall x a b, anc x (lca a b) <-> anc x a /\ anc x b.

  Lemma fold_lca_glb : forall ts acc t, fold_lca (fun a b => Some (lca a b)) ts acc = Some t ->
    forall x, (forall a, acc = Some a -> anc x a) -> (forall y, In y ts -> anc x y) -> anc x t.
  Proof.
    induction ts as [|t0 r IH]; intros acc t H x Ha Hy.
    - cbn in H. subst acc. now apply Ha.
    - cbn [fold_lca] in H. destruct acc as [a0|].
      + apply (IH _ _ H x); [|intros y Hin; apply Hy; now right].
        intros a [= <-]. apply lca_glb. split; [now apply Ha | apply Hy; now left].
      + apply (IH _ _ H x); [|intros y Hin; apply Hy; now right].
        intros a [= <-]. apply Hy. now left.
  Qed.

  Theorem exact_taxon_is_lca : forall q refs tax t,
    exact_taxon (fun a b => Some (lca a b)) q refs tax = Some t ->
    is_lca_of anc t (map snd (filter (fun p => list_eqb N.eqb q (fst p)) (combine refs tax))).
  Proof.
    intros q refs tax t H x. unfold exact_taxon in H. split.
    - intros Hx y Hy. destruct (fold_lca_anc anc lca anc_refl lca_glb _ _ _ H) as [_ B].
      eapply anc_trans; [exact Hx | now apply B].
    - intros Hall. apply (fold_lca_glb _ _ _ H x); [intros a; discriminate | exact Hall].
  Qed.
  Theorem exact_taxon_total : forall q refs tax,
    (exists p, In p (combine refs tax) /\ list_eqb N.eqb q (fst p) = true) ->
    exists t, exact_taxon (fun a b => Some (lca a b)) q refs tax = Some t.
  Proof.
    intros q refs tax [p [Hp He]]. unfold exact_taxon.
    assert (Hin : In p (filter (fun p => list_eqb N.eqb q (fst p)) (combine refs tax))) by (apply filter_In; auto).
    destruct (filter _ _) as [|p0 l]; [destruct Hin|]. cbn [map fold_lca]. apply fold_lca_total.
  Qed.
End Exact.
