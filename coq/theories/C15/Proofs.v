(** C15 — lemmas (the statements of the property theorems are in Props.v) *)
From Coq Require Import NArith List Bool Arith Lia Sorted Permutation.
From OBI.C15.Gen Require Import Tables.
From OBI.C15 Require Import Model.
Import ListNotations.



Lemma kmers4_length : forall s, length (kmers4 s) = length s - 3.
Proof.
  induction s as [|a tl IH]; [reflexivity|].
  cbn [kmers4]. destruct tl as [|b [|c [|d r]]]; try reflexivity.
  cbn [length] in *. rewrite IH. lia.
Qed.

(** * specification vocabulary *)
Inductive edit1 : list N -> list N -> Prop :=
| e_sub : forall p a b r, edit1 (p ++ a :: r) (p ++ b :: r)
| e_ins : forall p b r, edit1 (p ++ r) (p ++ b :: r)
| e_del : forall p a r, edit1 (p ++ a :: r) (p ++ r).
Inductive edits : nat -> list N -> list N -> Prop :=
| ed_0 : forall s, edits 0 s s
| ed_S : forall d s t u, edit1 s t -> edits d t u -> edits (S d) s u.

Definition miss (l1 l2 : list N) : nat := sumk (fun k => count k l1 - count k l2) 256.

(** * sums over the 256 codes *)
Lemma sumk_le : forall f g n, (forall k, f k <= g k) -> sumk f n <= sumk g n.
Proof. induction n as [|n IH]; intros H; cbn [sumk]; [lia|]. specialize (IH H). specialize (H (N.of_nat n)). lia. Qed.
Lemma sumk_ext : forall f g n, (forall k, f k = g k) -> sumk f n = sumk g n.
Proof. induction n as [|n IH]; intros H; cbn [sumk]; [lia|]. rewrite IH, H by assumption. reflexivity. Qed.
Lemma sumk_plus : forall f g n, sumk (fun k => f k + g k) n = sumk f n + sumk g n.
Proof. induction n as [|n IH]; cbn [sumk]; lia. Qed.
Lemma sumk_zero : forall f n, (forall k, f k = 0) -> sumk f n = 0.
Proof. induction n as [|n IH]; intros H; cbn [sumk]; [reflexivity|]. rewrite IH, H by assumption. reflexivity. Qed.
Lemma sumk_ind1 : forall x n, sumk (fun k => if N.eqb x k then 1 else 0) n = if N.to_nat x <? n then 1 else 0.
Proof.
  intros x. induction n as [|n IH]; cbn [sumk]; [reflexivity|]. rewrite IH.
  destruct (N.eqb_spec x (N.of_nat n)) as [E|E].
  - subst x. rewrite Nnat.Nat2N.id.
    destruct (Nat.ltb_spec n n); destruct (Nat.ltb_spec n (S n)); lia.
  - assert (N.to_nat x <> n) by (intros <-; apply E; now rewrite Nnat.N2Nat.id).
    destruct (Nat.ltb_spec (N.to_nat x) n); destruct (Nat.ltb_spec (N.to_nat x) (S n)); lia.
Qed.
Lemma count_cons : forall k x l, count k (x :: l) = (if N.eqb x k then 1 else 0) + count k l.
Proof. intros. cbn [count]. destruct (N.eqb x k); reflexivity. Qed.
Lemma count_app : forall k l1 l2, count k (l1 ++ l2) = count k l1 + count k l2.
Proof. induction l1 as [|x l1 IH]; intros; [reflexivity|]. rewrite <- app_comm_cons, !count_cons, IH. lia. Qed.
Lemma sumk_count_le : forall l n, sumk (fun k => count k l) n <= length l.
Proof.
  induction l as [|x l IH]; intros n.
  - rewrite sumk_zero by reflexivity. cbn. lia.
  - rewrite (sumk_ext _ (fun k => (if N.eqb x k then 1 else 0) + count k l)) by (intros; apply count_cons).
    rewrite sumk_plus, sumk_ind1. specialize (IH n). cbn [length]. destruct (_ <? _); lia.
Qed.
Lemma sumk_count_eq : forall l, Forall (fun x => (x < 256)%N) l -> sumk (fun k => count k l) 256 = length l.
Proof.
  induction l as [|x l IH]; intros F.
  - now rewrite sumk_zero by reflexivity.
  - inversion F as [|? ? Hx Hl]; subst.
    rewrite (sumk_ext _ (fun k => (if N.eqb x k then 1 else 0) + count k l)) by (intros; apply count_cons).
    rewrite sumk_plus, sumk_ind1, IH by assumption. cbn [length].
    destruct (Nat.ltb_spec (N.to_nat x) 256); lia.
Qed.

Lemma common_sym : forall l1 l2, common l1 l2 = common l2 l1.
Proof. intros. unfold common. apply sumk_ext. intros. apply Nat.min_comm. Qed.
Lemma common_miss : forall l1 l2, common l1 l2 + miss l1 l2 = sumk (fun k => count k l1) 256.
Proof. intros. unfold common, miss. rewrite <- sumk_plus. apply sumk_ext. intros. lia. Qed.
Lemma miss_triangle : forall l1 l2 l3, miss l1 l3 <= miss l1 l2 + miss l2 l3.
Proof. intros. unfold miss. rewrite <- sumk_plus. apply sumk_le. intros. lia. Qed.
Lemma miss_refl : forall l, miss l l = 0.
Proof. intros. unfold miss. apply sumk_zero. intros. lia. Qed.
Lemma miss_frame : forall a r m1 m2, miss (a ++ m1 ++ r) (a ++ m2 ++ r) <= length m1.
Proof.
  intros. unfold miss. etransitivity; [|apply (sumk_count_le m1 256)].
  apply sumk_le. intros k. rewrite !count_app. lia.
Qed.

(** * windows *)
Definition head_code (a : N) (tl : list N) : list N :=
  match tl with b :: c :: d :: _ => [code4 a b c d] | _ => [] end.
Lemma kmers4_short : forall s, length s <= 3 -> kmers4 s = [].
Proof. intros [|a [|b [|c [|d r]]]] H; try reflexivity. cbn [length] in H. lia. Qed.
Lemma kmers4_cons : forall a tl, kmers4 (a :: tl) = head_code a tl ++ kmers4 tl.
Proof.
  intros a tl. cbn [kmers4]. destruct tl as [|b [|c [|d r]]]; try reflexivity.
Qed.
Lemma head_code_app3 : forall a u v, head_code a (u ++ v) = head_code a (u ++ firstn 3 v).
Proof. intros a u v. destruct u as [|? [|? [|? ?]]]; destruct v as [|? [|? [|? ?]]]; reflexivity. Qed.
Lemma head_code_long : forall a u v, 3 <= length u -> head_code a (u ++ v) = head_code a u.
Proof. intros a u v H. destruct u as [|? [|? [|? ?]]]; cbn [length] in H; try lia. reflexivity. Qed.

Lemma kmers4_split_right : forall u v, kmers4 (u ++ v) = kmers4 (u ++ firstn 3 v) ++ kmers4 v.
Proof.
  induction u as [|a u IH]; intros v.
  - cbn [app]. rewrite (kmers4_short (firstn 3 v)); [reflexivity|]. rewrite firstn_length. lia.
  - rewrite <- !app_comm_cons, !kmers4_cons, IH, head_code_app3, app_assoc. reflexivity.
Qed.
Lemma kmers4_prefix : forall p w, exists m, kmers4 (p ++ w) = kmers4 p ++ m /\ length m <= length w.
Proof.
  induction p as [|a p IH]; intros w.
  - exists (kmers4 w). split; [reflexivity|]. rewrite kmers4_length. lia.
  - destruct (le_lt_dec 3 (length p)) as [L|L].
    + destruct (IH w) as [m [E Hm]]. exists m. split; [|exact Hm].
      rewrite <- app_comm_cons, !kmers4_cons, E, head_code_long by exact L. now rewrite app_assoc.
    + exists (kmers4 ((a :: p) ++ w)). split.
      * rewrite (kmers4_short (a :: p)); [reflexivity|cbn [length]; lia].
      * rewrite kmers4_length, app_length. cbn [length]. lia.
Qed.
Lemma kmers4_mid : forall p x r, exists M,
  kmers4 (p ++ x ++ r) = kmers4 p ++ M ++ kmers4 r /\ length M <= length x + 3.
Proof.
  intros p x r. rewrite app_assoc, kmers4_split_right, <- app_assoc.
  destruct (kmers4_prefix p (x ++ firstn 3 r)) as [m [E Hm]].
  exists m. split; [now rewrite E, <- app_assoc|].
  rewrite app_length, firstn_length in Hm. lia.
Qed.

Lemma edit1_shape : forall s t, edit1 s t ->
  exists p x y r, s = p ++ x ++ r /\ t = p ++ y ++ r /\ length x <= 1 /\ length y <= 1.
Proof.
  intros s t H. destruct H as [p a b r|p b r|p a r].
  - exists p, [a], [b], r. cbn. auto.
  - exists p, [], [b], r. cbn. auto.
  - exists p, [a], [], r. cbn. auto.
Qed.
Lemma edit1_miss : forall s t, edit1 s t ->
  miss (kmers4 s) (kmers4 t) <= 4 /\ miss (kmers4 t) (kmers4 s) <= 4.
Proof.
  intros s t H. destruct (edit1_shape _ _ H) as [p [x [y [r [Es [Et [Lx Ly]]]]]]]. subst s t.
  destruct (kmers4_mid p x r) as [M1 [E1 H1]]. destruct (kmers4_mid p y r) as [M2 [E2 H2]].
  rewrite E1, E2. split.
  - etransitivity; [apply miss_frame|lia].
  - etransitivity; [apply miss_frame|lia].
Qed.
Lemma edits_miss : forall d s t, edits d s t ->
  miss (kmers4 s) (kmers4 t) <= 4 * d /\ miss (kmers4 t) (kmers4 s) <= 4 * d.
Proof.
  induction 1 as [s|d s t u H1 H IH].
  - rewrite miss_refl. lia.
  - destruct (edit1_miss _ _ H1) as [A B]. destruct IH as [C D].
    pose proof (miss_triangle (kmers4 s) (kmers4 t) (kmers4 u)).
    pose proof (miss_triangle (kmers4 u) (kmers4 t) (kmers4 s)). lia.
Qed.

(** facts about the REGENERATED table, re-proved on every run *)
Lemma base_code_tab_length : length base_code_tab = 32.
Proof. vm_compute. reflexivity. Qed.
Lemma base_code_tab_le3 : forallb (fun c => (c <=? 3)%N) base_code_tab = true.
Proof. vm_compute. reflexivity. Qed.
Lemma base_code_le3 : forall x, (base_code x <= 3)%N.
Proof.
  intros x. unfold base_code.
  destruct (nth_in_or_default (N.to_nat (N.land x 31)) base_code_tab 0%N) as [H|H]; [|rewrite H; lia].
  pose proof base_code_tab_le3 as F. rewrite forallb_forall in F. apply F in H. now apply N.leb_le.
Qed.
Lemma code4_lt : forall a b c d, (code4 a b c d < 256)%N.
Proof.
  intros. unfold code4.
  pose proof (base_code_le3 a); pose proof (base_code_le3 b); pose proof (base_code_le3 c); pose proof (base_code_le3 d). lia.
Qed.
Lemma kmers4_codes : forall s, Forall (fun x => (x < 256)%N) (kmers4 s).
Proof.
  induction s as [|a tl IH]; [constructor|].
  rewrite kmers4_cons. apply Forall_app. split; [|exact IH].
  unfold head_code. destruct tl as [|b [|c [|d r]]]; constructor; [apply code4_lt|constructor].
Qed.

Theorem qgram_bound : forall d s t, edits d s t ->
  Nat.max (length s) (length t) - 3 - 4 * d <= common4 s t.
Proof.
  intros d s t H. destruct (edits_miss _ _ _ H) as [A B]. unfold common4.
  pose proof (common_miss (kmers4 s) (kmers4 t)) as Cs.
  pose proof (common_miss (kmers4 t) (kmers4 s)) as Ct.
  rewrite sumk_count_eq, kmers4_length in Cs, Ct by apply kmers4_codes.
  rewrite (common_sym (kmers4 t)) in Ct. lia.
Qed.



(** * FindClosests: the scan with its break returns the argmin set *)
Fixpoint minl (cs : list cand) : option nat :=
  match cs with
  | [] => None
  | c :: r => match minl r with None => Some (c_d c) | Some m => Some (Nat.min (c_d c) m) end
  end.
Definition best_set (cs : list cand) : list nat :=
  match minl cs with
  | None => []
  | Some m => map c_idx (filter (fun c => c_d c =? m) cs)
  end.
Definition fall thr qlen (cs : list cand) (st : fstate) : fstate :=
  fold_left (fun st c => fstep thr qlen c st) cs st.

Lemma minl_none : forall cs, minl cs = None -> cs = [].
Proof. intros [|c r]; [reflexivity|]. cbn [minl]. destruct (minl r); discriminate. Qed.
Lemma minl_snoc : forall cs c, minl (cs ++ [c]) =
  match minl cs with None => Some (c_d c) | Some m => Some (Nat.min m (c_d c)) end.
Proof.
  induction cs as [|a r IH]; intros c; [reflexivity|].
  rewrite <- app_comm_cons. cbn [minl]. rewrite IH. destruct (minl r) as [m|]; f_equal; lia.
Qed.
Lemma minl_lower : forall cs m, minl cs = Some m -> forall c, In c cs -> m <= c_d c.
Proof.
  induction cs as [|a r IH]; intros m H c Hin; [destruct Hin|].
  cbn [minl] in H. destruct (minl r) as [m'|] eqn:E.
  - injection H as <-. destruct Hin as [<-|Hin]; [lia|]. specialize (IH m' eq_refl c Hin). lia.
  - apply minl_none in E. subst r. injection H as <-. destruct Hin as [<-|[]]. lia.
Qed.
Lemma minl_attained : forall cs m, minl cs = Some m -> exists c, In c cs /\ c_d c = m.
Proof.
  induction cs as [|a r IH]; intros m H; [discriminate|].
  cbn [minl] in H. destruct (minl r) as [m'|] eqn:E.
  - injection H as <-. destruct (Nat.min_spec (c_d a) m') as [[_ ->]|[_ ->]].
    + exists a. split; [now left|reflexivity].
    + destruct (IH m' eq_refl) as [c [Hc Hd]]. exists c. split; [now right|exact Hd].
  - injection H as <-. exists a. split; [now left|reflexivity].
Qed.
Lemma filter_none : forall (cs : list cand) f, (forall c, In c cs -> f c = false) -> filter f cs = [].
Proof.
  induction cs as [|a r IH]; intros f H; [reflexivity|]. cbn [filter].
  rewrite (H a (or_introl eq_refl)). apply IH. intros c Hc. apply H. now right.
Qed.

Definition repr (pre : list cand) (st : fstate) : Prop :=
  s_maxe st = minl pre /\ s_bests st = best_set pre.
Definition wm_ok (qlen : nat) (st : fstate) : Prop :=
  match s_maxe st with None => s_wordmin st = 0 | Some m => s_wordmin st = qlen - 3 - 4 * m end.

Lemma kern_some_le : forall m d, d <= m -> kern (Some m) d = Some d.
Proof.
  intros m d H. unfold kern. destruct (Nat.leb_spec m 1).
  - destruct (Nat.leb_spec d 1); [reflexivity|lia].
  - destruct (Nat.leb_spec d m); [reflexivity|lia].
Qed.
Lemma fstep_far : forall thr qlen c st m, s_maxe st = Some m -> m < c_d c -> fstep thr qlen c st = st.
Proof.
  intros thr qlen c st m E H. unfold fstep, fstep_core. rewrite E. unfold kern.
  destruct (Nat.leb_spec m 1).
  - destruct (Nat.leb_spec (c_d c) 1); [|reflexivity].
    destruct (Nat.ltb_spec (c_d c) m); [lia|]. rewrite E. destruct (Nat.eqb_spec (c_d c) m); [lia|reflexivity].
  - destruct (Nat.leb_spec (c_d c) m); [lia|reflexivity].
Qed.

Lemma fstep_repr : forall thr qlen pre c st, repr pre st -> repr (pre ++ [c]) (fstep thr qlen c st).
Proof.
  intros thr qlen pre c st [Hm Hb]. unfold repr, best_set in *. rewrite minl_snoc.
  destruct (minl pre) as [m|] eqn:E.
  - destruct (lt_eq_lt_dec (c_d c) m) as [[L|L]|L].
    + (* strictly better *)
      unfold fstep, fstep_core. rewrite Hm, kern_some_le by lia.
      destruct (Nat.ltb_spec (c_d c) m); [|lia]. cbn [s_maxe s_bests s_wordmin s_blcs s_bali s_bmatch].
      rewrite Nat.eqb_refl. cbn [s_maxe s_bests]. rewrite Nat.min_r by lia. split; [reflexivity|].
      rewrite filter_app, map_app. cbn [filter]. rewrite Nat.eqb_refl.
      rewrite filter_none; [reflexivity|].
      intros c' Hc'. pose proof (minl_lower _ _ E c' Hc'). apply Nat.eqb_neq. lia.
    + (* tie *)
      unfold fstep, fstep_core. rewrite Hm, kern_some_le by lia.
      destruct (Nat.ltb_spec (c_d c) m); [lia|]. rewrite Hm.
      destruct (Nat.eqb_spec (c_d c) m); [|lia]. cbn [s_maxe s_bests]. rewrite Nat.min_l by lia.
      split; [reflexivity|]. rewrite Hb, filter_app, map_app. cbn [filter].
      destruct (Nat.eqb_spec (c_d c) m); [reflexivity|lia].
    + (* farther *)
      rewrite (fstep_far thr qlen c st m Hm L). rewrite Nat.min_l by lia. split; [exact Hm|].
      rewrite Hb, filter_app, map_app. cbn [filter].
      destruct (Nat.eqb_spec (c_d c) m); [lia|]. now rewrite app_nil_r.
  - apply minl_none in E. subst pre. unfold fstep, fstep_core. rewrite Hm. cbn [kern].
    cbn [s_maxe s_bests s_wordmin s_blcs s_bali s_bmatch]. rewrite Nat.eqb_refl. cbn [s_maxe s_bests].
    split; [reflexivity|]. cbn [app filter map]. now rewrite Nat.eqb_refl.
Qed.
Lemma fall_repr : forall thr qlen cs pre st, repr pre st -> repr (pre ++ cs) (fall thr qlen cs st).
Proof.
  induction cs as [|c r IH]; intros pre st H.
  - now rewrite app_nil_r.
  - cbn [fall fold_left]. change (c :: r) with ([c] ++ r). rewrite app_assoc.
    apply (IH (pre ++ [c])). now apply fstep_repr.
Qed.

Lemma fstep_wm : forall qlen c st, wm_ok qlen st -> wm_ok qlen (fstep thr_fixed qlen c st).
Proof.
  intros qlen c st H. unfold fstep, fstep_core. destruct (kern (s_maxe st) (c_d c)) as [score|]; [|exact H].
  set (better := match s_maxe st with None => true | Some m => score <? m end).
  assert (W : wm_ok qlen (if better then mkst (Some score) (thr_fixed qlen (c_len c) score) [] (c_lcs c) (c_ali c) (c_idx c) else st)).
  { destruct better; [|exact H]. unfold wm_ok, thr_fixed. reflexivity. }
  destruct (match s_maxe _ with Some m => score =? m | None => false end); [|exact W].
  unfold wm_ok in *. cbn [s_maxe s_wordmin]. exact W.
Qed.
Lemma fall_far : forall thr qlen cs st m, s_maxe st = Some m -> (forall c, In c cs -> m < c_d c) ->
  fall thr qlen cs st = st.
Proof.
  induction cs as [|c r IH]; intros st m E H; [reflexivity|].
  cbn [fall fold_left]. rewrite (fstep_far thr qlen c st m E) by (apply H; now left).
  apply (IH st m E). intros c' Hc'. apply H. now right.
Qed.

Definition qgram_ok (qlen : nat) (cs : list cand) : Prop :=
  forall c, In c cs -> qlen - 3 - 4 * c_d c <= c_cw c.
Definition by_decreasing_cw (cs : list cand) : Prop :=
  StronglySorted (fun a b => c_cw b <= c_cw a) cs.

Lemma fscan_fall : forall qlen cs st, by_decreasing_cw cs -> qgram_ok qlen cs -> wm_ok qlen st ->
  fscan thr_fixed qlen cs st = fall thr_fixed qlen cs st.
Proof.
  induction cs as [|c r IH]; intros st S Q W; [reflexivity|].
  cbn [fscan]. apply StronglySorted_inv in S. destruct S as [Sr Fc].
  destruct (Nat.ltb_spec (c_cw c) (s_wordmin st)) as [L|L].
  - (* break: every remaining candidate is beyond the best distance *)
    unfold wm_ok in W. destruct (s_maxe st) as [m|] eqn:E; [|lia].
    symmetry. apply (fall_far thr_fixed qlen (c :: r) st m E).
    intros c' Hc'. pose proof (Q c' Hc') as Qc.
    assert (c_cw c' <= c_cw c).
    { destruct Hc' as [<-|Hc']; [lia|]. rewrite Forall_forall in Fc. now apply Fc. }
    lia.
  - cbn [fall fold_left]. apply IH; [exact Sr| |now apply fstep_wm].
    intros c' Hc'. apply Q. now right.
Qed.

Theorem search_lossless : forall qlen cs, cs <> [] -> by_decreasing_cw cs -> qgram_ok qlen cs ->
  exists m, s_maxe (find_closests thr_fixed qlen cs) = Some m /\
            (forall c, In c cs -> m <= c_d c) /\ (exists c, In c cs /\ c_d c = m) /\
            s_bests (find_closests thr_fixed qlen cs) = map c_idx (filter (fun c => c_d c =? m) cs).
Proof.
  intros qlen cs NE S Q. unfold find_closests.
  rewrite fscan_fall by (try assumption; reflexivity).
  destruct (fall_repr thr_fixed qlen cs [] (finit match cs with c :: _ => c_idx c | [] => 0 end)) as [Hm Hb];
    [split; reflexivity|].
  cbn [app] in Hm, Hb. unfold best_set in Hb.
  destruct (minl cs) as [m|] eqn:E; [|apply minl_none in E; contradiction].
  exists m. split; [exact Hm|]. split; [now apply minl_lower|]. split; [now apply minl_attained|exact Hb].
Qed.



(** * IndexSequence *)
Lemma upd_mini_some : forall m d, upd_mini (Some m) d = Some (Nat.min m d).
Proof.
  intros m d. unfold upd_mini, kern. destruct (Nat.leb_spec m 1).
  - destruct (Nat.leb_spec d 1).
    + destruct (Nat.ltb_spec d m); f_equal; lia.
    + f_equal. lia.
  - destruct (Nat.leb_spec d m).
    + destruct (Nat.ltb_spec d m); f_equal; lia.
    + f_equal. lia.
Qed.
Lemma upd_mini_none : forall d, upd_mini None d = Some d.
Proof. reflexivity. Qed.

(** the inner loop without its break *)
Definition iall (anc : nat) (cs : list icand) (mini : option nat) : option nat :=
  fold_left (fun m c => if i_lca c =? anc then upd_mini m (i_d c) else m) cs mini.

Lemma iall_far : forall anc cs m, (forall c, In c cs -> m < i_d c) -> iall anc cs (Some m) = Some m.
Proof.
  induction cs as [|c r IH]; intros m H; [reflexivity|]. unfold iall. cbn [fold_left].
  assert (E : (if i_lca c =? anc then upd_mini (Some m) (i_d c) else Some m) = Some m).
  { destruct (i_lca c =? anc); [|reflexivity]. rewrite upd_mini_some. f_equal.
    specialize (H c (or_introl eq_refl)). lia. }
  rewrite E. apply IH. intros c' Hc'. apply H. now right.
Qed.

Definition iqgram_ok (slen : nat) (cs : list icand) : Prop :=
  forall c, In c cs -> slen - 3 - 4 * i_d c <= i_cw c.
Definition iby_decreasing_cw (cs : list icand) : Prop :=
  StronglySorted (fun a b => i_cw b <= i_cw a) cs.
Definition wmI (mini : option nat) (wm : nat) : Prop := mini = None -> wm = 0.

Lemma iscan_iall : forall slen anc cs mini wm, iby_decreasing_cw cs -> iqgram_ok slen cs -> wmI mini wm ->
  fst (iscan thr_fixed slen anc cs mini wm) = iall anc cs mini /\
  wmI (fst (iscan thr_fixed slen anc cs mini wm)) (snd (iscan thr_fixed slen anc cs mini wm)).
Proof.
  induction cs as [|c r IH]; intros mini wm S Q W; [split; [reflexivity|exact W]|].
  apply StronglySorted_inv in S. destruct S as [Sr Fc].
  assert (Qr : iqgram_ok slen r) by (intros c' Hc'; apply Q; now right).
  cbn [iscan]. unfold iall. cbn [fold_left]. fold (iall anc r).
  destruct (i_lca c =? anc) eqn:EL.
  - set (wm' := match mini with None => wm | Some m => thr_fixed slen (i_len c) m end).
    destruct (Nat.ltb_spec (i_cw c) wm') as [L|L].
    + (* break *)
      destruct mini as [m|]; [|unfold wmI in W; subst wm'; rewrite W in L by reflexivity; lia].
      cbn [fst snd]. split; [|intros; discriminate].
      subst wm'. unfold thr_fixed in L.
      change (Some m = iall anc (c :: r) (Some m) -> True) with True.
      assert (F : iall anc (c :: r) (Some m) = Some m).
      { apply iall_far. intros c' Hc'. pose proof (Q c' Hc').
        assert (i_cw c' <= i_cw c).
        { destruct Hc' as [<-|Hc']; [lia|]. rewrite Forall_forall in Fc. now apply Fc. }
        lia. }
      unfold iall in F. cbn [fold_left] in F. rewrite EL in F. fold (iall anc r) in F. now rewrite F.
    + apply IH; [exact Sr|exact Qr|].
      intros E. destruct mini; [rewrite upd_mini_some in E|rewrite upd_mini_none in E]; discriminate.
  - apply IH; assumption.
Qed.

(** the index as one pass over the path (mindiffs + build_index fused, break removed) *)
Fixpoint index_fused (old : nat) (pseq : list nat) (cs : list icand) (mini : option nat) : list (nat * nat) :=
  match pseq with
  | [] => []
  | a :: r =>
      match iall a cs mini with
      | Some d => if d <? old then (d, a) :: index_fused d r cs (Some d) else index_fused old r cs (Some d)
      | None => index_fused old r cs None
      end
  end.
Lemma build_index_fused : forall slen cs, iby_decreasing_cw cs -> iqgram_ok slen cs ->
  forall pseq old mini wm, wmI mini wm ->
  build_index old pseq (mindiffs thr_fixed slen pseq cs mini wm) = index_fused old pseq cs mini.
Proof.
  intros slen cs S Q. induction pseq as [|a r IH]; intros old mini wm W; [reflexivity|].
  cbn [mindiffs index_fused]. destruct (iscan_iall slen a cs mini wm S Q W) as [E W'].
  cbn [build_index]. rewrite E. destruct (iall a cs mini) as [d|] eqn:EA.
  - destruct (d <? old); [f_equal|]; rewrite <- E in *; apply IH; exact W'.
  - rewrite <- E in *. apply IH. exact W'.
Qed.

(** facts about one ancestor's pass *)
Lemma iall_lower : forall anc cs mini d, iall anc cs mini = Some d ->
  (forall m, mini = Some m -> d <= m) /\ (forall c, In c cs -> i_lca c = anc -> d <= i_d c).
Proof.
  induction cs as [|c r IH]; intros mini d H.
  - cbn in H. subst mini. split; [intros m [= <-]; lia|intros c []].
  - unfold iall in H. cbn [fold_left] in H. fold (iall anc r) in H.
    destruct (Nat.eqb_spec (i_lca c) anc) as [EL|EL].
    + destruct (IH _ _ H) as [A B]. split.
      * intros m ->. rewrite upd_mini_some in A. specialize (A _ eq_refl). lia.
      * intros c' [<-|Hc'] Hl; [|now apply B].
        destruct mini as [m|]; [rewrite upd_mini_some in A|rewrite upd_mini_none in A];
          specialize (A _ eq_refl); lia.
    + destruct (IH _ _ H) as [A B]. split; [exact A|].
      intros c' [<-|Hc'] Hl; [contradiction|now apply B].
Qed.
Lemma iall_attained : forall anc cs mini d, iall anc cs mini = Some d ->
  mini = Some d \/ exists c, In c cs /\ i_lca c = anc /\ i_d c = d.
Proof.
  induction cs as [|c r IH]; intros mini d H.
  - cbn in H. now left.
  - unfold iall in H. cbn [fold_left] in H. fold (iall anc r) in H.
    destruct (Nat.eqb_spec (i_lca c) anc) as [EL|EL].
    + destruct (IH _ _ H) as [A|[c0 [H0 [H1 H2]]]].
      * destruct mini as [m|]; [rewrite upd_mini_some in A|rewrite upd_mini_none in A]; injection A as A.
        -- destruct (Nat.min_spec m (i_d c)) as [[_ M]|[_ M]]; rewrite M in A.
           ++ left. now subst.
           ++ right. exists c. split; [now left|]. split; [exact EL|exact A].
        -- right. exists c. split; [now left|]. split; [exact EL|exact A].
      * right. exists c0. split; [now right|]. split; assumption.
    + destruct (IH _ _ H) as [A|[c0 [H0 [H1 H2]]]]; [now left|].
      right. exists c0. split; [now right|]. split; assumption.
Qed.
Lemma iall_none : forall anc cs mini, iall anc cs mini = None ->
  mini = None /\ forall c, In c cs -> i_lca c <> anc.
Proof.
  induction cs as [|c r IH]; intros mini H.
  - cbn in H. split; [exact H|intros c []].
  - unfold iall in H. cbn [fold_left] in H. fold (iall anc r) in H.
    destruct (Nat.eqb_spec (i_lca c) anc) as [EL|EL].
    + destruct (IH _ H) as [A _]. destruct mini; [rewrite upd_mini_some in A|rewrite upd_mini_none in A]; discriminate.
    + destruct (IH _ H) as [A B]. split; [exact A|]. intros c' [<-|Hc']; [exact EL|now apply B].
Qed.

(** invariant of the pass: [mini] is a lower bound of the distances of all candidates whose LCA
    is among the ancestors already done, and [old <= mini] *)
Definition inv (cs : list icand) (done : list nat) (mini : option nat) (old : nat) : Prop :=
  (forall c, In c cs -> In (i_lca c) done -> match mini with Some m => m <= i_d c | None => False end) /\
  (forall m, mini = Some m -> old <= m).

Lemma index_fused_spec : forall cs rest done mini old, inv cs done mini old ->
  forall d a, In (d, a) (index_fused old rest cs mini) ->
  exists r1 r2, rest = r1 ++ a :: r2 /\
    (forall c, In c cs -> i_d c <= d -> ~ In (i_lca c) (done ++ r1)) /\
    (exists c0, In c0 cs /\ i_lca c0 = a /\ i_d c0 = d).
Proof.
  intros cs. induction rest as [|a0 r IH]; intros done mini old [I1 I2] d a Hin; [destruct Hin|].
  cbn [index_fused] in Hin. destruct (iall a0 cs mini) as [d'|] eqn:EA.
  - destruct (iall_lower _ _ _ _ EA) as [L1 L2].
    assert (I1' : forall c, In c cs -> In (i_lca c) (done ++ [a0]) -> d' <= i_d c).
    { intros c Hc Hl. apply in_app_or in Hl. destruct Hl as [Hl|[Hl|[]]].
      - specialize (I1 c Hc Hl). destruct mini as [m|]; [|contradiction]. specialize (L1 m eq_refl). lia.
      - now apply L2. }
    destruct (Nat.ltb_spec d' old) as [Lt|Ge].
    + destruct Hin as [Hin|Hin].
      * injection Hin as <- <-. exists [], r. split; [reflexivity|]. split.
        -- intros c Hc Hd Hl. rewrite app_nil_r in Hl. specialize (I1 c Hc Hl).
           destruct mini as [m|]; [|contradiction]. specialize (I2 m eq_refl). lia.
        -- destruct (iall_attained _ _ _ _ EA) as [A|A]; [|exact A].
           subst mini. specialize (I2 d' eq_refl). lia.
      * destruct (IH (done ++ [a0]) (Some d') d') with (d := d) (a := a) as [r1 [r2 [E [F1 F2]]]]; [|exact Hin|].
        { split; [exact I1'|]. intros m [= <-]. lia. }
        exists (a0 :: r1), r2. split; [now rewrite E|]. split; [|exact F2].
        intros c Hc Hd Hl. apply (F1 c Hc Hd). now rewrite <- app_assoc.
    + destruct (IH (done ++ [a0]) (Some d') old) with (d := d) (a := a) as [r1 [r2 [E [F1 F2]]]]; [|exact Hin|].
      { split; [exact I1'|]. intros m [= <-]. lia. }
      exists (a0 :: r1), r2. split; [now rewrite E|]. split; [|exact F2].
      intros c Hc Hd Hl. apply (F1 c Hc Hd). now rewrite <- app_assoc.
  - destruct (iall_none _ _ _ EA) as [-> N].
    destruct (IH (done ++ [a0]) None old) with (d := d) (a := a) as [r1 [r2 [E [F1 F2]]]]; [|exact Hin|].
    { split; [|intros m; discriminate]. intros c Hc Hl. apply in_app_or in Hl. destruct Hl as [Hl|[Hl|[]]].
      - exact (I1 c Hc Hl).
      - exact (N c Hc (eq_sym Hl)). }
    exists (a0 :: r1), r2. split; [now rewrite E|]. split; [|exact F2].
    intros c Hc Hd Hl. apply (F1 c Hc Hd). now rewrite <- app_assoc.
Qed.

Theorem index_ref_spec : forall slen pseq cs, iby_decreasing_cw cs -> iqgram_ok slen cs ->
  forall d a, In (d, a) (index_ref thr_fixed slen pseq cs) ->
  d < slen /\
  exists p1 p2, pseq = p1 ++ a :: p2 /\
    (forall c, In c cs -> i_d c <= d -> ~ In (i_lca c) p1) /\
    (exists c0, In c0 cs /\ i_lca c0 = a /\ i_d c0 = d).
Proof.
  intros slen pseq cs S Q d a H. unfold index_ref in H.
  rewrite (build_index_fused slen cs S Q) in H by (intros _; reflexivity).
  split.
  - clear S Q. revert H. generalize (@None nat). generalize slen as old.
    induction pseq as [|a0 r IH]; intros old mini H; [destruct H|].
    cbn [index_fused] in H. destruct (iall a0 cs mini) as [d'|].
    + destruct (Nat.ltb_spec d' old).
      * destruct H as [H|H]; [injection H as <- <-; assumption|]. specialize (IH _ _ H). lia.
      * exact (IH _ _ H).
    + exact (IH _ _ H).
  - destruct (index_fused_spec cs pseq [] None slen) with (d := d) (a := a) as [r1 [r2 [E [F1 F2]]]]; [|exact H|].
    + split; [intros c _ []|intros m; discriminate].
    + exists r1, r2. split; [exact E|]. split; [exact F1|exact F2].
Qed.



(** * sequence-level statement of the search theorem; the kernel is a Section variable *)
Definition acgt_only (s : list N) : Prop := Forall (fun b => In b [97; 99; 103; 116]%N) s.

Lemma nth_map_lt : forall (A B : Type) (f : A -> B) l i d d', i < length l -> nth i (map f l) d' = f (nth i l d).
Proof. intros. rewrite (nth_indep _ d' (f d)) by now rewrite map_length. apply map_nth. Qed.

Section Kernel.
  Variable kernel : list N -> list N -> nat * nat.      (* (lcs, alilen) of the unbounded kernel *)
  Definition kdist (q r : list N) : nat := snd (kernel q r) - fst (kernel q r).
  Hypothesis kernel_edits : forall q r, acgt_only q -> acgt_only r -> edits (kdist q r) q r.

  Theorem search_lossless_seq_x : forall q refs order,
    acgt_only q -> Forall acgt_only refs -> refs <> [] ->
    Permutation order (seq 0 (length refs)) ->
    by_decreasing_cw (cands_of_with common4 q refs (map (kernel q) refs) order) ->
    let st := find_closests thr_fixed (length q) (cands_of_with common4 q refs (map (kernel q) refs) order) in
    exists m, s_maxe st = Some m /\
      (forall i, i < length refs -> m <= kdist q (nth i refs [])) /\
      (forall i, In i (s_bests st) <-> i < length refs /\ kdist q (nth i refs []) = m) /\
      s_bests st <> [].
  Proof.
    intros q refs order Hq Hr NE P S st.
    set (cs := cands_of_with common4 q refs (map (kernel q) refs) order) in *.
    assert (Hord : forall i, In i order <-> i < length refs).
    { intros i. split; intros H.
      - apply (Permutation_in _ P) in H. apply in_seq in H. lia.
      - apply (Permutation_in _ (Permutation_sym P)). apply in_seq. lia. }
    assert (Hc : forall c, In c cs <-> exists i, i < length refs /\
              c = mkcand i (common4 q (nth i refs [])) (length (nth i refs []))
                         (fst (kernel q (nth i refs []))) (snd (kernel q (nth i refs [])))).
    { intros c. unfold cs, cands_of_with. rewrite in_map_iff. split.
      - intros [i [E Hi]]. apply Hord in Hi. exists i. split; [exact Hi|].
        rewrite (nth_map_lt _ _ (kernel q) refs i [] (0, 0) Hi) in E. now symmetry.
      - intros [i [Hi E]]. exists i. split; [|now apply Hord].
        rewrite (nth_map_lt _ _ (kernel q) refs i [] (0, 0) Hi). now symmetry. }
    assert (Q : qgram_ok (length q) cs).
    { intros c Hin. apply Hc in Hin. destruct Hin as [i [Hi ->]]. unfold c_d. cbn [c_ali c_lcs c_cw].
      assert (Ha : acgt_only (nth i refs [])) by (rewrite Forall_forall in Hr; apply Hr; now apply nth_In).
      pose proof (qgram_bound _ _ _ (kernel_edits q (nth i refs []) Hq Ha)) as B. unfold kdist in B. lia. }
    assert (NEc : cs <> []).
    { destruct refs as [|r0 refs']; [contradiction|].
      assert (In 0 order) by (apply Hord; cbn; lia).
      intros E. assert (In (nth 0 cs (mkcand 0 0 0 0 0)) cs) as Hn.
      { apply nth_In. unfold cs, cands_of_with. rewrite map_length. destruct order; [contradiction|cbn; lia]. }
      rewrite E in Hn. destruct Hn. }
    destruct (search_lossless (length q) cs NEc S Q) as [m [Hm [Hlow [Hatt Hb]]]].
    fold st in Hm, Hb. exists m. split; [exact Hm|]. split; [|split].
    - intros i Hi. specialize (Hlow (mkcand i (common4 q (nth i refs [])) (length (nth i refs []))
                         (fst (kernel q (nth i refs []))) (snd (kernel q (nth i refs []))))).
      apply Hlow. apply Hc. exists i. now split.
    - intros i. rewrite Hb, in_map_iff. split.
      + intros [c [Ei Hf]]. apply filter_In in Hf. destruct Hf as [Hin Hd].
        apply Hc in Hin. destruct Hin as [j [Hj ->]]. cbn [c_idx] in Ei. subst j.
        apply Nat.eqb_eq in Hd. split; [exact Hj|exact Hd].
      + intros [Hi Hd].
        exists (mkcand i (common4 q (nth i refs [])) (length (nth i refs []))
                         (fst (kernel q (nth i refs []))) (snd (kernel q (nth i refs [])))).
        split; [reflexivity|]. apply filter_In. split; [apply Hc; exists i; now split|].
        apply Nat.eqb_eq. exact Hd.
    - destruct Hatt as [c [Hin Hd]]. rewrite Hb. intros E.
      assert (In (c_idx c) (map c_idx (filter (fun c0 => c_d c0 =? m) cs))) as Hx.
      { apply in_map. apply filter_In. split; [exact Hin|now apply Nat.eqb_eq]. }
      rewrite E in Hx. destruct Hx.
  Qed.
End Kernel.

(** obitag2.FindClosests: lossless as long as the scan cap is not reached *)
Lemma search2_upto_1001 : forall thr qlen cs, length cs <= 1001 ->
  find_closests2 thr qlen cs = find_closests thr qlen cs.
Proof. intros. unfold find_closests2, find_closests_cap. now rewrite firstn_all2. Qed.

(** boolean check of the order, for witnesses *)
Fixpoint sortedb (cs : list cand) : bool :=
  match cs with
  | a :: r => match r with b :: _ => (c_cw b <=? c_cw a) && sortedb r | [] => true end
  | [] => true
  end.
Lemma sortedb_sound : forall cs, sortedb cs = true -> by_decreasing_cw cs.
Proof.
  intros cs H. apply Sorted_StronglySorted; [intros x y z; lia|].
  induction cs as [|a r IH]; [constructor|].
  cbn [sortedb] in H. destruct r as [|b r'].
  - constructor; constructor.
  - apply andb_prop in H. destruct H as [H1 H2]. constructor; [now apply IH|].
    constructor. now apply Nat.leb_le.
Qed.
Definition qgramb (qlen : nat) (cs : list cand) : bool := forallb (fun c => qlen - 3 - 4 * c_d c <=? c_cw c) cs.
Lemma qgramb_sound : forall qlen cs, qgramb qlen cs = true -> qgram_ok qlen cs.
Proof. intros qlen cs H c Hc. unfold qgramb in H. rewrite forallb_forall in H. apply Nat.leb_le. now apply H. Qed.

(** the original threshold loses a tie: query tcccccga, references tccctcga (substitution) and
    tcccccgag (insertion); both at distance 1 *)
Definition wq : list N := [116;99;99;99;99;99;103;97]%N.
Definition wr0 : list N := [116;99;99;99;116;99;103;97]%N.
Definition wr1 : list N := [116;99;99;99;99;99;103;97;103]%N.
Definition wcs : list cand := [mkcand 1 (common4 wq wr1) (length wr1) 8 9; mkcand 0 (common4 wq wr0) (length wr0) 7 8].
Lemma search_orig_refuted :
  edits 1 wq wr0 /\ edits 1 wq wr1 /\ wq <> wr0 /\ wq <> wr1 /\
  by_decreasing_cw wcs /\ qgram_ok (length wq) wcs /\
  s_bests (find_closests thr_orig (length wq) wcs) = [1] /\
  s_bests (find_closests thr_fixed (length wq) wcs) = [1; 0].
Proof.
  split; [|split].
  - apply (ed_S 0 wq wr0 wr0); [|constructor].
    exact (e_sub [116;99;99;99]%N 99%N 116%N [99;103;97]%N).
  - apply (ed_S 0 wq wr1 wr1); [|constructor].
    exact (e_ins wq 103%N []) || (rewrite <- (app_nil_r wq) at 1; exact (e_ins wq 103%N [])).
  - split; [discriminate|]. split; [discriminate|].
    split; [apply sortedb_sound; vm_compute; reflexivity|].
    split; [apply qgramb_sound; vm_compute; reflexivity|].
    split; vm_compute; reflexivity.
Qed.

(** obitag2: the cap at 1001 candidates loses the closest reference *)
Definition capcs : list cand := map (fun i => mkcand i 12 19 15 19) (seq 0 1001) ++ [mkcand 1001 8 15 14 15].
Lemma search2_cap_refuted :
  by_decreasing_cw capcs /\ qgram_ok 15 capcs /\
  s_maxe (find_closests2 thr_fixed 15 capcs) = Some 4 /\
  s_maxe (find_closests thr_fixed 15 capcs) = Some 1.
Proof.
  split; [apply sortedb_sound; vm_compute; reflexivity|].
  split; [apply qgramb_sound; vm_compute; reflexivity|].
  split; vm_compute; reflexivity.
Qed.

(** * taxonomy: LCA as a Section variable *)
Record iref := mkiref { r_tax : nat; r_cw : nat; r_len : nat; r_d : nat }.

Lemma lookup_in : forall idx d acc k t, lookup idx d acc = Some (k, t) -> In (k, t) idx \/ acc = Some (k, t).
Proof.
  induction idx as [|[k0 t0] r IH]; intros d acc k t H; [now right|].
  cbn [lookup] in H. destruct (k0 <=? d).
  - apply IH in H. destruct H as [H|H]; [left; now right|].
    destruct acc as [[k1 t1]|].
    + destruct (k1 <? k0); [injection H as <- <-; left; now left|now right].
    + injection H as <- <-. left. now left.
  - apply IH in H. destruct H as [H|H]; [left; now right|now right].
Qed.
Lemma smallest_in : forall idx acc k t, smallest idx acc = Some (k, t) -> In (k, t) idx \/ acc = Some (k, t).
Proof.
  induction idx as [|[k0 t0] r IH]; intros acc k t H; [now right|].
  cbn [smallest] in H. apply IH in H. destruct H as [H|H]; [left; now right|].
  destruct acc as [[k1 t1]|].
  - destruct (k0 <? k1); [injection H as <- <-; left; now left|now right].
  - injection H as <- <-. left. now left.
Qed.
Lemma lookup_id_in : forall idx d k t, lookup_id idx d = Some (k, t) -> In (k, t) idx.
Proof.
  intros idx d k t H. unfold lookup_id in H.
  destruct (lookup idx d None) as [[k1 t1]|] eqn:E.
  - injection H as <- <-. apply lookup_in in E. destruct E as [E|E]; [exact E|discriminate].
  - destruct (smallest idx None) as [[k1 t1]|] eqn:E2; [|discriminate].
    destruct (k1 <=? 1000); [|discriminate]. injection H as <- <-.
    apply smallest_in in E2. destruct E2 as [E2|E2]; [exact E2|discriminate].
Qed.
Lemma all_some_in : forall (A B : Type) (f : A -> option B) l ys, all_some (map f l) = Some ys ->
  forall x, In x l -> exists y, f x = Some y /\ In y ys.
Proof.
  induction l as [|a r IH]; intros ys H x Hx; [destruct Hx|].
  cbn [map all_some] in H. destruct (f a) as [y0|] eqn:Ea; [|discriminate].
  destruct (all_some (map f r)) as [ys'|] eqn:Er; [|discriminate]. injection H as <-.
  destruct Hx as [<-|Hx].
  - exists y0. split; [exact Ea|now left].
  - destruct (IH ys' eq_refl x Hx) as [y [E Hy]]. exists y. split; [exact E|now right].
Qed.

Section LCA.
  Variable anc : nat -> nat -> Prop.          (* anc a t : a is an ancestor of t, or t itself *)
  Variable lca : nat -> nat -> nat.
  Hypothesis anc_refl : forall a, anc a a.
  Hypothesis anc_trans : forall a b c, anc a b -> anc b c -> anc a c.
  Hypothesis lca_glb : forall x a b, anc x (lca a b) <-> anc x a /\ anc x b.

  (** a is the lowest common ancestor of the taxa ts: its ancestors are exactly the common ancestors *)
  Definition is_lca_of (a : nat) (ts : list nat) : Prop := forall x, anc x a <-> (forall t, In t ts -> anc x t).
  Definition icands (tseq : nat) (rs : list iref) : list icand :=
    map (fun r => mkicand (lca tseq (r_tax r)) (r_cw r) (r_len r) (r_d r)) rs.
  (** pseq = root-first path of the sequence's taxon: every element is an ancestor of the later ones *)
  Definition path_chain (pseq : list nat) : Prop :=
    forall p1 a p2 b, pseq = p1 ++ a :: p2 -> In b (a :: p2) -> anc a b.

  Theorem index_is_lca : forall slen tseq pseq rs,
    path_chain pseq -> (forall r, In r rs -> In (lca tseq (r_tax r)) pseq) ->
    (exists r, In r rs /\ r_tax r = tseq /\ r_d r = 0) ->
    iby_decreasing_cw (icands tseq rs) -> iqgram_ok slen (icands tseq rs) ->
    forall d a, In (d, a) (index_ref thr_fixed slen pseq (icands tseq rs)) ->
      d < slen /\ In a pseq /\ is_lca_of a (map r_tax (filter (fun r => r_d r <=? d) rs)).
  Proof.
    intros slen tseq pseq rs CH ON [r0 [H0 [T0 D0]]] S Q d a H.
    destruct (index_ref_spec slen pseq _ S Q d a H) as [Hlt [p1 [p2 [E [F1 [c0 [Hc0 [L0 Dc0]]]]]]]].
    split; [exact Hlt|]. split; [rewrite E; apply in_or_app; right; now left|].
    intros x. split.
    - intros Hx t Ht. apply in_map_iff in Ht. destruct Ht as [r [<- Hr]].
      apply filter_In in Hr. destruct Hr as [Hr Hd]. apply Nat.leb_le in Hd.
      set (c := mkicand (lca tseq (r_tax r)) (r_cw r) (r_len r) (r_d r)).
      assert (Hc : In c (icands tseq rs)) by (unfold icands; apply in_map_iff; exists r; now split).
      specialize (F1 c Hc Hd). cbn [i_lca c] in F1.
      specialize (ON r Hr). rewrite E in ON. apply in_app_or in ON. destruct ON as [ON|ON]; [contradiction|].
      specialize (CH p1 a p2 _ E ON).
      assert (anc (lca tseq (r_tax r)) (r_tax r)) by (apply (lca_glb _ tseq (r_tax r)); apply anc_refl).
      eapply anc_trans; [exact Hx|]. eapply anc_trans; [exact CH|assumption].
    - intros Hall. unfold icands in Hc0. apply in_map_iff in Hc0. destruct Hc0 as [r1 [E1 Hr1]].
      subst c0. cbn [i_lca i_d] in L0, Dc0. rewrite <- L0. apply lca_glb. split.
      + rewrite <- T0. apply Hall. apply in_map. apply filter_In. split; [exact H0|]. apply Nat.leb_le. lia.
      + apply Hall. apply in_map. apply filter_In. split; [exact Hr1|]. apply Nat.leb_le. lia.
  Qed.

  Lemma fold_lca_anc : forall ts acc t, fold_lca (fun a b => Some (lca a b)) ts acc = Some t ->
    (forall a, acc = Some a -> anc t a) /\ (forall x, In x ts -> anc t x).
  Proof.
    induction ts as [|t0 r IH]; intros acc t H.
    - cbn in H. subst acc. split; [intros a [= <-]; apply anc_refl|intros x []].
    - cbn [fold_lca] in H. destruct acc as [a0|].
      + destruct (IH _ _ H) as [A B]. specialize (A _ eq_refl). apply lca_glb in A. destruct A as [A1 A2].
        split; [intros a [= <-]; exact A1|]. intros x [<-|Hx]; [exact A2|now apply B].
      + destruct (IH _ _ H) as [A B]. split; [intros a; discriminate|].
        intros x [<-|Hx]; [now apply A|now apply B].
  Qed.

  (** Identify: if every entry of the index of a best match is an ancestor-or-self of its taxon
      (index_is_lca: the entries lie on its path), the assigned taxon is an ancestor-or-self of the
      taxon of every best match *)
  Theorem assigned_is_ancestor : forall (indices : nat -> list (nat * nat)) (tax : nat -> nat) st t,
    (forall x, anc 1 x) ->
    (forall b, In b (s_bests st) -> forall d a, In (d, a) (indices b) -> anc a (tax b)) ->
    identify (fun a b => Some (lca a b)) indices st = Some t ->
    forall b, In b (s_bests st) -> anc t (tax b).
  Proof.
    intros indices tax st t Root Hidx H b Hb. unfold identify in H.
    destruct (s_maxe st) as [d|]; [|injection H as <-; apply Root].
    destruct (s_bali st <=? 2 * s_blcs st); [|injection H as <-; apply Root].
    destruct (all_some _) as [ts|] eqn:E; [|discriminate].
    destruct (all_some_in _ _ _ _ _ E b Hb) as [y [Ey Hy]].
    destruct (lookup_id (indices b) d) as [[k a]|] eqn:El; [|discriminate]. cbn in Ey. injection Ey as <-.
    apply lookup_id_in in El.
    destruct (fold_lca_anc _ _ _ H) as [_ B]. eapply anc_trans; [apply B; exact Hy|]. eapply Hidx; eassumption.
  Qed.
End LCA.

(** IndexSequence with the original threshold: indexing cgtcc (taxon 4, path 1-3-4) in the database
    of the corpus case: the 11-base candidate stops the scan of the root's candidates before the
    identical sequence of taxon 2 (LCA = root, distance 0) is seen *)
Definition wics : list icand :=
  [mkicand 1 2 6 1; mkicand 1 2 11 6; mkicand 1 2 5 0; mkicand 4 2 5 0; mkicand 4 0 11 6; mkicand 1 0 5 4].
Lemma index_orig_refuted :
  iby_decreasing_cw wics /\ iqgram_ok 5 wics /\
  index_ref thr_orig 5 [1; 3; 4] wics = [(1, 1); (0, 4)] /\
  index_ref thr_fixed 5 [1; 3; 4] wics = [(0, 1)].
Proof.
  split.
  - apply Sorted_StronglySorted; [intros x y z; lia|]. unfold wics. repeat (constructor; cbn; try lia).
  - split; [|split; vm_compute; reflexivity].
    intros c Hc. unfold wics in Hc. cbn in Hc.
    repeat (destruct Hc as [<-|Hc]; [cbn; lia|]). destruct Hc.
Qed.

(** the hypotheses on the taxonomy are satisfiable: the star tree with root 1 *)
Lemma star_tree_ok :
  let anc := fun a b : nat => a = 1 \/ a = b in
  let lca := fun a b : nat => if a =? b then a else 1 in
  (forall a, anc a a) /\ (forall a b c, anc a b -> anc b c -> anc a c) /\
  (forall x a b, anc x (lca a b) <-> anc x a /\ anc x b) /\ (forall x, anc 1 x).
Proof.
  cbn. split; [auto|]. split; [intros a b c [H|H] [H'|H']; subst; auto|]. split; [|auto].
  intros x a b. destruct (Nat.eqb_spec a b); [subst; tauto|]. split.
  - intros [H|H]; subst; auto.
  - intros [[H|H] [H'|H']]; subst; auto. contradiction.
Qed.

(** the hypothesis on the kernel is satisfiable: delete everything, insert everything *)
Lemma edits_trans : forall a s t, edits a s t -> forall b u, edits b t u -> edits (a + b) s u.
Proof. induction 1 as [s|a s t t' H1 H IH]; intros b u H2; [exact H2|]. cbn. eapply ed_S; [exact H1|]. now apply IH. Qed.
Lemma edits_del_all : forall s, edits (length s) s [].
Proof. induction s as [|a s IH]; [constructor|]. cbn [length]. eapply ed_S; [exact (e_del [] a s)|exact IH]. Qed.
Lemma edits_ins_all : forall s, edits (length s) [] s.
Proof.
  intros s. rewrite <- (rev_involutive s), rev_length. induction (rev s) as [|a r IH]; [constructor|].
  cbn [length rev]. replace (S (length r)) with (length r + 1) by lia.
  eapply edits_trans; [exact IH|]. eapply ed_S; [|constructor].
  pose proof (e_ins (rev r) a []) as E. now rewrite app_nil_r in E.
Qed.
Lemma kernel_hyp_satisfiable : exists kernel : list N -> list N -> nat * nat,
  forall q r, acgt_only q -> acgt_only r -> edits (kdist kernel q r) q r.
Proof.
  exists (fun q r => (0, length q + length r)). intros q r _ _. unfold kdist. cbn [fst snd].
  rewrite Nat.sub_0_r. eapply edits_trans; [apply edits_del_all|apply edits_ins_all].
Qed.



(** * the lookup "largest recorded distance <= observed distance" *)
Lemma index_fused_lt : forall cs rest old mini d a, In (d, a) (index_fused old rest cs mini) -> d < old.
Proof.
  intros cs. induction rest as [|a0 r IH]; intros old mini d a H; [destruct H|].
  cbn [index_fused] in H. destruct (iall a0 cs mini) as [d'|].
  - destruct (Nat.ltb_spec d' old).
    + destruct H as [H|H]; [injection H as <- <-; assumption|]. specialize (IH _ _ _ _ H). lia.
    + exact (IH _ _ _ _ H).
  - exact (IH _ _ _ _ H).
Qed.
Lemma lookup_acc_max : forall l e k0 t0, (forall k t, In (k, t) l -> k < k0) ->
  lookup l e (Some (k0, t0)) = Some (k0, t0).
Proof.
  induction l as [|[k t] r IH]; intros e k0 t0 H; [reflexivity|].
  cbn [lookup]. assert (k < k0) by (apply (H k t); now left).
  assert (Hr : forall k' t', In (k', t') r -> k' < k0) by (intros; eapply H; right; eassumption).
  destruct (k <=? e); [|now apply IH]. destruct (Nat.ltb_spec k0 k); [lia|now apply IH].
Qed.

Lemma index_fused_lookup : forall cs rest done mini old, inv cs done mini old ->
  forall e k a, e < old -> lookup (index_fused old rest cs mini) e None = Some (k, a) ->
  k <= e /\ exists r1 r2, rest = r1 ++ a :: r2 /\
    (forall c, In c cs -> i_d c <= e -> ~ In (i_lca c) (done ++ r1)) /\
    (exists c0, In c0 cs /\ i_lca c0 = a /\ i_d c0 = k).
Proof.
  intros cs. induction rest as [|a0 r IH]; intros done mini old [I1 I2] e k a He H; [discriminate|].
  cbn [index_fused] in H. destruct (iall a0 cs mini) as [d'|] eqn:EA.
  - destruct (iall_lower _ _ _ _ EA) as [L1 L2].
    assert (I1' : forall c, In c cs -> In (i_lca c) (done ++ [a0]) -> d' <= i_d c).
    { intros c Hc Hl. apply in_app_or in Hl. destruct Hl as [Hl|[Hl|[]]].
      - specialize (I1 c Hc Hl). destruct mini as [m|]; [|contradiction]. specialize (L1 m eq_refl). lia.
      - now apply L2. }
    assert (Shift : forall old', old' <= d' -> e < old' ->
              lookup (index_fused old' r cs (Some d')) e None = Some (k, a) ->
              k <= e /\ exists r1 r2, a0 :: r = r1 ++ a :: r2 /\
                (forall c, In c cs -> i_d c <= e -> ~ In (i_lca c) (done ++ r1)) /\
                (exists c0, In c0 cs /\ i_lca c0 = a /\ i_d c0 = k)).
    { intros old' Ho He' H'.
      destruct (IH (done ++ [a0]) (Some d') old') with (e := e) (k := k) (a := a) as [Hk [r1 [r2 [E [F1 F2]]]]];
        [split; [exact I1'|intros m [= <-]; exact Ho]|exact He'|exact H'|].
      split; [exact Hk|]. exists (a0 :: r1), r2. split; [now rewrite E|]. split; [|exact F2].
      intros c Hc Hd Hl. apply (F1 c Hc Hd). now rewrite <- app_assoc. }
    destruct (Nat.ltb_spec d' old) as [Lt|Ge].
    + cbn [lookup] in H. destruct (Nat.leb_spec d' e) as [Le|Gt].
      * rewrite lookup_acc_max in H by (intros k' t' Hin; eapply index_fused_lt; eassumption).
        injection H as <- <-. split; [exact Le|]. exists [], r. split; [reflexivity|]. split.
        -- intros c Hc Hd Hl. rewrite app_nil_r in Hl. specialize (I1 c Hc Hl).
           destruct mini as [m|]; [|contradiction]. specialize (I2 m eq_refl). lia.
        -- destruct (iall_attained _ _ _ _ EA) as [A|A]; [|exact A].
           subst mini. specialize (I2 d' eq_refl). lia.
      * apply (Shift d'); [lia|lia|exact H].
    + apply (Shift old); [lia|exact He|exact H].
  - destruct (iall_none _ _ _ EA) as [-> N].
    destruct (IH (done ++ [a0]) None old) with (e := e) (k := k) (a := a) as [Hk [r1 [r2 [E [F1 F2]]]]];
      [|exact He|exact H|].
    { split; [|intros m; discriminate]. intros c Hc Hl. apply in_app_or in Hl. destruct Hl as [Hl|[Hl|[]]].
      - exact (I1 c Hc Hl).
      - exact (N c Hc (eq_sym Hl)). }
    split; [exact Hk|]. exists (a0 :: r1), r2. split; [now rewrite E|]. split; [|exact F2].
    intros c Hc Hd Hl. apply (F1 c Hc Hd). now rewrite <- app_assoc.
Qed.

Theorem index_ref_lookup : forall slen pseq cs, iby_decreasing_cw cs -> iqgram_ok slen cs ->
  forall e k a, e < slen -> lookup (index_ref thr_fixed slen pseq cs) e None = Some (k, a) ->
  k <= e /\ exists p1 p2, pseq = p1 ++ a :: p2 /\
    (forall c, In c cs -> i_d c <= e -> ~ In (i_lca c) p1) /\
    (exists c0, In c0 cs /\ i_lca c0 = a /\ i_d c0 = k).
Proof.
  intros slen pseq cs S Q e k a He H. unfold index_ref in H.
  rewrite (build_index_fused slen cs S Q) in H by (intros _; reflexivity).
  apply (index_fused_lookup cs pseq [] None slen); [|exact He|exact H].
  split; [intros c _ []|intros m; discriminate].
Qed.

Section LCA2.
  Variable anc : nat -> nat -> Prop.
  Variable lca : nat -> nat -> nat.
  Hypothesis anc_refl : forall a, anc a a.
  Hypothesis anc_trans : forall a b c, anc a b -> anc b c -> anc a c.
  Hypothesis lca_glb : forall x a b, anc x (lca a b) <-> anc x a /\ anc x b.

  Theorem index_lookup_is_lca : forall slen tseq pseq rs,
    path_chain anc pseq -> (forall r, In r rs -> In (lca tseq (r_tax r)) pseq) ->
    (exists r, In r rs /\ r_tax r = tseq /\ r_d r = 0) ->
    iby_decreasing_cw (icands lca tseq rs) -> iqgram_ok slen (icands lca tseq rs) ->
    forall e k a, e < slen ->
      lookup (index_ref thr_fixed slen pseq (icands lca tseq rs)) e None = Some (k, a) ->
      k <= e /\ In a pseq /\ is_lca_of anc a (map r_tax (filter (fun r => r_d r <=? e) rs)).
  Proof.
    intros slen tseq pseq rs CH ON [r0 [H0 [T0 D0]]] S Q e k a He H.
    destruct (index_ref_lookup slen pseq _ S Q e k a He H) as [Hk [p1 [p2 [E [F1 [c0 [Hc0 [L0 Dc0]]]]]]]].
    split; [exact Hk|]. split; [rewrite E; apply in_or_app; right; now left|].
    intros x. split.
    - intros Hx t Ht. apply in_map_iff in Ht. destruct Ht as [r [<- Hr]].
      apply filter_In in Hr. destruct Hr as [Hr Hd]. apply Nat.leb_le in Hd.
      set (c := mkicand (lca tseq (r_tax r)) (r_cw r) (r_len r) (r_d r)).
      assert (Hc : In c (icands lca tseq rs)) by (unfold icands; apply in_map_iff; exists r; now split).
      specialize (F1 c Hc Hd). cbn [i_lca c] in F1.
      specialize (ON r Hr). rewrite E in ON. apply in_app_or in ON. destruct ON as [ON|ON]; [contradiction|].
      specialize (CH p1 a p2 _ E ON).
      assert (anc (lca tseq (r_tax r)) (r_tax r)) by (apply (lca_glb _ tseq (r_tax r)); apply anc_refl).
      eapply anc_trans; [exact Hx|]. eapply anc_trans; [exact CH|assumption].
    - intros Hall. unfold icands in Hc0. apply in_map_iff in Hc0. destruct Hc0 as [r1 [E1 Hr1]].
      subst c0. cbn [i_lca i_d] in L0, Dc0. rewrite <- L0. apply lca_glb. split.
      + rewrite <- T0. apply Hall. apply in_map. apply filter_In. split; [exact H0|]. apply Nat.leb_le. lia.
      + apply Hall. apply in_map. apply filter_In. split; [exact Hr1|]. apply Nat.leb_le. lia.
  Qed.
End LCA2.



(** * Encode4mer's rolling byte = the window codes *)
Lemma roll_step : forall a b c d x, ((code4 a b c d * 4) mod 256 + base_code x)%N = code4 b c d x.
Proof.
  intros. unfold code4.
  pose proof (base_code_le3 a); pose proof (base_code_le3 b); pose proof (base_code_le3 c);
  pose proof (base_code_le3 d); pose proof (base_code_le3 x).
  set (ca := base_code a) in *; set (cb := base_code b) in *; set (cc := base_code c) in *;
  set (cd := base_code d) in *; set (cx := base_code x) in *.
  replace ((((ca * 4 + cb) * 4 + cc) * 4 + cd) * 4)%N with (((cb * 4 + cc) * 4 + cd) * 4 + ca * 256)%N by lia.
  rewrite N.mod_add by lia. rewrite N.mod_small by lia. reflexivity.
Qed.
Lemma roll4_kmers4 : forall r a b c d, code4 a b c d :: roll4 (code4 a b c d) r = kmers4 (a :: b :: c :: d :: r).
Proof.
  induction r as [|x r IH]; intros a b c d; [reflexivity|].
  cbn [roll4]. rewrite roll_step. change (kmers4 (a :: b :: c :: d :: x :: r)) with (code4 a b c d :: kmers4 (b :: c :: d :: x :: r)).
  f_equal. apply IH.
Qed.
Theorem encode4mer_kmers4 : forall s, encode4mer s = kmers4 s.
Proof.
  intros [|a [|b [|c [|d r]]]]; try reflexivity. unfold encode4mer. apply roll4_kmers4.
Qed.

(** * an alignment with [alilen] columns and [lcs] matching columns is an edit script of
      alilen - lcs single-symbol edits (what the kernel hypothesis asks of FastLCSScore) *)
Inductive col := CMatch (a : N) | CSub (a b : N) | CIns (b : N) | CDel (a : N).
Fixpoint al_left (al : list col) : list N :=
  match al with
  | [] => [] | CMatch a :: r => a :: al_left r | CSub a _ :: r => a :: al_left r
  | CIns _ :: r => al_left r | CDel a :: r => a :: al_left r
  end.
Fixpoint al_right (al : list col) : list N :=
  match al with
  | [] => [] | CMatch a :: r => a :: al_right r | CSub _ b :: r => b :: al_right r
  | CIns b :: r => b :: al_right r | CDel _ :: r => al_right r
  end.
Fixpoint al_lcs (al : list col) : nat :=
  match al with [] => 0 | CMatch _ :: r => S (al_lcs r) | _ :: r => al_lcs r end.

Lemma edit1_cons : forall a s t, edit1 s t -> edit1 (a :: s) (a :: t).
Proof.
  intros a s t H. destruct H as [p x y r|p y r|p x r].
  - exact (e_sub (a :: p) x y r).
  - exact (e_ins (a :: p) y r).
  - exact (e_del (a :: p) x r).
Qed.
Lemma edits_cons : forall a d s t, edits d s t -> edits d (a :: s) (a :: t).
Proof. induction 1 as [s|d s t u H1 H IH]; [constructor|]. eapply ed_S; [apply edit1_cons; exact H1|exact IH]. Qed.
Lemma al_lcs_le : forall al, al_lcs al <= length al.
Proof. induction al as [|[a|a b|b|a] r IH]; cbn [al_lcs length]; lia. Qed.
Theorem alignment_edits : forall al, edits (length al - al_lcs al) (al_left al) (al_right al).
Proof.
  induction al as [|[a|a b|b|a] r IH]; cbn [al_left al_right al_lcs length].
  - constructor.
  - replace (S (length r) - S (al_lcs r)) with (length r - al_lcs r) by lia. now apply edits_cons.
  - pose proof (al_lcs_le r). replace (S (length r) - al_lcs r) with (S (length r - al_lcs r)) by lia.
    eapply ed_S; [exact (e_sub [] a b (al_left r))|]. now apply edits_cons.
  - pose proof (al_lcs_le r). replace (S (length r) - al_lcs r) with (S (length r - al_lcs r)) by lia.
    eapply ed_S; [exact (e_ins [] b (al_left r))|]. now apply edits_cons.
  - pose proof (al_lcs_le r). replace (S (length r) - al_lcs r) with (S (length r - al_lcs r)) by lia.
    eapply ed_S; [exact (e_del [] a (al_left r))|]. exact IH.
Qed.



(** * end to end: the taxon assigned by Identify is an ancestor-or-self of the taxon of EVERY
      reference at minimal distance from the query *)
Theorem assignment_sound_x :
  forall kernel : list N -> list N -> nat * nat,
  (forall q r, acgt_only q -> acgt_only r -> edits (kdist kernel q r) q r) ->
  forall (anc : nat -> nat -> Prop) (lca : nat -> nat -> nat),
  (forall a, anc a a) -> (forall a b c, anc a b -> anc b c -> anc a c) ->
  (forall x a b, anc x (lca a b) <-> anc x a /\ anc x b) -> (forall x, anc 1 x) ->
  forall q refs order (tax : nat -> nat) (indices : nat -> list (nat * nat)) t,
    acgt_only q -> Forall acgt_only refs -> refs <> [] ->
    Permutation order (seq 0 (length refs)) ->
    by_decreasing_cw (cands_of_with common4 q refs (map (kernel q) refs) order) ->
    (forall b, b < length refs -> forall d a, In (d, a) (indices b) -> anc a (tax b)) ->
    identify (fun a b => Some (lca a b)) indices
             (find_closests thr_fixed (length q) (cands_of_with common4 q refs (map (kernel q) refs) order)) = Some t ->
    forall i, i < length refs ->
      (forall j, j < length refs -> kdist kernel q (nth i refs []) <= kdist kernel q (nth j refs [])) ->
      anc t (tax i).
Proof.
  intros kernel KE anc lca Ar At Ag Root q refs order tax indices t Hq Hr NE P S Hidx Hid i Hi Hmin.
  destruct (search_lossless_seq_x kernel KE q refs order Hq Hr NE P S) as [m [Hm [Hlow [Hb Hne]]]].
  cbv zeta in Hb, Hlow, Hm, Hne.
  set (st := find_closests thr_fixed (length q) (cands_of_with common4 q refs (map (kernel q) refs) order)) in *.
  assert (Hbest : In i (s_bests st)).
  { apply Hb. split; [exact Hi|].
    (* m is attained by some best j; the distance of i is <= that of j = m, and >= m *)
    assert (Hex : exists j, In j (s_bests st)).
    { destruct (s_bests st) as [|j0 r0]; [contradiction|]. exists j0. now left. }
    destruct Hex as [j Hj].
    apply Hb in Hj. destruct Hj as [Hj Hdj]. specialize (Hmin j Hj). specialize (Hlow i Hi). lia. }
  apply (assigned_is_ancestor anc lca Ar At Ag indices tax st t Root); [|exact Hid|exact Hbest].
  intros b Hb2 d a Hin. apply (Hidx b) with (d := d); [|exact Hin]. apply Hb in Hb2. tauto.
Qed.



(** * the order validation executed on every correspondence run discharges the hypotheses of
      the search theorem *)
Lemma sorted_desc_sound : forall l, sorted_desc l = true -> StronglySorted (fun a b => b <= a) l.
Proof.
  intros l H. apply Sorted_StronglySorted; [intros x y z; lia|].
  induction l as [|a r IH]; [constructor|].
  cbn [sorted_desc] in H. destruct r as [|b r'].
  - constructor; constructor.
  - apply andb_prop in H. destruct H as [H1 H2]. constructor; [now apply IH|].
    constructor. now apply Nat.leb_le.
Qed.
Lemma StronglySorted_map : forall (A B : Type) (f : A -> B) (R : B -> B -> Prop) l,
  StronglySorted R (map f l) -> StronglySorted (fun a b => R (f a) (f b)) l.
Proof.
  induction l as [|a r IH]; intros H; [constructor|].
  cbn [map] in H. apply StronglySorted_inv in H. destruct H as [H1 H2]. constructor; [now apply IH|].
  rewrite Forall_forall in *. intros x Hx. apply H2. now apply in_map.
Qed.

Theorem valid_order_sound : forall (cm : list N -> list N -> nat) q refs qd order,
  valid_order order (map (fun r => cm q r) refs) = true ->
  Permutation order (seq 0 (length refs)) /\ by_decreasing_cw (cands_of_with cm q refs qd order).
Proof.
  intros cm q refs qd order H. unfold valid_order in H. rewrite map_length in H.
  apply andb_prop in H. destruct H as [H Hs]. apply andb_prop in H. destruct H as [H Hc].
  apply andb_prop in H. destruct H as [Hl Hb].
  apply Nat.eqb_eq in Hl. rewrite forallb_forall in Hb, Hc.
  assert (P : Permutation order (seq 0 (length refs))).
  { apply (Permutation_count_occ Nat.eq_dec). intros x.
    destruct (le_lt_dec (length refs) x) as [Ge|Lt].
    - assert (N1 : ~ In x order) by (intros Hin; apply Hb, Nat.ltb_lt in Hin; lia).
      assert (N2 : ~ In x (seq 0 (length refs))) by (rewrite in_seq; lia).
      apply (count_occ_not_In Nat.eq_dec) in N1. apply (count_occ_not_In Nat.eq_dec) in N2. lia.
    - assert (In x (seq 0 (length refs))) as Hx by (apply in_seq; lia).
      specialize (Hc x Hx). apply Nat.eqb_eq in Hc. rewrite Hc.
      pose proof (seq_NoDup (length refs) 0) as ND. rewrite (NoDup_count_occ Nat.eq_dec) in ND.
      specialize (ND x). apply (count_occ_In Nat.eq_dec) in Hx. lia. }
  split; [exact P|].
  apply sorted_desc_sound in Hs. apply StronglySorted_map in Hs.
  unfold by_decreasing_cw, cands_of_with. 
  assert (G : forall l, (forall i, In i l -> i < length refs) ->
              StronglySorted (fun a b => nth b (map (fun r => cm q r) refs) 0 <= nth a (map (fun r => cm q r) refs) 0) l ->
              StronglySorted (fun a b => c_cw b <= c_cw a)
                (map (fun i => let r := nth i refs [] in
                       mkcand i (cm q r) (length r) (fst (nth i qd (0, 0))) (snd (nth i qd (0, 0)))) l)).
  { induction l as [|a r IH]; intros Hlt HS; [constructor|].
    apply StronglySorted_inv in HS. destruct HS as [S1 S2]. cbn [map]. constructor.
    - apply IH; [intros i Hi; apply Hlt; now right|exact S1].
    - rewrite Forall_forall in *. intros c Hc'. apply in_map_iff in Hc'. destruct Hc' as [i [<- Hi]].
      cbn [c_cw]. specialize (S2 i Hi).
      rewrite (nth_map_lt _ _ (fun r => cm q r) refs i [] 0) in S2 by (apply Hlt; now right).
      rewrite (nth_map_lt _ _ (fun r => cm q r) refs a [] 0) in S2 by (apply Hlt; now left).
      exact S2. }
  apply G; [|exact Hs]. intros i Hi. apply Hb, Nat.ltb_lt in Hi. exact Hi.
Qed.

(** the threshold used by both scans is sound for every candidate (instance of the q-gram bound) *)
Theorem threshold_sound :
  forall kernel : list N -> list N -> nat * nat,
  (forall q r, acgt_only q -> acgt_only r -> edits (kdist kernel q r) q r) ->
  forall q r, acgt_only q -> acgt_only r ->
    thr_fixed (length q) (length r) (kdist kernel q r) <= common4 q r.
Proof.
  intros kernel KE q r Hq Hr. pose proof (qgram_bound _ _ _ (KE q r Hq Hr)). unfold thr_fixed. lia.
Qed.

(** * round 2 — the uint16 cells of Table4mer *)
Lemma cell_modulus_val : cell_modulus = 65536%N.
Proof. vm_compute. reflexivity. Qed.
Lemma table_cells_val : table_cells = 256%N.
Proof. vm_compute. reflexivity. Qed.
Lemma countN_count : forall k l, countN k l = N.of_nat (count k l).
Proof.
  induction l as [|x r IH]; [reflexivity|]. cbn [countN count].
  destruct (N.eqb x k); rewrite IH; [now rewrite Nat2N.inj_succ|reflexivity].
Qed.
Lemma count_le_length : forall k l, count k l <= length l.
Proof. induction l as [|x r IH]; [apply le_n|]. cbn [count length]. destruct (N.eqb x k); lia. Qed.
Lemma sumkN_sumk : forall f g n, (forall k, f k = N.of_nat (g k)) -> sumkN f n = N.of_nat (sumk g n).
Proof.
  intros f g n H. induction n as [|n IH]; [reflexivity|]. cbn [sumkN sumk]. rewrite IH, H. lia.
Qed.
(** no 4-mer occurs 2^16 times or more: the cells hold the exact counts *)
Definition cells_exact (s : list N) : Prop := forall k, (countN k (kmers4 s) < cell_modulus)%N.
Lemma commonw_exact : forall l1 l2,
  (forall k, (countN k l1 < cell_modulus)%N) -> (forall k, (countN k l2 < cell_modulus)%N) ->
  commonw l1 l2 = common l1 l2.
Proof.
  intros l1 l2 H1 H2. unfold commonw, common.
  rewrite (sumkN_sumk _ (fun k => Nat.min (count k l1) (count k l2))); [apply Nat2N.id|].
  intros k. unfold cell. rewrite !N.mod_small by auto. rewrite !countN_count. now rewrite Nat2N.inj_min.
Qed.
Lemma common4w_exact : forall s t, cells_exact s -> cells_exact t -> common4w s t = common4 s t.
Proof. intros s t Hs Ht. apply commonw_exact; assumption. Qed.
Lemma short_cells_exact : forall s, (N.of_nat (length s) < 65539)%N -> cells_exact s.
Proof.
  intros s H k. rewrite cell_modulus_val, countN_count.
  pose proof (count_le_length k (kmers4 s)) as L. rewrite kmers4_length in L. lia.
Qed.
Lemma cells_exact_nil : cells_exact [].
Proof. apply short_cells_exact. cbn. lia. Qed.

Theorem qgram_bound_wrapped : forall d s t, edits d s t -> cells_exact s -> cells_exact t ->
  Nat.max (length s) (length t) - 3 - 4 * d <= common4w s t.
Proof. intros d s t E Hs Ht. rewrite common4w_exact by assumption. now apply qgram_bound. Qed.

(** beyond the guard: 65538 a / 65539 a differ by one insertion and share NO 4-mer by the wrapped cells *)
Definition hq : list N := repeat 97%N (N.to_nat 65538).
Definition hr : list N := 97%N :: hq.
Lemma hq_length : length hq = N.to_nat 65538.
Proof. apply repeat_length. Qed.
Lemma hq_hr_common : common4w hq hr = 0.
Proof. vm_compute. reflexivity. Qed.
Lemma qgram_wrapped_refuted :
  edits 1 hq hr /\ cells_exact hq /\ ~ cells_exact hr /\ common4w hq hr = 0 /\
  ~ (Nat.max (length hq) (length hr) - 3 - 4 * 1 <= common4w hq hr).
Proof.
  pose proof hq_hr_common as C0.
  split; [apply (ed_S 0 hq hr hr); [exact (e_ins [] 97%N hq)|constructor]|].
  split; [apply short_cells_exact; rewrite hq_length, N2Nat.id; lia|].
  split.
  - intros H. specialize (H 0%N). apply N.ltb_lt in H. revert H. vm_compute. discriminate.
  - split; [exact C0|]. rewrite C0. unfold hr. cbn [length]. rewrite hq_length. lia.
Qed.

(** consequence for the scan: a candidate whose (wrapped) shared count is below the threshold set by
    the first candidate is never looked at, whatever its distance *)
Lemma fscan_prune2 : forall qlen c1 c2 rest, c_cw c2 < qlen - 3 - 4 * c_d c1 ->
  find_closests thr_fixed qlen (c1 :: c2 :: rest) = find_closests thr_fixed qlen [c1].
Proof.
  intros qlen c1 c2 rest H. unfold find_closests, finit. cbn [fscan s_wordmin].
  replace (c_cw c1 <? 0) with false by (symmetry; apply Nat.ltb_ge; lia).
  set (st1 := fstep thr_fixed qlen c1 _).
  assert (W : s_wordmin st1 = qlen - 3 - 4 * c_d c1).
  { unfold st1, fstep, fstep_core. cbn [s_maxe kern]. cbn [s_maxe s_wordmin s_bests s_blcs s_bali s_bmatch].
    rewrite Nat.eqb_refl. cbn [s_wordmin]. reflexivity. }
  rewrite W. apply Nat.ltb_lt in H. rewrite H. reflexivity.
Qed.
Lemma find_closests_single : forall qlen c, 
  s_maxe (find_closests thr_fixed qlen [c]) = Some (c_d c) /\ s_bests (find_closests thr_fixed qlen [c]) = [c_idx c].
Proof.
  intros qlen c. unfold find_closests, finit. cbn [fscan s_wordmin].
  replace (c_cw c <? 0) with false by (symmetry; apply Nat.ltb_ge; lia).
  unfold fstep, fstep_core. cbn [s_maxe kern]. cbn [s_maxe s_wordmin s_bests s_blcs s_bali s_bmatch].
  rewrite Nat.eqb_refl. cbn [s_maxe s_bests app]. split; reflexivity.
Qed.
Definition hr2 : list N := 99%N :: repeat 97%N (N.to_nat 65536) ++ [99%N].
Lemma search_wrapped_refuted : forall kernel : list N -> list N -> nat * nat,
  kdist kernel hq hr = 1 -> kdist kernel hq hr2 = 2 ->
  let cs := cands_of hq [hr; hr2] (map (kernel hq) [hr; hr2]) [1; 0] in
  by_decreasing_cw cs /\
  s_maxe (find_closests thr_fixed (length hq) cs) = Some 2 /\ s_bests (find_closests thr_fixed (length hq) cs) = [1].
Proof.
  intros kernel K1 K2 cs.
  pose proof hq_hr_common as C0.
  unfold cs, cands_of, cands_of_with. cbn [map nth fst snd].
  split.
  - constructor; [constructor; [constructor|constructor]|]. constructor; [|constructor]. cbn [c_cw]. rewrite C0. lia.
  - rewrite fscan_prune2.
    + destruct (find_closests_single (length hq)
        (mkcand 1 (common4w hq hr2) (length hr2) (fst (kernel hq hr2)) (snd (kernel hq hr2)))) as [A B].
      rewrite A, B. unfold c_d. cbn [c_ali c_lcs c_idx]. unfold kdist in K2. rewrite K2. split; reflexivity.
    + cbn [c_cw]. rewrite C0. unfold c_d. cbn [c_ali c_lcs]. unfold kdist in K2. rewrite K2.
      rewrite hq_length. lia.
Qed.

(** * round 2 — obitag2.FindClosests: the cap, sharp statement *)
Lemma StronglySorted_app_l : forall (A : Type) (R : A -> A -> Prop) l1 l2,
  StronglySorted R (l1 ++ l2) -> StronglySorted R l1.
Proof.
  induction l1 as [|a r IH]; intros l2 H; [constructor|].
  rewrite <- app_comm_cons in H. apply StronglySorted_inv in H. destruct H as [H1 H2].
  constructor; [now apply (IH l2)|]. rewrite Forall_forall in *. intros x Hx. apply H2. apply in_or_app. now left.
Qed.
Lemma filter_nil_iff : forall (cs : list cand) f, filter f cs = [] <-> (forall c, In c cs -> f c = false).
Proof.
  intros cs f. split; [|apply filter_none].
  intros H c Hc. destruct (f c) eqn:E; [|reflexivity].
  assert (In c (filter f cs)) by (apply filter_In; now split). rewrite H in *. contradiction.
Qed.

Theorem search_cap_sharp : forall n qlen cs, 0 < n -> cs <> [] -> by_decreasing_cw cs -> qgram_ok qlen cs ->
  forall m, (forall c, In c cs -> m <= c_d c) -> (exists c, In c cs /\ c_d c = m) ->
  (s_maxe (find_closests_cap n thr_fixed qlen cs) = Some m /\
   s_bests (find_closests_cap n thr_fixed qlen cs) = map c_idx (filter (fun c => c_d c =? m) cs))
  <-> (forall c, In c (skipn n cs) -> c_d c <> m).
Proof.
  intros n qlen cs Hn NE S Q m Hlow [cm [Hcm Hdm]]. unfold find_closests_cap.
  pose proof (firstn_skipn n cs) as Split.
  set (A := firstn n cs) in *. set (B := skipn n cs) in *.
  assert (NEA : A <> []).
  { unfold A. destruct cs as [|c0 r]; [contradiction|]. destruct n as [|n']; [lia|]. discriminate. }
  assert (SA : by_decreasing_cw A) by (unfold by_decreasing_cw in *; rewrite <- Split in S; now apply StronglySorted_app_l in S).
  assert (InA : forall c, In c A -> In c cs) by (intros c Hc; rewrite <- Split; apply in_or_app; now left).
  assert (InB : forall c, In c B -> In c cs) by (intros c Hc; rewrite <- Split; apply in_or_app; now right).
  assert (QA : qgram_ok qlen A) by (intros c Hc; apply Q; now apply InA).
  destruct (search_lossless qlen A NEA SA QA) as [m' [Hm' [Hlow' [[ca [Hca Hda]] Hb']]]].
  assert (F : filter (fun c => c_d c =? m) cs = filter (fun c => c_d c =? m) A ++ filter (fun c => c_d c =? m) B)
    by (rewrite <- filter_app; now rewrite Split).
  rewrite Hm', Hb', F, map_app.
  split.
  - intros [Em Eb]. injection Em as ->.
    assert (L : length (map c_idx (filter (fun c => c_d c =? m) B)) = 0).
    { apply (f_equal (@length nat)) in Eb. rewrite app_length in Eb. lia. }
    rewrite map_length in L. apply length_zero_iff_nil in L.
    intros c Hc E. pose proof (proj1 (filter_nil_iff B _) L c Hc) as Fc. apply Nat.eqb_neq in Fc. contradiction.
  - intros HB.
    assert (Hin : In cm A).
    { rewrite <- Split in Hcm. apply in_app_or in Hcm. destruct Hcm as [H|H]; [exact H|]. exfalso. exact (HB cm H Hdm). }
    assert (m' = m).
    { pose proof (Hlow' cm Hin). pose proof (Hlow ca (InA ca Hca)). lia. }
    rewrite H. split; [reflexivity|].
    rewrite (filter_none B); [now rewrite app_nil_r|].
    intros c Hc. apply Nat.eqb_neq. now apply HB.
Qed.

(** * round 2 — IndexSequence always records distance 0; the loops of Identify *)
Lemma index_fused_zero : forall cs rest old mini c, In c cs -> i_d c = 0 -> In (i_lca c) rest -> 0 < old ->
  (forall m, mini = Some m -> 0 < m) -> exists a, In (0, a) (index_fused old rest cs mini).
Proof.
  intros cs. induction rest as [|a0 r IH]; intros old mini c Hc Hd Hl Ho Hm; [destruct Hl|].
  cbn [index_fused]. destruct (iall a0 cs mini) as [d'|] eqn:EA.
  - destruct (Nat.eq_dec d' 0) as [->|Nz].
    + destruct (Nat.ltb_spec 0 old); [|lia]. exists a0. now left.
    + assert (Hl' : In (i_lca c) r).
      { destruct Hl as [E|Hl]; [|exact Hl]. destruct (iall_lower _ _ _ _ EA) as [_ L2].
        specialize (L2 c Hc (eq_sym E)). lia. }
      destruct (d' <? old).
      * destruct (IH d' (Some d') c Hc Hd Hl') as [a Ha]; [lia|intros m [= <-]; lia|]. exists a. now right.
      * apply (IH old (Some d') c Hc Hd Hl' Ho). intros m [= <-]. lia.
  - destruct (iall_none _ _ _ EA) as [-> N].
    assert (Hl' : In (i_lca c) r).
    { destruct Hl as [E|Hl]; [|exact Hl]. exfalso. exact (N c Hc (eq_sym E)). }
    apply (IH old None c Hc Hd Hl' Ho). intros m; discriminate.
Qed.
Theorem index_ref_zero : forall slen pseq cs, iby_decreasing_cw cs -> iqgram_ok slen cs -> 0 < slen ->
  (exists c, In c cs /\ i_d c = 0 /\ In (i_lca c) pseq) ->
  exists a, In (0, a) (index_ref thr_fixed slen pseq cs).
Proof.
  intros slen pseq cs S Q Hs [c [Hc [Hd Hl]]]. unfold index_ref.
  rewrite (build_index_fused slen cs S Q) by (intros _; reflexivity).
  apply (index_fused_zero cs pseq slen None c Hc Hd Hl Hs). intros m; discriminate.
Qed.

Lemma lookup_acc_some : forall idx e x, exists y, lookup idx e (Some x) = Some y.
Proof.
  induction idx as [|[k t] r IH]; intros e [k0 t0]; [now exists (k0, t0)|].
  cbn [lookup]. destruct (k <=? e); [|apply IH]. destruct (k0 <? k); apply IH.
Qed.
Lemma lookup_some : forall idx e acc, (exists k t, In (k, t) idx /\ k <= e) -> exists y, lookup idx e acc = Some y.
Proof.
  induction idx as [|[k0 t0] r IH]; intros e acc [k [t [Hin Hk]]]; [destruct Hin|].
  cbn [lookup]. destruct Hin as [E|Hin].
  - injection E as -> ->. destruct (Nat.leb_spec k e); [|lia].
    destruct acc as [[k1 t1]|]; [destruct (k1 <? k)|]; apply lookup_acc_some.
  - destruct (k0 <=? e); apply IH; exists k, t; now split.
Qed.
(** every recorded distance is below the reference length: beyond it the lookup no longer moves *)
Lemma lookup_saturate : forall idx s e e' acc, (forall k t, In (k, t) idx -> k < s) -> s <= S e -> s <= S e' ->
  lookup idx e acc = lookup idx e' acc.
Proof.
  induction idx as [|[k t] r IH]; intros s e e' acc H He He'; [reflexivity|].
  cbn [lookup]. assert (k < s) by (apply (H k t); now left).
  destruct (Nat.leb_spec k e); [|lia]. destruct (Nat.leb_spec k e'); [|lia].
  apply (IH s); [|exact He|exact He']. intros k' t' Hin. apply (H k' t'). now right.
Qed.
Lemma lookup_id_zero : forall idx e, (exists a, In (0, a) idx) ->
  lookup_id idx e = lookup idx e None /\ exists y, lookup_id idx e = Some y.
Proof.
  intros idx e [a Ha]. unfold lookup_id.
  destruct (lookup_some idx e None) as [y Hy]; [exists 0, a; split; [exact Ha|lia]|].
  rewrite Hy. split; [reflexivity|now exists y].
Qed.

(** Identify returns (neither loop spins, no nil taxon) as soon as every best match has an index with
    an entry for distance 0 and there is at least one best match *)
Lemma fold_lca_total : forall (lca : nat -> nat -> nat) ts a, exists t, fold_lca (fun a b => Some (lca a b)) ts (Some a) = Some t.
Proof. intros lca. induction ts as [|t0 r IH]; intros a; [now exists a|]. cbn [fold_lca]. apply IH. Qed.
Lemma all_some_total : forall (A B : Type) (f : A -> option B) l, (forall x, In x l -> exists y, f x = Some y) ->
  exists ys, all_some (map f l) = Some ys /\ length ys = length l.
Proof.
  induction l as [|a r IH]; intros H; [now exists []|].
  destruct (H a (or_introl eq_refl)) as [y Ey]. destruct IH as [ys [E L]]; [intros x Hx; apply H; now right|].
  exists (y :: ys). cbn [map all_some]. rewrite Ey, E. split; [reflexivity|cbn; now rewrite L].
Qed.
Theorem identify_total : forall (lca : nat -> nat -> nat) (indices : nat -> list (nat * nat)) st,
  s_bests st <> [] -> (forall b, In b (s_bests st) -> exists a, In (0, a) (indices b)) ->
  exists t, identify (fun a b => Some (lca a b)) indices st = Some t.
Proof.
  intros lca indices st NE H. unfold identify.
  destruct (s_maxe st) as [d|]; [|now exists 1].
  destruct (s_bali st <=? 2 * s_blcs st); [|now exists 1].
  destruct (all_some_total _ _ (fun b => option_map snd (lookup_id (indices b) d)) (s_bests st)) as [ts [E L]].
  { intros b Hb. destruct (lookup_id_zero (indices b) d (H b Hb)) as [_ [[k t] Hy]]. rewrite Hy. now exists t. }
  rewrite E. destruct ts as [|t0 r]; [destruct (s_bests st); [contradiction|discriminate]|].
  cbn [fold_lca]. apply fold_lca_total.
Qed.

(** the observation "no recorded distance >= |reference|", exactly: gccg (taxon 4, path 1-3-4) indexed in the
    database {gccg:4, gctcg:3 (distance 1), gccggaca:2 (distance 4), gccggagtt:2 (distance 5)}: the index is
    {1 -> 3, 0 -> 4}; a query at distance 4 = |gccg| is answered 3 although the reference gccggaca, whose LCA
    with gccg is the root, is within 4 *)
Definition wbcs : list icand := [mkicand 1 1 8 4; mkicand 1 1 9 5; mkicand 4 1 4 0; mkicand 3 0 5 1].
Lemma lookup_beyond_length_witness :
  iby_decreasing_cw wbcs /\ iqgram_ok 4 wbcs /\
  index_ref thr_fixed 4 [1; 3; 4] wbcs = [(1, 3); (0, 4)] /\
  lookup_id (index_ref thr_fixed 4 [1; 3; 4] wbcs) 4 = Some (1, 3) /\
  (exists c, In c wbcs /\ i_d c <= 4 /\ i_lca c = 1).
Proof.
  split; [repeat constructor|]. split.
  - intros c Hc. cbn in Hc. repeat (destruct Hc as [<-|Hc]; [cbn; lia|]). destruct Hc.
  - split; [vm_compute; reflexivity|]. split; [vm_compute; reflexivity|].
    exists (mkicand 1 1 8 4). split; [now left|]. split; cbn; lia.
Qed.

(** * round 2 — sequence-level theorems over the candidates AS THE CODE COMPUTES THEM (wrapped cells) *)
Lemma cands_of_exact : forall q refs qd order, cells_exact q -> Forall cells_exact refs ->
  cands_of q refs qd order = cands_of_with common4 q refs qd order.
Proof.
  intros q refs qd order Hq Hr. unfold cands_of, cands_of_with. apply map_ext. intros i. cbv zeta.
  rewrite common4w_exact; [reflexivity|exact Hq|].
  destruct (nth_in_or_default i refs []) as [Hin|E]; [rewrite Forall_forall in Hr; now apply Hr|rewrite E; apply cells_exact_nil].
Qed.

Theorem search_lossless_seq :
  forall kernel : list N -> list N -> nat * nat,
  (forall q r, acgt_only q -> acgt_only r -> edits (kdist kernel q r) q r) ->
  forall q refs order,
    acgt_only q -> Forall acgt_only refs -> refs <> [] ->
    cells_exact q -> Forall cells_exact refs ->
    Permutation order (seq 0 (length refs)) ->
    by_decreasing_cw (cands_of q refs (map (kernel q) refs) order) ->
    let st := find_closests thr_fixed (length q) (cands_of q refs (map (kernel q) refs) order) in
    exists m, s_maxe st = Some m /\
      (forall i, i < length refs -> m <= kdist kernel q (nth i refs [])) /\
      (forall i, In i (s_bests st) <-> i < length refs /\ kdist kernel q (nth i refs []) = m) /\
      s_bests st <> [].
Proof.
  intros kernel KE q refs order Hq Hr NE Gq Gr P S. rewrite cands_of_exact in S |- * by assumption.
  now apply search_lossless_seq_x.
Qed.

Theorem assignment_sound :
  forall kernel : list N -> list N -> nat * nat,
  (forall q r, acgt_only q -> acgt_only r -> edits (kdist kernel q r) q r) ->
  forall (anc : nat -> nat -> Prop) (lca : nat -> nat -> nat),
  (forall a, anc a a) -> (forall a b c, anc a b -> anc b c -> anc a c) ->
  (forall x a b, anc x (lca a b) <-> anc x a /\ anc x b) -> (forall x, anc 1 x) ->
  forall q refs order (tax : nat -> nat) (indices : nat -> list (nat * nat)) t,
    acgt_only q -> Forall acgt_only refs -> refs <> [] ->
    cells_exact q -> Forall cells_exact refs ->
    Permutation order (seq 0 (length refs)) ->
    by_decreasing_cw (cands_of q refs (map (kernel q) refs) order) ->
    (forall b, b < length refs -> forall d a, In (d, a) (indices b) -> anc a (tax b)) ->
    identify (fun a b => Some (lca a b)) indices
             (find_closests thr_fixed (length q) (cands_of q refs (map (kernel q) refs) order)) = Some t ->
    forall i, i < length refs ->
      (forall j, j < length refs -> kdist kernel q (nth i refs []) <= kdist kernel q (nth j refs [])) ->
      anc t (tax i).
Proof.
  intros kernel KE anc lca Ar At Ag Root q refs order tax indices t Hq Hr NE Gq Gr P S Hidx Hid.
  rewrite cands_of_exact in S, Hid by assumption.
  exact (assignment_sound_x kernel KE anc lca Ar At Ag Root q refs order tax indices t Hq Hr NE P S Hidx Hid).
Qed.

Theorem threshold_sound_w :
  forall kernel : list N -> list N -> nat * nat,
  (forall q r, acgt_only q -> acgt_only r -> edits (kdist kernel q r) q r) ->
  forall q r, acgt_only q -> acgt_only r -> cells_exact q -> cells_exact r ->
    thr_fixed (length q) (length r) (kdist kernel q r) <= common4w q r.
Proof.
  intros kernel KE q r Hq Hr Gq Gr. rewrite common4w_exact by assumption. now apply (threshold_sound kernel KE).
Qed.

(** * whatever the counts and the threshold: the answer of the scan is the exact answer over a non-empty
      PREFIX of the candidate order (reported distances are real, the reported best set is complete
      within the prefix; only candidates after the break can be lost) *)
Lemma fscan_prefix : forall thr qlen cs pre0 st, repr pre0 st ->
  exists pre post, cs = pre ++ post /\ repr (pre0 ++ pre) (fscan thr qlen cs st) /\
    (cs <> [] -> s_wordmin st = 0 -> pre <> []).
Proof.
  intros thr qlen. induction cs as [|c r IH]; intros pre0 st H.
  - exists [], []. split; [reflexivity|]. split; [now rewrite app_nil_r|intros NE; contradiction].
  - cbn [fscan]. destruct (Nat.ltb_spec (c_cw c) (s_wordmin st)) as [L|L].
    + exists [], (c :: r). split; [reflexivity|]. split; [now rewrite app_nil_r|]. intros _ W. lia.
    + destruct (IH (pre0 ++ [c]) (fstep thr qlen c st) (fstep_repr thr qlen pre0 c st H)) as [pre [post [E [R _]]]].
      exists (c :: pre), post. split; [now rewrite E|]. split; [|discriminate].
      now rewrite <- app_assoc in R.
Qed.
Theorem search_prefix_exact : forall thr qlen cs, cs <> [] ->
  exists pre post, cs = pre ++ post /\ pre <> [] /\
    s_maxe (find_closests thr qlen cs) = minl pre /\ s_bests (find_closests thr qlen cs) = best_set pre.
Proof.
  intros thr qlen cs NE. unfold find_closests.
  destruct (fscan_prefix thr qlen cs [] (finit match cs with c :: _ => c_idx c | [] => 0 end)) as [pre [post [E [[R1 R2] Hne]]]];
    [split; reflexivity|].
  exists pre, post. split; [exact E|]. split; [apply Hne; [exact NE|reflexivity]|]. split; assumption.
Qed.

(** * IUPAC codes: the kernel counts a column (a, b) of two DIFFERENT but compatible symbols as a match; the
      4-mer code does not. Each such column costs at most four shared 4-mers, like an edit. *)
Fixpoint al_amb (compat : N -> N -> bool) (al : list col) : nat :=
  match al with
  | [] => 0
  | CSub a b :: r => if compat a b then S (al_amb compat r) else al_amb compat r
  | _ :: r => al_amb compat r
  end.
Lemma al_amb_le : forall compat al, al_lcs al + al_amb compat al <= length al.
Proof.
  intros compat. induction al as [|[a|a b|b|a] r IH]; cbn [al_lcs al_amb length]; try lia.
  destruct (compat a b); lia.
Qed.
(** kernel's view of the alignment: lcs = equal columns + compatible columns, distance = the rest *)
Definition al_klcs compat al := al_lcs al + al_amb compat al.
Theorem iupac_bound : forall compat al,
  Nat.max (length (al_left al)) (length (al_right al)) - 3 - 4 * ((length al - al_klcs compat al) + al_amb compat al)
  <= common4 (al_left al) (al_right al).
Proof.
  intros compat al. pose proof (qgram_bound _ _ _ (alignment_edits al)) as B.
  pose proof (al_amb_le compat al). unfold al_klcs.
  replace (length al - (al_lcs al + al_amb compat al) + al_amb compat al) with (length al - al_lcs al) by lia.
  exact B.
Qed.
(** and the bound without the ambiguity term fails: acgtnacgt / acgtcacgt, kernel distance 0 (n matches c),
    2 shared 4-mers instead of 6 *)
Definition wamb : list col :=
  [CMatch 97; CMatch 99; CMatch 103; CMatch 116; CSub 110 99; CMatch 97; CMatch 99; CMatch 103; CMatch 116]%N.
Lemma iupac_refuted : let compat := fun a b : N => (a =? 110)%N || (b =? 110)%N || (a =? b)%N in
  length wamb - al_klcs compat wamb = 0 /\ al_amb compat wamb = 1 /\
  common4 (al_left wamb) (al_right wamb) = 2 /\
  ~ (Nat.max (length (al_left wamb)) (length (al_right wamb)) - 3 - 4 * (length wamb - al_klcs compat wamb)
     <= common4 (al_left wamb) (al_right wamb)).
Proof. cbv zeta. split; [reflexivity|]. split; [reflexivity|]. split; [vm_compute; reflexivity|]. vm_compute. lia. Qed.

(** * the lookup of Identify for EVERY observed distance *)
Theorem index_lookup_all_distances :
  forall (anc : nat -> nat -> Prop) (lca : nat -> nat -> nat),
  (forall a, anc a a) -> (forall a b c, anc a b -> anc b c -> anc a c) ->
  (forall x a b, anc x (lca a b) <-> anc x a /\ anc x b) ->
  forall slen tseq pseq rs,
    path_chain anc pseq -> (forall r, In r rs -> In (lca tseq (r_tax r)) pseq) ->
    (exists r, In r rs /\ r_tax r = tseq /\ r_d r = 0) ->
    iby_decreasing_cw (icands lca tseq rs) -> iqgram_ok slen (icands lca tseq rs) -> 0 < slen ->
    forall e, exists k a,
      lookup_id (index_ref thr_fixed slen pseq (icands lca tseq rs)) e = Some (k, a) /\
      k <= e /\ k < slen /\ In a pseq /\
      is_lca_of anc a (map r_tax (filter (fun r => r_d r <=? Nat.min e (slen - 1)) rs)).
Proof.
  intros anc lca Ar At Ag slen tseq pseq rs CH ON Self S Q Hs e.
  set (idx := index_ref thr_fixed slen pseq (icands lca tseq rs)).
  assert (Z : exists a, In (0, a) idx).
  { destruct Self as [r0 [H0 [T0 D0]]]. apply index_ref_zero; try assumption.
    exists (mkicand (lca tseq (r_tax r0)) (r_cw r0) (r_len r0) (r_d r0)). split.
    - unfold icands. apply in_map_iff. exists r0. now split.
    - cbn [i_d i_lca]. split; [exact D0|now apply ON]. }
  destruct (lookup_id_zero idx e Z) as [E [[k a] Hy]]. exists k, a. split; [exact Hy|].
  rewrite E in Hy.
  assert (Keys : forall k' t', In (k', t') idx -> k' < slen).
  { intros k' t' Hin. now destruct (index_ref_spec slen pseq _ S Q k' t' Hin). }
  assert (Kk : k < slen).
  { apply lookup_in in Hy. destruct Hy as [Hy|Hy]; [exact (Keys _ _ Hy)|discriminate]. }
  destruct (Nat.lt_ge_cases e slen) as [Lt|Ge].
  - rewrite Nat.min_l by lia.
    destruct (index_lookup_is_lca anc lca Ar At Ag slen tseq pseq rs CH ON Self S Q e k a Lt Hy) as [A [B C]].
    repeat split; assumption || apply C.
  - rewrite Nat.min_r by lia.
    rewrite (lookup_saturate idx slen e (slen - 1) None Keys) in Hy by lia.
    destruct (index_lookup_is_lca anc lca Ar At Ag slen tseq pseq rs CH ON Self S Q (slen - 1) k a) as [A [B C]]; [lia|exact Hy|].
    split; [lia|]. split; [exact Kk|]. split; [exact B|exact C].
Qed.

(** * round 2 — the regenerated base-code table; obitag2 at its cap of 1001 candidates *)
Lemma base_code_nonzero_check :
  forallb (fun i => (nth i base_code_tab 0 =? 0)%N || existsb (N.eqb (N.of_nat i)) [3; 7; 20; 21]%N) (seq 0 32) = true.
Proof. vm_compute. reflexivity. Qed.
Lemma base_code_nonzero : forall b, base_code b <> 0%N -> In (N.land b 31) [3; 7; 20; 21]%N.
Proof.
  intros b H. unfold base_code in H. set (i := N.land b 31) in *.
  assert (Hi : (i < 32)%N).
  { unfold i. change 31%N with (N.ones 5). rewrite N.land_ones. apply N.mod_lt. discriminate. }
  pose proof base_code_nonzero_check as F. rewrite forallb_forall in F.
  specialize (F (N.to_nat i)). rewrite N2Nat.id in F.
  assert (Hin : In (N.to_nat i) (seq 0 32)) by (apply in_seq; lia).
  apply F in Hin. apply orb_prop in Hin. destruct Hin as [Hz|He].
  - apply N.eqb_eq in Hz. contradiction.
  - apply existsb_exists in He. destruct He as [x [Hx Ex]]. apply N.eqb_eq in Ex. now subst x.
Qed.
Lemma base_code_table :
  length base_code_tab = 32 /\
  map base_code [97; 99; 103; 116; 117; 65; 67; 71; 84; 85]%N = [0; 1; 2; 3; 3; 0; 1; 2; 3; 3]%N /\
  (forall b, (base_code b <= 3)%N) /\
  (forall b, base_code b <> 0%N -> In (N.land b 31) [3; 7; 20; 21]%N).
Proof.
  split; [exact base_code_tab_length|]. split; [vm_compute; reflexivity|].
  split; [exact base_code_le3|exact base_code_nonzero].
Qed.
Theorem search2_sharp :
  forall qlen cs, cs <> [] -> by_decreasing_cw cs -> qgram_ok qlen cs ->
  forall m, (forall c, In c cs -> m <= c_d c) -> (exists c, In c cs /\ c_d c = m) ->
  (s_maxe (find_closests2 thr_fixed qlen cs) = Some m /\
   s_bests (find_closests2 thr_fixed qlen cs) = map c_idx (filter (fun c => c_d c =? m) cs))
  <-> (forall c, In c (skipn 1001 cs) -> c_d c <> m).
Proof. intros qlen cs. apply (search_cap_sharp 1001 qlen cs). lia. Qed.

(** * round 2 — obitag2 tests byte equality (not D1Or0) when the best distance is 0 *)
Lemma fstep2_fstep : forall eqf thr qlen c st, eqf (c_idx c) = (c_d c =? 0) ->
  fstep2 eqf thr qlen c st = fstep thr qlen c st.
Proof.
  intros eqf thr qlen c st H. unfold fstep2, fstep, kern2.
  destruct (s_maxe st) as [[|m]|] eqn:E; try reflexivity.
  rewrite H. unfold kern. cbn [Nat.leb].
  destruct (c_d c) as [|[|d]] eqn:D; cbn [Nat.eqb Nat.leb]; try reflexivity.
  unfold fstep_core. rewrite E. cbn [Nat.ltb Nat.leb]. rewrite E. reflexivity.
Qed.
Lemma fscan2_fscan : forall eqf thr qlen cs st, (forall c, In c cs -> eqf (c_idx c) = (c_d c =? 0)) ->
  fscan2 eqf thr qlen cs st = fscan thr qlen cs st.
Proof.
  intros eqf thr qlen. induction cs as [|c r IH]; intros st H; [reflexivity|].
  cbn [fscan2 fscan]. destruct (c_cw c <? s_wordmin st); [reflexivity|].
  rewrite fstep2_fstep by (apply H; now left). apply IH. intros c' Hc'. apply H. now right.
Qed.
Theorem find_closests2x_eq : forall eqf thr qlen cs, (forall c, In c cs -> eqf (c_idx c) = (c_d c =? 0)) ->
  find_closests2x eqf thr qlen cs = find_closests2 thr qlen cs.
Proof.
  intros eqf thr qlen cs H. unfold find_closests2x, find_closests2, find_closests_cap, find_closests. cbv zeta.
  apply fscan2_fscan. intros c Hc. apply H. rewrite <- (firstn_skipn 1001 cs). apply in_or_app. now left.
Qed.
Theorem search2x_sharp :
  forall eqf qlen cs, (forall c, In c cs -> eqf (c_idx c) = (c_d c =? 0)) ->
  cs <> [] -> by_decreasing_cw cs -> qgram_ok qlen cs ->
  forall m, (forall c, In c cs -> m <= c_d c) -> (exists c, In c cs /\ c_d c = m) ->
  (s_maxe (find_closests2x eqf thr_fixed qlen cs) = Some m /\
   s_bests (find_closests2x eqf thr_fixed qlen cs) = map c_idx (filter (fun c => c_d c =? m) cs))
  <-> (forall c, In c (skipn 1001 cs) -> c_d c <> m).
Proof. intros eqf qlen cs H. rewrite (find_closests2x_eq eqf thr_fixed qlen cs H). apply search2_sharp. Qed.
(** with IUPAC codes byte equality is stricter than the kernel: query acgn, references acgt and acgn, both at kernel
    distance 0: obitag returns both, obitag2 (identical reference scanned first) only the identical one *)
Definition w2cs : list cand := [mkcand 1 1 4 4 4; mkcand 0 1 4 4 4].
Lemma search2x_iupac_fewer_ties :
  s_bests (find_closests thr_fixed 4 w2cs) = [1; 0] /\
  s_bests (find_closests2x (fun i => i =? 1) thr_fixed 4 w2cs) = [1].
Proof. split; vm_compute; reflexivity. Qed.

(** when can the observed distance reach the length of a best match although Identify assigns (identity >= 0.5)?
    only at identity exactly 0.5, the whole reference being matched *)
Lemma beyond_length_only_at_half : forall lcs ali blen,
  lcs <= blen -> blen <= ali - lcs -> ali <= 2 * lcs -> ali = 2 * lcs /\ lcs = blen /\ ali - lcs = blen.
Proof. intros. lia. Qed.

(** the per-sequence tables used by the correspondence give the same shared counts *)
Lemma common_tab_sumkN : forall f g n, common_tab (tab f n) (tab g n) = sumkN (fun k => N.min (f k) (g k)) n.
Proof. intros f g. induction n as [|n IH]; [reflexivity|]. cbn [tab common_tab sumkN]. now rewrite IH. Qed.
Lemma table_common4w : forall s t, commonw_tab (table4 s) (table4 t) = common4w s t.
Proof. intros s t. unfold commonw_tab, table4, common4w, commonw. cbv zeta. now rewrite common_tab_sumkN. Qed.
