(** C15 — executable model of the obitag / obirefidx search.
    Transcribes: obikmer.Encode4mer / Count4Mer / Common4Mer, obitag.FindClosests (and the
    obitag2 variant), obirefidx.IndexSequence, the index lookup + LCA fold of obitag.Identify.
    The LCS kernels (FastLCSScore, D1Or0) are NOT modelled here (property C09): the distance of
    each (query, reference) pair is an input of the scan; [kern] states how the callers use the
    bounded kernels. Definitions only — proofs are in Proofs.v. *)
From Coq Require Import NArith List Bool Arith.
From OBI.C15.Gen Require Import Tables.
Import ListNotations.

(** * 4-mers (pkg/obikmer/encodefourmer.go, counting.go) *)

(** [__single_base_code__[b & 31]]: the table is REGENERATED from the current build on every run
    (Gen/Tables.v); Proofs.v re-proves from it: a,c,g,t/u -> 0,1,2,3 in both cases, every other
    symbol -> 0 (like a), every code <= 3 *)
Definition base_code (b : N) : N := nth (N.to_nat (N.land b 31)) base_code_tab 0%N.

Definition code4 (a b c d : N) : N :=
  (((base_code a * 4 + base_code b) * 4 + base_code c) * 4 + base_code d)%N.

(** the codes of all windows of 4 symbols, left to right ([] when fewer than 4 symbols) *)
Fixpoint kmers4 (s : list N) : list N :=
  match s with
  | a :: tl =>
      match tl with
      | b :: c :: d :: _ => code4 a b c d :: kmers4 tl
      | _ => []
      end
  | [] => []
  end.

(** line-by-line transcription of Encode4mer: one byte [code], shifted by two bits (wrapping
    at 8 bits) and or-ed with the code of the next base. Proofs.v shows it equals [kmers4]. *)
Fixpoint roll4 (code : N) (s : list N) : list N :=
  match s with
  | [] => []
  | x :: r => let code' := (((code * 4) mod 256) + base_code x)%N in code' :: roll4 code' r
  end.
Definition encode4mer (s : list N) : list N :=
  match s with
  | a :: b :: c :: d :: r => code4 a b c d :: roll4 (code4 a b c d) r
  | _ => []
  end.
(** (sequences shorter than 4 symbols: `length <= 0`, no 4-mer; the former panic on exactly 3 symbols was
    repaired under property C08 and length-3 sequences are now part of the generated cases) *)

(** Count4Mer: table of 256 counters; Common4Mer: sum of the pointwise minima *)
Fixpoint count (k : N) (l : list N) : nat :=
  match l with
  | [] => 0
  | x :: r => if N.eqb x k then S (count k r) else count k r
  end.
Fixpoint sumk (f : N -> nat) (n : nat) : nat :=
  match n with
  | 0 => 0
  | S m => sumk f m + f (N.of_nat m)
  end.
Definition common (l1 l2 : list N) : nat := sumk (fun k => Nat.min (count k l1) (count k l2)) 256.
Definition common4 (s t : list N) : nat := common (kmers4 s) (kmers4 t).

(** what the code computes: the cells of a Table4mer are unsigned integers of [cell_bits] bits (uint16:
    regenerated from the build), the increment of a cell wraps around; Common4Mer sums the minima of the
    WRAPPED cells. Binary arithmetic (also much faster under vm_compute than [count]). *)
Fixpoint countN (k : N) (l : list N) : N :=
  match l with
  | [] => 0%N
  | x :: r => if N.eqb x k then N.succ (countN k r) else countN k r
  end.
Definition cell_modulus : N := (2 ^ cell_bits)%N.
Definition cell (k : N) (l : list N) : N := (countN k l mod cell_modulus)%N.
Fixpoint sumkN (f : N -> N) (n : nat) : N :=
  match n with
  | 0 => 0%N
  | S m => (sumkN f m + f (N.of_nat m))%N
  end.
Definition commonw (l1 l2 : list N) : nat := N.to_nat (sumkN (fun k => N.min (cell k l1) (cell k l2)) 256).
Definition common4w (s t : list N) : nat := commonw (kmers4 s) (kmers4 t).
(** the whole table of a sequence (cells 255 down to 0), computed once per sequence by the correspondence;
    Proofs.v: [commonw_tab (table4 s) (table4 t) = common4w s t] *)
Fixpoint tab (f : N -> N) (n : nat) : list N :=
  match n with
  | 0 => []
  | S m => f (N.of_nat m) :: tab f m
  end.
Definition table4 (s : list N) : list N := let l := kmers4 s in tab (fun k => cell k l) 256.
Fixpoint common_tab (t1 t2 : list N) : N :=
  match t1, t2 with
  | a :: r1, b :: r2 => (common_tab r1 r2 + N.min a b)%N
  | _, _ => 0%N
  end.
Definition commonw_tab (t1 t2 : list N) : nat := N.to_nat (common_tab t1 t2).
(** the guard under which the cells are the exact counts: no 4-mer occurs 2^16 times or more *)
Definition cells_exactb (s : list N) : bool :=
  forallb (fun k => (countN (N.of_nat k) (kmers4 s) <? cell_modulus)%N) (seq 0 256).

(** * FindClosests *)

(** one candidate reference: its position in the database, the number of 4-mers shared with
    the query, its length, and the (lcs, alignment length) the kernel gives for the pair *)
Record cand := mkcand { c_idx : nat; c_cw : nat; c_len : nat; c_lcs : nat; c_ali : nat }.
Definition c_d (c : cand) : nat := c_ali c - c_lcs c.

(** what the caller sees of the kernels: no bound yet -> unbounded FastLCSScore; bound 0 or 1 ->
    D1Or0 (answers only distances 0 and 1); otherwise FastLCSScore bounded by maxe (answers beyond
    the bound are ignored by the caller: same as no answer) *)
Definition kern (maxe : option nat) (d : nat) : option nat :=
  match maxe with
  | None => Some d
  | Some m => if m <=? 1 then (if d <=? 1 then Some d else None)
              else (if d <=? m then Some d else None)
  end.

Record fstate := mkst { s_maxe : option nat; s_wordmin : nat; s_bests : list nat;
                        s_blcs : nat; s_bali : nat; s_bmatch : nat }.

(** pruning threshold after a new best distance e: repaired code / original code
    (Go: max(0, … - 3 - 4*maxe); subtraction on nat truncates at 0) *)
Definition thr_fixed (qlen rlen e : nat) : nat := qlen - 3 - 4 * e.
Definition thr_orig (qlen rlen e : nat) : nat := Nat.max qlen rlen - 3 - 4 * e.

Definition fstep_core (ans : option nat) (thr : nat -> nat -> nat -> nat) (qlen : nat) (c : cand) (st : fstate) : fstate :=
  match ans with
  | None => st
  | Some score =>
      let better := match s_maxe st with None => true | Some m => score <? m end in
      let st1 := if better
                 then mkst (Some score) (thr qlen (c_len c) score) [] (c_lcs c) (c_ali c) (c_idx c)
                 else st in
      if match s_maxe st1 with Some m => score =? m | None => false end
      then (* id > bestId  <->  lcs/ali > blcs/bali *)
        let upd := s_blcs st1 * c_ali c <? c_lcs c * s_bali st1 in
        mkst (s_maxe st1) (s_wordmin st1) (s_bests st1 ++ [c_idx c])
             (if upd then c_lcs c else s_blcs st1) (if upd then c_ali c else s_bali st1)
             (if upd then c_idx c else s_bmatch st1)
      else st1
  end.
Definition fstep (thr : nat -> nat -> nat -> nat) (qlen : nat) (c : cand) (st : fstate) : fstate :=
  fstep_core (kern (s_maxe st) (c_d c)) thr qlen c st.

(** the scan over the candidates (in the order computed by the code), with its [break] *)
Fixpoint fscan (thr : nat -> nat -> nat -> nat) (qlen : nat) (cs : list cand) (st : fstate) : fstate :=
  match cs with
  | [] => st
  | c :: r => if c_cw c <? s_wordmin st then st else fscan thr qlen r (fstep thr qlen c st)
  end.

Definition finit (first : nat) : fstate := mkst None 0 [] 0 1 first.
Definition find_closests thr qlen (cs : list cand) : fstate :=
  fscan thr qlen cs (finit (match cs with c :: _ => c_idx c | [] => 0 end)).
(** obitag2.FindClosests: same loop with `|| i > 1000` in the break test: the candidates of rank
    0..1000 are looked at, the scan is left at rank 1001 *)
Definition find_closests_cap (n : nat) thr qlen (cs : list cand) : fstate := find_closests thr qlen (firstn n cs).
Definition find_closests2 thr qlen (cs : list cand) : fstate := find_closests_cap 1001 thr qlen cs.
(** ... and, exactly, `switch maxe { case 0: byte equality of the two sequences; case 1: D1Or0; default:
    FastLCSScore }`: with a best distance of 0 only byte-identical references are ties ([eqf i]: reference i
    has the same bytes as the query). Proofs.v: same function as [find_closests2] when byte equality agrees
    with kernel distance 0 (acgt sequences); with IUPAC codes it can return fewer ties than obitag. *)
Definition kern2 (maxe : option nat) (eq : bool) (d : nat) : option nat :=
  match maxe with
  | Some 0 => if eq then Some 0 else None
  | _ => kern maxe d
  end.
Definition fstep2 (eqf : nat -> bool) thr qlen (c : cand) (st : fstate) : fstate :=
  fstep_core (kern2 (s_maxe st) (eqf (c_idx c)) (c_d c)) thr qlen c st.
Fixpoint fscan2 (eqf : nat -> bool) (thr : nat -> nat -> nat -> nat) (qlen : nat) (cs : list cand) (st : fstate) : fstate :=
  match cs with
  | [] => st
  | c :: r => if c_cw c <? s_wordmin st then st else fscan2 eqf thr qlen r (fstep2 eqf thr qlen c st)
  end.
Definition find_closests2x (eqf : nat -> bool) thr qlen (cs : list cand) : fstate :=
  let cs' := firstn 1001 cs in
  fscan2 eqf thr qlen cs' (finit (match cs' with c :: _ => c_idx c | [] => 0 end)).

(** * Taxonomy as the code walks it (Path, LCA) — executable stand-in used for correspondence;
      the theorems take the LCA as a Section variable *)
Fixpoint assoc (t : nat) (tbl : list (nat * nat)) : option nat :=
  match tbl with
  | [] => None
  | (a, p) :: r => if a =? t then Some p else assoc t r
  end.
(** Path: taxon, parent, ..., root (root = its own parent); None = broken table / fuel *)
Fixpoint path_up (fuel : nat) (tbl : list (nat * nat)) (t : nat) : option (list nat) :=
  match fuel with
  | 0 => None
  | S f => match assoc t tbl with
           | None => None
           | Some p => if p =? t then Some [t]
                       else match path_up f tbl p with Some l => Some (t :: l) | None => None end
           end
  end.
Definition path_down tbl t : option (list nat) :=       (* root first *)
  match path_up (S (length tbl)) tbl t with Some l => Some (rev l) | None => None end.
(** last element of the common prefix of two root-first paths *)
Fixpoint last_common (r1 r2 : list nat) (acc : option nat) : option nat :=
  match r1, r2 with
  | a :: r1', b :: r2' => if a =? b then last_common r1' r2' (Some a) else acc
  | _, _ => acc
  end.
Definition lca_exec (tbl : list (nat * nat)) (a b : nat) : option nat :=
  match path_down tbl a, path_down tbl b with
  | Some p1, Some p2 => last_common p1 p2 None
  | _, _ => None
  end.

(** * IndexSequence *)
Record icand := mkicand { i_lca : nat; i_cw : nat; i_len : nat; i_d : nat }.

Definition upd_mini (mini : option nat) (d : nat) : option nat :=
  match kern mini d with
  | None => mini
  | Some e => match mini with None => Some e | Some m => if e <? m then Some e else Some m end
  end.

(** inner loop for one ancestor: candidates whose LCA with the sequence's taxon is [anc] *)
Fixpoint iscan (thr : nat -> nat -> nat -> nat) (slen anc : nat) (cs : list icand)
         (mini : option nat) (wm : nat) : option nat * nat :=
  match cs with
  | [] => (mini, wm)
  | c :: r =>
      if i_lca c =? anc then
        let wm' := match mini with None => wm | Some m => thr slen (i_len c) m end in
        if i_cw c <? wm' then (mini, wm') else iscan thr slen anc r (upd_mini mini (i_d c)) wm'
      else iscan thr slen anc r mini wm
  end.
Fixpoint mindiffs thr (slen : nat) (pseq : list nat) (cs : list icand) (mini : option nat) (wm : nat)
  : list (option nat) :=
  match pseq with
  | [] => []
  | a :: r => let mw := iscan thr slen a cs mini wm in fst mw :: mindiffs thr slen r cs (fst mw) (snd mw)
  end.
(** the table distance -> taxon; recorded root first, i.e. by strictly decreasing distance *)
Fixpoint build_index (old : nat) (pseq : list nat) (md : list (option nat)) : list (nat * nat) :=
  match pseq, md with
  | a :: pr, Some d :: mr => if d <? old then (d, a) :: build_index d pr mr else build_index old pr mr
  | a :: pr, None :: mr => build_index old pr mr
  | _, _ => []
  end.
Definition index_ref thr (slen : nat) (pseq : list nat) (cs : list icand) : list (nat * nat) :=
  build_index slen pseq (mindiffs thr slen pseq cs None 0).

(** * Identify: lookup "largest recorded distance <= observed" in the index of every best match,
      then the LCA of the answers *)
Fixpoint lookup (idx : list (nat * nat)) (d : nat) (acc : option (nat * nat)) : option (nat * nat) :=
  match idx with
  | [] => acc
  | (k, t) :: r =>
      if k <=? d
      then lookup r d (match acc with Some (k0, _) => if k0 <? k then Some (k, t) else acc | None => Some (k, t) end)
      else lookup r d acc
  end.
(** the loop of Identify, exactly: idx[d], idx[d-1], ..., idx[0] (first hit = largest recorded distance
    <= observed); when there is none ("horrible hack"): idx[-1], idx[0], ..., idx[1000] upwards (first hit =
    smallest recorded distance, if <= 1000); when that fails too the two loops alternate for ever: [None] *)
Fixpoint smallest (idx : list (nat * nat)) (acc : option (nat * nat)) : option (nat * nat) :=
  match idx with
  | [] => acc
  | (k, t) :: r => smallest r (match acc with Some (k0, _) => if k <? k0 then Some (k, t) else acc | None => Some (k, t) end)
  end.
Definition lookup_id (idx : list (nat * nat)) (d : nat) : option (nat * nat) :=
  match lookup idx d None with
  | Some e => Some e
  | None => match smallest idx None with
            | Some (k, t) => if k <=? 1000 then Some (k, t) else None
            | None => None
            end
  end.
Fixpoint fold_lca (lca : nat -> nat -> option nat) (ts : list nat) (acc : option nat) : option nat :=
  match ts with
  | [] => acc
  | t :: r => match acc with
              | None => fold_lca lca r (Some t)
              | Some a => match lca a t with Some x => fold_lca lca r (Some x) | None => None end
              end
  end.
Fixpoint all_some {A} (l : list (option A)) : option (list A) :=
  match l with
  | [] => Some []
  | Some x :: r => match all_some r with Some r' => Some (x :: r') | None => None end
  | None :: _ => None
  end.
(** [indices b] = index table of reference b; result None = the code panics / loops *)
Definition identify (lca : nat -> nat -> option nat) (indices : nat -> list (nat * nat)) (st : fstate) : option nat :=
  match s_maxe st with
  | None => Some 1
  | Some d =>
      if s_bali st <=? 2 * s_blcs st      (* identity >= 0.5 *)
      then match all_some (map (fun b => option_map snd (lookup_id (indices b) d)) (s_bests st)) with
           | Some ts => fold_lca lca ts None
           | None => None
           end
      else Some 1
  end.

(** * MatchDistanceIndex (obitag and obitag2; called by the geometric mode only): keys sorted, sort.Search for the
      first key >= distance, taxid 1 when there is none. [mdi_pick] scans the table for the smallest key >= e. *)
Fixpoint mdi_pick (idx : list (nat * nat)) (e : nat) (acc : option (nat * nat)) : option (nat * nat) :=
  match idx with
  | [] => acc
  | (k, t) :: r =>
      if e <=? k
      then mdi_pick r e (match acc with Some (k0, _) => if k <? k0 then Some (k, t) else acc | None => Some (k, t) end)
      else mdi_pick r e acc
  end.
Definition match_distance_index (idx : list (nat * nat)) (e : nat) : nat :=
  match mdi_pick idx e None with Some (_, t) => t | None => 1 end.
Definition max_key (idx : list (nat * nat)) : nat := fold_right (fun p m => Nat.max (fst p) m) 0 idx.
(** what the harness observes: the answers for the distances 0 .. largest key + 2 *)
Definition mdi_table (idx : list (nat * nat)) : list nat := map (match_distance_index idx) (seq 0 (max_key idx + 3)).

(** * Database loaders: references whose taxid the taxonomy does not know are discarded by an IN-PLACE compaction of
      parallel arrays. A reference is any value of type [A]; [cnt] = Count4Mer, [tax x] = taxo.Taxon(x.Taxid())
      ([None] = error). `for i, seq := range references`: element i is read from the backing array at iteration i,
      the writes `references[j] = ...` (j <= i) go to the same array. The taxon set is a Go map (int -> *TaxNode):
      association list, a key bound at most once; [Some None] = key bound to a nil taxon. *)
Fixpoint upd {A} (j : nat) (x : A) (l : list A) : list A :=
  match l with
  | [] => []
  | y :: r => match j with 0 => x :: r | S j' => y :: upd j' x r end
  end.
Definition mset {T} (k : nat) (v : T) (m : list (nat * T)) : list (nat * T) :=
  (k, v) :: filter (fun p => negb (fst p =? k)) m.
Fixpoint mget {T} (k : nat) (m : list (nat * T)) : option T :=
  match m with
  | [] => None
  | (k', v) :: r => if k' =? k then Some v else mget k r
  end.
Record ldb (A C T : Type) := mkldb { l_refs : list A; l_cnts : list (option C); l_taxa : list (nat * option T); l_j : nat }.
Arguments mkldb {A C T}. Arguments l_refs {A C T}. Arguments l_cnts {A C T}. Arguments l_taxa {A C T}. Arguments l_j {A C T}.
(** obitag.CLIAssignTaxonomy, repaired: references[j] = seq; refcounts[j] = Count4Mer(seq); taxon, err := Taxon(..);
    if err == nil { taxa[j] = taxon; j++ } *)
Definition tag_step {A C T} (cnt : A -> C) (tax : A -> option T) (d : A) (st : ldb A C T) (i : nat) : ldb A C T :=
  let x := nth i (l_refs st) d in
  let refs' := upd (l_j st) x (l_refs st) in
  let cnts' := upd (l_j st) (Some (cnt x)) (l_cnts st) in
  match tax x with
  | Some t => mkldb refs' cnts' (mset (l_j st) (Some t) (l_taxa st)) (S (l_j st))
  | None => mkldb refs' cnts' (l_taxa st) (l_j st)
  end.
(** ... as it was: taxa[j], err = Taxon(..) — the entry is written (nil) on error too *)
Definition tag_step_orig {A C T} (cnt : A -> C) (tax : A -> option T) (d : A) (st : ldb A C T) (i : nat) : ldb A C T :=
  let x := nth i (l_refs st) d in
  let refs' := upd (l_j st) x (l_refs st) in
  let cnts' := upd (l_j st) (Some (cnt x)) (l_cnts st) in
  mkldb refs' cnts' (mset (l_j st) (tax x) (l_taxa st)) (match tax x with Some _ => S (l_j st) | None => l_j st end).
(** obirefidx.IndexReferenceDB: taxon, err := Taxon(..); if err == nil { taxa[j] = taxon; references[j] = references[i]; j++ };
    the 4-mer tables are computed afterwards from references[0:j] *)
Definition refidx_step {A C T} (tax : A -> option T) (d : A) (st : ldb A C T) (i : nat) : ldb A C T :=
  let x := nth i (l_refs st) d in
  match tax x with
  | Some t => mkldb (upd (l_j st) x (l_refs st)) (l_cnts st) (mset (l_j st) (Some t) (l_taxa st)) (S (l_j st))
  | None => st
  end.
(** the loop over i = 0 .. n-1, then references = references[:j], refcounts = refcounts[:j] (the map is not cut) *)
Definition load_db {A C T} (step : ldb A C T -> nat -> ldb A C T) (refs : list A) : list A * list (option C) * list (nat * option T) :=
  let st := fold_left step (seq 0 (length refs)) (mkldb refs (repeat None (length refs)) [] 0) in
  (firstn (l_j st) (l_refs st), firstn (l_j st) (l_cnts st), l_taxa st).
Definition tag_load {A C T} (cnt : A -> C) (tax : A -> option T) (d : A) := load_db (tag_step cnt tax d).
Definition tag_load_orig {A C T} (cnt : A -> C) (tax : A -> option T) (d : A) := load_db (tag_step_orig cnt tax d).
Definition refidx_load {A C T} (cnt : A -> C) (tax : A -> option T) (d : A) (refs : list A) :=
  match load_db (C := C) (refidx_step tax d) refs with
  | (r, _, t) => (r, map (fun x => Some (cnt x)) r, t)
  end.
(** what IndexSequence needs of a loaded database: the keys of the taxon set are exactly 0 .. |references|-1 and none is nil
    (it ranges over the whole map and calls LCA on every entry: a nil entry is a panic) *)
Definition taxa_ok {T} (n : nat) (m : list (nat * option T)) : bool :=
  forallb (fun p => (fst p <? n) && match snd p with Some _ => true | None => false end) m &&
  forallb (fun k => match mget k m with Some (Some _) => true | _ => false end) (seq 0 n).

(** the worker chunks of IndexReferenceDB / IndexFamilyDB / MakeIndexingSliceWorker:
    `for i := 0; i < n; i += 10 { limits <- [2]int{i, min(i+10, n)} }` (fuel n is enough: ProofsR3.limits_cover) *)
Fixpoint chunk_limits (fuel i n : nat) : list (nat * nat) :=
  match fuel with
  | 0 => []
  | S f => if i <? n then (i, Nat.min (i + 10) n) :: chunk_limits f (i + 10) n else []
  end.
Definition limits (n : nat) : list (nat * nat) := chunk_limits n 0 n.
Definition chunk_indices (l : nat * nat) : list nat := seq (fst l) (snd l - fst l).

(** * Correspondence cases *)
Inductive fobs := FOk (idxs : list nat) (maxe : nat) (bmatch : nat) | FPanic.
Record ccase := mkc {
  k_q : list N; k_refs : list (list N); k_tax : list nat; k_parent : list (nat * nat);
  k_order : list nat;               (* candidate order the code computed (sort is not stable) *)
  k_qd : list (nat * nat);          (* (lcs, alilen) by the real unbounded kernel, per reference *)
  k_index : bool;
  k_rorder : list (list nat);       (* per reference: candidate order of IndexSequence *)
  k_rd : list (list nat);           (* distances between references (real kernel) *)
  o_cw : list nat; o_fc : fobs; o_fc2 : fobs;
  o_idx : list (list (nat * nat));  (* observed index tables, by decreasing distance *)
  o_taxid : nat;
  o_mdi : list (list nat); o_mdi2 : list (list nat)   (* MatchDistanceIndex of obitag / obitag2 on each observed index, distances 0 .. *)
  }.

Fixpoint list_eqb {A} (e : A -> A -> bool) (l1 l2 : list A) : bool :=
  match l1, l2 with
  | [], [] => true
  | a :: r1, b :: r2 => e a b && list_eqb e r1 r2
  | _, _ => false
  end.
Definition pair_eqb (p q : nat * nat) := (fst p =? fst q) && (snd p =? snd q).

(** the order must be a permutation of 0..n-1 sorted by decreasing shared count *)
Fixpoint sorted_desc (l : list nat) : bool :=
  match l with
  | a :: (b :: _) as r => (b <=? a) && sorted_desc r
  | _ => true
  end.
Definition valid_order (order : list nat) (cw : list nat) : bool :=
  (length order =? length cw) &&
  forallb (fun i => i <? length cw) order &&
  forallb (fun i => count_occ Nat.eq_dec order i =? 1) (seq 0 (length cw)) &&
  sorted_desc (map (fun i => nth i cw 0) order).

Definition fobs_of (st : fstate) : fobs :=
  match s_maxe st with Some m => FOk (s_bests st) m (s_bmatch st) | None => FPanic end.
(** observables of the property: the SET of best references and the distance (the order of the
    ties and obitag_bestmatch depend on the unstable sort; they are not compared) *)
Fixpoint insert_sorted (x : nat) (l : list nat) : list nat :=
  match l with
  | [] => [x]
  | y :: r => if x <=? y then x :: l else y :: insert_sorted x r
  end.
Definition isort (l : list nat) : list nat := fold_right insert_sorted [] l.
Definition fobs_eqb (a b : fobs) : bool :=
  match a, b with
  | FOk i1 m1 b1, FOk i2 m2 b2 => list_eqb Nat.eqb (isort i1) (isort i2) && (m1 =? m2)
  | FPanic, FPanic => true
  | _, _ => false
  end.

Definition cands_of_with (cm : list N -> list N -> nat)
    (q : list N) (refs : list (list N)) (qd : list (nat * nat)) (order : list nat) : list cand :=
  map (fun i => let r := nth i refs [] in
                mkcand i (cm q r) (length r) (fst (nth i qd (0, 0))) (snd (nth i qd (0, 0)))) order.
(** the candidates as the code sees them: shared counts from the wrapped cells *)
Definition cands_of := cands_of_with common4w.

Definition model_index thr (c : ccase) (tabs : list (list N)) (i : nat) : option (list (nat * nat)) :=
  let s := nth i (k_refs c) [] in
  let ti := nth i (k_tax c) 0 in
  match path_down (k_parent c) ti,
        all_some (map (fun j => lca_exec (k_parent c) ti (nth j (k_tax c) 0)) (seq 0 (length (k_refs c)))) with
  | Some pseq, Some lcas =>
      let cwi := map (fun t => commonw_tab (nth i tabs []) t) tabs in
      let order := nth i (k_rorder c) [] in
      if valid_order order cwi then
        Some (index_ref thr (length s) pseq
                (map (fun j => mkicand (nth j lcas 0) (nth j cwi 0) (length (nth j (k_refs c) []))
                                       (nth j (nth i (k_rd c) []) 0)) order))
      else None
  | _, _ => None
  end.

(** true iff the model reproduces every observable of the case *)
Definition case_ok (c : ccase) : bool :=
  let n := length (k_refs c) in
  let cw := map (fun r => common4w (k_q c) r) (k_refs c) in
  list_eqb Nat.eqb cw (o_cw c) &&
  list_eqb N.eqb (encode4mer (k_q c)) (kmers4 (k_q c)) &&
  valid_order (k_order c) cw &&
  let cs := cands_of (k_q c) (k_refs c) (k_qd c) (k_order c) in
  let st := find_closests thr_fixed (length (k_q c)) cs in
  fobs_eqb (fobs_of st) (o_fc c) &&
  fobs_eqb (fobs_of (find_closests2x (fun i => list_eqb N.eqb (k_q c) (nth i (k_refs c) [])) thr_fixed (length (k_q c)) cs)) (o_fc2 c) &&
  (if k_index c then
     match (let tabs := map table4 (k_refs c) in all_some (map (model_index thr_fixed c tabs) (seq 0 n))) with
     | Some idxs =>
         list_eqb (list_eqb pair_eqb) idxs (o_idx c) &&
         list_eqb (list_eqb Nat.eqb) (map mdi_table idxs) (o_mdi c) &&
         list_eqb (list_eqb Nat.eqb) (map mdi_table idxs) (o_mdi2 c) &&
         match identify (lca_exec (k_parent c)) (fun b => nth b idxs []) st with
         | Some t => t =? o_taxid c
         | None => false
         end
     | None => false
     end
   else true).

(** obitag2 (CLIAssignTaxonomy + Identify), exact match: the taxa of the references with the same bytes as the query, folded with
    LCA in database order. [xcase]: one query answered by the command obitag2 with method "exact match". *)
Definition exact_taxon (lca : nat -> nat -> option nat) (q : list N) (refs : list (list N)) (tax : list nat) : option nat :=
  fold_lca lca (map snd (filter (fun p => list_eqb N.eqb q (fst p)) (combine refs tax))) None.
Record xcase := mkx { x_q : list N; x_refs : list (list N); x_tax : list nat; x_parent : list (nat * nat); x_obs : nat }.
Definition xcase_ok (c : xcase) : bool :=
  match exact_taxon (lca_exec (x_parent c)) (x_q c) (x_refs c) (x_tax c) with
  | Some t => t =? x_obs c
  | None => false
  end.
Fixpoint xmismatches_from (i : nat) (l : list xcase) : list nat :=
  match l with
  | [] => []
  | c :: l' => let rest := xmismatches_from (S i) l' in if xcase_ok c then rest else i :: rest
  end.
Definition exact_mismatches := xmismatches_from 0.

(** the two loaders against the real command. References are numbered 0 .. n-1 in the order of the database file, [lc_known i]: the
    taxonomy knows the taxid of reference i. Observed: the references present in the output of obirefidx (as a set: the order of the
    output and the layout of the arrays are not observables of the property). Both model loaders must keep exactly those. *)
Record lcase := mkl { lc_known : list bool; lc_refidx : list nat }.
Definition lcase_ok (c : lcase) : bool :=
  let n := length (lc_known c) in
  let tax := fun i : nat => if nth i (lc_known c) false then Some i else None in
  match tag_load (fun x : nat => x) tax 0 (seq 0 n), refidx_load (fun x : nat => x) tax 0 (seq 0 n) with
  | (r1, _, t1), (r2, _, t2) =>
      list_eqb Nat.eqb r1 r2 && taxa_ok (length r1) t1 && taxa_ok (length r2) t2 &&
      list_eqb Nat.eqb (isort r2) (isort (lc_refidx c))
  end.
Fixpoint lmismatches_from (i : nat) (l : list lcase) : list nat :=
  match l with
  | [] => []
  | c :: l' => let rest := lmismatches_from (S i) l' in if lcase_ok c then rest else i :: rest
  end.
Definition loader_mismatches := lmismatches_from 0.

Fixpoint mismatches_from (i : nat) (l : list ccase) : list nat :=
  match l with
  | [] => []
  | c :: l' => let rest := mismatches_from (S i) l' in if case_ok c then rest else i :: rest
  end.
Definition mismatches := mismatches_from 0.
