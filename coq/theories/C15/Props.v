(** C15 — property theorems (statements only; every proof is [exact] of a lemma of Proofs.v).
    Assignment search is lossless: the 4-mer prefilters never change the answer.

    Guard [acgt_only] (hypothesis on the kernel only): with IUPAC ambiguity codes the LCS kernels
    count compatible symbols as matches while the 4-mer code maps every non-acgt symbol to 'a', so
    the kernel's distance is no longer a number of single-symbol edits and the bound does not apply;
    what the code does there is reported by the check as a labelled observation.

    Trusted (Section variables): the kernel (property C09) — hypothesis [kernel_edits]: the distance
    alilen - lcs it reports for two acgt sequences is witnessed by that many single-symbol edits; the
    callers' use of the bounded kernels is [Model.kern]. The taxonomy (property C14) — [anc]/[lca] with
    reflexivity, transitivity and the greatest-lower-bound law. *)
From Coq Require Import NArith List Bool Arith Sorted Permutation.
From OBI.C15 Require Import Model Proofs.
Import ListNotations.

(** ** the 4-mer model *)
Theorem C15_kmers4_length : forall s, length (kmers4 s) = length s - 3.
Proof. exact kmers4_length. Qed.

(** Encode4mer's rolling byte (shift by two bits, wrap at 8 bits, or the next base code) produces
    exactly the codes of the windows of four symbols *)
Theorem C15_encode4mer_is_windows : forall s, encode4mer s = kmers4 s.
Proof. exact encode4mer_kmers4. Qed.

(** q-gram bound [core]: d single-symbol edits (substitution, insertion, deletion) leave at least
    max(|s|,|t|) - 3 - 4d shared 4-mers (Common4Mer of the Count4Mer tables): one edit destroys at
    most four 4-mers. Proved for every byte sequence, in particular over {a,c,g,t} (symbols outside
    acgt are coded like 'a', which can only add shared 4-mers). *)
Theorem C15_qgram_bound : forall d s t, edits d s t ->
  Nat.max (length s) (length t) - 3 - 4 * d <= common4 s t.
Proof. exact qgram_bound. Qed.

(** what the kernel hypothesis of C15_search_lossless asks of FastLCSScore: an alignment with
    alilen columns of which lcs are matches (equal symbols) is a script of alilen - lcs edits *)
Theorem C15_alignment_is_edit_script : forall al,
  edits (length al - al_lcs al) (al_left al) (al_right al).
Proof. exact alignment_edits. Qed.

(** ** FindClosests *)
(** [core] over candidate lists: scanned by decreasing shared count, every candidate obeying the
    q-gram bound for the query length, the scan with its [break] (threshold |q| - 3 - 4*maxe)
    returns the minimal distance and exactly the candidates at that distance, all ties, in scan order *)
Theorem C15_search_lossless_cands : forall qlen cs, cs <> [] -> by_decreasing_cw cs -> qgram_ok qlen cs ->
  exists m, s_maxe (find_closests thr_fixed qlen cs) = Some m /\
            (forall c, In c cs -> m <= c_d c) /\ (exists c, In c cs /\ c_d c = m) /\
            s_bests (find_closests thr_fixed qlen cs) = map c_idx (filter (fun c => c_d c =? m) cs).
Proof. exact search_lossless. Qed.

(** [core] over sequences: for an acgt query and acgt references, any candidate order that is a
    permutation of the database sorted by decreasing shared 4-mers (sort.Sort is not stable: the
    order among equal counts is arbitrary), FindClosests returns (argmin set of the kernel
    distance, min distance) = the answer of comparing the query with every reference *)
Theorem C15_search_lossless :
  forall kernel : list N -> list N -> nat * nat,
  (forall q r, acgt_only q -> acgt_only r -> edits (kdist kernel q r) q r) ->
  forall q refs order,
    acgt_only q -> Forall acgt_only refs -> refs <> [] ->
    Permutation order (seq 0 (length refs)) ->
    by_decreasing_cw (cands_of q refs (map (kernel q) refs) order) ->
    let st := find_closests thr_fixed (length q) (cands_of q refs (map (kernel q) refs) order) in
    exists m, s_maxe st = Some m /\
      (forall i, i < length refs -> m <= kdist kernel q (nth i refs [])) /\
      (forall i, In i (s_bests st) <-> i < length refs /\ kdist kernel q (nth i refs []) = m) /\
      s_bests st <> [].
Proof. exact search_lossless_seq. Qed.

(** the order check that [Model.case_ok] executes on every correspondence case (the code's own
    order, read back through the harness) discharges the two hypotheses on the order *)
Theorem C15_valid_order_sound : forall q refs qd order,
  valid_order order (map (fun r => common4 q r) refs) = true ->
  Permutation order (seq 0 (length refs)) /\ by_decreasing_cw (cands_of q refs qd order).
Proof. exact valid_order_sound. Qed.

(** the repaired threshold is below the shared count of every reference at the distance used:
    pruning below it can only drop references that are strictly farther (both scans) *)
Theorem C15_threshold_sound :
  forall kernel : list N -> list N -> nat * nat,
  (forall q r, acgt_only q -> acgt_only r -> edits (kdist kernel q r) q r) ->
  forall q r, acgt_only q -> acgt_only r ->
    thr_fixed (length q) (length r) (kdist kernel q r) <= common4 q r.
Proof. exact threshold_sound. Qed.

(** the threshold of the unrepaired code (length of the current best reference) loses a tie:
    query tcccccga, references tccctcga (one substitution) and tcccccgag (one insertion, scanned
    first): only the second is returned. Fixed by commit "fix: obitag.FindClosests prunes …";
    the same witness fails on the unrepaired real code (corpus of tools/props/c15.py). *)
Theorem C15_search_orig_refuted :
  edits 1 wq wr0 /\ edits 1 wq wr1 /\ wq <> wr0 /\ wq <> wr1 /\
  by_decreasing_cw wcs /\ qgram_ok (length wq) wcs /\
  s_bests (find_closests thr_orig (length wq) wcs) = [1] /\
  s_bests (find_closests thr_fixed (length wq) wcs) = [1; 0].
Proof. exact search_orig_refuted. Qed.

(** obitag2.FindClosests leaves the scan after 1001 candidates. Full statement (no bound on the
    database size) is false of the code: C15_search2_cap_refuted, known finding
    C15/obitag2-1000-candidates. Proved: identical to FindClosests up to 1001 candidates. *)
Theorem C15_search2_lossless_upto_1001 : forall thr qlen cs, length cs <= 1001 ->
  find_closests2 thr qlen cs = find_closests thr qlen cs.
Proof. exact search2_upto_1001. Qed.
Theorem C15_search2_cap_refuted :
  by_decreasing_cw capcs /\ qgram_ok 15 capcs /\
  s_maxe (find_closests2 thr_fixed 15 capcs) = Some 4 /\
  s_maxe (find_closests thr_fixed 15 capcs) = Some 1.
Proof. exact search2_cap_refuted. Qed.

(** ** IndexSequence *)
(** over the model alone: every recorded pair (d, a) is below the sequence length, a lies on the
    path at a position before which no candidate within d has its LCA, and some candidate at
    distance exactly d has LCA a *)
Theorem C15_index_entries : forall slen pseq cs, iby_decreasing_cw cs -> iqgram_ok slen cs ->
  forall d a, In (d, a) (index_ref thr_fixed slen pseq cs) ->
  d < slen /\
  exists p1 p2, pseq = p1 ++ a :: p2 /\
    (forall c, In c cs -> i_d c <= d -> ~ In (i_lca c) p1) /\
    (exists c0, In c0 cs /\ i_lca c0 = a /\ i_d c0 = d).
Proof. exact index_ref_spec. Qed.

(** [core] with the LCA as a Section variable: each recorded distance d is mapped to the lowest
    common ancestor of the taxa of all references within d (the reference itself included). *)
Theorem C15_index_is_lca :
  forall (anc : nat -> nat -> Prop) (lca : nat -> nat -> nat),
  (forall a, anc a a) -> (forall a b c, anc a b -> anc b c -> anc a c) ->
  (forall x a b, anc x (lca a b) <-> anc x a /\ anc x b) ->
  forall slen tseq pseq rs,
    path_chain anc pseq -> (forall r, In r rs -> In (lca tseq (r_tax r)) pseq) ->
    (exists r, In r rs /\ r_tax r = tseq /\ r_d r = 0) ->
    iby_decreasing_cw (icands lca tseq rs) -> iqgram_ok slen (icands lca tseq rs) ->
    forall d a, In (d, a) (index_ref thr_fixed slen pseq (icands lca tseq rs)) ->
      d < slen /\ In a pseq /\ is_lca_of anc a (map r_tax (filter (fun r => r_d r <=? d) rs)).
Proof. exact index_is_lca. Qed.

(** [core] the lookup of Identify: for an observed distance e below the length of the reference
    (IndexSequence never records a distance >= |reference|: `old := lseq`), the entry with the largest
    recorded distance <= e is the lowest common ancestor of the taxa of all references within e *)
Theorem C15_index_lookup_is_lca :
  forall (anc : nat -> nat -> Prop) (lca : nat -> nat -> nat),
  (forall a, anc a a) -> (forall a b c, anc a b -> anc b c -> anc a c) ->
  (forall x a b, anc x (lca a b) <-> anc x a /\ anc x b) ->
  forall slen tseq pseq rs,
    path_chain anc pseq -> (forall r, In r rs -> In (lca tseq (r_tax r)) pseq) ->
    (exists r, In r rs /\ r_tax r = tseq /\ r_d r = 0) ->
    iby_decreasing_cw (icands lca tseq rs) -> iqgram_ok slen (icands lca tseq rs) ->
    forall e k a, e < slen ->
      lookup (index_ref thr_fixed slen pseq (icands lca tseq rs)) e None = Some (k, a) ->
      k <= e /\ In a pseq /\ is_lca_of anc a (map r_tax (filter (fun r => r_d r <=? e) rs)).
Proof. exact index_lookup_is_lca. Qed.

(** the break of the unrepaired IndexSequence (threshold from the current candidate's length):
    distance 0 mapped to taxon 4 although an identical sequence of taxon 2 exists (LCA = root 1) *)
Theorem C15_index_orig_refuted :
  iby_decreasing_cw wics /\ iqgram_ok 5 wics /\
  index_ref thr_orig 5 [1; 3; 4] wics = [(1, 1); (0, 4)] /\
  index_ref thr_fixed 5 [1; 3; 4] wics = [(0, 1)].
Proof. exact index_orig_refuted. Qed.

(** ** Identify *)
(** the taxon written by Identify is an ancestor-or-self of the taxon of every best match, as soon
    as the index entries of a best match are ancestors-or-self of its taxon (C15_index_is_lca: they
    lie on its path); together with C15_search_lossless the best matches are all the references at
    minimal distance *)
Theorem C15_assigned_is_ancestor :
  forall (anc : nat -> nat -> Prop) (lca : nat -> nat -> nat),
  (forall a, anc a a) -> (forall a b c, anc a b -> anc b c -> anc a c) ->
  (forall x a b, anc x (lca a b) <-> anc x a /\ anc x b) ->
  forall (indices : nat -> list (nat * nat)) (tax : nat -> nat) st t,
    (forall x, anc 1 x) ->
    (forall b, In b (s_bests st) -> forall d a, In (d, a) (indices b) -> anc a (tax b)) ->
    identify (fun a b => Some (lca a b)) indices st = Some t ->
    forall b, In b (s_bests st) -> anc t (tax b).
Proof. exact assigned_is_ancestor. Qed.

(** [core] end to end ("consequently …"): the taxon assigned to an acgt query is an ancestor-or-self
    of the taxon of EVERY reference at minimal kernel distance, for any index tables whose entries are
    ancestors-or-self of their reference's taxon (C15_index_is_lca: entries lie on its path) *)
Theorem C15_assignment_sound :
  forall kernel : list N -> list N -> nat * nat,
  (forall q r, acgt_only q -> acgt_only r -> edits (kdist kernel q r) q r) ->
  forall (anc : nat -> nat -> Prop) (lca : nat -> nat -> nat),
  (forall a, anc a a) -> (forall a b c, anc a b -> anc b c -> anc a c) ->
  (forall x a b, anc x (lca a b) <-> anc x a /\ anc x b) -> (forall x, anc 1 x) ->
  forall q refs order (tax : nat -> nat) (indices : nat -> list (nat * nat)) t,
    acgt_only q -> Forall acgt_only refs -> refs <> [] ->
    Permutation order (seq 0 (length refs)) ->
    by_decreasing_cw (cands_of q refs (map (kernel q) refs) order) ->
    (forall b, b < length refs -> forall d a, In (d, a) (indices b) -> anc a (tax b)) ->
    identify (fun a b => Some (lca a b)) indices
             (find_closests thr_fixed (length q) (cands_of q refs (map (kernel q) refs) order)) = Some t ->
    forall i, i < length refs ->
      (forall j, j < length refs -> kdist kernel q (nth i refs []) <= kdist kernel q (nth j refs [])) ->
      anc t (tax i).
Proof. exact assignment_sound. Qed.

(** ** non-vacuity: the hypotheses are satisfiable *)
Example C15_search_nonvacuous : wcs <> [] /\ by_decreasing_cw wcs /\ qgram_ok (length wq) wcs.
Proof. split; [discriminate|]. destruct search_orig_refuted as [_ [_ [_ [_ [S [Q _]]]]]]. now split. Qed.
Example C15_kernel_hypothesis_nonvacuous : exists kernel : list N -> list N -> nat * nat,
  forall q r, acgt_only q -> acgt_only r -> edits (kdist kernel q r) q r.
Proof. exact kernel_hyp_satisfiable. Qed.
Example C15_taxonomy_hypotheses_nonvacuous :
  let anc := fun a b : nat => a = 1 \/ a = b in
  let lca := fun a b : nat => if a =? b then a else 1 in
  (forall a, anc a a) /\ (forall a b c, anc a b -> anc b c -> anc a c) /\
  (forall x a b, anc x (lca a b) <-> anc x a /\ anc x b) /\ (forall x, anc 1 x).
Proof. exact star_tree_ok. Qed.
Example C15_index_nonvacuous : iby_decreasing_cw wics /\ iqgram_ok 5 wics /\
  In (0, 1) (index_ref thr_fixed 5 [1; 3; 4] wics).
Proof. destruct index_orig_refuted as [S [Q [_ E]]]. split; [exact S|]. split; [exact Q|]. rewrite E. now left. Qed.

Print Assumptions C15_kmers4_length.
Print Assumptions C15_encode4mer_is_windows.
Print Assumptions C15_qgram_bound.
Print Assumptions C15_alignment_is_edit_script.
Print Assumptions C15_search_lossless_cands.
Print Assumptions C15_search_lossless.
Print Assumptions C15_valid_order_sound.
Print Assumptions C15_threshold_sound.
Print Assumptions C15_search_orig_refuted.
Print Assumptions C15_search2_lossless_upto_1001.
Print Assumptions C15_search2_cap_refuted.
Print Assumptions C15_index_entries.
Print Assumptions C15_index_is_lca.
Print Assumptions C15_index_lookup_is_lca.
Print Assumptions C15_index_orig_refuted.
Print Assumptions C15_assigned_is_ancestor.
Print Assumptions C15_assignment_sound.
