(** C15 — property theorems (statements only; every proof is [exact] of a lemma of Proofs.v).
    Assignment search is lossless: the 4-mer prefilters never change the answer.

    Guard [acgt_only] (hypothesis on the kernel only): with IUPAC ambiguity codes the LCS kernels
    count compatible symbols as matches while the 4-mer code maps every non-acgt symbol to 'a', so
    the kernel's distance is no longer a number of single-symbol edits and the bound does not apply;
    what the code does there is reported by the check as a labelled observation.

    Guard [cells_exact] (round 2): the cells of a Table4mer are uint16 (width REGENERATED from the build into
    Gen/Tables.v); the model computes the shared counts from the WRAPPED cells ([common4w]); the search theorems
    hold when no 4-mer occurs 2^16 times or more in any sequence, and fail beyond (C15_qgram_wrapped_refuted,
    C15_search_wrapped_refuted; known finding C15/search-4mer-count-wrap).

    Trusted (Section variables): the kernel (property C09) — hypothesis [kernel_edits]: the distance
    alilen - lcs it reports for two acgt sequences is witnessed by that many single-symbol edits; the
    callers' use of the bounded kernels is [Model.kern]. The taxonomy (property C14) — [anc]/[lca] with
    reflexivity, transitivity and the greatest-lower-bound law. *)
From Coq Require Import NArith List Bool Arith Sorted Permutation.
From OBI.C15.Gen Require Import Tables.
From OBI.C15 Require Import Model Proofs ProofsR3.
Import ListNotations.

(** ** the 4-mer model *)
Theorem C15_kmers4_length : forall s, length (kmers4 s) = length s - 3.
Proof. exact kmers4_length. Qed.

(** Encode4mer's rolling byte (shift by two bits, wrap at 8 bits, or the next base code) produces
    exactly the codes of the windows of four symbols *)
Theorem C15_encode4mer_is_windows : forall s, encode4mer s = kmers4 s.
Proof. exact encode4mer_kmers4. Qed.

(** the base-code table of Encode4mer is regenerated from the build on every run (Gen/Tables.v); re-proved
    from it: 32 entries (indexed by byte & 31), a c g t u -> 0 1 2 3 3 in both cases, every code <= 3, and a
    symbol with a non-zero code is one of c g t u (any other symbol is coded like a) *)
Theorem C15_base_code_table :
  length base_code_tab = 32 /\
  map base_code [97; 99; 103; 116; 117; 65; 67; 71; 84; 85]%N = [0; 1; 2; 3; 3; 0; 1; 2; 3; 3]%N /\
  (forall b, (base_code b <= 3)%N) /\
  (forall b, base_code b <> 0%N -> In (N.land b 31) [3; 7; 20; 21]%N).
Proof. exact base_code_table. Qed.

(** the cells of Table4mer: 256 counters of 16 bits (regenerated); under the guard "no 4-mer occurs 2^16
    times or more" the wrapped cells are the exact counts and Common4Mer is the multiset intersection *)
Theorem C15_cells_are_uint16 : cell_modulus = 65536%N /\ table_cells = 256%N.
Proof. exact (conj cell_modulus_val table_cells_val). Qed.
(** the correspondence computes one table per sequence ([table4]) and intersects tables: same numbers *)
Theorem C15_table_shared_count : forall s t, commonw_tab (table4 s) (table4 t) = common4w s t.
Proof. exact table_common4w. Qed.
Theorem C15_wrapped_count_exact : forall s t, cells_exact s -> cells_exact t -> common4w s t = common4 s t.
Proof. exact common4w_exact. Qed.
Theorem C15_short_sequences_exact : forall s, (N.of_nat (length s) < 65539)%N -> cells_exact s.
Proof. exact short_cells_exact. Qed.

(** q-gram bound [core]: d single-symbol edits (substitution, insertion, deletion) leave at least
    max(|s|,|t|) - 3 - 4d shared 4-mers (Common4Mer of the Count4Mer tables): one edit destroys at
    most four 4-mers. Proved for every byte sequence, in particular over {a,c,g,t} (symbols outside
    acgt are coded like 'a', which can only add shared 4-mers). *)
Theorem C15_qgram_bound : forall d s t, edits d s t ->
  Nat.max (length s) (length t) - 3 - 4 * d <= common4 s t.
Proof. exact qgram_bound. Qed.

(** [core, round 2] the bound holds for the counts the code computes (wrapped uint16 cells) whenever the guard
    holds ... *)
Theorem C15_qgram_bound_wrapped : forall d s t, edits d s t -> cells_exact s -> cells_exact t ->
  Nat.max (length s) (length t) - 3 - 4 * d <= common4w s t.
Proof. exact qgram_bound_wrapped. Qed.
(** ... and fails beyond it: 65538 a / 65539 a are one insertion apart and share NO 4-mer by the wrapped cells
    (the same two sequences give Common4Mer = 0 on the real code: corpus case of tools/props/c15.py) *)
Theorem C15_qgram_wrapped_refuted :
  edits 1 hq hr /\ cells_exact hq /\ ~ cells_exact hr /\ common4w hq hr = 0 /\
  ~ (Nat.max (length hq) (length hr) - 3 - 4 * 1 <= common4w hq hr).
Proof. exact qgram_wrapped_refuted. Qed.

(** what the kernel hypothesis of C15_search_lossless asks of FastLCSScore: an alignment with
    alilen columns of which lcs are matches (equal symbols) is a script of alilen - lcs edits *)
Theorem C15_alignment_is_edit_script : forall al,
  edits (length al - al_lcs al) (al_left al) (al_right al).
Proof. exact alignment_edits. Qed.

(** ** FindClosests *)
(** [core] over candidate lists: scanned by decreasing shared count, every candidate obeying the
    q-gram bound for the query length, the scan with its [break] (threshold |q| - 3 - 4*maxe)
    returns the minimal distance and exactly the candidates at that distance, all ties, in scan order *)
Theorem C15_search_lossless_cands : forall qlen cs, cs <> [] -> by_decreasing_cw cs -> qgram_ok qlen cs ->
  exists m, s_maxe (find_closests thr_fixed qlen cs) = Some m /\
            (forall c, In c cs -> m <= c_d c) /\ (exists c, In c cs /\ c_d c = m) /\
            s_bests (find_closests thr_fixed qlen cs) = map c_idx (filter (fun c => c_d c =? m) cs).
Proof. exact search_lossless. Qed.

(** [core] over sequences: for an acgt query and acgt references, any candidate order that is a
    permutation of the database sorted by decreasing shared 4-mers (sort.Sort is not stable: the
    order among equal counts is arbitrary), FindClosests returns (argmin set of the kernel
    distance, min distance) = the answer of comparing the query with every reference. [cands_of] carries the
    shared counts of the WRAPPED uint16 cells; guard: no 4-mer occurs 2^16 times or more in any sequence. *)
Theorem C15_search_lossless :
  forall kernel : list N -> list N -> nat * nat,
  (forall q r, acgt_only q -> acgt_only r -> edits (kdist kernel q r) q r) ->
  forall q refs order,
    acgt_only q -> Forall acgt_only refs -> refs <> [] ->
    cells_exact q -> Forall cells_exact refs ->
    Permutation order (seq 0 (length refs)) ->
    by_decreasing_cw (cands_of q refs (map (kernel q) refs) order) ->
    let st := find_closests thr_fixed (length q) (cands_of q refs (map (kernel q) refs) order) in
    exists m, s_maxe st = Some m /\
      (forall i, i < length refs -> m <= kdist kernel q (nth i refs [])) /\
      (forall i, In i (s_bests st) <-> i < length refs /\ kdist kernel q (nth i refs []) = m) /\
      s_bests st <> [].
Proof. exact search_lossless_seq. Qed.

(** the order check that [Model.case_ok] executes on every correspondence case (the code's own
    order, read back through the harness) discharges the two hypotheses on the order *)
Theorem C15_valid_order_sound : forall q refs qd order,
  valid_order order (map (fun r => common4w q r) refs) = true ->
  Permutation order (seq 0 (length refs)) /\ by_decreasing_cw (cands_of q refs qd order).
Proof. exact (valid_order_sound common4w). Qed.

(** the repaired threshold is below the shared count of every reference at the distance used:
    pruning below it can only drop references that are strictly farther (both scans) *)
Theorem C15_threshold_sound :
  forall kernel : list N -> list N -> nat * nat,
  (forall q r, acgt_only q -> acgt_only r -> edits (kdist kernel q r) q r) ->
  forall q r, acgt_only q -> acgt_only r -> cells_exact q -> cells_exact r ->
    thr_fixed (length q) (length r) (kdist kernel q r) <= common4w q r.
Proof. exact threshold_sound_w. Qed.

(** beyond the guard the scan loses the closest reference: query 65538 a; references 65539 a (distance 1, wrapped
    shared count 0) and c a^65536 c (distance 2, shared count 65533, scanned first): answer = the second one at
    distance 2, for ANY kernel reporting these two distances *)
Theorem C15_search_wrapped_refuted : forall kernel : list N -> list N -> nat * nat,
  kdist kernel hq hr = 1 -> kdist kernel hq hr2 = 2 ->
  let cs := cands_of hq [hr; hr2] (map (kernel hq) [hr; hr2]) [1; 0] in
  by_decreasing_cw cs /\
  s_maxe (find_closests thr_fixed (length hq) cs) = Some 2 /\ s_bests (find_closests thr_fixed (length hq) cs) = [1].
Proof. exact search_wrapped_refuted. Qed.

(** whatever the threshold, the counts (wrapped or not), the symbols (IUPAC or not) and the cap: the answer of
    the scan is the EXACT answer (minimal distance, all ties) over a non-empty prefix of the candidate order;
    the reported distance is never below the true minimum and only candidates after the break can be lost *)
Theorem C15_search_prefix_exact : forall thr qlen cs, cs <> [] ->
  exists pre post, cs = pre ++ post /\ pre <> [] /\
    s_maxe (find_closests thr qlen cs) = minl pre /\ s_bests (find_closests thr qlen cs) = best_set pre.
Proof. exact search_prefix_exact. Qed.

(** the threshold of the unrepaired code (length of the current best reference) loses a tie:
    query tcccccga, references tccctcga (one substitution) and tcccccgag (one insertion, scanned
    first): only the second is returned. Fixed by commit "fix: obitag.FindClosests prunes …";
    the same witness fails on the unrepaired real code (corpus of tools/props/c15.py). *)
Theorem C15_search_orig_refuted :
  edits 1 wq wr0 /\ edits 1 wq wr1 /\ wq <> wr0 /\ wq <> wr1 /\
  by_decreasing_cw wcs /\ qgram_ok (length wq) wcs /\
  s_bests (find_closests thr_orig (length wq) wcs) = [1] /\
  s_bests (find_closests thr_fixed (length wq) wcs) = [1; 0].
Proof. exact search_orig_refuted. Qed.

(** obitag2.FindClosests leaves the scan after 1001 candidates. Full statement (no bound on the
    database size) is false of the code: C15_search2_cap_refuted, known finding
    C15/obitag2-1000-candidates. Proved: identical to FindClosests up to 1001 candidates. *)
Theorem C15_search2_lossless_upto_1001 : forall thr qlen cs, length cs <= 1001 ->
  find_closests2 thr qlen cs = find_closests thr qlen cs.
Proof. exact search2_upto_1001. Qed.
(** [round 2] sharp statement, no bound on the database: the scan of obitag2 (candidates of rank 0..1000 in the
    order of decreasing shared 4-mers) returns the minimal distance m and exactly the candidates at distance m
    IF AND ONLY IF no candidate at distance m has rank > 1000 *)
Theorem C15_search2_lossless_iff_no_closest_beyond_rank_1000 :
  forall qlen cs, cs <> [] -> by_decreasing_cw cs -> qgram_ok qlen cs ->
  forall m, (forall c, In c cs -> m <= c_d c) -> (exists c, In c cs /\ c_d c = m) ->
  (s_maxe (find_closests2 thr_fixed qlen cs) = Some m /\
   s_bests (find_closests2 thr_fixed qlen cs) = map c_idx (filter (fun c => c_d c =? m) cs))
  <-> (forall c, In c (skipn 1001 cs) -> c_d c <> m).
Proof. exact search2_sharp. Qed.
(** [round 2] the EXACT model of obitag2.FindClosests ([find_closests2x]: cap at rank 1000 and, when the best distance
    is 0, byte equality instead of D1Or0) is the capped scan above as soon as byte equality agrees with kernel
    distance 0 (acgt sequences) — and the sharp statement for it *)
Theorem C15_search2_exact_model : forall eqf thr qlen cs, (forall c, In c cs -> eqf (c_idx c) = (c_d c =? 0)) ->
  find_closests2x eqf thr qlen cs = find_closests2 thr qlen cs.
Proof. exact find_closests2x_eq. Qed.
Theorem C15_search2_exact_lossless_iff_no_closest_beyond_rank_1000 :
  forall eqf qlen cs, (forall c, In c cs -> eqf (c_idx c) = (c_d c =? 0)) ->
  cs <> [] -> by_decreasing_cw cs -> qgram_ok qlen cs ->
  forall m, (forall c, In c cs -> m <= c_d c) -> (exists c, In c cs /\ c_d c = m) ->
  (s_maxe (find_closests2x eqf thr_fixed qlen cs) = Some m /\
   s_bests (find_closests2x eqf thr_fixed qlen cs) = map c_idx (filter (fun c => c_d c =? m) cs))
  <-> (forall c, In c (skipn 1001 cs) -> c_d c <> m).
Proof. exact search2x_sharp. Qed.
(** when byte equality is stricter than the kernel (IUPAC: acgn / acga at kernel distance 0) obitag2 keeps fewer ties
    than a scan that asks the kernel (model-level: on today's code D1Or0 compares bytes too, such pairs are kernel
    inconsistencies set aside by the harness, property C09) *)
Theorem C15_search2_byte_equality_fewer_ties :
  s_bests (find_closests thr_fixed 4 w2cs) = [1; 0] /\
  s_bests (find_closests2x (fun i => i =? 1) thr_fixed 4 w2cs) = [1].
Proof. exact search2x_iupac_fewer_ties. Qed.
Theorem C15_search2_cap_refuted :
  by_decreasing_cw capcs /\ qgram_ok 15 capcs /\
  s_maxe (find_closests2 thr_fixed 15 capcs) = Some 4 /\
  s_maxe (find_closests thr_fixed 15 capcs) = Some 1.
Proof. exact search2_cap_refuted. Qed.

(** ** IndexSequence *)
(** over the model alone: every recorded pair (d, a) is below the sequence length, a lies on the
    path at a position before which no candidate within d has its LCA, and some candidate at
    distance exactly d has LCA a *)
Theorem C15_index_entries : forall slen pseq cs, iby_decreasing_cw cs -> iqgram_ok slen cs ->
  forall d a, In (d, a) (index_ref thr_fixed slen pseq cs) ->
  d < slen /\
  exists p1 p2, pseq = p1 ++ a :: p2 /\
    (forall c, In c cs -> i_d c <= d -> ~ In (i_lca c) p1) /\
    (exists c0, In c0 cs /\ i_lca c0 = a /\ i_d c0 = d).
Proof. exact index_ref_spec. Qed.

(** [core] with the LCA as a Section variable: each recorded distance d is mapped to the lowest
    common ancestor of the taxa of all references within d (the reference itself included). *)
Theorem C15_index_is_lca :
  forall (anc : nat -> nat -> Prop) (lca : nat -> nat -> nat),
  (forall a, anc a a) -> (forall a b c, anc a b -> anc b c -> anc a c) ->
  (forall x a b, anc x (lca a b) <-> anc x a /\ anc x b) ->
  forall slen tseq pseq rs,
    path_chain anc pseq -> (forall r, In r rs -> In (lca tseq (r_tax r)) pseq) ->
    (exists r, In r rs /\ r_tax r = tseq /\ r_d r = 0) ->
    iby_decreasing_cw (icands lca tseq rs) -> iqgram_ok slen (icands lca tseq rs) ->
    forall d a, In (d, a) (index_ref thr_fixed slen pseq (icands lca tseq rs)) ->
      d < slen /\ In a pseq /\ is_lca_of anc a (map r_tax (filter (fun r => r_d r <=? d) rs)).
Proof. exact index_is_lca. Qed.

(** [core] the lookup of Identify: for an observed distance e below the length of the reference
    (IndexSequence never records a distance >= |reference|: `old := lseq`), the entry with the largest
    recorded distance <= e is the lowest common ancestor of the taxa of all references within e *)
Theorem C15_index_lookup_is_lca :
  forall (anc : nat -> nat -> Prop) (lca : nat -> nat -> nat),
  (forall a, anc a a) -> (forall a b c, anc a b -> anc b c -> anc a c) ->
  (forall x a b, anc x (lca a b) <-> anc x a /\ anc x b) ->
  forall slen tseq pseq rs,
    path_chain anc pseq -> (forall r, In r rs -> In (lca tseq (r_tax r)) pseq) ->
    (exists r, In r rs /\ r_tax r = tseq /\ r_d r = 0) ->
    iby_decreasing_cw (icands lca tseq rs) -> iqgram_ok slen (icands lca tseq rs) ->
    forall e k a, e < slen ->
      lookup (index_ref thr_fixed slen pseq (icands lca tseq rs)) e None = Some (k, a) ->
      k <= e /\ In a pseq /\ is_lca_of anc a (map r_tax (filter (fun r => r_d r <=? e) rs)).
Proof. exact index_lookup_is_lca. Qed.

(** [round 2] IndexSequence always records distance 0 (the reference itself is never pruned: it shares |s|-3
    4-mers with itself), so the first loop of Identify always finds an entry: the "horrible hack" branch (no
    entry <= observed distance) is dead code under the guards, and neither loop can spin *)
Theorem C15_index_has_distance_0 : forall slen pseq cs, iby_decreasing_cw cs -> iqgram_ok slen cs -> 0 < slen ->
  (exists c, In c cs /\ i_d c = 0 /\ In (i_lca c) pseq) ->
  exists a, In (0, a) (index_ref thr_fixed slen pseq cs).
Proof. exact index_ref_zero. Qed.
Theorem C15_identify_lookup_total : forall idx e, (exists a, In (0, a) idx) ->
  lookup_id idx e = lookup idx e None /\ exists y, lookup_id idx e = Some y.
Proof. exact lookup_id_zero. Qed.

(** [core, round 2] the lookup of Identify for EVERY observed distance e (no restriction e < |reference|):
    it returns the lowest common ancestor of the taxa of all references within min(e, |reference| - 1).
    IndexSequence records no distance >= |reference| (`old := lseq`): beyond it the answer is the one for
    |reference| - 1 — always on the path of the reference, hence an ancestor-or-self of its taxon *)
Theorem C15_index_lookup_all_distances :
  forall (anc : nat -> nat -> Prop) (lca : nat -> nat -> nat),
  (forall a, anc a a) -> (forall a b c, anc a b -> anc b c -> anc a c) ->
  (forall x a b, anc x (lca a b) <-> anc x a /\ anc x b) ->
  forall slen tseq pseq rs,
    path_chain anc pseq -> (forall r, In r rs -> In (lca tseq (r_tax r)) pseq) ->
    (exists r, In r rs /\ r_tax r = tseq /\ r_d r = 0) ->
    iby_decreasing_cw (icands lca tseq rs) -> iqgram_ok slen (icands lca tseq rs) -> 0 < slen ->
    forall e, exists k a,
      lookup_id (index_ref thr_fixed slen pseq (icands lca tseq rs)) e = Some (k, a) /\
      k <= e /\ k < slen /\ In a pseq /\
      is_lca_of anc a (map r_tax (filter (fun r => r_d r <=? Nat.min e (slen - 1)) rs)).
Proof. exact index_lookup_all_distances. Qed.
(** labelled observation, exactly: gccg (taxon 4, path 1-3-4) in {gccg:4, gctcg:3, gccggaca:2, gccggagtt:2}: index
    {1 -> 3, 0 -> 4}; at observed distance 4 = |gccg| the answer is 3 although gccggaca (LCA with gccg = root)
    is within 4. The answer is less general than the LCA of all references within 4, but still an ancestor of
    the best match: neither clause of the property is violated (same case on the real code: corpus) *)
Theorem C15_lookup_beyond_length_witness :
  iby_decreasing_cw wbcs /\ iqgram_ok 4 wbcs /\
  index_ref thr_fixed 4 [1; 3; 4] wbcs = [(1, 3); (0, 4)] /\
  lookup_id (index_ref thr_fixed 4 [1; 3; 4] wbcs) 4 = Some (1, 3) /\
  (exists c, In c wbcs /\ i_d c <= 4 /\ i_lca c = 1).
Proof. exact lookup_beyond_length_witness. Qed.

(** how narrow the observation is: Identify assigns only when alilen <= 2 lcs (identity >= 0.5); the observed distance
    alilen - lcs can then reach the length of the best match (lcs <= that length) only when identity is exactly 0.5
    and every symbol of the reference is matched (the query is twice as long and contains it as a subsequence) *)
Theorem C15_lookup_beyond_length_only_at_identity_half : forall lcs ali blen,
  lcs <= blen -> blen <= ali - lcs -> ali <= 2 * lcs -> ali = 2 * lcs /\ lcs = blen /\ ali - lcs = blen.
Proof. exact beyond_length_only_at_half. Qed.

(** the break of the unrepaired IndexSequence (threshold from the current candidate's length):
    distance 0 mapped to taxon 4 although an identical sequence of taxon 2 exists (LCA = root 1) *)
Theorem C15_index_orig_refuted :
  iby_decreasing_cw wics /\ iqgram_ok 5 wics /\
  index_ref thr_orig 5 [1; 3; 4] wics = [(1, 1); (0, 4)] /\
  index_ref thr_fixed 5 [1; 3; 4] wics = [(0, 1)].
Proof. exact index_orig_refuted. Qed.

(** ** Identify *)
(** the taxon written by Identify is an ancestor-or-self of the taxon of every best match, as soon
    as the index entries of a best match are ancestors-or-self of its taxon (C15_index_is_lca: they
    lie on its path); together with C15_search_lossless the best matches are all the references at
    minimal distance *)
Theorem C15_assigned_is_ancestor :
  forall (anc : nat -> nat -> Prop) (lca : nat -> nat -> nat),
  (forall a, anc a a) -> (forall a b c, anc a b -> anc b c -> anc a c) ->
  (forall x a b, anc x (lca a b) <-> anc x a /\ anc x b) ->
  forall (indices : nat -> list (nat * nat)) (tax : nat -> nat) st t,
    (forall x, anc 1 x) ->
    (forall b, In b (s_bests st) -> forall d a, In (d, a) (indices b) -> anc a (tax b)) ->
    identify (fun a b => Some (lca a b)) indices st = Some t ->
    forall b, In b (s_bests st) -> anc t (tax b).
Proof. exact assigned_is_ancestor. Qed.

(** [round 2] Identify returns a taxon (no spinning loop, no nil taxon) as soon as there is a best match and every
    best match has an index with an entry for distance 0 (C15_index_has_distance_0) *)
Theorem C15_identify_total : forall (lca : nat -> nat -> nat) (indices : nat -> list (nat * nat)) st,
  s_bests st <> [] -> (forall b, In b (s_bests st) -> exists a, In (0, a) (indices b)) ->
  exists t, identify (fun a b => Some (lca a b)) indices st = Some t.
Proof. exact identify_total. Qed.

(** [core] end to end ("consequently …"): the taxon assigned to an acgt query is an ancestor-or-self
    of the taxon of EVERY reference at minimal kernel distance, for any index tables whose entries are
    ancestors-or-self of their reference's taxon (C15_index_is_lca: entries lie on its path) *)
Theorem C15_assignment_sound :
  forall kernel : list N -> list N -> nat * nat,
  (forall q r, acgt_only q -> acgt_only r -> edits (kdist kernel q r) q r) ->
  forall (anc : nat -> nat -> Prop) (lca : nat -> nat -> nat),
  (forall a, anc a a) -> (forall a b c, anc a b -> anc b c -> anc a c) ->
  (forall x a b, anc x (lca a b) <-> anc x a /\ anc x b) -> (forall x, anc 1 x) ->
  forall q refs order (tax : nat -> nat) (indices : nat -> list (nat * nat)) t,
    acgt_only q -> Forall acgt_only refs -> refs <> [] ->
    cells_exact q -> Forall cells_exact refs ->
    Permutation order (seq 0 (length refs)) ->
    by_decreasing_cw (cands_of q refs (map (kernel q) refs) order) ->
    (forall b, b < length refs -> forall d a, In (d, a) (indices b) -> anc a (tax b)) ->
    identify (fun a b => Some (lca a b)) indices
             (find_closests thr_fixed (length q) (cands_of q refs (map (kernel q) refs) order)) = Some t ->
    forall i, i < length refs ->
      (forall j, j < length refs -> kdist kernel q (nth i refs []) <= kdist kernel q (nth j refs [])) ->
      anc t (tax i).
Proof. exact assignment_sound. Qed.

(** ** outside the guard acgt_only (labelled observation, characterised) *)
(** the kernel counts a column of two different but compatible IUPAC symbols as a match ([compat]: any relation);
    the 4-mer code does not. With amb = number of such columns in the kernel's alignment, the bound holds with
    kernel distance + amb in place of the distance: only the completeness direction can fail (a closest reference
    with ambiguous columns can be pruned: C15_iupac_refuted); by C15_search_prefix_exact every reported best is at
    the reported distance and that distance is never below the true minimum *)
Theorem C15_iupac_bound : forall compat al,
  Nat.max (length (al_left al)) (length (al_right al)) - 3 - 4 * ((length al - al_klcs compat al) + al_amb compat al)
  <= common4 (al_left al) (al_right al).
Proof. exact iupac_bound. Qed.
Theorem C15_iupac_refuted : let compat := fun a b : N => (a =? 110)%N || (b =? 110)%N || (a =? b)%N in
  length wamb - al_klcs compat wamb = 0 /\ al_amb compat wamb = 1 /\
  common4 (al_left wamb) (al_right wamb) = 2 /\
  ~ (Nat.max (length (al_left wamb)) (length (al_right wamb)) - 3 - 4 * (length wamb - al_klcs compat wamb)
     <= common4 (al_left wamb) (al_right wamb)).
Proof. exact iupac_refuted. Qed.

(** ** [round 3] database loaders and MatchDistanceIndex *)
(** obitag.CLIAssignTaxonomy (repaired): the loop `references[j] = seq; refcounts[j] = Count4Mer(seq); if the taxid is known
    { taxa[j] = taxon; j++ }` over the array it is compacting, followed by the cut at j, leaves EXACTLY the references of known
    taxid in their order, each with ITS 4-mer table, and a taxon set whose keys are 0 .. |kept|-1 bound to the taxon of the
    reference of the same rank, no nil entry ([taxa_ok]: what IndexSequence needs: it ranges over the whole map). Any type of
    reference, any table function, any taxonomy lookup. *)
Theorem C15_loader_obitag_compacts : forall (A C T : Type) (cnt : A -> C) (tax : A -> option T) (d : A) (refs : list A),
  let r := filter (known tax) refs in
  tag_load cnt tax d refs = (r, map (sc cnt) r, snd (tag_load cnt tax d refs)) /\
  (forall k, mget k (snd (tag_load cnt tax d refs)) = if k <? length r then Some (tax (nth k r d)) else None) /\
  taxa_ok (length r) (snd (tag_load cnt tax d refs)) = true.
Proof. exact (@tag_load_spec). Qed.
(** obirefidx.IndexReferenceDB: `if known { taxa[j] = taxon; references[j] = references[i]; j++ }`, tables computed afterwards *)
Theorem C15_loader_obirefidx_compacts : forall (A C T : Type) (cnt : A -> C) (tax : A -> option T) (d : A) (refs : list A),
  let r := filter (known tax) refs in
  refidx_load cnt tax d refs = (r, map (sc cnt) r, snd (refidx_load cnt tax d refs)) /\
  (forall k, mget k (snd (refidx_load cnt tax d refs)) = if k <? length r then Some (tax (nth k r d)) else None) /\
  taxa_ok (length r) (snd (refidx_load cnt tax d refs)) = true.
Proof. exact (@refidx_load_spec). Qed.
(** the loader of obitag as it was (`taxa[j], err = taxo.Taxon(..)`): database 1, 2, 9 with 9 unknown: same references and
    tables, but the taxon set keeps key 2 bound to a nil taxon (IndexSequence then calls LCA on it: panic — exhibited on the
    real command and on CLIAssignTaxonomy in process, repaired); with the unknown reference anywhere but last, no difference *)
Theorem C15_loader_obitag_orig_refuted :
  tag_load_orig (fun x : nat => x) wtax 0 [1; 2; 9] = ([1; 2], [Some 1; Some 2], [(2, None); (1, Some 2); (0, Some 1)]) /\
  taxa_ok 2 (snd (tag_load_orig (fun x : nat => x) wtax 0 [1; 2; 9])) = false /\
  tag_load (fun x : nat => x) wtax 0 [1; 2; 9] = ([1; 2], [Some 1; Some 2], [(1, Some 2); (0, Some 1)]) /\
  tag_load_orig (fun x : nat => x) wtax 0 [1; 9; 2] = tag_load (fun x : nat => x) wtax 0 [1; 9; 2].
Proof. exact tag_load_orig_witness. Qed.

(** ... in general: whatever the database refs ++ [x], the unrepaired loop keeps the same references and tables as the repaired one,
    binds the keys below |kept| to the right taxa, and binds key |kept| to a NIL taxon exactly when the last reference x is
    discarded — the only difference, and it makes the taxon set unusable by IndexSequence ([taxa_ok] false) *)
Theorem C15_loader_obitag_orig_nil_entry : forall (A C T : Type) (cnt : A -> C) (tax : A -> option T) (d : A) (refs : list A) (x : A),
  let db := refs ++ [x] in
  let r := filter (known tax) db in
  tag_load_orig cnt tax d db = (r, map (sc cnt) r, snd (tag_load_orig cnt tax d db)) /\
  (forall k, k < length r -> mget k (snd (tag_load_orig cnt tax d db)) = Some (tax (nth k r d))) /\
  mget (length r) (snd (tag_load_orig cnt tax d db)) = (if known tax x then None else Some None) /\
  (forall k, length r < k -> mget k (snd (tag_load_orig cnt tax d db)) = None) /\
  (known tax x = false -> taxa_ok (length r) (snd (tag_load_orig cnt tax d db)) = false).
Proof. exact (@tag_load_orig_spec). Qed.

(** the worker chunks of IndexReferenceDB, IndexFamilyDB and MakeIndexingSliceWorker ([i, min(i+10, n)) for i = 0, 10, ...) cover
    every reference exactly once, in order: no reference is left without an index, none is indexed twice *)
Theorem C15_index_chunks_cover : forall n,
  flat_map chunk_indices (limits n) = seq 0 n /\ (forall a b, In (a, b) (limits n) -> a < b /\ b <= n /\ b - a <= 10).
Proof. intro n. split; [apply limits_cover | apply limits_bounds]. Qed.
(** obitag2, exact match (a reference has the bytes of the query): the taxon assigned is the lowest common ancestor of the taxa of
    ALL the byte-identical references — for acgt sequences these are the references at distance 0, i.e. all the best matches; and
    the rule always answers when such a reference exists. Tied to the real command by [exact_mismatches] on every run. *)
Theorem C15_obitag2_exact_match_is_lca :
  forall (anc : nat -> nat -> Prop) (lca : nat -> nat -> nat),
  (forall a, anc a a) -> (forall a b c, anc a b -> anc b c -> anc a c) ->
  (forall x a b, anc x (lca a b) <-> anc x a /\ anc x b) ->
  forall q refs tax,
    (forall t, exact_taxon (fun a b => Some (lca a b)) q refs tax = Some t ->
       is_lca_of anc t (map snd (filter (fun p => list_eqb N.eqb q (fst p)) (combine refs tax)))) /\
    ((exists p, In p (combine refs tax) /\ list_eqb N.eqb q (fst p) = true) ->
       exists t, exact_taxon (fun a b => Some (lca a b)) q refs tax = Some t).
Proof. intros anc lca R Tr G q refs tax. split; [intro t; now apply exact_taxon_is_lca | apply exact_taxon_total]. Qed.

(** MatchDistanceIndex (never called by the LCS mode; the geometric mode calls it): the entry of the smallest recorded
    distance >= the observed one, taxid 1 when every recorded distance is smaller *)
Theorem C15_match_distance_index_spec : forall idx e,
  match mdi_pick idx e None with
  | Some (k, t) => match_distance_index idx e = t /\ In (k, t) idx /\ e <= k /\ (forall k' t', In (k', t') idx -> e <= k' -> k <= k')
  | None => match_distance_index idx e = 1 /\ forall k' t', In (k', t') idx -> k' < e
  end.
Proof. exact match_distance_index_spec. Qed.
(** on an index built by IndexSequence its answer is a common ancestor of the taxa of ALL references within the observed
    distance: used in place of Identify's lookup it could never give an over-specific taxon ... *)
Theorem C15_match_distance_index_sound :
  forall (anc : nat -> nat -> Prop) (lca : nat -> nat -> nat),
  (forall a, anc a a) -> (forall a b c, anc a b -> anc b c -> anc a c) ->
  (forall x a b, anc x (lca a b) <-> anc x a /\ anc x b) -> (forall x, anc 1 x) ->
  forall slen tseq pseq rs,
    path_chain anc pseq -> (forall r, In r rs -> In (lca tseq (r_tax r)) pseq) ->
    (exists r, In r rs /\ r_tax r = tseq /\ r_d r = 0) ->
    iby_decreasing_cw (icands lca tseq rs) -> iqgram_ok slen (icands lca tseq rs) ->
    forall e r, In r rs -> r_d r <= e ->
      anc (match_distance_index (index_ref thr_fixed slen pseq (icands lca tseq rs)) e) (r_tax r).
Proof. exact match_distance_index_sound. Qed.
(** ... it is an ancestor-or-self of the answer of Identify's lookup (largest recorded distance <= observed), and can be
    strictly less specific: index {2 -> 1, 0 -> 4}, observed distance 1: Identify answers 4, MatchDistanceIndex the root *)
Theorem C15_match_distance_index_coarser :
  forall (anc : nat -> nat -> Prop) (lca : nat -> nat -> nat),
  (forall a, anc a a) -> (forall a b c, anc a b -> anc b c -> anc a c) ->
  (forall x a b, anc x (lca a b) <-> anc x a /\ anc x b) -> (forall x, anc 1 x) ->
  forall slen tseq pseq rs,
    path_chain anc pseq -> (forall r, In r rs -> In (lca tseq (r_tax r)) pseq) ->
    (exists r, In r rs /\ r_tax r = tseq /\ r_d r = 0) ->
    iby_decreasing_cw (icands lca tseq rs) -> iqgram_ok slen (icands lca tseq rs) ->
    forall e k a, e < slen ->
      lookup (index_ref thr_fixed slen pseq (icands lca tseq rs)) e None = Some (k, a) ->
      anc (match_distance_index (index_ref thr_fixed slen pseq (icands lca tseq rs)) e) a.
Proof. exact match_distance_index_coarser. Qed.
Theorem C15_match_distance_index_strictly_coarser_witness :
  lookup [(2, 1); (0, 4)] 1 None = Some (0, 4) /\ match_distance_index [(2, 1); (0, 4)] 1 = 1 /\
  mdi_table [(2, 1); (0, 4)] = [4; 1; 1; 1; 1].
Proof. exact mdi_strict_example. Qed.
(** beyond the largest recorded distance the answer is the root; the table the correspondence compares has max key + 3 rows *)
Theorem C15_match_distance_index_beyond : forall idx e, max_key idx < e -> match_distance_index idx e = 1.
Proof. exact match_distance_index_beyond. Qed.

(** ** non-vacuity: the hypotheses are satisfiable *)
Example C15_search_nonvacuous : wcs <> [] /\ by_decreasing_cw wcs /\ qgram_ok (length wq) wcs.
Proof. split; [discriminate|]. destruct search_orig_refuted as [_ [_ [_ [_ [S [Q _]]]]]]. now split. Qed.
Example C15_cells_guard_nonvacuous : cells_exact hq /\ cells_exact [97; 99; 103; 116]%N.
Proof. split; [exact (proj1 (proj2 qgram_wrapped_refuted))|apply short_cells_exact; vm_compute; reflexivity]. Qed.
Example C15_kernel_hypothesis_nonvacuous : exists kernel : list N -> list N -> nat * nat,
  forall q r, acgt_only q -> acgt_only r -> edits (kdist kernel q r) q r.
Proof. exact kernel_hyp_satisfiable. Qed.
Example C15_taxonomy_hypotheses_nonvacuous :
  let anc := fun a b : nat => a = 1 \/ a = b in
  let lca := fun a b : nat => if a =? b then a else 1 in
  (forall a, anc a a) /\ (forall a b c, anc a b -> anc b c -> anc a c) /\
  (forall x a b, anc x (lca a b) <-> anc x a /\ anc x b) /\ (forall x, anc 1 x).
Proof. exact star_tree_ok. Qed.
Example C15_index_nonvacuous : iby_decreasing_cw wics /\ iqgram_ok 5 wics /\
  In (0, 1) (index_ref thr_fixed 5 [1; 3; 4] wics).
Proof. destruct index_orig_refuted as [S [Q [_ E]]]. split; [exact S|]. split; [exact Q|]. rewrite E. now left. Qed.

Example C15_loader_nonvacuous : filter (known wtax) [1; 9; 2; 9] = [1; 2] /\ fst (fst (tag_load (fun x : nat => x) wtax 0 [1; 9; 2; 9])) = [1; 2].
Proof. vm_compute. split; reflexivity. Qed.

Example C15_exact_match_nonvacuous :
  exact_taxon (lca_exec [(1, 1); (2, 1); (3, 2); (4, 2)]) [97; 99]%N [[97; 99]; [97; 97]; [97; 99]]%N [3; 4; 4] = Some 2 /\
  limits 23 = [(0, 10); (10, 20); (20, 23)].
Proof. vm_compute. split; reflexivity. Qed.

Print Assumptions C15_kmers4_length.
Print Assumptions C15_encode4mer_is_windows.
Print Assumptions C15_qgram_bound.
Print Assumptions C15_alignment_is_edit_script.
Print Assumptions C15_search_lossless_cands.
Print Assumptions C15_search_lossless.
Print Assumptions C15_valid_order_sound.
Print Assumptions C15_threshold_sound.
Print Assumptions C15_search_orig_refuted.
Print Assumptions C15_search2_lossless_upto_1001.
Print Assumptions C15_search2_cap_refuted.
Print Assumptions C15_index_entries.
Print Assumptions C15_index_is_lca.
Print Assumptions C15_index_lookup_is_lca.
Print Assumptions C15_index_orig_refuted.
Print Assumptions C15_assigned_is_ancestor.
Print Assumptions C15_assignment_sound.
Print Assumptions C15_base_code_table.
Print Assumptions C15_cells_are_uint16.
Print Assumptions C15_wrapped_count_exact.
Print Assumptions C15_short_sequences_exact.
Print Assumptions C15_qgram_bound_wrapped.
Print Assumptions C15_qgram_wrapped_refuted.
Print Assumptions C15_search_wrapped_refuted.
Print Assumptions C15_search_prefix_exact.
Print Assumptions C15_search2_lossless_iff_no_closest_beyond_rank_1000.
Print Assumptions C15_index_has_distance_0.
Print Assumptions C15_identify_lookup_total.
Print Assumptions C15_index_lookup_all_distances.
Print Assumptions C15_lookup_beyond_length_witness.
Print Assumptions C15_identify_total.
Print Assumptions C15_iupac_bound.
Print Assumptions C15_iupac_refuted.
Print Assumptions C15_search2_exact_model.
Print Assumptions C15_search2_exact_lossless_iff_no_closest_beyond_rank_1000.
Print Assumptions C15_search2_byte_equality_fewer_ties.
Print Assumptions C15_lookup_beyond_length_only_at_identity_half.
Print Assumptions C15_table_shared_count.
Print Assumptions C15_loader_obitag_compacts.
Print Assumptions C15_loader_obirefidx_compacts.
Print Assumptions C15_loader_obitag_orig_refuted.
Print Assumptions C15_match_distance_index_spec.
Print Assumptions C15_match_distance_index_sound.
Print Assumptions C15_match_distance_index_coarser.
Print Assumptions C15_match_distance_index_strictly_coarser_witness.
Print Assumptions C15_match_distance_index_beyond.
Print Assumptions C15_loader_obitag_orig_nil_entry.
Print Assumptions C15_index_chunks_cover.
Print Assumptions C15_obitag2_exact_match_is_lca.
