(** C20 — shape-independent tactics for the translator tie (used by GenProofs.v / GenShift.v / GenMul.v).
    The lemmas T_f = model f of GenProofs.v are proved by  first [ shape-specific script | generic tactic ] :
    the generic tactics below do not look at the shape of the translated code.
      g_eq      loop-free code (constant-bound loops over limb arrays are executed symbolically first): unfold both
                sides, case-split every comparison, peel the constructors, close by reflexivity / lia with the div/mod
                equations (wraps, carries and borrows are decided by lia from the ranges of the limbs).
    Nothing here is an axiom or changes a statement: a tactic that fails makes the theorem fail, as before. *)
From Coq Require Import ZArith List Bool Lia.
From OBI.C20 Require Import Model Proofs.
From OBI.C20.Gen Require Import Translated.
Import ListNotations.
Open Scope Z_scope.

Ltac Zify.zify_post_hook ::= Z.div_mod_to_equations.

Lemma lor_eqb_0 a b : (Z.lor a b =? 0) = ((a =? 0) && (b =? 0))%bool.
Proof.
  destruct (Z.eqb_spec (Z.lor a b) 0) as [E|E].
  - apply Z.lor_eq_0_iff in E. destruct E as [-> ->]. reflexivity.
  - destruct (Z.eqb_spec a 0) as [->|]; [|reflexivity].
    destruct (Z.eqb_spec b 0) as [->|]; [|reflexivity]. exfalso. apply E. reflexivity.
Qed.

(* ---- closed index arithmetic and literal limb arrays ---- *)
Ltac closedP p := lazymatch p with xH => idtac | xI ?q => closedP q | xO ?q => closedP q end.
Ltac closedZ t := lazymatch t with
  | Z0 => idtac | Zpos ?p => closedP p | Zneg ?p => closedP p
  | wrapi ?x => closedZ x
  | Z.add ?a ?b => closedZ a; closedZ b | Z.sub ?a ?b => closedZ a; closedZ b
  | Z.mul ?a ?b => closedZ a; closedZ b | Z.div ?a ?b => closedZ a; closedZ b
  | Z.modulo ?a ?b => closedZ a; closedZ b | Z.quot ?a ?b => closedZ a; closedZ b
  | Z.rem ?a ?b => closedZ a; closedZ b | Z.opp ?a => closedZ a
  end.
Ltac list_nth n l := lazymatch n with
  | O => lazymatch l with ?x :: _ => x end
  | S ?n' => lazymatch l with _ :: ?l' => list_nth n' l' end end.
Ltac list_upd n l v := lazymatch n with
  | O => lazymatch l with _ :: ?l' => constr:(v :: l') end
  | S ?n' => lazymatch l with ?x :: ?l' => let r := list_upd n' l' v in constr:(x :: r) end end.
Ltac g_closed :=
  match goal with
  | |- context [wrapi ?x] => closedZ x; let v := eval vm_compute in (wrapi x) in
        let H := fresh in assert (H : wrapi x = v) by (vm_compute; reflexivity); rewrite !H; clear H
  | |- context [aget ?l ?i] => closedZ i; let n := eval vm_compute in (Z.to_nat i) in
        let r := list_nth n l in change (aget l i) with (Ok r)
  | |- context [aset ?l ?i ?x] => closedZ i; let n := eval vm_compute in (Z.to_nat i) in
        let r := list_upd n l x in change (aset l i x) with (Ok r)
  | |- context [Z.ltb ?a ?b] => closedZ a; closedZ b; let v := eval vm_compute in (Z.ltb a b) in
        let H := fresh in assert (H : Z.ltb a b = v) by (vm_compute; reflexivity); rewrite !H; clear H
  | |- context [Z.leb ?a ?b] => closedZ a; closedZ b; let v := eval vm_compute in (Z.leb a b) in
        let H := fresh in assert (H : Z.leb a b = v) by (vm_compute; reflexivity); rewrite !H; clear H
  | |- context [Z.eqb ?a ?b] => closedZ a; closedZ b; let v := eval vm_compute in (Z.eqb a b) in
        let H := fresh in assert (H : Z.eqb a b = v) by (vm_compute; reflexivity); rewrite !H; clear H
  end.
Ltac g_exec := repeat first [ progress T_loops_step | progress cbn [mul_rows mul_row bind] | g_closed
  | progress cbv beta iota zeta delta [add64 sub64 fst snd h1 h0 q3 q2 q1 q0] ].

(* ---- case analysis and closing ---- *)
Ltac g_destruct := repeat match goal with u : u128 |- _ => destruct u | u : u256 |- _ => destruct u end;
  unfold wf128, wf256, inW in *; cbn [h1 h0 q3 q2 q1 q0] in *.
Ltac g_norm := cbv beta iota zeta delta [bind div64r negb orb andb fst snd h1 h0 q3 q2 q1 q0 add64 sub64 mul64 div64].
(* a comparison is split only when its operands contain no other comparison (innermost first) *)
Ltac no_cmp t := lazymatch t with
  | context [Z.eqb _ _] => fail | context [Z.ltb _ _] => fail | context [Z.leb _ _] => fail | _ => idtac end.
Ltac g_cmp1 :=
  match goal with
  | |- context [Z.ltb ?a ?b] => no_cmp a; no_cmp b; destruct (Z.ltb_spec a b)
  | |- context [Z.leb ?a ?b] => no_cmp a; no_cmp b; destruct (Z.leb_spec a b)
  | |- context [Z.eqb ?a ?b] => no_cmp a; no_cmp b; destruct (Z.eqb_spec a b)
  end.
Ltac g_split := g_norm; repeat (g_cmp1; g_norm).
Ltac g_peel := repeat match goal with
  | |- @Ok _ _ = @Ok _ _ => apply f_equal
  | |- Some _ = Some _ => apply f_equal
  | |- inl _ = inl _ => apply f_equal
  | |- inr _ = inr _ => apply f_equal
  | |- mk128 _ _ = mk128 _ _ => apply f_equal2
  | |- mk256 _ _ _ _ = mk256 _ _ _ _ => apply f_equal4
  | |- (_, _) = (_, _) => apply f_equal2
  | |- _ :: _ = _ :: _ => apply f_equal2
  end.
Ltac g_leaf := first [ reflexivity | lia | (exfalso; lia) ].
Ltac g_W := change W with 18446744073709551616 in *.
Ltac g_fin := g_W; first [ reflexivity | (exfalso; lia) | (g_peel; g_leaf) ].
(* the generic equality tactic; [unf] unfolds the model side *)
Ltac g_eq unf :=
  intros; g_destruct; unf; T_unfold_all; g_exec;
  rewrite ?lor_eqb_0; g_split; g_fin.
