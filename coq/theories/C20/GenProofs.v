(** C20 — lemmas behind GenProps.v: every translated function T_<Type>_<Method> of Gen/Translated.v (regenerated from the
    CURRENT Go source before every build) is extensionally equal to the hand-written model function of Model.v.
    Proof style: unfold both sides, case-split every comparison (Z.eqb_spec / ltb_spec / leb_spec), close by reflexivity / lia:
    insensitive to renamed locals, reordered independent statements, a > b written b < a, re-nested conditions, switch vs if.
    The wraps the translator writes out (uint(lzcnt), 63-n, tq--, n -= 64, (1<<n)-1, 64-n) are shown not to wrap.
    Loops: the whole-limb loops of the Uint256 shifts and the two loops of Uint256.Div by induction on the fuel. *)
From Coq Require Import ZArith List Bool Lia.
From OBI.C20 Require Import Model Proofs.
From OBI.C20.Gen Require Import Translated.
Import ListNotations.
Open Scope Z_scope.

Ltac Zify.zify_post_hook ::= Z.div_mod_to_equations.

Ltac split_cmp1 :=
  match goal with
  | |- context [Z.eqb ?a ?b] => destruct (Z.eqb_spec a b)
  | |- context [Z.ltb ?a ?b] => destruct (Z.ltb_spec a b)
  | |- context [Z.leb ?a ?b] => destruct (Z.leb_spec a b)
  end.
Ltac norm := cbv beta iota zeta delta [bind div64r negb orb andb fst snd h1 h0 q3 q2 q1 q0 add64 sub64 mul64 div64].
Ltac split_all := norm; repeat (split_cmp1; norm).
Ltac fin := try reflexivity; try (exfalso; lia); try lia.

Lemma shl64_1_range n : 0 <= n < 64 -> 1 <= shl64 1 n < W.
Proof.
  intros H. unfold shl64. destruct (Z.ltb_spec n 64); [|lia]. rewrite Z.mul_1_l.
  assert (0 < 2^n) by (apply Z.pow_pos_nonneg; lia).
  assert (2^n < 2^64) by (apply Z.pow_lt_mono_r; lia).
  rewrite Z.mod_small by (rewrite W_pow; lia). rewrite W_pow. lia.
Qed.

(* ---------------- Uint64 ---------------- *)
Lemma L_Uint64_Zero_eq : forall u, T_Uint64_Zero u = 0. Proof. reflexivity. Qed.
Lemma L_Uint64_MaxValue_eq : forall u, T_Uint64_MaxValue u = W - 1. Proof. reflexivity. Qed.
Lemma L_Uint64_IsZero_eq : forall u, T_Uint64_IsZero u = (u =? 0). Proof. reflexivity. Qed.
Lemma L_Uint64_Uint64_eq : forall u, T_Uint64_Uint64 u = u. Proof. reflexivity. Qed.
Lemma L_Uint64_Uint128_eq : forall u, T_Uint64_Uint128 u = mk128 0 u. Proof. reflexivity. Qed.
Lemma L_Uint64_Uint256_eq : forall u, T_Uint64_Uint256 u = mk256 0 0 0 u. Proof. reflexivity. Qed.
Lemma L_Uint64_Set64_eq : forall u v, T_Uint64_Set64 u v = v. Proof. reflexivity. Qed.

Lemma L_Uint64_LeftShift64_eq : forall u n c, 0 <= n < W ->
  T_Uint64_LeftShift64 u n c = leftshift64 u n c.
Proof.
  intros u n c Hn. pose proof W_val as WV.
  cbv delta [T_Uint64_LeftShift64 leftshift64]. split_all; fin.
  - pose proof (shl64_1_range n ltac:(lia)). rewrite !Z.mod_small by lia. reflexivity.
  - rewrite !Z.mod_small by lia. reflexivity.
Qed.
Lemma L_Uint64_RightShift64_eq : forall u n c, 0 <= n < W ->
  T_Uint64_RightShift64 u n c = rightshift64 u n c.
Proof.
  intros u n c Hn. pose proof W_val as WV.
  cbv delta [T_Uint64_RightShift64 rightshift64]. split_all; fin.
  - rewrite (Z.mod_small (64 - n)) by lia.
    pose proof (shl64_1_range (64 - n) ltac:(lia)). rewrite !Z.mod_small by lia. reflexivity.
  - rewrite !Z.mod_small by lia. reflexivity.
Qed.
Lemma L_Uint64_Add64_eq : forall u v c, T_Uint64_Add64 u v c = add64 u v c. Proof. reflexivity. Qed.
Lemma L_Uint64_Sub64_eq : forall u v c, T_Uint64_Sub64 u v c = sub64 u v c. Proof. reflexivity. Qed.
Lemma L_Uint64_Mul64_eq : forall u v, T_Uint64_Mul64 u v = (snd (mul64 u v), fst (mul64 u v)). Proof. reflexivity. Qed.
Lemma L_Uint64_LeftShift_eq : forall u n, 0 <= n < W -> T_Uint64_LeftShift u n = u64_shl u n.
Proof. intros. unfold T_Uint64_LeftShift, u64_shl. rewrite L_Uint64_LeftShift64_eq by assumption.
  destruct (leftshift64 u n 0); reflexivity. Qed.
Lemma L_Uint64_RightShift_eq : forall u n, 0 <= n < W -> T_Uint64_RightShift u n = u64_shr u n.
Proof. intros. unfold T_Uint64_RightShift, u64_shr. rewrite L_Uint64_RightShift64_eq by assumption.
  destruct (rightshift64 u n 0); reflexivity. Qed.
Lemma L_Uint64_Add_eq : forall u v, T_Uint64_Add u v = u64_add u v.
Proof. intros. cbv delta [T_Uint64_Add u64_add T_Uint64_Add64]. split_all; fin. Qed.
Lemma L_Uint64_Sub_eq : forall u v, T_Uint64_Sub u v = u64_sub u v.
Proof. intros. cbv delta [T_Uint64_Sub u64_sub T_Uint64_Sub64]. split_all; fin. Qed.
Lemma L_Uint64_Mul_eq : forall u v, T_Uint64_Mul u v = u64_mul u v.
Proof. intros. cbv delta [T_Uint64_Mul u64_mul T_Uint64_Mul64]. split_all; fin. Qed.
Lemma L_Uint64_Cmp_eq : forall u v, T_Uint64_Cmp u v = u64_cmp u v.
Proof. intros. cbv delta [T_Uint64_Cmp u64_cmp]. split_all; fin. Qed.
Lemma L_Uint64_Equals_eq : forall u v, T_Uint64_Equals u v = (u64_cmp u v =? 0).
Proof. intros. unfold T_Uint64_Equals. rewrite L_Uint64_Cmp_eq. reflexivity. Qed.
Lemma L_Uint64_LessThan_eq : forall u v, T_Uint64_LessThan u v = (u64_cmp u v <? 0).
Proof. intros. unfold T_Uint64_LessThan. rewrite L_Uint64_Cmp_eq. reflexivity. Qed.
Lemma L_Uint64_GreaterThan_eq : forall u v, T_Uint64_GreaterThan u v = (0 <? u64_cmp u v).
Proof. intros. unfold T_Uint64_GreaterThan. rewrite L_Uint64_Cmp_eq. reflexivity. Qed.
Lemma L_Uint64_LessThanOrEqual_eq : forall u v, T_Uint64_LessThanOrEqual u v = negb (0 <? u64_cmp u v).
Proof. intros. unfold T_Uint64_LessThanOrEqual. rewrite L_Uint64_GreaterThan_eq. reflexivity. Qed.
Lemma L_Uint64_GreaterThanOrEqual_eq : forall u v, T_Uint64_GreaterThanOrEqual u v = negb (u64_cmp u v <? 0).
Proof. intros. unfold T_Uint64_GreaterThanOrEqual. rewrite L_Uint64_LessThan_eq. reflexivity. Qed.
Lemma L_Uint64_And_eq : forall u v, T_Uint64_And u v = Z.land u v. Proof. reflexivity. Qed.
Lemma L_Uint64_Or_eq : forall u v, T_Uint64_Or u v = Z.lor u v. Proof. reflexivity. Qed.
Lemma L_Uint64_Xor_eq : forall u v, T_Uint64_Xor u v = Z.lxor u v. Proof. reflexivity. Qed.
Lemma L_Uint64_Not_eq : forall u, T_Uint64_Not u = not64 u. Proof. reflexivity. Qed.
Lemma L_Uint64_AsUint64_eq : forall u, T_Uint64_AsUint64 u = u. Proof. reflexivity. Qed.

(* ---------------- Uint128 ---------------- *)
Lemma L_Uint128_Zero_eq : forall u, T_Uint128_Zero u = mk128 0 0. Proof. reflexivity. Qed.
Lemma L_Uint128_MaxValue_eq : forall u, T_Uint128_MaxValue u = mk128 (W - 1) (W - 1). Proof. reflexivity. Qed.
Lemma L_Uint128_IsZero_eq : forall u, T_Uint128_IsZero u = ((h0 u =? 0) && (h1 u =? 0))%bool. Proof. reflexivity. Qed.
Lemma L_Uint128_Uint64_eq : forall u, T_Uint128_Uint64 u = h0 u.
Proof. intros. unfold T_Uint128_Uint64. split_all; fin. Qed.
Lemma L_Uint128_Uint128_eq : forall u, T_Uint128_Uint128 u = u. Proof. reflexivity. Qed.
Lemma L_Uint128_Uint256_eq : forall u, T_Uint128_Uint256 u = mk256 0 0 (h1 u) (h0 u). Proof. reflexivity. Qed.
Lemma L_Uint128_Set64_eq : forall u v, T_Uint128_Set64 u v = mk128 0 v. Proof. reflexivity. Qed.
Lemma L_Uint128_LeftShift_eq : forall u n, 0 <= n < W -> T_Uint128_LeftShift u n = u128_shl u n.
Proof. intros. unfold T_Uint128_LeftShift, u128_shl. rewrite L_Uint64_LeftShift64_eq by assumption. destruct (leftshift64 (h0 u) n 0). rewrite L_Uint64_LeftShift64_eq by assumption. reflexivity. Qed.
Lemma L_Uint128_RightShift_eq : forall u n, 0 <= n < W -> T_Uint128_RightShift u n = u128_shr u n.
Proof. intros. unfold T_Uint128_RightShift, u128_shr. rewrite L_Uint64_RightShift64_eq by assumption. destruct (rightshift64 (h1 u) n 0). rewrite L_Uint64_RightShift64_eq by assumption. reflexivity. Qed.
Lemma L_Uint128_Add_eq : forall u v, T_Uint128_Add u v = u128_add u v.
Proof. intros. unfold T_Uint128_Add, u128_add. split_all; fin. Qed.
Lemma L_Uint128_Add64_eq : forall u v, T_Uint128_Add64 u v = u128_add64 u v.
Proof. intros. unfold T_Uint128_Add64, u128_add64. split_all; fin. Qed.
Lemma L_Uint128_Sub_eq : forall u v, T_Uint128_Sub u v = u128_sub u v.
Proof. intros. unfold T_Uint128_Sub, u128_sub. split_all; fin. Qed.
Lemma L_Uint128_Mul_eq : forall u v, T_Uint128_Mul u v = u128_mul u v.
Proof. intros. unfold T_Uint128_Mul, u128_mul. split_all; fin. Qed.
Lemma L_Uint128_Mul64_eq : forall u v, T_Uint128_Mul64 u v = u128_mul64 u v.
Proof. intros. unfold T_Uint128_Mul64, u128_mul64. split_all; fin. Qed.
Lemma L_Uint128_QuoRem64_eq : forall u v, T_Uint128_QuoRem64 u v = u128_quorem64 u v.
Proof. intros. unfold T_Uint128_QuoRem64, u128_quorem64. split_all; fin. Qed.
Lemma L_Uint128_Cmp_eq : forall u v, T_Uint128_Cmp u v = u128_cmp u v.
Proof. intros. unfold T_Uint128_Cmp, u128_cmp. split_all; fin. Qed.
Lemma L_Uint128_Cmp64_eq : forall u v, T_Uint128_Cmp64 u v = u128_cmp64 u v.
Proof. intros. unfold T_Uint128_Cmp64, u128_cmp64. split_all; fin. Qed.
Lemma L_Uint128_Equals_eq : forall u v, T_Uint128_Equals u v = (u128_cmp u v =? 0).
Proof. intros. unfold T_Uint128_Equals. rewrite L_Uint128_Cmp_eq. reflexivity. Qed.
Lemma L_Uint128_LessThan_eq : forall u v, T_Uint128_LessThan u v = (u128_cmp u v <? 0).
Proof. intros. unfold T_Uint128_LessThan. rewrite L_Uint128_Cmp_eq. reflexivity. Qed.
Lemma L_Uint128_GreaterThan_eq : forall u v, T_Uint128_GreaterThan u v = (0 <? u128_cmp u v).
Proof. intros. unfold T_Uint128_GreaterThan. rewrite L_Uint128_Cmp_eq. reflexivity. Qed.
Lemma L_Uint128_LessThanOrEqual_eq : forall u v, T_Uint128_LessThanOrEqual u v = negb (0 <? u128_cmp u v).
Proof. intros. unfold T_Uint128_LessThanOrEqual. rewrite L_Uint128_GreaterThan_eq. reflexivity. Qed.
Lemma L_Uint128_GreaterThanOrEqual_eq : forall u v, T_Uint128_GreaterThanOrEqual u v = negb (u128_cmp u v <? 0).
Proof. intros. unfold T_Uint128_GreaterThanOrEqual. rewrite L_Uint128_LessThan_eq. reflexivity. Qed.
Lemma L_Uint128_And_eq : forall u v, T_Uint128_And u v = mk128 (Z.land (h1 u) (h1 v)) (Z.land (h0 u) (h0 v)). Proof. reflexivity. Qed.
Lemma L_Uint128_Or_eq : forall u v, T_Uint128_Or u v = mk128 (Z.lor (h1 u) (h1 v)) (Z.lor (h0 u) (h0 v)). Proof. reflexivity. Qed.
Lemma L_Uint128_Xor_eq : forall u v, T_Uint128_Xor u v = mk128 (Z.lxor (h1 u) (h1 v)) (Z.lxor (h0 u) (h0 v)). Proof. reflexivity. Qed.
Lemma L_Uint128_Not_eq : forall u, T_Uint128_Not u = mk128 (not64 (h1 u)) (not64 (h0 u)). Proof. reflexivity. Qed.
Lemma L_Uint128_AsUint64_eq : forall u, T_Uint128_AsUint64 u = h0 u. Proof. reflexivity. Qed.

(* ---------------- Uint256 (loop-free) ---------------- *)
Lemma L_Uint256_Zero_eq : forall u, T_Uint256_Zero u = mk256 0 0 0 0. Proof. reflexivity. Qed.
Lemma L_Uint256_MaxValue_eq : forall u, T_Uint256_MaxValue u = mk256 (W - 1) (W - 1) (W - 1) (W - 1). Proof. reflexivity. Qed.
Lemma L_Uint256_IsZero_eq : forall u, T_Uint256_IsZero u = u256_iszero u. Proof. reflexivity. Qed.
Lemma L_Uint256_Uint64_eq : forall u, T_Uint256_Uint64 u = q0 u.
Proof. intros. unfold T_Uint256_Uint64. split_all; fin. Qed.
Lemma L_Uint256_Uint128_eq : forall u, T_Uint256_Uint128 u = mk128 (q1 u) (q0 u).
Proof. intros. unfold T_Uint256_Uint128. split_all; fin. Qed.
Lemma L_Uint256_Uint256_eq : forall u, T_Uint256_Uint256 u = u. Proof. reflexivity. Qed.
Lemma L_Uint256_Set64_eq : forall u v, T_Uint256_Set64 u v = mk256 0 0 0 v. Proof. reflexivity. Qed.
Lemma L_Uint256_Cmp_eq : forall u v, T_Uint256_Cmp u v = u256_cmp u v.
Proof. intros. unfold T_Uint256_Cmp, u256_cmp. split_all; fin. Qed.
Lemma L_Uint256_Add_eq : forall u v, T_Uint256_Add u v = u256_add u v.
Proof. intros. unfold T_Uint256_Add, u256_add. split_all; fin. Qed.
Lemma L_Uint256_Sub_eq : forall u v, T_Uint256_Sub u v = u256_sub u v.
Proof. intros. unfold T_Uint256_Sub, u256_sub. split_all; fin. Qed.
Lemma L_Uint256_Equals_eq : forall u v, T_Uint256_Equals u v = (u256_cmp u v =? 0).
Proof. intros. unfold T_Uint256_Equals. rewrite L_Uint256_Cmp_eq. reflexivity. Qed.
Lemma L_Uint256_LessThan_eq : forall u v, T_Uint256_LessThan u v = u256_lt u v.
Proof. intros. unfold T_Uint256_LessThan. rewrite L_Uint256_Cmp_eq. reflexivity. Qed.
Lemma L_Uint256_GreaterThan_eq : forall u v, T_Uint256_GreaterThan u v = (0 <? u256_cmp u v).
Proof. intros. unfold T_Uint256_GreaterThan. rewrite L_Uint256_Cmp_eq. reflexivity. Qed.
Lemma L_Uint256_LessThanOrEqual_eq : forall u v, T_Uint256_LessThanOrEqual u v = u256_le u v.
Proof. intros. unfold T_Uint256_LessThanOrEqual. rewrite L_Uint256_GreaterThan_eq. reflexivity. Qed.
Lemma L_Uint256_GreaterThanOrEqual_eq : forall u v, T_Uint256_GreaterThanOrEqual u v = negb (u256_lt u v).
Proof. intros. unfold T_Uint256_GreaterThanOrEqual. rewrite L_Uint256_LessThan_eq. reflexivity. Qed.
Lemma L_Uint256_And_eq : forall u v, T_Uint256_And u v = mk256 (Z.land (q3 u) (q3 v)) (Z.land (q2 u) (q2 v)) (Z.land (q1 u) (q1 v)) (Z.land (q0 u) (q0 v)). Proof. reflexivity. Qed.
Lemma L_Uint256_Or_eq : forall u v, T_Uint256_Or u v = mk256 (Z.lor (q3 u) (q3 v)) (Z.lor (q2 u) (q2 v)) (Z.lor (q1 u) (q1 v)) (Z.lor (q0 u) (q0 v)). Proof. reflexivity. Qed.
Lemma L_Uint256_Xor_eq : forall u v, T_Uint256_Xor u v = mk256 (Z.lxor (q3 u) (q3 v)) (Z.lxor (q2 u) (q2 v)) (Z.lxor (q1 u) (q1 v)) (Z.lxor (q0 u) (q0 v)). Proof. reflexivity. Qed.
Lemma L_Uint256_Not_eq : forall u, T_Uint256_Not u = mk256 (not64 (q3 u)) (not64 (q2 u)) (not64 (q1 u)) (not64 (q0 u)). Proof. reflexivity. Qed.
Lemma L_Uint256_AsUint64_eq : forall u, T_Uint256_AsUint64 u = q0 u. Proof. reflexivity. Qed.

(* ---------------- Uint128.QuoRem and its wrappers ---------------- *)
Lemma lzcnt_range x : 0 <= x < W -> 0 <= lzcnt64 x <= 64.
Proof.
  intros Hx. destruct (Z.eq_dec x 0) as [->|]; [cbv; split; discriminate|].
  pose proof (lzcnt_spec x ltac:(lia)). lia.
Qed.
Lemma shr64_range x k : 0 <= x < W -> 0 <= k -> 0 <= shr64 x k <= x.
Proof.
  intros Hx Hk. unfold shr64. destruct (Z.ltb_spec k 64); [|lia].
  assert (0 < 2^k) by (apply Z.pow_pos_nonneg; lia).
  split; [apply Z.div_pos; lia|]. apply Z.div_le_upper_bound; nia.
Qed.
Lemma div64_range hi lo y q r : 0 <= hi -> 0 <= lo < W -> div64 hi lo y = Some (q, r) -> 0 <= q < W.
Proof.
  unfold div64. intros Hh Hl. destruct (Z.eqb_spec y 0); cbn [orb]; [discriminate|].
  destruct (Z.leb_spec y hi); [discriminate|]. intros E; inversion E; subst; clear E.
  pose proof W_pos. split; [apply Z.div_pos; nia|]. apply Z.div_lt_upper_bound; nia.
Qed.

Lemma u128_sub_nofuel u v : u128_sub u v <> OutOfFuel.
Proof. unfold u128_sub. split_all; discriminate. Qed.
Lemma u128_add64_nofuel u v : u128_add64 u v <> OutOfFuel.
Proof. unfold u128_add64. split_all; discriminate. Qed.
Lemma u128_mul64_nofuel u v : u128_mul64 u v <> OutOfFuel.
Proof. unfold u128_mul64. split_all; discriminate. Qed.
Ltac nofuel := exfalso; first [eapply u128_sub_nofuel; eassumption | eapply u128_add64_nofuel; eassumption | eapply u128_mul64_nofuel; eassumption].
Ltac qr_tail u v tq :=
  rewrite L_Uint128_Mul64_eq; destruct (u128_mul64 v tq) as [m| |] eqn:EM; [|reflexivity|nofuel];
  rewrite L_Uint128_Sub_eq; destruct (u128_sub u m) as [r| |] eqn:ES; [|reflexivity|nofuel];
  rewrite L_Uint128_Cmp_eq; destruct (0 <=? u128_cmp r v); [|reflexivity];
  rewrite L_Uint128_Add64_eq, L_Uint128_Sub_eq;
  destruct (u128_add64 (mk128 0 tq) 1) as [q| |] eqn:EA; destruct (u128_sub r v) as [r2| |] eqn:ES2; try reflexivity; nofuel.

Lemma L_Uint128_QuoRem_eq : forall u v, wf128 u -> wf128 v -> T_Uint128_QuoRem u v = u128_quorem u v.
Proof.
  intros u v Hu Hv. pose proof W_val as WV. unfold T_Uint128_QuoRem, u128_quorem.
  rewrite L_Uint128_QuoRem64_eq.
  destruct (Z.eqb_spec (h1 v) 0) as [E|E].
  - cbv beta iota zeta delta [bind]. destruct (u128_quorem64 u (h0 v)) as [[q r]| |]; reflexivity.
  - destruct Hv as [Hv1 Hv0].
    pose proof (lzcnt_spec (h1 v) ltac:(lia)) as [L _].
    cbv zeta. rewrite (Z.mod_small (lzcnt64 (h1 v)) W) by lia.
    rewrite (Z.mod_small (63 - lzcnt64 (h1 v)) W) by lia.
    rewrite L_Uint128_LeftShift_eq by lia. rewrite L_Uint128_RightShift_eq by lia.
    pose proof (u128_shr_spec u 1 Hu ltac:(lia)) as [[Hs1 Hs0] _].
    unfold div64r.
    destruct (div64 (h1 (u128_shr u 1)) (h0 (u128_shr u 1)) (h1 (u128_shl v (lzcnt64 (h1 v))))) as [[tq rr]|] eqn:ED;
      cbv beta iota zeta delta [bind]; [|reflexivity].
    pose proof (div64_range _ _ _ _ _ (proj1 Hs1) Hs0 ED) as Htq.
    pose proof (shr64_range tq (63 - lzcnt64 (h1 v)) Htq ltac:(lia)) as Hsh.
    set (tq' := shr64 tq (63 - lzcnt64 (h1 v))) in *.
    destruct (Z.eqb_spec tq' 0) as [E0|E0]; cbv beta iota zeta delta [negb].
    + qr_tail u v tq'.
    + rewrite (Z.mod_small (tq' - 1) W) by lia. qr_tail u v (tq' - 1).
Qed.
Definition rmap {A B} (f : A -> B) (r : res A) : res B :=
  match r with Ok a => Ok (f a) | Panic => Panic | OutOfFuel => OutOfFuel end.
Lemma L_Uint128_Div_eq : forall u v, wf128 u -> wf128 v -> T_Uint128_Div u v = rmap fst (u128_quorem u v).
Proof. intros. unfold T_Uint128_Div. rewrite L_Uint128_QuoRem_eq by assumption.
  destruct (u128_quorem u v) as [[q r]| |]; reflexivity. Qed.
Lemma L_Uint128_Mod_eq : forall u v, wf128 u -> wf128 v -> T_Uint128_Mod u v = rmap snd (u128_quorem u v).
Proof. intros. unfold T_Uint128_Mod. rewrite L_Uint128_QuoRem_eq by assumption.
  destruct (u128_quorem u v) as [[q r]| |]; reflexivity. Qed.
Lemma L_Uint128_Div64_eq : forall u v, T_Uint128_Div64 u v = rmap fst (u128_quorem64 u v).
Proof. intros. unfold T_Uint128_Div64. rewrite L_Uint128_QuoRem64_eq.
  destruct (u128_quorem64 u v) as [[q r]| |]; reflexivity. Qed.
Lemma L_Uint128_Mod64_eq : forall u v, T_Uint128_Mod64 u v = rmap snd (u128_quorem64 u v).
Proof. intros. unfold T_Uint128_Mod64. rewrite L_Uint128_QuoRem64_eq.
  destruct (u128_quorem64 u v) as [[q r]| |]; reflexivity. Qed.

(* ---------------- Uint256 shifts: the whole-limb loop ---------------- *)
Lemma shl_loop_spec : forall fuel u n, 0 <= n < W -> (Z.to_nat (n / 64) < fuel)%nat ->
  T_Uint256_LeftShift_loop1 fuel n u = Ok (n mod 64, limbs_up (Z.to_nat (n / 64)) u).
Proof.
  pose proof W_val as WV.
  induction fuel as [|f IH]; intros u n Hn Hf; [lia|].
  cbn [T_Uint256_LeftShift_loop1]. destruct (Z.leb_spec 64 n) as [G|G].
  - cbv zeta. rewrite (Z.mod_small (n - 64) W) by lia.
    assert (E : n / 64 = (n - 64) / 64 + 1) by lia.
    rewrite IH by lia. rewrite E.
    replace (Z.to_nat ((n - 64) / 64 + 1)) with (S (Z.to_nat ((n - 64) / 64))) by lia.
    cbn [limbs_up]. do 2 f_equal. lia.
  - replace (n / 64) with 0 by lia. cbn [Z.to_nat limbs_up]. do 2 f_equal. lia.
Qed.
Lemma shr_loop_spec : forall fuel u n, 0 <= n < W -> (Z.to_nat (n / 64) < fuel)%nat ->
  T_Uint256_RightShift_loop1 fuel n u = Ok (n mod 64, limbs_down (Z.to_nat (n / 64)) u).
Proof.
  pose proof W_val as WV.
  induction fuel as [|f IH]; intros u n Hn Hf; [lia|].
  cbn [T_Uint256_RightShift_loop1]. destruct (Z.leb_spec 64 n) as [G|G].
  - cbv zeta. rewrite (Z.mod_small (n - 64) W) by lia.
    assert (E : n / 64 = (n - 64) / 64 + 1) by lia.
    rewrite IH by lia. rewrite E.
    replace (Z.to_nat ((n - 64) / 64 + 1)) with (S (Z.to_nat ((n - 64) / 64))) by lia.
    cbn [limbs_down]. do 2 f_equal. lia.
  - replace (n / 64) with 0 by lia. cbn [Z.to_nat limbs_down]. do 2 f_equal. lia.
Qed.

Lemma L_Uint256_LeftShift_eq : forall u n, 0 <= n < W -> T_Uint256_LeftShift u n = Ok (u256_shl u n).
Proof.
  intros u n Hn. pose proof W_val as WV. unfold T_Uint256_LeftShift, u256_shl.
  destruct (Z.leb_spec 256 n) as [G|G]; [reflexivity|].
  rewrite shl_loop_spec by lia. cbv beta iota zeta delta [bind].
  set (u' := limbs_up (Z.to_nat (n / 64)) u). set (m := n mod 64).
  assert (Hm : 0 <= m < W) by (subst m; lia).
  unfold u256_shl_orig.
  rewrite L_Uint64_LeftShift64_eq by assumption. destruct (leftshift64 (q0 u') m 0) as [w0 c0].
  rewrite L_Uint64_LeftShift64_eq by assumption. destruct (leftshift64 (q1 u') m c0) as [w1 c1].
  rewrite L_Uint64_LeftShift64_eq by assumption. destruct (leftshift64 (q2 u') m c1) as [w2 c2].
  rewrite L_Uint64_LeftShift64_eq by assumption. destruct (leftshift64 (q3 u') m c2) as [w3 c3].
  reflexivity.
Qed.
Lemma L_Uint256_RightShift_eq : forall u n, 0 <= n < W -> T_Uint256_RightShift u n = Ok (u256_shr u n).
Proof.
  intros u n Hn. pose proof W_val as WV. unfold T_Uint256_RightShift, u256_shr.
  destruct (Z.leb_spec 256 n) as [G|G]; [reflexivity|].
  rewrite shr_loop_spec by lia. cbv beta iota zeta delta [bind].
  set (u' := limbs_down (Z.to_nat (n / 64)) u). set (m := n mod 64).
  assert (Hm : 0 <= m < W) by (subst m; lia).
  unfold u256_shr_orig.
  rewrite L_Uint64_RightShift64_eq by assumption. destruct (rightshift64 (q3 u') m 0) as [w3 c3].
  rewrite L_Uint64_RightShift64_eq by assumption. destruct (rightshift64 (q2 u') m c3) as [w2 c2].
  rewrite L_Uint64_RightShift64_eq by assumption. destruct (rightshift64 (q1 u') m c2) as [w1 c1].
  rewrite L_Uint64_RightShift64_eq by assumption. destruct (rightshift64 (q0 u') m c1) as [w0 c0].
  reflexivity.
Qed.

(* ---------------- Uint256.Div: the two loops ---------------- *)
Lemma top_bit_test x : 0 <= x < W -> (shr64 x 63 =? 0) = (x <? 2^63).
Proof.
  intros Hx. pose proof W_val. unfold shr64. change (63 <? 64) with true. cbv iota.
  change (2^63) with 9223372036854775808.
  destruct (Z.eqb_spec (x / 9223372036854775808) 0); destruct (Z.ltb_spec x 9223372036854775808); try reflexivity; lia.
Qed.
Lemma ge_is_le u v : wf256 u -> wf256 v -> negb (u256_lt u v) = u256_le v u.
Proof.
  intros Hu Hv. rewrite u256_lt_spec, u256_le_spec by assumption.
  destruct (Z.ltb_spec (val256 u) (val256 v)); destruct (Z.leb_spec (val256 v) (val256 u)); try reflexivity; lia.
Qed.
Lemma u256_sub_wf u v r : u256_sub u v = Ok r -> wf256 r.
Proof.
  pose proof W_pos. unfold u256_sub. norm.
  repeat match goal with |- context [if ?b then _ else _] => destruct b end; intros E; inversion E; subst;
  unfold wf256; cbn [q3 q2 q1 q0]; repeat split; try (apply Z.mod_pos_bound; lia).
Qed.
Lemma u256_add_wf u v r : u256_add u v = Ok r -> wf256 r.
Proof.
  pose proof W_pos. unfold u256_add. norm.
  repeat match goal with |- context [if ?b then _ else _] => destruct b end; intros E; inversion E; subst;
  unfold wf256; cbn [q3 q2 q1 q0]; repeat split; try (apply Z.mod_pos_bound; lia).
Qed.
Lemma u256_sub_nofuel u v : u256_sub u v <> OutOfFuel.
Proof. unfold u256_sub. norm. repeat match goal with |- context [if ?b then _ else _] => destruct b end; discriminate. Qed.
Lemma u256_add_nofuel u v : u256_add u v <> OutOfFuel.
Proof. unfold u256_add. norm. repeat match goal with |- context [if ?b then _ else _] => destruct b end; discriminate. Qed.

Definition o2r {A} (o : option A) : res A := match o with Some a => Ok a | None => OutOfFuel end.

Lemma div_loop2_spec : forall fuel r t m, wf256 t ->
  T_Uint256_Div_loop2 fuel t r m = o2r (div_inner true fuel t m r).
Proof.
  induction fuel as [|f IH]; intros r t m Ht; [reflexivity|].
  cbn [T_Uint256_Div_loop2 div_inner]. pose proof W_val as WV.
  rewrite top_bit_test by (destruct Ht as (H3 & _); exact H3).
  rewrite !L_Uint256_LeftShift_eq by lia. cbv beta iota zeta delta [bind negb orb].
  rewrite L_Uint256_LessThanOrEqual_eq.
  destruct (q3 t <? 2^63) eqn:E1; cbv beta iota zeta delta [bind andb]; [|reflexivity].
  destruct (u256_le (u256_shl t 1) r) eqn:E2; [|reflexivity].
  apply IH. apply u256_shl_spec; [assumption|lia].
Qed.

Lemma div_loop1_spec : forall fuel v q r, wf256 v -> wf256 r ->
  rmap snd (T_Uint256_Div_loop1 fuel r v q) = div_outer true fuel v q r.
Proof.
  induction fuel as [|f IH]; intros v q r Hv Hr; [reflexivity|].
  cbn [T_Uint256_Div_loop1 div_outer].
  rewrite L_Uint256_GreaterThanOrEqual_eq, ge_is_le by assumption.
  destruct (u256_le v r); [|reflexivity].
  cbv zeta. rewrite div_loop2_spec by assumption.
  destruct (div_inner true 257 v (mk256 0 0 0 1) r) as [[t m]|]; cbv beta iota zeta delta [bind o2r]; [|reflexivity].
  rewrite L_Uint256_Sub_eq, L_Uint256_Add_eq.
  destruct (u256_sub r t) as [r'| |] eqn:ES; [|reflexivity|exfalso; eapply u256_sub_nofuel; eassumption].
  destruct (u256_add q m) as [q'| |] eqn:EA; [|reflexivity|exfalso; eapply u256_add_nofuel; eassumption].
  apply IH; [assumption|]. eapply u256_sub_wf; eassumption.
Qed.

Lemma L_Uint256_Div_eq : forall u v, wf256 u -> wf256 v -> T_Uint256_Div u v = u256_div u v.
Proof.
  intros u v Hu Hv. unfold T_Uint256_Div, u256_div, u256_div_gen.
  rewrite (L_Uint256_IsZero_eq v), (L_Uint256_IsZero_eq u), L_Uint256_LessThan_eq, L_Uint256_Equals_eq.
  destruct (u256_iszero v); [reflexivity|].
  destruct (u256_iszero u || u256_lt u v)%bool; [reflexivity|].
  destruct (u256_cmp v (mk256 0 0 0 1) =? 0); [reflexivity|].
  cbv zeta. rewrite <- div_loop1_spec by assumption.
  destruct (T_Uint256_Div_loop1 257 u v (mk256 0 0 0 0)) as [[r q]| |]; reflexivity.
Qed.

