(** C20 — lemmas behind GenProps.v: every translated function T_<Type>_<Method> of Gen/Translated.v (regenerated from the
    CURRENT Go source before every build) is extensionally equal to the hand-written model function of Model.v on
    well-formed operands (limbs in [0, 2^64) — every Go uint64 is).
    Every proof is  first [ shape-specific script | shape-independent tactic ]  (GenTac.v): the first alternative is the
    proof written against the code as it was transcribed; the second one does not look at the shape of the translated
    code (unfold everything translated, run constant-bound loops over limb arrays symbolically, case-split every
    comparison, decide wraps / carries / borrows by lia with the div/mod equations), so that a behaviour-preserving
    rewrite of the Go source (other comparison chains, wrapped sums instead of bits.Add64 carries, loops over limb
    arrays, early returns, helper functions) still yields the SAME theorem.  Composite functions (Uint128.QuoRem,
    Uint256.Div) are proved from the equalities of their callees, whichever callees the code uses.
    The wraps the translator writes out (uint(lzcnt), 63-n, tq--, n -= 64, (1<<n)-1, 64-n) are shown not to wrap. *)
From Coq Require Import ZArith List Bool Lia.
From OBI.C20 Require Import Model Proofs GenTac.
From OBI.C20.Gen Require Import Translated.
Import ListNotations.
Open Scope Z_scope.

Ltac Zify.zify_post_hook ::= Z.div_mod_to_equations.

Ltac split_cmp1 :=
  match goal with
  | |- context [Z.eqb ?a ?b] => destruct (Z.eqb_spec a b)
  | |- context [Z.ltb ?a ?b] => destruct (Z.ltb_spec a b)
  | |- context [Z.leb ?a ?b] => destruct (Z.leb_spec a b)
  end.
Ltac norm := cbv beta iota zeta delta [bind div64r negb orb andb fst snd h1 h0 q3 q2 q1 q0 add64 sub64 mul64 div64].
Ltac split_all := norm; repeat (split_cmp1; norm).
Ltac fin := try reflexivity; try (exfalso; lia); try lia.
(* [two old gen]: the shape-specific script first, the shape-independent one otherwise *)
Tactic Notation "two" tactic(old) "|||" tactic(gen) := first [ solve [ old ] | solve [ gen ] ].

(* ---------------- Uint64 ---------------- *)
Lemma L_Uint64_Zero_eq : forall u, T_Uint64_Zero u = 0.
Proof. two (reflexivity) ||| (g_eq idtac). Qed.
Lemma L_Uint64_MaxValue_eq : forall u, T_Uint64_MaxValue u = W - 1.
Proof. two (reflexivity) ||| (g_eq idtac). Qed.
Lemma L_Uint64_IsZero_eq : forall u, T_Uint64_IsZero u = (u =? 0).
Proof. two (reflexivity) ||| (g_eq idtac). Qed.
Lemma L_Uint64_Uint64_eq : forall u, T_Uint64_Uint64 u = u.
Proof. two (reflexivity) ||| (g_eq idtac). Qed.
Lemma L_Uint64_Uint128_eq : forall u, T_Uint64_Uint128 u = mk128 0 u.
Proof. two (reflexivity) ||| (g_eq idtac). Qed.
Lemma L_Uint64_Uint256_eq : forall u, T_Uint64_Uint256 u = mk256 0 0 0 u.
Proof. two (reflexivity) ||| (g_eq idtac). Qed.
Lemma L_Uint64_Set64_eq : forall u v, T_Uint64_Set64 u v = v.
Proof. two (reflexivity) ||| (g_eq idtac). Qed.
Lemma L_Uint64_Add64_eq : forall u v c, T_Uint64_Add64 u v c = add64 u v c.
Proof. two (reflexivity) ||| (g_eq idtac). Qed.
Lemma L_Uint64_Sub64_eq : forall u v c, T_Uint64_Sub64 u v c = sub64 u v c.
Proof. two (reflexivity) ||| (g_eq idtac). Qed.
Lemma L_Uint64_Mul64_eq : forall u v, T_Uint64_Mul64 u v = (snd (mul64 u v), fst (mul64 u v)).
Proof. two (reflexivity) ||| (g_eq idtac). Qed.
Lemma L_Uint64_Add_eq : forall u v, inW u -> inW v -> T_Uint64_Add u v = u64_add u v.
Proof. two (intros; cbv delta [T_Uint64_Add u64_add T_Uint64_Add64]; split_all; fin) ||| (g_eq ltac:(unfold u64_add)). Qed.
Lemma L_Uint64_Sub_eq : forall u v, inW u -> inW v -> T_Uint64_Sub u v = u64_sub u v.
Proof. two (intros; cbv delta [T_Uint64_Sub u64_sub T_Uint64_Sub64]; split_all; fin) ||| (g_eq ltac:(unfold u64_sub)). Qed.
Lemma L_Uint64_Mul_eq : forall u v, inW u -> inW v -> T_Uint64_Mul u v = u64_mul u v.
Proof. two (intros; cbv delta [T_Uint64_Mul u64_mul T_Uint64_Mul64]; split_all; fin) ||| (g_eq ltac:(unfold u64_mul)). Qed.
Lemma L_Uint64_Cmp_eq : forall u v, T_Uint64_Cmp u v = u64_cmp u v.
Proof. two (intros; cbv delta [T_Uint64_Cmp u64_cmp]; split_all; fin) ||| (g_eq ltac:(unfold u64_cmp)). Qed.
Lemma L_Uint64_Equals_eq : forall u v, T_Uint64_Equals u v = (u64_cmp u v =? 0).
Proof. two (intros; unfold T_Uint64_Equals; rewrite L_Uint64_Cmp_eq; reflexivity) ||| (g_eq ltac:(unfold u64_cmp)). Qed.
Lemma L_Uint64_LessThan_eq : forall u v, T_Uint64_LessThan u v = (u64_cmp u v <? 0).
Proof. two (intros; unfold T_Uint64_LessThan; rewrite L_Uint64_Cmp_eq; reflexivity) ||| (g_eq ltac:(unfold u64_cmp)). Qed.
Lemma L_Uint64_GreaterThan_eq : forall u v, T_Uint64_GreaterThan u v = (0 <? u64_cmp u v).
Proof. two (intros; unfold T_Uint64_GreaterThan; rewrite L_Uint64_Cmp_eq; reflexivity) ||| (g_eq ltac:(unfold u64_cmp)). Qed.
Lemma L_Uint64_LessThanOrEqual_eq : forall u v, T_Uint64_LessThanOrEqual u v = negb (0 <? u64_cmp u v).
Proof. two (intros; unfold T_Uint64_LessThanOrEqual; rewrite L_Uint64_GreaterThan_eq; reflexivity) ||| (g_eq ltac:(unfold u64_cmp)). Qed.
Lemma L_Uint64_GreaterThanOrEqual_eq : forall u v, T_Uint64_GreaterThanOrEqual u v = negb (u64_cmp u v <? 0).
Proof. two (intros; unfold T_Uint64_GreaterThanOrEqual; rewrite L_Uint64_LessThan_eq; reflexivity) ||| (g_eq ltac:(unfold u64_cmp)). Qed.
Lemma L_Uint64_And_eq : forall u v, T_Uint64_And u v = Z.land u v.
Proof. two (reflexivity) ||| (g_eq idtac). Qed.
Lemma L_Uint64_Or_eq : forall u v, T_Uint64_Or u v = Z.lor u v.
Proof. two (reflexivity) ||| (g_eq idtac). Qed.
Lemma L_Uint64_Xor_eq : forall u v, T_Uint64_Xor u v = Z.lxor u v.
Proof. two (reflexivity) ||| (g_eq idtac). Qed.
Lemma L_Uint64_Not_eq : forall u, T_Uint64_Not u = not64 u.
Proof. two (reflexivity) ||| (g_eq idtac). Qed.
Lemma L_Uint64_AsUint64_eq : forall u, T_Uint64_AsUint64 u = u.
Proof. two (reflexivity) ||| (g_eq idtac). Qed.

(* ---------------- Uint128 (loop-free, shifts are in GenShift.v) ---------------- *)
Lemma L_Uint128_Zero_eq : forall u, T_Uint128_Zero u = mk128 0 0.
Proof. two (reflexivity) ||| (g_eq idtac). Qed.
Lemma L_Uint128_MaxValue_eq : forall u, T_Uint128_MaxValue u = mk128 (W - 1) (W - 1).
Proof. two (reflexivity) ||| (g_eq idtac). Qed.
Lemma L_Uint128_IsZero_eq : forall u, T_Uint128_IsZero u = ((h0 u =? 0) && (h1 u =? 0))%bool.
Proof. two (reflexivity) ||| (g_eq idtac). Qed.
Lemma L_Uint128_Uint64_eq : forall u, T_Uint128_Uint64 u = h0 u.
Proof. two (intros; unfold T_Uint128_Uint64; split_all; fin) ||| (g_eq idtac). Qed.
Lemma L_Uint128_Uint128_eq : forall u, T_Uint128_Uint128 u = u.
Proof. two (reflexivity) ||| (g_eq idtac). Qed.
Lemma L_Uint128_Uint256_eq : forall u, T_Uint128_Uint256 u = mk256 0 0 (h1 u) (h0 u).
Proof. two (reflexivity) ||| (g_eq idtac). Qed.
Lemma L_Uint128_Set64_eq : forall u v, T_Uint128_Set64 u v = mk128 0 v.
Proof. two (reflexivity) ||| (g_eq idtac). Qed.
Lemma L_Uint128_Add_eq : forall u v, wf128 u -> wf128 v -> T_Uint128_Add u v = u128_add u v.
Proof. two (intros; unfold T_Uint128_Add, u128_add; split_all; fin) ||| (g_eq ltac:(unfold u128_add)). Qed.
Lemma L_Uint128_Add64_eq : forall u v, wf128 u -> inW v -> T_Uint128_Add64 u v = u128_add64 u v.
Proof. two (intros; unfold T_Uint128_Add64, u128_add64; split_all; fin) ||| (g_eq ltac:(unfold u128_add64)). Qed.
Lemma L_Uint128_Sub_eq : forall u v, wf128 u -> wf128 v -> T_Uint128_Sub u v = u128_sub u v.
Proof. two (intros; unfold T_Uint128_Sub, u128_sub; split_all; fin) ||| (g_eq ltac:(unfold u128_sub)). Qed.
Lemma L_Uint128_Mul_eq : forall u v, wf128 u -> wf128 v -> T_Uint128_Mul u v = u128_mul u v.
Proof. two (intros; unfold T_Uint128_Mul, u128_mul; split_all; fin) ||| (g_eq ltac:(unfold u128_mul)). Qed.
Lemma L_Uint128_Mul64_eq : forall u v, wf128 u -> inW v -> T_Uint128_Mul64 u v = u128_mul64 u v.
Proof. two (intros; unfold T_Uint128_Mul64, u128_mul64; split_all; fin) ||| (g_eq ltac:(unfold u128_mul64)). Qed.
Lemma L_Uint128_QuoRem64_eq : forall u v, wf128 u -> inW v -> T_Uint128_QuoRem64 u v = u128_quorem64 u v.
Proof. two (intros; unfold T_Uint128_QuoRem64, u128_quorem64; split_all; fin) ||| (g_eq ltac:(unfold u128_quorem64)). Qed.
Lemma L_Uint128_Cmp_eq : forall u v, T_Uint128_Cmp u v = u128_cmp u v.
Proof. two (intros; unfold T_Uint128_Cmp, u128_cmp; split_all; fin) ||| (g_eq ltac:(unfold u128_cmp)). Qed.
Lemma L_Uint128_Cmp64_eq : forall u v, wf128 u -> inW v -> T_Uint128_Cmp64 u v = u128_cmp64 u v.
Proof. two (intros; unfold T_Uint128_Cmp64, u128_cmp64; split_all; fin) ||| (g_eq ltac:(unfold u128_cmp64)). Qed.
Lemma L_Uint128_Equals_eq : forall u v, T_Uint128_Equals u v = (u128_cmp u v =? 0).
Proof. two (intros; unfold T_Uint128_Equals; rewrite L_Uint128_Cmp_eq; reflexivity) ||| (g_eq ltac:(unfold u128_cmp)). Qed.
Lemma L_Uint128_LessThan_eq : forall u v, T_Uint128_LessThan u v = (u128_cmp u v <? 0).
Proof. two (intros; unfold T_Uint128_LessThan; rewrite L_Uint128_Cmp_eq; reflexivity) ||| (g_eq ltac:(unfold u128_cmp)). Qed.
Lemma L_Uint128_GreaterThan_eq : forall u v, T_Uint128_GreaterThan u v = (0 <? u128_cmp u v).
Proof. two (intros; unfold T_Uint128_GreaterThan; rewrite L_Uint128_Cmp_eq; reflexivity) ||| (g_eq ltac:(unfold u128_cmp)). Qed.
Lemma L_Uint128_LessThanOrEqual_eq : forall u v, T_Uint128_LessThanOrEqual u v = negb (0 <? u128_cmp u v).
Proof. two (intros; unfold T_Uint128_LessThanOrEqual; rewrite L_Uint128_GreaterThan_eq; reflexivity) ||| (g_eq ltac:(unfold u128_cmp)). Qed.
Lemma L_Uint128_GreaterThanOrEqual_eq : forall u v, T_Uint128_GreaterThanOrEqual u v = negb (u128_cmp u v <? 0).
Proof. two (intros; unfold T_Uint128_GreaterThanOrEqual; rewrite L_Uint128_LessThan_eq; reflexivity) ||| (g_eq ltac:(unfold u128_cmp)). Qed.
Lemma L_Uint128_And_eq : forall u v, T_Uint128_And u v = mk128 (Z.land (h1 u) (h1 v)) (Z.land (h0 u) (h0 v)).
Proof. two (reflexivity) ||| (g_eq idtac). Qed.
Lemma L_Uint128_Or_eq : forall u v, T_Uint128_Or u v = mk128 (Z.lor (h1 u) (h1 v)) (Z.lor (h0 u) (h0 v)).
Proof. two (reflexivity) ||| (g_eq idtac). Qed.
Lemma L_Uint128_Xor_eq : forall u v, T_Uint128_Xor u v = mk128 (Z.lxor (h1 u) (h1 v)) (Z.lxor (h0 u) (h0 v)).
Proof. two (reflexivity) ||| (g_eq idtac). Qed.
Lemma L_Uint128_Not_eq : forall u, T_Uint128_Not u = mk128 (not64 (h1 u)) (not64 (h0 u)).
Proof. two (reflexivity) ||| (g_eq idtac). Qed.
Lemma L_Uint128_AsUint64_eq : forall u, T_Uint128_AsUint64 u = h0 u.
Proof. two (reflexivity) ||| (g_eq idtac). Qed.

(* ---------------- Uint256 (loop-free or constant-bound loops; shifts in GenShift.v, Mul in GenMul.v) ---------------- *)
Lemma L_Uint256_Zero_eq : forall u, T_Uint256_Zero u = mk256 0 0 0 0.
Proof. two (reflexivity) ||| (g_eq idtac). Qed.
Lemma L_Uint256_MaxValue_eq : forall u, T_Uint256_MaxValue u = mk256 (W - 1) (W - 1) (W - 1) (W - 1).
Proof. two (reflexivity) ||| (g_eq idtac). Qed.
Lemma L_Uint256_IsZero_eq : forall u, T_Uint256_IsZero u = u256_iszero u.
Proof. two (reflexivity) ||| (g_eq ltac:(unfold u256_iszero)). Qed.
Lemma L_Uint256_Uint64_eq : forall u, T_Uint256_Uint64 u = q0 u.
Proof. two (intros; unfold T_Uint256_Uint64; split_all; fin) ||| (g_eq idtac). Qed.
Lemma L_Uint256_Uint128_eq : forall u, T_Uint256_Uint128 u = mk128 (q1 u) (q0 u).
Proof. two (intros; unfold T_Uint256_Uint128; split_all; fin) ||| (g_eq idtac). Qed.
Lemma L_Uint256_Uint256_eq : forall u, T_Uint256_Uint256 u = u.
Proof. two (reflexivity) ||| (g_eq idtac). Qed.
Lemma L_Uint256_Set64_eq : forall u v, T_Uint256_Set64 u v = mk256 0 0 0 v.
Proof. two (reflexivity) ||| (g_eq idtac). Qed.
(* stated on the res-valued view R_: a comparison written as a loop over limb arrays is res-valued (array indexing) *)
Lemma L_Uint256_Cmp_eq : forall u v, R_Uint256_Cmp u v = Ok (u256_cmp u v).
Proof. two (intros; unfold R_Uint256_Cmp, T_Uint256_Cmp, u256_cmp; split_all; fin) ||| (g_eq ltac:(unfold u256_cmp)). Qed.
Lemma L_Uint256_Add_eq : forall u v, wf256 u -> wf256 v -> T_Uint256_Add u v = u256_add u v.
Proof. two (intros; unfold T_Uint256_Add, u256_add; split_all; fin) ||| (g_eq ltac:(unfold u256_add)). Qed.
Lemma L_Uint256_Sub_eq : forall u v, wf256 u -> wf256 v -> T_Uint256_Sub u v = u256_sub u v.
Proof. two (intros; unfold T_Uint256_Sub, u256_sub; split_all; fin) ||| (g_eq ltac:(unfold u256_sub)). Qed.
Lemma L_Uint256_Equals_eq : forall u v, T_Uint256_Equals u v = (u256_cmp u v =? 0).
Proof. two (intros; unfold T_Uint256_Equals, T_Uint256_Cmp, u256_cmp; split_all; fin) ||| (g_eq ltac:(unfold u256_cmp)). Qed.
Lemma L_Uint256_LessThan_eq : forall u v, T_Uint256_LessThan u v = u256_lt u v.
Proof. two (intros; unfold T_Uint256_LessThan, T_Uint256_Cmp, u256_lt, u256_cmp; split_all; fin) ||| (g_eq ltac:(unfold u256_lt, u256_cmp)). Qed.
Lemma L_Uint256_GreaterThan_eq : forall u v, T_Uint256_GreaterThan u v = (0 <? u256_cmp u v).
Proof. two (intros; unfold T_Uint256_GreaterThan, T_Uint256_Cmp, u256_cmp; split_all; fin) ||| (g_eq ltac:(unfold u256_cmp)). Qed.
Lemma L_Uint256_LessThanOrEqual_eq : forall u v, T_Uint256_LessThanOrEqual u v = u256_le u v.
Proof. two (intros; unfold T_Uint256_LessThanOrEqual; rewrite L_Uint256_GreaterThan_eq; reflexivity) ||| (g_eq ltac:(unfold u256_le, u256_cmp)). Qed.
Lemma L_Uint256_GreaterThanOrEqual_eq : forall u v, T_Uint256_GreaterThanOrEqual u v = negb (u256_lt u v).
Proof. two (intros; unfold T_Uint256_GreaterThanOrEqual; rewrite L_Uint256_LessThan_eq; reflexivity) ||| (g_eq ltac:(unfold u256_lt, u256_cmp)). Qed.
Lemma L_Uint256_And_eq : forall u v, T_Uint256_And u v = mk256 (Z.land (q3 u) (q3 v)) (Z.land (q2 u) (q2 v)) (Z.land (q1 u) (q1 v)) (Z.land (q0 u) (q0 v)).
Proof. two (reflexivity) ||| (g_eq idtac). Qed.
Lemma L_Uint256_Or_eq : forall u v, T_Uint256_Or u v = mk256 (Z.lor (q3 u) (q3 v)) (Z.lor (q2 u) (q2 v)) (Z.lor (q1 u) (q1 v)) (Z.lor (q0 u) (q0 v)).
Proof. two (reflexivity) ||| (g_eq idtac). Qed.
Lemma L_Uint256_Xor_eq : forall u v, T_Uint256_Xor u v = mk256 (Z.lxor (q3 u) (q3 v)) (Z.lxor (q2 u) (q2 v)) (Z.lxor (q1 u) (q1 v)) (Z.lxor (q0 u) (q0 v)).
Proof. two (reflexivity) ||| (g_eq idtac). Qed.
Lemma L_Uint256_Not_eq : forall u, T_Uint256_Not u = mk256 (not64 (q3 u)) (not64 (q2 u)) (not64 (q1 u)) (not64 (q0 u)).
Proof. two (reflexivity) ||| (g_eq idtac). Qed.
Lemma L_Uint256_AsUint64_eq : forall u, T_Uint256_AsUint64 u = q0 u.
Proof. two (reflexivity) ||| (g_eq idtac). Qed.
