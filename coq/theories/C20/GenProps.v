(** C20 — second tie between model and code: the TRANSLATED functions.
    C20/Gen/Translated.v is regenerated from pkg/obifp/{uint64,uint128,uint256}.go of the CURRENT working tree by
    tools/go2coq_obifp.go before every build (tools/props/c20.py regen).  This file proves, for every translated
    function T_<Type>_<Method>, that it is extensionally equal to the hand-written model function of Model.v
    (theorems T_..._eq), and restates the main theorems of Props.v for the translated functions (C20T_...).
    A change of the Go source that changes a translated function breaks the corresponding T_..._eq here.
    Hypotheses of the equalities: shift counts are uint values (0 <= n < W); QuoRem / Div need well-formed limbs
    (the wraps written out by the translator — uint(lzcnt), 63-n, tq--, n -= 64 — are shown not to wrap).
    Proof style: unfold both sides, case-split every comparison (Z.eqb_spec / ltb_spec / leb_spec), close by
    reflexivity / lia — insensitive to renamed locals, reordered independent statements, a > b written b < a,
    re-nested conditions. *)
From Coq Require Import ZArith List Bool Lia.
From OBI.C20 Require Import Model Proofs Props GenTac GenProofs GenShift GenDiv GenMul.
From OBI.C20.Gen Require Import Translated.
Import ListNotations.
Open Scope Z_scope.

(* ---------------- T_f = f for every translated function (lemmas in GenProofs.v / GenMul.v) ---------------- *)
Theorem T_Uint64_Zero_eq : forall u, T_Uint64_Zero u = 0.
Proof. exact L_Uint64_Zero_eq. Qed.
Theorem T_Uint64_MaxValue_eq : forall u, T_Uint64_MaxValue u = W - 1.
Proof. exact L_Uint64_MaxValue_eq. Qed.
Theorem T_Uint64_IsZero_eq : forall u, T_Uint64_IsZero u = (u =? 0).
Proof. exact L_Uint64_IsZero_eq. Qed.
Theorem T_Uint64_Uint64_eq : forall u, T_Uint64_Uint64 u = u.
Proof. exact L_Uint64_Uint64_eq. Qed.
Theorem T_Uint64_Uint128_eq : forall u, T_Uint64_Uint128 u = mk128 0 u.
Proof. exact L_Uint64_Uint128_eq. Qed.
Theorem T_Uint64_Uint256_eq : forall u, T_Uint64_Uint256 u = mk256 0 0 0 u.
Proof. exact L_Uint64_Uint256_eq. Qed.
Theorem T_Uint64_Set64_eq : forall u v, T_Uint64_Set64 u v = v.
Proof. exact L_Uint64_Set64_eq. Qed.
Theorem T_Uint64_LeftShift64_eq : forall u n c, inW u -> 0 <= n < W -> T_Uint64_LeftShift64 u n c = leftshift64 u n c.
Proof. exact L_Uint64_LeftShift64_eq. Qed.
Theorem T_Uint64_RightShift64_eq : forall u n c, inW u -> 0 <= n < W -> T_Uint64_RightShift64 u n c = rightshift64 u n c.
Proof. exact L_Uint64_RightShift64_eq. Qed.
Theorem T_Uint64_Add64_eq : forall u v c, T_Uint64_Add64 u v c = add64 u v c.
Proof. exact L_Uint64_Add64_eq. Qed.
Theorem T_Uint64_Sub64_eq : forall u v c, T_Uint64_Sub64 u v c = sub64 u v c.
Proof. exact L_Uint64_Sub64_eq. Qed.
Theorem T_Uint64_Mul64_eq : forall u v, T_Uint64_Mul64 u v = (snd (mul64 u v), fst (mul64 u v)).
Proof. exact L_Uint64_Mul64_eq. Qed.
Theorem T_Uint64_LeftShift_eq : forall u n, inW u -> 0 <= n < W -> T_Uint64_LeftShift u n = u64_shl u n.
Proof. exact L_Uint64_LeftShift_eq. Qed.
Theorem T_Uint64_RightShift_eq : forall u n, inW u -> 0 <= n < W -> T_Uint64_RightShift u n = u64_shr u n.
Proof. exact L_Uint64_RightShift_eq. Qed.
Theorem T_Uint64_Add_eq : forall u v, inW u -> inW v -> T_Uint64_Add u v = u64_add u v.
Proof. exact L_Uint64_Add_eq. Qed.
Theorem T_Uint64_Sub_eq : forall u v, inW u -> inW v -> T_Uint64_Sub u v = u64_sub u v.
Proof. exact L_Uint64_Sub_eq. Qed.
Theorem T_Uint64_Mul_eq : forall u v, inW u -> inW v -> T_Uint64_Mul u v = u64_mul u v.
Proof. exact L_Uint64_Mul_eq. Qed.
Theorem T_Uint64_Cmp_eq : forall u v, T_Uint64_Cmp u v = u64_cmp u v.
Proof. exact L_Uint64_Cmp_eq. Qed.
Theorem T_Uint64_Equals_eq : forall u v, T_Uint64_Equals u v = (u64_cmp u v =? 0).
Proof. exact L_Uint64_Equals_eq. Qed.
Theorem T_Uint64_LessThan_eq : forall u v, T_Uint64_LessThan u v = (u64_cmp u v <? 0).
Proof. exact L_Uint64_LessThan_eq. Qed.
Theorem T_Uint64_GreaterThan_eq : forall u v, T_Uint64_GreaterThan u v = (0 <? u64_cmp u v).
Proof. exact L_Uint64_GreaterThan_eq. Qed.
Theorem T_Uint64_LessThanOrEqual_eq : forall u v, T_Uint64_LessThanOrEqual u v = negb (0 <? u64_cmp u v).
Proof. exact L_Uint64_LessThanOrEqual_eq. Qed.
Theorem T_Uint64_GreaterThanOrEqual_eq : forall u v, T_Uint64_GreaterThanOrEqual u v = negb (u64_cmp u v <? 0).
Proof. exact L_Uint64_GreaterThanOrEqual_eq. Qed.
Theorem T_Uint64_And_eq : forall u v, T_Uint64_And u v = Z.land u v.
Proof. exact L_Uint64_And_eq. Qed.
Theorem T_Uint64_Or_eq : forall u v, T_Uint64_Or u v = Z.lor u v.
Proof. exact L_Uint64_Or_eq. Qed.
Theorem T_Uint64_Xor_eq : forall u v, T_Uint64_Xor u v = Z.lxor u v.
Proof. exact L_Uint64_Xor_eq. Qed.
Theorem T_Uint64_Not_eq : forall u, T_Uint64_Not u = not64 u.
Proof. exact L_Uint64_Not_eq. Qed.
Theorem T_Uint64_AsUint64_eq : forall u, T_Uint64_AsUint64 u = u.
Proof. exact L_Uint64_AsUint64_eq. Qed.
Theorem T_Uint128_Zero_eq : forall u, T_Uint128_Zero u = mk128 0 0.
Proof. exact L_Uint128_Zero_eq. Qed.
Theorem T_Uint128_MaxValue_eq : forall u, T_Uint128_MaxValue u = mk128 (W - 1) (W - 1).
Proof. exact L_Uint128_MaxValue_eq. Qed.
Theorem T_Uint128_IsZero_eq : forall u, T_Uint128_IsZero u = ((h0 u =? 0) && (h1 u =? 0))%bool.
Proof. exact L_Uint128_IsZero_eq. Qed.
Theorem T_Uint128_Uint64_eq : forall u, T_Uint128_Uint64 u = h0 u.
Proof. exact L_Uint128_Uint64_eq. Qed.
Theorem T_Uint128_Uint128_eq : forall u, T_Uint128_Uint128 u = u.
Proof. exact L_Uint128_Uint128_eq. Qed.
Theorem T_Uint128_Uint256_eq : forall u, T_Uint128_Uint256 u = mk256 0 0 (h1 u) (h0 u).
Proof. exact L_Uint128_Uint256_eq. Qed.
Theorem T_Uint128_Set64_eq : forall u v, T_Uint128_Set64 u v = mk128 0 v.
Proof. exact L_Uint128_Set64_eq. Qed.
Theorem T_Uint128_LeftShift_eq : forall u n, wf128 u -> 0 <= n < W -> T_Uint128_LeftShift u n = u128_shl u n.
Proof. exact L_Uint128_LeftShift_eq. Qed.
Theorem T_Uint128_RightShift_eq : forall u n, wf128 u -> 0 <= n < W -> T_Uint128_RightShift u n = u128_shr u n.
Proof. exact L_Uint128_RightShift_eq. Qed.
Theorem T_Uint128_Add_eq : forall u v, wf128 u -> wf128 v -> T_Uint128_Add u v = u128_add u v.
Proof. exact L_Uint128_Add_eq. Qed.
Theorem T_Uint128_Add64_eq : forall u v, wf128 u -> inW v -> T_Uint128_Add64 u v = u128_add64 u v.
Proof. exact L_Uint128_Add64_eq. Qed.
Theorem T_Uint128_Sub_eq : forall u v, wf128 u -> wf128 v -> T_Uint128_Sub u v = u128_sub u v.
Proof. exact L_Uint128_Sub_eq. Qed.
Theorem T_Uint128_Mul_eq : forall u v, wf128 u -> wf128 v -> T_Uint128_Mul u v = u128_mul u v.
Proof. exact L_Uint128_Mul_eq. Qed.
Theorem T_Uint128_Mul64_eq : forall u v, wf128 u -> inW v -> T_Uint128_Mul64 u v = u128_mul64 u v.
Proof. exact L_Uint128_Mul64_eq. Qed.
Theorem T_Uint128_QuoRem64_eq : forall u v, wf128 u -> inW v -> T_Uint128_QuoRem64 u v = u128_quorem64 u v.
Proof. exact L_Uint128_QuoRem64_eq. Qed.
Theorem T_Uint128_Cmp_eq : forall u v, T_Uint128_Cmp u v = u128_cmp u v.
Proof. exact L_Uint128_Cmp_eq. Qed.
Theorem T_Uint128_Cmp64_eq : forall u v, wf128 u -> inW v -> T_Uint128_Cmp64 u v = u128_cmp64 u v.
Proof. exact L_Uint128_Cmp64_eq. Qed.
Theorem T_Uint128_Equals_eq : forall u v, T_Uint128_Equals u v = (u128_cmp u v =? 0).
Proof. exact L_Uint128_Equals_eq. Qed.
Theorem T_Uint128_LessThan_eq : forall u v, T_Uint128_LessThan u v = (u128_cmp u v <? 0).
Proof. exact L_Uint128_LessThan_eq. Qed.
Theorem T_Uint128_GreaterThan_eq : forall u v, T_Uint128_GreaterThan u v = (0 <? u128_cmp u v).
Proof. exact L_Uint128_GreaterThan_eq. Qed.
Theorem T_Uint128_LessThanOrEqual_eq : forall u v, T_Uint128_LessThanOrEqual u v = negb (0 <? u128_cmp u v).
Proof. exact L_Uint128_LessThanOrEqual_eq. Qed.
Theorem T_Uint128_GreaterThanOrEqual_eq : forall u v, T_Uint128_GreaterThanOrEqual u v = negb (u128_cmp u v <? 0).
Proof. exact L_Uint128_GreaterThanOrEqual_eq. Qed.
Theorem T_Uint128_And_eq : forall u v, T_Uint128_And u v = mk128 (Z.land (h1 u) (h1 v)) (Z.land (h0 u) (h0 v)).
Proof. exact L_Uint128_And_eq. Qed.
Theorem T_Uint128_Or_eq : forall u v, T_Uint128_Or u v = mk128 (Z.lor (h1 u) (h1 v)) (Z.lor (h0 u) (h0 v)).
Proof. exact L_Uint128_Or_eq. Qed.
Theorem T_Uint128_Xor_eq : forall u v, T_Uint128_Xor u v = mk128 (Z.lxor (h1 u) (h1 v)) (Z.lxor (h0 u) (h0 v)).
Proof. exact L_Uint128_Xor_eq. Qed.
Theorem T_Uint128_Not_eq : forall u, T_Uint128_Not u = mk128 (not64 (h1 u)) (not64 (h0 u)).
Proof. exact L_Uint128_Not_eq. Qed.
Theorem T_Uint128_AsUint64_eq : forall u, T_Uint128_AsUint64 u = h0 u.
Proof. exact L_Uint128_AsUint64_eq. Qed.
Theorem T_Uint256_Zero_eq : forall u, T_Uint256_Zero u = mk256 0 0 0 0.
Proof. exact L_Uint256_Zero_eq. Qed.
Theorem T_Uint256_MaxValue_eq : forall u, T_Uint256_MaxValue u = mk256 (W - 1) (W - 1) (W - 1) (W - 1).
Proof. exact L_Uint256_MaxValue_eq. Qed.
Theorem T_Uint256_IsZero_eq : forall u, T_Uint256_IsZero u = u256_iszero u.
Proof. exact L_Uint256_IsZero_eq. Qed.
Theorem T_Uint256_Uint64_eq : forall u, T_Uint256_Uint64 u = q0 u.
Proof. exact L_Uint256_Uint64_eq. Qed.
Theorem T_Uint256_Uint128_eq : forall u, T_Uint256_Uint128 u = mk128 (q1 u) (q0 u).
Proof. exact L_Uint256_Uint128_eq. Qed.
Theorem T_Uint256_Uint256_eq : forall u, T_Uint256_Uint256 u = u.
Proof. exact L_Uint256_Uint256_eq. Qed.
Theorem T_Uint256_Set64_eq : forall u v, T_Uint256_Set64 u v = mk256 0 0 0 v.
Proof. exact L_Uint256_Set64_eq. Qed.
Theorem T_Uint256_Cmp_eq : forall u v, R_Uint256_Cmp u v = Ok (u256_cmp u v).
Proof. exact L_Uint256_Cmp_eq. Qed.
Theorem T_Uint256_Add_eq : forall u v, wf256 u -> wf256 v -> T_Uint256_Add u v = u256_add u v.
Proof. exact L_Uint256_Add_eq. Qed.
Theorem T_Uint256_Sub_eq : forall u v, wf256 u -> wf256 v -> T_Uint256_Sub u v = u256_sub u v.
Proof. exact L_Uint256_Sub_eq. Qed.
Theorem T_Uint256_Equals_eq : forall u v, T_Uint256_Equals u v = (u256_cmp u v =? 0).
Proof. exact L_Uint256_Equals_eq. Qed.
Theorem T_Uint256_LessThan_eq : forall u v, T_Uint256_LessThan u v = u256_lt u v.
Proof. exact L_Uint256_LessThan_eq. Qed.
Theorem T_Uint256_GreaterThan_eq : forall u v, T_Uint256_GreaterThan u v = (0 <? u256_cmp u v).
Proof. exact L_Uint256_GreaterThan_eq. Qed.
Theorem T_Uint256_LessThanOrEqual_eq : forall u v, T_Uint256_LessThanOrEqual u v = u256_le u v.
Proof. exact L_Uint256_LessThanOrEqual_eq. Qed.
Theorem T_Uint256_GreaterThanOrEqual_eq : forall u v, T_Uint256_GreaterThanOrEqual u v = negb (u256_lt u v).
Proof. exact L_Uint256_GreaterThanOrEqual_eq. Qed.
Theorem T_Uint256_And_eq : forall u v, T_Uint256_And u v = mk256 (Z.land (q3 u) (q3 v)) (Z.land (q2 u) (q2 v)) (Z.land (q1 u) (q1 v)) (Z.land (q0 u) (q0 v)).
Proof. exact L_Uint256_And_eq. Qed.
Theorem T_Uint256_Or_eq : forall u v, T_Uint256_Or u v = mk256 (Z.lor (q3 u) (q3 v)) (Z.lor (q2 u) (q2 v)) (Z.lor (q1 u) (q1 v)) (Z.lor (q0 u) (q0 v)).
Proof. exact L_Uint256_Or_eq. Qed.
Theorem T_Uint256_Xor_eq : forall u v, T_Uint256_Xor u v = mk256 (Z.lxor (q3 u) (q3 v)) (Z.lxor (q2 u) (q2 v)) (Z.lxor (q1 u) (q1 v)) (Z.lxor (q0 u) (q0 v)).
Proof. exact L_Uint256_Xor_eq. Qed.
Theorem T_Uint256_Not_eq : forall u, T_Uint256_Not u = mk256 (not64 (q3 u)) (not64 (q2 u)) (not64 (q1 u)) (not64 (q0 u)).
Proof. exact L_Uint256_Not_eq. Qed.
Theorem T_Uint256_AsUint64_eq : forall u, T_Uint256_AsUint64 u = q0 u.
Proof. exact L_Uint256_AsUint64_eq. Qed.
Theorem T_Uint128_QuoRem_eq : forall u v, wf128 u -> wf128 v -> T_Uint128_QuoRem u v = u128_quorem u v.
Proof. exact L_Uint128_QuoRem_eq. Qed.
Theorem T_Uint128_Div_eq : forall u v, wf128 u -> wf128 v -> T_Uint128_Div u v = rmap fst (u128_quorem u v).
Proof. exact L_Uint128_Div_eq. Qed.
Theorem T_Uint128_Mod_eq : forall u v, wf128 u -> wf128 v -> T_Uint128_Mod u v = rmap snd (u128_quorem u v).
Proof. exact L_Uint128_Mod_eq. Qed.
Theorem T_Uint128_Div64_eq : forall u v, wf128 u -> inW v -> T_Uint128_Div64 u v = rmap fst (u128_quorem64 u v).
Proof. exact L_Uint128_Div64_eq. Qed.
Theorem T_Uint128_Mod64_eq : forall u v, wf128 u -> inW v -> T_Uint128_Mod64 u v = rmap snd (u128_quorem64 u v).
Proof. exact L_Uint128_Mod64_eq. Qed.
Theorem T_Uint256_LeftShift_eq : forall u n, wf256 u -> 0 <= n < W -> T_Uint256_LeftShift u n = Ok (u256_shl u n).
Proof. exact L_Uint256_LeftShift_eq. Qed.
Theorem T_Uint256_RightShift_eq : forall u n, wf256 u -> 0 <= n < W -> T_Uint256_RightShift u n = Ok (u256_shr u n).
Proof. exact L_Uint256_RightShift_eq. Qed.
Theorem T_Uint256_Div_eq : forall u v, wf256 u -> wf256 v -> T_Uint256_Div u v = u256_div u v.
Proof. exact L_Uint256_Div_eq. Qed.
Theorem T_Uint256_Mul_eq : forall u v, wf256 u -> wf256 v -> T_Uint256_Mul u v = u256_mul u v.
Proof. exact L_Uint256_Mul_eq. Qed.

(* ---------------- corollaries: the C20 theorems restated for the translated functions ----------------
   The main ones are Theorems (counted obligations, Print Assumptions below); the others are Corollary items: each is
   `rewrite T_..._eq; apply C20_...`, i.e. derived only from a T_..._eq theorem of this file and a theorem of Props.v,
   both of which have their assumptions printed. *)
Corollary C20T_shl64 : forall w n, inW w -> 0 <= n < W -> T_Uint64_LeftShift w n = (w * 2^n) mod W.
Proof. intros. rewrite T_Uint64_LeftShift_eq by assumption. apply C20_shl64; [assumption|lia]. Qed.
Corollary C20T_shr64 : forall w n, inW w -> 0 <= n < W -> T_Uint64_RightShift w n = w / 2^n.
Proof. intros. rewrite T_Uint64_RightShift_eq by assumption. apply C20_shr64; [assumption|lia]. Qed.
Corollary C20T_shl128 : forall u n, wf128 u -> 0 <= n < W ->
  wf128 (T_Uint128_LeftShift u n) /\ val128 (T_Uint128_LeftShift u n) = (val128 u * 2^n) mod (W * W).
Proof. intros. rewrite T_Uint128_LeftShift_eq by assumption. apply C20_shl128; [assumption|lia]. Qed.
Corollary C20T_shr128 : forall u n, wf128 u -> 0 <= n < W ->
  wf128 (T_Uint128_RightShift u n) /\ val128 (T_Uint128_RightShift u n) = val128 u / 2^n.
Proof. intros. rewrite T_Uint128_RightShift_eq by assumption. apply C20_shr128; [assumption|lia]. Qed.
Theorem C20T_shl256 : forall u n, wf256 u -> 0 <= n < W ->
  exists r, T_Uint256_LeftShift u n = Ok r /\ wf256 r /\ val256 r = (val256 u * 2^n) mod W4.
Proof. intros. rewrite T_Uint256_LeftShift_eq by assumption. eexists; split; [reflexivity|]. apply C20_shl256; [assumption|lia]. Qed.
Theorem C20T_shr256 : forall u n, wf256 u -> 0 <= n < W ->
  exists r, T_Uint256_RightShift u n = Ok r /\ wf256 r /\ val256 r = val256 u / 2^n.
Proof. intros. rewrite T_Uint256_RightShift_eq by assumption. eexists; split; [reflexivity|]. apply C20_shr256; [assumption|lia]. Qed.

Corollary C20T_add64 : forall a b, inW a -> inW b ->
  (a + b < W -> T_Uint64_Add a b = Ok (a + b)) /\ (W <= a + b -> T_Uint64_Add a b = Panic).
Proof. intros. rewrite T_Uint64_Add_eq by assumption. apply C20_add64; assumption. Qed.
Corollary C20T_sub64 : forall a b, inW a -> inW b ->
  (b <= a -> T_Uint64_Sub a b = Ok (a - b)) /\ (a < b -> T_Uint64_Sub a b = Panic).
Proof. intros. rewrite T_Uint64_Sub_eq by assumption. apply C20_sub64; assumption. Qed.
Corollary C20T_mul64 : forall a b, inW a -> inW b ->
  (a * b < W -> T_Uint64_Mul a b = Ok (a * b)) /\ (W <= a * b -> T_Uint64_Mul a b = Panic).
Proof. intros. rewrite T_Uint64_Mul_eq by assumption. apply C20_mul64; assumption. Qed.
Corollary C20T_add128 : forall u v, wf128 u -> wf128 v ->
  (val128 u + val128 v < W * W ->
     exists r, T_Uint128_Add u v = Ok r /\ wf128 r /\ val128 r = val128 u + val128 v) /\
  (W * W <= val128 u + val128 v -> T_Uint128_Add u v = Panic).
Proof. intros. rewrite T_Uint128_Add_eq by assumption. apply C20_add128; assumption. Qed.
Corollary C20T_add128_64 : forall u v, wf128 u -> inW v ->
  (val128 u + v < W * W -> exists r, T_Uint128_Add64 u v = Ok r /\ wf128 r /\ val128 r = val128 u + v) /\
  (W * W <= val128 u + v -> T_Uint128_Add64 u v = Panic).
Proof. intros. rewrite T_Uint128_Add64_eq by assumption. apply C20_add128_64; assumption. Qed.
Corollary C20T_sub128 : forall u v, wf128 u -> wf128 v ->
  (val128 v <= val128 u ->
     exists r, T_Uint128_Sub u v = Ok r /\ wf128 r /\ val128 r = val128 u - val128 v) /\
  (val128 u < val128 v -> T_Uint128_Sub u v = Panic).
Proof. intros. rewrite T_Uint128_Sub_eq by assumption. apply C20_sub128; assumption. Qed.
Theorem C20T_add256 : forall u v, wf256 u -> wf256 v ->
  (val256 u + val256 v < W4 ->
     exists r, T_Uint256_Add u v = Ok r /\ wf256 r /\ val256 r = val256 u + val256 v) /\
  (W4 <= val256 u + val256 v -> T_Uint256_Add u v = Panic).
Proof. intros. rewrite T_Uint256_Add_eq by assumption. apply C20_add256; assumption. Qed.
Theorem C20T_sub256 : forall u v, wf256 u -> wf256 v ->
  (val256 v <= val256 u ->
     exists r, T_Uint256_Sub u v = Ok r /\ wf256 r /\ val256 r = val256 u - val256 v) /\
  (val256 u < val256 v -> T_Uint256_Sub u v = Panic).
Proof. intros. rewrite T_Uint256_Sub_eq by assumption. apply C20_sub256; assumption. Qed.

Corollary C20T_mul128_64 : forall u v, wf128 u -> inW v ->
  (val128 u * v < W * W -> exists r, T_Uint128_Mul64 u v = Ok r /\ wf128 r /\ val128 r = val128 u * v) /\
  (W * W <= val128 u * v -> T_Uint128_Mul64 u v = Panic).
Proof. intros. rewrite T_Uint128_Mul64_eq by assumption. apply C20_mul128_64; assumption. Qed.
(* PARTIAL, as C20_mul128_partial: known finding C20/mul128-high-limbs *)
Corollary C20T_mul128_partial : forall u v, wf128 u -> wf128 v -> h1 u = 0 \/ h1 v = 0 ->
  (val128 u * val128 v < W * W ->
     exists r, T_Uint128_Mul u v = Ok r /\ wf128 r /\ val128 r = val128 u * val128 v) /\
  (W * W <= val128 u * val128 v -> T_Uint128_Mul u v = Panic).
Proof. intros. rewrite T_Uint128_Mul_eq by assumption. apply C20_mul128_partial; assumption. Qed.
Corollary C20T_mul128_wraps_only_by_high_product : forall u v, wf128 u -> wf128 v ->
  match T_Uint128_Mul u v with
  | Ok r => wf128 r /\ val128 r = val128 u * val128 v - (h1 u * h1 v) * (W * W)
  | Panic => W * W <= val128 u * val128 v
  | OutOfFuel => False
  end.
Proof. intros. rewrite T_Uint128_Mul_eq by assumption. apply C20_mul128_wraps_only_by_high_product; assumption. Qed.
Corollary C20T_mul128_refuted :
  exists u v, wf128 u /\ wf128 v /\ W * W <= val128 u * val128 v /\ T_Uint128_Mul u v <> Panic.
Proof. destruct C20_mul128_refuted as (u & v & Hu & Hv & H). exists u, v. rewrite T_Uint128_Mul_eq by assumption. exact (conj Hu (conj Hv H)). Qed.

Theorem C20T_mul256 : forall u v, wf256 u -> wf256 v ->
  (val256 u * val256 v < W4 ->
     exists r, T_Uint256_Mul u v = Ok r /\ wf256 r /\ val256 r = val256 u * val256 v) /\
  (W4 <= val256 u * val256 v -> T_Uint256_Mul u v = Panic).
Proof. intros. rewrite T_Uint256_Mul_eq by assumption. apply C20_mul256; assumption. Qed.

Theorem C20T_div256 : forall u v, wf256 u -> wf256 v -> val256 v <> 0 ->
  exists q, T_Uint256_Div u v = Ok q /\ wf256 q /\ val256 q = val256 u / val256 v.
Proof. intros. rewrite T_Uint256_Div_eq by assumption. apply C20_div256; assumption. Qed.
Corollary C20T_quorem128_64 : forall u v, wf128 u -> inW v -> v <> 0 ->
  exists q r, T_Uint128_QuoRem64 u v = Ok (q, r) /\ wf128 q /\ val128 q = val128 u / v /\ r = val128 u mod v.
Proof. intros. rewrite T_Uint128_QuoRem64_eq by assumption. apply C20_quorem128_64; assumption. Qed.
Theorem C20T_quorem128 : forall u v, wf128 u -> wf128 v -> val128 v <> 0 ->
  exists q r, T_Uint128_QuoRem u v = Ok (q, r) /\ wf128 q /\ wf128 r /\
              val128 q = val128 u / val128 v /\ val128 r = val128 u mod val128 v.
Proof. intros. rewrite T_Uint128_QuoRem_eq by assumption. apply C20_quorem128; assumption. Qed.

Corollary C20T_cmp64 : forall a b, T_Uint64_Cmp a b = match a ?= b with Lt => -1 | Eq => 0 | Gt => 1 end.
Proof. intros. rewrite T_Uint64_Cmp_eq. apply C20_cmp64. Qed.
Corollary C20T_cmp128 : forall u v, wf128 u -> wf128 v ->
  T_Uint128_Cmp u v = match val128 u ?= val128 v with Lt => -1 | Eq => 0 | Gt => 1 end.
Proof. intros. rewrite T_Uint128_Cmp_eq. apply C20_cmp128; assumption. Qed.
Corollary C20T_cmp128_64 : forall u v, wf128 u -> inW v ->
  T_Uint128_Cmp64 u v = match val128 u ?= v with Lt => -1 | Eq => 0 | Gt => 1 end.
Proof. intros. rewrite T_Uint128_Cmp64_eq by assumption. apply C20_cmp128_64; assumption. Qed.
Theorem C20T_cmp256 : forall u v, wf256 u -> wf256 v ->
  R_Uint256_Cmp u v = Ok (match val256 u ?= val256 v with Lt => -1 | Eq => 0 | Gt => 1 end).
Proof. intros. rewrite T_Uint256_Cmp_eq. f_equal. apply C20_cmp256; assumption. Qed.

Corollary C20T_and128 : forall u v, wf128 u -> wf128 v -> val128 (T_Uint128_And u v) = Z.land (val128 u) (val128 v).
Proof. intros. rewrite T_Uint128_And_eq. apply C20_and128; assumption. Qed.
Corollary C20T_or128 : forall u v, wf128 u -> wf128 v -> val128 (T_Uint128_Or u v) = Z.lor (val128 u) (val128 v).
Proof. intros. rewrite T_Uint128_Or_eq. apply C20_or128; assumption. Qed.
Corollary C20T_xor128 : forall u v, wf128 u -> wf128 v -> val128 (T_Uint128_Xor u v) = Z.lxor (val128 u) (val128 v).
Proof. intros. rewrite T_Uint128_Xor_eq. apply C20_xor128; assumption. Qed.
Corollary C20T_not128 : forall u, wf128 u -> val128 (T_Uint128_Not u) = W * W - 1 - val128 u.
Proof. intros. rewrite T_Uint128_Not_eq. apply C20_not128; assumption. Qed.
Corollary C20T_and256 : forall u v, wf256 u -> wf256 v -> val256 (T_Uint256_And u v) = Z.land (val256 u) (val256 v).
Proof. intros. rewrite T_Uint256_And_eq. apply C20_and256; assumption. Qed.
Corollary C20T_or256 : forall u v, wf256 u -> wf256 v -> val256 (T_Uint256_Or u v) = Z.lor (val256 u) (val256 v).
Proof. intros. rewrite T_Uint256_Or_eq. apply C20_or256; assumption. Qed.
Corollary C20T_xor256 : forall u v, wf256 u -> wf256 v -> val256 (T_Uint256_Xor u v) = Z.lxor (val256 u) (val256 v).
Proof. intros. rewrite T_Uint256_Xor_eq. apply C20_xor256; assumption. Qed.
Corollary C20T_not256 : forall u, wf256 u -> val256 (T_Uint256_Not u) = W4 - 1 - val256 u.
Proof. intros. rewrite T_Uint256_Not_eq. apply C20_not256; assumption. Qed.

Corollary C20T_cast_256_128 : forall u, wf256 u -> val256 u < W * W -> val128 (T_Uint256_Uint128 u) = val256 u.
Proof. intros. rewrite T_Uint256_Uint128_eq. apply C20_cast_256_128; assumption. Qed.
Corollary C20T_cast_256_64 : forall u, wf256 u -> val256 u < W -> T_Uint256_Uint64 u = val256 u.
Proof. intros. rewrite T_Uint256_Uint64_eq. apply C20_cast_256_64; assumption. Qed.
Corollary C20T_cast_128_64 : forall u, wf128 u -> val128 u < W -> T_Uint128_Uint64 u = val128 u.
Proof. intros. rewrite T_Uint128_Uint64_eq. apply C20_cast_128_64; assumption. Qed.
Corollary C20T_cast_128_256 : forall u, wf128 u -> val256 (T_Uint128_Uint256 u) = val128 u.
Proof. intros. rewrite T_Uint128_Uint256_eq. apply C20_cast_128_256; assumption. Qed.
Corollary C20T_cast_64_256 : forall x, val256 (T_Uint64_Uint256 x) = x.
Proof. intros. rewrite T_Uint64_Uint256_eq. apply C20_cast_64_256. Qed.
Corollary C20T_cast_64_128 : forall x, val128 (T_Uint64_Uint128 x) = x.
Proof. intros. rewrite T_Uint64_Uint128_eq. apply C20_cast_64_128. Qed.

(** non-vacuity: the hypotheses of the equalities are satisfiable by non-trivial operands *)
Example C20T_nonvacuous : wf256 (mk256 (W - 1) 1 0 (W - 1)) /\ wf128 (mk128 (W - 1) 5) /\ 0 <= 200 < W.
Proof. unfold wf256, wf128; cbn; repeat split; vm_compute; congruence. Qed.

Print Assumptions T_Uint64_Zero_eq.
Print Assumptions T_Uint64_MaxValue_eq.
Print Assumptions T_Uint64_IsZero_eq.
Print Assumptions T_Uint64_Uint64_eq.
Print Assumptions T_Uint64_Uint128_eq.
Print Assumptions T_Uint64_Uint256_eq.
Print Assumptions T_Uint64_Set64_eq.
Print Assumptions T_Uint64_LeftShift64_eq.
Print Assumptions T_Uint64_RightShift64_eq.
Print Assumptions T_Uint64_Add64_eq.
Print Assumptions T_Uint64_Sub64_eq.
Print Assumptions T_Uint64_Mul64_eq.
Print Assumptions T_Uint64_LeftShift_eq.
Print Assumptions T_Uint64_RightShift_eq.
Print Assumptions T_Uint64_Add_eq.
Print Assumptions T_Uint64_Sub_eq.
Print Assumptions T_Uint64_Mul_eq.
Print Assumptions T_Uint64_Cmp_eq.
Print Assumptions T_Uint64_Equals_eq.
Print Assumptions T_Uint64_LessThan_eq.
Print Assumptions T_Uint64_GreaterThan_eq.
Print Assumptions T_Uint64_LessThanOrEqual_eq.
Print Assumptions T_Uint64_GreaterThanOrEqual_eq.
Print Assumptions T_Uint64_And_eq.
Print Assumptions T_Uint64_Or_eq.
Print Assumptions T_Uint64_Xor_eq.
Print Assumptions T_Uint64_Not_eq.
Print Assumptions T_Uint64_AsUint64_eq.
Print Assumptions T_Uint128_Zero_eq.
Print Assumptions T_Uint128_MaxValue_eq.
Print Assumptions T_Uint128_IsZero_eq.
Print Assumptions T_Uint128_Uint64_eq.
Print Assumptions T_Uint128_Uint128_eq.
Print Assumptions T_Uint128_Uint256_eq.
Print Assumptions T_Uint128_Set64_eq.
Print Assumptions T_Uint128_LeftShift_eq.
Print Assumptions T_Uint128_RightShift_eq.
Print Assumptions T_Uint128_Add_eq.
Print Assumptions T_Uint128_Add64_eq.
Print Assumptions T_Uint128_Sub_eq.
Print Assumptions T_Uint128_Mul_eq.
Print Assumptions T_Uint128_Mul64_eq.
Print Assumptions T_Uint128_QuoRem64_eq.
Print Assumptions T_Uint128_Cmp_eq.
Print Assumptions T_Uint128_Cmp64_eq.
Print Assumptions T_Uint128_Equals_eq.
Print Assumptions T_Uint128_LessThan_eq.
Print Assumptions T_Uint128_GreaterThan_eq.
Print Assumptions T_Uint128_LessThanOrEqual_eq.
Print Assumptions T_Uint128_GreaterThanOrEqual_eq.
Print Assumptions T_Uint128_And_eq.
Print Assumptions T_Uint128_Or_eq.
Print Assumptions T_Uint128_Xor_eq.
Print Assumptions T_Uint128_Not_eq.
Print Assumptions T_Uint128_AsUint64_eq.
Print Assumptions T_Uint256_Zero_eq.
Print Assumptions T_Uint256_MaxValue_eq.
Print Assumptions T_Uint256_IsZero_eq.
Print Assumptions T_Uint256_Uint64_eq.
Print Assumptions T_Uint256_Uint128_eq.
Print Assumptions T_Uint256_Uint256_eq.
Print Assumptions T_Uint256_Set64_eq.
Print Assumptions T_Uint256_Cmp_eq.
Print Assumptions T_Uint256_Add_eq.
Print Assumptions T_Uint256_Sub_eq.
Print Assumptions T_Uint256_Equals_eq.
Print Assumptions T_Uint256_LessThan_eq.
Print Assumptions T_Uint256_GreaterThan_eq.
Print Assumptions T_Uint256_LessThanOrEqual_eq.
Print Assumptions T_Uint256_GreaterThanOrEqual_eq.
Print Assumptions T_Uint256_And_eq.
Print Assumptions T_Uint256_Or_eq.
Print Assumptions T_Uint256_Xor_eq.
Print Assumptions T_Uint256_Not_eq.
Print Assumptions T_Uint256_AsUint64_eq.
Print Assumptions T_Uint128_QuoRem_eq.
Print Assumptions T_Uint128_Div_eq.
Print Assumptions T_Uint128_Mod_eq.
Print Assumptions T_Uint128_Div64_eq.
Print Assumptions T_Uint128_Mod64_eq.
Print Assumptions T_Uint256_LeftShift_eq.
Print Assumptions T_Uint256_RightShift_eq.
Print Assumptions T_Uint256_Div_eq.
Print Assumptions T_Uint256_Mul_eq.
Print Assumptions C20T_shl256.
Print Assumptions C20T_shr256.
Print Assumptions C20T_add256.
Print Assumptions C20T_sub256.
Print Assumptions C20T_mul256.
Print Assumptions C20T_div256.
Print Assumptions C20T_quorem128.
Print Assumptions C20T_cmp256.
