(** C20 — executable model of pkg/obifp (Uint64 / Uint128 / Uint256).
    Limbs are [Z] in [0, 2^64); every method is transcribed line by line from the Go source
    (as repaired by the fix: commits recorded in known_findings.json); the pre-repair versions of
    the defective methods are kept under the suffix [_orig] for the [_refuted] theorems.
    Executable definitions only: proofs live in Proofs.v, property theorems in Props.v. *)
From Coq Require Import ZArith List Bool.
Import ListNotations.
Open Scope Z_scope.

Definition W : Z := 2^64.

(** math/bits primitives (exact by definition) *)
Definition add64 (x y c : Z) : Z * Z := ((x + y + c) mod W, (x + y + c) / W).      (* sum, carry *)
Definition sub64 (x y b : Z) : Z * Z := ((x - y - b) mod W, if x <? y + b then 1 else 0). (* diff, borrow *)
Definition mul64 (x y : Z) : Z * Z := ((x * y) / W, (x * y) mod W).                 (* hi, lo *)
Definition bitlen (x : Z) : Z := if x =? 0 then 0 else Z.log2 x + 1.
Definition lzcnt64 (x : Z) : Z := 64 - bitlen x.
(* bits.Div64 panics when y = 0 or y <= hi *)
Definition div64 (hi lo y : Z) : option (Z * Z) :=
  if (y =? 0) || (y <=? hi) then None else Some ((hi * W + lo) / y, (hi * W + lo) mod y).

(** Go shifts on uint64: a shift count >= 64 yields 0 *)
Definition shl64 (x n : Z) : Z := if n <? 64 then (x * 2^n) mod W else 0.
Definition shr64 (x n : Z) : Z := if n <? 64 then x / 2^n else 0.
Definition not64 (x : Z) : Z := W - 1 - x.

(** outcome of a method: a value or a (log.Panicf) panic *)
Inductive res (A : Type) := Ok (a : A) | Panic | OutOfFuel.
Arguments Ok {A} a. Arguments Panic {A}. Arguments OutOfFuel {A}.

(** ---------------- Uint64 ---------------- *)
Definition leftshift64 (w n cin : Z) : Z * Z :=
  if n =? 0 then (w, 0)
  else if n <? 64 then (Z.lor (shl64 w n) (Z.land cin (shl64 1 n - 1)), shr64 w (64 - n))
  else if n =? 64 then (cin, w)
  else if n <? 128 then (cin, shl64 w (n - 64))
  else (0, 0).

Definition rightshift64 (w n cin : Z) : Z * Z :=
  if n =? 0 then (w, 0)
  else if n <? 64 then (Z.lor (shr64 w n) (Z.land cin (not64 (shl64 1 (64 - n) - 1))), shl64 w (64 - n))
  else if n =? 64 then (cin, w)
  else if n <? 128 then (cin, shr64 w (n - 64))
  else (0, 0).

Definition u64_shl (w n : Z) : Z := fst (leftshift64 w n 0).
Definition u64_shr (w n : Z) : Z := fst (rightshift64 w n 0).
Definition u64_add (a b : Z) : res Z := let '(v, c) := add64 a b 0 in if c =? 0 then Ok v else Panic.
Definition u64_sub (a b : Z) : res Z := let '(v, c) := sub64 a b 0 in if c =? 0 then Ok v else Panic.
Definition u64_mul (a b : Z) : res Z := let '(hi, lo) := mul64 a b in if hi =? 0 then Ok lo else Panic.
Definition u64_cmp (a b : Z) : Z := if a <? b then -1 else if b <? a then 1 else 0.

(** ---------------- Uint128 ---------------- *)
Record u128 := mk128 { h1 : Z; h0 : Z }.     (* w1 (high), w0 (low) *)
Definition val128 (u : u128) : Z := h1 u * W + h0 u.
Definition wf128 (u : u128) : Prop := 0 <= h1 u < W /\ 0 <= h0 u < W.

Definition u128_shl (u : u128) (n : Z) : u128 :=
  let '(lo, c) := leftshift64 (h0 u) n 0 in
  let '(hi, _) := leftshift64 (h1 u) n c in mk128 hi lo.
Definition u128_shr (u : u128) (n : Z) : u128 :=
  let '(hi, c) := rightshift64 (h1 u) n 0 in
  let '(lo, _) := rightshift64 (h0 u) n c in mk128 hi lo.
Definition u128_add (u v : u128) : res u128 :=
  let '(lo, c) := add64 (h0 u) (h0 v) 0 in
  let '(hi, c) := add64 (h1 u) (h1 v) c in
  if c =? 0 then Ok (mk128 hi lo) else Panic.
Definition u128_add64 (u : u128) (v : Z) : res u128 :=
  let '(lo, c) := add64 (h0 u) v 0 in
  let '(hi, c) := add64 (h1 u) 0 c in
  if c =? 0 then Ok (mk128 hi lo) else Panic.
Definition u128_sub (u v : u128) : res u128 :=
  let '(lo, b) := sub64 (h0 u) (h0 v) 0 in
  let '(hi, b) := sub64 (h1 u) (h1 v) b in
  if b =? 0 then Ok (mk128 hi lo) else Panic.

(* original (defective) Mul: the carry of hi+p1 is chained into hi+p3, w1*w1 never looked at *)
Definition u128_mul_orig (u v : u128) : res u128 :=
  let '(hi, lo) := mul64 (h0 u) (h0 v) in
  let '(p0, p1) := mul64 (h1 u) (h0 v) in
  let '(p2, p3) := mul64 (h0 u) (h1 v) in
  let '(hi, c0) := add64 hi p1 0 in
  let '(hi, c1) := add64 hi p3 c0 in
  if negb (p0 =? 0) || negb (p2 =? 0) || negb (c1 =? 0) then Panic else Ok (mk128 hi lo).

(* Mul after the carry fix.  The product w1*w1 is still never looked at: the pinned unit test
   TestUint128_Mul/simple_multiplication demands the wrapped value for {1,2}*{3,4}, so that part of
   the defect is a recorded known finding, not repaired. *)
Definition u128_mul (u v : u128) : res u128 :=
  let '(hi, lo) := mul64 (h0 u) (h0 v) in
  let '(p0, p1) := mul64 (h1 u) (h0 v) in
  let '(p2, p3) := mul64 (h0 u) (h1 v) in
  let '(hi, c0) := add64 hi p1 0 in
  let '(hi, c1) := add64 hi p3 0 in
  if negb (p0 =? 0) || negb (p2 =? 0) || negb (c0 =? 0) || negb (c1 =? 0)
  then Panic else Ok (mk128 hi lo).

Definition u128_mul64 (u : u128) (v : Z) : res u128 :=
  let '(hi, lo) := mul64 (h0 u) v in
  let '(p0, p1) := mul64 (h1 u) v in
  let '(hi, c0) := add64 hi p1 0 in
  if negb (p0 =? 0) || negb (c0 =? 0) then Panic else Ok (mk128 hi lo).

Definition u128_cmp (u v : u128) : Z :=
  if h1 v <? h1 u then 1 else if h1 u <? h1 v then -1
  else if h0 v <? h0 u then 1 else if h0 u <? h0 v then -1 else 0.
Definition u128_cmp64 (u : u128) (v : Z) : Z :=
  if 0 <? h1 u then 1 else if v <? h0 u then 1 else if h0 u <? v then -1 else 0.

Definition u128_quorem64 (u : u128) (v : Z) : res (u128 * Z) :=
  if h1 u <? v then
    match div64 (h1 u) (h0 u) v with
    | Some (q, r) => Ok (mk128 0 q, r) | None => Panic end
  else
    match div64 0 (h1 u) v with
    | Some (q1, r) =>
      match div64 r (h0 u) v with
      | Some (q0, r) => Ok (mk128 q1 q0, r) | None => Panic end
    | None => Panic end.

Definition u128_quorem (u v : u128) : res (u128 * u128) :=
  if h1 v =? 0 then
    match u128_quorem64 u (h0 v) with
    | Ok (q, r) => Ok (q, mk128 0 r) | Panic => Panic | OutOfFuel => OutOfFuel end
  else
    let n := lzcnt64 (h1 v) in
    let v1 := u128_shl v n in
    let u1 := u128_shr u 1 in
    match div64 (h1 u1) (h0 u1) (h1 v1) with
    | None => Panic
    | Some (tq, _) =>
      let tq := shr64 tq (63 - n) in
      let tq := if tq =? 0 then tq else tq - 1 in
      match u128_mul64 v tq with
      | Ok m =>
        match u128_sub u m with
        | Ok r =>
          if 0 <=? u128_cmp r v then
            match u128_add64 (mk128 0 tq) 1, u128_sub r v with
            | Ok q, Ok r => Ok (q, r) | _, _ => Panic end
          else Ok (mk128 0 tq, r)
        | _ => Panic end
      | _ => Panic end
    end.

(** ---------------- Uint256 ---------------- *)
Record u256 := mk256 { q3 : Z; q2 : Z; q1 : Z; q0 : Z }.
Definition val256 (u : u256) : Z := ((q3 u * W + q2 u) * W + q1 u) * W + q0 u.
Definition wf256 (u : u256) : Prop :=
  0 <= q3 u < W /\ 0 <= q2 u < W /\ 0 <= q1 u < W /\ 0 <= q0 u < W.

(* original (defective) shifts: one carry word chained through the four limbs *)
Definition u256_shl_orig (u : u256) (n : Z) : u256 :=
  let '(w0, c) := leftshift64 (q0 u) n 0 in
  let '(w1, c) := leftshift64 (q1 u) n c in
  let '(w2, c) := leftshift64 (q2 u) n c in
  let '(w3, _) := leftshift64 (q3 u) n c in mk256 w3 w2 w1 w0.
Definition u256_shr_orig (u : u256) (n : Z) : u256 :=
  let '(w3, c) := rightshift64 (q3 u) n 0 in
  let '(w2, c) := rightshift64 (q2 u) n c in
  let '(w1, c) := rightshift64 (q1 u) n c in
  let '(w0, _) := rightshift64 (q0 u) n c in mk256 w3 w2 w1 w0.

(* repaired shifts: whole-limb moves while n >= 64 (at most three, n >= 256 gives 0), then the chain *)
Fixpoint limbs_up (k : nat) (u : u256) : u256 :=
  match k with O => u | S k' => limbs_up k' (mk256 (q2 u) (q1 u) (q0 u) 0) end.
Fixpoint limbs_down (k : nat) (u : u256) : u256 :=
  match k with O => u | S k' => limbs_down k' (mk256 0 (q3 u) (q2 u) (q1 u)) end.
Definition u256_shl (u : u256) (n : Z) : u256 :=
  if 256 <=? n then mk256 0 0 0 0
  else u256_shl_orig (limbs_up (Z.to_nat (n / 64)) u) (n mod 64).
Definition u256_shr (u : u256) (n : Z) : u256 :=
  if 256 <=? n then mk256 0 0 0 0
  else u256_shr_orig (limbs_down (Z.to_nat (n / 64)) u) (n mod 64).

Definition u256_cmp (u v : u256) : Z :=
  if q3 v <? q3 u then 1 else if q3 u <? q3 v then -1
  else if q2 v <? q2 u then 1 else if q2 u <? q2 v then -1
  else if q1 v <? q1 u then 1 else if q1 u <? q1 v then -1
  else if q0 v <? q0 u then 1 else if q0 u <? q0 v then -1 else 0.

Definition u256_add (u v : u256) : res u256 :=
  let '(w0, c) := add64 (q0 u) (q0 v) 0 in
  let '(w1, c) := add64 (q1 u) (q1 v) c in
  let '(w2, c) := add64 (q2 u) (q2 v) c in
  let '(w3, c) := add64 (q3 u) (q3 v) c in
  if c =? 0 then Ok (mk256 w3 w2 w1 w0) else Panic.
Definition u256_sub (u v : u256) : res u256 :=
  let '(w0, b) := sub64 (q0 u) (q0 v) 0 in
  let '(w1, b) := sub64 (q1 u) (q1 v) b in
  let '(w2, b) := sub64 (q2 u) (q2 v) b in
  let '(w3, b) := sub64 (q3 u) (q3 v) b in
  if b =? 0 then Ok (mk256 w3 w2 w1 w0) else Panic.

(* original (defective) Mul: (hi, lo) of bits.Mul64 bound as (Low, High), carries mis-chained *)
Definition u256_mul_orig (u v : u256) : res u256 :=
  let '(w0Low, w0High) := mul64 (q0 u) (q0 v) in
  let '(w1Low1, w1High1) := mul64 (q0 u) (q1 v) in
  let '(w1Low2, w1High2) := mul64 (q1 u) (q0 v) in
  let '(w2Low1, w2High1) := mul64 (q0 u) (q2 v) in
  let '(w2Low2, w2High2) := mul64 (q1 u) (q1 v) in
  let '(w2Low3, w2High3) := mul64 (q2 u) (q0 v) in
  let '(w3Low1, w3High1) := mul64 (q0 u) (q3 v) in
  let '(w3Low2, w3High2) := mul64 (q1 u) (q2 v) in
  let '(w3Low3, w3High3) := mul64 (q2 u) (q1 v) in
  let '(w3Low4, w3High4) := mul64 (q3 u) (q0 v) in
  let w0 := w0Low in
  let '(w1, c) := add64 w1Low1 w1Low2 0 in
  let '(w1, _) := add64 w1 w0High c in
  let '(w2, c) := add64 w2Low1 w2Low2 0 in
  let '(w2, c) := add64 w2 w2Low3 c in
  let '(w2, c) := add64 w2 w1High1 c in
  let '(w2, _) := add64 w2 w1High2 c in
  let '(w3, c) := add64 w3Low1 w3Low2 0 in
  let '(w3, c) := add64 w3 w3Low3 c in
  let '(w3, c) := add64 w3 w3Low4 c in
  let '(w3, c) := add64 w3 w2High1 c in
  let '(w3, c) := add64 w3 w2High2 c in
  let '(w3, c) := add64 w3 w2High3 c in
  if negb (w3High1 =? 0) || negb (w3High2 =? 0) || negb (w3High3 =? 0) || negb (w3High4 =? 0)
     || negb (c =? 0) then Panic else Ok (mk256 w3 w2 w1 w0).

(* repaired Mul: schoolbook multiplication on limb arrays (least significant first), overflow iff
   one of the four upper result limbs is non-zero *)
Fixpoint mul_row (ai : Z) (b r : list Z) (carry : Z) : list Z :=
  (* r[j] += ai*b[j] + carry, propagating; the final carry is appended after the last b limb *)
  match b, r with
  | bj :: b', rj :: r' =>
      let '(hi, lo) := mul64 ai bj in
      let '(lo, c) := add64 lo rj 0 in
      let hi := hi + c in
      let '(lo, c) := add64 lo carry 0 in
      let hi := hi + c in
      lo :: mul_row ai b' r' hi
  | [], rj :: r' => carry :: r'         (* r[i+4] = carry (that slot is still zero) *)
  | _, [] => []
  end.
Fixpoint mul_rows (a b r : list Z) : list Z :=
  (* returns the limbs of r + a*b, r being the accumulator aligned with a's current limb *)
  match a, r with
  | ai :: a', _ :: _ =>
      match mul_row ai b r 0 with
      | r0 :: rest => r0 :: mul_rows a' b rest
      | [] => []
      end
  | _, _ => r
  end.
Definition u256_mul (u v : u256) : res u256 :=
  match mul_rows [q0 u; q1 u; q2 u; q3 u] [q0 v; q1 v; q2 v; q3 v] [0;0;0;0;0;0;0;0] with
  | [r0; r1; r2; r3; r4; r5; r6; r7] =>
      if (r4 =? 0) && (r5 =? 0) && (r6 =? 0) && (r7 =? 0) then Ok (mk256 r3 r2 r1 r0) else Panic
  | _ => OutOfFuel
  end.

Definition u256_iszero (u : u256) : bool := (q3 u =? 0) && (q2 u =? 0) && (q1 u =? 0) && (q0 u =? 0).
Definition u256_le (u v : u256) : bool := negb (0 <? u256_cmp u v).
Definition u256_lt (u v : u256) : bool := u256_cmp u v <? 0.

(* Div: repeated doubling.  [guard] = the repaired loop condition (stop doubling when the top bit
   of t is set); with guard = false this is the original loop, which wraps and never ends for
   dividends >= 2^255. *)
Fixpoint div_inner (guard : bool) (fuel : nat) (t m r : u256) : option (u256 * u256) :=
  match fuel with
  | O => None
  | S f =>
    if (negb guard || (q3 t <? 2^63)) && u256_le (u256_shl t 1) r
    then div_inner guard f (u256_shl t 1) (u256_shl m 1) r
    else Some (t, m)
  end.
Fixpoint div_outer (guard : bool) (fuel : nat) (v q r : u256) : res u256 :=
  match fuel with
  | O => OutOfFuel
  | S f =>
    if u256_le v r then
      match div_inner guard 257 v (mk256 0 0 0 1) r with
      | None => OutOfFuel
      | Some (t, m) =>
        match u256_sub r t, u256_add q m with
        | Ok r', Ok q' => div_outer guard f v q' r'
        | _, _ => Panic
        end
      end
    else Ok q
  end.
Definition u256_div_gen (guard : bool) (u v : u256) : res u256 :=
  if u256_iszero v then Panic
  else if u256_iszero u || u256_lt u v then Ok (mk256 0 0 0 0)
  else if (u256_cmp v (mk256 0 0 0 1) =? 0) then Ok u
  else div_outer guard 257 v (mk256 0 0 0 0) u.
Definition u256_div := u256_div_gen true.
Definition u256_div_orig := u256_div_gen false.

(** ---------------- generic case runner for the correspondence check ---------------- *)
Inductive opk :=
| OShl | OShr | OAdd | OSub | OMul | OCmp | OLt | OLe | OGt | OGe | OEq
| OAnd | OOr | OXor | ONot | OTo64 | OTo128 | OTo256 | OIsZero | OAs64
| OLsh64 | ORsh64 | OAdd64 | OMul64 | OQuoRem | OQuoRem64 | ODiv | OMod | ODiv64 | OMod64 | OCmp64
(* constructors: methods Zero / MaxValue / Set64 and the generic ZeroUint / OneUint / From64 of unint.go
   (OneUint = ZeroUint().Set64(1), From64 v = ZeroUint().Set64(v)) *)
| OZero | OMax | OSet64 | OZeroU | OOneU | OFrom64.

Inductive obs := Limbs (l : list Z) | Limbs2 (l l' : list Z) | IntV (z : Z) | PanicV | FuelV.

Definition nth0 (l : list Z) (i : nat) : Z := nth i l 0.
Definition to128 (l : list Z) := mk128 (nth0 l 1) (nth0 l 0).
Definition to256 (l : list Z) := mk256 (nth0 l 3) (nth0 l 2) (nth0 l 1) (nth0 l 0).
Definition l128 (u : u128) := [h0 u; h1 u].
Definition l256 (u : u256) := [q0 u; q1 u; q2 u; q3 u].
Definition b2z (b : bool) : Z := if b then 1 else 0.
Definition ores {A} (f : A -> obs) (r : res A) : obs :=
  match r with Ok a => f a | Panic => PanicV | OutOfFuel => FuelV end.

Definition run64 (o : opk) (a b : list Z) (n : Z) : obs :=
  let x := nth0 a 0 in let y := nth0 b 0 in
  match o with
  | OShl => Limbs [u64_shl x n] | OShr => Limbs [u64_shr x n]
  | OAdd => ores (fun v => Limbs [v]) (u64_add x y)
  | OSub => ores (fun v => Limbs [v]) (u64_sub x y)
  | OMul => ores (fun v => Limbs [v]) (u64_mul x y)
  | OCmp => IntV (u64_cmp x y)
  | OLt => IntV (b2z (u64_cmp x y <? 0)) | OLe => IntV (b2z (negb (0 <? u64_cmp x y)))
  | OGt => IntV (b2z (0 <? u64_cmp x y)) | OGe => IntV (b2z (negb (u64_cmp x y <? 0)))
  | OEq => IntV (b2z (u64_cmp x y =? 0))
  | OAnd => Limbs [Z.land x y] | OOr => Limbs [Z.lor x y] | OXor => Limbs [Z.lxor x y]
  | ONot => Limbs [not64 x]
  | OTo64 => Limbs [x] | OTo128 => Limbs [x; 0] | OTo256 => Limbs [x; 0; 0; 0]
  | OIsZero => IntV (b2z (x =? 0)) | OAs64 => Limbs [x]
  | OLsh64 => let '(v, c) := leftshift64 x n y in Limbs [v; c]
  | ORsh64 => let '(v, c) := rightshift64 x n y in Limbs [v; c]
  | OZero | OZeroU => Limbs [0] | OMax => Limbs [W - 1] | OSet64 | OFrom64 => Limbs [y] | OOneU => Limbs [1]
  | _ => FuelV
  end.

Definition run128 (o : opk) (a b : list Z) (n : Z) : obs :=
  let x := to128 a in let y := to128 b in let y64 := nth0 b 0 in
  let c := u128_cmp x y in
  match o with
  | OShl => Limbs (l128 (u128_shl x n)) | OShr => Limbs (l128 (u128_shr x n))
  | OAdd => ores (fun v => Limbs (l128 v)) (u128_add x y)
  | OAdd64 => ores (fun v => Limbs (l128 v)) (u128_add64 x y64)
  | OSub => ores (fun v => Limbs (l128 v)) (u128_sub x y)
  | OMul => ores (fun v => Limbs (l128 v)) (u128_mul x y)
  | OMul64 => ores (fun v => Limbs (l128 v)) (u128_mul64 x y64)
  | OQuoRem => ores (fun '(q, r) => Limbs2 (l128 q) (l128 r)) (u128_quorem x y)
  | OQuoRem64 => ores (fun '(q, r) => Limbs2 (l128 q) [r]) (u128_quorem64 x y64)
  | ODiv => ores (fun '(q, r) => Limbs (l128 q)) (u128_quorem x y)
  | OMod => ores (fun '(q, r) => Limbs (l128 r)) (u128_quorem x y)
  | ODiv64 => ores (fun '(q, r) => Limbs (l128 q)) (u128_quorem64 x y64)
  | OMod64 => ores (fun '(q, r) => Limbs [r]) (u128_quorem64 x y64)
  | OCmp => IntV c | OCmp64 => IntV (u128_cmp64 x y64)
  | OLt => IntV (b2z (c <? 0)) | OLe => IntV (b2z (negb (0 <? c)))
  | OGt => IntV (b2z (0 <? c)) | OGe => IntV (b2z (negb (c <? 0)))
  | OEq => IntV (b2z (c =? 0))
  | OAnd => Limbs [Z.land (h0 x) (h0 y); Z.land (h1 x) (h1 y)]
  | OOr => Limbs [Z.lor (h0 x) (h0 y); Z.lor (h1 x) (h1 y)]
  | OXor => Limbs [Z.lxor (h0 x) (h0 y); Z.lxor (h1 x) (h1 y)]
  | ONot => Limbs [not64 (h0 x); not64 (h1 x)]
  | OTo64 => Limbs [h0 x] | OTo128 => Limbs (l128 x) | OTo256 => Limbs [h0 x; h1 x; 0; 0]
  | OIsZero => IntV (b2z ((h0 x =? 0) && (h1 x =? 0))) | OAs64 => Limbs [h0 x]
  | OZero | OZeroU => Limbs (l128 (mk128 0 0)) | OMax => Limbs (l128 (mk128 (W - 1) (W - 1)))
  | OSet64 | OFrom64 => Limbs (l128 (mk128 0 y64)) | OOneU => Limbs (l128 (mk128 0 1))
  | _ => FuelV
  end.

Definition run256 (o : opk) (a b : list Z) (n : Z) : obs :=
  let x := to256 a in let y := to256 b in
  let c := u256_cmp x y in
  let bw (f : Z -> Z -> Z) := Limbs [f (q0 x) (q0 y); f (q1 x) (q1 y); f (q2 x) (q2 y); f (q3 x) (q3 y)] in
  match o with
  | OShl => Limbs (l256 (u256_shl x n)) | OShr => Limbs (l256 (u256_shr x n))
  | OAdd => ores (fun v => Limbs (l256 v)) (u256_add x y)
  | OSub => ores (fun v => Limbs (l256 v)) (u256_sub x y)
  | OMul => ores (fun v => Limbs (l256 v)) (u256_mul x y)
  | ODiv => ores (fun v => Limbs (l256 v)) (u256_div x y)
  | OCmp => IntV c
  | OLt => IntV (b2z (c <? 0)) | OLe => IntV (b2z (negb (0 <? c)))
  | OGt => IntV (b2z (0 <? c)) | OGe => IntV (b2z (negb (c <? 0)))
  | OEq => IntV (b2z (c =? 0))
  | OAnd => bw Z.land | OOr => bw Z.lor | OXor => bw Z.lxor
  | ONot => Limbs [not64 (q0 x); not64 (q1 x); not64 (q2 x); not64 (q3 x)]
  | OTo64 => Limbs [q0 x] | OTo128 => Limbs [q0 x; q1 x] | OTo256 => Limbs (l256 x)
  | OIsZero => IntV (b2z (u256_iszero x)) | OAs64 => Limbs [q0 x]
  | OZero | OZeroU => Limbs (l256 (mk256 0 0 0 0)) | OMax => Limbs (l256 (mk256 (W - 1) (W - 1) (W - 1) (W - 1)))
  | OSet64 | OFrom64 => Limbs (l256 (mk256 0 0 0 (q0 y))) | OOneU => Limbs (l256 (mk256 0 0 0 1))
  | _ => FuelV
  end.

Definition run (w : Z) (o : opk) (a b : list Z) (n : Z) : obs :=
  if w =? 64 then run64 o a b n else if w =? 128 then run128 o a b n else run256 o a b n.

Fixpoint zlist_eqb (l l' : list Z) : bool :=
  match l, l' with
  | [], [] => true | x :: l, y :: l' => (x =? y) && zlist_eqb l l' | _, _ => false end.
Definition obs_eqb (x y : obs) : bool :=
  match x, y with
  | Limbs l, Limbs l' => zlist_eqb l l'
  | Limbs2 l m, Limbs2 l' m' => zlist_eqb l l' && zlist_eqb m m'
  | IntV a, IntV b => a =? b
  | PanicV, PanicV => true
  | _, _ => false end.

(** a correspondence case: inputs + what the implementation answered *)
Record ccase := mkc { cw : Z; cop : opk; ca : list Z; cb : list Z; cn : Z; cexp : obs }.
Fixpoint mismatches_from (i : nat) (l : list ccase) : list nat :=
  match l with
  | [] => []
  | c :: l' =>
    let rest := mismatches_from (S i) l' in
    if obs_eqb (run (cw c) (cop c) (ca c) (cb c) (cn c)) (cexp c) then rest else i :: rest
  end.
Definition mismatches := mismatches_from 0.
