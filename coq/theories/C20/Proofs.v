(** C20 — proofs about the model of pkg/obifp. *)
From Coq Require Import ZArith List Bool Lia.
From OBI.C20 Require Import Model.
Import ListNotations.
Open Scope Z_scope.

Ltac Zify.zify_post_hook ::= Z.div_mod_to_equations.

Lemma W_pos : 0 < W. Proof. reflexivity. Qed.
Lemma W_val : W = 18446744073709551616. Proof. reflexivity. Qed.

Definition inW (x : Z) : Prop := 0 <= x < W.

(** ** add / sub *)
Lemma add64_spec x y c : inW x -> inW y -> 0 <= c <= 1 ->
  let '(s, k) := add64 x y c in inW s /\ 0 <= k <= 1 /\ s + k * W = x + y + c.
Proof. unfold inW, add64; rewrite W_val; intros; lia. Qed.

Lemma sub64_spec x y b : inW x -> inW y -> 0 <= b <= 1 ->
  let '(d, k) := sub64 x y b in inW d /\ 0 <= k <= 1 /\ d - k * W = x - y - b.
Proof.
  unfold inW, sub64; rewrite W_val; intros. destruct (x <? y + b) eqn:E; lia.
Qed.

(** Uint64 *)
Lemma u64_add_exact a b : inW a -> inW b ->
  (a + b < W -> u64_add a b = Ok (a + b)) /\ (W <= a + b -> u64_add a b = Panic).
Proof.
  unfold inW, u64_add, add64; rewrite W_val; intros Ha Hb. split; intros H.
  - replace ((a + b + 0) / 18446744073709551616) with 0 by lia.
    simpl. f_equal. lia.
  - replace ((a + b + 0) / 18446744073709551616) with 1 by lia. reflexivity.
Qed.

Lemma u64_sub_exact a b : inW a -> inW b ->
  (b <= a -> u64_sub a b = Ok (a - b)) /\ (a < b -> u64_sub a b = Panic).
Proof.
  unfold inW, u64_sub, sub64; rewrite W_val; intros Ha Hb. split; intros H.
  - destruct (a <? b + 0) eqn:E; [lia|]. simpl. f_equal. lia.
  - destruct (a <? b + 0) eqn:E; [reflexivity|lia].
Qed.

Lemma u64_mul_exact a b : inW a -> inW b ->
  (a * b < W -> u64_mul a b = Ok (a * b)) /\ (W <= a * b -> u64_mul a b = Panic).
Proof.
  unfold inW, u64_mul, mul64; intros Ha Hb. pose proof W_pos. split; intros H1.
  - rewrite Z.div_small by nia. simpl. f_equal. apply Z.mod_small. nia.
  - destruct (a * b / W =? 0) eqn:E; [|reflexivity].
    apply Z.eqb_eq in E. apply Z.div_small_iff in E; lia.
Qed.

Lemma u64_cmp_spec a b : u64_cmp a b = match a ?= b with Lt => -1 | Eq => 0 | Gt => 1 end.
Proof.
  unfold u64_cmp. destruct (Z.compare_spec a b); destruct (a <? b) eqn:E1; destruct (b <? a) eqn:E2; lia.
Qed.

(** Uint128 *)
Lemma val128_range u : wf128 u -> 0 <= val128 u < W * W.
Proof. unfold wf128, val128; rewrite W_val; intros; lia. Qed.

Lemma u128_add_exact u v : wf128 u -> wf128 v ->
  (val128 u + val128 v < W * W ->
     exists r, u128_add u v = Ok r /\ wf128 r /\ val128 r = val128 u + val128 v) /\
  (W * W <= val128 u + val128 v -> u128_add u v = Panic).
Proof.
  unfold wf128, val128, u128_add, add64. destruct u as [a1 a0], v as [b1 b0]; simpl.
  rewrite W_val; intros Hu Hv. split; intros H.
  - replace ((a1 + b1 + (a0 + b0 + 0) / 18446744073709551616) / 18446744073709551616) with 0 by lia.
    simpl. eexists; split; [reflexivity|]. simpl. lia.
  - replace ((a1 + b1 + (a0 + b0 + 0) / 18446744073709551616) / 18446744073709551616) with 1 by lia.
    reflexivity.
Qed.

Lemma u128_add64_exact u v : wf128 u -> inW v ->
  (val128 u + v < W * W ->
     exists r, u128_add64 u v = Ok r /\ wf128 r /\ val128 r = val128 u + v) /\
  (W * W <= val128 u + v -> u128_add64 u v = Panic).
Proof.
  unfold wf128, inW, val128, u128_add64, add64. destruct u as [a1 a0]; simpl.
  rewrite W_val; intros Hu Hv. split; intros H.
  - replace ((a1 + 0 + (a0 + v + 0) / 18446744073709551616) / 18446744073709551616) with 0 by lia.
    simpl. eexists; split; [reflexivity|]. simpl. lia.
  - replace ((a1 + 0 + (a0 + v + 0) / 18446744073709551616) / 18446744073709551616) with 1 by lia.
    reflexivity.
Qed.

Lemma u128_sub_exact u v : wf128 u -> wf128 v ->
  (val128 v <= val128 u ->
     exists r, u128_sub u v = Ok r /\ wf128 r /\ val128 r = val128 u - val128 v) /\
  (val128 u < val128 v -> u128_sub u v = Panic).
Proof.
  unfold wf128, val128, u128_sub, sub64. destruct u as [a1 a0], v as [b1 b0]; simpl.
  rewrite W_val; intros Hu Hv. split; intros H.
  - destruct (a0 <? b0 + 0) eqn:E0.
    + destruct (a1 <? b1 + 1) eqn:E1; [lia|]. simpl. eexists; split; [reflexivity|]. simpl. lia.
    + destruct (a1 <? b1 + 0) eqn:E1; [lia|]. simpl. eexists; split; [reflexivity|]. simpl. lia.
  - destruct (a0 <? b0 + 0) eqn:E0.
    + destruct (a1 <? b1 + 1) eqn:E1; [reflexivity|lia].
    + destruct (a1 <? b1 + 0) eqn:E1; [reflexivity|lia].
Qed.

Lemma u128_cmp_spec u v : wf128 u -> wf128 v ->
  u128_cmp u v = match val128 u ?= val128 v with Lt => -1 | Eq => 0 | Gt => 1 end.
Proof.
  unfold wf128, val128, u128_cmp. destruct u as [a1 a0], v as [b1 b0]; simpl.
  rewrite W_val; intros Hu Hv.
  destruct (Z.compare_spec (a1 * 18446744073709551616 + a0) (b1 * 18446744073709551616 + b0));
  destruct (b1 <? a1) eqn:E1; destruct (a1 <? b1) eqn:E2;
  destruct (b0 <? a0) eqn:E3; destruct (a0 <? b0) eqn:E4; lia.
Qed.

Lemma u128_cmp64_spec u v : wf128 u -> inW v ->
  u128_cmp64 u v = match val128 u ?= v with Lt => -1 | Eq => 0 | Gt => 1 end.
Proof.
  unfold wf128, inW, val128, u128_cmp64. destruct u as [a1 a0]; simpl.
  rewrite W_val; intros Hu Hv.
  destruct (Z.compare_spec (a1 * 18446744073709551616 + a0) v);
  destruct (0 <? a1) eqn:E1; destruct (v <? a0) eqn:E3; destruct (a0 <? v) eqn:E4; lia.
Qed.

(** Uint256 *)
Definition W2 := W * W.
Definition W4 := W2 * W2.
Lemma val256_range u : wf256 u -> 0 <= val256 u < W4.
Proof. unfold wf256, val256, W4, W2; rewrite W_val; intros; lia. Qed.

Lemma u256_add_exact u v : wf256 u -> wf256 v ->
  (val256 u + val256 v < W4 ->
     exists r, u256_add u v = Ok r /\ wf256 r /\ val256 r = val256 u + val256 v) /\
  (W4 <= val256 u + val256 v -> u256_add u v = Panic).
Proof.
  unfold wf256, val256, u256_add, add64, W4, W2.
  destruct u as [a3 a2 a1 a0], v as [b3 b2 b1 b0]; simpl.
  rewrite W_val; intros Hu Hv.
  set (c0 := (a0 + b0 + 0) / 18446744073709551616).
  set (c1 := (a1 + b1 + c0) / 18446744073709551616).
  set (c2 := (a2 + b2 + c1) / 18446744073709551616).
  set (c3 := (a3 + b3 + c2) / 18446744073709551616).
  split; intros H.
  - assert (c3 = 0) as -> by (subst c3 c2 c1 c0; lia).
    simpl. eexists; split; [reflexivity|]. simpl. subst c2 c1 c0. lia.
  - assert (c3 = 1) as -> by (subst c3 c2 c1 c0; lia). reflexivity.
Qed.

Lemma u256_cmp_spec u v : wf256 u -> wf256 v ->
  u256_cmp u v = match val256 u ?= val256 v with Lt => -1 | Eq => 0 | Gt => 1 end.
Proof.
  unfold wf256, val256, u256_cmp. destruct u as [a3 a2 a1 a0], v as [b3 b2 b1 b0]; simpl.
  rewrite W_val; intros Hu Hv.
  match goal with |- context [?x ?= ?y] => destruct (Z.compare_spec x y) end;
  destruct (b3 <? a3) eqn:E1; destruct (a3 <? b3) eqn:E2; try lia;
  destruct (b2 <? a2) eqn:E3; destruct (a2 <? b2) eqn:E4; try lia;
  destruct (b1 <? a1) eqn:E5; destruct (a1 <? b1) eqn:E6; try lia;
  destruct (b0 <? a0) eqn:E7; destruct (a0 <? b0) eqn:E8; lia.
Qed.

(* ------------------------------------------------------------------ *)

Lemma sub64_eq x y b d k : inW x -> inW y -> 0 <= b <= 1 -> sub64 x y b = (d, k) ->
  inW d /\ 0 <= k <= 1 /\ d - k * W = x - y - b.
Proof. intros Hx Hy Hb E. pose proof (sub64_spec x y b Hx Hy Hb) as H. rewrite E in H. exact H. Qed.

Lemma u256_sub_exact u v : wf256 u -> wf256 v ->
  (val256 v <= val256 u ->
     exists r, u256_sub u v = Ok r /\ wf256 r /\ val256 r = val256 u - val256 v) /\
  (val256 u < val256 v -> u256_sub u v = Panic).
Proof.
  unfold wf256, val256, u256_sub.
  destruct u as [a3 a2 a1 a0], v as [b3 b2 b1 b0]; cbn [q0 q1 q2 q3].
  intros (Ha3 & Ha2 & Ha1 & Ha0) (Hb3 & Hb2 & Hb1 & Hb0).
  destruct (sub64 a0 b0 0) as [d0 k0] eqn:E0.
  apply sub64_eq in E0; [|assumption|assumption|lia]. destruct E0 as (Hd0 & Hk0 & E0).
  destruct (sub64 a1 b1 k0) as [d1 k1] eqn:E1.
  apply sub64_eq in E1; [|assumption|assumption|lia]. destruct E1 as (Hd1 & Hk1 & E1).
  destruct (sub64 a2 b2 k1) as [d2 k2] eqn:E2.
  apply sub64_eq in E2; [|assumption|assumption|lia]. destruct E2 as (Hd2 & Hk2 & E2).
  destruct (sub64 a3 b3 k2) as [d3 k3] eqn:E3.
  apply sub64_eq in E3; [|assumption|assumption|lia]. destruct E3 as (Hd3 & Hk3 & E3).
  unfold inW in *. rewrite W_val in *.
  split; intros H.
  - assert (k3 = 0) as -> by lia. simpl. eexists; split; [reflexivity|]. simpl. lia.
  - assert (k3 = 1) as -> by lia. reflexivity.
Qed.

(* ------------------------------------------------------------------ *)

Lemma pq_W n : 0 <= n <= 64 -> 2^n * 2^(64 - n) = W.
Proof. intros H. rewrite <- Z.pow_add_r by lia. replace (n + (64 - n)) with 64 by lia. reflexivity. Qed.

Lemma mulmod_pq w p q : 0 < p -> 0 < q -> p * q = W -> 0 <= w ->
  (w * p) mod W = (w mod q) * p /\ (w * p) / W = w / q.
Proof.
  intros Hp Hq Hpq Hw.
  assert (E : w * p = (w / q) * W + (w mod q) * p).
  { rewrite <- Hpq. pose proof (Z.div_mod w q ltac:(lia)) as D. rewrite D at 1. ring. }
  pose proof (Z.mod_pos_bound w q Hq) as B.
  assert (0 <= (w mod q) * p < W) by (rewrite <- Hpq; nia).
  split; [symmetry; apply Z.mod_unique with (w / q) | symmetry; apply Z.div_unique with ((w mod q) * p)]; lia.
Qed.

Lemma land_disjoint a b n : 0 <= n -> 0 <= b < 2^n -> Z.land (a * 2^n) b = 0.
Proof.
  intros Hn Hb. apply Z.bits_inj'; intros i Hi. rewrite Z.land_spec, Z.bits_0.
  destruct (Z.lt_ge_cases i n).
  - rewrite Z.mul_pow2_bits_low by lia. reflexivity.
  - replace b with (b mod 2^n) by (apply Z.mod_small; lia).
    rewrite Z.mod_pow2_bits_high by lia. apply andb_false_r.
Qed.

Lemma lor_disjoint_add a b n : 0 <= n -> 0 <= b < 2^n -> Z.lor (a * 2^n) b = a * 2^n + b.
Proof.
  intros Hn Hb. pose proof (land_disjoint a b n Hn Hb) as L.
  rewrite <- Z.lxor_lor by exact L. symmetry. apply Z.add_nocarry_lxor. exact L.
Qed.

(** leftshift64 for 0 < n < 64 with a carry-in below 2^n *)
Lemma leftshift64_mid w n cin : inW w -> 0 < n < 64 -> 0 <= cin < 2^n ->
  leftshift64 w n cin = ((w mod 2^(64-n)) * 2^n + cin, w / 2^(64-n)).
Proof.
  intros [Hw0 Hw1] Hn Hc. unfold leftshift64, shl64, shr64.
  replace (n =? 0) with false by lia. replace (n <? 64) with true by lia.
  replace (64 - n <? 64) with true by lia.
  assert (Hp : 0 < 2^n) by (apply Z.pow_pos_nonneg; lia).
  assert (Hq : 0 < 2^(64-n)) by (apply Z.pow_pos_nonneg; lia).
  pose proof (pq_W n ltac:(lia)) as Hpq.
  assert (Hq2 : 2^1 <= 2^(64-n)) by (apply Z.pow_le_mono_r; lia).
  assert (Hp2 : 2^1 <= 2^n) by (apply Z.pow_le_mono_r; lia).
  destruct (mulmod_pq w (2^n) (2^(64-n)) Hp Hq Hpq Hw0) as [M _].
  rewrite M. f_equal.
  rewrite Z.mul_1_l. rewrite (Z.mod_small (2^n) W) by (rewrite <- Hpq; nia).
  replace (2^n - 1) with (Z.ones n) by (rewrite Z.ones_equiv; lia).
  rewrite Z.land_ones by lia. rewrite (Z.mod_small cin) by lia.
  apply lor_disjoint_add; lia.
Qed.

Lemma not64_mask k : 0 <= k <= 64 -> not64 (2^k - 1) = (2^(64-k) - 1) * 2^k.
Proof. intros H. unfold not64. pose proof (pq_W k H). lia. Qed.

(** rightshift64 for 0 < n < 64 with a carry-in that is a multiple of 2^(64-n) *)
Lemma rightshift64_mid w n c : inW w -> 0 < n < 64 -> 0 <= c < 2^n ->
  rightshift64 w n (c * 2^(64-n)) = (w / 2^n + c * 2^(64-n), (w mod 2^n) * 2^(64-n)).
Proof.
  intros [Hw0 Hw1] Hn Hc. unfold rightshift64, shl64, shr64.
  replace (n =? 0) with false by lia. replace (n <? 64) with true by lia.
  replace (64 - n <? 64) with true by lia.
  assert (Hp : 0 < 2^n) by (apply Z.pow_pos_nonneg; lia).
  assert (Hq : 0 < 2^(64-n)) by (apply Z.pow_pos_nonneg; lia).
  pose proof (pq_W n ltac:(lia)) as Hpq.
  assert (Hq2 : 2^1 <= 2^(64-n)) by (apply Z.pow_le_mono_r; lia).
  assert (Hp2 : 2^1 <= 2^n) by (apply Z.pow_le_mono_r; lia).
  destruct (mulmod_pq w (2^(64-n)) (2^n) Hq Hp ltac:(lia) Hw0) as [M _].
  rewrite M. f_equal.
  rewrite Z.mul_1_l. rewrite (Z.mod_small (2^(64-n)) W) by (rewrite <- Hpq; nia).
  rewrite not64_mask by lia. replace (64 - (64 - n)) with n by lia.
  (* land (c * q) ((p-1) * q) = c * q *)
  assert (L : Z.land (c * 2^(64-n)) ((2^n - 1) * 2^(64-n)) = c * 2^(64-n)).
  { rewrite <- !Z.shiftl_mul_pow2 by lia. rewrite <- Z.shiftl_land. f_equal.
    replace (2^n - 1) with (Z.ones n) by (rewrite Z.ones_equiv; lia).
    rewrite Z.land_ones by lia. apply Z.mod_small. lia. }
  rewrite L. rewrite Z.lor_comm. rewrite lor_disjoint_add; [lia|lia|].
  split; [apply Z.div_pos; lia|].
  apply Z.div_lt_upper_bound; [lia|]. lia.
Qed.

(* ------------------------------------------------------------------ *)

Lemma pow_split n k : 0 <= k <= n -> 2^n = 2^(n-k) * 2^k.
Proof. intros H. rewrite <- Z.pow_add_r by lia. f_equal. lia. Qed.

Lemma W_pow : W = 2^64. Proof. reflexivity. Qed.

Lemma u64_shl_spec w n : inW w -> 0 <= n -> u64_shl w n = (w * 2^n) mod W.
Proof.
  intros Hw Hn. unfold u64_shl.
  destruct (Z.eq_dec n 0) as [->|N0].
  { simpl. rewrite Z.mul_1_r. symmetry. apply Z.mod_small. exact Hw. }
  destruct (Z.lt_ge_cases n 64) as [L|G].
  - assert (Hp : 0 < 2^n) by (apply Z.pow_pos_nonneg; lia).
    rewrite (leftshift64_mid w n 0 Hw ltac:(lia) ltac:(lia)).
    simpl. rewrite Z.add_0_r.
    assert (Hq : 0 < 2^(64-n)) by (apply Z.pow_pos_nonneg; lia).
    destruct (mulmod_pq w (2^n) (2^(64-n)) Hp Hq (pq_W n ltac:(lia)) (proj1 Hw)) as [M _]. now rewrite M.
  - rewrite (pow_split n 64) by lia. rewrite <- W_pow, Z.mul_assoc, Z.mod_mul by (rewrite W_val; lia).
    unfold leftshift64. replace (n =? 0) with false by lia. replace (n <? 64) with false by lia.
    destruct (n =? 64); [reflexivity|]. destruct (n <? 128); reflexivity.
Qed.

Lemma u64_shr_spec w n : inW w -> 0 <= n -> u64_shr w n = w / 2^n.
Proof.
  intros Hw Hn. unfold u64_shr.
  destruct (Z.eq_dec n 0) as [->|N0].
  { simpl. now rewrite Z.div_1_r. }
  destruct (Z.lt_ge_cases n 64) as [L|G].
  - assert (Hp : 0 < 2^n) by (apply Z.pow_pos_nonneg; lia).
    pose proof (rightshift64_mid w n 0 Hw ltac:(lia) ltac:(lia)) as R. rewrite Z.mul_0_l in R.
    rewrite R. simpl. lia.
  - rewrite Z.div_small.
    2:{ destruct Hw as [H0 H1]. split; [lia|]. eapply Z.lt_le_trans; [exact H1|].
        rewrite W_pow. apply Z.pow_le_mono_r; lia. }
    unfold rightshift64. replace (n =? 0) with false by lia. replace (n <? 64) with false by lia.
    destruct (n =? 64); [reflexivity|]. destruct (n <? 128); reflexivity.
Qed.

(** generic decomposition facts used for the chained shifts *)
Lemma divmod_pq w q : 0 < q -> w = q * (w / q) + w mod q /\ 0 <= w mod q < q.
Proof. intros Hq. split; [apply Z.div_mod; lia|apply Z.mod_pos_bound; lia]. Qed.

Lemma leftshift64_64 w c : leftshift64 w 64 c = (c, w). Proof. reflexivity. Qed.
Lemma leftshift64_hi w n c : 64 < n < 128 -> leftshift64 w n c = (c, (w * 2^(n-64)) mod W).
Proof. intros H. unfold leftshift64, shl64. replace (n =? 0) with false by lia. replace (n <? 64) with false by lia.
  replace (n =? 64) with false by lia. replace (n <? 128) with true by lia. replace (n - 64 <? 64) with true by lia. reflexivity. Qed.
Lemma leftshift64_out w n c : 128 <= n -> leftshift64 w n c = (0, 0).
Proof. intros H. unfold leftshift64. replace (n =? 0) with false by lia. replace (n <? 64) with false by lia.
  replace (n =? 64) with false by lia. replace (n <? 128) with false by lia. reflexivity. Qed.
Lemma rightshift64_64 w c : rightshift64 w 64 c = (c, w). Proof. reflexivity. Qed.
Lemma rightshift64_hi w n c : 64 < n < 128 -> rightshift64 w n c = (c, w / 2^(n-64)).
Proof. intros H. unfold rightshift64, shr64. replace (n =? 0) with false by lia. replace (n <? 64) with false by lia.
  replace (n =? 64) with false by lia. replace (n <? 128) with true by lia. replace (n - 64 <? 64) with true by lia. reflexivity. Qed.
Lemma rightshift64_out w n c : 128 <= n -> rightshift64 w n c = (0, 0).
Proof. intros H. unfold rightshift64. replace (n =? 0) with false by lia. replace (n <? 64) with false by lia.
  replace (n =? 64) with false by lia. replace (n <? 128) with false by lia. reflexivity. Qed.

Lemma u128_shl_spec u n : wf128 u -> 0 <= n -> 
  wf128 (u128_shl u n) /\ val128 (u128_shl u n) = (val128 u * 2^n) mod (W * W).
Proof.
  destruct u as [w1 w0]. unfold wf128, val128, u128_shl; cbn [h1 h0]. intros [H1 H0] Hn.
  assert (WW : 0 < W * W) by (rewrite W_val; lia). pose proof W_pos as WP.
  destruct (Z.eq_dec n 0) as [->|N0].
  { simpl. rewrite Z.mul_1_r. rewrite Z.mod_small by (rewrite W_val in *; lia). tauto. }
  destruct (Z.lt_ge_cases n 64) as [L|G].
  - assert (Hp : 0 < 2^n) by (apply Z.pow_pos_nonneg; lia).
    assert (Hq : 0 < 2^(64-n)) by (apply Z.pow_pos_nonneg; lia).
    pose proof (pq_W n ltac:(lia)) as Hpq.
    rewrite (leftshift64_mid w0 n 0 H0 ltac:(lia) ltac:(lia)).
    destruct (divmod_pq w0 (2^(64-n)) Hq) as [D0 B0].
    destruct (divmod_pq w1 (2^(64-n)) Hq) as [D1 B1].
    assert (A0 : 0 <= w0 / 2^(64-n) < 2^n).
    { split; [apply Z.div_pos; lia|apply Z.div_lt_upper_bound; lia]. }
    assert (A1 : 0 <= w1 / 2^(64-n)) by (apply Z.div_pos; lia).
    rewrite (leftshift64_mid w1 n _ H1 ltac:(lia) A0).
    rewrite Z.add_0_r. cbn [h1 h0].
    set (p := 2^n) in *. set (q := 2^(64-n)) in *.
    set (a0 := w0 / q) in *. set (r0 := w0 mod q) in *.
    set (a1 := w1 / q) in *. set (r1 := w1 mod q) in *.
    assert (R : 0 <= r1 * p + a0 < W) by (rewrite <- Hpq; nia).
    assert (R0 : 0 <= r0 * p < W) by (rewrite <- Hpq; nia).
    split; [tauto|].
    apply Z.mod_unique with a1; [left; nia|].
    rewrite D1, D0. rewrite <- Hpq. ring.
  - destruct (Z.eq_dec n 64) as [->|N64].
    + rewrite !leftshift64_64. cbn [h1 h0].
      split; [lia|]. rewrite <- W_pow.
      replace ((w1 * W + w0) * W) with (w0 * W + w1 * (W * W)) by ring.
      rewrite Z.mod_add by lia. rewrite Z.mod_small; [lia|]. rewrite W_val in *; lia.
    + destruct (Z.lt_ge_cases n 128) as [L2|G2].
      * rewrite !leftshift64_hi by lia. cbn [h1 h0].
        pose proof (Z.mod_pos_bound (w0 * 2^(n-64)) W W_pos).
        split; [lia|]. rewrite Z.add_0_r.
        rewrite (pow_split n 64) by lia. rewrite <- W_pow.
        replace ((w1 * W + w0) * (2^(n-64) * W)) with ((w0 * 2^(n-64) + w1 * 2^(n-64) * W) * W) by ring.
        rewrite Z.mul_mod_distr_r by lia. rewrite Z.mod_add by lia. reflexivity.
      * rewrite !leftshift64_out by lia. cbn [h1 h0].
        split; [lia|].
        rewrite (pow_split n 128) by lia. replace (2^128) with (W * W) by reflexivity.
        rewrite Z.mul_assoc, Z.mod_mul by lia. reflexivity.
Qed.

(* ------------------------------------------------------------------ *)

Lemma u128_shr_spec u n : wf128 u -> 0 <= n ->
  wf128 (u128_shr u n) /\ val128 (u128_shr u n) = val128 u / 2^n.
Proof.
  destruct u as [w1 w0]. unfold wf128, val128, u128_shr; cbn [h1 h0]. intros [H1 H0] Hn.
  pose proof W_pos as WP.
  destruct (Z.eq_dec n 0) as [->|N0].
  { simpl. rewrite Z.div_1_r. tauto. }
  destruct (Z.lt_ge_cases n 64) as [L|G].
  - assert (Hp : 0 < 2^n) by (apply Z.pow_pos_nonneg; lia).
    assert (Hq : 0 < 2^(64-n)) by (apply Z.pow_pos_nonneg; lia).
    pose proof (pq_W n ltac:(lia)) as Hpq.
    pose proof (rightshift64_mid w1 n 0 H1 ltac:(lia) ltac:(lia)) as R1. rewrite Z.mul_0_l in R1. rewrite R1.
    destruct (divmod_pq w0 (2^n) Hp) as [D0 B0].
    destruct (divmod_pq w1 (2^n) Hp) as [D1 B1].
    rewrite (rightshift64_mid w0 n _ H0 ltac:(lia) B1). cbn [h1 h0]. rewrite Z.add_0_r.
    assert (A0 : 0 <= w0 / 2^n) by (apply Z.div_pos; lia).
    assert (A1 : 0 <= w1 / 2^n) by (apply Z.div_pos; lia).
    set (p := 2^n) in *. set (q := 2^(64-n)) in *.
    set (a0 := w0 / p) in *. set (r0 := w0 mod p) in *.
    set (a1 := w1 / p) in *. set (r1 := w1 mod p) in *.
    assert (a1 < q) by nia. assert (a0 < q) by nia.
    assert (R : 0 <= a0 + r1 * q < W) by (rewrite <- Hpq; nia).
    split; [split; [nia|exact R]|].
    apply Z.div_unique with r0; [left; lia|].
    rewrite D1 at 1. rewrite D0 at 1. rewrite <- Hpq. ring.
  - destruct (Z.eq_dec n 64) as [->|N64].
    + rewrite !rightshift64_64. cbn [h1 h0]. split; [lia|]. rewrite <- W_pow.
      rewrite Z.mul_0_l, Z.add_0_l. symmetry. rewrite Z.div_add_l by lia.
      rewrite (Z.div_small w0) by lia. lia.
    + destruct (Z.lt_ge_cases n 128) as [L2|G2].
      * rewrite !rightshift64_hi by lia. cbn [h1 h0].
        assert (0 < 2^(n-64)) by (apply Z.pow_pos_nonneg; lia).
        assert (0 <= w1 / 2^(n-64) < W).
        { split; [apply Z.div_pos; lia|apply Z.div_lt_upper_bound; nia]. }
        split; [lia|]. rewrite Z.mul_0_l, Z.add_0_l.
        rewrite (pow_split n 64) by lia. rewrite <- W_pow.
        rewrite (Z.mul_comm (2^(n-64)) W). rewrite <- Z.div_div by lia.
        rewrite Z.div_add_l by lia. rewrite (Z.div_small w0) by lia.
        f_equal. lia.
      * rewrite !rightshift64_out by lia. cbn [h1 h0]. split; [lia|].
        symmetry. apply Z.div_small. split; [nia|].
        apply Z.lt_le_trans with (W * W); [nia|]. replace (W * W) with (2^128) by reflexivity.
        apply Z.pow_le_mono_r; lia.
Qed.

(** chain lemmas in equational form *)
Lemma chain_l w n cin : inW w -> 0 < n < 64 -> 0 <= cin < 2^n ->
  exists v c, leftshift64 w n cin = (v, c) /\ inW v /\ 0 <= c < 2^n /\ v + c * W = w * 2^n + cin.
Proof.
  intros Hw Hn Hc. rewrite (leftshift64_mid w n cin Hw Hn Hc).
  assert (Hp : 0 < 2^n) by (apply Z.pow_pos_nonneg; lia).
  assert (Hq : 0 < 2^(64-n)) by (apply Z.pow_pos_nonneg; lia).
  pose proof (pq_W n ltac:(lia)) as Hpq. destruct Hw as [Hw0 Hw1].
  destruct (divmod_pq w (2^(64-n)) Hq) as [D B].
  assert (A : 0 <= w / 2^(64-n) < 2^n).
  { split; [apply Z.div_pos; lia|apply Z.div_lt_upper_bound; lia]. }
  eexists _, _. split; [reflexivity|].
  set (p := 2^n) in *. set (q := 2^(64-n)) in *. set (a := w / q) in *. set (r := w mod q) in *.
  unfold inW. split; [rewrite <- Hpq; nia|]. split; [exact A|].
  rewrite D at 1. rewrite <- Hpq. ring.
Qed.

Lemma chain_r w n c : inW w -> 0 < n < 64 -> 0 <= c < 2^n ->
  exists v c', rightshift64 w n (c * 2^(64-n)) = (v, c' * 2^(64-n)) /\ inW v /\ 0 <= c' < 2^n /\
               2^n * v + c' = w + c * W.
Proof.
  intros Hw Hn Hc. rewrite (rightshift64_mid w n c Hw Hn Hc).
  assert (Hp : 0 < 2^n) by (apply Z.pow_pos_nonneg; lia).
  assert (Hq : 0 < 2^(64-n)) by (apply Z.pow_pos_nonneg; lia).
  pose proof (pq_W n ltac:(lia)) as Hpq. destruct Hw as [Hw0 Hw1].
  destruct (divmod_pq w (2^n) Hp) as [D B].
  assert (A : 0 <= w / 2^n) by (apply Z.div_pos; lia).
  eexists _, _. split; [reflexivity|].
  set (p := 2^n) in *. set (q := 2^(64-n)) in *. set (a := w / p) in *. set (r := w mod p) in *.
  assert (a < q) by nia.
  unfold inW. split; [rewrite <- Hpq; nia|]. split; [exact B|].
  rewrite D at 1. rewrite <- Hpq. ring.
Qed.

Lemma W4_val : W4 = 2^256. Proof. reflexivity. Qed.

Lemma u256_shl_orig_small u m : wf256 u -> 0 <= m < 64 ->
  wf256 (u256_shl_orig u m) /\ val256 (u256_shl_orig u m) = (val256 u * 2^m) mod W4.
Proof.
  destruct u as [w3 w2 w1 w0]. unfold wf256, val256, u256_shl_orig; cbn [q0 q1 q2 q3].
  intros (H3 & H2 & H1 & H0) Hm. pose proof W_pos as WP.
  destruct (Z.eq_dec m 0) as [->|M0].
  { simpl. rewrite Z.mul_1_r. rewrite Z.mod_small; [tauto|]. unfold W4, W2. rewrite W_val in *. lia. }
  assert (Hp : 0 < 2^m) by (apply Z.pow_pos_nonneg; lia).
  destruct (chain_l w0 m 0 H0 ltac:(lia) ltac:(lia)) as (v0 & c0 & E0 & V0 & C0 & Q0). rewrite E0.
  destruct (chain_l w1 m c0 H1 ltac:(lia) C0) as (v1 & c1 & E1 & V1 & C1 & Q1). rewrite E1.
  destruct (chain_l w2 m c1 H2 ltac:(lia) C1) as (v2 & c2 & E2 & V2 & C2 & Q2). rewrite E2.
  destruct (chain_l w3 m c2 H3 ltac:(lia) C2) as (v3 & c3 & E3 & V3 & C3 & Q3). rewrite E3.
  cbn [q0 q1 q2 q3]. unfold inW in *. split; [tauto|].
  apply Z.mod_unique with c3.
  - left. unfold W4, W2. rewrite W_val in *. lia.
  - unfold W4, W2. set (p := 2^m) in *. rewrite W_val in *. lia.
Qed.

Lemma u256_shr_orig_small u m : wf256 u -> 0 <= m < 64 ->
  wf256 (u256_shr_orig u m) /\ val256 (u256_shr_orig u m) = val256 u / 2^m.
Proof.
  destruct u as [w3 w2 w1 w0]. unfold wf256, val256, u256_shr_orig; cbn [q0 q1 q2 q3].
  intros (H3 & H2 & H1 & H0) Hm. pose proof W_pos as WP.
  destruct (Z.eq_dec m 0) as [->|M0].
  { simpl. rewrite Z.div_1_r. tauto. }
  assert (Hp : 0 < 2^m) by (apply Z.pow_pos_nonneg; lia).
  destruct (chain_r w3 m 0 H3 ltac:(lia) ltac:(lia)) as (v3 & c3 & E3 & V3 & C3 & Q3).
  rewrite Z.mul_0_l in E3. rewrite E3.
  destruct (chain_r w2 m c3 H2 ltac:(lia) C3) as (v2 & c2 & E2 & V2 & C2 & Q2). rewrite E2.
  destruct (chain_r w1 m c2 H1 ltac:(lia) C2) as (v1 & c1 & E1 & V1 & C1 & Q1). rewrite E1.
  destruct (chain_r w0 m c1 H0 ltac:(lia) C1) as (v0 & c0 & E0 & V0 & C0 & Q0). rewrite E0.
  cbn [q0 q1 q2 q3]. unfold inW in *. split; [tauto|].
  apply Z.div_unique with c0; [left; lia|].
  set (p := 2^m) in *. rewrite W_val in *. lia.
Qed.

(* ------------------------------------------------------------------ *)

Lemma W4_pos : 0 < W4. Proof. reflexivity. Qed.

Lemma limbs_up1 u : wf256 u ->
  wf256 (mk256 (q2 u) (q1 u) (q0 u) 0) /\ val256 (mk256 (q2 u) (q1 u) (q0 u) 0) = (val256 u * W) mod W4.
Proof.
  destruct u as [w3 w2 w1 w0]. unfold wf256, val256; cbn [q0 q1 q2 q3]. intros (H3 & H2 & H1 & H0).
  pose proof W_pos. split; [lia|]. apply Z.mod_unique with w3.
  - left. unfold W4, W2. rewrite W_val in *. lia.
  - unfold W4, W2. ring.
Qed.

Lemma limbs_up_spec k u : wf256 u ->
  wf256 (limbs_up k u) /\ val256 (limbs_up k u) = (val256 u * W^(Z.of_nat k)) mod W4.
Proof.
  revert u. induction k as [|k IH]; intros u Hu.
  - simpl. rewrite Z.mul_1_r. rewrite Z.mod_small by (apply val256_range; exact Hu). tauto.
  - cbn [limbs_up]. destruct (limbs_up1 u Hu) as [Hw Hv].
    destruct (IH _ Hw) as [Hw' Hv']. split; [exact Hw'|].
    rewrite Hv', Hv. rewrite Z.mul_mod_idemp_l by (pose proof W4_pos; lia).
    f_equal. rewrite Nat2Z.inj_succ, Z.pow_succ_r by lia. ring.
Qed.

Lemma limbs_down1 u : wf256 u ->
  wf256 (mk256 0 (q3 u) (q2 u) (q1 u)) /\ val256 (mk256 0 (q3 u) (q2 u) (q1 u)) = val256 u / W.
Proof.
  destruct u as [w3 w2 w1 w0]. unfold wf256, val256; cbn [q0 q1 q2 q3]. intros (H3 & H2 & H1 & H0).
  pose proof W_pos. split; [lia|]. apply Z.div_unique with w0; [left; lia|]. ring.
Qed.

Lemma limbs_down_spec k u : wf256 u ->
  wf256 (limbs_down k u) /\ val256 (limbs_down k u) = val256 u / W^(Z.of_nat k).
Proof.
  revert u. induction k as [|k IH]; intros u Hu.
  - simpl. rewrite Z.div_1_r. tauto.
  - cbn [limbs_down]. destruct (limbs_down1 u Hu) as [Hw Hv].
    destruct (IH _ Hw) as [Hw' Hv']. split; [exact Hw'|].
    rewrite Hv', Hv. rewrite Z.div_div by (try apply Z.pow_pos_nonneg; pose proof W_pos; lia).
    f_equal. rewrite Nat2Z.inj_succ, Z.pow_succ_r by lia. ring.
Qed.

Lemma pow_W_k n : 0 <= n -> W^(n / 64) * 2^(n mod 64) = 2^n.
Proof.
  intros Hn. rewrite W_pow. rewrite <- Z.pow_mul_r by (try apply Z.div_pos; lia).
  rewrite <- Z.pow_add_r by (try apply Z.mul_nonneg_nonneg; try apply Z.div_pos; try apply Z.mod_pos_bound; lia).
  f_equal. pose proof (Z.div_mod n 64 ltac:(lia)). lia.
Qed.

Lemma u256_shl_spec u n : wf256 u -> 0 <= n ->
  wf256 (u256_shl u n) /\ val256 (u256_shl u n) = (val256 u * 2^n) mod W4.
Proof.
  intros Hu Hn. unfold u256_shl. destruct (256 <=? n) eqn:E.
  - apply Z.leb_le in E. split; [unfold wf256; cbn; pose proof W_pos; lia|].
    rewrite (pow_split n 256) by lia. rewrite <- W4_val, Z.mul_assoc, Z.mod_mul by (pose proof W4_pos; lia).
    reflexivity.
  - apply Z.leb_gt in E.
    destruct (limbs_up_spec (Z.to_nat (n / 64)) u Hu) as [Hw Hv].
    assert (Hm : 0 <= n mod 64 < 64) by (apply Z.mod_pos_bound; lia).
    destruct (u256_shl_orig_small _ (n mod 64) Hw Hm) as [Hw' Hv'].
    split; [exact Hw'|]. rewrite Hv', Hv.
    rewrite Z2Nat.id by (apply Z.div_pos; lia).
    rewrite Z.mul_mod_idemp_l by (pose proof W4_pos; lia).
    rewrite <- Z.mul_assoc, pow_W_k by lia. reflexivity.
Qed.

Lemma u256_shr_spec u n : wf256 u -> 0 <= n ->
  wf256 (u256_shr u n) /\ val256 (u256_shr u n) = val256 u / 2^n.
Proof.
  intros Hu Hn. unfold u256_shr. destruct (256 <=? n) eqn:E.
  - apply Z.leb_le in E. split; [unfold wf256; cbn; pose proof W_pos; lia|].
    symmetry. apply Z.div_small. pose proof (val256_range u Hu). split; [lia|].
    apply Z.lt_le_trans with W4; [lia|]. rewrite W4_val. apply Z.pow_le_mono_r; lia.
  - apply Z.leb_gt in E.
    destruct (limbs_down_spec (Z.to_nat (n / 64)) u Hu) as [Hw Hv].
    assert (Hm : 0 <= n mod 64 < 64) by (apply Z.mod_pos_bound; lia).
    destruct (u256_shr_orig_small _ (n mod 64) Hw Hm) as [Hw' Hv'].
    split; [exact Hw'|]. rewrite Hv', Hv.
    rewrite Z2Nat.id by (apply Z.div_pos; lia).
    rewrite Z.div_div; [rewrite pow_W_k by lia; reflexivity| |].
    + apply Z.pow_nonzero; [rewrite W_val; lia|apply Z.div_pos; lia].
    + apply Z.pow_pos_nonneg; lia.
Qed.

(** the original chained shifts are wrong above 64 *)
Lemma u256_shl_orig_refuted :
  exists u n, wf256 u /\ 0 <= n < 256 /\ val256 (u256_shl_orig u n) <> (val256 u * 2^n) mod W4.
Proof. exists (mk256 0 0 0 3), 127. split; [unfold wf256; cbn; lia|]. split; [lia|]. vm_compute. discriminate. Qed.
Lemma u256_shr_orig_refuted :
  exists u n, wf256 u /\ 0 <= n < 256 /\ val256 (u256_shr_orig u n) <> val256 u / 2^n.
Proof. exists (mk256 1 0 0 0), 128. split; [unfold wf256; cbn; lia|]. split; [lia|]. vm_compute. discriminate. Qed.

(* ------------------------------------------------------------------ *)

Lemma mul64_eq x y h l : inW x -> inW y -> mul64 x y = (h, l) -> inW h /\ inW l /\ h * W + l = x * y.
Proof.
  unfold inW, mul64. intros Hx Hy E. injection E as <- <-. pose proof W_pos.
  pose proof (Z.div_mod (x * y) W ltac:(lia)). pose proof (Z.mod_pos_bound (x * y) W ltac:(lia)).
  split; [|split; [assumption|lia]].
  split; [apply Z.div_pos; nia|apply Z.div_lt_upper_bound; nia].
Qed.

Lemma add64_eq x y c s k : inW x -> inW y -> 0 <= c <= 1 -> add64 x y c = (s, k) ->
  inW s /\ 0 <= k <= 1 /\ s + k * W = x + y + c.
Proof. intros Hx Hy Hc E. pose proof (add64_spec x y c Hx Hy Hc) as H. rewrite E in H. exact H. Qed.

Lemma u128_mul64_exact u v : wf128 u -> inW v ->
  (val128 u * v < W * W -> exists r, u128_mul64 u v = Ok r /\ wf128 r /\ val128 r = val128 u * v) /\
  (W * W <= val128 u * v -> u128_mul64 u v = Panic).
Proof.
  destruct u as [a1 a0]. unfold wf128, val128, u128_mul64; cbn [h1 h0]. intros [H1 H0] Hv.
  destruct (mul64 a0 v) as [hi lo] eqn:E0. apply mul64_eq in E0; try assumption. destruct E0 as (Hhi & Hlo & E0).
  destruct (mul64 a1 v) as [p0 p1] eqn:E1. apply mul64_eq in E1; try assumption. destruct E1 as (Hp0 & Hp1 & E1).
  destruct (add64 hi p1 0) as [hi' c0] eqn:E2. apply add64_eq in E2; try assumption; try lia.
  destruct E2 as (Hhi' & Hc0 & E2).
  replace ((a1 * W + a0) * v) with ((a1 * v) * W + a0 * v) by ring.
  rewrite <- E0, <- E1. unfold inW in *. rewrite W_val in *.
  split; intros H.
  - assert (p0 = 0) as -> by lia. assert (c0 = 0) as -> by lia. simpl.
    eexists; split; [reflexivity|]. cbn [h1 h0]. lia.
  - destruct (p0 =? 0) eqn:P; [|reflexivity]. destruct (c0 =? 0) eqn:C; [|reflexivity]. lia.
Qed.

(** Uint128.Mul: exact and overflow-exact whenever one of the two high limbs is zero.  In general
    the value returned without panic is the product minus (w1*w1)*2^128. *)
Lemma u128_mul_general u v : wf128 u -> wf128 v ->
  match u128_mul u v with
  | Ok r => wf128 r /\ val128 r = val128 u * val128 v - (h1 u * h1 v) * (W * W)
  | Panic => W * W <= val128 u * val128 v
  | OutOfFuel => False
  end.
Proof.
  destruct u as [a1 a0], v as [b1 b0]. unfold wf128, val128, u128_mul; cbn [h1 h0]. intros [Ha1 Ha0] [Hb1 Hb0].
  destruct (mul64 a0 b0) as [hi lo] eqn:E0. apply mul64_eq in E0; try assumption. destruct E0 as (Hhi & Hlo & E0).
  destruct (mul64 a1 b0) as [p0 p1] eqn:E1. apply mul64_eq in E1; try assumption. destruct E1 as (Hp0 & Hp1 & E1).
  destruct (mul64 a0 b1) as [p2 p3] eqn:E2. apply mul64_eq in E2; try assumption. destruct E2 as (Hp2 & Hp3 & E2).
  destruct (add64 hi p1 0) as [hi1 c0] eqn:E3. apply add64_eq in E3; try assumption; try lia.
  destruct E3 as (Hhi1 & Hc0 & E3).
  destruct (add64 hi1 p3 0) as [hi2 c1] eqn:E4. apply add64_eq in E4; try assumption; try lia.
  destruct E4 as (Hhi2 & Hc1 & E4).
  replace ((a1 * W + a0) * (b1 * W + b0)) with ((a1 * b1) * (W * W) + (a1 * b0) * W + (a0 * b1) * W + a0 * b0) by ring.
  rewrite <- E0, <- E1, <- E2.
  assert (0 <= a1 * b1) by (unfold inW in *; nia).
  generalize dependent (a1 * b1). intros ab Hab.
  unfold inW in *. rewrite W_val in *.
  destruct (p0 =? 0) eqn:P0; destruct (p2 =? 0) eqn:P2; destruct (c0 =? 0) eqn:C0; destruct (c1 =? 0) eqn:C1;
    cbn [negb orb h1 h0]; lia.
Qed.

Lemma u128_mul_exact_partial u v : wf128 u -> wf128 v -> h1 u = 0 \/ h1 v = 0 ->
  (val128 u * val128 v < W * W -> exists r, u128_mul u v = Ok r /\ wf128 r /\ val128 r = val128 u * val128 v) /\
  (W * W <= val128 u * val128 v -> u128_mul u v = Panic).
Proof.
  intros Hu Hv Hz. pose proof (u128_mul_general u v Hu Hv) as G.
  assert (Z0 : h1 u * h1 v = 0) by (destruct Hz as [-> | ->]; lia).
  rewrite Z0 in G. split; intros H.
  - destruct (u128_mul u v) as [r| |]; [|lia|tauto]. exists r. split; [reflexivity|]. destruct G. split; [assumption|lia].
  - destruct (u128_mul u v) as [r| |]; [|reflexivity|tauto].
    destruct G as [Hr G]. pose proof (val128_range r Hr). lia.
Qed.

(** the missing w1*w1 term: a known finding (the pinned unit test demands the wrapped value) *)
Lemma u128_mul_refuted :
  exists u v, wf128 u /\ wf128 v /\ W * W <= val128 u * val128 v /\ u128_mul u v <> Panic.
Proof.
  exists (mk128 1 0), (mk128 1 0). unfold wf128; cbn [h1 h0]. rewrite W_val.
  split; [lia|]. split; [lia|]. split; [vm_compute; discriminate|vm_compute; discriminate].
Qed.
(** the carry defect repaired by the fix: commit *)
Lemma u128_mul_orig_refuted :
  exists u v, wf128 u /\ wf128 v /\ h1 v = 0 /\ W * W <= val128 u * val128 v /\ u128_mul_orig u v <> Panic.
Proof.
  exists (mk128 1 (W - 1)), (mk128 0 (W - 1)). unfold wf128; cbn [h1 h0]. rewrite W_val.
  split; [lia|]. split; [lia|]. split; [reflexivity|]. split; [vm_compute; discriminate|vm_compute; discriminate].
Qed.
Lemma u256_mul_orig_refuted :
  exists u v, wf256 u /\ wf256 v /\ exists r, u256_mul_orig u v = Ok r /\ val256 r <> val256 u * val256 v.
Proof.
  exists (mk256 0 0 0 1), (mk256 0 0 0 1). unfold wf256; cbn [q0 q1 q2 q3]. rewrite W_val.
  split; [lia|]. split; [lia|]. eexists. split; [vm_compute; reflexivity|vm_compute; discriminate].
Qed.

(* ------------------------------------------------------------------ *)

Fixpoint lval (l : list Z) : Z := match l with [] => 0 | x :: l' => x + W * lval l' end.
Definition allW (l : list Z) : Prop := Forall inW l.

Lemma mul_row_spec ai : inW ai -> forall b r carry, allW b -> allW r -> inW carry ->
  (length b < length r)%nat -> nth (length b) r 0 = 0 ->
  allW (mul_row ai b r carry) /\ length (mul_row ai b r carry) = length r /\
  lval (mul_row ai b r carry) = lval r + ai * lval b + carry /\
  (forall i, (length b < i)%nat -> nth i (mul_row ai b r carry) 0 = nth i r 0).
Proof.
  intros Hai. induction b as [|bj b IH]; intros r carry Hb Hr Hc Hlen Hz.
  - destruct r as [|rj r]; [simpl in Hlen; lia|]. simpl in Hz. subst rj. simpl.
    inversion Hr as [|? ? _ Hr']; subst. split; [constructor; assumption|]. split; [reflexivity|].
    split; [lia|]. intros [|i] Hi; [lia|reflexivity].
  - destruct r as [|rj r]; [simpl in Hlen; lia|].
    inversion Hb as [|? ? Hbj Hb']; subst. inversion Hr as [|? ? Hrj Hr']; subst.
    cbn [mul_row].
    destruct (mul64 ai bj) as [hi lo] eqn:E0. apply mul64_eq in E0; try assumption. destruct E0 as (Hhi & Hlo & E0).
    destruct (add64 lo rj 0) as [lo1 c1] eqn:E1. apply add64_eq in E1; try assumption; try lia. destruct E1 as (Hlo1 & Hc1 & E1).
    destruct (add64 lo1 carry 0) as [lo2 c2] eqn:E2. apply add64_eq in E2; try assumption; try lia. destruct E2 as (Hlo2 & Hc2 & E2).
    assert (Hhi2 : inW (hi + c1 + c2)).
    { unfold inW in *. pose proof W_pos. assert (ai * bj <= (W - 1) * (W - 1)) by nia. rewrite W_val in *. lia. }
    simpl in Hlen, Hz.
    destruct (IH r (hi + c1 + c2) Hb' Hr' Hhi2 ltac:(lia) Hz) as (A1 & A2 & A3 & A4).
    split; [constructor; assumption|]. split; [simpl; lia|]. split.
    + cbn [lval]. rewrite A3. replace (ai * (bj + W * lval b)) with (ai * bj + W * (ai * lval b)) by ring.
      rewrite <- E0. lia.
    + intros [|i] Hi; [lia|]. simpl. apply A4. simpl in Hi. lia.
Qed.

Lemma mul_rows_spec b : allW b -> forall a r, allW a -> allW r ->
  length r = (length a + length b)%nat -> (forall i, (length b <= i)%nat -> nth i r 0 = 0) ->
  allW (mul_rows a b r) /\ length (mul_rows a b r) = length r /\
  lval (mul_rows a b r) = lval r + lval a * lval b.
Proof.
  intros Hb. induction a as [|ai a IH]; intros r Ha Hr Hlen Hz.
  - simpl. split; [assumption|]. split; [reflexivity|]. destruct r; simpl; lia.
  - inversion Ha as [|? ? Hai Ha']; subst.
    destruct r as [|rj r]; [simpl in Hlen; lia|]. cbn [mul_rows].
    destruct (mul_row_spec ai Hai b (rj :: r) 0 Hb Hr ltac:(unfold inW; pose proof W_pos; lia)
                ltac:(simpl in *; lia) (Hz _ (le_n _))) as (A1 & A2 & A3 & A4).
    destruct (mul_row ai b (rj :: r) 0) as [|r0 rest] eqn:E; [simpl in A2; lia|].
    inversion A1 as [|? ? Hr0 Hrest]; subst.
    destruct (IH rest Ha' Hrest) as (B1 & B2 & B3).
    + simpl in A2, Hlen. lia.
    + intros i Hi. specialize (A4 (S i) ltac:(lia)). simpl in A4. rewrite A4. apply (Hz (S i)). lia.
    + split; [constructor; assumption|]. split; [simpl in *; lia|].
      cbn [lval] in *. rewrite B3. lia.
Qed.

Lemma u256_mul_exact u v : wf256 u -> wf256 v ->
  (val256 u * val256 v < W4 -> exists r, u256_mul u v = Ok r /\ wf256 r /\ val256 r = val256 u * val256 v) /\
  (W4 <= val256 u * val256 v -> u256_mul u v = Panic).
Proof.
  destruct u as [a3 a2 a1 a0], v as [b3 b2 b1 b0]. unfold wf256, u256_mul; cbn [q0 q1 q2 q3].
  intros (Ha3 & Ha2 & Ha1 & Ha0) (Hb3 & Hb2 & Hb1 & Hb0).
  assert (HA : allW [a0; a1; a2; a3]) by (unfold allW; repeat (apply Forall_cons; [assumption|]); apply Forall_nil).
  assert (HB : allW [b0; b1; b2; b3]) by (unfold allW; repeat (apply Forall_cons; [assumption|]); apply Forall_nil).
  assert (HZ : allW [0;0;0;0;0;0;0;0]) by (unfold allW; repeat (apply Forall_cons; [unfold inW; pose proof W_pos; lia|]); apply Forall_nil).
  destruct (mul_rows_spec _ HB _ _ HA HZ eq_refl) as (R1 & R2 & R3).
  { intros i Hi. do 8 (destruct i as [|i]; [reflexivity|]). destruct i; reflexivity. }
  destruct (mul_rows [a0; a1; a2; a3] [b0; b1; b2; b3] [0; 0; 0; 0; 0; 0; 0; 0]) as [|r0 [|r1 [|r2 [|r3 [|r4 [|r5 [|r6 [|r7 [|x l]]]]]]]]];
    try (simpl in R2; lia).
  unfold allW in R1. repeat match goal with H : Forall _ (_ :: _) |- _ => inversion H; clear H; subst end.
  assert (V : val256 (mk256 a3 a2 a1 a0) * val256 (mk256 b3 b2 b1 b0) =
              r0 + W * (r1 + W * (r2 + W * (r3 + W * (r4 + W * (r5 + W * (r6 + W * r7))))))).
  { cbn [lval] in R3. unfold val256; cbn [q0 q1 q2 q3]. rewrite Z.mul_0_r, !Z.add_0_r in R3.
    rewrite R3. ring. }
  rewrite V. clear V R3 R2 HA HB HZ. unfold val256, W4, W2, inW in *; cbn [q0 q1 q2 q3]. rewrite W_val in *.
  split; intros H.
  - assert (T : r4 + 18446744073709551616 * (r5 + 18446744073709551616 * (r6 + 18446744073709551616 * r7)) = 0).
    { remember (r4 + 18446744073709551616 * (r5 + 18446744073709551616 * (r6 + 18446744073709551616 * r7))) as t eqn:Et.
      assert (0 <= t) by lia. clear Et. lia. }
    assert (r4 = 0) as -> by lia.
    assert (T5 : r5 + 18446744073709551616 * (r6 + 18446744073709551616 * r7) = 0) by lia.
    assert (r5 = 0) as -> by lia. assert (r6 = 0) as -> by lia. assert (r7 = 0) as -> by lia.
    rewrite !Z.eqb_refl. cbn [andb]. eexists; split; [reflexivity|]. cbn [q0 q1 q2 q3]. lia.
  - destruct (r4 =? 0) eqn:E4; [|reflexivity]. destruct (r5 =? 0) eqn:E5; [|reflexivity].
    destruct (r6 =? 0) eqn:E6; [|reflexivity]. destruct (r7 =? 0) eqn:E7; [|reflexivity]. lia.
Qed.

(* ------------------------------------------------------------------ *)

Lemma u256_le_spec u v : wf256 u -> wf256 v -> u256_le u v = (val256 u <=? val256 v).
Proof.
  intros Hu Hv. unfold u256_le. rewrite (u256_cmp_spec u v Hu Hv).
  destruct (Z.compare_spec (val256 u) (val256 v)); simpl; symmetry; [apply Z.leb_le|apply Z.leb_le|apply Z.leb_gt]; lia.
Qed.
Lemma u256_lt_spec u v : wf256 u -> wf256 v -> u256_lt u v = (val256 u <? val256 v).
Proof.
  intros Hu Hv. unfold u256_lt. rewrite (u256_cmp_spec u v Hu Hv).
  destruct (Z.compare_spec (val256 u) (val256 v)); simpl; symmetry; [apply Z.ltb_ge|apply Z.ltb_lt|apply Z.ltb_ge]; lia.
Qed.
Lemma u256_iszero_spec u : wf256 u -> u256_iszero u = (val256 u =? 0).
Proof.
  destruct u as [a3 a2 a1 a0]. unfold wf256, u256_iszero, val256; cbn [q0 q1 q2 q3]. rewrite W_val. intros H.
  destruct (a3 =? 0) eqn:E3; destruct (a2 =? 0) eqn:E2; destruct (a1 =? 0) eqn:E1; destruct (a0 =? 0) eqn:E0;
    cbn [andb]; symmetry; try (apply Z.eqb_eq; lia); apply Z.eqb_neq; lia.
Qed.
Lemma top_bit_clear u : wf256 u -> (q3 u <? 2^63) = (val256 u <? 2^255).
Proof.
  destruct u as [a3 a2 a1 a0]. unfold wf256, val256; cbn [q0 q1 q2 q3]. rewrite W_val. intros H.
  destruct (a3 <? 2^63) eqn:E; symmetry; [apply Z.ltb_lt|apply Z.ltb_ge]; lia.
Qed.
Lemma shl1_val u : wf256 u -> val256 u < 2^255 -> wf256 (u256_shl u 1) /\ val256 (u256_shl u 1) = 2 * val256 u.
Proof.
  intros Hu H. destruct (u256_shl_spec u 1 Hu ltac:(lia)) as [A B]. split; [exact A|].
  rewrite B. pose proof (val256_range u Hu). rewrite Z.mod_small; [lia|]. rewrite W4_val. lia.
Qed.

Section Div.
Variable v : u256.
Hypothesis Hv : wf256 v.
Hypothesis Hv1 : 1 <= val256 v.

Lemma div_inner_spec r : wf256 r -> forall fuel t m, wf256 t -> wf256 m ->
  val256 t = val256 v * val256 m -> 1 <= val256 m -> val256 t <= val256 r ->
  2^(257 - Z.of_nat fuel) <= val256 t ->
  exists t' m', div_inner true fuel t m r = Some (t', m') /\ wf256 t' /\ wf256 m' /\
     val256 t' = val256 v * val256 m' /\ 1 <= val256 m' /\ val256 t' <= val256 r < 2 * val256 t'.
Proof.
  intros Hr. induction fuel as [|f IH]; intros t m Ht Hm Htm Hm1 Htr Hf.
  - exfalso. pose proof (val256_range r Hr). rewrite W4_val in *. change (257 - Z.of_nat 0) with 257 in Hf.
    assert (H0 : 2^256 < 2^257) by (apply Z.pow_lt_mono_r; lia).
    exact (Z.lt_irrefl _ (Z.lt_le_trans _ _ _ (Z.lt_trans _ _ _ (proj2 H) H0) (Z.le_trans _ _ _ Hf Htr))).
  - cbn [div_inner negb orb]. rewrite (top_bit_clear t Ht).
    destruct (val256 t <? 2^255) eqn:E; cbn [andb].
    + apply Z.ltb_lt in E. destruct (shl1_val t Ht E) as [Ht' Vt'].
      assert (Em : val256 m < 2^255) by nia.
      destruct (shl1_val m Hm Em) as [Hm' Vm'].
      rewrite (u256_le_spec _ _ Ht' Hr). rewrite Vt'.
      destruct (2 * val256 t <=? val256 r) eqn:E2.
      * apply Z.leb_le in E2. apply IH; try assumption; try lia.
        rewrite Vt'. replace (257 - Z.of_nat (S f)) with (257 - Z.of_nat f - 1) in Hf by lia.
        destruct (Z.le_gt_cases 1 (257 - Z.of_nat f)) as [G|G].
        -- replace (257 - Z.of_nat f) with (Z.succ (257 - Z.of_nat f - 1)) by lia. rewrite Z.pow_succ_r by lia. lia.
        -- assert (2 ^ (257 - Z.of_nat f) <= 1).
           { destruct (Z.eq_dec (257 - Z.of_nat f) 0) as [->|]; [simpl; lia|]. rewrite Z.pow_neg_r by lia. lia. }
           lia.
      * apply Z.leb_gt in E2. exists t, m. split; [reflexivity|]. split; [assumption|]. split; [assumption|]. split; [assumption|]. split; [assumption|]. lia.
    + apply Z.ltb_ge in E. exists t, m. pose proof (val256_range r Hr). rewrite W4_val in *.
      split; [reflexivity|]. split; [assumption|]. split; [assumption|]. split; [assumption|]. split; [assumption|].
      change (2^256) with (2 * 2^255) in *. lia.
Qed.

Lemma div_outer_spec u : wf256 u -> forall fuel q r, wf256 q -> wf256 r ->
  val256 u = val256 q * val256 v + val256 r -> 2 * val256 r < 2^(Z.of_nat fuel) -> (1 <= fuel)%nat ->
  exists q', div_outer true fuel v q r = Ok q' /\ wf256 q' /\ val256 q' = val256 u / val256 v.
Proof.
  intros Hu. induction fuel as [|f IH]; intros q r Hq Hr Hinv Hf H1; [lia|].
  cbn [div_outer]. rewrite (u256_le_spec _ _ Hv Hr).
  destruct (val256 v <=? val256 r) eqn:E.
  - apply Z.leb_le in E.
    assert (H1w : wf256 (mk256 0 0 0 1)) by (unfold wf256; cbn [q0 q1 q2 q3]; rewrite W_val; lia).
    assert (V1 : val256 (mk256 0 0 0 1) = 1) by reflexivity.
    destruct (div_inner_spec r Hr 257 v (mk256 0 0 0 1) Hv H1w ltac:(rewrite V1; lia) ltac:(rewrite V1; lia) E
                ltac:(simpl; lia)) as (t & m & Ei & Ht & Hm & Htm & Hm1 & Htr).
    rewrite Ei.
    destruct (u256_sub_exact r t Hr Ht) as [S1 _]. destruct (S1 ltac:(lia)) as (r' & Er & Hr' & Vr').
    pose proof (val256_range u Hu) as Ru. pose proof (val256_range q Hq) as Rq. pose proof (val256_range r Hr) as Rr.
    destruct (u256_add_exact q m Hq Hm) as [A1 _].
    assert (Hfit : val256 q + val256 m < W4) by nia.
    destruct (A1 Hfit) as (q' & Eq & Hq' & Vq'). rewrite Er, Eq.
    assert (Hr1 : 1 <= val256 r) by lia.
    assert (Hf2 : (2 <= S f)%nat).
    { destruct f; [change (Z.of_nat 1) with 1 in Hf; rewrite Z.pow_1_r in Hf; lia|lia]. }
    apply IH; [exact Hq'|exact Hr'| | |lia].
    + rewrite Vq', Vr', Hinv, Htm. ring.
    + rewrite Vr'. rewrite Nat2Z.inj_succ, Z.pow_succ_r in Hf by lia. lia.
  - apply Z.leb_gt in E. exists q. split; [reflexivity|]. split; [assumption|].
    pose proof (val256_range r Hr). apply Z.div_unique with (val256 r); lia.
Qed.
End Div.

Lemma u256_div_exact u v : wf256 u -> wf256 v -> val256 v <> 0 ->
  exists q, u256_div u v = Ok q /\ wf256 q /\ val256 q = val256 u / val256 v.
Proof.
  intros Hu Hv Hnz. pose proof (val256_range u Hu) as Ru. pose proof (val256_range v Hv) as Rv.
  unfold u256_div, u256_div_gen. rewrite (u256_iszero_spec v Hv).
  destruct (val256 v =? 0) eqn:E0; [apply Z.eqb_eq in E0; lia|].
  rewrite (u256_iszero_spec u Hu), (u256_lt_spec u v Hu Hv).
  assert (H0w : wf256 (mk256 0 0 0 0)) by (unfold wf256; cbn [q0 q1 q2 q3]; rewrite W_val; lia).
  destruct ((val256 u =? 0) || (val256 u <? val256 v)) eqn:E1.
  - exists (mk256 0 0 0 0). split; [reflexivity|]. split; [assumption|].
    change (val256 (mk256 0 0 0 0)) with 0. symmetry. apply Z.div_small.
    apply orb_true_iff in E1. destruct E1 as [E1|E1]; [apply Z.eqb_eq in E1|apply Z.ltb_lt in E1]; lia.
  - apply orb_false_iff in E1. destruct E1 as [E1 E2]. apply Z.eqb_neq in E1. apply Z.ltb_ge in E2.
    assert (H1w : wf256 (mk256 0 0 0 1)) by (unfold wf256; cbn [q0 q1 q2 q3]; rewrite W_val; lia).
    rewrite (u256_cmp_spec v _ Hv H1w). change (val256 (mk256 0 0 0 1)) with 1.
    destruct (Z.compare_spec (val256 v) 1) as [C|C|C]; cbn [Z.eqb].
    + exists u. split; [reflexivity|]. split; [assumption|]. rewrite C, Z.div_1_r. reflexivity.
    + lia.
    + apply (div_outer_spec v Hv ltac:(lia) u Hu 257 (mk256 0 0 0 0) u H0w Hu).
      * change (val256 (mk256 0 0 0 0)) with 0. lia.
      * rewrite W4_val in Ru. change (Z.of_nat 257) with 257. lia.
      * lia.
Qed.

Lemma u256_div_orig_refuted :
  exists u v, wf256 u /\ wf256 v /\ val256 v <> 0 /\ u256_div_orig u v = OutOfFuel.
Proof.
  exists (mk256 (W-1) (W-1) (W-1) (W-1)), (mk256 0 0 0 2). unfold wf256; cbn [q0 q1 q2 q3]. rewrite W_val.
  split; [lia|]. split; [lia|]. split; [vm_compute; discriminate|vm_compute; reflexivity].
Qed.

(* ------------------------------------------------------------------ *)

Lemma div64_some hi lo y : 0 <= hi < y -> div64 hi lo y = Some ((hi * W + lo) / y, (hi * W + lo) mod y).
Proof. intros H. unfold div64. replace (y =? 0) with false by lia. replace (y <=? hi) with false by lia. reflexivity. Qed.

Lemma u128_quorem64_exact u v : wf128 u -> inW v -> v <> 0 ->
  exists q r, u128_quorem64 u v = Ok (q, r) /\ wf128 q /\ val128 q = val128 u / v /\ r = val128 u mod v.
Proof.
  destruct u as [w1 w0]. unfold wf128, inW, val128, u128_quorem64; cbn [h1 h0]. intros [H1 H0] Hv Hnz.
  pose proof W_pos as WP.
  destruct (w1 <? v) eqn:E.
  - apply Z.ltb_lt in E. rewrite div64_some by lia.
    eexists _, _. split; [reflexivity|]. cbn [h1 h0].
    assert (0 <= (w1 * W + w0) / v < W).
    { split; [apply Z.div_pos; nia|apply Z.div_lt_upper_bound; nia]. }
    split; [lia|]. split; [lia|reflexivity].
  - apply Z.ltb_ge in E. rewrite div64_some by lia. rewrite Z.mul_0_l, Z.add_0_l.
    pose proof (Z.mod_pos_bound w1 v ltac:(lia)) as B.
    rewrite div64_some by lia.
    eexists _, _. split; [reflexivity|]. cbn [h1 h0].
    pose proof (Z.div_mod w1 v Hnz) as D1.
    pose proof (Z.div_mod (w1 mod v * W + w0) v Hnz) as D0.
    pose proof (Z.mod_pos_bound (w1 mod v * W + w0) v ltac:(lia)) as B0.
    set (q1 := w1 / v) in *. set (r1 := w1 mod v) in *.
    set (q0 := (r1 * W + w0) / v) in *. set (r0 := (r1 * W + w0) mod v) in *.
    assert (0 <= q1 < W) by (subst q1; split; [apply Z.div_pos; lia|apply Z.div_lt_upper_bound; nia]).
    assert (0 <= q0 < W) by (subst q0; split; [apply Z.div_pos; nia|apply Z.div_lt_upper_bound; nia]).
    split; [lia|].
    assert (EQ : w1 * W + w0 = v * (q1 * W + q0) + r0) by (rewrite D1 at 1; nia).
    split; [apply Z.div_unique with r0; [left; lia|exact EQ]|apply Z.mod_unique with (q1 * W + q0); [left; lia|exact EQ]].
Qed.


(* ------------------------------------------------------------------ *)

Lemma testbit_split A1 a0 i : 0 <= a0 < W -> 0 <= A1 -> 0 <= i ->
  Z.testbit (A1 * W + a0) i = if i <? 64 then Z.testbit a0 i else Z.testbit A1 (i - 64).
Proof.
  intros Ha HA Hi. rewrite W_pow. rewrite <- lor_disjoint_add by (first [lia | rewrite <- W_pow; lia]).
  rewrite Z.lor_spec. destruct (i <? 64) eqn:E.
  - apply Z.ltb_lt in E. rewrite Z.mul_pow2_bits_low by lia. reflexivity.
  - apply Z.ltb_ge in E. rewrite Z.mul_pow2_bits by lia.
    replace a0 with (a0 mod 2^64) by (apply Z.mod_small; rewrite <- W_pow; lia).
    rewrite Z.mod_pow2_bits_high by lia. apply orb_false_r.
Qed.

Section Bitwise.
Variable op : Z -> Z -> Z.
Variable f : bool -> bool -> bool.
Hypothesis op_spec : forall a b n, Z.testbit (op a b) n = f (Z.testbit a n) (Z.testbit b n).
Hypothesis f_ff : f false false = false.

Lemma op_nonneg a b : 0 <= a -> 0 <= b -> 0 <= op a b.
Proof.
  intros Ha Hb. destruct (Z.neg_nonneg_cases (op a b)) as [N|]; [|assumption]. exfalso.
  apply Z.bits_iff_neg_ex in N. destruct N as [k Hk].
  destruct (Z.bits_iff_nonneg_ex a) as [Xa _]. destruct (Z.bits_iff_nonneg_ex b) as [Xb _].
  destruct (Xa Ha) as [ka Hka]. destruct (Xb Hb) as [kb Hkb].
  set (m := Z.max k (Z.max ka kb) + 1).
  specialize (Hk m ltac:(lia)). rewrite op_spec, (Hka m), (Hkb m) in Hk by lia. congruence.
Qed.
Lemma op_small a b : 0 <= a < W -> 0 <= b < W -> 0 <= op a b < W.
Proof.
  intros Ha Hb. split; [apply op_nonneg; lia|].
  assert (N : 0 <= op a b) by (apply op_nonneg; lia).
  destruct (Z.eq_dec (op a b) 0) as [->|NZ]; [apply W_pos|].
  rewrite W_pow. apply Z.log2_lt_pow2; [lia|].
  destruct (Z.lt_ge_cases (Z.log2 (op a b)) 64) as [|G]; [assumption|]. exfalso.
  pose proof (Z.bit_log2 (op a b) ltac:(lia)) as B. rewrite op_spec in B. set (k := Z.log2 (op a b)) in *.
  replace a with (a mod 2^64) in B by (apply Z.mod_small; rewrite <- W_pow; lia).
  replace b with (b mod 2^64) in B by (apply Z.mod_small; rewrite <- W_pow; lia).
  rewrite !Z.mod_pow2_bits_high in B by lia. congruence.
Qed.
Lemma op_split A1 a0 B1 b0 : 0 <= a0 < W -> 0 <= b0 < W -> 0 <= A1 -> 0 <= B1 ->
  op (A1 * W + a0) (B1 * W + b0) = op A1 B1 * W + op a0 b0.
Proof.
  intros Ha Hb HA HB. apply Z.bits_inj'. intros i Hi.
  rewrite op_spec.
  rewrite (testbit_split A1 a0 i Ha HA Hi), (testbit_split B1 b0 i Hb HB Hi).
  rewrite (testbit_split (op A1 B1) (op a0 b0) i (op_small _ _ Ha Hb) (op_nonneg _ _ HA HB) Hi).
  destruct (i <? 64); symmetry; apply op_spec.
Qed.

Lemma op128 u v : wf128 u -> wf128 v ->
  wf128 (mk128 (op (h1 u) (h1 v)) (op (h0 u) (h0 v))) /\
  val128 (mk128 (op (h1 u) (h1 v)) (op (h0 u) (h0 v))) = op (val128 u) (val128 v).
Proof.
  destruct u as [a1 a0], v as [b1 b0]. unfold wf128, val128; cbn [h1 h0]. intros [Ha1 Ha0] [Hb1 Hb0].
  split; [split; apply op_small; assumption|]. rewrite op_split by lia. reflexivity.
Qed.
Lemma op256 u v : wf256 u -> wf256 v ->
  let r := mk256 (op (q3 u) (q3 v)) (op (q2 u) (q2 v)) (op (q1 u) (q1 v)) (op (q0 u) (q0 v)) in
  wf256 r /\ val256 r = op (val256 u) (val256 v).
Proof.
  destruct u as [a3 a2 a1 a0], v as [b3 b2 b1 b0]. unfold wf256, val256; cbn [q0 q1 q2 q3].
  intros (Ha3 & Ha2 & Ha1 & Ha0) (Hb3 & Hb2 & Hb1 & Hb0). pose proof W_pos.
  split; [repeat split; apply op_small; assumption|].
  rewrite op_split by (try assumption; nia). rewrite op_split by (try assumption; nia).
  rewrite op_split by (try assumption; lia). reflexivity.
Qed.
End Bitwise.

Lemma and128 u v : wf128 u -> wf128 v ->
  val128 (mk128 (Z.land (h1 u) (h1 v)) (Z.land (h0 u) (h0 v))) = Z.land (val128 u) (val128 v).
Proof. intros. apply (op128 Z.land andb Z.land_spec eq_refl); assumption. Qed.
Lemma or128 u v : wf128 u -> wf128 v ->
  val128 (mk128 (Z.lor (h1 u) (h1 v)) (Z.lor (h0 u) (h0 v))) = Z.lor (val128 u) (val128 v).
Proof. intros. apply (op128 Z.lor orb Z.lor_spec eq_refl); assumption. Qed.
Lemma xor128 u v : wf128 u -> wf128 v ->
  val128 (mk128 (Z.lxor (h1 u) (h1 v)) (Z.lxor (h0 u) (h0 v))) = Z.lxor (val128 u) (val128 v).
Proof. intros. apply (op128 Z.lxor xorb Z.lxor_spec eq_refl); assumption. Qed.
Lemma and256 u v : wf256 u -> wf256 v ->
  val256 (mk256 (Z.land (q3 u) (q3 v)) (Z.land (q2 u) (q2 v)) (Z.land (q1 u) (q1 v)) (Z.land (q0 u) (q0 v))) = Z.land (val256 u) (val256 v).
Proof. intros. apply (op256 Z.land andb Z.land_spec eq_refl); assumption. Qed.
Lemma or256 u v : wf256 u -> wf256 v ->
  val256 (mk256 (Z.lor (q3 u) (q3 v)) (Z.lor (q2 u) (q2 v)) (Z.lor (q1 u) (q1 v)) (Z.lor (q0 u) (q0 v))) = Z.lor (val256 u) (val256 v).
Proof. intros. apply (op256 Z.lor orb Z.lor_spec eq_refl); assumption. Qed.
Lemma xor256 u v : wf256 u -> wf256 v ->
  val256 (mk256 (Z.lxor (q3 u) (q3 v)) (Z.lxor (q2 u) (q2 v)) (Z.lxor (q1 u) (q1 v)) (Z.lxor (q0 u) (q0 v))) = Z.lxor (val256 u) (val256 v).
Proof. intros. apply (op256 Z.lxor xorb Z.lxor_spec eq_refl); assumption. Qed.
Lemma not128 u : wf128 u -> val128 (mk128 (not64 (h1 u)) (not64 (h0 u))) = W * W - 1 - val128 u.
Proof. destruct u as [a1 a0]. unfold wf128, val128, not64; cbn [h1 h0]. rewrite W_val. lia. Qed.
Lemma not256 u : wf256 u -> val256 (mk256 (not64 (q3 u)) (not64 (q2 u)) (not64 (q1 u)) (not64 (q0 u))) = W4 - 1 - val256 u.
Proof. destruct u as [a3 a2 a1 a0]. unfold wf256, val256, not64, W4, W2; cbn [q0 q1 q2 q3]. rewrite W_val. lia. Qed.

(** casts: the limbs the casts keep (as in run128/run256) carry the value whenever it fits *)
Lemma cast_256_to_128 u : wf256 u -> val256 u < W * W -> val128 (mk128 (q1 u) (q0 u)) = val256 u.
Proof. destruct u as [a3 a2 a1 a0]. unfold wf256, val256, val128; cbn [q0 q1 q2 q3 h1 h0]. rewrite W_val. lia. Qed.
Lemma cast_256_to_64 u : wf256 u -> val256 u < W -> q0 u = val256 u.
Proof. destruct u as [a3 a2 a1 a0]. unfold wf256, val256; cbn [q0 q1 q2 q3]. rewrite W_val. lia. Qed.
Lemma cast_128_to_64 u : wf128 u -> val128 u < W -> h0 u = val128 u.
Proof. destruct u as [a1 a0]. unfold wf128, val128; cbn [h1 h0]. rewrite W_val. lia. Qed.
Lemma cast_128_to_256 u : wf128 u -> val256 (mk256 0 0 (h1 u) (h0 u)) = val128 u.
Proof. destruct u as [a1 a0]. unfold wf128, val256, val128; cbn [q0 q1 q2 q3 h1 h0]. rewrite W_val. lia. Qed.
Lemma cast_64_to_256 x : val256 (mk256 0 0 0 x) = x.
Proof. unfold val256; cbn [q0 q1 q2 q3]. lia. Qed.
Lemma cast_64_to_128 x : val128 (mk128 0 x) = x.
Proof. unfold val128; cbn [h1 h0]. lia. Qed.

(* ------------------------------------------------------------------ *)
(* Uint128.QuoRem with a 128-bit divisor: the trial quotient is within one of the quotient *)

Lemma trial_core u v D E V' : 0 <= u < 2^128 -> 0 < D -> D <= v < D + E -> D = V' * E -> 2^63 <= V' -> 2 <= E ->
  (E = 2 \/ 4 <= E) -> u / v <= u / D <= u / v + 1.
Proof.
  intros Hu HD Hv HDE HV HE Hcase.
  assert (Hv0 : 0 < v) by lia.
  split.
  - apply Z.div_le_compat_l; lia.
  - set (Q := u / v). assert (HQ : 0 <= Q) by (apply Z.div_pos; lia).
    assert (U1 : u < (Q + 1) * v).
    { pose proof (Z.mul_succ_div_gt u v Hv0). unfold Q. lia. }
    assert (Qv : Q * v <= u) by (unfold Q; pose proof (Z.mul_div_le u v Hv0); lia).
    assert (Goal : u < (Q + 2) * D).
    { destruct Hcase as [E2 | E4].
      - subst E. assert (2^64 <= D) by (change (2^64) with (2^63 * 2); nia).
        assert (Q < 2^64).
        { apply Z.div_lt_upper_bound; [lia|]. change (2^128) with (2^64 * 2^64) in Hu. nia. }
        nia.
      - assert (Q < 2^63).
        { apply Z.div_lt_upper_bound; [lia|].
          assert (2^63 * E <= v) by nia.
          change (2^128) with (2^63 * 2^63 * 4) in Hu. nia. }
        nia. }
    apply Z.lt_succ_r. apply Z.div_lt_upper_bound; [lia|]. lia.
Qed.

Lemma lzcnt_spec x : 1 <= x < W -> 0 <= lzcnt64 x <= 63 /\ 2^63 <= x * 2^(lzcnt64 x) < 2^64.
Proof.
  intros Hx. unfold lzcnt64, bitlen. replace (x =? 0) with false by lia.
  pose proof (Z.log2_spec x ltac:(lia)) as [L1 L2].
  assert (L0 : 0 <= Z.log2 x) by apply Z.log2_nonneg.
  assert (L3 : Z.log2 x < 64) by (apply Z.log2_lt_pow2; [lia|rewrite <- W_pow; lia]).
  replace (64 - (Z.log2 x + 1)) with (63 - Z.log2 x) by lia.
  split; [lia|].
  assert (P1 : 2^(Z.log2 x) * 2^(63 - Z.log2 x) = 2^63) by (rewrite <- Z.pow_add_r by lia; f_equal; lia).
  assert (P2 : 2^(Z.succ (Z.log2 x)) * 2^(63 - Z.log2 x) = 2^64) by (rewrite <- Z.pow_add_r by lia; f_equal; lia).
  assert (0 < 2^(63 - Z.log2 x)) by (apply Z.pow_pos_nonneg; lia).
  nia.
Qed.

Lemma div2_div a m : 0 < m -> (a / 2) / m = a / (2 * m).
Proof. intros. rewrite Z.div_div by lia. reflexivity. Qed.

Lemma u128_quorem_exact u v : wf128 u -> wf128 v -> val128 v <> 0 ->
  exists q r, u128_quorem u v = Ok (q, r) /\ wf128 q /\ wf128 r /\
              val128 q = val128 u / val128 v /\ val128 r = val128 u mod val128 v.
Proof.
  intros Hu Hv Hnz. unfold u128_quorem.
  destruct (h1 v =? 0) eqn:E1.
  - apply Z.eqb_eq in E1. destruct v as [v1 v0]; cbn [h1 h0] in *. subst v1.
    unfold wf128, val128 in Hv, Hnz; cbn [h1 h0] in Hv, Hnz.
    destruct (u128_quorem64_exact u v0 Hu ltac:(unfold inW; lia) ltac:(lia)) as (q' & r' & E & Hq & Vq & Vr).
    rewrite E. exists q', (mk128 0 r'). split; [reflexivity|]. split; [assumption|].
    pose proof (Z.mod_pos_bound (val128 u) v0 ltac:(lia)) as B. pose proof W_pos as WP.
    assert (V0 : val128 {| h1 := 0; h0 := v0 |} = v0) by (unfold val128; cbn [h1 h0]; lia).
    assert (R0 : val128 {| h1 := 0; h0 := r' |} = r') by (unfold val128; cbn [h1 h0]; lia).
    rewrite V0, R0. split; [unfold wf128; cbn [h1 h0]; lia|]. split; assumption.
  - apply Z.eqb_neq in E1.
    pose proof (val128_range u Hu) as Ru. pose proof (val128_range v Hv) as Rv.
    set (n := lzcnt64 (h1 v)).
    assert (Hv1 : 1 <= h1 v < W) by (destruct Hv; lia).
    destruct (lzcnt_spec (h1 v) Hv1) as [Hn Hvn]. fold n in Hn, Hvn.
    assert (Hp : 0 < 2^n) by (apply Z.pow_pos_nonneg; lia).
    (* the normalised divisor does not wrap *)
    destruct (u128_shl_spec v n Hv ltac:(lia)) as [Hw1 Vv1].
    pose proof (pq_W n ltac:(lia)) as HnE0.
    assert (HEp : 0 < 2^(64 - n)) by (apply Z.pow_pos_nonneg; lia).
    assert (Hv1E : h1 v + 1 <= 2^(64 - n)).
    { rewrite <- W_pow in Hvn. rewrite <- HnE0 in Hvn. nia. }
    assert (Vfit : val128 v * 2^n < W * W).
    { unfold val128. destruct Hv as [_ Hv0]. rewrite <- HnE0 at 2. rewrite <- HnE0 in Hv0 at 1.
      set (p := 2^n) in *. set (e := 2^(64-n)) in *. nia. }
    rewrite Z.mod_small in Vv1 by (split; [nia|exact Vfit]).
    set (v1 := u128_shl v n) in *.
    assert (HV' : h1 v1 = (val128 v * 2^n) / W).
    { rewrite <- Vv1. unfold val128. destruct Hw1 as [_ Hl]. apply Z.div_unique with (h0 v1); lia. }
    assert (BV' : 2^63 <= h1 v1 < 2^64).
    { destruct Hw1 as [Hh _]. rewrite <- W_pow. split; [|lia]. rewrite HV'.
      apply Z.div_le_lower_bound; [apply W_pos|]. unfold val128. destruct Hv as [_ Hv0]. rewrite W_pow in *. nia. }
    (* the halved dividend *)
    destruct (u128_shr_spec u 1 Hu ltac:(lia)) as [Hu1 Vu1]. change (2^1) with 2 in Vu1.
    set (u1 := u128_shr u 1) in *.
    assert (Hh1 : 0 <= h1 u1 < h1 v1).
    { destruct Hu1 as [[H0 _] [L0 L1]]. split; [lia|].
      assert (val128 u1 < 2^127) by (rewrite Vu1; apply Z.div_lt_upper_bound; [lia|]; change (2 * 2^127) with (W * W); lia).
      unfold val128 in H. rewrite W_pow in *. change (2^127) with (2^63 * 2^64) in H. nia. }
    rewrite (div64_some _ _ _ Hh1). fold (val128 u1). rewrite Vu1.
    set (V' := h1 v1) in *. set (U := val128 u) in *. set (V := val128 v) in *.
    assert (HVpos : 0 < V') by lia.
    unfold shr64. replace (63 - n <? 64) with true by lia.
    set (E := 2^(64 - n)).
    assert (HE : 2^(63 - n) * 2 = E) by (unfold E; replace (64 - n) with (Z.succ (63 - n)) by lia; rewrite Z.pow_succ_r by lia; lia).
    assert (HEpos : 0 < 2^(63 - n)) by (apply Z.pow_pos_nonneg; lia).
    assert (HnE : 2^n * E = W) by (unfold E; apply pq_W; lia).
    assert (Ht : U / 2 / V' / 2^(63 - n) = U / (V' * E)).
    { rewrite Z.div_div by lia. rewrite Z.div_div by nia. f_equal. lia. }
    rewrite Ht. set (D := V' * E) in *.
    assert (HD : D <= V < D + E).
    { pose proof (Z.mul_div_le (V * 2^n) W W_pos) as A1.
      pose proof (Z.mul_succ_div_gt (V * 2^n) W W_pos) as A2. rewrite <- HV' in A1, A2. fold V' in A1, A2.
      unfold D. split.
      - apply (Z.mul_le_mono_pos_l _ _ (2^n) Hp).
        replace (2^n * (V' * E)) with (2^n * E * V') by ring. rewrite HnE. replace (2^n * V) with (V * 2^n) by ring. exact A1.
      - apply (Z.mul_lt_mono_pos_l (2^n) _ _ Hp).
        replace (2^n * (V' * E + E)) with (2^n * E * Z.succ V') by ring. rewrite HnE. replace (2^n * V) with (V * 2^n) by ring. exact A2. }
    assert (HEcase : E = 2 \/ 4 <= E).
    { destruct (Z.eq_dec n 63) as [->|]; [left; reflexivity|right].
      unfold E. change 4 with (2^2). apply Z.pow_le_mono_r; lia. }
    assert (HE2 : 2 <= E) by lia.
    assert (HU : 0 <= U < 2^128) by (change (2^128) with (W * W); exact Ru).
    assert (HD0 : 0 < D) by (unfold D; apply Z.mul_pos_pos; lia).
    destruct (trial_core U V D E V' HU HD0 HD eq_refl (proj1 BV') HE2 HEcase) as [T1 T2].
    set (t := U / D) in *. set (Q := U / V) in *.
    assert (HV64 : W <= V).
    { unfold V, val128. destruct Hv as [_ Hv0].
      assert (1 * W <= h1 v * W) by (apply Z.mul_le_mono_nonneg_r; [pose proof W_pos|]; lia). lia. }
    assert (HQ : 0 <= Q < W).
    { split; [apply Z.div_pos; lia|apply Z.div_lt_upper_bound; [lia|]].
      apply Z.lt_le_trans with (W * W); [lia|]. apply Z.mul_le_mono_nonneg_r; [pose proof W_pos|]; lia. }
    assert (U1 : U < (Q + 1) * V) by (pose proof (Z.mul_succ_div_gt U V ltac:(lia)); unfold Q; lia).
    assert (Qv : Q * V <= U) by (unfold Q; pose proof (Z.mul_div_le U V ltac:(lia)); lia).
    set (tq := if t =? 0 then t else t - 1).
    assert (Htq : Q - 1 <= tq <= Q /\ 0 <= tq).
    { unfold tq. destruct (t =? 0) eqn:Et; [apply Z.eqb_eq in Et|apply Z.eqb_neq in Et]; lia. }
    assert (Wtq : inW tq) by (unfold inW; lia).
    (* all the remaining arithmetic is linear in the atoms U, V, P = V*tq *)
    assert (HP1 : V * tq <= U).
    { apply Z.le_trans with (V * Q); [apply Z.mul_le_mono_nonneg_l; lia|]. rewrite Z.mul_comm. exact Qv. }
    assert (HP2 : U - V * tq < 2 * V).
    { assert (V * (Q - 1) <= V * tq) by (apply Z.mul_le_mono_nonneg_l; lia).
      replace (V * (Q - 1)) with (Q * V - V) in H by ring.
      replace ((Q + 1) * V) with (Q * V + V) in U1 by ring. lia. }
    assert (HPW : V * tq < W * W) by lia.
    destruct (u128_mul64_exact v tq Hv Wtq) as [M1 _]. fold V in M1.
    destruct (M1 HPW) as (m & Em & Hm & Vm). rewrite Em.
    destruct (u128_sub_exact u m Hu Hm) as [S1 _]. fold U in S1.
    destruct (S1 ltac:(rewrite Vm; exact HP1)) as (r & Er & Hr & Vr). rewrite Er.
    rewrite (u128_cmp_spec r v Hr Hv). fold V. rewrite Vr, Vm.
    assert (Wq : wf128 (mk128 0 tq)) by (unfold wf128; cbn [h1 h0]; pose proof W_pos; unfold inW in Wtq; lia).
    assert (Vq0 : val128 (mk128 0 tq) = tq) by (unfold val128; cbn [h1 h0]; lia).
    set (P := V * tq) in *.
    assert (more : (0 <=? match U - P ?= V with Eq => 0 | Lt => -1 | Gt => 1 end) = (V <=? U - P)).
    { destruct (Z.compare_spec (U - P) V); simpl; symmetry; [apply Z.leb_le|apply Z.leb_gt|apply Z.leb_le]; lia. }
    rewrite more. destruct (V <=? U - P) eqn:C; [apply Z.leb_le in C|apply Z.leb_gt in C].
    + destruct (u128_add64_exact (mk128 0 tq) 1 Wq ltac:(unfold inW; pose proof W_pos; lia)) as [A1 _].
      destruct (A1 ltac:(rewrite Vq0; rewrite W_val; unfold inW in Wtq; rewrite W_val in Wtq; lia)) as (q & Eq & Hq & Vq). rewrite Eq.
      destruct (u128_sub_exact r v Hr Hv) as [S2 _]. fold V in S2.
      destruct (S2 ltac:(rewrite Vr, Vm; fold P; lia)) as (r2 & Er2 & Hr2 & Vr2). rewrite Er2.
      exists q, r2. split; [reflexivity|]. split; [assumption|]. split; [assumption|].
      rewrite Vq, Vq0, Vr2, Vr, Vm. fold P.
      assert (EQ : U = V * (tq + 1) + (U - P - V)) by (unfold P; ring).
      split; [apply Z.div_unique with (U - P - V); [left; lia|exact EQ]|apply Z.mod_unique with (tq + 1); [left; lia|exact EQ]].
    + exists (mk128 0 tq), r. split; [reflexivity|]. split; [assumption|]. split; [assumption|].
      rewrite Vq0, Vr, Vm. fold P.
      assert (EQ : U = V * tq + (U - P)) by (unfold P; ring).
      split; [apply Z.div_unique with (U - P); [left; lia|exact EQ]|apply Z.mod_unique with tq; [left; lia|exact EQ]].
Qed.

(** constructors: MaxValue is the largest value of the width, Zero / ZeroUint is 0, OneUint is 1
    (Set64 / From64 v = mk128 0 v / mk256 0 0 0 v: cast_64_to_128 / cast_64_to_256 above) *)
Lemma max64_val : W - 1 = 2^64 - 1. Proof. reflexivity. Qed.
Lemma max128_val : wf128 (mk128 (W - 1) (W - 1)) /\ val128 (mk128 (W - 1) (W - 1)) = W * W - 1.
Proof. split; [unfold wf128; cbn [h1 h0]; vm_compute; intuition congruence | reflexivity]. Qed.
Lemma max256_val : wf256 (mk256 (W - 1) (W - 1) (W - 1) (W - 1)) /\ val256 (mk256 (W - 1) (W - 1) (W - 1) (W - 1)) = W4 - 1.
Proof. split; [unfold wf256; cbn [q3 q2 q1 q0]; vm_compute; intuition congruence | reflexivity]. Qed.
Lemma max128_is_max u : wf128 u -> val128 u <= val128 (mk128 (W - 1) (W - 1)).
Proof. intros [H1 H0]. unfold val128; cbn [h1 h0]. pose proof W_val. nia. Qed.
Lemma max256_is_max u : wf256 u -> val256 u <= val256 (mk256 (W - 1) (W - 1) (W - 1) (W - 1)).
Proof. intros Hu. pose proof (val256_range u Hu). destruct max256_val as [_ E]. rewrite E. lia. Qed.
Lemma zero128_val : val128 (mk128 0 0) = 0. Proof. reflexivity. Qed.
Lemma zero256_val : val256 (mk256 0 0 0 0) = 0. Proof. reflexivity. Qed.
Lemma one128_val : val128 (mk128 0 1) = 1. Proof. reflexivity. Qed.
Lemma one256_val : val256 (mk256 0 0 0 1) = 1. Proof. reflexivity. Qed.
