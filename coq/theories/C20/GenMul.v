(** C20 — Uint256.Mul: the translated schoolbook loops (T_Uint256_Mul, two counting loops over limb arrays with bounds checks)
    equal the model's u256_mul (mul_rows / mul_row over limb lists).  Proved by symbolic execution of both sides on limb
    variables: the 16 inner iterations are run in lock step (same bits.Mul64 / bits.Add64 calls in the same order); the two
    wrapping additions hi += c of each iteration are shown not to wrap (mul_step_facts).  In a file of its own so that it
    compiles in parallel with GenProofs.v.
    Fallback when the lock-step script no longer applies (other loop structure, helper functions, renamed or reordered
    statements): the translated code is executed symbolically keeping, for every 64x64 step, the value equation
    hi*W + lo = x*y + r + carry (mul_step_val); the limb products are then eliminated and the SPECIFICATION
    (exact product iff it fits, Panic otherwise) is closed by lia; equality with the model follows because the model
    meets the same complete specification (u256_mul_exact) and val256 is injective on well-formed limbs. *)
From Coq Require Import ZArith List Bool Lia.
From OBI.C20 Require Import Model Proofs GenTac.
From OBI.C20.Gen Require Import Translated.
Import ListNotations.
Open Scope Z_scope.
Ltac Zify.zify_post_hook ::= Z.div_mod_to_equations.

Lemma mul_step_facts ai bj rij carry hi lo lo1 c1 lo2 c2 :
  inW ai -> inW bj -> inW rij -> inW carry ->
  mul64 ai bj = (hi, lo) -> add64 lo rij 0 = (lo1, c1) -> add64 lo1 carry 0 = (lo2, c2) ->
  (hi + c1) mod W = hi + c1 /\ (hi + c1 + c2) mod W = hi + c1 + c2 /\ inW lo2 /\ inW (hi + c1 + c2).
Proof.
  intros Ha Hb Hr Hc Em E1 E2. pose proof W_val as WV.
  destruct (mul64_eq _ _ _ _ Ha Hb Em) as (Hh & Hl & Ep).
  destruct (add64_eq lo rij 0 lo1 c1 Hl Hr ltac:(lia) E1) as (Hl1 & Hc1 & Q1).
  destruct (add64_eq lo1 carry 0 lo2 c2 Hl1 Hc ltac:(lia) E2) as (Hl2 & Hc2 & Q2).
  assert (P : ai * bj <= (W - 1) * (W - 1)) by (unfold inW in *; nia).
  unfold inW in *. rewrite WV in *.
  set (P0 := ai * bj) in *. clearbody P0.
  assert (B : 0 <= hi + c1 + c2 < 18446744073709551616) by lia.
  repeat split; try (rewrite Z.mod_small); try lia.
Qed.

(* symbolic execution of the two counting loops of Uint256.Mul on limb variables *)
Ltac ev_closed :=
  first
  [ match goal with |- context [wrapi ?x] => let v := eval vm_compute in (wrapi x) in change (wrapi x) with v end
  | match goal with |- context [aget ?l ?i] => let v := eval cbv in (aget l i) in change (aget l i) with v end
  | match goal with |- context [aset ?l ?i ?x] => let v := eval cbv in (aset l i x) in change (aset l i x) with v end
  | match goal with |- context [Z.ltb ?a ?b] =>
      let v := eval vm_compute in (Z.ltb a b) in
      match v with true => change (Z.ltb a b) with true | false => change (Z.ltb a b) with false end end ].
Ltac ev := repeat first [ progress cbn [T_Uint256_Mul_loop2 T_Uint256_Mul_loop1 bind mul_rows mul_row] | ev_closed ].
Ltac inw := first [assumption | (unfold inW; split; [discriminate | reflexivity])].
Ltac mul_iter :=
  let hi := fresh "hi" in let lo := fresh "lo" in let lo1 := fresh "lo" in let c1 := fresh "c" in
  let lo2 := fresh "lo" in let c2 := fresh "c" in
  let Em := fresh "Em" in let E1 := fresh "E1" in let E2 := fresh "E2" in let F := fresh "F" in
  match goal with |- context [mul64 ?x ?y] => destruct (mul64 x y) as [hi lo] eqn:Em; cbv beta iota;
  match goal with |- context [add64 lo ?r 0] => destruct (add64 lo r 0) as [lo1 c1] eqn:E1; cbv beta iota zeta;
  match goal with |- context [add64 lo1 ?k 0] => destruct (add64 lo1 k 0) as [lo2 c2] eqn:E2; cbv beta iota zeta;
    assert (F : (hi + c1) mod W = hi + c1 /\ (hi + c1 + c2) mod W = hi + c1 + c2 /\ inW lo2 /\ inW (hi + c1 + c2))
      by (apply (mul_step_facts x y r k hi lo lo1 c1 lo2 c2); solve [inw]);
    let F1 := fresh "F" in let F2 := fresh "F" in let F3 := fresh "F" in let F4 := fresh "F" in
    destruct F as (F1 & F2 & F3 & F4); rewrite F1; rewrite F2;
    let K := fresh "K" in let EK := fresh "EK" in
    remember (hi + c1 + c2) as K eqn:EK; clear EK Em E1 E2 F1 F2
  end end end.

Lemma mul_step_val ai bj rij carry hi lo lo1 c1 lo2 c2 :
  inW ai -> inW bj -> inW rij -> inW carry ->
  mul64 ai bj = (hi, lo) -> add64 lo rij 0 = (lo1, c1) -> add64 lo1 carry 0 = (lo2, c2) ->
  (hi + c1) mod W = hi + c1 /\ (hi + c1 + c2) mod W = hi + c1 + c2 /\ inW lo2 /\ inW (hi + c1 + c2) /\
  (hi + c1 + c2) * W + lo2 = ai * bj + rij + carry.
Proof.
  intros Ha Hb Hr Hc Em E1 E2. pose proof W_val as WV.
  destruct (mul64_eq _ _ _ _ Ha Hb Em) as (Hh & Hl & Ep).
  destruct (add64_eq lo rij 0 lo1 c1 Hl Hr ltac:(lia) E1) as (Hl1 & Hc1 & Q1).
  destruct (add64_eq lo1 carry 0 lo2 c2 Hl1 Hc ltac:(lia) E2) as (Hl2 & Hc2 & Q2).
  assert (P : ai * bj <= (W - 1) * (W - 1)) by (unfold inW in *; nia).
  unfold inW in *. rewrite WV in *.
  set (P0 := ai * bj) in *. clearbody P0.
  assert (B : 0 <= hi + c1 + c2 < 18446744073709551616) by lia.
  repeat split; try (rewrite Z.mod_small); try lia.
Qed.

Ltac mulv_iter :=
  match goal with |- context [mul64 ?x ?y] =>
    let hi := fresh "hi" in let lo := fresh "lo" in let Em := fresh "Em" in
    destruct (mul64 x y) as [hi lo] eqn:Em; cbv beta iota zeta;
    match goal with |- context [add64 lo ?r 0] =>
      let lo1 := fresh "lo" in let c1 := fresh "c" in let E1 := fresh "E" in
      destruct (add64 lo r 0) as [lo1 c1] eqn:E1; cbv beta iota zeta;
      match goal with |- context [add64 lo1 ?k 0] =>
        let lo2 := fresh "lo" in let c2 := fresh "c" in let E2 := fresh "E" in
        destruct (add64 lo1 k 0) as [lo2 c2] eqn:E2; cbv beta iota zeta;
        let F := fresh "F" in
        pose proof (mul_step_val x y r k hi lo lo1 c1 lo2 c2 ltac:(inw) ltac:(inw) ltac:(inw) ltac:(inw) Em E1 E2) as F;
        let F1 := fresh "F" in let F2 := fresh "F" in let F3 := fresh "F" in let F4 := fresh "F" in let F5 := fresh "V" in
        destruct F as (F1 & F2 & F3 & F4 & F5); rewrite ?F1, ?F2;
        let K := fresh "K" in let EK := fresh "EK" in
        remember (hi + c1 + c2) as K eqn:EK; clear EK Em E1 E2 F1 F2
      end end end.
Ltac mulv_exec := repeat first [ progress T_loops_step | progress cbn [bind] | g_closed | mulv_iter ].

Ltac solve_atoms := repeat match goal with
  | V : ?K * ?Wc + ?lo = ?x * ?y + ?r + ?c |- _ =>
      let p := fresh "p" in let E := fresh "E" in
      set (p := x * y) in *;
      assert (E : p = K * Wc + lo - r - c) by lia; clearbody p; clear V; subst p
  end.

Definition mulspec (u v : u256) (t : res u256) : Prop :=
  (val256 u * val256 v < W4 -> exists r, t = Ok r /\ wf256 r /\ val256 r = val256 u * val256 v) /\
  (W4 <= val256 u * val256 v -> t = Panic).


Lemma val256_inj a b : wf256 a -> wf256 b -> val256 a = val256 b -> a = b.
Proof.
  destruct a as [a3 a2 a1 a0], b as [b3 b2 b1 b0]. unfold wf256, val256; cbn [q3 q2 q1 q0]. g_W. intros Ha Hb E.
  assert (a0 = b0) by lia. subst. assert (a1 = b1) by lia. subst. assert (a2 = b2) by lia. subst.
  assert (a3 = b3) by lia. subst. reflexivity.
Qed.
Lemma mulspec_unique u v t1 t2 : mulspec u v t1 -> mulspec u v t2 -> t1 = t2.
Proof.
  intros [A1 B1] [A2 B2]. destruct (Z.lt_ge_cases (val256 u * val256 v) W4) as [L|G].
  - destruct (A1 L) as (r1 & -> & W1 & V1). destruct (A2 L) as (r2 & -> & W2' & V2).
    f_equal. apply val256_inj; [assumption|assumption|congruence].
  - rewrite (B1 G), (B2 G). reflexivity.
Qed.
Lemma model_mulspec u v : wf256 u -> wf256 v -> mulspec u v (u256_mul u v).
Proof. intros. apply u256_mul_exact; assumption. Qed.

Ltac gen_mul :=
  let u := fresh "u" in let v := fresh "v" in let Hu := fresh "Hu" in let Hv := fresh "Hv" in
  intros u v Hu Hv; apply (mulspec_unique u v); [ | apply model_mulspec; assumption ];
  destruct u as [a3 a2 a1 a0], v as [b3 b2 b1 b0];
  destruct Hu as (A3 & A2 & A1 & A0), Hv as (B3 & B2 & B1 & B0); cbn [q3 q2 q1 q0] in *;
  fold (inW a3) in A3; fold (inW a2) in A2; fold (inW a1) in A1; fold (inW a0) in A0;
  fold (inW b3) in B3; fold (inW b2) in B2; fold (inW b1) in B1; fold (inW b0) in B0;
  unfold mulspec;
  let PE := fresh "PE" in
  assert (PE : val256 (mk256 a3 a2 a1 a0) * val256 (mk256 b3 b2 b1 b0) =
     a0*b0 + (a0*b1 + a1*b0) * W + (a0*b2 + a1*b1 + a2*b0) * (W*W) + (a0*b3 + a1*b2 + a2*b1 + a3*b0) * (W*W*W)
     + (a1*b3 + a2*b2 + a3*b1) * (W*W*W*W) + (a2*b3 + a3*b2) * (W*W*W*W*W) + (a3*b3) * (W*W*W*W*W*W))
    by (unfold val256; cbn [q3 q2 q1 q0]; ring);
  rewrite PE; clear PE;
  T_unfold_all; cbv beta iota zeta delta [q3 q2 q1 q0];
  mulv_exec;
  unfold W4, W2, inW in *; g_W;
  g_norm; repeat (g_cmp1; g_norm);
  (split; let HP := fresh "HP" in intros HP);
  try reflexivity; solve_atoms;
  first [ (exfalso; lia)
        | (eexists; split; [reflexivity|]; split;
           [ unfold wf256; cbn [q3 q2 q1 q0]; g_W; lia | unfold val256; cbn [q3 q2 q1 q0]; g_W; lia ]) ].

Ltac old_mul :=
  intros [a3 a2 a1 a0] [b3 b2 b1 b0] (A3 & A2 & A1 & A0) (B3 & B2 & B1 & B0); cbn [q3 q2 q1 q0] in *;
  fold (inW a3) in A3; fold (inW a2) in A2; fold (inW a1) in A1; fold (inW a0) in A0;
  fold (inW b3) in B3; fold (inW b2) in B2; fold (inW b1) in B1; fold (inW b0) in B0;
  unfold T_Uint256_Mul, u256_mul; cbn [q3 q2 q1 q0]; cbv zeta;
  do 16 (ev; mul_iter); ev;
  repeat (match goal with |- context [Z.eqb ?a 0] => destruct (Z.eqb a 0) end; cbn [negb andb bind]); reflexivity.

Lemma L_Uint256_Mul_eq : forall u v, wf256 u -> wf256 v -> T_Uint256_Mul u v = u256_mul u v.
Proof. first [ solve [ old_mul ] | solve [ timeout 300 gen_mul ] ]. Qed.
