(** C20 — Uint256.Mul: the translated schoolbook loops (T_Uint256_Mul, two counting loops over limb arrays with bounds checks)
    equal the model's u256_mul (mul_rows / mul_row over limb lists).  Proved by symbolic execution of both sides on limb
    variables: the 16 inner iterations are run in lock step (same bits.Mul64 / bits.Add64 calls in the same order); the two
    wrapping additions hi += c of each iteration are shown not to wrap (mul_step_facts).  In a file of its own so that it
    compiles in parallel with GenProofs.v. *)
From Coq Require Import ZArith List Bool Lia.
From OBI.C20 Require Import Model Proofs.
From OBI.C20.Gen Require Import Translated.
Import ListNotations.
Open Scope Z_scope.
Ltac Zify.zify_post_hook ::= Z.div_mod_to_equations.

Lemma mul_step_facts ai bj rij carry hi lo lo1 c1 lo2 c2 :
  inW ai -> inW bj -> inW rij -> inW carry ->
  mul64 ai bj = (hi, lo) -> add64 lo rij 0 = (lo1, c1) -> add64 lo1 carry 0 = (lo2, c2) ->
  (hi + c1) mod W = hi + c1 /\ (hi + c1 + c2) mod W = hi + c1 + c2 /\ inW lo2 /\ inW (hi + c1 + c2).
Proof.
  intros Ha Hb Hr Hc Em E1 E2. pose proof W_val as WV.
  destruct (mul64_eq _ _ _ _ Ha Hb Em) as (Hh & Hl & Ep).
  destruct (add64_eq lo rij 0 lo1 c1 Hl Hr ltac:(lia) E1) as (Hl1 & Hc1 & Q1).
  destruct (add64_eq lo1 carry 0 lo2 c2 Hl1 Hc ltac:(lia) E2) as (Hl2 & Hc2 & Q2).
  assert (P : ai * bj <= (W - 1) * (W - 1)) by (unfold inW in *; nia).
  unfold inW in *. rewrite WV in *.
  set (P0 := ai * bj) in *. clearbody P0.
  assert (B : 0 <= hi + c1 + c2 < 18446744073709551616) by lia.
  repeat split; try (rewrite Z.mod_small); try lia.
Qed.

(* symbolic execution of the two counting loops of Uint256.Mul on limb variables *)
Ltac ev_closed :=
  first
  [ match goal with |- context [wrapi ?x] => let v := eval vm_compute in (wrapi x) in change (wrapi x) with v end
  | match goal with |- context [aget ?l ?i] => let v := eval cbv in (aget l i) in change (aget l i) with v end
  | match goal with |- context [aset ?l ?i ?x] => let v := eval cbv in (aset l i x) in change (aset l i x) with v end
  | match goal with |- context [Z.ltb ?a ?b] =>
      let v := eval vm_compute in (Z.ltb a b) in
      match v with true => change (Z.ltb a b) with true | false => change (Z.ltb a b) with false end end ].
Ltac ev := repeat first [ progress cbn [T_Uint256_Mul_loop2 T_Uint256_Mul_loop1 bind mul_rows mul_row] | ev_closed ].
Ltac inw := first [assumption | (unfold inW; split; [discriminate | reflexivity])].
Ltac mul_iter :=
  let hi := fresh "hi" in let lo := fresh "lo" in let lo1 := fresh "lo" in let c1 := fresh "c" in
  let lo2 := fresh "lo" in let c2 := fresh "c" in
  let Em := fresh "Em" in let E1 := fresh "E1" in let E2 := fresh "E2" in let F := fresh "F" in
  match goal with |- context [mul64 ?x ?y] => destruct (mul64 x y) as [hi lo] eqn:Em; cbv beta iota;
  match goal with |- context [add64 lo ?r 0] => destruct (add64 lo r 0) as [lo1 c1] eqn:E1; cbv beta iota zeta;
  match goal with |- context [add64 lo1 ?k 0] => destruct (add64 lo1 k 0) as [lo2 c2] eqn:E2; cbv beta iota zeta;
    assert (F : (hi + c1) mod W = hi + c1 /\ (hi + c1 + c2) mod W = hi + c1 + c2 /\ inW lo2 /\ inW (hi + c1 + c2))
      by (apply (mul_step_facts x y r k hi lo lo1 c1 lo2 c2); solve [inw]);
    let F1 := fresh "F" in let F2 := fresh "F" in let F3 := fresh "F" in let F4 := fresh "F" in
    destruct F as (F1 & F2 & F3 & F4); rewrite F1; rewrite F2;
    let K := fresh "K" in let EK := fresh "EK" in
    remember (hi + c1 + c2) as K eqn:EK; clear EK Em E1 E2 F1 F2
  end end end.

Lemma L_Uint256_Mul_eq : forall u v, wf256 u -> wf256 v -> T_Uint256_Mul u v = u256_mul u v.
Proof.
  intros [a3 a2 a1 a0] [b3 b2 b1 b0] (A3 & A2 & A1 & A0) (B3 & B2 & B1 & B0). cbn [q3 q2 q1 q0] in *.
  fold (inW a3) in A3. fold (inW a2) in A2. fold (inW a1) in A1. fold (inW a0) in A0.
  fold (inW b3) in B3. fold (inW b2) in B2. fold (inW b1) in B1. fold (inW b0) in B0.
  unfold T_Uint256_Mul, u256_mul. cbn [q3 q2 q1 q0]. cbv zeta.
  do 16 (ev; mul_iter). ev.
  repeat (match goal with |- context [Z.eqb ?a 0] => destruct (Z.eqb a 0) end; cbn [negb andb bind]); reflexivity.
Qed.
