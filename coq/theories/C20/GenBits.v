(** C20 — shape-independent tactic for limb-level shift code: two expressions built from << >> | & ^ masks on 64-bit
    limbs are equal when they agree bit by bit ([g_bits]).  Used by GenShift.v as the fallback of every shift lemma. *)
From Coq Require Import ZArith List Bool Lia.
From OBI.C20 Require Import Model Proofs GenTac.
From OBI.C20.Gen Require Import Translated.
Import ListNotations.
Open Scope Z_scope.

Ltac Zify.zify_post_hook ::= Z.div_mod_to_equations.

Lemma W_is_pow : W = 2^64. Proof. reflexivity. Qed.
Lemma tb_shl64 x k i : 0 <= k -> 0 <= i ->
  Z.testbit (shl64 x k) i = ((k <? 64) && ((i <? 64) && Z.testbit x (i - k)))%bool.
Proof.
  intros Hk Hi. unfold shl64. destruct (Z.ltb_spec k 64); [|apply Z.bits_0].
  rewrite W_is_pow, Z.testbit_mod_pow2 by lia. rewrite Z.mul_pow2_bits by lia. reflexivity.
Qed.
Lemma tb_shr64 x k i : 0 <= k -> 0 <= i ->
  Z.testbit (shr64 x k) i = ((k <? 64) && Z.testbit x (i + k))%bool.
Proof.
  intros Hk Hi. unfold shr64. destruct (Z.ltb_spec k 64); [|apply Z.bits_0].
  rewrite Z.div_pow2_bits by lia. reflexivity.
Qed.
Lemma tb_high x j : 0 <= x < W -> 64 <= j -> Z.testbit x j = false.
Proof.
  intros Hx Hj. destruct (Z.eq_dec x 0) as [->|]; [apply Z.bits_0|].
  apply Z.bits_above_log2; [lia|]. apply Z.log2_lt_pow2; [lia|]. rewrite W_is_pow in Hx.
  apply Z.lt_le_trans with (2^64); [lia|]. apply Z.pow_le_mono_r; lia.
Qed.
Lemma tb_not64 x i : 0 <= x < W -> 0 <= i -> Z.testbit (not64 x) i = ((i <? 64) && negb (Z.testbit x i))%bool.
Proof.
  intros Hx Hi. unfold not64. pose proof W_val as WV.
  replace (W - 1 - x) with ((Z.lnot x) mod 2^64) by (unfold Z.lnot; change (2^64) with 18446744073709551616; lia).
  rewrite Z.testbit_mod_pow2 by lia. rewrite Z.lnot_spec by lia. reflexivity.
Qed.
Lemma shl64_1 n : 0 <= n < 64 -> shl64 1 n = 2^n.
Proof.
  intros H. unfold shl64. destruct (Z.ltb_spec n 64); [|lia]. rewrite Z.mul_1_l.
  apply Z.mod_small. split; [apply Z.pow_nonneg; lia|]. rewrite W_is_pow. apply Z.pow_lt_mono_r; lia.
Qed.
Lemma pow2_m1_mod n : 0 <= n <= 64 -> (2^n - 1) mod W = Z.ones n.
Proof.
  intros H. rewrite Z.ones_equiv. assert (0 < 2^n) by (apply Z.pow_pos_nonneg; lia).
  assert (2^n <= 2^64) by (apply Z.pow_le_mono_r; lia). rewrite W_is_pow. rewrite Z.mod_small by lia. lia.
Qed.
Lemma pow2_m1 n : 0 <= n -> 2^n - 1 = Z.ones n.
Proof. intros. rewrite Z.ones_equiv. lia. Qed.
Lemma ones_range k : 0 <= k <= 64 -> 0 <= Z.ones k < W.
Proof.
  intros H. rewrite Z.ones_equiv. assert (0 < 2^k) by (apply Z.pow_pos_nonneg; lia).
  assert (2^k <= 2^64) by (apply Z.pow_le_mono_r; lia). rewrite W_is_pow. lia.
Qed.
Lemma not64_0 : not64 0 = Z.ones 64. Proof. reflexivity. Qed.

(* ---- deciding comparisons from the context, case analysis on the others ---- *)
Ltac b_dec1 :=
  match goal with
  | |- context [Z.ltb ?a ?b] =>
      first [ (let H := fresh in assert (H : a < b) by lia; rewrite (proj2 (Z.ltb_lt a b) H); clear H)
            | (let H := fresh in assert (H : b <= a) by lia; rewrite (proj2 (Z.ltb_ge a b) H); clear H) ]
  | |- context [Z.leb ?a ?b] =>
      first [ (let H := fresh in assert (H : a <= b) by lia; rewrite (proj2 (Z.leb_le a b) H); clear H)
            | (let H := fresh in assert (H : b < a) by lia; rewrite (proj2 (Z.leb_gt a b) H); clear H) ]
  | |- context [Z.eqb ?a ?b] =>
      first [ (let H := fresh in assert (H : a = b) by lia; rewrite (proj2 (Z.eqb_eq a b) H); clear H)
            | (let H := fresh in assert (H : a <> b) by lia; rewrite (proj2 (Z.eqb_neq a b) H); clear H) ]
  end.
Ltac b_dec := repeat b_dec1.
(* atoms Z.testbit x j: out-of-range indices are false, provably equal indices are identified *)
Ltac b_atom1 :=
  match goal with
  | |- context [Z.testbit ?x ?j] =>
      first [ (let H := fresh in assert (H : j < 0) by lia; rewrite (Z.testbit_neg_r x j H); clear H)
            | (let H := fresh in assert (H : 64 <= j) by lia; rewrite (tb_high x j) by (first [assumption | lia]); clear H) ]
  | |- context [Z.testbit ?x ?j1] =>
      match goal with
      | |- context [Z.testbit x ?j2] =>
          lazymatch j1 with j2 => fail | _ => idtac end;
          lazymatch j2 with context [j1] => fail | _ => idtac end;   (* the bigger index is rewritten into the smaller *)
          let H := fresh in assert (H : j1 = j2) by lia; rewrite H; clear H
      end
  end.
Ltac b_bool := repeat match goal with |- context [Z.testbit ?x ?j] => destruct (Z.testbit x j) end; reflexivity.
Ltac b_split1 :=
  match goal with
  | |- context [Z.ltb ?a ?b] => destruct (Z.ltb_spec a b)
  | |- context [Z.leb ?a ?b] => destruct (Z.leb_spec a b)
  | |- context [Z.eqb ?a ?b] => destruct (Z.eqb_spec a b)
  end.
Ltac b_simpl := cbn [andb orb negb xorb].
Ltac b_subst := repeat match goal with H : ?x = _ |- _ => is_var x; subst x | H : _ = ?x |- _ => is_var x; subst x end.
Ltac b_solve := b_subst; b_dec; b_simpl; repeat (b_split1; b_dec; b_simpl); repeat b_atom1; b_simpl; first [ reflexivity | b_bool ].

(* masks and written-out wraps of shift counts are normalised first; hypotheses must give the ranges of n and limbs *)
Ltac b_norm :=
  repeat match goal with
  | |- context [shl64 1 ?n] => rewrite (shl64_1 n) by lia
  | |- context [(2 ^ ?n - 1) mod W] => rewrite (pow2_m1_mod n) by lia
  | |- context [2 ^ ?n - 1] => rewrite (pow2_m1 n) by lia
  | |- context [not64 0] => rewrite not64_0
  | |- context [?a mod W] => rewrite (Z.mod_small a W) by lia
  end.
Ltac b_tb :=
  repeat first
  [ rewrite Z.lor_spec | rewrite Z.land_spec | rewrite Z.lxor_spec | rewrite Z.bits_0
  | rewrite tb_shl64 by lia | rewrite tb_shr64 by lia
  | rewrite Z.testbit_ones by lia
  | rewrite tb_not64 by (first [ assumption | lia | (apply ones_range; lia) ]) ].
Ltac g_bits := g_W; change 18446744073709551616 with W in *; pose proof W_val;
  b_norm; first [ reflexivity | (apply Z.bits_inj'; let i := fresh "i" in let Hi := fresh "Hi" in intros i Hi; b_tb; b_solve) ].
