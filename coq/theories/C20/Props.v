(** C20 — property theorems (statements only; every proof is [exact] of a lemma of Proofs.v).
    Fixed-precision 64/128/256-bit integers agree with exact arithmetic. *)
From Coq Require Import ZArith List Bool.
From OBI.C20 Require Import Model Proofs.
Open Scope Z_scope.

(** shifts discard exactly the bits moved out of the word — every shift count n >= 0 *)
Theorem C20_shl64 : forall w n, inW w -> 0 <= n -> u64_shl w n = (w * 2^n) mod W.
Proof. exact u64_shl_spec. Qed.
Theorem C20_shr64 : forall w n, inW w -> 0 <= n -> u64_shr w n = w / 2^n.
Proof. exact u64_shr_spec. Qed.
Theorem C20_shl128 : forall u n, wf128 u -> 0 <= n ->
  wf128 (u128_shl u n) /\ val128 (u128_shl u n) = (val128 u * 2^n) mod (W * W).
Proof. exact u128_shl_spec. Qed.
Theorem C20_shr128 : forall u n, wf128 u -> 0 <= n ->
  wf128 (u128_shr u n) /\ val128 (u128_shr u n) = val128 u / 2^n.
Proof. exact u128_shr_spec. Qed.
Theorem C20_shl256 : forall u n, wf256 u -> 0 <= n ->
  wf256 (u256_shl u n) /\ val256 (u256_shl u n) = (val256 u * 2^n) mod W4.
Proof. exact u256_shl_spec. Qed.
Theorem C20_shr256 : forall u n, wf256 u -> 0 <= n ->
  wf256 (u256_shr u n) /\ val256 (u256_shr u n) = val256 u / 2^n.
Proof. exact u256_shr_spec. Qed.

(** addition / subtraction: exact result iff it fits, panic otherwise *)
Theorem C20_add64 : forall a b, inW a -> inW b ->
  (a + b < W -> u64_add a b = Ok (a + b)) /\ (W <= a + b -> u64_add a b = Panic).
Proof. exact u64_add_exact. Qed.
Theorem C20_sub64 : forall a b, inW a -> inW b ->
  (b <= a -> u64_sub a b = Ok (a - b)) /\ (a < b -> u64_sub a b = Panic).
Proof. exact u64_sub_exact. Qed.
Theorem C20_mul64 : forall a b, inW a -> inW b ->
  (a * b < W -> u64_mul a b = Ok (a * b)) /\ (W <= a * b -> u64_mul a b = Panic).
Proof. exact u64_mul_exact. Qed.
Theorem C20_add128 : forall u v, wf128 u -> wf128 v ->
  (val128 u + val128 v < W * W ->
     exists r, u128_add u v = Ok r /\ wf128 r /\ val128 r = val128 u + val128 v) /\
  (W * W <= val128 u + val128 v -> u128_add u v = Panic).
Proof. exact u128_add_exact. Qed.
Theorem C20_add128_64 : forall u v, wf128 u -> inW v ->
  (val128 u + v < W * W -> exists r, u128_add64 u v = Ok r /\ wf128 r /\ val128 r = val128 u + v) /\
  (W * W <= val128 u + v -> u128_add64 u v = Panic).
Proof. exact u128_add64_exact. Qed.
Theorem C20_sub128 : forall u v, wf128 u -> wf128 v ->
  (val128 v <= val128 u ->
     exists r, u128_sub u v = Ok r /\ wf128 r /\ val128 r = val128 u - val128 v) /\
  (val128 u < val128 v -> u128_sub u v = Panic).
Proof. exact u128_sub_exact. Qed.
Theorem C20_add256 : forall u v, wf256 u -> wf256 v ->
  (val256 u + val256 v < W4 ->
     exists r, u256_add u v = Ok r /\ wf256 r /\ val256 r = val256 u + val256 v) /\
  (W4 <= val256 u + val256 v -> u256_add u v = Panic).
Proof. exact u256_add_exact. Qed.
Theorem C20_sub256 : forall u v, wf256 u -> wf256 v ->
  (val256 v <= val256 u ->
     exists r, u256_sub u v = Ok r /\ wf256 r /\ val256 r = val256 u - val256 v) /\
  (val256 u < val256 v -> u256_sub u v = Panic).
Proof. exact u256_sub_exact. Qed.

(** multiplication *)
Theorem C20_mul128_64 : forall u v, wf128 u -> inW v ->
  (val128 u * v < W * W -> exists r, u128_mul64 u v = Ok r /\ wf128 r /\ val128 r = val128 u * v) /\
  (W * W <= val128 u * v -> u128_mul64 u v = Panic).
Proof. exact u128_mul64_exact. Qed.
(* PARTIAL: the full statement (no hypothesis on the high limbs) is false of the code, see
   C20_mul128_refuted — known finding C20/mul128-high-limbs; what is missing is the w1*w1 term. *)
Theorem C20_mul128_partial : forall u v, wf128 u -> wf128 v -> h1 u = 0 \/ h1 v = 0 ->
  (val128 u * val128 v < W * W ->
     exists r, u128_mul u v = Ok r /\ wf128 r /\ val128 r = val128 u * val128 v) /\
  (W * W <= val128 u * val128 v -> u128_mul u v = Panic).
Proof. exact u128_mul_exact_partial. Qed.
Theorem C20_mul128_wraps_only_by_high_product : forall u v, wf128 u -> wf128 v ->
  match u128_mul u v with
  | Ok r => wf128 r /\ val128 r = val128 u * val128 v - (h1 u * h1 v) * (W * W)
  | Panic => W * W <= val128 u * val128 v
  | OutOfFuel => False
  end.
Proof. exact u128_mul_general. Qed.
Theorem C20_mul128_refuted :
  exists u v, wf128 u /\ wf128 v /\ W * W <= val128 u * val128 v /\ u128_mul u v <> Panic.
Proof. exact u128_mul_refuted. Qed.

Theorem C20_mul256 : forall u v, wf256 u -> wf256 v ->
  (val256 u * val256 v < W4 ->
     exists r, u256_mul u v = Ok r /\ wf256 r /\ val256 r = val256 u * val256 v) /\
  (W4 <= val256 u * val256 v -> u256_mul u v = Panic).
Proof. exact u256_mul_exact. Qed.

(** division: total (the fuel of the model always suffices) and exact *)
Theorem C20_div256 : forall u v, wf256 u -> wf256 v -> val256 v <> 0 ->
  exists q, u256_div u v = Ok q /\ wf256 q /\ val256 q = val256 u / val256 v.
Proof. exact u256_div_exact. Qed.
Theorem C20_quorem128_64 : forall u v, wf128 u -> inW v -> v <> 0 ->
  exists q r, u128_quorem64 u v = Ok (q, r) /\ wf128 q /\ val128 q = val128 u / v /\ r = val128 u mod v.
Proof. exact u128_quorem64_exact. Qed.
(* Uint128.QuoRem for every divisor (64-bit or 128-bit): total (no panic, no underflow of the trial remainder) and exact *)
Theorem C20_quorem128 : forall u v, wf128 u -> wf128 v -> val128 v <> 0 ->
  exists q r, u128_quorem u v = Ok (q, r) /\ wf128 q /\ wf128 r /\
              val128 q = val128 u / val128 v /\ val128 r = val128 u mod val128 v.
Proof. exact u128_quorem_exact. Qed.
Theorem C20_div256_orig_refuted :
  exists u v, wf256 u /\ wf256 v /\ val256 v <> 0 /\ u256_div_orig u v = OutOfFuel.
Proof. exact u256_div_orig_refuted. Qed.

(** comparisons are the order of the values *)
Theorem C20_cmp64 : forall a b, u64_cmp a b = match a ?= b with Lt => -1 | Eq => 0 | Gt => 1 end.
Proof. exact u64_cmp_spec. Qed.
Theorem C20_cmp128 : forall u v, wf128 u -> wf128 v ->
  u128_cmp u v = match val128 u ?= val128 v with Lt => -1 | Eq => 0 | Gt => 1 end.
Proof. exact u128_cmp_spec. Qed.
Theorem C20_cmp128_64 : forall u v, wf128 u -> inW v ->
  u128_cmp64 u v = match val128 u ?= v with Lt => -1 | Eq => 0 | Gt => 1 end.
Proof. exact u128_cmp64_spec. Qed.
Theorem C20_cmp256 : forall u v, wf256 u -> wf256 v ->
  u256_cmp u v = match val256 u ?= val256 v with Lt => -1 | Eq => 0 | Gt => 1 end.
Proof. exact u256_cmp_spec. Qed.

(** bitwise operations are the bitwise operations on the values (the limb-wise results of the model's
    run128/run256 runners are exactly these records) *)
Theorem C20_and128 : forall u v, wf128 u -> wf128 v ->
  val128 (mk128 (Z.land (h1 u) (h1 v)) (Z.land (h0 u) (h0 v))) = Z.land (val128 u) (val128 v).
Proof. exact and128. Qed.
Theorem C20_or128 : forall u v, wf128 u -> wf128 v ->
  val128 (mk128 (Z.lor (h1 u) (h1 v)) (Z.lor (h0 u) (h0 v))) = Z.lor (val128 u) (val128 v).
Proof. exact or128. Qed.
Theorem C20_xor128 : forall u v, wf128 u -> wf128 v ->
  val128 (mk128 (Z.lxor (h1 u) (h1 v)) (Z.lxor (h0 u) (h0 v))) = Z.lxor (val128 u) (val128 v).
Proof. exact xor128. Qed.
Theorem C20_not128 : forall u, wf128 u -> val128 (mk128 (not64 (h1 u)) (not64 (h0 u))) = W * W - 1 - val128 u.
Proof. exact not128. Qed.
Theorem C20_and256 : forall u v, wf256 u -> wf256 v ->
  val256 (mk256 (Z.land (q3 u) (q3 v)) (Z.land (q2 u) (q2 v)) (Z.land (q1 u) (q1 v)) (Z.land (q0 u) (q0 v))) = Z.land (val256 u) (val256 v).
Proof. exact and256. Qed.
Theorem C20_or256 : forall u v, wf256 u -> wf256 v ->
  val256 (mk256 (Z.lor (q3 u) (q3 v)) (Z.lor (q2 u) (q2 v)) (Z.lor (q1 u) (q1 v)) (Z.lor (q0 u) (q0 v))) = Z.lor (val256 u) (val256 v).
Proof. exact or256. Qed.
Theorem C20_xor256 : forall u v, wf256 u -> wf256 v ->
  val256 (mk256 (Z.lxor (q3 u) (q3 v)) (Z.lxor (q2 u) (q2 v)) (Z.lxor (q1 u) (q1 v)) (Z.lxor (q0 u) (q0 v))) = Z.lxor (val256 u) (val256 v).
Proof. exact xor256. Qed.
Theorem C20_not256 : forall u, wf256 u ->
  val256 (mk256 (not64 (q3 u)) (not64 (q2 u)) (not64 (q1 u)) (not64 (q0 u))) = W4 - 1 - val256 u.
Proof. exact not256. Qed.

(** casts preserve every value that fits the target width *)
Theorem C20_cast_256_128 : forall u, wf256 u -> val256 u < W * W -> val128 (mk128 (q1 u) (q0 u)) = val256 u.
Proof. exact cast_256_to_128. Qed.
Theorem C20_cast_256_64 : forall u, wf256 u -> val256 u < W -> q0 u = val256 u.
Proof. exact cast_256_to_64. Qed.
Theorem C20_cast_128_64 : forall u, wf128 u -> val128 u < W -> h0 u = val128 u.
Proof. exact cast_128_to_64. Qed.
Theorem C20_cast_128_256 : forall u, wf128 u -> val256 (mk256 0 0 (h1 u) (h0 u)) = val128 u.
Proof. exact cast_128_to_256. Qed.
Theorem C20_cast_64_256 : forall x, val256 (mk256 0 0 0 x) = x.
Proof. exact cast_64_to_256. Qed.
Theorem C20_cast_64_128 : forall x, val128 (mk128 0 x) = x.
Proof. exact cast_64_to_128. Qed.

(** constructors: MaxValue() is the largest value of the width (well-formed, 2^w - 1, an upper bound of every value),
    Zero() / ZeroUint is 0, OneUint is 1 (the limb records are those the model's runners return for these operations;
    Set64 v / From64 v are mk128 0 v / mk256 0 0 0 v: C20_cast_64_128 / C20_cast_64_256) *)
Theorem C20_max128 : wf128 (mk128 (W - 1) (W - 1)) /\ val128 (mk128 (W - 1) (W - 1)) = W * W - 1.
Proof. exact max128_val. Qed.
Theorem C20_max256 : wf256 (mk256 (W - 1) (W - 1) (W - 1) (W - 1)) /\ val256 (mk256 (W - 1) (W - 1) (W - 1) (W - 1)) = W4 - 1.
Proof. exact max256_val. Qed.
Theorem C20_max128_is_max : forall u, wf128 u -> val128 u <= val128 (mk128 (W - 1) (W - 1)).
Proof. exact max128_is_max. Qed.
Theorem C20_max256_is_max : forall u, wf256 u -> val256 u <= val256 (mk256 (W - 1) (W - 1) (W - 1) (W - 1)).
Proof. exact max256_is_max. Qed.
Theorem C20_zero_one : val128 (mk128 0 0) = 0 /\ val256 (mk256 0 0 0 0) = 0 /\ val128 (mk128 0 1) = 1 /\ val256 (mk256 0 0 0 1) = 1.
Proof. exact (conj zero128_val (conj zero256_val (conj one128_val one256_val))). Qed.

(** the pre-repair code violates the property (witnesses replayed on the implementation by the corpus) *)
Theorem C20_mul128_orig_refuted :
  exists u v, wf128 u /\ wf128 v /\ h1 v = 0 /\ W * W <= val128 u * val128 v /\ u128_mul_orig u v <> Panic.
Proof. exact u128_mul_orig_refuted. Qed.
Theorem C20_mul256_orig_refuted :
  exists u v, wf256 u /\ wf256 v /\ exists r, u256_mul_orig u v = Ok r /\ val256 r <> val256 u * val256 v.
Proof. exact u256_mul_orig_refuted. Qed.
Theorem C20_shl256_orig_refuted :
  exists u n, wf256 u /\ 0 <= n < 256 /\ val256 (u256_shl_orig u n) <> (val256 u * 2^n) mod W4.
Proof. exact u256_shl_orig_refuted. Qed.
Theorem C20_shr256_orig_refuted :
  exists u n, wf256 u /\ 0 <= n < 256 /\ val256 (u256_shr_orig u n) <> val256 u / 2^n.
Proof. exact u256_shr_orig_refuted. Qed.

(** non-vacuity: a non-trivial operand meets the hypotheses *)
Example C20_nonvacuous : wf256 (mk256 (W - 1) 1 0 (W - 1)) /\ wf128 (mk128 (W - 1) 5) /\ inW (W - 1).
Proof. unfold wf256, wf128, inW; cbn; repeat split; vm_compute; congruence. Qed.

Print Assumptions C20_shl64.
Print Assumptions C20_shr64.
Print Assumptions C20_shl128.
Print Assumptions C20_shr128.
Print Assumptions C20_shl256.
Print Assumptions C20_shr256.
Print Assumptions C20_add64.
Print Assumptions C20_sub64.
Print Assumptions C20_mul64.
Print Assumptions C20_add128.
Print Assumptions C20_add128_64.
Print Assumptions C20_sub128.
Print Assumptions C20_add256.
Print Assumptions C20_sub256.
Print Assumptions C20_mul128_64.
Print Assumptions C20_mul128_partial.
Print Assumptions C20_mul128_wraps_only_by_high_product.
Print Assumptions C20_mul128_refuted.
Print Assumptions C20_mul256.
Print Assumptions C20_div256.
Print Assumptions C20_quorem128_64.
Print Assumptions C20_quorem128.
Print Assumptions C20_div256_orig_refuted.
Print Assumptions C20_cmp64.
Print Assumptions C20_cmp128.
Print Assumptions C20_cmp128_64.
Print Assumptions C20_cmp256.
Print Assumptions C20_and128.
Print Assumptions C20_or128.
Print Assumptions C20_xor128.
Print Assumptions C20_not128.
Print Assumptions C20_and256.
Print Assumptions C20_or256.
Print Assumptions C20_xor256.
Print Assumptions C20_not256.
Print Assumptions C20_cast_256_128.
Print Assumptions C20_cast_256_64.
Print Assumptions C20_cast_128_64.
Print Assumptions C20_cast_128_256.
Print Assumptions C20_cast_64_256.
Print Assumptions C20_cast_64_128.
Print Assumptions C20_mul128_orig_refuted.
Print Assumptions C20_mul256_orig_refuted.
Print Assumptions C20_shl256_orig_refuted.
Print Assumptions C20_shr256_orig_refuted.
Print Assumptions C20_max128.
Print Assumptions C20_max256.
Print Assumptions C20_max128_is_max.
Print Assumptions C20_max256_is_max.
Print Assumptions C20_zero_one.
