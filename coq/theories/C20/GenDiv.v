(** C20 — the composite functions: Uint128.QuoRem (and Div/Mod/Div64/Mod64) and Uint256.Div.  They are proved from the
    equalities of their callees (GenProofs.v, GenShift.v), whichever callees the code uses: the compositional tactic
    [q_go] rewrites every translated callee into its model function, destructs the model calls as they reach the head of
    a bind, and closes by reflexivity / lia; it does not depend on the order or the naming of the statements, on
    if/else versus early return, nor on which comparison method (Cmp, LessThan, ...) the code calls. *)
From Coq Require Import ZArith List Bool Lia.
From OBI.C20 Require Import Model Proofs GenTac GenProofs GenShift.
From OBI.C20.Gen Require Import Translated.
Import ListNotations.
Open Scope Z_scope.

Ltac Zify.zify_post_hook ::= Z.div_mod_to_equations.

Lemma lzcnt_range x : 0 <= x < W -> 0 <= lzcnt64 x <= 64.
Proof.
  intros Hx. destruct (Z.eq_dec x 0) as [->|]; [cbv; split; discriminate|].
  pose proof (lzcnt_spec x ltac:(lia)). lia.
Qed.
Lemma shr64_range x k : 0 <= x < W -> 0 <= k -> 0 <= shr64 x k <= x.
Proof.
  intros Hx Hk. unfold shr64. destruct (Z.ltb_spec k 64); [|lia].
  assert (0 < 2^k) by (apply Z.pow_pos_nonneg; lia).
  split; [apply Z.div_pos; lia|]. apply Z.div_le_upper_bound; nia.
Qed.
Lemma div64_range hi lo y q r : 0 <= hi -> 0 <= lo < W -> div64 hi lo y = Some (q, r) -> 0 <= q < W.
Proof.
  unfold div64. intros Hh Hl. destruct (Z.eqb_spec y 0); cbn [orb]; [discriminate|].
  destruct (Z.leb_spec y hi); [discriminate|]. intros E; inversion E; subst; clear E.
  pose proof W_pos. split; [apply Z.div_pos; nia|]. apply Z.div_lt_upper_bound; nia.
Qed.

Ltac ifs := repeat match goal with |- context [if ?b then _ else _] => destruct b end.
Lemma u128_sub_nofuel u v : u128_sub u v <> OutOfFuel.
Proof. unfold u128_sub. split_all; discriminate. Qed.
Lemma u128_add64_nofuel u v : u128_add64 u v <> OutOfFuel.
Proof. unfold u128_add64. split_all; discriminate. Qed.
Lemma u128_mul64_nofuel u v : u128_mul64 u v <> OutOfFuel.
Proof. unfold u128_mul64. split_all; discriminate. Qed.
Lemma u128_quorem64_nofuel u v : u128_quorem64 u v <> OutOfFuel.
Proof. unfold u128_quorem64. norm. repeat match goal with |- context [match ?x with _ => _ end] => destruct x end; discriminate. Qed.
Lemma u128_sub_wf u v r : u128_sub u v = Ok r -> wf128 r.
Proof. pose proof W_pos. unfold u128_sub. norm. ifs; intros E; inversion E; subst;
  unfold wf128; cbn [h1 h0]; split; apply Z.mod_pos_bound; lia. Qed.
Lemma u128_add64_wf u v r : u128_add64 u v = Ok r -> wf128 r.
Proof. pose proof W_pos. unfold u128_add64. norm. ifs; intros E; inversion E; subst;
  unfold wf128; cbn [h1 h0]; split; apply Z.mod_pos_bound; lia. Qed.
Lemma u128_mul64_wf u v r : u128_mul64 u v = Ok r -> wf128 r.
Proof. pose proof W_pos. unfold u128_mul64. norm. ifs; intros E; inversion E; subst;
  unfold wf128; cbn [h1 h0]; split; apply Z.mod_pos_bound; lia. Qed.
Lemma u256_sub_wf u v r : u256_sub u v = Ok r -> wf256 r.
Proof. pose proof W_pos. unfold u256_sub. norm. ifs; intros E; inversion E; subst;
  unfold wf256; cbn [q3 q2 q1 q0]; repeat split; try (apply Z.mod_pos_bound; lia). Qed.
Lemma u256_add_wf u v r : u256_add u v = Ok r -> wf256 r.
Proof. pose proof W_pos. unfold u256_add. norm. ifs; intros E; inversion E; subst;
  unfold wf256; cbn [q3 q2 q1 q0]; repeat split; try (apply Z.mod_pos_bound; lia). Qed.
Lemma u256_sub_nofuel u v : u256_sub u v <> OutOfFuel.
Proof. unfold u256_sub. norm. ifs; discriminate. Qed.
Lemma u256_add_nofuel u v : u256_add u v <> OutOfFuel.
Proof. unfold u256_add. norm. ifs; discriminate. Qed.

Definition rmap {A B} (f : A -> B) (r : res A) : res B :=
  match r with Ok a => Ok (f a) | Panic => Panic | OutOfFuel => OutOfFuel end.
Definition o2r {A} (o : option A) : res A := match o with Some a => Ok a | None => OutOfFuel end.

(* ---- the compositional tactic ---- *)
Ltac q_wf := first
  [ assumption | (split; assumption)
  | (eapply u128_sub_wf; eassumption) | (eapply u128_add64_wf; eassumption) | (eapply u128_mul64_wf; eassumption)
  | (eapply u256_sub_wf; eassumption) | (eapply u256_add_wf; eassumption)
  | (unfold wf128, wf256, inW in *; cbn [h1 h0 q3 q2 q1 q0] in *; g_W; repeat split; lia) ].
Ltac q_nofuel := exfalso; first
  [ eapply u128_sub_nofuel; eassumption | eapply u128_add64_nofuel; eassumption | eapply u128_mul64_nofuel; eassumption
  | eapply u128_quorem64_nofuel; eassumption | eapply u256_sub_nofuel; eassumption | eapply u256_add_nofuel; eassumption ].
Ltac q_rw128 := first
  [ rewrite L_Uint128_Mul64_eq by q_wf | rewrite L_Uint128_Sub_eq by q_wf | rewrite L_Uint128_Add64_eq by q_wf
  | rewrite L_Uint128_Add_eq by q_wf | rewrite L_Uint128_Mul_eq by q_wf | rewrite L_Uint128_QuoRem64_eq by q_wf
  | rewrite L_Uint128_Cmp64_eq by q_wf
  | rewrite L_Uint128_Cmp_eq | rewrite L_Uint128_LessThan_eq | rewrite L_Uint128_GreaterThan_eq
  | rewrite L_Uint128_LessThanOrEqual_eq | rewrite L_Uint128_GreaterThanOrEqual_eq | rewrite L_Uint128_Equals_eq
  | rewrite L_Uint128_IsZero_eq ].
Ltac q_model r := lazymatch r with
  | u128_mul64 _ _ => idtac | u128_sub _ _ => idtac | u128_add64 _ _ => idtac | u128_add _ _ => idtac
  | u128_mul _ _ => idtac | u128_quorem64 _ _ => idtac | u128_quorem _ _ => idtac
  | u256_sub _ _ => idtac | u256_add _ _ => idtac end.
Ltac q_destruct :=
  match goal with
  | |- context [match ?r with Ok _ => _ | Panic => _ | OutOfFuel => _ end] =>
      q_model r; let E := fresh "E" in let a := fresh "a" in
      destruct r as [a| |] eqn:E;
      [ lazymatch type of a with (_ * _)%type => destruct a | _ => idtac end | | ]
  end.
Ltac q_simpl := cbv beta iota zeta delta [bind negb rmap o2r fst snd].
Ltac q_cmp := g_cmp1; q_simpl.
Ltac q_close := first [ reflexivity | (exfalso; lia) | q_nofuel ].
Ltac q_go rw := repeat first [ q_close | progress (repeat rw) | progress q_simpl | q_destruct | q_cmp ].

(* ---------------- Uint128.QuoRem and its wrappers ---------------- *)
Ltac old_qr_tail u v tq :=
  rewrite L_Uint128_Mul64_eq by q_wf; destruct (u128_mul64 v tq) as [m| |] eqn:EM; [|reflexivity|q_nofuel];
  rewrite L_Uint128_Sub_eq by q_wf; destruct (u128_sub u m) as [r| |] eqn:ES; [|reflexivity|q_nofuel];
  rewrite L_Uint128_Cmp_eq; destruct (0 <=? u128_cmp r v); [|reflexivity];
  rewrite L_Uint128_Add64_eq, L_Uint128_Sub_eq by q_wf;
  destruct (u128_add64 (mk128 0 tq) 1) as [q| |] eqn:EA; destruct (u128_sub r v) as [r2| |] eqn:ES2; try reflexivity; q_nofuel.

Lemma L_Uint128_QuoRem_eq : forall u v, wf128 u -> wf128 v -> T_Uint128_QuoRem u v = u128_quorem u v.
Proof.
  intros u v Hu Hv. pose proof W_val as WV. unfold T_Uint128_QuoRem, u128_quorem.
  destruct (Z.eqb_spec (h1 v) 0) as [E|E].
  - (* one-limb divisor *)
    two (rewrite L_Uint128_QuoRem64_eq by q_wf; cbv beta iota zeta delta [bind];
         destruct (u128_quorem64 u (h0 v)) as [[q r]| |]; reflexivity)
    ||| (destruct Hv as [Hv1 Hv0]; q_go q_rw128).
  - (* the written-out wraps uint(lzcnt), 63-n, tq-- do not wrap; then the callees *)
    destruct Hv as [Hv1 Hv0].
    pose proof (lzcnt_spec (h1 v) ltac:(lia)) as [L _].
    cbv zeta. rewrite ?(Z.mod_small (lzcnt64 (h1 v)) W) by lia.
    rewrite ?(Z.mod_small (63 - lzcnt64 (h1 v)) W) by lia.
    rewrite ?L_Uint128_LeftShift_eq by (first [split; assumption | lia]).
    rewrite ?L_Uint128_RightShift_eq by (first [assumption | lia]).
    pose proof (u128_shr_spec u 1 Hu ltac:(lia)) as [[Hs1 Hs0] _].
    unfold div64r.
    destruct (div64 (h1 (u128_shr u 1)) (h0 (u128_shr u 1)) (h1 (u128_shl v (lzcnt64 (h1 v))))) as [[tq rr]|] eqn:ED;
      cbv beta iota zeta delta [bind]; [|reflexivity].
    pose proof (div64_range _ _ _ _ _ (proj1 Hs1) Hs0 ED) as Htq.
    pose proof (shr64_range tq (63 - lzcnt64 (h1 v)) Htq ltac:(lia)) as Hsh.
    set (tq' := shr64 tq (63 - lzcnt64 (h1 v))) in *.
    destruct (Z.eqb_spec tq' 0) as [E0|E0]; cbv beta iota zeta delta [negb].
    + two (old_qr_tail u v tq') ||| (q_go q_rw128).
    + rewrite ?(Z.mod_small (tq' - 1) W) by lia.
      two (old_qr_tail u v (tq' - 1)) ||| (q_go q_rw128).
Qed.
Ltac q_rw128' := first [ rewrite L_Uint128_QuoRem_eq by q_wf | q_rw128 ].
Lemma L_Uint128_Div_eq : forall u v, wf128 u -> wf128 v -> T_Uint128_Div u v = rmap fst (u128_quorem u v).
Proof. intros. unfold T_Uint128_Div.
  two (rewrite L_Uint128_QuoRem_eq by assumption; destruct (u128_quorem u v) as [[q r]| |]; reflexivity) ||| (q_go q_rw128'). Qed.
Lemma L_Uint128_Mod_eq : forall u v, wf128 u -> wf128 v -> T_Uint128_Mod u v = rmap snd (u128_quorem u v).
Proof. intros. unfold T_Uint128_Mod.
  two (rewrite L_Uint128_QuoRem_eq by assumption; destruct (u128_quorem u v) as [[q r]| |]; reflexivity) ||| (q_go q_rw128'). Qed.
Lemma L_Uint128_Div64_eq : forall u v, wf128 u -> inW v -> T_Uint128_Div64 u v = rmap fst (u128_quorem64 u v).
Proof. intros. unfold T_Uint128_Div64.
  two (rewrite L_Uint128_QuoRem64_eq by assumption; destruct (u128_quorem64 u v) as [[q r]| |]; reflexivity) ||| (q_go q_rw128'). Qed.
Lemma L_Uint128_Mod64_eq : forall u v, wf128 u -> inW v -> T_Uint128_Mod64 u v = rmap snd (u128_quorem64 u v).
Proof. intros. unfold T_Uint128_Mod64.
  two (rewrite L_Uint128_QuoRem64_eq by assumption; destruct (u128_quorem64 u v) as [[q r]| |]; reflexivity) ||| (q_go q_rw128'). Qed.

(* ---------------- Uint256.Div: repeated doubling, two loops (by induction on the fuel) ---------------- *)
Lemma top_bit_test x : 0 <= x < W -> (shr64 x 63 =? 0) = (x <? 2^63).
Proof.
  intros Hx. pose proof W_val. unfold shr64. change (63 <? 64) with true. cbv iota.
  change (2^63) with 9223372036854775808.
  destruct (Z.eqb_spec (x / 9223372036854775808) 0); destruct (Z.ltb_spec x 9223372036854775808); try reflexivity; lia.
Qed.
Lemma ge_is_le u v : wf256 u -> wf256 v -> negb (u256_lt u v) = u256_le v u.
Proof.
  intros Hu Hv. rewrite u256_lt_spec, u256_le_spec by assumption.
  destruct (Z.ltb_spec (val256 u) (val256 v)); destruct (Z.leb_spec (val256 v) (val256 u)); try reflexivity; lia.
Qed.
Lemma div_inner_wf g : forall fuel t m r t' m', wf256 t -> wf256 m ->
  div_inner g fuel t m r = Some (t', m') -> wf256 t' /\ wf256 m'.
Proof.
  pose proof W_val as WV.
  induction fuel as [|f IH]; intros t m r t' m' Ht Hm E; [discriminate|].
  cbn [div_inner] in E.
  destruct ((negb g || (q3 t <? 2 ^ 63)) && u256_le (u256_shl t 1) r)%bool.
  - eapply IH; [| |exact E]; apply u256_shl_spec; first [assumption | lia].
  - inversion E; subst. split; assumption.
Qed.

Ltac old_div256 :=
  intros u v Hu Hv;
  assert (L2 : forall fuel r t m, wf256 t -> wf256 m ->
     T_Uint256_Div_loop2 fuel t r m = o2r (div_inner true fuel t m r));
  [ clear; intros fuel; induction fuel as [|f IH]; intros r t m Ht Hm; [reflexivity|];
    cbn [T_Uint256_Div_loop2 div_inner]; pose proof W_val as WV;
    rewrite top_bit_test by (destruct Ht as (H3 & _); exact H3);
    rewrite !L_Uint256_LeftShift_eq by (first [assumption | lia]); cbv beta iota zeta delta [bind negb orb];
    rewrite L_Uint256_LessThanOrEqual_eq;
    destruct (q3 t <? 2^63) eqn:E1; cbv beta iota zeta delta [bind andb]; [|reflexivity];
    destruct (u256_le (u256_shl t 1) r) eqn:E2; [|reflexivity];
    apply IH; apply u256_shl_spec; first [assumption|lia]
  | assert (L1 : forall fuel v q r, wf256 v -> wf256 r -> wf256 q ->
       rmap snd (T_Uint256_Div_loop1 fuel r v q) = div_outer true fuel v q r);
    [ clear - L2; intros fuel; induction fuel as [|f IH]; intros v q r Hv Hr Hq; [reflexivity|];
      assert (W1 : wf256 (mk256 0 0 0 1)) by (unfold wf256; cbn [q3 q2 q1 q0]; g_W; lia);
      cbn [T_Uint256_Div_loop1 div_outer];
      rewrite L_Uint256_GreaterThanOrEqual_eq, ge_is_le by assumption;
      destruct (u256_le v r); [|reflexivity];
      cbv zeta; rewrite L2 by assumption;
      destruct (div_inner true 257 v (mk256 0 0 0 1) r) as [[t m]|] eqn:EI; cbv beta iota zeta delta [bind o2r]; [|reflexivity];
      destruct (div_inner_wf _ _ _ _ _ _ _ Hv W1 EI) as [Wt Wm];
      rewrite L_Uint256_Sub_eq, L_Uint256_Add_eq by q_wf; 
      destruct (u256_sub r t) as [r'| |] eqn:ES; [|reflexivity|q_nofuel];
      destruct (u256_add q m) as [q'| |] eqn:EA; [|reflexivity|q_nofuel];
      apply IH; [assumption | eapply u256_sub_wf; eassumption | eapply u256_add_wf; eassumption]
    | unfold T_Uint256_Div, u256_div, u256_div_gen;
      first
      [ solve [ rewrite (L_Uint256_IsZero_eq v), (L_Uint256_IsZero_eq u), L_Uint256_LessThan_eq, L_Uint256_Equals_eq;
                destruct (u256_iszero v); [reflexivity|];
                destruct (u256_iszero u || u256_lt u v)%bool; [reflexivity|];
                destruct (u256_cmp v (mk256 0 0 0 1) =? 0); [reflexivity|];
                cbv zeta; rewrite <- L1 by (first [assumption | (unfold wf256; cbn [q3 q2 q1 q0]; g_W; lia)]);
                destruct (T_Uint256_Div_loop1 257 u v (mk256 0 0 0 0)) as [[r q]| |]; reflexivity ]
      | (* the tests before the loop, written with other callees or inline (v.w3|v.w2|v.w1|v.w0 == 0): the callees are
           rewritten into the model predicates, the zero tests are normalised, then each test is ONE boolean on both sides *)
        solve [ cbv zeta; rewrite <- L1 by (first [assumption | (unfold wf256; cbn [q3 q2 q1 q0]; g_W; lia)]);
                generalize (T_Uint256_Div_loop1 257 u v (mk256 0 0 0 0)); intros lp; clear L1 L2;
                rewrite ?L_Uint256_IsZero_eq, ?L_Uint256_LessThan_eq, ?L_Uint256_Equals_eq, ?L_Uint256_GreaterThan_eq,
                        ?L_Uint256_LessThanOrEqual_eq, ?L_Uint256_GreaterThanOrEqual_eq;
                unfold u256_iszero; rewrite ?lor_eqb_0;
                repeat match goal with |- context [if ?c then _ else _] => destruct c end;
                destruct lp as [[r q]| |]; reflexivity ] ] ] ].

Lemma L_Uint256_Div_eq : forall u v, wf256 u -> wf256 v -> T_Uint256_Div u v = u256_div u v.
Proof. two (old_div256) ||| (fail). Qed.
