(** C20 — the shifts of the three widths: translated function = model function (see GenProofs.v for the proof style). *)
From Coq Require Import ZArith List Bool Lia.
From OBI.C20 Require Import Model Proofs GenTac GenBits GenProofs.
From OBI.C20.Gen Require Import Translated.
Import ListNotations.
Open Scope Z_scope.

Ltac Zify.zify_post_hook ::= Z.div_mod_to_equations.

(* ---- the shape-independent fallbacks: case analysis on the shift count, symbolic execution, then bit by bit (GenBits.v) ---- *)
Ltac g_leaf2 := first [ reflexivity | lia | g_bits ].
Ltac g_eqb unf := intros; g_destruct; unf; T_unfold_all; g_exec; rewrite ?lor_eqb_0; g_split;
   first [ reflexivity | (exfalso; g_W; lia) | (g_peel; g_leaf2) ].
Ltac g_tonat := match goal with |- context [Z.to_nat ?k] => closedZ k; let v := eval vm_compute in (Z.to_nat k) in change (Z.to_nat k) with v end.
Ltac g_exec2 := repeat first [ progress T_loops_step | progress cbn [bind limbs_up limbs_down] | g_closed | g_tonat | b_dec1
                             | progress cbv beta iota zeta delta [fst snd h1 h0 q3 q2 q1 q0] ].
(* n = 64 k + m with 0 <= m < 64: the whole-limb part becomes a constant, the sub-limb amount a variable of its own *)
Ltac g_case256 n k :=
  let m := fresh "m" in let Hm := fresh "Hm" in let E := fresh "E" in let M := fresh "M" in let N := fresh "N" in
  assert (E : n / 64 = k) by lia; assert (M : n mod 64 = n - 64 * k) by lia; rewrite ?E, ?M; clear E M;
  remember (n - 64 * k) as m eqn:N; assert (Hm : 0 <= m < 64) by lia;
  assert (E : n = m + 64 * k) by lia; clear N; subst n;
  g_exec2; g_split; first [ reflexivity | (exfalso; g_W; lia) | (g_peel; g_leaf2) ].
Ltac g_shift256 unf :=
  let u := fresh "u" in let n := fresh "n" in let Hu := fresh "Hu" in let Hn := fresh "Hn" in
  intros u n Hu Hn; g_destruct; unf; T_unfold_all; cbv beta; pose proof W_val;
  destruct (Z.leb_spec 256 n); [ reflexivity | ];
  let C := fresh "C" in
  assert (C : 0 <= n < 64 \/ 64 <= n < 128 \/ 128 <= n < 192 \/ 192 <= n < 256) by lia;
  destruct C as [C|[C|[C|C]]]; [ g_case256 n 0 | g_case256 n 1 | g_case256 n 2 | g_case256 n 3 ].

Lemma shl64_1_range n : 0 <= n < 64 -> 1 <= shl64 1 n < W.
Proof.
  intros H. unfold shl64. destruct (Z.ltb_spec n 64); [|lia]. rewrite Z.mul_1_l.
  assert (0 < 2^n) by (apply Z.pow_pos_nonneg; lia).
  assert (2^n < 2^64) by (apply Z.pow_lt_mono_r; lia).
  rewrite Z.mod_small by (rewrite W_pow; lia). rewrite W_pow. lia.
Qed.

(* ---------------- Uint64 ---------------- *)
Lemma L_Uint64_LeftShift64_eq : forall u n c, inW u -> 0 <= n < W ->
  T_Uint64_LeftShift64 u n c = leftshift64 u n c.
Proof.
  two (intros u n c Hu Hn; pose proof W_val as WV;
       cbv delta [T_Uint64_LeftShift64 leftshift64]; split_all; fin;
       [ pose proof (shl64_1_range n ltac:(lia)); rewrite !Z.mod_small by lia; reflexivity
       | rewrite !Z.mod_small by lia; reflexivity ])
  ||| (g_eqb ltac:(unfold leftshift64)).
Qed.
Lemma L_Uint64_RightShift64_eq : forall u n c, inW u -> 0 <= n < W ->
  T_Uint64_RightShift64 u n c = rightshift64 u n c.
Proof.
  two (intros u n c Hu Hn; pose proof W_val as WV;
       cbv delta [T_Uint64_RightShift64 rightshift64]; split_all; fin;
       [ rewrite (Z.mod_small (64 - n)) by lia;
         pose proof (shl64_1_range (64 - n) ltac:(lia)); rewrite !Z.mod_small by lia; reflexivity
       | rewrite !Z.mod_small by lia; reflexivity ])
  ||| (g_eqb ltac:(unfold rightshift64)).
Qed.
Lemma L_Uint64_LeftShift_eq : forall u n, inW u -> 0 <= n < W -> T_Uint64_LeftShift u n = u64_shl u n.
Proof.
  two (intros; unfold T_Uint64_LeftShift, u64_shl; rewrite L_Uint64_LeftShift64_eq by assumption;
       destruct (leftshift64 u n 0); reflexivity)
  ||| (g_eqb ltac:(unfold u64_shl, leftshift64)).
Qed.
Lemma L_Uint64_RightShift_eq : forall u n, inW u -> 0 <= n < W -> T_Uint64_RightShift u n = u64_shr u n.
Proof.
  two (intros; unfold T_Uint64_RightShift, u64_shr; rewrite L_Uint64_RightShift64_eq by assumption;
       destruct (rightshift64 u n 0); reflexivity)
  ||| (g_eqb ltac:(unfold u64_shr, rightshift64)).
Qed.

(* ---------------- Uint128 ---------------- *)
Lemma L_Uint128_LeftShift_eq : forall u n, wf128 u -> 0 <= n < W -> T_Uint128_LeftShift u n = u128_shl u n.
Proof.
  two (intros u n [H1 H0] Hn; unfold T_Uint128_LeftShift, u128_shl; rewrite L_Uint64_LeftShift64_eq by assumption;
       destruct (leftshift64 (h0 u) n 0); rewrite L_Uint64_LeftShift64_eq by assumption; reflexivity)
  ||| (g_eqb ltac:(unfold u128_shl, leftshift64)).
Qed.
Lemma L_Uint128_RightShift_eq : forall u n, wf128 u -> 0 <= n < W -> T_Uint128_RightShift u n = u128_shr u n.
Proof.
  two (intros u n [H1 H0] Hn; unfold T_Uint128_RightShift, u128_shr; rewrite L_Uint64_RightShift64_eq by assumption;
       destruct (rightshift64 (h1 u) n 0); rewrite L_Uint64_RightShift64_eq by assumption; reflexivity)
  ||| (g_eqb ltac:(unfold u128_shr, rightshift64)).
Qed.

(* ---------------- Uint256: the whole-limb loop, then the carry chain ---------------- *)
Lemma limbs_up_wf k : forall u, wf256 u -> wf256 (limbs_up k u).
Proof. induction k as [|k IH]; intros u Hu; [exact Hu|]. cbn [limbs_up]. apply IH.
  destruct Hu as (H3 & H2 & H1 & H0). pose proof W_pos. unfold wf256; cbn [q3 q2 q1 q0]. repeat split; lia. Qed.
Lemma limbs_down_wf k : forall u, wf256 u -> wf256 (limbs_down k u).
Proof. induction k as [|k IH]; intros u Hu; [exact Hu|]. cbn [limbs_down]. apply IH.
  destruct Hu as (H3 & H2 & H1 & H0). pose proof W_pos. unfold wf256; cbn [q3 q2 q1 q0]. repeat split; lia. Qed.

Ltac old_shl256 :=
  intros u n Hu Hn; pose proof W_val as WV; unfold T_Uint256_LeftShift, u256_shl;
  destruct (Z.leb_spec 256 n) as [G|G]; [reflexivity|];
  assert (LS : forall fuel u n, 0 <= n < W -> (Z.to_nat (n / 64) < fuel)%nat ->
     T_Uint256_LeftShift_loop1 fuel n u = Ok (n mod 64, limbs_up (Z.to_nat (n / 64)) u));
  [ clear; pose proof W_val as WV; intros fuel; induction fuel as [|f IH]; intros u n Hn Hf; [lia|];
    cbn [T_Uint256_LeftShift_loop1]; destruct (Z.leb_spec 64 n) as [G|G];
    [ cbv zeta; rewrite (Z.mod_small (n - 64) W) by lia;
      assert (E : n / 64 = (n - 64) / 64 + 1) by lia;
      rewrite IH by lia; rewrite E;
      replace (Z.to_nat ((n - 64) / 64 + 1)) with (S (Z.to_nat ((n - 64) / 64))) by lia;
      cbn [limbs_up]; do 2 f_equal; lia
    | replace (n / 64) with 0 by lia; cbn [Z.to_nat limbs_up]; do 2 f_equal; lia ]
  | rewrite LS by lia; cbv beta iota zeta delta [bind];
    pose proof (limbs_up_wf (Z.to_nat (n / 64)) u Hu) as (U3 & U2 & U1 & U0);
    set (u' := limbs_up (Z.to_nat (n / 64)) u) in *; set (m := n mod 64);
    assert (Hm : 0 <= m < W) by (subst m; lia);
    unfold u256_shl_orig;
    rewrite L_Uint64_LeftShift64_eq by assumption; destruct (leftshift64 (q0 u') m 0) as [w0 c0];
    rewrite L_Uint64_LeftShift64_eq by assumption; destruct (leftshift64 (q1 u') m c0) as [w1 c1];
    rewrite L_Uint64_LeftShift64_eq by assumption; destruct (leftshift64 (q2 u') m c1) as [w2 c2];
    rewrite L_Uint64_LeftShift64_eq by assumption; destruct (leftshift64 (q3 u') m c2) as [w3 c3];
    reflexivity ].
Ltac old_shr256 :=
  intros u n Hu Hn; pose proof W_val as WV; unfold T_Uint256_RightShift, u256_shr;
  destruct (Z.leb_spec 256 n) as [G|G]; [reflexivity|];
  assert (LS : forall fuel u n, 0 <= n < W -> (Z.to_nat (n / 64) < fuel)%nat ->
     T_Uint256_RightShift_loop1 fuel n u = Ok (n mod 64, limbs_down (Z.to_nat (n / 64)) u));
  [ clear; pose proof W_val as WV; intros fuel; induction fuel as [|f IH]; intros u n Hn Hf; [lia|];
    cbn [T_Uint256_RightShift_loop1]; destruct (Z.leb_spec 64 n) as [G|G];
    [ cbv zeta; rewrite (Z.mod_small (n - 64) W) by lia;
      assert (E : n / 64 = (n - 64) / 64 + 1) by lia;
      rewrite IH by lia; rewrite E;
      replace (Z.to_nat ((n - 64) / 64 + 1)) with (S (Z.to_nat ((n - 64) / 64))) by lia;
      cbn [limbs_down]; do 2 f_equal; lia
    | replace (n / 64) with 0 by lia; cbn [Z.to_nat limbs_down]; do 2 f_equal; lia ]
  | rewrite LS by lia; cbv beta iota zeta delta [bind];
    pose proof (limbs_down_wf (Z.to_nat (n / 64)) u Hu) as (U3 & U2 & U1 & U0);
    set (u' := limbs_down (Z.to_nat (n / 64)) u) in *; set (m := n mod 64);
    assert (Hm : 0 <= m < W) by (subst m; lia);
    unfold u256_shr_orig;
    rewrite L_Uint64_RightShift64_eq by assumption; destruct (rightshift64 (q3 u') m 0) as [w3 c3];
    rewrite L_Uint64_RightShift64_eq by assumption; destruct (rightshift64 (q2 u') m c3) as [w2 c2];
    rewrite L_Uint64_RightShift64_eq by assumption; destruct (rightshift64 (q1 u') m c2) as [w1 c1];
    rewrite L_Uint64_RightShift64_eq by assumption; destruct (rightshift64 (q0 u') m c1) as [w0 c0];
    reflexivity ].

Lemma L_Uint256_LeftShift_eq : forall u n, wf256 u -> 0 <= n < W -> T_Uint256_LeftShift u n = Ok (u256_shl u n).
Proof. two (old_shl256) ||| (g_shift256 ltac:(unfold u256_shl, u256_shl_orig, leftshift64)). Qed.
Lemma L_Uint256_RightShift_eq : forall u n, wf256 u -> 0 <= n < W -> T_Uint256_RightShift u n = Ok (u256_shr u n).
Proof. two (old_shr256) ||| (g_shift256 ltac:(unfold u256_shr, u256_shr_orig, rightshift64)). Qed.
