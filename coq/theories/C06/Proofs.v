(** C06 — lemmas about the dereplication model (stdlib association lists only). *)
From Coq Require Import List NArith ZArith Bool Lia Permutation.
From OBI.C06 Require Import Model.
Import ListNotations.
Open Scope N_scope.

(** * generic list facts *)
Lemma lN_eqb_eq : forall a b, lN_eqb a b = true <-> a = b.
Proof.
  induction a as [|x a IH]; destruct b as [|y b]; cbn; split; intro H; try congruence; try discriminate.
  - apply andb_true_iff in H. destruct H as [H1 H2]. apply N.eqb_eq in H1. apply IH in H2. congruence.
  - inversion H; subst. rewrite N.eqb_refl. cbn. apply IH. reflexivity.
Qed.
Lemma lN_eqb_refl : forall a, lN_eqb a a = true.
Proof. intro a. apply lN_eqb_eq. reflexivity. Qed.
Lemma lN_eqb_neq : forall a b, lN_eqb a b = false <-> a <> b.
Proof.
  intros a b. split; intro H.
  - intro E. apply lN_eqb_eq in E. congruence.
  - destruct (lN_eqb a b) eqn:E; [apply lN_eqb_eq in E; contradiction | reflexivity].
Qed.

Lemma filter_filter {A} (p q : A -> bool) l : filter q (filter p l) = filter (fun x => p x && q x) l.
Proof.
  induction l as [|x l IH]; cbn; [reflexivity|].
  destruct (p x); cbn; [destruct (q x); rewrite IH; reflexivity | exact IH].
Qed.

Lemma filter_true {A} (p : A -> bool) l : (forall x, In x l -> p x = true) -> filter p l = l.
Proof.
  induction l as [|x l IH]; cbn; intro H; [reflexivity|].
  rewrite (H x (or_introl eq_refl)). f_equal. apply IH. intros y Hy. apply H. right. exact Hy.
Qed.

Lemma filter_false {A} (p : A -> bool) l : (forall x, In x l -> p x = false) -> filter p l = [].
Proof.
  induction l as [|x l IH]; cbn; intro H; [reflexivity|].
  rewrite (H x (or_introl eq_refl)). apply IH. intros y Hy. apply H. right. exact Hy.
Qed.

Lemma NoDup_app_intro {A} (l1 l2 : list A) :
  NoDup l1 -> NoDup l2 -> (forall x, In x l1 -> In x l2 -> False) -> NoDup (l1 ++ l2).
Proof.
  induction l1 as [|a l1 IH]; cbn; intros H1 H2 H; [exact H2|].
  inversion H1; subst. constructor.
  - intro Hin. apply in_app_or in Hin. destruct Hin as [Hin|Hin]; [contradiction | eapply H; [left; reflexivity | exact Hin]].
  - apply IH; auto. intros x Hx1 Hx2. eapply H; [right; exact Hx1 | exact Hx2].
Qed.

Lemma NoDup_flat_map_intro {A B} (F : A -> list B) (l : list A) :
  NoDup l -> (forall a, In a l -> NoDup (F a)) ->
  (forall a a' b, In a l -> In a' l -> a <> a' -> In b (F a) -> In b (F a') -> False) ->
  NoDup (flat_map F l).
Proof.
  induction l as [|a l IH]; cbn; intros Hnd HF Hdis; [constructor|].
  inversion Hnd; subst. apply NoDup_app_intro.
  - apply HF. left. reflexivity.
  - apply IH; auto. intros x x' b Hx Hx' Hne. apply Hdis; auto.
  - intros b Hb1 Hb2. apply in_flat_map in Hb2. destruct Hb2 as [a' [Ha' Hb2]].
    apply (Hdis a a' b); auto. intro E. subst a'. contradiction.
Qed.

Lemma flat_map_map {A B C} (G : A -> B) (F : B -> list C) l : flat_map F (map G l) = flat_map (fun a => F (G a)) l.
Proof. induction l as [|a l IH]; cbn; [reflexivity | rewrite IH; reflexivity]. Qed.

Lemma map_flat_map {A B C} (F : A -> list B) (G : B -> C) l : map G (flat_map F l) = flat_map (fun a => map G (F a)) l.
Proof. induction l as [|a l IH]; cbn; [reflexivity | rewrite map_app, IH; reflexivity]. Qed.

Lemma Permutation_filter {A} (p : A -> bool) l l' : Permutation l l' -> Permutation (filter p l) (filter p l').
Proof.
  induction 1 as [|x l l' H IH|x y l|l l' l'' H1 IH1 H2 IH2]; cbn.
  - constructor.
  - destruct (p x); [constructor; exact IH | exact IH].
  - destruct (p x), (p y); try apply Permutation_refl. apply perm_swap.
  - eapply Permutation_trans; eassumption.
Qed.

Lemma Permutation_partition {A} (p : A -> bool) l : Permutation l (filter p l ++ filter (fun x => negb (p x)) l).
Proof.
  induction l as [|x l IH]; cbn; [constructor|].
  destruct (p x); cbn.
  - constructor. exact IH.
  - apply Permutation_cons_app. exact IH.
Qed.

(** sums *)
Fixpoint zsum {A} (F : A -> Z) (l : list A) : Z :=
  match l with [] => 0%Z | x :: t => (F x + zsum F t)%Z end.

Lemma zsum_app {A} (F : A -> Z) l l' : zsum F (l ++ l') = (zsum F l + zsum F l')%Z.
Proof. induction l as [|x l IH]; cbn; [reflexivity | rewrite IH; lia]. Qed.

Lemma zsum_perm {A} (F : A -> Z) l l' : Permutation l l' -> zsum F l = zsum F l'.
Proof. induction 1; cbn; lia. Qed.

Lemma zsum_flat_map {A B} (F : B -> Z) (G : A -> list B) l : zsum F (flat_map G l) = zsum (fun a => zsum F (G a)) l.
Proof. induction l as [|a l IH]; cbn; [reflexivity | rewrite zsum_app, IH; reflexivity]. Qed.

Lemma zsum_ext_in {A} (F G : A -> Z) l : (forall x, In x l -> F x = G x) -> zsum F l = zsum G l.
Proof.
  induction l as [|x l IH]; cbn; intro H; [reflexivity|].
  rewrite (H x (or_introl eq_refl)), IH; [reflexivity|]. intros y Hy. apply H. right. exact Hy.
Qed.

(** * association lists *)
Lemma lookup_in {V} k (m : list (N * V)) v : lookup k m = Some v -> In (k, v) m.
Proof.
  induction m as [|[k' v'] t IH]; cbn; [discriminate|].
  destruct (k =? k') eqn:E; intro H.
  - apply N.eqb_eq in E. inversion H; subst. left. reflexivity.
  - right. apply IH. exact H.
Qed.

Lemma in_lookup {V} k (m : list (N * V)) v : NoDup (map fst m) -> In (k, v) m -> lookup k m = Some v.
Proof.
  induction m as [|[k' v'] t IH]; cbn; intros Hnd Hin; [contradiction|].
  inversion Hnd; subst. destruct Hin as [Hin|Hin].
  - inversion Hin; subst. rewrite N.eqb_refl. reflexivity.
  - destruct (k =? k') eqn:E.
    + apply N.eqb_eq in E. subst k'. exfalso. apply H1. apply (in_map fst) in Hin. exact Hin.
    + apply IH; assumption.
Qed.

Lemma lookup_map_in {V} (F : N -> V) ks rest k :
  In k ks -> lookup k (map (fun k => (k, F k)) ks ++ rest) = Some (F k).
Proof.
  induction ks as [|k' ks IH]; cbn; intro H; [contradiction|].
  destruct (k =? k') eqn:E.
  - apply N.eqb_eq in E. subst. reflexivity.
  - destruct H as [H|H]; [subst; rewrite N.eqb_refl in E; discriminate | apply IH; exact H].
Qed.

(** * statistics *)
Lemma stat_get_add : forall v w m v', stat_get v' (stat_add v w m) = Z.add (stat_get v' m) (if v' =? v then w else 0%Z).
Proof.
  intros v w m v'. induction m as [|[x wx] t IH]; cbn [stat_add stat_get].
  - destruct (v' =? v); lia.
  - destruct (v =? x) eqn:E; cbn [stat_get].
    + apply N.eqb_eq in E. subst x. destruct (v' =? v); lia.
    + rewrite IH. lia.
Qed.

Lemma stat_get_merge : forall m2 m v, stat_get v (stat_merge m m2) = (stat_get v m + stat_get v m2)%Z.
Proof.
  unfold stat_merge. induction m2 as [|[x w] t IH]; intros m v; cbn [fold_left stat_get fst snd].
  - lia.
  - rewrite IH, stat_get_add. lia.
Qed.

(** * classes *)
Lemma dedup_In : forall l c, In c (dedup l) <-> In c l.
Proof.
  induction l as [|x l IH]; intro c; cbn; [tauto|].
  rewrite filter_In, IH. split.
  - intros [H|[H _]]; auto.
  - intros [H|H]; auto. destruct (lN_eqb x c) eqn:E.
    + apply lN_eqb_eq in E. auto.
    + right. split; auto.
Qed.

Lemma dedup_NoDup : forall l, NoDup (dedup l).
Proof.
  induction l as [|x l IH]; cbn; constructor.
  - rewrite filter_In. intros [_ H]. rewrite lN_eqb_refl in H. discriminate.
  - apply NoDup_filter. exact IH.
Qed.

Lemma groups_perm : forall f l, Permutation (concat (groups f l)) l.
Proof.
  intros f l. unfold groups.
  assert (G : forall cs l, NoDup cs -> (forall r, In r l -> In (f r) cs) ->
              Permutation (concat (map (fun c => filter (fun r => lN_eqb c (f r)) l) cs)) l).
  { induction cs as [|c cs IH]; intros l0 Hnd Hcov; cbn.
    - destruct l0 as [|r l0]; [constructor | destruct (Hcov r (or_introl eq_refl))].
    - inversion Hnd; subst.
      eapply Permutation_trans; [|apply Permutation_sym, (Permutation_partition (fun r => lN_eqb c (f r)))].
      apply Permutation_app_head.
      set (l1 := filter (fun x => negb (lN_eqb c (f x))) l0).
      assert (E1 : map (fun c0 => filter (fun r => lN_eqb c0 (f r)) l0) cs = map (fun c0 => filter (fun r => lN_eqb c0 (f r)) l1) cs).
      { apply map_ext_in. intros c' Hc'. unfold l1. rewrite filter_filter. apply filter_ext. intro r.
        destruct (lN_eqb c (f r)) eqn:E; cbn; [|reflexivity].
        apply lN_eqb_eq in E. subst c. apply lN_eqb_neq. intro E'. subst c'. contradiction. }
      rewrite E1. apply IH; auto.
      intros r Hr. apply filter_In in Hr. destruct Hr as [Hr Hn]. destruct (Hcov r Hr) as [E|E]; [|exact E].
      subst c. rewrite lN_eqb_refl in Hn. discriminate. }
  apply G; [apply dedup_NoDup|]. intros r Hr. apply dedup_In. apply in_map. exact Hr.
Qed.

Lemma groups_char : forall f l g, In g (groups f l) ->
  exists x, In x l /\ g = filter (fun r => lN_eqb (f x) (f r)) l.
Proof.
  intros f l g H. unfold groups in H. apply in_map_iff in H. destruct H as [c [Hg Hc]].
  apply (proj1 (dedup_In _ _)) in Hc. apply in_map_iff in Hc. destruct Hc as [x [Hx Hin]]. subst c.
  exists x. split; [exact Hin | symmetry; exact Hg].
Qed.

(** signature of a record along a list of classifiers *)
Definition sigeqb (fs : list (urec -> list N)) (x r : urec) : bool :=
  forallb (fun f => lN_eqb (f x) (f r)) fs.
Definition sig (fs : list (urec -> list N)) (x : urec) : list (list N) := map (fun f => f x) fs.

Lemma sigeqb_sig : forall fs x r, sigeqb fs x r = true <-> sig fs x = sig fs r.
Proof.
  unfold sigeqb, sig. induction fs as [|f fs IH]; intros x r; cbn [forallb map]; [tauto|].
  rewrite andb_true_iff, lN_eqb_eq, IH. split; [intros [A B]; congruence | intro H; inversion H; auto].
Qed.
Lemma sigeqb_refl : forall fs x, sigeqb fs x x = true.
Proof. intros. apply sigeqb_sig. reflexivity. Qed.

(* one step of the sub-classification as written in the model *)

Lemma subclass_cons : forall f fs b, subclass (f :: fs) b = flat_map (substep fs) (groups f b).
Proof. reflexivity. Qed.

Lemma subclass_char : forall fs b g, b <> [] -> In g (subclass fs b) ->
  exists x, In x b /\ g = filter (sigeqb fs x) b.
Proof.
  induction fs as [|f fs IH]; intros b g Hb Hg.
  - cbn in Hg. destruct Hg as [Hg|[]]. subst g. destruct b as [|x b]; [congruence|].
    exists x. split; [left; reflexivity|]. symmetry. apply filter_true. reflexivity.
  - rewrite subclass_cons in Hg. apply in_flat_map in Hg. destruct Hg as [g0 [Hg0 Hg]].
    apply groups_char in Hg0. destruct Hg0 as [x0 [Hx0 Eg0]].
    assert (Hne : g0 <> []).
    { intro E. assert (Hin : In x0 g0) by (rewrite Eg0; apply filter_In; split; [exact Hx0 | apply lN_eqb_refl]).
      rewrite E in Hin. exact Hin. }
    assert (K : exists x, In x g0 /\ g = filter (sigeqb fs x) g0).
    { unfold substep in Hg. destruct g0 as [|y [|z t]]; [congruence | |].
      - destruct Hg as [Hg|[]]. subst g. exists y. split; [left; reflexivity|].
        cbn. rewrite sigeqb_refl. reflexivity.
      - apply IH; [discriminate | exact Hg]. }
    destruct K as [x [Hx Eg]]. exists x.
    assert (Hxb : In x b /\ lN_eqb (f x0) (f x) = true).
    { pose proof Hx as Hx'. rewrite Eg0 in Hx'. exact (proj1 (filter_In _ _ _) Hx'). }
    destruct Hxb as [Hxb Hfx]. split; [exact Hxb|].
    rewrite Eg, Eg0, filter_filter. apply filter_ext. intro r. cbn.
    apply lN_eqb_eq in Hfx. rewrite Hfx. reflexivity.
Qed.

Lemma concat_flat_map_perm {A} (F : list A -> list (list A)) gs :
  (forall g, In g gs -> Permutation (concat (F g)) g) -> Permutation (concat (flat_map F gs)) (concat gs).
Proof.
  induction gs as [|g gs IH]; cbn; intro H; [constructor|].
  rewrite concat_app. apply Permutation_app; [apply H; left; reflexivity | apply IH; intros g' Hg'; apply H; right; exact Hg'].
Qed.

Lemma subclass_perm : forall fs b, Permutation (concat (subclass fs b)) b.
Proof.
  induction fs as [|f fs IH]; intro b.
  - cbn. rewrite app_nil_r. apply Permutation_refl.
  - rewrite subclass_cons. eapply Permutation_trans; [|apply (groups_perm f b)].
    apply concat_flat_map_perm. intros g _. unfold substep.
    destruct g as [|y [|z t]]; try apply IH. cbn. apply Permutation_refl.
Qed.

Definition bsig (fs : list (urec -> list N)) (g : list urec) : option (list (list N)) :=
  match g with [] => None | x :: _ => Some (sig fs x) end.

Lemma substep_char : forall fs g0 g, g0 <> [] -> In g (substep fs g0) ->
  exists x, In x g0 /\ g = filter (sigeqb fs x) g0.
Proof.
  intros fs g0 g Hne Hg. unfold substep in Hg. destruct g0 as [|y [|z t]]; [congruence | |].
  - destruct Hg as [Hg|[]]. subst g. exists y. split; [left; reflexivity|]. cbn. rewrite sigeqb_refl. reflexivity.
  - apply subclass_char; [discriminate | exact Hg].
Qed.

Lemma subclass_nodup : forall fs b, NoDup (map (bsig fs) (subclass fs b)).
Proof.
  induction fs as [|f fs IH]; intro b.
  - cbn. constructor; [intros [] | constructor].
  - rewrite subclass_cons. unfold groups. rewrite flat_map_map, map_flat_map.
    set (G := fun c => filter (fun r => lN_eqb c (f r)) b).
    assert (Hne : forall c, In c (dedup (map f b)) -> G c <> []).
    { intros c Hc E. apply (proj1 (dedup_In _ _)) in Hc. apply in_map_iff in Hc. destruct Hc as [x [Hx Hin]].
      assert (Hi : In x (G c)) by (apply filter_In; split; [exact Hin | subst c; apply lN_eqb_refl]).
      rewrite E in Hi. exact Hi. }
    assert (K : forall c g, In c (dedup (map f b)) -> In g (substep fs (G c)) ->
                bsig (f :: fs) g = option_map (cons c) (bsig fs g) /\ exists t, bsig (f :: fs) g = Some (c :: t)).
    { intros c g Hc Hg. destruct (substep_char fs (G c) g (Hne c Hc) Hg) as [x [Hx Eg]].
      assert (Hxg : In x g) by (rewrite Eg; apply filter_In; split; [exact Hx | apply sigeqb_refl]).
      destruct g as [|x1 g1]; [destruct Hxg|].
      assert (H1 : In x1 (G c)) by (assert (Hi : In x1 (x1 :: g1)) by (left; reflexivity); rewrite Eg in Hi; apply (proj1 (filter_In _ _ _)) in Hi; tauto).
      apply (proj1 (filter_In _ _ _)) in H1. destruct H1 as [_ H1]. apply lN_eqb_eq in H1.
      cbn. rewrite <- H1. split; [reflexivity | eexists; reflexivity]. }
    apply NoDup_flat_map_intro.
    + apply dedup_NoDup.
    + intros c Hc.
      assert (E : map (bsig (f :: fs)) (substep fs (G c)) = map (option_map (cons c)) (map (bsig fs) (substep fs (G c)))).
      { rewrite map_map. apply map_ext_in. intros g Hg. apply (K c g Hc Hg). }
      fold (G c). rewrite E. apply FinFun.Injective_map_NoDup.
      * intros [u|] [v|]; cbn; intro H; congruence.
      * unfold substep. destruct (G c) as [|y [|z t]]; try apply IH. cbn. constructor; [intros [] | constructor].
    + intros c c' s Hc Hc' Hcc Hs Hs'. fold (G c) in Hs. fold (G c') in Hs'.
      apply in_map_iff in Hs. destruct Hs as [g [Eg Hg]].
      apply in_map_iff in Hs'. destruct Hs' as [g' [Eg' Hg']].
      destruct (K c g Hc Hg) as [_ [t Ht]]. destruct (K c' g' Hc' Hg') as [_ [t' Ht']]. congruence.
Qed.

(** * typed values *)
Lemma oZ_eqb_eq : forall a b, oZ_eqb a b = true <-> a = b.
Proof.
  intros [x|] [y|]; cbn; try (split; [discriminate | intro H; inversion H]); [|tauto].
  rewrite Z.eqb_eq. split; [intros; subst; reflexivity | intro H; inversion H; reflexivity].
Qed.

Lemma val_eqb_eq : forall v w, val_eqb v w = true <-> v = w.
Proof.
  intros [t p e s i] [t' p' e' s' i']. unfold val_eqb. cbn [vtag vprint vexact vstat vint].
  rewrite !andb_true_iff, !N.eqb_eq, oZ_eqb_eq. split.
  - intros [[[[A B] C] D] E]. subst. reflexivity.
  - intro H. inversion H. subst. auto.
Qed.

Lemma val_eqb_refl : forall v, val_eqb v v = true.
Proof. intro v. apply val_eqb_eq. reflexivity. Qed.

(** typing hypothesis for a classification attribute c and a pair of records: the printed form (what the classifier
    compares) determines the typed value (what Merge compares) *)
Definition typed_pair (c : N) (x r : urec) : Prop :=
  forall w v', In (c, w) (uann x) -> lookup c (uann r) = Some v' -> vprint w = vprint v' -> w = v'.

Lemma lookup_filter_none {V} (p : N * V -> bool) (m : list (N * V)) c :
  (forall w, p (c, w) = false) -> lookup c (filter p m) = None.
Proof.
  intro H. induction m as [|[k w] t IH]; cbn [filter lookup]; [reflexivity|].
  destruct (p (k, w)) eqn:Ep; [|exact IH]. cbn [lookup]. destruct (c =? k) eqn:E; [|exact IH].
  apply N.eqb_eq in E. subst k. rewrite H in Ep. discriminate.
Qed.

(** * merging a class *)
Section Merge.
  Variable ds : dspec.
  Variable na : N.
  Variable sts : list N.

  (* the merge of a class as a plain fold (what merge1 is when the class has several records, or a count >= 1) *)
  Definition mergef (x : urec) (rest : list urec) : urec := fold_left (merge2 ds na sts) rest (init ds na sts x).

  Lemma merge_class_cons : forall x rest, merge_class ds na sts (x :: rest) = [merge1 ds na sts x rest].
  Proof. reflexivity. Qed.

  Lemma clamp1_pos : forall z, (1 <= z)%Z -> clamp1 z = z.
  Proof. intros z H. unfold clamp1. destruct (z <? 1)%Z eqn:E; [apply Z.ltb_lt in E; lia | reflexivity]. Qed.

  Lemma setcount_pos : forall x, (1 <= ucount x)%Z -> setcount x = x.
  Proof. intros [s c a m] H. unfold setcount. cbn [useq ucount uann umerged] in *. rewrite clamp1_pos by exact H. reflexivity. Qed.

  Lemma merge1_mergef : forall x rest, (1 <= ucount x)%Z -> merge1 ds na sts x rest = mergef x rest.
  Proof. intros x [|r rest] H; unfold merge1, mergef; [rewrite setcount_pos by exact H|]; reflexivity. Qed.

  Lemma clamp1_ge : forall z, (1 <= clamp1 z)%Z.
  Proof. intro z. unfold clamp1. destruct (z <? 1)%Z eqn:E; [lia | apply Z.ltb_ge in E; exact E]. Qed.

  Lemma fold_merge2_ge : forall rest acc, (1 <= ucount acc)%Z -> (1 <= ucount (fold_left (merge2 ds na sts) rest acc))%Z.
  Proof. induction rest as [|r rest IH]; intros acc H; cbn [fold_left]; [exact H|]. apply IH. cbn [merge2 ucount]. apply clamp1_ge. Qed.

  (* SetCount: every output record has a count >= 1, whatever the input *)
  Lemma merge1_count_ge : forall x rest, (1 <= ucount (merge1 ds na sts x rest))%Z.
  Proof.
    intros x [|r rest]; unfold merge1.
    - cbn [init ucount setcount]. apply clamp1_ge.
    - cbn [fold_left]. apply fold_merge2_ge. cbn [merge2 ucount]. apply clamp1_ge.
  Qed.

  Lemma merge1_seq_ann : forall x rest, useq (merge1 ds na sts x rest) = useq (mergef x rest) /\ uann (merge1 ds na sts x rest) = uann (mergef x rest).
  Proof. intros x [|r rest]; split; reflexivity. Qed.

  Lemma fold_merge2_seq : forall rest acc, useq (fold_left (merge2 ds na sts) rest acc) = useq acc.
  Proof. induction rest as [|r rest IH]; intro acc; cbn [fold_left]; [reflexivity | rewrite IH; reflexivity]. Qed.

  Lemma fold_merge2_count : forall rest acc, (1 <= ucount acc)%Z -> (forall r, In r rest -> (1 <= ucount r)%Z) ->
    ucount (fold_left (merge2 ds na sts) rest acc) = (ucount acc + zsum ucount rest)%Z.
  Proof.
    induction rest as [|r rest IH]; intros acc Ha Hr; cbn [fold_left zsum]; [lia|].
    pose proof (Hr r (or_introl eq_refl)) as H1.
    assert (E : ucount (merge2 ds na sts acc r) = (ucount acc + ucount r)%Z) by (cbn [merge2 ucount]; apply clamp1_pos; lia).
    rewrite IH; [rewrite E; lia | rewrite E; lia | intros r' Hr'; apply Hr; right; exact Hr'].
  Qed.

  Lemma mergef_seq : forall x rest, useq (mergef x rest) = useq x.
  Proof. intros. unfold mergef. rewrite fold_merge2_seq. reflexivity. Qed.

  Lemma mergef_count : forall x rest, (forall r, In r (x :: rest) -> (1 <= ucount r)%Z) ->
    ucount (mergef x rest) = zsum ucount (x :: rest).
  Proof.
    intros x rest H. unfold mergef. rewrite fold_merge2_count; [reflexivity | cbn [init ucount]; apply H; left; reflexivity |].
    intros r Hr. apply H. right. exact Hr.
  Qed.

  (* merged_<k> maps *)
  Lemma fold_merge2_stats : forall k v, In k sts -> forall rest acc m,
    lookup k (umerged acc) = Some m ->
    exists m', lookup k (umerged (fold_left (merge2 ds na sts) rest acc)) = Some m' /\
               stat_get v m' = (stat_get v m + zsum (fun r => stat_get v (smap ds na r k)) rest)%Z.
  Proof.
    intros k v Hk. induction rest as [|r rest IH]; intros acc m Hm; cbn [fold_left zsum].
    - exists m. split; [exact Hm | lia].
    - set (m1 := match lookup k (umerged r) with
                 | Some mmk => stat_merge (smap ds na acc k) mmk
                 | None => stat_add (sval na r (fst (ds k))) (wgt ds r k) (smap ds na acc k) end).
      assert (H1 : lookup k (umerged (merge2 ds na sts acc r)) = Some m1).
      { cbn [merge2 umerged]. apply (lookup_map_in (fun k => match lookup k (umerged r) with
                 | Some mmk => stat_merge (smap ds na acc k) mmk
                 | None => stat_add (sval na r (fst (ds k))) (wgt ds r k) (smap ds na acc k) end)). exact Hk. }
      destruct (IH _ _ H1) as [m' [Hm' Hs]]. exists m'. split; [exact Hm'|].
      rewrite Hs. assert (E : stat_get v m1 = (stat_get v m + stat_get v (smap ds na r k))%Z).
      { unfold m1. assert (Ea : smap ds na acc k = m) by (unfold smap; rewrite Hm; reflexivity). rewrite Ea.
        unfold smap at 1. destruct (lookup k (umerged r)) as [mmk|].
        - apply stat_get_merge.
        - rewrite stat_get_add. cbn [stat_get]. lia. }
      lia.
  Qed.

  Lemma mergef_stats : forall k v x rest, In k sts ->
    exists m, lookup k (umerged (mergef x rest)) = Some m /\
              stat_get v m = zsum (fun r => stat_get v (smap ds na r k)) (x :: rest).
  Proof.
    intros k v x rest Hk. unfold mergef.
    assert (H0 : lookup k (umerged (init ds na sts x)) = Some (smap ds na x k)).
    { cbn [init umerged]. apply (lookup_map_in (fun k => smap ds na x k)). exact Hk. }
    destruct (fold_merge2_stats k v Hk rest _ _ H0) as [m [Hm Hs]]. exists m. split; [exact Hm|].
    rewrite Hs. reflexivity.
  Qed.

  (* annotations *)
  Lemma fold_merge2_ann : forall rest acc kv,
    In kv (uann (fold_left (merge2 ds na sts) rest acc)) <->
    In kv (uann acc) /\ forall r, In r rest -> lookup (fst kv) (uann r) = Some (snd kv).
  Proof.
    induction rest as [|r rest IH]; intros acc kv; cbn [fold_left].
    - split; [intro H; split; [exact H | intros r []] | tauto].
    - rewrite IH. cbn [merge2 uann]. rewrite filter_In. unfold agree.
      split.
      + intros [[Ha Hr] Hrest]. split; [exact Ha|]. intros r' [E|Hin]; [|apply Hrest; exact Hin].
        subst r'. destruct (lookup (fst kv) (uann r)) as [v'|]; [|discriminate].
        apply val_eqb_eq in Hr. congruence.
      + intros [Ha Hall]. split; [split; [exact Ha|] | intros r' Hr'; apply Hall; right; exact Hr'].
        rewrite (Hall r (or_introl eq_refl)). apply val_eqb_refl.
  Qed.

  Lemma mergef_ann : forall x rest kv,
    In kv (uann (mergef x rest)) <->
    In kv (uann x) /\ forall r, In r rest -> lookup (fst kv) (uann r) = Some (snd kv).
  Proof. intros. unfold mergef. rewrite fold_merge2_ann. cbn [init uann]. tauto. Qed.

  (* the value of a classification attribute is kept when every member has it *)
  Lemma aval_merge2 : forall acc r c, aval na acc c = aval na r c -> typed_pair c acc r ->
    aval na (merge2 ds na sts acc r) c = aval na acc c.
  Proof.
    intros acc r c. unfold aval, typed_pair. cbn [merge2 uann].
    destruct (lookup c (uann r)) as [v'|] eqn:Er.
    - intros H T. assert (T' : forall w, In (c, w) (uann acc) -> vprint w = vprint v' -> w = v') by (intros w Hw; apply (T w v' Hw eq_refl)).
      clear T. revert T' H.
      induction (uann acc) as [|[k w] t IH]; cbn [lookup filter fst snd]; intros T H; [reflexivity|].
      unfold agree at 1. cbn [fst snd].
      destruct (c =? k) eqn:E.
      + apply N.eqb_eq in E. subst k. rewrite Er.
        assert (Ew : w = v') by (apply T; [left; reflexivity | exact H]). subst w.
        rewrite val_eqb_refl. cbn [lookup]. rewrite N.eqb_refl. reflexivity.
      + assert (T2 : forall w0, In (c, w0) t -> vprint w0 = vprint v' -> w0 = v') by (intros w0 Hw0; apply T; right; exact Hw0).
        destruct (match lookup k (uann r) with Some v'0 => val_eqb w v'0 | None => false end); cbn [lookup]; [rewrite E|]; apply IH; assumption.
    - intros H _. rewrite H. rewrite lookup_filter_none; [reflexivity|].
      intro w. unfold agree. cbn [fst]. rewrite Er. reflexivity.
  Qed.

  Lemma aval_init : forall x c, aval na (init ds na sts x) c = aval na x c.
  Proof. reflexivity. Qed.

  Lemma fold_merge2_sub : forall rest acc kv, In kv (uann (fold_left (merge2 ds na sts) rest acc)) -> In kv (uann acc).
  Proof. intros rest acc kv H. apply fold_merge2_ann in H. apply H. Qed.

  Lemma aval_mergef : forall c x rest, (forall r, In r rest -> aval na r c = aval na x c) ->
    (forall r, In r rest -> typed_pair c x r) ->
    aval na (mergef x rest) c = aval na x c.
  Proof.
    intros c x rest. unfold mergef. rewrite <- (aval_init x c).
    assert (S0 : forall kv, In kv (uann (init ds na sts x)) -> In kv (uann x)) by (intros kv H; exact H).
    revert S0. generalize (init ds na sts x) as acc.
    induction rest as [|r rest IH]; intros acc S0 H T; cbn [fold_left]; [reflexivity|].
    assert (Tacc : typed_pair c acc r).
    { intros w v' Hw. apply (T r (or_introl eq_refl)). apply S0. exact Hw. }
    rewrite IH.
    - apply aval_merge2; [symmetry; apply H; left; reflexivity | exact Tacc].
    - intros kv Hkv. apply S0. cbn [merge2 uann] in Hkv. apply (proj1 (filter_In _ _ _) Hkv).
    - intros r' Hr'. rewrite aval_merge2; [apply H; right; exact Hr' | symmetry; apply H; left; reflexivity | exact Tacc].
    - intros r' Hr'. apply T. right. exact Hr'.
  Qed.
End Merge.

Definition pos_counts (g : list urec) : Prop := forall r, In r g -> (1 <= ucount r)%Z.

Lemma zsum_merge_class : forall ds na sts g, pos_counts g -> zsum ucount (merge_class ds na sts g) = zsum ucount g.
Proof.
  intros ds na sts [|x rest] P; [reflexivity|]. rewrite merge_class_cons. cbn [zsum].
  rewrite merge1_mergef by (apply P; left; reflexivity). rewrite mergef_count by exact P. cbn [zsum]. lia.
Qed.

Lemma zsum_concat {A} (F : A -> Z) (bs : list (list A)) : zsum F (concat bs) = zsum (fun g => zsum F g) bs.
Proof. induction bs as [|g bs IH]; cbn; [reflexivity | rewrite zsum_app, IH; reflexivity]. Qed.

Lemma NoDup_map_filter {A B} (phi : A -> B) (p : A -> bool) l : NoDup (map phi l) -> NoDup (map phi (filter p l)).
Proof.
  induction l as [|x l IH]; cbn; intro H; [constructor|].
  inversion H; subst. destruct (p x); cbn; [constructor|]; auto.
  intro Hin. apply H2. apply in_map_iff in Hin. destruct Hin as [y [Ey Hy]].
  apply in_map_iff. exists y. split; [exact Ey|]. apply (proj1 (filter_In _ _ _) Hy).
Qed.

Lemma in_lookup_iff {V} k (m : list (N * V)) v : NoDup (map fst m) -> (In (k, v) m <-> lookup k m = Some v).
Proof. intro H. split; [apply in_lookup; exact H | apply lookup_in]. Qed.

(** * the whole dereplication *)
Section UniqProofs.
  Variable cats : list N.
  Variable ds : dspec.
  Variable sts : list N.
  Variable na : N.

  (* the key of a record: nucleotides + the values of the category attributes (NA when absent) *)
  Definition key (r : urec) : list N * list N := (useq r, map (aval na r) cats).
  Definition same_key (x r : urec) : bool :=
    lN_eqb (useq x) (useq r) && lN_eqb (map (aval na x) cats) (map (aval na r) cats).

  Lemma same_key_key : forall x r, same_key x r = true <-> key x = key r.
  Proof.
    intros x r. unfold same_key, key. rewrite andb_true_iff, !lN_eqb_eq.
    split; [intros [A B]; congruence | intro H; inversion H; auto].
  Qed.

  Lemma same_key_ext : forall x y, key x = key y -> forall r, same_key x r = same_key y r.
  Proof.
    intros x y E r. apply eq_true_iff_eq. rewrite !same_key_key. rewrite E. tauto.
  Qed.

  Lemma key_aval : forall x y, key x = key y -> forall c, In c cats -> aval na x c = aval na y c.
  Proof. intros x y E c Hc. unfold key in E. inversion E as [[E1 E2]]. apply (ext_in_map E2). exact Hc. Qed.

  (* typing hypothesis on a data set: for the classification attributes, the printed form determines the typed value *)
  Definition typed (l : list urec) : Prop :=
    forall x r c, In x l -> In r l -> In c cats -> typed_pair c x r.

  Lemma typed_perm : forall l l', Permutation l l' -> typed l -> typed l'.
  Proof.
    intros l l' P T x r c Hx Hr Hc. apply T; [apply (Permutation_in _ (Permutation_sym P)); exact Hx | apply (Permutation_in _ (Permutation_sym P)); exact Hr | exact Hc].
  Qed.

  Section WithHash.
  Variable h : list N -> nat.
  Variable nchunks : nat.
  Variable nosingleton : bool.

  Notation LV := (levels h nchunks cats na).
  Notation BATCHES := (batches h nchunks cats na).
  Notation UNIQ := (uniq h nchunks cats ds sts na nosingleton).

  Lemma levels_same_key : forall x r, sigeqb LV x r = same_key x r.
  Proof.
    intros x r. apply eq_true_iff_eq. rewrite sigeqb_sig, same_key_key. unfold sig, levels, key.
    cbn [map]. unfold hash_class. rewrite !map_map. unfold cat_class. split.
    - intro H. inversion H as [[H1 H2 H3]]. f_equal.
      apply map_ext_in. intros c Hc.
      assert (E : [aval na x c] = [aval na r c]) by (apply (ext_in_map H3); apply -> in_rev; exact Hc).
      congruence.
    - intro H. inversion H as [[H1 H2]]. rewrite H1. f_equal. f_equal.
      apply map_ext_in. intros c Hc. f_equal. apply (ext_in_map H2). apply in_rev. exact Hc.
  Qed.

  (* every batch sent to the merge step is a whole class of the input, in arrival order *)
  Lemma batches_char : forall l g, In g (BATCHES l) -> exists x, In x l /\ g = filter (same_key x) l.
  Proof.
    intros l g Hg. unfold batches in Hg.
    destruct l as [|r l]; [cbn in Hg; destruct Hg|].
    destruct (subclass_char LV (r :: l) g) as [x [Hx Eg]]; [discriminate | exact Hg|].
    exists x. split; [exact Hx|]. rewrite Eg. apply filter_ext. apply levels_same_key.
  Qed.

  Lemma same_key_refl : forall x, same_key x x = true.
  Proof. intro x. apply same_key_key. reflexivity. Qed.

  Lemma batches_cover : forall l r, In r l -> exists g, In g (BATCHES l) /\ In r g.
  Proof.
    intros l r Hr. apply (Permutation_in _ (Permutation_sym (subclass_perm LV l))) in Hr.
    apply in_concat in Hr. destruct Hr as [g [Hg Hr]]. exists g. split; assumption.
  Qed.

  Lemma batch_of : forall l r, In r l -> In (filter (same_key r) l) (BATCHES l).
  Proof.
    intros l r Hr. destruct (batches_cover l r Hr) as [g [Hg Hrg]].
    destruct (batches_char l g Hg) as [x [Hx Eg]].
    assert (E : same_key x r = true) by (rewrite Eg in Hrg; apply (proj1 (filter_In _ _ _) Hrg)).
    apply same_key_key in E. rewrite (filter_ext _ _ (same_key_ext _ _ (eq_sym E))). rewrite <- Eg. exact Hg.
  Qed.

  Lemma key_mergef : forall x rest, (forall r, In r rest -> key r = key x) ->
    (forall r c, In r rest -> In c cats -> typed_pair c x r) -> key (mergef ds na sts x rest) = key x.
  Proof.
    intros x rest H T. unfold key. rewrite mergef_seq. f_equal. apply map_ext_in. intros c Hc.
    apply aval_mergef; [intros r Hr; apply key_aval; [apply H; exact Hr | exact Hc] | intros r Hr; apply T; assumption].
  Qed.

  (* the class of a batch head *)
  Lemma class_members : forall l x0 x rest, x :: rest = filter (same_key x0) l ->
    In x l /\ key x = key x0 /\ (forall r, In r rest -> In r l /\ key r = key x) /\ filter (same_key x) l = x :: rest.
  Proof.
    intros l x0 x rest Eg.
    assert (Hmem : forall r, In r (x :: rest) -> In r l /\ key r = key x0).
    { intros r Hr. rewrite Eg in Hr. apply (proj1 (filter_In _ _ _)) in Hr. destruct Hr as [Hl Hr].
      apply same_key_key in Hr. auto. }
    destruct (Hmem x (or_introl eq_refl)) as [Hx Kx].
    split; [exact Hx | split; [exact Kx | split]].
    - intros r Hr. destruct (Hmem r (or_intror Hr)) as [Hl Kr]. split; [exact Hl | congruence].
    - rewrite (filter_ext _ _ (same_key_ext _ _ Kx)). symmetry. exact Eg.
  Qed.

  Lemma key_mergef_class : forall l x rest, typed l -> filter (same_key x) l = x :: rest -> key (mergef ds na sts x rest) = key x.
  Proof.
    intros l x rest T Ef. destruct (class_members l x x rest (eq_sym Ef)) as [Hx [_ [Hm _]]].
    apply key_mergef; [intros r Hr; apply (Hm r Hr) | intros r c Hr Hc; apply T; [exact Hx | apply (Hm r Hr) | exact Hc]].
  Qed.

  Lemma key_seq_ann : forall a b, useq a = useq b -> uann a = uann b -> key a = key b.
  Proof. intros a b E1 E2. unfold key, aval. rewrite E1, E2. reflexivity. Qed.

  Lemma key_merge1_class : forall l x rest, typed l -> filter (same_key x) l = x :: rest -> key (merge1 ds na sts x rest) = key x.
  Proof.
    intros l x rest T Ef. rewrite <- (key_mergef_class l x rest T Ef).
    destruct (merge1_seq_ann ds na sts x rest) as [E1 E2]. apply key_seq_ann; assumption.
  Qed.

  (* members of a class of a data set with counts >= 1 *)
  Lemma class_pos : forall l x rest, pos_counts l -> filter (same_key x) l = x :: rest -> pos_counts (x :: rest).
  Proof. intros l x rest P Ef r Hr. apply P. rewrite <- Ef in Hr. apply (proj1 (filter_In _ _ _) Hr). Qed.

  (* characterisation of the output records: the merge of one whole class (no typing hypothesis) ... *)
  Lemma out_class : forall l o, In o (UNIQ l) ->
    exists x rest, filter (same_key x) l = x :: rest /\ o = merge1 ds na sts x rest /\
                   keep nosingleton (x :: rest) = true /\ In x l.
  Proof.
    intros l o Ho. unfold uniq in Ho. apply in_flat_map in Ho. destruct Ho as [g [Hg Ho]].
    apply filter_In in Hg. destruct Hg as [Hg Hk].
    destruct (batches_char l g Hg) as [x0 [Hx0 Eg]].
    destruct g as [|x rest]; [destruct Ho|]. rewrite merge_class_cons in Ho. destruct Ho as [Ho|[]].
    destruct (class_members l x0 x rest Eg) as [Hx [_ [_ Ef]]].
    exists x, rest. auto.
  Qed.

  (* ... and, on a well typed data set, the record shows the key of its class *)
  Lemma out_char : forall l o, typed l -> In o (UNIQ l) ->
    exists x rest, filter (same_key o) l = x :: rest /\ o = merge1 ds na sts x rest /\
                   keep nosingleton (x :: rest) = true /\ In x l.
  Proof.
    intros l o T Ho. destruct (out_class l o Ho) as [x [rest [Ef [Eo [Hk Hx]]]]].
    exists x, rest. split; [|auto].
    assert (Ko : key o = key x) by (rewrite Eo; apply (key_merge1_class l); assumption).
    rewrite (filter_ext _ _ (same_key_ext _ _ Ko)). exact Ef.
  Qed.

  Lemma out_of_batch : forall l x rest, In (x :: rest) (BATCHES l) -> keep nosingleton (x :: rest) = true ->
    In (merge1 ds na sts x rest) (UNIQ l).
  Proof.
    intros l x rest Hg Hk. unfold uniq. apply in_flat_map. exists (x :: rest). split.
    - apply filter_In. split; assumption.
    - rewrite merge_class_cons. left. reflexivity.
  Qed.

  (* psi (key x) = signature of x along the levels *)
  Definition psi (k : list N * list N) : list (list N) :=
    [N.of_nat (Nat.modulo (h (fst k)) nchunks)] :: fst k :: map (fun v => [v]) (rev (snd k)).

  Lemma psi_key : forall x, psi (key x) = sig LV x.
  Proof.
    intro x. unfold psi, key, sig, levels, hash_class. cbn [fst snd map]. f_equal. f_equal.
    rewrite <- map_rev, !map_map. reflexivity.
  Qed.

  Lemma uniq_keys_nodup : forall l, typed l -> NoDup (map key (UNIQ l)).
  Proof.
    intros l T. apply (NoDup_map_inv (fun k => Some (psi k))). rewrite map_map.
    assert (E : forall bs, (forall g, In g bs -> In g (BATCHES l)) ->
                map (fun o => Some (psi (key o))) (flat_map (merge_class ds na sts) bs) = map (bsig LV) bs).
    { induction bs as [|g bs IH]; intro Hall; [reflexivity|]. cbn [flat_map map]. rewrite map_app, IH.
      - change (bsig LV g :: map (bsig LV) bs) with ([bsig LV g] ++ map (bsig LV) bs). f_equal.
        destruct (batches_char l g (Hall g (or_introl eq_refl))) as [x0 [Hx0 Eg]].
        destruct g as [|x rest].
        + exfalso. assert (Hi : In x0 (filter (same_key x0) l)) by (apply filter_In; split; [exact Hx0 | apply same_key_refl]).
          rewrite <- Eg in Hi. exact Hi.
        + rewrite merge_class_cons. cbn [map bsig]. rewrite <- psi_key.
          assert (Hmem : forall r, In r (x :: rest) -> key r = key x0).
          { intros r Hr. rewrite Eg in Hr. apply (proj1 (filter_In _ _ _)) in Hr. destruct Hr as [_ Hr].
            apply same_key_key in Hr. auto. }
          destruct (class_members l x0 x rest Eg) as [_ [Kx [_ Ef]]].
          rewrite (key_merge1_class l); [rewrite Kx; reflexivity | exact T | exact Ef].
      - intros g' Hg'. apply Hall. right. exact Hg'. }
    unfold uniq. rewrite E.
    - apply NoDup_map_filter. apply subclass_nodup.
    - intros g Hg. apply (proj1 (filter_In _ _ _) Hg).
  Qed.

  Lemma batches_pos : forall l g, pos_counts l -> In g (BATCHES l) -> pos_counts g.
  Proof.
    intros l g P Hg r Hr. destruct (batches_char l g Hg) as [x [_ Eg]]. rewrite Eg in Hr. apply P. apply (proj1 (filter_In _ _ _) Hr).
  Qed.

  Lemma uniq_total : forall l, pos_counts l ->
    (zsum ucount (UNIQ l) + zsum (fun g => zsum ucount g) (filter (fun g => negb (keep nosingleton g)) (BATCHES l)))%Z
    = zsum ucount l.
  Proof.
    intros l P. rewrite <- (zsum_perm ucount _ _ (subclass_perm LV l)). fold (BATCHES l).
    unfold uniq. rewrite zsum_flat_map. rewrite zsum_concat.
    pose proof (batches_pos l) as PB. revert PB.
    induction (BATCHES l) as [|g bs IH]; intro PB; [reflexivity|]. cbn [filter zsum].
    assert (IH' := IH (fun g' P' Hg' => PB g' P' (or_intror Hg'))).
    destruct (keep nosingleton g); cbn [negb zsum]; rewrite ?zsum_merge_class by (apply PB; [exact P | left; reflexivity]); lia.
  Qed.
  End WithHash.
End UniqProofs.

(** * theorem-shaped statements *)
Section Statements.
  Variable cats : list N.
  Variable ds : dspec.
  Variable sts : list N.
  Variable na : N.
  Variable h : list N -> nat.
  Variable nchunks : nat.

  Notation KEY := (key cats na).
  Notation SAME := (same_key cats na).
  Notation UNIQ ns := (uniq h nchunks cats ds sts na ns).
  Notation BATCHES := (batches h nchunks cats na).

  Lemma keep_false : forall g, keep false g = true.
  Proof. reflexivity. Qed.

  Notation TYPED := (typed cats).

  Lemma uniq_keys_exact : forall l k, TYPED l -> (In k (map KEY (UNIQ false l)) <-> In k (map KEY l)).
  Proof.
    intros l k T. rewrite !in_map_iff. split.
    - intros [o [Ek Ho]]. destruct (out_char cats ds sts na h nchunks false l o T Ho) as [x [rest [Ef [Eo [_ Hx]]]]].
      exists x. split; [|exact Hx]. rewrite <- Ek.
      assert (Hi : In x (filter (SAME o) l)) by (rewrite Ef; left; reflexivity).
      apply (proj1 (filter_In _ _ _)) in Hi. destruct Hi as [_ Hi]. apply same_key_key in Hi. auto.
    - intros [r [Ek Hr]]. pose proof (batch_of cats na h nchunks l r Hr) as Hb.
      assert (Hi : In r (filter (SAME r) l)) by (apply filter_In; split; [exact Hr | apply same_key_refl]).
      destruct (filter (SAME r) l) as [|x rest] eqn:Ef; [destruct Hi|].
      exists (merge1 ds na sts x rest). split.
      + rewrite <- Ek. destruct (class_members cats na l r x rest (eq_sym Ef)) as [_ [Kx [_ Ef']]].
        rewrite (key_merge1_class cats ds sts na l x rest T Ef'). exact Kx.
      + apply out_of_batch; [exact Hb | apply keep_false].
  Qed.

  Lemma uniq_count : forall ns l o, pos_counts l -> TYPED l -> In o (UNIQ ns l) -> ucount o = zsum ucount (filter (SAME o) l).
  Proof.
    intros ns l o P T Ho. destruct (out_char cats ds sts na h nchunks ns l o T Ho) as [x [rest [Ef [Eo [_ Hx]]]]].
    rewrite Ef, Eo, merge1_mergef by (apply P; exact Hx). apply mergef_count.
    intros r Hr. apply P. rewrite <- Ef in Hr. apply (proj1 (filter_In _ _ _) Hr).
  Qed.

  Lemma uniq_merged : forall ns l o k, pos_counts l -> TYPED l -> In o (UNIQ ns l) -> In k sts ->
    exists m, lookup k (umerged o) = Some m /\
              forall v, stat_get v m = zsum (fun r => stat_get v (smap ds na r k)) (filter (SAME o) l).
  Proof.
    intros ns l o k P T Ho Hk. destruct (out_char cats ds sts na h nchunks ns l o T Ho) as [x [rest [Ef [Eo [_ Hx]]]]].
    rewrite merge1_mergef in Eo by (apply P; exact Hx).
    destruct (mergef_stats ds na sts k 0 x rest Hk) as [m [Hm _]]. exists m. split; [rewrite Eo; exact Hm|].
    intro v. destruct (mergef_stats ds na sts k v x rest Hk) as [m' [Hm' Hs]]. rewrite Ef. congruence.
  Qed.

  Lemma uniq_total_conserved : forall l, pos_counts l -> zsum ucount (UNIQ false l) = zsum ucount l.
  Proof.
    intros l P. rewrite <- (uniq_total cats ds sts na h nchunks false l P).
    rewrite (filter_false (fun g => negb (keep false g))); [cbn; lia | reflexivity].
  Qed.

  (* --no-singleton *)
  Definition singleton_one (x : urec) (l : list urec) : bool :=
    match filter (SAME x) l with [r] => (ucount r =? 1)%Z | _ => false end.

  Lemma keep_true : forall g, keep true g = negb (match g with [r] => (ucount r =? 1)%Z | _ => false end).
  Proof. reflexivity. Qed.

  Lemma uniq_nosingleton_keys : forall l k, TYPED l ->
    (In k (map KEY (UNIQ true l)) <-> exists x, In x l /\ KEY x = k /\ singleton_one x l = false).
  Proof.
    intros l k T. rewrite in_map_iff. split.
    - intros [o [Ek Ho]]. destruct (out_char cats ds sts na h nchunks true l o T Ho) as [x [rest [Ef [Eo [Hk Hx]]]]].
      assert (Hi : In x (filter (SAME o) l)) by (rewrite Ef; left; reflexivity).
      apply (proj1 (filter_In _ _ _)) in Hi. destruct Hi as [_ Hi]. apply same_key_key in Hi.
      exists x. split; [exact Hx | split; [congruence|]].
      unfold singleton_one. rewrite <- (filter_ext _ _ (same_key_ext cats na _ _ Hi)), Ef.
      rewrite keep_true in Hk. apply negb_true_iff in Hk. exact Hk.
    - intros [r [Hr [Ek Hs]]]. pose proof (batch_of cats na h nchunks l r Hr) as Hb.
      assert (Hi : In r (filter (SAME r) l)) by (apply filter_In; split; [exact Hr | apply same_key_refl]).
      unfold singleton_one in Hs.
      destruct (filter (SAME r) l) as [|x rest] eqn:Ef; [destruct Hi|].
      exists (merge1 ds na sts x rest). split.
      + rewrite <- Ek. destruct (class_members cats na l r x rest (eq_sym Ef)) as [_ [Kx [_ Ef']]].
        rewrite (key_merge1_class cats ds sts na l x rest T Ef'). exact Kx.
      + apply out_of_batch; [exact Hb|]. rewrite keep_true. rewrite Hs. reflexivity.
  Qed.

  (* with counts >= 1, "a class of one record of count 1" is "a class of total count 1" *)
  Lemma zsum_ge {A} (F : A -> Z) l : (forall x, In x l -> (1 <= F x)%Z) -> (Z.of_nat (length l) <= zsum F l)%Z.
  Proof.
    induction l as [|x l IH]; intro H; [cbn; lia|]. cbn [length zsum].
    pose proof (H x (or_introl eq_refl)). assert (Z.of_nat (length l) <= zsum F l)%Z by (apply IH; intros y Hy; apply H; right; exact Hy).
    lia.
  Qed.

  Lemma singleton_one_total : forall l x, (forall r, In r l -> (1 <= ucount r)%Z) -> In x l ->
    (singleton_one x l = true <-> zsum ucount (filter (SAME x) l) = 1%Z).
  Proof.
    intros l x Hpos Hx. unfold singleton_one.
    assert (Hp : forall r, In r (filter (SAME x) l) -> (1 <= ucount r)%Z)
      by (intros r Hr; apply Hpos; apply (proj1 (filter_In _ _ _) Hr)).
    assert (Hi : In x (filter (SAME x) l)) by (apply filter_In; split; [exact Hx | apply same_key_refl]).
    destruct (filter (SAME x) l) as [|a [|b t]]; [destruct Hi | |].
    - cbn [zsum]. rewrite Z.eqb_eq. lia.
    - split; [discriminate|]. intro H. pose proof (zsum_ge ucount _ Hp) as G. cbn [length] in G. lia.
  Qed.

  Lemma uniq_total_nosingleton : forall l, pos_counts l ->
    (zsum ucount (UNIQ true l) + Z.of_nat (length (filter (fun g => negb (keep true g)) (BATCHES l))))%Z = zsum ucount l.
  Proof.
    intros l P. rewrite <- (uniq_total cats ds sts na h nchunks true l P). f_equal.
    induction (BATCHES l) as [|g bs IH]; [reflexivity|]. cbn [filter].
    destruct (keep true g) eqn:Ek; cbn [negb]; [exact IH|].
    cbn [length zsum]. rewrite <- IH. rewrite keep_true in Ek. apply negb_false_iff in Ek.
    destruct g as [|a [|b t]]; try discriminate. apply Z.eqb_eq in Ek. cbn [zsum]. lia.
  Qed.

  (* what is dropped: whole classes of one record of count 1 *)
  Lemma dropped_char : forall l g, In g (filter (fun g => negb (keep true g)) (BATCHES l)) ->
    exists r, g = [r] /\ In r l /\ ucount r = 1%Z /\ filter (SAME r) l = [r].
  Proof.
    intros l g Hg. apply filter_In in Hg. destruct Hg as [Hg Hk].
    rewrite keep_true in Hk. rewrite negb_involutive in Hk.
    destruct g as [|a [|b t]]; try discriminate. apply Z.eqb_eq in Hk.
    destruct (batches_char cats na h nchunks l [a] Hg) as [x [Hx Eg]].
    assert (Hi : In a (filter (SAME x) l)) by (rewrite <- Eg; left; reflexivity).
    apply (proj1 (filter_In _ _ _)) in Hi. destruct Hi as [Ha Hs]. apply same_key_key in Hs.
    exists a. split; [reflexivity | split; [exact Ha | split; [exact Hk|]]].
    rewrite (filter_ext _ _ (same_key_ext cats na _ _ (eq_sym Hs))). symmetry. exact Eg.
  Qed.

  (* surviving annotations *)
  Definition wf (r : urec) : Prop := NoDup (map fst (uann r)).

  Lemma uniq_ann : forall ns l o k v, TYPED l -> (forall r, In r l -> wf r) -> In o (UNIQ ns l) ->
    (In (k, v) (uann o) <-> forall r, In r (filter (SAME o) l) -> lookup k (uann r) = Some v).
  Proof.
    intros ns l o k v T Hwf Ho. destruct (out_char cats ds sts na h nchunks ns l o T Ho) as [x [rest [Ef [Eo [_ Hx]]]]].
    rewrite Ef, Eo. rewrite (proj2 (merge1_seq_ann ds na sts x rest)), (mergef_ann ds na sts x rest (k, v)). cbn [fst snd].
    rewrite (in_lookup_iff k (uann x) v (Hwf x Hx)). split.
    - intros [H1 H2] r [E|Hr]; [subst r; exact H1 | apply H2; exact Hr].
    - intro H. split; [apply H; left; reflexivity | intros r Hr; apply H; right; exact Hr].
  Qed.
End Statements.

(** * independence of arrival order, hash function and number of chunks *)
Section Independence.
  Variable cats : list N.
  Variable ds : dspec.
  Variable sts : list N.
  Variable na : N.

  Notation KEY := (key cats na).
  Notation SAME := (same_key cats na).

  (* the projection the property speaks about: sequence, category values, count, requested merged maps
     (as functions value -> weight), surviving annotations (as a set) — not the id of the first member *)
  Definition same_proj (o o' : urec) : Prop :=
    useq o = useq o' /\ map (aval na o) cats = map (aval na o') cats /\ ucount o = ucount o' /\
    (forall k, In k sts -> exists m m', lookup k (umerged o) = Some m /\ lookup k (umerged o') = Some m' /\
                                        forall v, stat_get v m = stat_get v m') /\
    (forall kv, In kv (uann o) <-> In kv (uann o')).

  Lemma keep_perm : forall ns g g', Permutation g g' -> keep ns g = keep ns g'.
  Proof.
    intros ns g g' P. unfold keep. f_equal. f_equal.
    pose proof (Permutation_length P) as L.
    destruct g as [|a [|b t]], g' as [|a' [|b' t']]; cbn in L; try discriminate; try reflexivity.
    apply Permutation_length_1 in P. subst a'. reflexivity.
  Qed.

  Lemma uniq_independent : forall h n h' n' ns l l', Permutation l l' -> pos_counts l -> typed cats l -> (forall r, In r l -> wf r) ->
    forall o, In o (uniq h n cats ds sts na ns l) ->
    exists o', In o' (uniq h' n' cats ds sts na ns l') /\ same_proj o o'.
  Proof.
    intros h n h' n' ns l l' P PC T Hwf o Ho.
    assert (PC' : pos_counts l') by (intros r Hr; apply PC; apply (Permutation_in _ (Permutation_sym P)); exact Hr).
    pose proof (typed_perm cats l l' P T) as T'.
    destruct (out_char cats ds sts na h n ns l o T Ho) as [x [rest [Ef [Eo [Hk Hx]]]]].
    assert (Hx' : In x l') by (apply (Permutation_in _ P); exact Hx).
    assert (Kx : KEY x = KEY o).
    { assert (Hi : In x (filter (SAME o) l)) by (rewrite Ef; left; reflexivity).
      apply (proj1 (filter_In _ _ _)) in Hi. destruct Hi as [_ Hi]. apply same_key_key in Hi. auto. }
    pose proof (batch_of cats na h' n' l' x Hx') as Hb.
    rewrite (filter_ext _ _ (same_key_ext cats na _ _ Kx)) in Hb.
    pose proof (Permutation_filter (SAME o) _ _ P) as Pg. rewrite Ef in Pg.
    destruct (filter (SAME o) l') as [|x' rest'] eqn:Ef'; [apply Permutation_sym, Permutation_nil in Pg; discriminate|].
    assert (Hk' : keep ns (x' :: rest') = true) by (rewrite <- (keep_perm ns _ _ Pg); exact Hk).
    exists (merge1 ds na sts x' rest'). split; [apply out_of_batch; assumption|].
    assert (Px : pos_counts (x :: rest)) by (apply (class_pos cats na l x rest PC); rewrite <- Ef; apply filter_ext; intro r; apply same_key_ext; exact Kx).
    assert (Hx'l : In x' l') by (assert (Hi : In x' (filter (SAME o) l')) by (rewrite Ef'; left; reflexivity); apply (proj1 (filter_In _ _ _) Hi)).
    assert (Px' : pos_counts (x' :: rest')) by (intros r Hr; apply PC'; rewrite <- Ef' in Hr; apply (proj1 (filter_In _ _ _) Hr)).
    rewrite merge1_mergef in Eo by (apply PC; exact Hx).
    rewrite (merge1_mergef ds na sts x' rest') by (apply PC'; exact Hx'l).
    assert (Hmem : forall r, In r (x :: rest) -> KEY r = KEY o).
    { intros r Hr. rewrite <- Ef in Hr. apply (proj1 (filter_In _ _ _)) in Hr. destruct Hr as [_ Hr].
      apply same_key_key in Hr. auto. }
    assert (Hmem' : forall r, In r (x' :: rest') -> KEY r = KEY o).
    { intros r Hr. apply Hmem. apply (Permutation_in _ (Permutation_sym Pg)). exact Hr. }
    assert (Ko' : KEY (mergef ds na sts x' rest') = KEY o).
    { destruct (class_members cats na l' o x' rest' (eq_sym Ef')) as [_ [Kx' [_ Ef'']]].
      rewrite (key_mergef_class cats ds sts na l' x' rest' T' Ef''). exact Kx'. }
    unfold same_proj. rewrite Eo at 1 2 3. rewrite !mergef_seq, !mergef_count by assumption.
    assert (Kxx : KEY x = KEY x') by (rewrite Kx; symmetry; apply Hmem'; left; reflexivity).
    split; [unfold key in Kxx; congruence|].
    split; [unfold key in Ko'; rewrite <- Eo; inversion Ko'; congruence|].
    split; [apply zsum_perm; exact Pg|].
    split.
    - intros k Hk0. destruct (mergef_stats ds na sts k 0 x rest Hk0) as [m [Hm _]].
      destruct (mergef_stats ds na sts k 0 x' rest' Hk0) as [m' [Hm' _]].
      exists m, m'. split; [rewrite Eo; exact Hm | split; [exact Hm'|]].
      intro v. destruct (mergef_stats ds na sts k v x rest Hk0) as [m1 [Hm1 Hs1]].
      destruct (mergef_stats ds na sts k v x' rest' Hk0) as [m1' [Hm1' Hs1']].
      assert (m1 = m) by congruence. assert (m1' = m') by congruence. subst m1 m1'.
      rewrite Hs1, Hs1'. apply zsum_perm. exact Pg.
    - intros [k v]. rewrite Eo.
      assert (Hwf' : forall r, In r l' -> wf r) by (intros r Hr; apply Hwf; apply (Permutation_in _ (Permutation_sym P)); exact Hr).
      rewrite (mergef_ann ds na sts x rest (k, v)), (mergef_ann ds na sts x' rest' (k, v)). cbn [fst snd].
      assert (Hxl' : In x' l').
      { assert (Hi : In x' (filter (SAME o) l')) by (rewrite Ef'; left; reflexivity). apply (proj1 (filter_In _ _ _) Hi). }
      rewrite (in_lookup_iff k (uann x) v (Hwf x Hx)), (in_lookup_iff k (uann x') v (Hwf' x' Hxl')).
      assert (A : forall g g' : list urec, Permutation g g' ->
                  (forall r, In r g -> lookup k (uann r) = Some v) -> forall r, In r g' -> lookup k (uann r) = Some v).
      { intros g g' Pgg H r Hr. apply H. apply (Permutation_in _ (Permutation_sym Pgg)). exact Hr. }
      split; intros [H1 H2].
      + assert (H : forall r, In r (x :: rest) -> lookup k (uann r) = Some v) by (intros r [E|Hr]; [subst r; exact H1 | apply H2; exact Hr]).
        pose proof (A _ _ Pg H) as H'. split; [apply H'; left; reflexivity | intros r Hr; apply H'; right; exact Hr].
      + assert (H : forall r, In r (x' :: rest') -> lookup k (uann r) = Some v) by (intros r [E|Hr]; [subst r; exact H1 | apply H2; exact Hr]).
        pose proof (A _ _ (Permutation_sym Pg) H) as H'. split; [apply H'; left; reflexivity | intros r Hr; apply H'; right; exact Hr].
  Qed.

  Lemma uniq_order_independent : forall h n ns l l', Permutation l l' -> pos_counts l -> typed cats l -> (forall r, In r l -> wf r) ->
    forall o, In o (uniq h n cats ds sts na ns l) ->
    exists o', In o' (uniq h n cats ds sts na ns l') /\ same_proj o o'.
  Proof. intros h n. exact (uniq_independent h n h n). Qed.
End Independence.

(** * obidemerge *)
Lemma typed_nil : forall l, typed [] l.
Proof. intros l x r c _ _ []. Qed.

Section Demerge.
  Variable na : N.
  Variable k : N.

  Lemma lookup_mremove {V} : forall (m : list (N * V)), lookup k (mremove k m) = None.
  Proof.
    induction m as [|[k' v] t IH]; cbn [mremove lookup]; [reflexivity|].
    destruct (k =? k') eqn:E; [exact IH | cbn [lookup]; rewrite E; exact IH].
  Qed.

  Lemma demerge1_seq : forall r r', In r' (demerge1 k r) -> useq r' = useq r.
  Proof.
    intros r r' H. unfold demerge1 in H. destruct (lookup k (umerged r)) as [m|].
    - apply in_map_iff in H. destruct H as [vw [E _]]. subst r'. reflexivity.
    - destruct H as [H|[]]. subst r'. reflexivity.
  Qed.

  Lemma zsum_map {A B} (F : B -> Z) (G : A -> B) l : zsum F (map G l) = zsum (fun a => F (G a)) l.
  Proof. induction l as [|a l IH]; cbn; [reflexivity | rewrite IH; reflexivity]. Qed.

  (* the demerged copies of a record contribute exactly its map to the next dereplication *)
  Lemma demerge1_contrib : forall r m v, lookup k (umerged r) = Some m ->
    (forall vw, In vw m -> (1 <= snd vw)%Z) ->
    zsum (fun r' => stat_get v (smap dflt na r' k)) (demerge1 k r) = stat_get v m.
  Proof.
    intros r m v Hm Hpos. unfold demerge1. rewrite Hm. rewrite zsum_map.
    clear Hm. induction m as [|[v' w] t IH]; cbn [zsum stat_get]; [reflexivity|].
    rewrite IH; [|intros vw Hvw; apply Hpos; right; exact Hvw]. f_equal.
    unfold smap. cbn [umerged]. rewrite lookup_mremove. unfold sval, wgt, dflt. cbn [uann lookup fst snd ucount strval vstat]. rewrite N.eqb_refl.
    pose proof (Hpos (v', w) (or_introl eq_refl)) as Hw. cbn [snd] in Hw.
    rewrite clamp1_pos by exact Hw. cbn [stat_get strval vstat]. lia.
  Qed.

  Lemma demerge1_count : forall r m, lookup k (umerged r) = Some m ->
    (forall vw, In vw m -> (1 <= snd vw)%Z) -> zsum ucount (demerge1 k r) = zsum snd m.
  Proof.
    intros r m Hm Hpos. unfold demerge1. rewrite Hm. rewrite zsum_map.
    clear Hm. induction m as [|[v' w] t IH]; cbn [zsum]; [reflexivity|].
    rewrite IH; [|intros vw Hvw; apply Hpos; right; exact Hvw]. f_equal. cbn [ucount snd].
    pose proof (Hpos (v', w) (or_introl eq_refl)) as Hw. cbn [snd] in Hw.
    rewrite clamp1_pos by exact Hw. reflexivity.
  Qed.

  Lemma filter_flat_map {A B} (p : B -> bool) (F : A -> list B) l : filter p (flat_map F l) = flat_map (fun a => filter p (F a)) l.
  Proof. induction l as [|a l IH]; cbn; [reflexivity | rewrite filter_app, IH; reflexivity]. Qed.

  Lemma filter_demerge_none : forall (outs : list urec) (s : list N) (p : urec -> bool),
    (forall o, In o outs -> useq o <> s) -> (forall r, useq r <> s -> p r = false) ->
    flat_map (fun a => filter p (demerge1 k a)) outs = [].
  Proof.
    induction outs as [|o outs IH]; intros s p Hall Hno; [reflexivity|]. cbn [flat_map].
    rewrite filter_false.
    - cbn. apply (IH s); [intros o' Ho'; apply Hall; right; exact Ho' | exact Hno].
    - intros r Hr. apply Hno. rewrite (demerge1_seq _ _ Hr). apply Hall. left. reflexivity.
  Qed.

  (* in a list without two records of the same sequence, the demerged records of a given sequence all come from one record *)
  Lemma filter_demerge_unique : forall (outs : list urec) o1 (p : urec -> bool),
    NoDup (map useq outs) -> In o1 outs ->
    (forall r, useq r = useq o1 -> p r = true) -> (forall r, useq r <> useq o1 -> p r = false) ->
    filter p (demerge k outs) = demerge1 k o1.
  Proof.
    intros outs o1 p Hnd Hin Hyes Hno. unfold demerge. rewrite filter_flat_map.
    induction outs as [|o outs IH]; [destruct Hin|]. cbn [flat_map]. cbn [map] in Hnd. inversion Hnd as [|s0 l0 Hnotin Hnd']; subst.
    destruct Hin as [E|Hin].
    - subst o. rewrite filter_true; [|intros r Hr; apply Hyes; apply demerge1_seq; exact Hr].
      rewrite (filter_demerge_none outs (useq o1) p); [apply app_nil_r | | exact Hno].
      intros o Ho Hc. apply Hnotin. rewrite <- Hc. apply in_map. exact Ho.
    - rewrite filter_false.
      + cbn. apply IH; assumption.
      + intros r Hr. apply Hno. rewrite (demerge1_seq _ _ Hr). intro Hc. apply Hnotin. rewrite Hc. apply in_map. exact Hin.
  Qed.

  Lemma uniq_out_pos : forall cats ds sts h n ns l, pos_counts (uniq h n cats ds sts na ns l).
  Proof.
    intros cats ds sts h n ns l o Ho. destruct (out_class cats ds sts na h n ns l o Ho) as [x [rest [_ [Eo _]]]].
    rewrite Eo. apply merge1_count_ge.
  Qed.

  Lemma demerge_pos : forall outs, pos_counts outs -> pos_counts (demerge k outs).
  Proof.
    intros outs P r Hr. unfold demerge in Hr. apply in_flat_map in Hr. destruct Hr as [o [Ho Hr]].
    unfold demerge1 in Hr. destruct (lookup k (umerged o)) as [m|].
    - apply in_map_iff in Hr. destruct Hr as [vw [E _]]. subst r. cbn [ucount]. apply clamp1_ge.
    - destruct Hr as [E|[]]. subst r. apply P. exact Ho.
  Qed.

  (* obiuniq -m k | obidemerge -d k | obiuniq -m k  =  obiuniq -m k  on (sequence, merged_<k> map, total of the map) *)
  Lemma demerge_inverse : forall h n h' n' l, pos_counts l ->
    let out1 := uniq h n [] dflt [k] na false l in
    (forall o m vw, In o out1 -> lookup k (umerged o) = Some m -> In vw m -> (1 <= snd vw)%Z) ->
    forall o2, In o2 (uniq h' n' [] dflt [k] na false (demerge k out1)) ->
    exists o1 m1 m2, In o1 out1 /\ useq o2 = useq o1 /\
      lookup k (umerged o1) = Some m1 /\ lookup k (umerged o2) = Some m2 /\
      (forall v, stat_get v m2 = stat_get v m1) /\ ucount o2 = zsum snd m1.
  Proof.
    intros h n h' n' l PC out1 Hpos o2 Ho2.
    assert (PC2 : pos_counts (demerge k out1)) by (apply demerge_pos; apply uniq_out_pos).
    destruct (out_char [] dflt [k] na h' n' false _ o2 (typed_nil _) Ho2) as [x2 [rest2 [Ef [Eo [_ Hx2]]]]].
    unfold demerge in Hx2. apply in_flat_map in Hx2. destruct Hx2 as [o1 [Ho1 Hx2]].
    assert (Hk : In k [k]) by (left; reflexivity).
    destruct (uniq_merged [] dflt [k] na h n false l o1 k PC (typed_nil _) Ho1 Hk) as [m1 [Hm1 _]].
    destruct (uniq_merged [] dflt [k] na h' n' false _ o2 k PC2 (typed_nil _) Ho2 Hk) as [m2 [Hm2 Hs2]].
    assert (Hseq : useq o2 = useq o1).
    { rewrite Eo, (proj1 (merge1_seq_ann dflt na [k] x2 rest2)), mergef_seq. apply demerge1_seq. exact Hx2. }
    assert (Hnd : NoDup (map useq out1)).
    { pose proof (uniq_keys_nodup [] dflt [k] na h n false l (typed_nil _)) as H. fold out1 in H.
      apply (NoDup_map_inv (fun s => (s, @nil N))). rewrite map_map. exact H. }
    assert (Ecls : filter (same_key [] na o2) (demerge k out1) = demerge1 k o1).
    { apply filter_demerge_unique; auto.
      - intros r Hr. unfold same_key. cbn [map]. rewrite Hseq, <- Hr, lN_eqb_refl. reflexivity.
      - intros r Hr. unfold same_key. cbn [map]. rewrite Hseq.
        destruct (lN_eqb (useq o1) (useq r)) eqn:E; [apply lN_eqb_eq in E; congruence | reflexivity]. }
    exists o1, m1, m2. repeat split; auto.
    - intro v. rewrite Hs2, Ecls. apply demerge1_contrib; [exact Hm1|]. intros vw Hvw. exact (Hpos o1 m1 vw Ho1 Hm1 Hvw).
    - rewrite (uniq_count [] dflt [k] na h' n' false _ o2 PC2 (typed_nil _) Ho2), Ecls.
      apply demerge1_count; [exact Hm1|]. intros vw Hvw. exact (Hpos o1 m1 vw Ho1 Hm1 Hvw).
  Qed.

  (* nothing is lost by the round trip: every record with a non-empty map is found again *)
  Lemma demerge_inverse_onto : forall h n h' n' l o1 m1,
    In o1 (uniq h n [] dflt [k] na false l) -> lookup k (umerged o1) = Some m1 -> m1 <> [] ->
    exists o2, In o2 (uniq h' n' [] dflt [k] na false (demerge k (uniq h n [] dflt [k] na false l))) /\ useq o2 = useq o1.
  Proof.
    intros h n h' n' l o1 m1 Ho1 Hm1 Hne.
    destruct m1 as [|vw t]; [congruence|].
    set (r := mkrec (useq o1) (if (snd vw <? 1)%Z then 1%Z else snd vw) ((k, strval (fst vw)) :: mremove k (uann o1)) (mremove k (umerged o1))).
    assert (Hr : In r (demerge k (uniq h n [] dflt [k] na false l))).
    { unfold demerge. apply in_flat_map. exists o1. split; [exact Ho1|]. unfold demerge1. rewrite Hm1. left. reflexivity. }
    assert (Hkey : In (key [] na r) (map (key [] na) (demerge k (uniq h n [] dflt [k] na false l)))) by (apply in_map; exact Hr).
    apply (uniq_keys_exact [] dflt [k] na h' n' _ _ (typed_nil _)) in Hkey. apply in_map_iff in Hkey. destruct Hkey as [o2 [Ek Ho2]].
    exists o2. split; [exact Ho2|]. unfold key in Ek. inversion Ek. reflexivity.
  Qed.
End Demerge.

(** * positivity: counts >= 1 and weights >= 1 on the input give weights >= 1 on the output *)
Definition pos_stats (m : stats) : Prop := forall vw, In vw m -> (1 <= snd vw)%Z.
Definition pos_rec (r : urec) : Prop := (1 <= ucount r)%Z /\ forall k m, In (k, m) (umerged r) -> pos_stats m.

Lemma stat_add_pos : forall v w m, (1 <= w)%Z -> pos_stats m -> pos_stats (stat_add v w m).
Proof.
  intros v w m Hw. induction m as [|[x wx] t IH]; intros Hm vw Hvw; cbn [stat_add] in Hvw.
  - destruct Hvw as [E|[]]. subst vw. exact Hw.
  - assert (Hx : (1 <= wx)%Z) by (apply (Hm (x, wx)); left; reflexivity).
    assert (Ht : pos_stats t) by (intros y Hy; apply Hm; right; exact Hy).
    destruct (v =? x); destruct Hvw as [E|Hin].
    + subst vw. cbn. lia.
    + apply Ht. exact Hin.
    + subst vw. exact Hx.
    + apply (IH Ht). exact Hin.
Qed.

Lemma stat_merge_pos : forall m2 m, pos_stats m -> pos_stats m2 -> pos_stats (stat_merge m m2).
Proof.
  unfold stat_merge. induction m2 as [|[x w] t IH]; intros m Hm H2; cbn [fold_left fst snd]; [exact Hm|].
  apply IH.
  - apply stat_add_pos; [apply (H2 (x, w)); left; reflexivity | exact Hm].
  - intros y Hy. apply H2. right. exact Hy.
Qed.

(* descriptors without weight attribute: the weight of a record is its count *)
Definition unweighted (ds : dspec) (sts : list N) : Prop := forall k, In k sts -> snd (ds k) = None.

Lemma wgt_unweighted : forall ds r k, snd (ds k) = None -> wgt ds r k = ucount r.
Proof. intros ds r k H. unfold wgt. rewrite H. reflexivity. Qed.

Lemma unweighted_dflt : forall sts, unweighted dflt sts.
Proof. intros sts k _. reflexivity. Qed.

Lemma smap_pos : forall ds na r k, snd (ds k) = None -> pos_rec r -> pos_stats (smap ds na r k).
Proof.
  intros ds na r k U [Hc Hm]. unfold smap. destruct (lookup k (umerged r)) as [m|] eqn:E.
  - apply (Hm k). apply lookup_in. exact E.
  - intros vw [Ev|[]]. subst vw. cbn [snd]. rewrite wgt_unweighted; assumption.
Qed.

Lemma in_others : forall ks m kv, In kv (others ks m) -> In kv m.
Proof. intros ks m kv H. unfold others in H. apply (proj1 (filter_In _ _ _) H). Qed.

Lemma init_pos : forall ds na sts r, unweighted ds sts -> pos_rec r -> pos_rec (init ds na sts r).
Proof.
  intros ds na sts r U Hr. split; [apply Hr|]. intros k m Hin. cbn [init umerged] in Hin.
  apply in_app_or in Hin. destruct Hin as [Hin|Hin].
  - apply in_map_iff in Hin. destruct Hin as [k' [E Hk']]. inversion E; subst. apply smap_pos; [apply U; exact Hk' | exact Hr].
  - apply in_others in Hin. apply (proj2 Hr k). exact Hin.
Qed.

Lemma merge2_pos : forall ds na sts acc r, unweighted ds sts -> pos_rec acc -> pos_rec r -> pos_rec (merge2 ds na sts acc r).
Proof.
  intros ds na sts acc r U Ha Hr. split; [cbn [merge2 ucount]; apply clamp1_ge|].
  intros k m Hin. cbn [merge2 umerged] in Hin. apply in_app_or in Hin. destruct Hin as [Hin|Hin].
  - apply in_map_iff in Hin. destruct Hin as [k' [E Hk']]. inversion E; subst. clear E.
    destruct (lookup k (umerged r)) as [mmk|] eqn:El.
    + apply stat_merge_pos; [apply smap_pos; [apply U; exact Hk' | exact Ha] | apply (proj2 Hr k); apply lookup_in; exact El].
    + apply stat_add_pos; [rewrite wgt_unweighted; [apply Hr | apply U; exact Hk'] | apply smap_pos; [apply U; exact Hk' | exact Ha]].
  - apply in_others in Hin. apply (proj2 Ha k). exact Hin.
Qed.

Lemma mergef_pos : forall ds na sts x rest, unweighted ds sts -> pos_rec x -> (forall r, In r rest -> pos_rec r) -> pos_rec (mergef ds na sts x rest).
Proof.
  intros ds na sts x rest U Hx. unfold mergef. pose proof (init_pos ds na sts x U Hx) as H0. revert H0. generalize (init ds na sts x) as acc.
  induction rest as [|r rest IH]; intros acc Ha Hall; cbn [fold_left]; [exact Ha|].
  apply IH; [apply merge2_pos; [exact U | exact Ha | apply Hall; left; reflexivity] | intros r' Hr'; apply Hall; right; exact Hr'].
Qed.

Lemma uniq_pos : forall cats ds sts na h n ns l, unweighted ds sts -> (forall r, In r l -> pos_rec r) ->
  forall o, In o (uniq h n cats ds sts na ns l) -> pos_rec o.
Proof.
  intros cats ds sts na h n ns l U Hl o Ho.
  destruct (out_class cats ds sts na h n ns l o Ho) as [x [rest [Ef [Eo [_ Hx]]]]].
  assert (Hmem : forall r, In r (x :: rest) -> In r l) by (intros r Hr; rewrite <- Ef in Hr; apply (proj1 (filter_In _ _ _) Hr)).
  rewrite Eo, merge1_mergef by (apply (proj1 (Hl x Hx))).
  apply mergef_pos; [exact U | apply Hl; exact Hx | intros r Hr; apply Hl; apply Hmem; right; exact Hr].
Qed.

Lemma demerge_inverse_pos : forall na k h n h' n' l,
  (forall r, In r l -> pos_rec r) ->
  forall o2, In o2 (uniq h' n' [] dflt [k] na false (demerge k (uniq h n [] dflt [k] na false l))) ->
  exists o1 m1 m2, In o1 (uniq h n [] dflt [k] na false l) /\ useq o2 = useq o1 /\
    lookup k (umerged o1) = Some m1 /\ lookup k (umerged o2) = Some m2 /\
    (forall v, stat_get v m2 = stat_get v m1) /\ ucount o2 = zsum snd m1.
Proof.
  intros na k h n h' n' l Hl o2 Ho2. apply (demerge_inverse na k h n h' n' l); [intros r Hr; apply (proj1 (Hl r Hr)) | | exact Ho2].
  intros o m vw Ho Hm Hvw. destruct (uniq_pos [] dflt [k] na h n false l (unweighted_dflt _) Hl o Ho) as [_ Hp].
  apply (Hp k m); [apply lookup_in; exact Hm | exact Hvw].
Qed.

(** * totals of the merged_<k> maps *)
Lemma stat_add_total : forall v w m, zsum snd (stat_add v w m) = (zsum snd m + w)%Z.
Proof.
  intros v w m. induction m as [|[x wx] t IH]; cbn [stat_add zsum snd]; [lia|].
  destruct (v =? x); cbn [zsum snd]; [lia | rewrite IH; lia].
Qed.

Lemma stat_merge_total : forall m2 m, zsum snd (stat_merge m m2) = (zsum snd m + zsum snd m2)%Z.
Proof.
  unfold stat_merge. induction m2 as [|[x w] t IH]; intro m; cbn [fold_left zsum fst snd]; [lia|].
  rewrite IH, stat_add_total. lia.
Qed.

(* total weight a record brings to slot k: the total of its own map, or its weight *)
Definition wcontrib (ds : dspec) (na : N) (k : N) (r : urec) : Z := zsum snd (smap ds na r k).

Lemma wcontrib_raw : forall ds na k r, lookup k (umerged r) = None -> wcontrib ds na k r = wgt ds r k.
Proof. intros ds na k r H. unfold wcontrib, smap. rewrite H. cbn [zsum snd]. lia. Qed.

(* conservation of the total weight inside a class (weighted or not) *)
Lemma mergef_wtotal : forall ds na sts k x rest, In k sts ->
  exists m, lookup k (umerged (mergef ds na sts x rest)) = Some m /\ zsum snd m = zsum (wcontrib ds na k) (x :: rest).
Proof.
  intros ds na sts k x rest Hk. unfold mergef. cbn [zsum].
  assert (H0 : exists m, lookup k (umerged (init ds na sts x)) = Some m /\ zsum snd m = wcontrib ds na k x).
  { exists (smap ds na x k). split; [cbn [init umerged]; apply (lookup_map_in (fun k => smap ds na x k)); exact Hk | reflexivity]. }
  revert H0. generalize (wcontrib ds na k x) as t0. generalize (init ds na sts x) as acc.
  induction rest as [|r rest IH]; intros acc t0 [m [Hm Ht]]; cbn [fold_left zsum]; [exists m; split; [exact Hm | lia]|].
  destruct (IH (merge2 ds na sts acc r) (t0 + wcontrib ds na k r)%Z) as [m' [Hm' Ht']].
  - set (F := fun k => match lookup k (umerged r) with
                       | Some mmk => stat_merge (smap ds na acc k) mmk
                       | None => stat_add (sval na r (fst (ds k))) (wgt ds r k) (smap ds na acc k) end).
    exists (F k). split; [cbn [merge2 umerged]; apply (lookup_map_in F); exact Hk|].
    unfold F. assert (Ea : smap ds na acc k = m) by (unfold smap; rewrite Hm; reflexivity). rewrite Ea.
    unfold wcontrib, smap. destruct (lookup k (umerged r)) as [mmk|].
    + rewrite stat_merge_total, Ht. reflexivity.
    + rewrite stat_add_total, Ht. cbn [zsum snd]. lia.
  - exists m'. split; [exact Hm' | lia].
Qed.

Definition mtotal (k : N) (o : urec) : Z := match lookup k (umerged o) with Some m => zsum snd m | None => 0%Z end.

Lemma uniq_class_wtotal : forall cats ds sts na h n ns l k, In k sts -> pos_counts l ->
  forall o, In o (uniq h n cats ds sts na ns l) ->
  exists x m, In x l /\ useq o = useq x /\ lookup k (umerged o) = Some m /\
              zsum snd m = zsum (wcontrib ds na k) (filter (same_key cats na x) l).
Proof.
  intros cats ds sts na h n ns l k Hk P o Ho.
  destruct (out_class cats ds sts na h n ns l o Ho) as [x [rest [Ef [Eo [_ Hx]]]]].
  rewrite merge1_mergef in Eo by (apply P; exact Hx).
  destruct (mergef_wtotal ds na sts k x rest Hk) as [m [Hm Ht]].
  exists x, m. split; [exact Hx | split; [rewrite Eo; apply mergef_seq | split; [rewrite Eo; exact Hm | rewrite Ef; exact Ht]]].
Qed.

(* conservation of the total weight over the whole data set *)
Lemma uniq_weight_conserved : forall cats ds sts na h n l k, In k sts -> pos_counts l ->
  zsum (mtotal k) (uniq h n cats ds sts na false l) = zsum (wcontrib ds na k) l.
Proof.
  intros cats ds sts na h n l k Hk P.
  rewrite <- (zsum_perm (wcontrib ds na k) _ _ (subclass_perm (levels h n cats na) l)). fold (batches h n cats na l).
  unfold uniq. rewrite zsum_flat_map, zsum_concat.
  rewrite (filter_true (keep false)); [|reflexivity].
  apply zsum_ext_in. intros g Hg. destruct g as [|x rest]; [reflexivity|].
  rewrite merge_class_cons. cbn [zsum].
  rewrite merge1_mergef by (apply (batches_pos cats na h n l (x :: rest) P Hg); left; reflexivity).
  destruct (mergef_wtotal ds na sts k x rest Hk) as [m [Hm Ht]].
  unfold mtotal. rewrite Hm, Ht. cbn [zsum]. lia.
Qed.

(* without weight attribute: the weights of a merged_<k> map add up to the count (when it is so for the already merged inputs) *)
Definition consistent (k : N) (r : urec) : Prop := forall m, lookup k (umerged r) = Some m -> zsum snd m = ucount r.

Lemma wcontrib_consistent : forall ds na k r, snd (ds k) = None -> consistent k r -> wcontrib ds na k r = ucount r.
Proof.
  intros ds na k r U Hc. unfold wcontrib, smap. destruct (lookup k (umerged r)) as [m|] eqn:E; [apply Hc; exact E|].
  cbn [zsum snd]. rewrite wgt_unweighted by exact U. lia.
Qed.

Lemma uniq_map_total : forall cats ds sts na h n ns l k, In k sts -> snd (ds k) = None -> pos_counts l -> (forall r, In r l -> consistent k r) ->
  forall o, In o (uniq h n cats ds sts na ns l) ->
  exists m, lookup k (umerged o) = Some m /\ zsum snd m = ucount o.
Proof.
  intros cats ds sts na h n ns l k Hk U P Hl o Ho.
  destruct (out_class cats ds sts na h n ns l o Ho) as [x [rest [Ef [Eo [_ Hx]]]]].
  rewrite merge1_mergef in Eo by (apply P; exact Hx).
  assert (Hmem : forall r, In r (x :: rest) -> In r l) by (intros r Hr; rewrite <- Ef in Hr; apply (proj1 (filter_In _ _ _) Hr)).
  destruct (mergef_wtotal ds na sts k x rest Hk) as [m [Hm Ht]].
  exists m. split; [rewrite Eo; exact Hm|]. rewrite Ht, Eo, mergef_count by (intros r Hr; apply P; apply Hmem; exact Hr).
  apply zsum_ext_in. intros r Hr. apply wcontrib_consistent; [exact U | apply Hl; apply Hmem; exact Hr].
Qed.

(** * the untyped characterisation: every output record is the merge of one whole class *)
Lemma uniq_output_is_class : forall cats ds sts na h n ns l o, pos_counts l -> In o (uniq h n cats ds sts na ns l) ->
  exists x, In x l /\ useq o = useq x /\ ucount o = zsum ucount (filter (same_key cats na x) l) /\
    forall k, In k sts -> exists m, lookup k (umerged o) = Some m /\
      forall v, stat_get v m = zsum (fun r => stat_get v (smap ds na r k)) (filter (same_key cats na x) l).
Proof.
  intros cats ds sts na h n ns l o P Ho.
  destruct (out_class cats ds sts na h n ns l o Ho) as [x [rest [Ef [Eo [_ Hx]]]]].
  rewrite merge1_mergef in Eo by (apply P; exact Hx).
  exists x. split; [exact Hx | split; [rewrite Eo; apply mergef_seq | split; [rewrite Eo, Ef; apply mergef_count; apply (class_pos cats na l x rest P Ef)|]]].
  intros k Hk. destruct (mergef_stats ds na sts k 0 x rest Hk) as [m [Hm _]]. exists m. split; [rewrite Eo; exact Hm|].
  intro v. destruct (mergef_stats ds na sts k v x rest Hk) as [m' [Hm' Hs]]. rewrite Ef. congruence.
Qed.

(* per value the summed WEIGHT, when no member of the class is already merged *)
Lemma zsum_stat_raw : forall ds na k v (g : list urec), (forall r, In r g -> lookup k (umerged r) = None) ->
  zsum (fun r => stat_get v (smap ds na r k)) g = zsum (fun r => if v =? sval na r (fst (ds k)) then wgt ds r k else 0%Z) g.
Proof.
  intros ds na k v g H. apply zsum_ext_in. intros r Hr. unfold smap. rewrite (H r Hr). cbn [stat_get]. lia.
Qed.

(** * on-disk mode = in-memory mode, given the write/read round trip of the chunk files *)
Lemma flat_map_ext_in' {A B} (F G : A -> list B) l : (forall a, In a l -> F a = G a) -> flat_map F l = flat_map G l.
Proof. induction l as [|a l IH]; intro H; [reflexivity|]. cbn [flat_map]. rewrite (H a (or_introl eq_refl)), IH; [reflexivity|]. intros b Hb. apply H. right. exact Hb. Qed.

Lemma batches_as_chunks : forall h n cats na l,
  batches h n cats na l = flat_map (substep (sublevels cats na)) (groups (hash_class h n) l).
Proof. intros. unfold batches, levels, sublevels. apply subclass_cons. Qed.

Lemma disk_equals_memory : forall h n cats ds sts na ns (rt : urec -> urec) (ord : list (list urec) -> list (list urec)) l,
  (forall r, In r l -> rt r = r) -> (forall gs, Permutation (ord gs) gs) ->
  Permutation (uniq_disk h n cats ds sts na ns rt ord l) (uniq h n cats ds sts na ns l).
Proof.
  intros h n cats ds sts na ns rt ord l Hrt Hord. unfold uniq_disk, uniq.
  apply Permutation_flat_map. apply Permutation_filter.
  rewrite batches_as_chunks. unfold batches_disk.
  rewrite (flat_map_ext_in' _ (substep (sublevels cats na))).
  - apply Permutation_flat_map. apply Hord.
  - intros ch Hch. f_equal. rewrite <- (map_id ch) at 2. apply map_ext_in. intros r Hr. apply Hrt.
    apply (Permutation_in _ (Hord _)) in Hch. destruct (groups_char _ _ _ Hch) as [x [_ Eg]].
    rewrite Eg in Hr. apply (proj1 (filter_In _ _ _) Hr).
Qed.

(** * the finding: with mixed types the merged record does not show the key of its class *)
Definition mixed_witness : list urec :=
  [mkrec [97] 1 [(1, mkval 1 7 7 7 (Some 1%Z))] [];      (* sample = 1   (number) *)
   mkrec [97] 1 [(1, mkval 0 7 7 7 None)] [];            (* sample = "1" (string) *)
   mkrec [97] 1 [] []].                                  (* no sample *)

Lemma one_per_key_refuted : exists cats ds sts na h n l,
  ~ NoDup (map (key cats na) (uniq h n cats ds sts na false l)).
Proof.
  exists [1], dflt, (@nil N), 9, sum_hash, 2%nat, mixed_witness.
  vm_compute. intro H. inversion H as [|a t Hn _]. apply Hn. left. reflexivity.
Qed.

Lemma keys_exact_refuted : exists cats ds sts na h n l k,
  In k (map (key cats na) (uniq h n cats ds sts na false l)) /\ ~ In k (map (key cats na) l).
Proof.
  exists [1], dflt, (@nil N), 9, sum_hash, 2%nat, (firstn 2 mixed_witness). eexists.
  split; [vm_compute; left; reflexivity|]. vm_compute. intros [H|[H|[]]]; discriminate.
Qed.

(* per value the summed WEIGHT, for a class of raw (not yet merged) records *)
Lemma uniq_merged_raw : forall cats ds sts na h n ns l o k, pos_counts l -> typed cats l -> In o (uniq h n cats ds sts na ns l) -> In k sts ->
  (forall r, In r l -> lookup k (umerged r) = None) ->
  exists m, lookup k (umerged o) = Some m /\
    forall v, stat_get v m = zsum (fun r => if v =? sval na r (fst (ds k)) then wgt ds r k else 0%Z) (filter (same_key cats na o) l).
Proof.
  intros cats ds sts na h n ns l o k P T Ho Hk Hraw.
  destruct (uniq_merged cats ds sts na h n ns l o k P T Ho Hk) as [m [Hm Hs]]. exists m. split; [exact Hm|].
  intro v. rewrite Hs. apply zsum_stat_raw. intros r Hr. apply Hraw. apply (proj1 (filter_In _ _ _) Hr).
Qed.

(** * counts < 1 are outside the property: SetCount turns every intermediate total < 1 into 1, so that the count of a
    class depends on the order in which its records are merged *)
Lemma count_is_sum_nonpositive_refuted : exists l l' o o',
  Permutation l l' /\ In o (uniq sum_hash 1 [] dflt [] 9 false l) /\ In o' (uniq sum_hash 1 [] dflt [] 9 false l') /\
  useq o = useq o' /\ ucount o <> ucount o' /\ ucount o <> zsum ucount l.
Proof.
  exists [mkrec [97] 0 [] []; mkrec [97] 0 [] []; mkrec [97] 5 [] []], [mkrec [97] 5 [] []; mkrec [97] 0 [] []; mkrec [97] 0 [] []].
  eexists. eexists. split; [|split; [vm_compute; left; reflexivity | split; [vm_compute; left; reflexivity|]]].
  - apply perm_trans with [mkrec [97] 0 [] []; mkrec [97] 5 [] []; mkrec [97] 0 [] []]; [apply perm_skip; apply perm_swap | apply perm_swap].
  - vm_compute. repeat split; discriminate.
Qed.

(** ====================================================================================================
    Round 3 *)
From Coq Require Import Sorted Arith.

(** * round 3: classifier tables and ISequenceSubChunk *)
Lemma index_of_some : forall tbl v k, index_of v tbl = Some k -> nth_error tbl k = Some v.
Proof.
  induction tbl as [|w t IH]; intros v k H; cbn [index_of] in H; [discriminate|].
  destruct (lN_eqb v w) eqn:E.
  - inversion H; subst k. apply lN_eqb_eq in E. subst w. reflexivity.
  - destruct (index_of v t) as [k'|] eqn:E'; cbn in H; [|discriminate]. inversion H; subst k. cbn. apply IH. exact E'.
Qed.

Lemma index_of_none : forall tbl v, index_of v tbl = None -> ~ In v tbl.
Proof.
  induction tbl as [|w t IH]; intros v H; [intros []|]. cbn [index_of] in H.
  destruct (lN_eqb v w) eqn:E; [discriminate|]. destruct (index_of v t) eqn:E'; [discriminate|].
  intros [Hw|Hin]; [subst w; rewrite lN_eqb_refl in E; discriminate | exact (IH v E' Hin)].
Qed.

Lemma code1_value : forall tbl v, cvalue (snd (code1 tbl v)) (fst (code1 tbl v)) = Some v.
Proof.
  intros tbl v. unfold code1, cvalue. destruct (index_of v tbl) as [k|] eqn:E; cbn [fst snd].
  - apply index_of_some. exact E.
  - rewrite nth_error_app2 by lia. rewrite Nat.sub_diag. reflexivity.
Qed.

(* a code stays decodable as long as the table is not reset *)
Lemma code1_keeps : forall tbl v k w, cvalue tbl k = Some w -> cvalue (snd (code1 tbl v)) k = Some w.
Proof.
  intros tbl v k w H. unfold code1, cvalue in *. destruct (index_of v tbl); cbn [snd]; [exact H|].
  rewrite nth_error_app1; [exact H|]. apply nth_error_Some. congruence.
Qed.

Lemma code1_nodup : forall tbl v, NoDup tbl -> NoDup (snd (code1 tbl v)).
Proof.
  intros tbl v H. unfold code1. destruct (index_of v tbl) eqn:E; cbn [snd]; [exact H|].
  apply NoDup_app_intro; [exact H | constructor; [intros []|constructor] |].
  intros x Hx [Hv|[]]. subst x. exact (index_of_none _ _ E Hx).
Qed.

Lemma code1_ext : forall tbl v, exists ext, snd (code1 tbl v) = tbl ++ ext.
Proof.
  intros tbl v. unfold code1. destruct (index_of v tbl); cbn [snd]; [exists []; rewrite app_nil_r; reflexivity | exists [v]; reflexivity].
Qed.

Lemma table_after_ext : forall vs tbl, exists ext, table_after tbl vs = tbl ++ ext.
Proof.
  induction vs as [|v t IH]; intros tbl; cbn [table_after]; [exists []; rewrite app_nil_r; reflexivity|].
  destruct (code1_ext tbl v) as [e1 E1]. destruct (IH (snd (code1 tbl v))) as [e2 E2].
  exists (e1 ++ e2). rewrite E2, E1, app_assoc. reflexivity.
Qed.

Lemma table_after_nodup : forall vs tbl, NoDup tbl -> NoDup (table_after tbl vs).
Proof. induction vs as [|v t IH]; intros tbl H; cbn [table_after]; [exact H | apply IH, code1_nodup, H]. Qed.

(* every value is decoded by the final table at its code *)
Lemma encode_decodes : forall vs tbl,
  Forall2 (fun v k => nth_error (table_after tbl vs) k = Some v) vs (encode_from tbl vs).
Proof.
  induction vs as [|v t IH]; intros tbl; cbn [encode_from table_after]; constructor; [|apply IH].
  destruct (table_after_ext t (snd (code1 tbl v))) as [ext E]. rewrite E.
  pose proof (code1_value tbl v) as H. unfold cvalue in H.
  rewrite nth_error_app1; [exact H|]. apply nth_error_Some. congruence.
Qed.

Lemma Forall2_nth {A B} (R : A -> B -> Prop) l l' : Forall2 R l l' ->
  forall i a, nth_error l i = Some a -> exists b, nth_error l' i = Some b /\ R a b.
Proof.
  induction 1 as [|x y l l' Hxy _ IH]; intros i a Hi; [destruct i; discriminate|].
  destruct i as [|i]; cbn in *; [inversion Hi; subst; exists y; auto | apply IH; exact Hi].
Qed.

Lemma NoDup_nth_eq {A} (l : list A) i j a : NoDup l -> nth_error l i = Some a -> nth_error l j = Some a -> i = j.
Proof.
  intros ND Hi Hj. apply (proj1 (NoDup_nth_error l) ND); [apply nth_error_Some; congruence | congruence].
Qed.

Lemma codes_separate : forall vs i j vi vj, nth_error vs i = Some vi -> nth_error vs j = Some vj ->
  (nth_error (encode_from [] vs) i = nth_error (encode_from [] vs) j <-> vi = vj).
Proof.
  intros vs i j vi vj Hi Hj.
  destruct (Forall2_nth _ _ _ (encode_decodes vs []) i vi Hi) as [ki [Eki Hki]].
  destruct (Forall2_nth _ _ _ (encode_decodes vs []) j vj Hj) as [kj [Ekj Hkj]].
  rewrite Eki, Ekj. split.
  - intro E. inversion E; subst kj. congruence.
  - intro E. subst vj. f_equal. exact (NoDup_nth_eq _ _ _ _ (table_after_nodup vs [] (NoDup_nil _)) Hki Hkj).
Qed.

Lemma value_of_code : forall vs i vi, nth_error vs i = Some vi ->
  exists k, nth_error (encode_from [] vs) i = Some k /\ cvalue (table_after [] vs) k = Some vi.
Proof. intros vs i vi Hi. exact (Forall2_nth _ _ _ (encode_decodes vs []) i vi Hi). Qed.

(** the table is [dedup]: the values in order of first appearance *)
Definition notin (tbl : list (list N)) (c : list N) : bool := negb (existsb (lN_eqb c) tbl).

Lemma notin_true : forall tbl c, notin tbl c = true <-> ~ In c tbl.
Proof.
  intros tbl c. unfold notin. rewrite negb_true_iff. split.
  - intros H Hin. assert (existsb (lN_eqb c) tbl = true) by (apply existsb_exists; exists c; split; [exact Hin | apply lN_eqb_refl]). congruence.
  - intro H. destruct (existsb (lN_eqb c) tbl) eqn:E; [|reflexivity]. apply existsb_exists in E. destruct E as [x [Hx Ex]].
    apply lN_eqb_eq in Ex. subst x. contradiction.
Qed.

Lemma filter_ext_in' {A} (p q : A -> bool) l : (forall x, In x l -> p x = q x) -> filter p l = filter q l.
Proof.
  induction l as [|a l IH]; intro H; [reflexivity|]. cbn. rewrite (H a (or_introl eq_refl)), IH; [reflexivity|].
  intros x Hx. apply H. right. exact Hx.
Qed.

Lemma table_after_dedup : forall vs tbl, table_after tbl vs = tbl ++ filter (notin tbl) (dedup vs).
Proof.
  induction vs as [|v t IH]; intros tbl; cbn [table_after dedup]; [cbn; rewrite app_nil_r; reflexivity|].
  rewrite IH. unfold code1. destruct (index_of v tbl) as [k|] eqn:E; cbn [snd].
  - assert (Hin : In v tbl) by (eapply nth_error_In, index_of_some, E).
    cbn [filter]. replace (notin tbl v) with false by (symmetry; apply not_true_iff_false; rewrite notin_true; tauto).
    rewrite filter_filter. f_equal. apply filter_ext_in'. intros x _.
    destruct (lN_eqb v x) eqn:Ex; cbn; [|reflexivity]. apply lN_eqb_eq in Ex. subst x.
    apply not_true_iff_false. rewrite notin_true. tauto.
  - pose proof (index_of_none _ _ E) as Hn. cbn [filter].
    replace (notin tbl v) with true by (symmetry; apply notin_true; exact Hn).
    rewrite <- app_assoc. cbn [app]. do 2 f_equal. rewrite filter_filter. apply filter_ext_in'. intros x _.
    unfold notin. rewrite existsb_app. cbn [existsb]. rewrite orb_false_r, negb_orb.
    rewrite andb_comm. f_equal. f_equal.
    destruct (lN_eqb v x) eqn:E1, (lN_eqb x v) eqn:E2; try reflexivity.
    + apply lN_eqb_eq in E1. subst x. rewrite lN_eqb_refl in E2. discriminate.
    + apply lN_eqb_eq in E2. subst x. rewrite lN_eqb_refl in E1. discriminate.
Qed.

Lemma table_is_dedup : forall vs, table_after [] vs = dedup vs.
Proof. intro vs. rewrite table_after_dedup. cbn [app]. apply filter_true. intros x _. reflexivity. Qed.

Section SubChunkProofs.
  Context {A : Type}.
  Variable f : A -> list N.
  Notation cell := (nat * A)%type.

  Definition has (j : nat) (x : cell) : bool := (fst x =? j)%nat.

  Lemma runs_head : forall (t : list cell) y t', t = y :: t' -> exists r rs, runs t = (y :: r) :: rs.
  Proof.
    induction t as [|x t IH]; intros y t' E; [discriminate|]. inversion E; subst x t'. cbn [runs].
    destruct t as [|z t'']; [cbn; eauto|].
    destruct (IH z t'' eq_refl) as [r [rs Er]]. rewrite Er. destruct (fst y =? fst z)%nat; eauto.
  Qed.

  (* a non-empty block of code k in front of a list that starts with another code is the first run *)
  Lemma runs_app : forall (a rest : list cell) k, a <> [] -> (forall x, In x a -> fst x = k) ->
    (forall y, In y rest -> fst y <> k) -> runs (a ++ rest) = a :: runs rest.
  Proof.
    induction a as [|x a IH]; intros rest k Hne Ha Hrest; [congruence|].
    destruct a as [|x' a'].
    - cbn [app runs]. destruct rest as [|y rest']; [reflexivity|].
      destruct (runs_head (y :: rest') y rest' eq_refl) as [r [rs Er]]. rewrite Er.
      assert (fst x =? fst y = false)%nat as ->; [|reflexivity].
      apply Nat.eqb_neq. rewrite (Ha x (or_introl eq_refl)). intro E. apply (Hrest y (or_introl eq_refl)). auto.
    - change ((x :: x' :: a') ++ rest) with (x :: ((x' :: a') ++ rest)). cbn [runs].
      rewrite (IH rest k); [|discriminate | intros z Hz; apply Ha; right; exact Hz | exact Hrest].
      assert (fst x =? fst x' = true)%nat as ->; [|reflexivity].
      apply Nat.eqb_eq. rewrite (Ha x (or_introl eq_refl)), (Ha x' (or_intror (or_introl eq_refl))). reflexivity.
  Qed.

  Lemma sorted_split : forall (s : list cell) k, StronglySorted le (map fst s) -> (forall x, In x s -> (k <= fst x)%nat) ->
    s = filter (has k) s ++ filter (fun x => negb (has k x)) s.
  Proof.
    induction s as [|x s IH]; intros k Hs Hge; [reflexivity|]. cbn [map] in Hs. inversion Hs as [|? ? Hs' Hall]; subst.
    cbn [filter]. destruct (has k x) eqn:E; cbn [negb]; unfold has in E.
    - cbn [app]. f_equal. apply IH; [exact Hs' | intros y Hy; apply Hge; right; exact Hy].
    - (* x has a larger code: nothing after it has code k *)
      assert (Hnone : filter (has k) s = []).
      { apply filter_false. intros y Hy. unfold has. apply Nat.eqb_neq.
        rewrite Forall_forall in Hall. specialize (Hall (fst y) (in_map fst _ _ Hy)).
        apply Nat.eqb_neq in E. specialize (Hge x (or_introl eq_refl)). lia. }
      rewrite Hnone. cbn [app]. f_equal. rewrite filter_true; [reflexivity|].
      intros y Hy. apply negb_true_iff. destruct (has k y) eqn:Ey; [|reflexivity].
      assert (In y (filter (has k) s)) by (apply filter_In; auto). rewrite Hnone in H. destruct H.
  Qed.

  Lemma sorted_filter : forall (p : cell -> bool) (s : list cell), StronglySorted le (map fst s) -> StronglySorted le (map fst (filter p s)).
  Proof.
    induction s as [|x s IH]; intro Hs; [constructor|]. cbn [map] in Hs. inversion Hs as [|? ? Hs' Hall]; subst.
    cbn [filter]. destruct (p x); [|apply IH; exact Hs']. cbn [map]. constructor; [apply IH; exact Hs'|].
    rewrite Forall_forall in *. intros n Hn. apply in_map_iff in Hn. destruct Hn as [y [Ey Hy]]. subst n.
    apply Hall. apply in_map. apply filter_In in Hy. tauto.
  Qed.

  (* a sorted list whose codes are exactly k .. k+n-1: its runs are the blocks of each code, in order *)
  Lemma runs_blocks : forall n k (s : list cell), StronglySorted le (map fst s) ->
    (forall x, In x s -> (k <= fst x < k + n)%nat) -> (forall j, (k <= j < k + n)%nat -> exists x, In x s /\ fst x = j) ->
    runs s = map (fun j => filter (has j) s) (seq k n).
  Proof.
    induction n as [|n IH]; intros k s Hs Hin Hall.
    - destruct s as [|x s]; [reflexivity|]. specialize (Hin x (or_introl eq_refl)). lia.
    - cbn [seq map].
      rewrite (sorted_split s k Hs) at 1 by (intros x Hx; apply Hin in Hx; lia).
      rewrite (runs_app _ _ k).
      + f_equal. rewrite (IH (S k)).
        * apply map_ext_in. intros j Hj. apply in_seq in Hj. rewrite filter_filter. apply filter_ext_in'. intros x _.
          unfold has. destruct (fst x =? j)%nat eqn:E; [|rewrite andb_false_r; reflexivity].
          apply Nat.eqb_eq in E. assert (fst x =? k = false)%nat as -> by (apply Nat.eqb_neq; lia). reflexivity.
        * apply sorted_filter. exact Hs.
        * intros x Hx. apply filter_In in Hx. destruct Hx as [Hx Hk]. apply Hin in Hx. apply negb_true_iff in Hk. unfold has in Hk. apply Nat.eqb_neq in Hk. lia.
        * intros j Hj. destruct (Hall j) as [x [Hx Ex]]; [lia|]. exists x. split; [|exact Ex]. apply filter_In. split; [exact Hx|].
          apply negb_true_iff. unfold has. apply Nat.eqb_neq. lia.
      + destruct (Hall k) as [x [Hx Ex]]; [lia|]. intro E.
        assert (In x (filter (has k) s)) by (apply filter_In; split; [exact Hx | unfold has; apply Nat.eqb_eq; exact Ex]).
        rewrite E in H. destruct H.
      + intros x Hx. apply filter_In in Hx. destruct Hx as [_ Hx]. unfold has in Hx. apply Nat.eqb_eq. exact Hx.
      + intros y Hy. apply filter_In in Hy. destruct Hy as [_ Hy]. apply negb_true_iff in Hy. unfold has in Hy. apply Nat.eqb_neq. exact Hy.
  Qed.

  (* the cells of code j of the coded batch are the records whose value is the j-th entry of the table *)
  Lemma coded_class : forall (T : list (list N)) (b : list A) (codes : list nat) j c, NoDup T -> nth_error T j = Some c ->
    Forall2 (fun r k => nth_error T k = Some (f r)) b codes ->
    map snd (filter (has j) (combine codes b)) = filter (fun r => lN_eqb c (f r)) b.
  Proof.
    intros T b codes j c ND Hj H. induction H as [|r k b codes Hr _ IH]; [reflexivity|].
    cbn [combine filter]. unfold has at 1. cbn [fst].
    destruct (k =? j)%nat eqn:E.
    - apply Nat.eqb_eq in E. subst k. assert (c = f r) by congruence. subst c. rewrite lN_eqb_refl. cbn [map snd]. f_equal. exact IH.
    - destruct (lN_eqb c (f r)) eqn:E2; [|exact IH]. apply lN_eqb_eq in E2. subst c.
      apply Nat.eqb_neq in E. exfalso. apply E. exact (NoDup_nth_eq _ _ _ _ ND Hr Hj).
  Qed.

  Lemma coded_forall2 : forall b, Forall2 (fun r k => nth_error (dedup (map f b)) k = Some (f r)) b (encode_from [] (map f b)).
  Proof.
    intro b. pose proof (encode_decodes (map f b) []) as H. rewrite table_is_dedup in H.
    remember (encode_from [] (map f b)) as codes. clear Heqcodes. remember (dedup (map f b)) as T. clear HeqT.
    revert codes H. induction b as [|r b IH]; intros codes H; inversion H; subst; constructor; auto.
  Qed.

  Lemma Forall2_map_seq {X Y} (R : X -> Y -> Prop) (F : nat -> X) (G : list N -> Y) : forall (T : list (list N)) k,
    (forall j c, nth_error T j = Some c -> R (F (k + j)%nat) (G c)) -> Forall2 R (map F (seq k (length T))) (map G T).
  Proof.
    induction T as [|c T IH]; intros k H; cbn [length seq map]; constructor.
    - specialize (H 0%nat c eq_refl). rewrite Nat.add_0_r in H. exact H.
    - apply IH. intros j c' Hj. specialize (H (S j) c' Hj). rewrite Nat.add_succ_r in H. exact H.
  Qed.

  Lemma combine_in : forall (b : list A) (codes : list nat) (P : A -> nat -> Prop), Forall2 P b codes ->
    (forall x, In x (combine codes b) -> P (snd x) (fst x)) /\ (forall r, In r b -> exists k, In (k, r) (combine codes b)).
  Proof.
    intros b codes P H. induction H as [|r k b codes Hr _ [IH1 IH2]]; [split; [intros x []|intros r []]|]. split.
    - intros x [E|Hx]; [subst x; exact Hr | apply IH1; exact Hx].
    - intros r' [E|Hr']; [subst r'; exists k; left; reflexivity | destruct (IH2 r' Hr') as [k' Hk']; exists k'; right; exact Hk'].
  Qed.

  (** whatever (possibly unstable) sort orders the coded records by code, the maximal runs of equal codes are, in order,
      rearrangements of the classes of the specification (classes in order of first appearance) *)
  Theorem subchunk_any_sort : forall (b : list A) (s : list cell),
    Permutation s (coded f b) -> StronglySorted le (map fst s) ->
    Forall2 (@Permutation A) (classes_of_sorted s) (groupsA f b).
  Proof.
    intros b s Hp Hs. set (T := dedup (map f b)).
    assert (ND : NoDup T) by apply dedup_NoDup.
    pose proof (coded_forall2 b) as HF. fold T in HF.
    destruct (combine_in _ _ _ HF) as [Hc1 Hc2]. fold (coded f b) in Hc1, Hc2.
    assert (Hruns : runs s = map (fun j => filter (has j) s) (seq 0 (length T))).
    { apply runs_blocks; [exact Hs | |].
      - intros x Hx. apply (Permutation_in _ Hp) in Hx. specialize (Hc1 x Hx). cbn beta in Hc1.
        assert (fst x < length T)%nat by (apply nth_error_Some; congruence). lia.
      - intros j Hj. destruct (nth_error T j) as [c|] eqn:Ec; [|apply nth_error_None in Ec; lia].
        assert (In c (map f b)) by (apply dedup_In; fold T; eapply nth_error_In, Ec).
        apply in_map_iff in H. destruct H as [r [Er Hr]]. destruct (Hc2 r Hr) as [k Hk].
        exists (k, r). split; [apply (Permutation_in _ (Permutation_sym Hp)); exact Hk|]. cbn [fst].
        specialize (Hc1 _ Hk). cbn [fst snd] in Hc1. rewrite Er in Hc1. exact (NoDup_nth_eq _ _ _ _ ND Hc1 Ec). }
    unfold classes_of_sorted, groupsA. fold T. rewrite Hruns, map_map.
    apply Forall2_map_seq. intros j c Hj. cbn [Nat.add].
    rewrite <- (coded_class T b (encode_from [] (map f b)) j c ND Hj HF).
    apply Permutation_map. apply Permutation_filter. exact Hp.
  Qed.

  Lemma insert_perm : forall (x : cell) l, Permutation (insert_code x l) (x :: l).
  Proof.
    induction l as [|y l IH]; cbn [insert_code]; [reflexivity|]. destruct (fst x <=? fst y)%nat; [reflexivity|].
    rewrite IH. apply perm_swap.
  Qed.

  Lemma sort_codes_perm : forall l : list cell, Permutation (sort_codes l) l.
  Proof. induction l as [|x l IH]; cbn; [reflexivity|]. rewrite insert_perm. constructor. exact IH. Qed.

  Lemma insert_sorted : forall (x : cell) l, StronglySorted le (map fst l) -> StronglySorted le (map fst (insert_code x l)).
  Proof.
    induction l as [|y l IH]; intro Hs; cbn [insert_code map]; [constructor; constructor|].
    cbn [map] in Hs. inversion Hs as [|? ? Hs' Hall]; subst.
    destruct (fst x <=? fst y)%nat eqn:E.
    - cbn [map]. apply Nat.leb_le in E. constructor; [exact Hs|]. constructor; [exact E|].
      rewrite Forall_forall in *. intros n Hn. specialize (Hall n Hn). lia.
    - cbn [map]. apply Nat.leb_gt in E. constructor; [apply IH; exact Hs'|].
      rewrite Forall_forall in *. intros n Hn.
      apply in_map_iff in Hn. destruct Hn as [z [Ez Hz]]. subst n.
      apply (Permutation_in _ (insert_perm x l)) in Hz. destruct Hz as [Hz|Hz]; [subst z; lia | apply Hall; apply in_map; exact Hz].
  Qed.

  Lemma sort_codes_sorted : forall l : list cell, StronglySorted le (map fst (sort_codes l)).
  Proof. induction l as [|x l IH]; cbn; [constructor | apply insert_sorted; exact IH]. Qed.

  (** in particular for the sort the model evaluates *)
  Corollary subchunk_classes : forall b, Forall2 (@Permutation A) (subchunk f b) (groupsA f b).
  Proof. intro b. apply subchunk_any_sort; [apply sort_codes_perm | apply sort_codes_sorted]. Qed.
End SubChunkProofs.

Lemma groups_is_groupsA : forall f l, groups f l = groupsA f l.
Proof. reflexivity. Qed.

(** * obidemerge -d key:weight *)
Lemma demerge1w_same : forall k r, demerge1w k k r = demerge1 k r.
Proof. reflexivity. Qed.

Lemma demerge1w_spec : forall a k r m, lookup k (umerged r) = Some m ->
  map (fun r' => (lookup a (uann r'), ucount r')) (demerge1w a k r) = map (fun vw => (Some (strval (fst vw)), clamp1 (snd vw))) m /\
  forall r', In r' (demerge1w a k r) -> useq r' = useq r /\ lookup k (umerged r') = None.
Proof.
  intros a k r m Hm. unfold demerge1w. rewrite Hm. split.
  - rewrite map_map. apply map_ext. intros vw. cbn [uann ucount lookup]. rewrite N.eqb_refl. reflexivity.
  - intros r' Hr'. apply in_map_iff in Hr'. destruct Hr' as [vw [E _]]. subst r'. cbn [useq umerged]. split; [reflexivity | apply lookup_mremove].
Qed.

(** * obiuniq -m key:w | obidemerge -d key:w | obiuniq -m key *)
Section DemergeW.
  Variable na : N.
  Variable a s : N.          (* attribute key, slot key:weight *)
  Variable ds : dspec.       (* descriptors of the first pass *)

  Lemma lookup_mremove_other {V} : forall (m : list (N * V)) k k', lookup k m = None -> lookup k (mremove k' m) = None.
  Proof.
    induction m as [|[k0 v] t IH]; intros k k' H; cbn [mremove lookup] in *; [reflexivity|].
    destruct (k =? k0) eqn:E; [discriminate|]. destruct (k' =? k0); [apply IH; exact H|]. cbn [lookup]. rewrite E. apply IH. exact H.
  Qed.

  Lemma demerge1w_seq : forall r r', In r' (demerge1w a s r) -> useq r' = useq r.
  Proof.
    intros r r' H. unfold demerge1w in H. destruct (lookup s (umerged r)) as [m|].
    - apply in_map_iff in H. destruct H as [vw [E _]]. subst r'. reflexivity.
    - destruct H as [H|[]]. subst r'. reflexivity.
  Qed.

  Lemma demerge1w_contrib : forall r m v, lookup s (umerged r) = Some m -> lookup a (mremove s (umerged r)) = None ->
    (forall vw, In vw m -> (1 <= snd vw)%Z) ->
    zsum (fun r' => stat_get v (smap dflt na r' a)) (demerge1w a s r) = stat_get v m.
  Proof.
    intros r m v Hm Hnone Hpos. unfold demerge1w. rewrite Hm. rewrite zsum_map.
    clear Hm. induction m as [|[v' w] t IH]; cbn [zsum stat_get]; [reflexivity|].
    rewrite IH; [|intros vw Hvw; apply Hpos; right; exact Hvw]. f_equal.
    unfold smap. cbn [umerged]. rewrite Hnone. unfold sval, wgt, dflt. cbn [uann lookup fst snd ucount strval vstat]. rewrite N.eqb_refl.
    pose proof (Hpos (v', w) (or_introl eq_refl)) as Hw. cbn [snd] in Hw.
    rewrite clamp1_pos by exact Hw. cbn [stat_get strval vstat]. lia.
  Qed.

  Lemma demerge1w_count : forall r m, lookup s (umerged r) = Some m ->
    (forall vw, In vw m -> (1 <= snd vw)%Z) -> zsum ucount (demerge1w a s r) = zsum snd m.
  Proof.
    intros r m Hm Hpos. unfold demerge1w. rewrite Hm. rewrite zsum_map.
    clear Hm. induction m as [|[v' w] t IH]; cbn [zsum]; [reflexivity|].
    rewrite IH; [|intros vw Hvw; apply Hpos; right; exact Hvw]. f_equal. cbn [ucount snd].
    pose proof (Hpos (v', w) (or_introl eq_refl)) as Hw. cbn [snd] in Hw.
    rewrite clamp1_pos by exact Hw. reflexivity.
  Qed.

  Lemma filter_demergew_none : forall (outs : list urec) (sq : list N) (p : urec -> bool),
    (forall o, In o outs -> useq o <> sq) -> (forall r, useq r <> sq -> p r = false) ->
    flat_map (fun x => filter p (demerge1w a s x)) outs = [].
  Proof.
    induction outs as [|o outs IH]; intros sq p Hall Hno; [reflexivity|]. cbn [flat_map].
    rewrite filter_false.
    - cbn. apply (IH sq); [intros o' Ho'; apply Hall; right; exact Ho' | exact Hno].
    - intros r Hr. apply Hno. rewrite (demerge1w_seq _ _ Hr). apply Hall. left. reflexivity.
  Qed.

  Lemma filter_demergew_unique : forall (outs : list urec) o1 (p : urec -> bool),
    NoDup (map useq outs) -> In o1 outs ->
    (forall r, useq r = useq o1 -> p r = true) -> (forall r, useq r <> useq o1 -> p r = false) ->
    filter p (demergew a s outs) = demerge1w a s o1.
  Proof.
    intros outs o1 p Hnd Hin Hyes Hno. unfold demergew. rewrite filter_flat_map.
    induction outs as [|o outs IH]; [destruct Hin|]. cbn [flat_map]. cbn [map] in Hnd. inversion Hnd as [|s0 l0 Hnotin Hnd']; subst.
    destruct Hin as [E|Hin].
    - subst o. rewrite filter_true; [|intros r Hr; apply Hyes; apply demerge1w_seq; exact Hr].
      rewrite (filter_demergew_none outs (useq o1) p); [apply app_nil_r | | exact Hno].
      intros o Ho Hc. apply Hnotin. rewrite <- Hc. apply in_map. exact Ho.
    - rewrite filter_false.
      + cbn. apply IH; assumption.
      + intros r Hr. apply Hno. rewrite (demerge1w_seq _ _ Hr). intro Hc. apply Hnotin. rewrite Hc. apply in_map. exact Hin.
  Qed.

  Lemma demergew_pos : forall outs, pos_counts outs -> pos_counts (demergew a s outs).
  Proof.
    intros outs P r Hr. unfold demergew in Hr. apply in_flat_map in Hr. destruct Hr as [o [Ho Hr]].
    unfold demerge1w in Hr. destruct (lookup s (umerged o)) as [m|].
    - apply in_map_iff in Hr. destruct Hr as [vw [E _]]. subst r. cbn [ucount]. apply clamp1_ge.
    - destruct Hr as [E|[]]. subst r. apply P. exact Ho.
  Qed.

  Lemma demergew_inverse : forall h n h' n' l, pos_counts l ->
    let out1 := uniq h n [] ds [s] na false l in
    (forall o m vw, In o out1 -> lookup s (umerged o) = Some m -> In vw m -> (1 <= snd vw)%Z) ->
    (forall o, In o out1 -> a = s \/ lookup a (umerged o) = None) ->
    forall o2, In o2 (uniq h' n' [] dflt [a] na false (demergew a s out1)) ->
    exists o1 m1 m2, In o1 out1 /\ useq o2 = useq o1 /\
      lookup s (umerged o1) = Some m1 /\ lookup a (umerged o2) = Some m2 /\
      (forall v, stat_get v m2 = stat_get v m1) /\ ucount o2 = zsum snd m1.
  Proof.
    intros h n h' n' l PC out1 Hpos Hfree o2 Ho2.
    assert (PC2 : pos_counts (demergew a s out1)) by (apply demergew_pos; apply uniq_out_pos).
    destruct (out_char [] dflt [a] na h' n' false _ o2 (typed_nil _) Ho2) as [x2 [rest2 [Ef [Eo [_ Hx2]]]]].
    unfold demergew in Hx2. apply in_flat_map in Hx2. destruct Hx2 as [o1 [Ho1 Hx2]].
    assert (Hs : In s [s]) by (left; reflexivity). assert (Ha : In a [a]) by (left; reflexivity).
    destruct (uniq_merged [] ds [s] na h n false l o1 s PC (typed_nil _) Ho1 Hs) as [m1 [Hm1 _]].
    destruct (uniq_merged [] dflt [a] na h' n' false _ o2 a PC2 (typed_nil _) Ho2 Ha) as [m2 [Hm2 Hs2]].
    assert (Hseq : useq o2 = useq o1).
    { rewrite Eo, (proj1 (merge1_seq_ann dflt na [a] x2 rest2)), mergef_seq. apply demerge1w_seq. exact Hx2. }
    assert (Hnd : NoDup (map useq out1)).
    { pose proof (uniq_keys_nodup [] ds [s] na h n false l (typed_nil _)) as H. fold out1 in H.
      apply (NoDup_map_inv (fun sq => (sq, @nil N))). rewrite map_map. exact H. }
    assert (Ecls : filter (same_key [] na o2) (demergew a s out1) = demerge1w a s o1).
    { apply filter_demergew_unique; auto.
      - intros r Hr. unfold same_key. cbn [map]. rewrite Hseq, <- Hr, lN_eqb_refl. reflexivity.
      - intros r Hr. unfold same_key. cbn [map]. rewrite Hseq.
        destruct (lN_eqb (useq o1) (useq r)) eqn:E; [apply lN_eqb_eq in E; congruence | reflexivity]. }
    assert (Hnone : lookup a (mremove s (umerged o1)) = None).
    { destruct (Hfree o1 Ho1) as [E|E]; [subst a; apply lookup_mremove | apply lookup_mremove_other; exact E]. }
    exists o1, m1, m2. repeat split; auto.
    - intro v. rewrite Hs2, Ecls. apply demerge1w_contrib; [exact Hm1 | exact Hnone |]. intros vw Hvw. exact (Hpos o1 m1 vw Ho1 Hm1 Hvw).
    - rewrite (uniq_count [] dflt [a] na h' n' false _ o2 PC2 (typed_nil _) Ho2), Ecls.
      apply demerge1w_count; [exact Hm1|]. intros vw Hvw. exact (Hpos o1 m1 vw Ho1 Hm1 Hvw).
  Qed.
End DemergeW.

(** * the stable sort of the evaluated model *)
Section SubChunkStable.
  Context {A : Type}.
  Variable f : A -> list N.
  Notation cell := (nat * A)%type.

  Lemma filter_insert_code : forall j (x : cell) l,
    filter (has j) (insert_code x l) = if has j x then x :: filter (has j) l else filter (has j) l.
  Proof.
    intros j x. induction l as [|y l IH]; cbn [insert_code].
    - cbn [filter]. destruct (has j x); reflexivity.
    - destruct (fst x <=? fst y)%nat eqn:E.
      + cbn [filter]. destruct (has j x); reflexivity.
      + apply Nat.leb_gt in E. cbn [filter]. rewrite IH. destruct (has j x) eqn:Hx; [|reflexivity].
        assert (has j y = false) as ->; [|reflexivity].
        unfold has in *. apply Nat.eqb_eq in Hx. apply Nat.eqb_neq. lia.
  Qed.

  Lemma filter_sort_codes : forall j (l : list cell), filter (has j) (sort_codes l) = filter (has j) l.
  Proof.
    intros j. induction l as [|x l IH]; [reflexivity|]. cbn [sort_codes fold_right]. fold (sort_codes l).
    rewrite filter_insert_code, IH. cbn [filter]. reflexivity.
  Qed.

  Lemma Forall2_eq {X} (l l' : list X) : Forall2 eq l l' -> l = l'.
  Proof. induction 1; [reflexivity | subst; reflexivity]. Qed.

  (** with the stable sort the model evaluates, the batches pushed are exactly the classes of the specification *)
  Theorem subchunk_stable : forall b : list A, subchunk f b = groupsA f b.
  Proof.
    intro b. set (T := dedup (map f b)).
    assert (ND : NoDup T) by apply dedup_NoDup.
    pose proof (coded_forall2 f b) as HF. fold T in HF.
    destruct (combine_in _ _ _ HF) as [Hc1 Hc2]. fold (coded f b) in Hc1, Hc2.
    pose proof (sort_codes_perm (coded f b)) as Hp.
    assert (Hruns : runs (sort_codes (coded f b)) = map (fun j => filter (has j) (sort_codes (coded f b))) (seq 0 (length T))).
    { apply runs_blocks; [apply sort_codes_sorted | |].
      - intros x Hx. apply (Permutation_in _ Hp) in Hx. specialize (Hc1 x Hx). cbn beta in Hc1.
        assert (fst x < length T)%nat by (apply nth_error_Some; congruence). lia.
      - intros j Hj. destruct (nth_error T j) as [c|] eqn:Ec; [|apply nth_error_None in Ec; lia].
        assert (In c (map f b)) by (apply dedup_In; fold T; eapply nth_error_In, Ec).
        apply in_map_iff in H. destruct H as [r [Er Hr]]. destruct (Hc2 r Hr) as [k Hk].
        exists (k, r). split; [apply (Permutation_in _ (Permutation_sym Hp)); exact Hk|]. cbn [fst].
        specialize (Hc1 _ Hk). cbn [fst snd] in Hc1. rewrite Er in Hc1. exact (NoDup_nth_eq _ _ _ _ ND Hc1 Ec). }
    unfold subchunk, classes_of_sorted, groupsA. fold T. rewrite Hruns, map_map.
    apply Forall2_eq. apply Forall2_map_seq. intros j c Hj. cbn [Nat.add].
    rewrite filter_sort_codes. exact (coded_class f T b (encode_from [] (map f b)) j c ND Hj HF).
  Qed.
End SubChunkStable.

(** * histories of calls on one classifier object *)
(* the state after a history: the table and the codes returned so far (one entry per step) *)
Fixpoint hist_state (tbl : list (list N)) (codes : list (option nat)) (h : list cstep) : list (list N) * list (option nat) :=
  match h with
  | [] => (tbl, codes)
  | SCode v :: t => hist_state (snd (code1 tbl v)) (codes ++ [Some (fst (code1 tbl v))]) t
  | SValue j :: t => hist_state tbl (codes ++ [None]) t
  | SReset :: t => hist_state [] (codes ++ [None]) t
  end.

Lemma run_hist_app : forall h1 h2 tbl codes,
  run_hist tbl codes (h1 ++ h2) = run_hist tbl codes h1 ++ run_hist (fst (hist_state tbl codes h1)) (snd (hist_state tbl codes h1)) h2.
Proof.
  induction h1 as [|st h1 IH]; intros h2 tbl codes; [reflexivity|].
  destruct st as [v|j|]; cbn [app run_hist hist_state]; rewrite IH; reflexivity.
Qed.

Lemma run_hist_length : forall h tbl codes, length (run_hist tbl codes h) = length h.
Proof. induction h as [|st h IH]; intros tbl codes; [reflexivity|]. destruct st; cbn [run_hist length]; rewrite IH; reflexivity. Qed.

Lemma hist_state_codes : forall h tbl codes, exists ext, snd (hist_state tbl codes h) = codes ++ ext /\ length ext = length h.
Proof.
  induction h as [|st h IH]; intros tbl codes; [exists []; rewrite app_nil_r; auto|].
  destruct st as [v|j|]; cbn [hist_state];
    [destruct (IH (snd (code1 tbl v)) (codes ++ [Some (fst (code1 tbl v))])) as [e [E L]]
    |destruct (IH tbl (codes ++ [None])) as [e [E L]]
    |destruct (IH [] (codes ++ [None])) as [e [E L]]];
    rewrite E, <- app_assoc; eexists; split; try reflexivity; cbn [app length]; rewrite L; reflexivity.
Qed.

Definition no_reset (h : list cstep) : Prop := forall st, In st h -> st <> SReset.

(* without Reset a decodable code stays decodable *)
Lemma hist_state_keeps : forall h tbl codes k w, no_reset h -> cvalue tbl k = Some w -> cvalue (fst (hist_state tbl codes h)) k = Some w.
Proof.
  induction h as [|st h IH]; intros tbl codes k w NR H; [exact H|].
  assert (NR' : no_reset h) by (intros s Hs; apply NR; right; exact Hs).
  destruct st as [v|j|]; cbn [hist_state].
  - apply IH; [exact NR' | apply code1_keeps; exact H].
  - apply IH; assumption.
  - exfalso. apply (NR SReset); [left; reflexivity | reflexivity].
Qed.

(** Whatever happened before (Resets included), a value coded at step [length pre] is returned by Value of that code
    at any later step, as long as no Reset occurs in between. *)
Theorem value_after_code : forall pre v mid post, no_reset mid ->
  nth_error (run_hist [] [] (pre ++ SCode v :: mid ++ SValue (length pre) :: post)) (length pre + 1 + length mid) = Some (OVal (Some v)).
Proof.
  intros pre v mid post NR.
  rewrite run_hist_app. rewrite nth_error_app2 by (rewrite run_hist_length; lia). rewrite run_hist_length.
  replace (length pre + 1 + length mid - length pre)%nat with (S (length mid)) by lia.
  set (T0 := fst (hist_state [] [] pre)). set (C0 := snd (hist_state [] [] pre)).
  cbn [run_hist nth_error].
  rewrite run_hist_app. rewrite nth_error_app2 by (rewrite run_hist_length; lia). rewrite run_hist_length, Nat.sub_diag.
  cbn [run_hist nth_error]. do 2 f_equal.
  destruct (hist_state_codes pre [] []) as [e0 [E0 L0]]. fold C0 in E0. cbn [app] in E0.
  destruct (hist_state_codes mid (snd (code1 T0 v)) (C0 ++ [Some (fst (code1 T0 v))])) as [e1 [E1 L1]].
  rewrite E1. rewrite <- app_assoc. rewrite app_nth2 by (rewrite E0; lia).
  replace (length pre - length C0)%nat with 0%nat by (rewrite E0; lia). cbn [app nth].
  apply hist_state_keeps; [exact NR | apply code1_value].
Qed.

(** ... and a Reset in between makes the old code meaningless: the table restarts empty (codes restart at 0) *)
Lemma reset_restarts : forall pre v, run_hist [] [] (pre ++ [SReset; SCode v]) = run_hist [] [] pre ++ [ONone; OCode 0].
Proof.
  intros pre v. rewrite run_hist_app. f_equal.
Qed.
